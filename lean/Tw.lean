-- Root of the `Tw` library. Modules are built by name (`lake build Tw.Props.C08 …`).
import Tw.Model.Packer
