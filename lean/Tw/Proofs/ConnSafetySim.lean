import Tw.Proofs.ConnSafetyAbs

/-!
# C01: from the two-endpoint network model to the protocol-independent invariant

`absEnd` is the view of a concrete endpoint (`Tw.NetSim.End`) the invariant `AInv` talks about.  A
protocol variant `P` with a projection `core` of its connection object onto the online core is a
`Sim` if every returning call and every returning delivery preserves `AInv` under H1 / H2; then `AInv`
holds in every world reachable by an admissible schedule (`run_inv`).
-/
namespace Tw.NetSim
open Tw.Conn Tw.Time

/-! ## logs -/

theorem vitalOf_append (a b : List (Bytes × Bool)) : vitalOf (a ++ b) = vitalOf a ++ vitalOf b := by
  induction a with
  | nil => rfl
  | cons x xs ih => obtain ⟨d, v⟩ := x; cases v <;> simp [vitalOf, ih]

theorem nonvitalOf_append (a b : List (Bytes × Bool)) : nonvitalOf (a ++ b) = nonvitalOf a ++ nonvitalOf b := by
  induction a with
  | nil => rfl
  | cons x xs ih => obtain ⟨d, v⟩ := x; cases v <;> simp [nonvitalOf, ih]

theorem vitalPayloads_append (a b : List Event) : vitalPayloads (a ++ b) = vitalPayloads a ++ vitalPayloads b := by
  induction a with
  | nil => rfl
  | cons x xs ih =>
    cases x with
    | chunk d v => cases v <;> simp [vitalPayloads, ih]
    | _ => simp [vitalPayloads, ih]

theorem nonvitalPayloads_append (a b : List Event) :
    nonvitalPayloads (a ++ b) = nonvitalPayloads a ++ nonvitalPayloads b := by
  induction a with
  | nil => rfl
  | cons x xs ih =>
    cases x with
    | chunk d v => cases v <;> simp [nonvitalPayloads, ih]
    | _ => simp [nonvitalPayloads, ih]

theorem readyCount_append (a b : List Event) : readyCount (a ++ b) = readyCount a + readyCount b := by
  induction a with
  | nil => simp [readyCount]
  | cons x xs ih =>
    cases x <;> simp [readyCount, ih] <;> omega

/-! ## the view of an endpoint -/

def absEnt (P : Proto) (s : Sent P.Packet) : Option AEnt :=
  (P.view s.pkt).map fun v => ⟨v.1, v.2, s.nStamp, s.dStamp⟩

def absEnd (P : Proto) (core : P.Conn → Option Online) (e : End P) : AEnd :=
  ⟨core e.conn, e.out.filterMap (absEnt P), e.submittedVital, e.submittedNonvital, e.deliveredVital,
    e.deliveredNonvital⟩

/-- the entries for the datagrams with the given (ack, chunks) views, emitted now -/
def mkEnts (x : AEnd) (vs : List (Nat × List Chunk)) : List AEnt :=
  vs.map fun v => ⟨v.1, v.2, x.sub.length, x.del.length⟩

theorem stamp_filterMap (P : Proto) (ps : List P.Packet) (n d : Nat) :
    (ps.map fun p => (⟨p, n, d⟩ : Sent P.Packet)).filterMap (absEnt P) =
      (ps.filterMap P.view).map fun v => ⟨v.1, v.2, n, d⟩ := by
  induction ps with
  | nil => rfl
  | cons p ps ih =>
    simp only [List.map_cons, List.filterMap_cons]
    cases hv : P.view p with
    | none => simp [absEnt, hv, ih]
    | some v => simp [absEnt, hv, ih]

variable {P : Proto} {core : P.Conn → Option Online}

theorem absEnd_book (e : End P) (r : Ret P.Conn P.Packet) (sub : List (Bytes × Bool)) :
    (absEnd P core (e.book r sub)).st = core r.conn ∧
    (absEnd P core (e.book r sub)).out = (absEnd P core e).out ++ mkEnts (absEnd P core e) (r.sent.filterMap P.view) ∧
    (absEnd P core (e.book r sub)).sub = (absEnd P core e).sub ++ vitalOf sub ∧
    (absEnd P core (e.book r sub)).nv = (absEnd P core e).nv ++ nonvitalOf sub ∧
    (absEnd P core (e.book r sub)).del = (absEnd P core e).del ++ vitalPayloads r.events ∧
    (absEnd P core (e.book r sub)).nvDel = (absEnd P core e).nvDel ++ nonvitalPayloads r.events := by
  refine ⟨rfl, ?_, ?_, ?_, ?_, ?_⟩
  · simp only [absEnd, End.book, List.filterMap_append, mkEnts]
    rw [stamp_filterMap]
    rfl
  · simp [absEnd, End.book, End.submittedVital, vitalOf_append]
  · simp [absEnd, End.book, End.submittedNonvital, nonvitalOf_append]
  · simp [absEnd, End.book, End.deliveredVital, vitalPayloads_append]
  · simp [absEnd, End.book, End.deliveredNonvital, nonvitalPayloads_append]

/-- the result of a call that neither touches the online core nor hands anything over: control
datagrams with the current ack (and connless ones), a handshake step, or the end of the connection -/
theorem sim_quiet {cfg : Cfg} {e : End P} {r : Ret P.Conn P.Packet} {y : AEnd}
    (h : AInv cfg (absEnd P core e) y)
    (hst : core r.conn = core e.conn ∨ core r.conn = none)
    (hsent : ∀ v ∈ r.sent.filterMap P.view, v.2 = [] ∧ ∃ o, core e.conn = some o ∧ v.1 = o.ack)
    (hev : vitalPayloads r.events = [] ∧ nonvitalPayloads r.events = []) :
    AInv cfg (absEnd P core (e.book r [])) y := by
  obtain ⟨b1, b2, b3, b4, b5, b6⟩ := absEnd_book (core := core) e r []
  refine h.quiet _ (by rw [b1]; exact hst) b2 (by simpa [vitalOf] using b3) (by simpa [nonvitalOf] using b4)
    (by simpa [hev.1] using b5) (by simpa [hev.2] using b6) ?_
  intro en hen
  simp only [mkEnts, List.mem_map] at hen
  obtain ⟨v, hv, rfl⟩ := hen
  obtain ⟨a, o, ho, hack⟩ := hsent v hv
  exact ⟨a, rfl, rfl, o, ho, hack⟩

/-- the result of flush / resend / send -/
theorem sim_send {cfg : Cfg} {e : End P} {r : Ret P.Conn P.Packet} {y : AEnd}
    (h : AInv cfg (absEnd P core e) y) {o o' : Online} (hx : core e.conn = some o) (hst : core r.conn = some o')
    (fl : List Flushed) (hsent : r.sent.filterMap P.view = fl.map fun f => (f.ack, f.chunks))
    (hev : vitalPayloads r.events = [] ∧ nonvitalPayloads r.events = [])
    (sub : List (Bytes × Bool))
    (hok : SendOk cfg o' (e.submittedVital ++ vitalOf sub) (e.submittedNonvital ++ nonvitalOf sub) y.del.length)
    (hfl : FlsOk e.submittedVital e.submittedNonvital o.ack fl) (hack : o'.ack = o.ack) :
    AInv cfg (absEnd P core (e.book r sub)) y := by
  obtain ⟨b1, b2, b3, b4, b5, b6⟩ := absEnd_book (core := core) e r sub
  refine h.act_send hx (vitalOf sub) (nonvitalOf sub) fl (by rw [b1]; exact hst) ?_ b3 b4
    (by simpa [hev.1] using b5) (by simpa [hev.2] using b6) hok hfl hack
  rw [b2, hsent]
  simp [mkEnts, astamp]

theorem mem_absEnd_out {peer : End P} {dg : Sent P.Packet} (hdg : dg ∈ peer.out) {ack : Nat} {cs : List Chunk}
    (hv : P.view dg.pkt = some (ack, cs)) : (⟨ack, cs, dg.nStamp, dg.dStamp⟩ : AEnt) ∈ (absEnd P core peer).out := by
  simp only [absEnd, List.mem_filterMap]
  exact ⟨dg, hdg, by simp [absEnt, hv]⟩

/-- the ack of a delivered datagram is processed -/
theorem sim_ack {cfg : Cfg} {e peer : End P} {dg : Sent P.Packet} (hdg : dg ∈ peer.out)
    (h : AInv cfg (absEnd P core e) (absEnd P core peer)) {ack : Nat} {cs : List Chunk}
    (hv : P.view dg.pkt = some (ack, cs)) {o o1 : Online} (hx : core e.conn = some o)
    (hfa : o.feedAck ack = .ok o1) (h2 : e.nAbs < unwrap dg.dStamp ack + 1024)
    (c1 : P.Conn) (hc1 : core c1 = some o1) :
    AInv cfg (absEnd P core { e with conn := c1 }) (absEnd P core peer) :=
  h.act_ack (e := ⟨ack, cs, dg.nStamp, dg.dStamp⟩) (mem_absEnd_out hdg hv) hx hfa h2 hc1 rfl rfl rfl rfl rfl

/-- the chunks of a delivered datagram are processed -/
theorem sim_recv {cfg : Cfg} (hc : cfg.Ok) {e peer : End P} {dg : Sent P.Packet} (hdg : dg ∈ peer.out)
    (h : AInv cfg (absEnd P core e) (absEnd P core peer)) {ack : Nat} {cs : List Chunk}
    (hv : P.view dg.pkt = some (ack, cs)) {o o2 : Online} (hx : core e.conn = some o)
    {now : Nat} {send send2 : Timeout} {rr : Bool} {fl : List Flushed} {evs : List Event}
    (hr : o.receive cfg now send rr cs = .ok (o2, send2, fl, evs))
    (h2 : ∀ c ∈ cs, ∀ s r', c.vital = some (s, r') → e.dAbs + 1 < unwrap dg.nStamp s + 1024)
    {r : Ret P.Conn P.Packet} (hst : core r.conn = some o2)
    (hsent : r.sent.filterMap P.view = fl.map fun f => (f.ack, f.chunks)) (hev : r.events = evs) :
    AInv cfg (absEnd P core (e.book r [])) (absEnd P core peer) := by
  obtain ⟨b1, b2, b3, b4, b5, b6⟩ := absEnd_book (core := core) e r []
  refine h.act_recv hc (e := ⟨ack, cs, dg.nStamp, dg.dStamp⟩) (mem_absEnd_out hdg hv) hx hr h2
    (by rw [b1]; exact hst) ?_ (by simpa [vitalOf] using b3) (by simpa [nonvitalOf] using b4)
    (by rw [b5, hev]) (by rw [b6, hev])
  rw [b2, hsent]
  simp [mkEnts, astamp]

/-! ## protocol variants that preserve the invariant -/

/-- the chunks a call submits (as `step` books them) -/
def subOf {C Pk : Type} (c : Call) (r : Ret C Pk) : List (Bytes × Bool) :=
  match c with
  | .send d v => if r.accepted then [(d, v)] else []
  | _ => []

structure Sim (P : Proto) (core : P.Conn → Option Online) (cfg : Cfg) : Prop where
  init : core P.init = some .new
  call : ∀ (now : Nat) (draws : List Nat) (e : End P) (c : Call) (r : Ret P.Conn P.Packet) (y : AEnd),
    P.call now draws e.conn c = .ok r → AInv cfg (absEnd P core e) y →
    (∀ d, c = .send d true → ∀ o, P.online e.conn = some o → o.resendQueue.length < 512) →
    AInv cfg (absEnd P core (e.book r (subOf c r))) y
  recv : ∀ (now : Nat) (draws : List Nat) (e peer : End P) (dg : Sent P.Packet) (alt : P.Alt)
    (r : Ret P.Conn P.Packet), dg ∈ peer.out → P.recv now draws e.conn dg.pkt alt = .ok r →
    AInv cfg (absEnd P core e) (absEnd P core peer) →
    (∀ ack cs, P.view dg.pkt = some (ack, cs) → e.nAbs < unwrap dg.dStamp ack + 1024 ∧
      ∀ c ∈ cs, ∀ s r', c.vital = some (s, r') → e.dAbs + 1 < unwrap dg.nStamp s + 1024) →
    AInv cfg (absEnd P core (e.book r [])) (absEnd P core peer)

def WInv (P : Proto) (core : P.Conn → Option Online) (cfg : Cfg) (w : World P) : Prop :=
  AInv cfg (absEnd P core w.a) (absEnd P core w.b)

theorem WInv.side {cfg : Cfg} {w : World P} (h : WInv P core cfg w) (s : Side) :
    AInv cfg (absEnd P core (w.get s)) (absEnd P core (w.get s.other)) := by
  cases s
  · exact h
  · exact h.symm

theorem WInv.of_side {cfg : Cfg} {w : World P} (s : Side) (e : End P)
    (h : AInv cfg (absEnd P core e) (absEnd P core (w.get s.other))) : WInv P core cfg (w.set s e) := by
  cases s
  · exact h
  · exact h.symm

theorem h2_spec {w : World P} {to : Side} {i : Nat} {draws : List Nat} {alt : P.Alt} {dg : Sent P.Packet}
    (hdg : (w.get to.other).out[i]? = some dg) (h : h2 w (.deliver to i draws alt) = true) :
    ∀ ack cs, P.view dg.pkt = some (ack, cs) → (w.get to).nAbs < unwrap dg.dStamp ack + 1024 ∧
      ∀ c ∈ cs, ∀ s r', c.vital = some (s, r') → (w.get to).dAbs + 1 < unwrap dg.nStamp s + 1024 := by
  intro ack cs hv
  simp only [h2, hdg, hv, Bool.and_eq_true, decide_eq_true_eq, List.all_eq_true] at h
  rw [seqMod_eq] at h
  refine ⟨h.1, ?_⟩
  intro c hc s r' hvit
  have := h.2 c hc
  simpa [hvit] using this

theorem step_inv {cfg : Cfg} (hs : Sim P core cfg) {w w' : World P} (h : WInv P core cfg w) (m : Move P)
    (hh1 : h1 w m = true) (hh2 : h2 w m = true) (he : step w m = some w') : WInv P core cfg w' := by
  cases m with
  | advance dt =>
    simp only [step] at he
    injection he with he; subst he; exact h
  | call s draws c =>
    simp only [step] at he
    cases hr : P.call w.now draws (w.get s).conn c with
    | error e => rw [hr] at he; cases he
    | ok r =>
      rw [hr] at he
      injection he with he
      subst he
      apply WInv.of_side
      refine hs.call _ _ _ _ _ _ hr (h.side s) ?_
      intro d hcd o ho
      subst hcd
      simp only [h1, ho, decide_eq_true_eq] at hh1
      rw [seqMod_eq] at hh1
      omega
  | deliver to i draws alt =>
    simp only [step] at he
    cases hdg : (w.get to.other).out[i]? with
    | none => rw [hdg] at he; cases he
    | some dg =>
      rw [hdg] at he
      simp only at he
      cases hr : P.recv w.now draws (w.get to).conn dg.pkt alt with
      | error e => rw [hr] at he; cases he
      | ok r =>
        rw [hr] at he
        injection he with he
        subst he
        apply WInv.of_side
        exact hs.recv _ _ _ _ _ _ _ (List.mem_of_getElem? hdg) hr (h.side to) (h2_spec hdg hh2)

theorem init_inv {cfg : Cfg} (hs : Sim P core cfg) : WInv P core cfg (World.init P) := by
  have : absEnd P core ({ conn := P.init } : End P) = AEnd.init := by
    simp [absEnd, hs.init, AEnd.init, End.submittedVital, End.submittedNonvital, End.deliveredVital,
      End.deliveredNonvital, vitalOf, nonvitalOf, vitalPayloads, nonvitalPayloads]
  simp only [WInv, World.init, this]
  exact AInv.init cfg

theorem run_inv {cfg : Cfg} (hs : Sim P core cfg) : ∀ (ms : List (Move P)) (w w' : World P),
    WInv P core cfg w → admissible w ms = true → run w ms = some w' → WInv P core cfg w' := by
  intro ms
  induction ms with
  | nil => intro w w' h _ he; simp [run] at he; subst he; exact h
  | cons m ms ih =>
    intro w w' h ha he
    simp only [run] at he
    simp only [admissible, Bool.and_eq_true] at ha
    cases hst : step w m with
    | none => rw [hst] at he; cases he
    | some w1 =>
      rw [hst] at he ha
      exact ih w1 w' (step_inv hs h m ha.1.1 ha.1.2 hst) ha.2 he

/-! ## the handshake clause: `Ready` at most once, and only after the peer's accept datagram -/

theorem readyCount_pos_of_mem {evs : List Event} (h : Event.ready ∈ evs) : readyCount evs ≠ 0 := by
  induction evs with
  | nil => simp at h
  | cons x xs ih =>
    cases x with
    | ready => simp [readyCount]
    | _ =>
      simp only [List.mem_cons] at h
      rcases h with h | h
      · cases h
      · simpa [readyCount] using ih h

theorem readyCount_receiveLazy (ack : Nat) (cs : List Chunk) : readyCount (receiveLazy ack cs) = 0 := by
  induction cs generalizing ack with
  | nil => rfl
  | cons c cs ih =>
    unfold receiveLazy
    cases hv : c.vital with
    | none => simp [readyCount, ih]
    | some v =>
      obtain ⟨s, r⟩ := v
      simp only
      split
      · simp [readyCount, ih]
      · exact ih _

theorem readyCount_receive {cfg : Cfg} {now : Nat} {o : Online} {snd : Timeout} {rr : Bool} {cs : List Chunk}
    {o' : Online} {s' : Timeout} {fl : List Flushed} {evs : List Event}
    (h : o.receive cfg now snd rr cs = .ok (o', s', fl, evs)) : readyCount evs = 0 := by
  unfold Online.receive at h
  cases rr with
  | false =>
    simp only [Bool.false_eq_true, if_false] at h
    split at h
    · cases h
    · injection h with h; injection h with _ e2; injection e2 with _ e3; injection e3 with _ e4
      rw [← e4]; exact readyCount_receiveLazy _ _
  | true =>
    simp only [if_true] at h
    cases hr : o.resend cfg now snd with
    | error e => rw [hr] at h; cases h
    | ok r =>
      obtain ⟨o2, s2, f2⟩ := r
      rw [hr] at h
      simp only at h
      split at h
      · cases h
      · injection h with h; injection h with _ e2; injection e2 with _ e3; injection e3 with _ e4
        rw [← e4]; exact readyCount_receiveLazy _ _

/-- what the handshake clause needs to know about a protocol variant: `late` = online or
disconnected (the states from which the connection never reports `Ready` again) -/
structure Hs (P : Proto) (late : P.Conn → Bool) : Prop where
  call : ∀ (now : Nat) (draws : List Nat) (c : P.Conn) (cl : Call) (r : Ret P.Conn P.Packet),
    P.call now draws c cl = .ok r → readyCount r.events = 0 ∧ (late c = true → late r.conn = true)
  recv : ∀ (now : Nat) (draws : List Nat) (c : P.Conn) (p : P.Packet) (alt : P.Alt) (r : Ret P.Conn P.Packet),
    P.recv now draws c p alt = .ok r →
      (late c = true → late r.conn = true ∧ readyCount r.events = 0) ∧
      (readyCount r.events = 0 ∨ (readyCount r.events = 1 ∧ late r.conn = true ∧ P.isAccept p = true))

def Hside (P : Proto) (late : P.Conn → Bool) (e peer : End P) : Prop :=
  (readyCount e.events = 0 ∨ (readyCount e.events = 1 ∧ late e.conn = true)) ∧
  (readyCount e.events ≠ 0 → ∃ dg ∈ peer.out, P.isAccept dg.pkt = true)

def HInv (P : Proto) (late : P.Conn → Bool) (w : World P) : Prop :=
  Hside P late w.a w.b ∧ Hside P late w.b w.a

variable {late : P.Conn → Bool}

theorem Hside.mono_peer {e peer peer' : End P} (h : Hside P late e peer) (hout : ∀ dg ∈ peer.out, dg ∈ peer'.out) :
    Hside P late e peer' :=
  ⟨h.1, fun hne => by obtain ⟨dg, hdg, ha⟩ := h.2 hne; exact ⟨dg, hout dg hdg, ha⟩⟩

theorem book_out_mono (e : End P) (r : Ret P.Conn P.Packet) (sub : List (Bytes × Bool)) :
    ∀ dg ∈ e.out, dg ∈ (e.book r sub).out := by
  intro dg hdg
  simp only [End.book]
  exact List.mem_append_left _ hdg

theorem Hside.call (hs : Hs P late) {e peer : End P} (h : Hside P late e peer) {now : Nat} {draws : List Nat}
    {cl : Call} {r : Ret P.Conn P.Packet} (hr : P.call now draws e.conn cl = .ok r) (sub : List (Bytes × Bool)) :
    Hside P late (e.book r sub) peer := by
  obtain ⟨h0, hl⟩ := hs.call _ _ _ _ _ hr
  have hev : readyCount (e.book r sub).events = readyCount e.events := by
    simp [End.book, readyCount_append, h0]
  refine ⟨?_, fun hne => h.2 (by rw [← hev]; exact hne)⟩
  rw [hev]
  rcases h.1 with h1 | ⟨h1, h2⟩
  · exact Or.inl h1
  · exact Or.inr ⟨h1, hl h2⟩

theorem Hside.recv (hs : Hs P late) {e peer : End P} (h : Hside P late e peer) {now : Nat} {draws : List Nat}
    {dg : Sent P.Packet} (hdg : dg ∈ peer.out) {alt : P.Alt} {r : Ret P.Conn P.Packet}
    (hr : P.recv now draws e.conn dg.pkt alt = .ok r) : Hside P late (e.book r []) peer := by
  obtain ⟨hl, hc⟩ := hs.recv _ _ _ _ _ _ hr
  have hev : readyCount (e.book r []).events = readyCount e.events + readyCount r.events := by
    simp [End.book, readyCount_append]
  rcases h.1 with h1 | ⟨h1, h2⟩
  · rcases hc with hc | ⟨hc1, hc2, hc3⟩
    · exact ⟨Or.inl (by rw [hev, h1, hc]), fun hne => absurd (by rw [hev, h1, hc]) hne⟩
    · exact ⟨Or.inr ⟨by rw [hev, h1, hc1], hc2⟩, fun _ => ⟨dg, hdg, hc3⟩⟩
  · obtain ⟨l1, l2⟩ := hl h2
    exact ⟨Or.inr ⟨by rw [hev, h1, l2], l1⟩, fun _ => h.2 (by rw [h1]; simp)⟩

theorem step_hs (hs : Hs P late) {w w' : World P} (h : HInv P late w) (m : Move P) (he : step w m = some w') :
    HInv P late w' := by
  cases m with
  | advance dt =>
    simp only [step] at he
    injection he with he; subst he; exact h
  | call s draws c =>
    simp only [step] at he
    cases hr : P.call w.now draws (w.get s).conn c with
    | error e => rw [hr] at he; cases he
    | ok r =>
      rw [hr] at he
      injection he with he
      subst he
      cases s with
      | a => exact ⟨h.1.call hs hr _, h.2.mono_peer (book_out_mono _ _ _)⟩
      | b => exact ⟨h.1.mono_peer (book_out_mono _ _ _), h.2.call hs hr _⟩
  | deliver to i draws alt =>
    simp only [step] at he
    cases hdg : (w.get to.other).out[i]? with
    | none => rw [hdg] at he; cases he
    | some dg =>
      rw [hdg] at he
      simp only at he
      cases hr : P.recv w.now draws (w.get to).conn dg.pkt alt with
      | error e => rw [hr] at he; cases he
      | ok r =>
        rw [hr] at he
        injection he with he
        subst he
        have hm := List.mem_of_getElem? hdg
        cases to with
        | a => exact ⟨h.1.recv hs hm hr, h.2.mono_peer (book_out_mono _ _ _)⟩
        | b => exact ⟨h.1.mono_peer (book_out_mono _ _ _), h.2.recv hs hm hr⟩

theorem init_hs : HInv P late (World.init P) :=
  ⟨⟨Or.inl rfl, fun h => absurd rfl h⟩, ⟨Or.inl rfl, fun h => absurd rfl h⟩⟩

theorem run_hs (hs : Hs P late) : ∀ (ms : List (Move P)) (w w' : World P),
    HInv P late w → run w ms = some w' → HInv P late w' := by
  intro ms
  induction ms with
  | nil => intro w w' h he; simp [run] at he; subst he; exact h
  | cons m ms ih =>
    intro w w' h he
    simp only [run] at he
    cases hst : step w m with
    | none => rw [hst] at he; cases he
    | some w1 => rw [hst] at he; exact ih w1 w' (step_hs hs h m hst) he

/-- **C01 on a world**, from the two invariants -/
theorem safe_of {cfg : Cfg} {w : World P} (h1 : WInv P core cfg w) (h2 : HInv P late w) : Safe w := by
  obtain ⟨a, b, c, d⟩ := AInv.safe h1
  refine ⟨a, b, c, d, ?_, ?_, ?_, ?_⟩
  · rcases h2.1.1 with h | ⟨h, _⟩ <;> omega
  · rcases h2.2.1 with h | ⟨h, _⟩ <;> omega
  · exact fun hr => h2.1.2 (readyCount_pos_of_mem hr)
  · exact fun hr => h2.2.2 (readyCount_pos_of_mem hr)

/-! ## local invariants: a predicate on connection objects and one on datagrams -/

/-- every call keeps `S` and emits only `K`-datagrams; so does every delivery of a `K`-datagram -/
structure Loc (P : Proto) (S : P.Conn → Prop) (K : P.Packet → Prop) : Prop where
  init : S P.init
  call : ∀ (now : Nat) (draws : List Nat) (c : P.Conn) (cl : Call) (r : Ret P.Conn P.Packet),
    P.call now draws c cl = .ok r → S c → S r.conn ∧ ∀ p ∈ r.sent, K p
  recv : ∀ (now : Nat) (draws : List Nat) (c : P.Conn) (p : P.Packet) (alt : P.Alt) (r : Ret P.Conn P.Packet),
    P.recv now draws c p alt = .ok r → S c → K p → S r.conn ∧ ∀ p' ∈ r.sent, K p'

def LInv {P : Proto} (S : P.Conn → Prop) (K : P.Packet → Prop) (w : World P) : Prop :=
  (S w.a.conn ∧ ∀ dg ∈ w.a.out, K dg.pkt) ∧ (S w.b.conn ∧ ∀ dg ∈ w.b.out, K dg.pkt)

theorem LInv.side {S : P.Conn → Prop} {K : P.Packet → Prop} {w : World P} (h : LInv S K w) (s : Side) :
    S (w.get s).conn ∧ ∀ dg ∈ (w.get s).out, K dg.pkt := by
  cases s
  · exact h.1
  · exact h.2

theorem book_loc {S : P.Conn → Prop} {K : P.Packet → Prop} {e : End P} {r : Ret P.Conn P.Packet}
    (he : ∀ dg ∈ e.out, K dg.pkt) (hs : S r.conn) (hk : ∀ p ∈ r.sent, K p) (sub : List (Bytes × Bool)) :
    S (e.book r sub).conn ∧ ∀ dg ∈ (e.book r sub).out, K dg.pkt := by
  refine ⟨hs, ?_⟩
  intro dg hdg
  simp only [End.book] at hdg
  rcases List.mem_append.mp hdg with hdg | hdg
  · exact he dg hdg
  · simp only [List.mem_map] at hdg
    obtain ⟨p, hp, rfl⟩ := hdg
    exact hk p hp

theorem step_loc {S : P.Conn → Prop} {K : P.Packet → Prop} (hl : Loc P S K) {w w' : World P}
    (h : LInv S K w) (m : Move P) (he : step w m = some w') : LInv S K w' := by
  cases m with
  | advance dt =>
    simp only [step] at he
    injection he with he; subst he; exact h
  | call s draws c =>
    simp only [step] at he
    cases hr : P.call w.now draws (w.get s).conn c with
    | error e => rw [hr] at he; cases he
    | ok r =>
      rw [hr] at he
      injection he with he
      subst he
      obtain ⟨a, b⟩ := hl.call _ _ _ _ _ hr (h.side s).1
      have := book_loc (h.side s).2 a b
      cases s with
      | a => exact ⟨this _, h.2⟩
      | b => exact ⟨h.1, this _⟩
  | deliver to i draws alt =>
    simp only [step] at he
    cases hdg : (w.get to.other).out[i]? with
    | none => rw [hdg] at he; cases he
    | some dg =>
      rw [hdg] at he
      simp only at he
      cases hr : P.recv w.now draws (w.get to).conn dg.pkt alt with
      | error e => rw [hr] at he; cases he
      | ok r =>
        rw [hr] at he
        injection he with he
        subst he
        have hk := (h.side to.other).2 dg (List.mem_of_getElem? hdg)
        obtain ⟨a, b⟩ := hl.recv _ _ _ _ _ _ hr (h.side to).1 hk
        have := book_loc (h.side to).2 a b
        cases to with
        | a => exact ⟨this _, h.2⟩
        | b => exact ⟨h.1, this _⟩

theorem run_loc {S : P.Conn → Prop} {K : P.Packet → Prop} (hl : Loc P S K) :
    ∀ (ms : List (Move P)) (w w' : World P), LInv S K w → run w ms = some w' → LInv S K w' := by
  intro ms
  induction ms with
  | nil => intro w w' h he; simp [run] at he; subst he; exact h
  | cons m ms ih =>
    intro w w' h he
    simp only [run] at he
    cases hst : step w m with
    | none => rw [hst] at he; cases he
    | some w1 => rw [hst] at he; exact ih w1 w' (step_loc hl h m hst) he

theorem init_loc {S : P.Conn → Prop} {K : P.Packet → Prop} (hl : Loc P S K) : LInv S K (World.init P) :=
  ⟨⟨hl.init, by intro dg h; simp [World.init] at h⟩, ⟨hl.init, by intro dg h; simp [World.init] at h⟩⟩

/-! ## local invariants that depend on the clock -/

/-- `S now c` survives the passage of time, every call and every delivery made at time `now` -/
structure LocT (P : Proto) (S : Nat → P.Conn → Prop) : Prop where
  init : ∀ now, S now P.init
  mono : ∀ (now now' : Nat) (c : P.Conn), now ≤ now' → S now c → S now' c
  call : ∀ (now : Nat) (draws : List Nat) (c : P.Conn) (cl : Call) (r : Ret P.Conn P.Packet),
    P.call now draws c cl = .ok r → S now c → S now r.conn
  recv : ∀ (now : Nat) (draws : List Nat) (c : P.Conn) (p : P.Packet) (alt : P.Alt) (r : Ret P.Conn P.Packet),
    P.recv now draws c p alt = .ok r → S now c → S now r.conn

def TInv {P : Proto} (S : Nat → P.Conn → Prop) (w : World P) : Prop := S w.now w.a.conn ∧ S w.now w.b.conn

theorem step_loct {S : Nat → P.Conn → Prop} (hl : LocT P S) {w w' : World P} (h : TInv S w) (m : Move P)
    (he : step w m = some w') : TInv S w' := by
  cases m with
  | advance dt =>
    simp only [step] at he
    injection he with he; subst he
    exact ⟨hl.mono _ _ _ (Nat.le_add_right _ _) h.1, hl.mono _ _ _ (Nat.le_add_right _ _) h.2⟩
  | call s draws c =>
    simp only [step] at he
    cases hr : P.call w.now draws (w.get s).conn c with
    | error e => rw [hr] at he; cases he
    | ok r =>
      rw [hr] at he
      injection he with he
      subst he
      cases s with
      | a => exact ⟨hl.call _ _ _ _ _ hr h.1, h.2⟩
      | b => exact ⟨h.1, hl.call _ _ _ _ _ hr h.2⟩
  | deliver to i draws alt =>
    simp only [step] at he
    cases hdg : (w.get to.other).out[i]? with
    | none => rw [hdg] at he; cases he
    | some dg =>
      rw [hdg] at he
      simp only at he
      cases hr : P.recv w.now draws (w.get to).conn dg.pkt alt with
      | error e => rw [hr] at he; cases he
      | ok r =>
        rw [hr] at he
        injection he with he
        subst he
        cases to with
        | a => exact ⟨hl.recv _ _ _ _ _ _ hr h.1, h.2⟩
        | b => exact ⟨h.1, hl.recv _ _ _ _ _ _ hr h.2⟩

theorem run_loct {S : Nat → P.Conn → Prop} (hl : LocT P S) :
    ∀ (ms : List (Move P)) (w w' : World P), TInv S w → run w ms = some w' → TInv S w' := by
  intro ms
  induction ms with
  | nil => intro w w' h he; simp [run] at he; subst he; exact h
  | cons m ms ih =>
    intro w w' h he
    simp only [run] at he
    cases hst : step w m with
    | none => rw [hst] at he; cases he
    | some w1 => rw [hst] at he; exact ih w1 w' (step_loct hl h m hst) he

theorem init_loct {S : Nat → P.Conn → Prop} (hl : LocT P S) : TInv S (World.init P) := ⟨hl.init _, hl.init _⟩

end Tw.NetSim
