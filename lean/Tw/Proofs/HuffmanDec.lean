import Tw.Proofs.Huffman

/-! The decoder of the Huffman model: round trip, fuel, capacity. -/
namespace Tw.Huffman

/-! ### what `WellFormed` says -/

theorem WellFormed.leaf {t : Table} (h : WellFormed t) {s : Nat} (hs : s < NUM_SYMBOLS) :
    0 < symLen t s ∧ symLen t s ≤ 24 ∧ symBits t s < 2 ^ symLen t s
      ∧ walk t ROOT_IDX (codeBits t s) = some s := by
  have := h.2 s (by simp [NUM_SYMBOLS, NUM_NODES] at *; omega)
  simp only [okAt, okAtF, hs, if_true, leafOkF, Bool.and_eq_true, decide_eq_true_eq,
    beq_iff_eq] at this
  exact ⟨this.1.1.1, this.1.1.2, this.1.2, this.2⟩

theorem WellFormed.inner {t : Table} (h : WellFormed t) {i : Nat} (h1 : NUM_SYMBOLS ≤ i)
    (h2 : i < NUM_NODES) : (node t i).1 < i ∧ (node t i).2 < i ∧ (node t i).1 ≠ (node t i).2 := by
  have := h.2 i h2
  have hn : ¬ i < NUM_SYMBOLS := by omega
  simp only [okAt, okAtF, hn, if_false, innerOkF, Bool.and_eq_true, decide_eq_true_eq] at this
  exact ⟨this.1.1, this.1.2, this.2⟩

theorem WellFormed.child_lt {t : Table} (h : WellFormed t) {i : Nat} (h1 : NUM_SYMBOLS ≤ i)
    (h2 : i < NUM_NODES) (b : Bool) : child t i b < i := by
  have := h.inner h1 h2
  cases b <;> simp [child, childF, this.1, this.2.1]

/-- all the decoder's termination and capacity theorems need of a table: every inner node's children
have smaller indices -/
def ChildLt (t : Table) : Prop :=
  ∀ i, NUM_SYMBOLS ≤ i → i < NUM_NODES → ∀ b, child t i b < i

theorem WellFormed.childLt {t : Table} (h : WellFormed t) : ChildLt t :=
  fun _ h1 h2 b => h.child_lt h1 h2 b

/-! ### one step, by cases -/

theorem decStep_cases (t : Table) (cap nd : Nat) (out : List UInt8) (b : Bool) :
    (child t nd b ≥ NUM_SYMBOLS ∧ decStep t cap nd out b = .cont (child t nd b) out) ∨
    (child t nd b = EOF ∧ decStep t cap nd out b = .done out) ∨
    (child t nd b < EOF ∧ out.length ≥ cap ∧ decStep t cap nd out b = .capacity) ∨
    (child t nd b < EOF ∧ out.length < cap ∧
      decStep t cap nd out b = .cont ROOT_IDX (UInt8.ofNat (child t nd b) :: out)) := by
  simp only [decStep, NUM_SYMBOLS, EOF]
  by_cases h1 : child t nd b ≥ 257
  · left; simp [h1]
  · by_cases h2 : child t nd b = 256
    · right; left; simp [h2]
    · by_cases h3 : out.length ≥ cap
      · right; right; left; simp [h1, h2, h3]; omega
      · right; right; right; simp [h1, h2, h3]; omega

/-! ### round trip -/

theorem walk_decBits (t : Table) (cap : Nat) (bits : List Bool) :
    ∀ (nd : Nat) (out : List UInt8) (rest : List Bool) (s : Nat), walk t nd bits = some s →
      decBits t cap nd out (bits ++ rest) =
        if s = EOF then .fin (.ok out.reverse)
        else if out.length ≥ cap then .fin .capacity
        else decBits t cap ROOT_IDX (UInt8.ofNat s :: out) rest := by
  induction bits with
  | nil => intro nd out rest s h; simp [walk, walkF] at h
  | cons b bs ih =>
    intro nd out rest s h
    simp only [walk, walkF] at h
    simp only [List.cons_append, decBits, decStep, child]
    split at h
    · next hge =>
      simp only [hge, if_true]
      exact ih _ out rest s h
    · next hlt =>
      simp only [hlt, if_false]
      split at h
      · next hemp =>
        have hbs : bs = [] := by simpa using hemp
        cases h
        subst hbs
        by_cases he : childF (node t) nd b = EOF
        · simp [he]
        · by_cases hc : out.length ≥ cap
          · simp [he, hc]
          · simp [he, hc]
      · cases h

theorem decBits_stream (t : Table) (cap : Nat)
    (hwf : ∀ s, s < NUM_SYMBOLS → walk t ROOT_IDX (codeBits t s) = some s) :
    ∀ (xs : List UInt8) (out : List UInt8) (rest : List Bool), out.length + xs.length ≤ cap →
      decBits t cap ROOT_IDX out ((xs.map (·.toNat) ++ [EOF]).flatMap (codeBits t) ++ rest)
        = .fin (.ok (out.reverse ++ xs)) := by
  intro xs
  induction xs with
  | nil =>
    intro out rest _
    simp only [List.map_nil, List.nil_append, List.flatMap_cons, List.flatMap_nil, List.append_nil]
    rw [walk_decBits t cap _ _ _ _ _ (hwf EOF (by decide))]
    simp
  | cons x xs ih =>
    intro out rest hlen
    simp only [List.map_cons, List.cons_append, List.flatMap_cons, List.append_assoc]
    have hx : x.toNat < NUM_SYMBOLS := by
      have := x.toNat_lt; simp [NUM_SYMBOLS]; omega
    rw [walk_decBits t cap _ _ _ _ _ (hwf x.toNat hx)]
    have h1 : x.toNat ≠ EOF := by
      have := x.toNat_lt; simp [EOF]; omega
    have h2 : ¬ out.length ≥ cap := by simp at hlen; omega
    simp only [h1, h2, if_false]
    have := ih (UInt8.ofNat x.toNat :: out) rest (by simp at hlen ⊢; omega)
    rw [this]
    simp

theorem compress_bits (t : Table) (bug : Bool) (xs : List UInt8) :
    ∃ rest, (compress t bug xs).flatMap byteBits = streamBits t xs ++ rest := by
  simp only [compress]
  rw [List.flatMap_append, packBits_bits, List.append_assoc]
  exact ⟨_, rfl⟩

theorem decompress_compress (t : Table) (h : WellFormed t) (bug : Bool) (xs : List UInt8)
    (cap : Nat) (hcap : xs.length ≤ cap) : decompress t (compress t bug xs) cap = .ok xs := by
  have hwf : ∀ s, s < NUM_SYMBOLS → walk t ROOT_IDX (codeBits t s) = some s :=
    fun s hs => (h.leaf hs).2.2.2
  obtain ⟨rest, hr⟩ := compress_bits t bug xs
  simp only [decompress, hr, streamBits]
  rw [decBits_stream t cap hwf xs [] _ (by simpa using hcap)]
  simp

/-! ### the decoder never writes more than `cap` bytes -/

theorem decBits_bound (t : Table) (cap : Nat) (bits : List Bool) :
    ∀ (nd : Nat) (out : List UInt8), out.length ≤ cap →
      match decBits t cap nd out bits with
      | .more _ out' => out.length ≤ out'.length ∧ out'.length ≤ cap
      | .fin (.ok o) => out.length ≤ o.length ∧ o.length ≤ cap
      | .fin .capacity => True
      | .fin .diverge => False := by
  induction bits with
  | nil => intro nd out h; simp [decBits, h]
  | cons b bs ih =>
    intro nd out h
    rcases decStep_cases t cap nd out b with ⟨_, hs⟩ | ⟨_, hs⟩ | ⟨_, _, hs⟩ | ⟨_, hc, hs⟩ <;>
      simp only [decBits, hs]
    · exact ih _ out h
    · simp [h]
    · have := ih ROOT_IDX (UInt8.ofNat (child t nd b) :: out) (by simp; omega)
      revert this
      split <;> simp <;> omega

theorem decZeros_bound (t : Table) (cap : Nat) (fuel : Nat) :
    ∀ (nd : Nat) (out : List UInt8), out.length ≤ cap →
      match decZeros t cap fuel nd out with
      | .ok o => out.length ≤ o.length ∧ o.length ≤ cap
      | _ => True := by
  induction fuel with
  | zero => intro nd out h; simp [decZeros]
  | succ f ih =>
    intro nd out h
    rcases decStep_cases t cap nd out false with ⟨_, hs⟩ | ⟨_, hs⟩ | ⟨_, _, hs⟩ | ⟨_, hc, hs⟩ <;>
      simp only [decZeros, hs]
    · exact ih _ out h
    · simp [h]
    · have := ih ROOT_IDX (UInt8.ofNat (child t nd false) :: out) (by simp; omega)
      revert this
      split <;> simp <;> omega

theorem decompress_bound (t : Table) (input : List UInt8) (cap : Nat) (out : List UInt8)
    (h : decompress t input cap = .ok out) : out.length ≤ cap := by
  simp only [decompress] at h
  have hb := decBits_bound t cap (input.flatMap byteBits) ROOT_IDX [] (by simp)
  split at h
  · next r heq =>
    rw [heq] at hb; subst h; simp at hb; exact hb
  · next nd o heq =>
    rw [heq] at hb
    have hz := decZeros_bound t cap (zeroFuel cap) nd o hb.2
    rw [h] at hz
    exact hz.2

/-! ### inner-node invariant and fuel -/

def Inner (nd : Nat) : Prop := NUM_SYMBOLS ≤ nd ∧ nd < NUM_NODES

theorem inner_root : Inner ROOT_IDX := by unfold Inner; decide

theorem decBits_inner_of_childLt (t : Table) (h : ChildLt t) (cap : Nat) (bits : List Bool) :
    ∀ (nd : Nat) (out : List UInt8), Inner nd →
      ∀ nd' out', decBits t cap nd out bits = .more nd' out' → Inner nd' := by
  induction bits with
  | nil => intro nd out hi nd' out' heq; simp [decBits] at heq; exact heq.1 ▸ hi
  | cons b bs ih =>
    intro nd out hi nd' out'
    have hlt := h _ hi.1 hi.2 b
    rcases decStep_cases t cap nd out b with ⟨hge, hs⟩ | ⟨_, hs⟩ | ⟨_, _, hs⟩ | ⟨_, hc, hs⟩ <;>
      simp only [decBits, hs]
    · exact ih _ out ⟨hge, by have := hi.2; omega⟩ nd' out'
    · simp
    · simp
    · exact ih _ _ inner_root nd' out'

theorem decZeros_terminates_of_childLt (t : Table) (h : ChildLt t) (cap : Nat) (fuel : Nat) :
    ∀ (nd : Nat) (out : List UInt8), Inner nd → out.length ≤ cap →
      514 * (cap - out.length) + nd < fuel → decZeros t cap fuel nd out ≠ .diverge := by
  induction fuel with
  | zero => intro nd out _ _ hm; omega
  | succ f ih =>
    intro nd out hi hl hm
    have hlt := h _ hi.1 hi.2 false
    rcases decStep_cases t cap nd out false with ⟨hge, hs⟩ | ⟨_, hs⟩ | ⟨_, _, hs⟩ | ⟨_, hc, hs⟩ <;>
      simp only [decZeros, hs]
    · exact ih _ out ⟨hge, by have := hi.2; omega⟩ hl (by omega)
    · simp
    · simp
    · have h1 : 257 ≤ nd := hi.1
      refine ih _ _ inner_root (by simp; omega) ?_
      have e2 : ROOT_IDX = 512 := rfl
      rw [e2, List.length_cons]
      omega

theorem decompress_terminates_of_childLt (t : Table) (h : ChildLt t) (input : List UInt8) (cap : Nat) :
    decompress t input cap ≠ .diverge := by
  simp only [decompress]
  have hb := decBits_bound t cap (input.flatMap byteBits) ROOT_IDX [] (by simp)
  split
  · next r heq =>
    rw [heq] at hb
    intro hr; subst hr; exact hb
  · next nd o heq =>
    rw [heq] at hb
    have hi := decBits_inner_of_childLt t h cap _ ROOT_IDX [] inner_root nd o heq
    apply decZeros_terminates_of_childLt t h cap _ nd o hi hb.2
    have h2 : nd < 513 := hi.2
    have e : zeroFuel cap = 514 * (cap + 2) := by simp [zeroFuel, NUM_NODES, Nat.mul_comm]
    rw [e]
    omega

/-! ### capacities: the result at a smaller capacity is the truncation of the result at a larger one -/

/-- what a decoding result becomes when only `cap` bytes may be written -/
def DecResult.trunc (cap : Nat) : DecResult → DecResult
  | .ok o => if o.length ≤ cap then .ok o else .capacity
  | r => r

def BitsResult.trunc (cap : Nat) : BitsResult → BitsResult
  | .more nd out => if out.length ≤ cap then .more nd out else .fin .capacity
  | .fin r => .fin (r.trunc cap)

theorem decBits_trunc (t : Table) (cap' cap : Nat) (hc : cap' ≤ cap) (bits : List Bool) :
    ∀ (nd : Nat) (out : List UInt8), out.length ≤ cap' →
      decBits t cap' nd out bits = (decBits t cap nd out bits).trunc cap' := by
  induction bits with
  | nil => intro nd out h; simp [decBits, BitsResult.trunc, h]
  | cons b bs ih =>
    intro nd out h
    rcases decStep_cases t cap nd out b with ⟨hge, hs⟩ | ⟨he, hs⟩ | ⟨hl, h1, hs⟩ | ⟨hl, h1, hs⟩ <;>
    rcases decStep_cases t cap' nd out b with ⟨hge', hs'⟩ | ⟨he', hs'⟩ | ⟨hl', h2, hs'⟩ | ⟨hl', h2, hs'⟩ <;>
      simp only [decBits, hs, hs'] <;> simp only [EOF, NUM_SYMBOLS] at * <;> try omega
    · exact ih _ out h
    · simp [BitsResult.trunc, DecResult.trunc, h]
    · simp [BitsResult.trunc, DecResult.trunc]
    · have hb := decBits_bound t cap bs ROOT_IDX (UInt8.ofNat (child t nd b) :: out)
        (by simp; omega)
      revert hb
      generalize decBits t cap ROOT_IDX (UInt8.ofNat (child t nd b) :: out) bs = R
      intro hb
      match R, hb with
      | .more _ o, hb =>
        simp only [List.length_cons] at hb
        simp only [BitsResult.trunc]; rw [if_neg (by omega)]
      | .fin (.ok o), hb =>
        simp only [List.length_cons] at hb
        simp only [BitsResult.trunc, DecResult.trunc]; rw [if_neg (by omega)]
      | .fin .capacity, _ => simp [BitsResult.trunc, DecResult.trunc]
      | .fin .diverge, hb => exact hb.elim
    · exact ih _ _ (by simp; omega)

theorem decZeros_trunc (t : Table) (cap' cap : Nat) (hc : cap' ≤ cap) (fuel : Nat) :
    ∀ (nd : Nat) (out : List UInt8), out.length ≤ cap' → decZeros t cap fuel nd out ≠ .diverge →
      decZeros t cap' fuel nd out = (decZeros t cap fuel nd out).trunc cap' := by
  induction fuel with
  | zero => intro nd out h hd; simp [decZeros] at hd
  | succ f ih =>
    intro nd out h
    rcases decStep_cases t cap nd out false with ⟨hge, hs⟩ | ⟨he, hs⟩ | ⟨hl, h1, hs⟩ | ⟨hl, h1, hs⟩ <;>
    rcases decStep_cases t cap' nd out false with ⟨hge', hs'⟩ | ⟨he', hs'⟩ | ⟨hl', h2, hs'⟩ | ⟨hl', h2, hs'⟩ <;>
      simp only [decZeros, hs, hs'] <;> simp only [EOF, NUM_SYMBOLS] at * <;> try omega
    · exact ih _ out h
    · simp [DecResult.trunc, h]
    · simp [DecResult.trunc]
    · intro hd
      have hb := decZeros_bound t cap f ROOT_IDX (UInt8.ofNat (child t nd false) :: out)
        (by simp; omega)
      revert hb hd
      generalize decZeros t cap f ROOT_IDX (UInt8.ofNat (child t nd false) :: out) = r
      cases r with
      | ok o =>
        intro _ hb; simp only [List.length_cons] at hb
        simp only [DecResult.trunc]; rw [if_neg (by omega)]
      | capacity => intro _ _; simp [DecResult.trunc]
      | diverge => intro hd; exact (hd rfl).elim
    · exact ih _ _ (by simp; omega)

theorem decZeros_fuel_mono (t : Table) (cap : Nat) (fuel : Nat) :
    ∀ (fuel' : Nat) (nd : Nat) (out : List UInt8), fuel ≤ fuel' →
      decZeros t cap fuel nd out ≠ .diverge →
      decZeros t cap fuel' nd out = decZeros t cap fuel nd out := by
  induction fuel with
  | zero => intro fuel' nd out _ hd; simp [decZeros] at hd
  | succ f ih =>
    intro fuel' nd out hle
    cases fuel' with
    | zero => omega
    | succ f' =>
      simp only [decZeros]
      split
      · exact ih f' _ _ (by omega)
      · intro _; rfl
      · intro _; rfl

theorem decompress_trunc_of_childLt (t : Table) (h : ChildLt t) (input : List UInt8) (cap' cap : Nat)
    (hc : cap' ≤ cap) : decompress t input cap' = (decompress t input cap).trunc cap' := by
  have hterm := decompress_terminates_of_childLt t h input cap
  have hterm' := decompress_terminates_of_childLt t h input cap'
  simp only [decompress] at hterm hterm' ⊢
  have hb := decBits_bound t cap (input.flatMap byteBits) ROOT_IDX [] (by simp)
  have ht := decBits_trunc t cap' cap hc (input.flatMap byteBits) ROOT_IDX [] (by simp)
  rw [ht] at hterm' ⊢
  revert hb hterm hterm'
  generalize hR : decBits t cap ROOT_IDX [] (input.flatMap byteBits) = R
  cases R with
  | fin r => intro _ _ _; rfl
  | more nd o =>
    intro hterm hterm' hb
    simp only at hb hterm
    simp only [BitsResult.trunc] at hterm' ⊢
    by_cases hl : o.length ≤ cap'
    · simp only [hl, if_true] at hterm' ⊢
      have h1 := decZeros_trunc t cap' cap hc (zeroFuel cap) nd o hl hterm
      rw [← h1]
      have hz : zeroFuel cap' ≤ zeroFuel cap := by
        simp only [zeroFuel]; exact Nat.mul_le_mul_right _ (by omega)
      exact (decZeros_fuel_mono t cap' (zeroFuel cap') (zeroFuel cap) nd o hz hterm').symm
    · simp only [hl, if_false]
      have hz := decZeros_bound t cap (zeroFuel cap) nd o hb.2
      revert hz hterm
      generalize decZeros t cap (zeroFuel cap) nd o = r
      cases r with
      | ok o' => intro _ hz; simp only [DecResult.trunc]; rw [if_neg (by omega)]
      | capacity => intro _ _; rfl
      | diverge => intro hd; exact (hd rfl).elim

/-- capacity error exactly when the decoded output does not fit: at any capacity at which the
decoder succeeds, the output is longer than `cap` -/
theorem decompress_capacity_iff_of_childLt (t : Table) (h : ChildLt t) (input : List UInt8) (cap : Nat) :
    decompress t input cap = .capacity ↔
      ∀ cap' out, decompress t input cap' = .ok out → cap < out.length := by
  constructor
  · intro hcapacity cap' out hok
    by_cases hle : out.length ≤ cap
    · exfalso
      rcases Nat.le_total cap' cap with h1 | h1
      · have := decompress_trunc_of_childLt t h input cap' cap h1
        rw [hcapacity, hok] at this
        simp [DecResult.trunc] at this
      · have := decompress_trunc_of_childLt t h input cap cap' h1
        rw [hcapacity, hok] at this
        simp [DecResult.trunc, hle] at this
    · omega
  · intro hall
    have hterm := decompress_terminates_of_childLt t h input cap
    revert hterm hall
    generalize hr : decompress t input cap = r
    cases r with
    | ok o =>
      intro hall _
      have := hall cap o hr
      have := decompress_bound t input cap o hr
      omega
    | capacity => intro _ _; rfl
    | diverge => intro _ hd; exact (hd rfl).elim

/-! ### the same for well-formed tables -/

theorem decBits_inner (t : Table) (h : WellFormed t) (cap : Nat) (bits : List Bool) :
    ∀ (nd : Nat) (out : List UInt8), Inner nd →
      ∀ nd' out', decBits t cap nd out bits = .more nd' out' → Inner nd' :=
  decBits_inner_of_childLt t h.childLt cap bits

theorem decZeros_terminates (t : Table) (h : WellFormed t) (cap : Nat) (fuel : Nat) :
    ∀ (nd : Nat) (out : List UInt8), Inner nd → out.length ≤ cap →
      514 * (cap - out.length) + nd < fuel → decZeros t cap fuel nd out ≠ .diverge :=
  decZeros_terminates_of_childLt t h.childLt cap fuel

theorem decompress_terminates (t : Table) (h : WellFormed t) (input : List UInt8) (cap : Nat) :
    decompress t input cap ≠ .diverge := decompress_terminates_of_childLt t h.childLt input cap

theorem decompress_trunc (t : Table) (h : WellFormed t) (input : List UInt8) (cap' cap : Nat)
    (hc : cap' ≤ cap) : decompress t input cap' = (decompress t input cap).trunc cap' :=
  decompress_trunc_of_childLt t h.childLt input cap' cap hc

theorem decompress_capacity_iff (t : Table) (h : WellFormed t) (input : List UInt8) (cap : Nat) :
    decompress t input cap = .capacity ↔
      ∀ cap' out, decompress t input cap' = .ok out → cap < out.length :=
  decompress_capacity_iff_of_childLt t h.childLt input cap

end Tw.Huffman

namespace Tw.Huffman

/-! ### the `Vec` API: `decompress_into_vec (compress_into_vec xs) = xs` -/

theorem flatMap_codeBits_length_ge (t : Table) (h : WellFormed t) (ss : List Nat)
    (hs : ∀ s ∈ ss, s < NUM_SYMBOLS) : ss.length ≤ (ss.flatMap (codeBits t)).length := by
  induction ss with
  | nil => simp
  | cons s ss ih =>
    have h1 := (h.leaf (hs s (by simp))).1
    have h2 := ih (fun s' hs' => hs s' (by simp [hs']))
    simp only [List.flatMap_cons, List.length_append, List.length_cons, codeBits_length]
    omega

theorem length_le_compress (t : Table) (h : WellFormed t) (bug : Bool) (xs : List UInt8) :
    xs.length ≤ 8 * (compress t bug xs).length := by
  have hs : ∀ s ∈ xs.map (·.toNat) ++ [EOF], s < NUM_SYMBOLS := by
    intro s hs
    simp only [List.mem_append, List.mem_map, List.mem_singleton] at hs
    rcases hs with ⟨x, _, rfl⟩ | rfl
    · have := x.toNat_lt; simp [NUM_SYMBOLS]; omega
    · decide
  have h1 := flatMap_codeBits_length_ge t h _ hs
  simp only [List.length_append, List.length_map, List.length_cons, List.length_nil] at h1
  have h2 : (packBits (streamBits t xs)).length ≤ (compress t bug xs).length := by
    simp [compress]
  rw [packBits_length] at h2
  have h3 : (streamBits t xs).length
      = ((xs.map (·.toNat) ++ [EOF]).flatMap (codeBits t)).length := rfl
  omega

theorem decompressVec_compress (t : Table) (h : WellFormed t) (bug : Bool) (xs : List UInt8) :
    decompressVec t (compress t bug xs) = some xs := by
  simp only [decompressVec]
  rw [decompress_compress t h bug xs _ (length_le_compress t h bug xs)]

theorem decompressVec_none_iff (t : Table) (h : WellFormed t) (input : List UInt8) :
    decompressVec t input = none ↔ decompress t input (8 * input.length) = .capacity := by
  have hterm := decompress_terminates t h input (8 * input.length)
  simp only [decompressVec]
  revert hterm
  generalize decompress t input (8 * input.length) = r
  cases r <;> simp

theorem compress_bug_eq (t : Table) (xs : List UInt8) :
    compress t true xs =
      compress t false xs ++ (if (compress t false xs).length * 8 = compressedBitLen t xs then [0] else []) := by
  have hl : (compress t false xs).length = (compressedBitLen t xs + 7) / 8 := compress_length_false t xs
  simp only [compress, Bool.false_eq_true, false_and, if_false, List.append_nil, true_and] at hl ⊢
  rw [hl, streamBits_length]
  congr 1
  by_cases h0 : compressedBitLen t xs % 8 = 0
  · rw [if_pos h0, if_pos (by omega)]
  · rw [if_neg h0, if_neg (by omega)]

end Tw.Huffman

namespace Tw.Huffman

/-- `compress_into_vec` reserves `3 * len + 3` bytes and unwraps: that always suffices -/
theorem compressedLen_le_vec (t : Table) (h : WellFormed t) (xs : List UInt8) :
    compressedLen t xs ≤ 3 * xs.length + 3 := by
  have hsum : ∀ ys : List UInt8, (ys.map fun b => symLen t b.toNat).sum ≤ 24 * ys.length := by
    intro ys
    induction ys with
    | nil => simp
    | cons y ys ih =>
      have hy : y.toNat < NUM_SYMBOLS := by
        have := y.toNat_lt; simp [NUM_SYMBOLS]; omega
      have := (h.leaf hy).2.1
      simp only [List.map_cons, List.sum_cons, List.length_cons]
      omega
  have he := (h.leaf (show EOF < NUM_SYMBOLS by decide)).2.1
  have := hsum xs
  simp only [compressedLen, compressedBitLen]
  omega

end Tw.Huffman
