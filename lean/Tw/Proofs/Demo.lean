import Tw.Model.Demo
import Tw.Proofs.Packer
/-! Helper lemmas about the demo model (`Tw.Model.Demo`): fixed-width integers, chunk header codec. -/
namespace Tw.Demo
open Tw.Packer (toI32 inI32 readInt writeInt)
open Tw.Gen.Demo

theorem toNat_ofNat (n : Nat) : (UInt8.ofNat n).toNat = n % 256 := by
  simp [UInt8.toNat_ofNat']

theorem beVal_be32 (n : Nat) (h : n < 4294967296) : beVal (be32 n) = n := by
  simp [beVal, be32]
  omega

theorem toI32_toU32 (v : Int) (h : inI32 v) : toI32 (toU32 v) = v := by
  unfold toI32 toU32 inI32 at *
  omega

theorem toU32_lt (v : Int) : toU32 v < 4294967296 := by
  unfold toU32; omega

theorem takeN_append (a rest : Bytes) (n : Nat) (h : a.length = n) :
    takeN n (a ++ rest) = some (a, rest) := by
  subst h
  simp [takeN]

theorem be32_length (n : Nat) : (be32 n).length = 4 := rfl

/-! ### chunk header codec -/

theorem tickDeltaBits : ∀ dt < 32,
    (UInt8.ofNat (CHUNKTYPEFLAG_TICKMARKER ||| CHUNKTICKFLAG_INLINETICK ||| dt)).toNat &&& CHUNKTYPEFLAG_TICKMARKER ≠ 0
    ∧ (UInt8.ofNat (CHUNKTYPEFLAG_TICKMARKER ||| CHUNKTICKFLAG_INLINETICK ||| dt)).toNat &&& CHUNKTICKFLAG_KEYFRAME = 0
    ∧ (UInt8.ofNat (CHUNKTYPEFLAG_TICKMARKER ||| CHUNKTICKFLAG_INLINETICK ||| dt)).toNat &&& CHUNKTICKFLAG_INLINETICK ≠ 0
    ∧ (UInt8.ofNat (CHUNKTYPEFLAG_TICKMARKER ||| CHUNKTICKFLAG_INLINETICK ||| dt)).toNat &&& CHUNKTICKMASK_TICK_V5 = dt := by
  decide

theorem tickAbsBits : ∀ kf : Bool,
    (UInt8.ofNat (CHUNKTYPEFLAG_TICKMARKER ||| (if kf then CHUNKTICKFLAG_KEYFRAME else 0))).toNat &&& CHUNKTYPEFLAG_TICKMARKER ≠ 0
    ∧ (decide ((UInt8.ofNat (CHUNKTYPEFLAG_TICKMARKER ||| (if kf then CHUNKTICKFLAG_KEYFRAME else 0))).toNat &&& CHUNKTICKFLAG_KEYFRAME ≠ 0) = kf)
    ∧ (UInt8.ofNat (CHUNKTYPEFLAG_TICKMARKER ||| (if kf then CHUNKTICKFLAG_KEYFRAME else 0))).toNat &&& CHUNKTICKFLAG_INLINETICK = 0
    ∧ (UInt8.ofNat (CHUNKTYPEFLAG_TICKMARKER ||| (if kf then CHUNKTICKFLAG_KEYFRAME else 0))).toNat &&& CHUNKTICKMASK_TICK_V5 = 0 := by
  decide

theorem dataBits (k : DataKind) : ∀ s < 32,
    (UInt8.ofNat (k.flag ||| s)).toNat &&& CHUNKTYPEFLAG_TICKMARKER = 0
    ∧ (UInt8.ofNat (k.flag ||| s)).toNat &&& CHUNKMASK_TYPE = k.flag
    ∧ (UInt8.ofNat (k.flag ||| s)).toNat &&& CHUNKMASK_SIZE = s := by
  cases k <;> decide

theorem kindOfBits_flag (k : DataKind) : kindOfBits k.flag = k := by
  cases k <;> decide

/-- the values the writer's header encoder is defined for -/
def ChunkHeader.inRange : ChunkHeader → Prop
  | .tick (.delta d) kf => d ≤ 31 ∧ kf = false
  | .tick (.absolute t) _ => inI32 t
  | .data _ size => size < 65536

/-- the warnings the reader raises on a header the writer produced -/
def ChunkHeader.readWarnings : ChunkHeader → List Warning
  | .data .unknown _ => [Warning.unknownChunkType]
  | _ => []

theorem readChunkHeader_write (v : Version) (hv : v.num ≥ 5) (h : ChunkHeader) (bs rest : Bytes)
    (hr : h.inRange) (hw : h.write = some bs) :
    readChunkHeader v (bs ++ rest) = .ok h rest h.readWarnings := by
  match h, hr, hw with
  | .tick (.delta d) kf, hr, hw =>
    obtain ⟨hd, hkf⟩ := hr
    subst hkf
    simp only [ChunkHeader.write, writerVersion, Version.maxTickDelta] at hw
    have hd' : d ≤ CHUNKTICKMASK_TICK_V5 := by simpa [CHUNKTICKMASK_TICK_V5] using hd
    simp only [hd', true_and, if_true, Option.some.injEq] at hw
    subst hw
    obtain ⟨h1, h2, h3, h4⟩ := tickDeltaBits d (by omega)
    generalize UInt8.ofNat (CHUNKTYPEFLAG_TICKMARKER ||| CHUNKTICKFLAG_INLINETICK ||| d) = f at *
    simp [readChunkHeader, hv, h1, h2, h3, h4, tickResult, ChunkHeader.readWarnings]
  | .tick (.absolute t) kf, hr, hw =>
    simp only [ChunkHeader.write, Option.some.injEq] at hw
    subst hw
    obtain ⟨h1, h2, h3, h4⟩ := tickAbsBits kf
    have ht : toI32 (beVal (be32 (toU32 t))) = t := by
      rw [beVal_be32 _ (toU32_lt t), toI32_toU32 t hr]
    generalize UInt8.ofNat (CHUNKTYPEFLAG_TICKMARKER ||| (if kf then CHUNKTICKFLAG_KEYFRAME else 0)) = f at *
    simp only [List.cons_append, readChunkHeader, hv, h1, h3, h4, readAbsolute, takeN_append _ _ 4 (be32_length _),
      tickResult, ChunkHeader.readWarnings, ht, ne_eq, not_false_eq_true, if_true, not_true_eq_false, if_false, h2
      ]
  | .data k size, hr, hw =>
    have hr' : size < 65536 := hr
    have hws : (if k = DataKind.unknown then [Warning.unknownChunkType] else []) = (ChunkHeader.data k size).readWarnings := by
      cases k <;> simp [ChunkHeader.readWarnings]
    simp only [ChunkHeader.write] at hw
    by_cases h30 : size < CHUNKSIZE_ONEBYTEFOLLOWS
    · simp only [h30, if_true, Option.some.injEq] at hw
      subst hw
      obtain ⟨h1, h2, h3⟩ := dataBits k size (by simp [CHUNKSIZE_ONEBYTEFOLLOWS] at h30; omega)
      generalize UInt8.ofNat (k.flag ||| size) = f at *
      have n30 : ¬ size = CHUNKSIZE_ONEBYTEFOLLOWS := by omega
      have n31 : ¬ size = CHUNKSIZE_TWOBYTESFOLLOW := by simp [CHUNKSIZE_ONEBYTEFOLLOWS, CHUNKSIZE_TWOBYTESFOLLOW] at *; omega
      simp only [List.cons_append, List.nil_append, readChunkHeader, h1, h2, h3, kindOfBits_flag, n30, n31, hws,
        ne_eq, not_true_eq_false, if_false]
    · simp only [h30, if_false] at hw
      have h30' : 30 ≤ size := by simp [CHUNKSIZE_ONEBYTEFOLLOWS] at h30; omega
      by_cases h255 : size ≤ 255
      · simp only [h255, if_true, Option.some.injEq] at hw
        subst hw
        obtain ⟨h1, h2, h3⟩ := dataBits k CHUNKSIZE_ONEBYTEFOLLOWS (by decide)
        generalize UInt8.ofNat (k.flag ||| CHUNKSIZE_ONEBYTEFOLLOWS) = f at *
        have hsz : (UInt8.ofNat size).toNat = size := by rw [toNat_ofNat]; omega
        have n30 : ¬ size < 30 := by omega
        simp only [List.cons_append, List.nil_append, readChunkHeader, h1, h2, h3, kindOfBits_flag, hws, hsz, n30,
          ne_eq, not_true_eq_false, if_false, if_true]
      · simp only [h255, if_false, Option.some.injEq] at hw
        subst hw
        obtain ⟨h1, h2, h3⟩ := dataBits k CHUNKSIZE_TWOBYTESFOLLOW (by decide)
        generalize UInt8.ofNat (k.flag ||| CHUNKSIZE_TWOBYTESFOLLOW) = f at *
        have hsz : (UInt8.ofNat size).toNat + 256 * (UInt8.ofNat (size / 256)).toNat = size := by
          rw [toNat_ofNat, toNat_ofNat]; omega
        have n255 : ¬ size < 255 := by omega
        have n3031 : ¬ CHUNKSIZE_TWOBYTESFOLLOW = CHUNKSIZE_ONEBYTEFOLLOWS := by decide
        simp only [List.cons_append, List.nil_append, readChunkHeader, h1, h2, h3, kindOfBits_flag, hws, hsz, n255,
          n3031, ne_eq, not_true_eq_false, if_false, if_true]

/-! ### message pipeline -/

theorem ofNat_eq (n : Nat) (a : UInt8) (h : n % 256 = a.toNat) : UInt8.ofNat n = a := by
  apply UInt8.toNat_inj.mp
  rw [toNat_ofNat, h]

theorem toU32_toI32 (x : Nat) (h : x < 4294967296) : toU32 (toI32 x) = x := by
  unfold toI32 toU32
  omega

theorem le32_leWord (a b c d : UInt8) : le32 (toU32 (leWord a b c d)) = [a, b, c, d] := by
  have ha := a.toNat_lt; have hb := b.toNat_lt; have hc := c.toNat_lt; have hd := d.toNat_lt
  unfold leWord
  rw [toU32_toI32 _ (by unfold leVal4; omega)]
  unfold le32 leVal4
  rw [ofNat_eq _ a (by omega), ofNat_eq _ b (by omega), ofNat_eq _ c (by omega), ofNat_eq _ d (by omega)]

theorem unpack_msgInts (msg : Bytes) : (msgInts msg).flatMap (fun n => le32 (toU32 n)) = pad4 msg := by
  fun_induction msgInts msg <;> simp_all [pad4, le32_leWord]

theorem msgInts_inI32 (msg : Bytes) : ∀ v ∈ msgInts msg, inI32 v := by
  fun_induction msgInts msg <;> simp_all [leWord, Tw.Packer.toI32_range]

theorem msgInts_length (msg : Bytes) : (msgInts msg).length = (msg.length + 3) / 4 := by
  fun_induction msgInts msg <;> simp_all <;> omega

theorem unpackMsg_pack (vs : List Int) (hvs : ∀ v ∈ vs, inI32 v) :
    ∀ fuel slots, (packInts vs).length ≤ fuel → vs.length ≤ slots →
      unpackMsg fuel slots (packInts vs) = (.ok (vs.flatMap fun n => le32 (toU32 n)), []) := by
  induction vs with
  | nil => intro fuel slots _ _; simp [packInts, unpackMsg]
  | cons v vs ih =>
    intro fuel slots hf hs
    have hv : inI32 v := hvs v (by simp)
    have hlen := (Tw.Packer.writeInt_length v).1
    have hpk : packInts (v :: vs) = writeInt v ++ packInts vs := by simp [packInts]
    rw [hpk] at hf ⊢
    match hw : writeInt v with
    | [] => simp [hw] at hlen
    | b :: t =>
      have hrd := Tw.Packer.readInt_writeInt v hv (packInts vs)
      rw [hw] at hrd hf
      simp only [List.cons_append] at hrd hf ⊢
      match fuel, slots, hf, hs with
      | fuel + 1, slots + 1, hf, hs =>
        simp only [unpackMsg, hrd, List.map_nil, List.nil_append]
        rw [ih (fun v hv => hvs v (by simp [hv])) fuel slots (by simp at hf; omega) (by simp at hs; omega)]
        simp


/-! ### the counting decompressor agrees with the shared Huffman model -/

section
open Tw.Huffman (decStep decBits decZeros DecResult StepResult BitsResult)

theorem decStepC_spec (t : Tw.Huffman.Table) (cap nd : Nat) (out : Bytes) (bit : Bool) :
    decStepC t cap nd out.length out bit =
      (decStep t cap nd out bit,
        match decStep t cap nd out bit with
        | .cont _ out' => out'.length
        | _ => out.length) := by
  unfold decStepC decStep
  simp only []
  generalize (if bit = true then (Tw.Huffman.node t nd).2 else (Tw.Huffman.node t nd).1) = idx
  by_cases h1 : idx ≥ Tw.Huffman.NUM_SYMBOLS
  · simp only [if_pos h1]
  · by_cases h2 : idx = Tw.Huffman.EOF
    · simp only [if_neg h1, if_pos h2]
    · by_cases h3 : out.length ≥ cap
      · simp only [if_neg h1, if_neg h2, if_pos h3]
      · simp only [if_neg h1, if_neg h2, if_neg h3, List.length_cons]

theorem decStepC_fst (t : Tw.Huffman.Table) (cap nd : Nat) (out : Bytes) (bit : Bool) :
    (decStepC t cap nd out.length out bit).1 = decStep t cap nd out bit := by
  rw [decStepC_spec]

theorem decStepC_snd (t : Tw.Huffman.Table) (cap nd : Nat) (out : Bytes) (bit : Bool) (nd' : Nat) (out' : Bytes)
    (h : decStep t cap nd out bit = .cont nd' out') :
    (decStepC t cap nd out.length out bit).2 = out'.length := by
  rw [decStepC_spec, h]

theorem decBitsC_eq (t : Tw.Huffman.Table) (cap : Nat) (bits : List Bool) : ∀ nd (out : Bytes),
    decBitsC t cap nd out.length out bits =
      match decBits t cap nd out bits with
      | .more nd' out' => .more nd' out'.length out'
      | .fin r => .fin r := by
  induction bits with
  | nil => intro nd out; simp [decBitsC, decBits]
  | cons b bs ih =>
    intro nd out
    unfold decBitsC decBits
    have h1 := decStepC_fst t cap nd out b
    match hs : decStep t cap nd out b with
    | .cont nd' out' =>
      have h2 := decStepC_snd t cap nd out b nd' out' hs
      rw [hs] at h1
      have : decStepC t cap nd out.length out b = (.cont nd' out', out'.length) := Prod.ext h1 h2
      simp only [this]
      exact ih nd' out'
    | .done out' =>
      rw [hs] at h1
      generalize decStepC t cap nd out.length out b = r at h1
      obtain ⟨r1, r2⟩ := r
      simp only at h1
      subst h1
      simp
    | .capacity =>
      rw [hs] at h1
      generalize decStepC t cap nd out.length out b = r at h1
      obtain ⟨r1, r2⟩ := r
      simp only at h1
      subst h1
      simp

theorem decZerosC_eq (t : Tw.Huffman.Table) (cap : Nat) : ∀ (fuel nd : Nat) (out : Bytes),
    decZerosC t cap fuel nd out.length out = decZeros t cap fuel nd out
  | 0, nd, out => by simp only [decZerosC, decZeros]
  | fuel + 1, nd, out => by
    simp only [decZerosC, decZeros]
    have h1 := decStepC_fst t cap nd out false
    match hs : decStep t cap nd out false with
    | .cont nd' out' =>
      have h2 := decStepC_snd t cap nd out false nd' out' hs
      rw [hs] at h1
      have : decStepC t cap nd out.length out false = (.cont nd' out', out'.length) := Prod.ext h1 h2
      simp only [this]
      exact decZerosC_eq t cap fuel nd' out'
    | .done out' =>
      rw [hs] at h1
      generalize decStepC t cap nd out.length out false = r at h1
      obtain ⟨r1, r2⟩ := r
      simp only at h1
      subst h1
      simp
    | .capacity =>
      rw [hs] at h1
      generalize decStepC t cap nd out.length out false = r at h1
      obtain ⟨r1, r2⟩ := r
      simp only at h1
      subst h1
      simp

theorem decompressC_eq (t : Tw.Huffman.Table) (input : Bytes) (cap : Nat) :
    decompressC t input cap = Tw.Huffman.decompress t input cap := by
  unfold decompressC Tw.Huffman.decompress
  have h := decBitsC_eq t cap (input.flatMap Tw.Huffman.byteBits) Tw.Huffman.ROOT_IDX []
  simp only [List.length_nil] at h
  rw [h]
  match decBits t cap Tw.Huffman.ROOT_IDX [] (input.flatMap Tw.Huffman.byteBits) with
  | .more nd out => simp only; exact decZerosC_eq t cap _ nd out
  | .fin r => rfl

end

/-! ### one chunk: written, then read back -/

/-- The Huffman round trip for the built-in table (proved as C07 `roundtrip` + `table_wellFormed`). -/
def HuffmanRoundTrip : Prop :=
  ∀ (xs : List UInt8) (cap : Nat), xs.length ≤ cap →
    Tw.Huffman.decompress table (Tw.Huffman.compress table false xs) cap = .ok xs

theorem ChunkHeader.write_length (h : ChunkHeader) (bs : Bytes) (hw : h.write = some bs) : 1 ≤ bs.length := by
  match h, hw with
  | .tick (.delta d) kf, hw =>
    simp only [ChunkHeader.write] at hw
    split at hw
    · simp only [Option.some.injEq] at hw; subst hw; simp
    · simp at hw
  | .tick (.absolute t) kf, hw =>
    simp only [ChunkHeader.write, Option.some.injEq] at hw; subst hw; simp
  | .data k size, hw =>
    simp only [ChunkHeader.write] at hw
    split at hw
    · simp only [Option.some.injEq] at hw; subst hw; simp
    · split at hw <;> (simp only [Option.some.injEq] at hw; subst hw; simp)

theorem writeTick_ok (w w' : Writer) (kf : Bool) (t : Int) (ht : inI32 t)
    (h : w.writeTick kf t = (w', .ok)) :
    ∃ hdr, w'.file = w.file ++ hdr ∧ 1 ≤ hdr.length ∧ w'.prevTick = some t ∧
      ∀ (v : Version) (rest : Bytes), v.num ≥ 5 →
        Reader.readChunk { data := hdr ++ rest, version := v, currentTick := w.prevTick } =
          ({ data := rest, version := v, currentTick := some t }, .chunk (.tick t kf), []) := by
  unfold Writer.writeTick at h
  match htm : TickMarker.new t w.prevTick kf writerVersion, h with
  | some tm, h =>
    simp only [] at h
    match hwr : (ChunkHeader.tick tm kf).write, h with
    | some hdr, h =>
      simp only [Prod.mk.injEq, and_true] at h
      subst h
      refine ⟨hdr, rfl, ChunkHeader.write_length _ _ hwr, rfl, ?_⟩
      intro v rest hv
      unfold TickMarker.new at htm
      match hprev : w.prevTick, htm with
      | none, htm =>
        simp only [Option.some.injEq] at htm
        subst htm
        have := readChunkHeader_write v hv _ hdr rest (show (ChunkHeader.tick (.absolute t) kf).inRange from ht) hwr
        simp only [Reader.readChunk, this, ChunkHeader.readWarnings]
      | some p, htm =>
        simp only [] at htm
        by_cases hgt : t > p
        · simp only [hgt, not_true_eq_false, if_false] at htm
          by_cases hd : inI32 (t - p) ∧ kf = false ∧ t - p ≤ (writerVersion.maxTickDelta : Int)
          · simp only [hd, and_self, if_true, Option.some.injEq] at htm
            subst htm
            obtain ⟨_, hkf, hle⟩ := hd
            have hle' : (t - p).toNat ≤ 31 := by
              simp [writerVersion, Version.maxTickDelta, CHUNKTICKMASK_TICK_V5] at hle; omega
            have := readChunkHeader_write v hv _ hdr rest
              (show (ChunkHeader.tick (.delta (t - p).toNat) kf).inRange from ⟨hle', hkf⟩) hwr
            have hsum : p + ((t - p).toNat : Int) = t := by omega
            simp only [Reader.readChunk, this, ChunkHeader.readWarnings, hsum, ht, not_true_eq_false, if_false]
          · simp only [hd, if_false, Option.some.injEq] at htm
            subst htm
            have := readChunkHeader_write v hv _ hdr rest (show (ChunkHeader.tick (.absolute t) kf).inRange from ht) hwr
            have hge : ¬ p ≥ t := by omega
            simp only [Reader.readChunk, this, ChunkHeader.readWarnings, hge, if_false]
        · simp [hgt] at htm


theorem writeData_ok (hH : HuffmanRoundTrip) (w w' : Writer) (k : DataKind) (hk : k ≠ .unknown) (data : Bytes)
    (h : w.writeData k data = (w', .ok)) :
    data.length ≤ MAX_SNAPSHOT_SIZE ∧
    ∃ enc, w'.file = w.file ++ enc ∧ 1 ≤ enc.length ∧ w'.prevTick = w.prevTick ∧
      ∀ (v : Version) (rest : Bytes), v.num ≥ 5 →
        readChunkHeader v (enc ++ rest) = .ok (.data k (Tw.Huffman.compress table false data).length)
            (Tw.Huffman.compress table false data ++ rest) [] ∧
        takeN (Tw.Huffman.compress table false data).length (Tw.Huffman.compress table false data ++ rest)
          = some (Tw.Huffman.compress table false data, rest) ∧
        decompressC table (Tw.Huffman.compress table false data) MAX_SNAPSHOT_SIZE = .ok data := by
  unfold Writer.writeData at h
  by_cases hlen : data.length > MAX_SNAPSHOT_SIZE
  · simp [hlen] at h
  · simp only [hlen, if_false] at h
    unfold Tw.Huffman.compressInto at h
    simp only [] at h
    by_cases hc : (Tw.Huffman.compress table false data).length ≤ MAX_SNAPSHOT_SIZE
    · simp only [hc, if_true] at h
      by_cases hc2 : (Tw.Huffman.compress table false data).length > 65535
      · simp [hc2] at h
      · simp only [hc2, if_false] at h
        match hwr : (ChunkHeader.data k (Tw.Huffman.compress table false data).length).write, h with
        | some hdr, h =>
          simp only [Prod.mk.injEq, and_true] at h
          subst h
          refine ⟨by omega, hdr ++ Tw.Huffman.compress table false data, by simp [List.append_assoc], ?_, rfl, ?_⟩
          · have := ChunkHeader.write_length _ _ hwr
            simp; omega
          intro v rest hv
          have hr := readChunkHeader_write v hv _ hdr (Tw.Huffman.compress table false data ++ rest)
            (show (ChunkHeader.data k _).inRange from (by show _ < 65536; omega)) hwr
          have hws : (ChunkHeader.data k (Tw.Huffman.compress table false data).length).readWarnings = [] := by
            cases k <;> simp_all [ChunkHeader.readWarnings]
          rw [hws] at hr
          refine ⟨by rw [List.append_assoc]; exact hr, takeN_append _ _ _ rfl, ?_⟩
          rw [decompressC_eq]
          exact hH data MAX_SNAPSHOT_SIZE (by omega)
    · simp [hc] at h


/-- chunks of the writer's domain: tick numbers are `i32`s -/
def Chunk.inRange : Chunk → Prop
  | .tick t _ => inI32 t
  | _ => True

theorem writeChunk_ok (hH : HuffmanRoundTrip) (w w' : Writer) (c : Chunk) (hc : c.inRange)
    (h : w.writeChunk c = (w', .ok)) :
    ∃ enc, w'.file = w.file ++ enc ∧ 1 ≤ enc.length ∧
      ∀ (v : Version) (rest : Bytes), v.num ≥ 5 →
        Reader.readChunk { data := enc ++ rest, version := v, currentTick := w.prevTick } =
          ({ data := rest, version := v, currentTick := w'.prevTick }, .chunk c.padded, []) := by
  match c, hc, h with
  | .tick t kf, hc, h =>
    obtain ⟨hdr, hf, hl, hp, hr⟩ := writeTick_ok w w' kf t hc h
    refine ⟨hdr, hf, hl, ?_⟩
    intro v rest hv
    rw [hp]
    exact hr v rest hv
  | .snapshot d, _, h =>
    obtain ⟨_, enc, hf, hl, hp, hr⟩ := writeData_ok hH w w' .snapshot (by decide) d h
    refine ⟨enc, hf, hl, ?_⟩
    intro v rest hv
    obtain ⟨h1, h2, h3⟩ := hr v rest hv
    simp only [Reader.readChunk, h1, h2, h3, hp, Chunk.padded]
  | .delta d, _, h =>
    obtain ⟨_, enc, hf, hl, hp, hr⟩ := writeData_ok hH w w' .delta (by decide) d h
    refine ⟨enc, hf, hl, ?_⟩
    intro v rest hv
    obtain ⟨h1, h2, h3⟩ := hr v rest hv
    simp only [Reader.readChunk, h1, h2, h3, hp, Chunk.padded]
  | .message d, _, h =>
    simp only [Writer.writeChunk, Writer.writeMessage] at h
    by_cases hl1 : d.length > MAX_SNAPSHOT_SIZE
    · simp [hl1] at h
    · simp only [hl1, if_false] at h
      by_cases hl2 : (packInts (msgInts d)).length > MAX_SNAPSHOT_SIZE
      · simp [hl2] at h
      · simp only [hl2, if_false] at h
        obtain ⟨_, enc, hf, hl, hp, hr⟩ := writeData_ok hH w w' .message (by decide) _ h
        refine ⟨enc, hf, hl, ?_⟩
        intro v rest hv
        obtain ⟨h1, h2, h3⟩ := hr v rest hv
        have hslots : (msgInts d).length ≤ MAX_SNAPSHOT_SIZE / 4 := by
          rw [msgInts_length]; simp [MAX_SNAPSHOT_SIZE] at hl1 ⊢; omega
        have hu := unpackMsg_pack (msgInts d) (msgInts_inI32 d) (packInts (msgInts d)).length (MAX_SNAPSHOT_SIZE / 4)
          (Nat.le_refl _) hslots
        rw [unpack_msgInts] at hu
        simp only [Reader.readChunk, h1, h2, h3, hp, hu, Chunk.padded, List.append_nil]

/-! ### a chunk sequence: written, then read back -/

theorem writeAll_readAll (hH : HuffmanRoundTrip) : ∀ (cs : List Chunk) (w w' : Writer),
    (∀ c ∈ cs, c.inRange) → w.writeAll cs = (w', .ok) →
    ∃ body, w'.file = w.file ++ body ∧
      ∀ (v : Version) (fuel : Nat), v.num ≥ 5 → body.length + 1 ≤ fuel →
        Reader.readAllGo fuel { data := body, version := v, currentTick := w.prevTick } =
          (cs.map Chunk.padded, [], none) := by
  intro cs
  induction cs with
  | nil =>
    intro w w' _ h
    simp only [Writer.writeAll, Prod.mk.injEq, and_true] at h
    subst h
    refine ⟨[], by simp, ?_⟩
    intro v fuel _ hf
    match fuel, hf with
    | fuel + 1, _ => simp [Reader.readAllGo, Reader.readChunk, readChunkHeader]
  | cons c cs ih =>
    intro w w' hr h
    simp only [Writer.writeAll] at h
    match hw1 : w.writeChunk c, h with
    | (w1, .ok), h =>
      simp only [] at h
      obtain ⟨enc, hf1, hl1, hrd⟩ := writeChunk_ok hH w w1 c (hr c (by simp)) hw1
      obtain ⟨body, hf2, hrest⟩ := ih w1 w' (fun c hc => hr c (by simp [hc])) h
      refine ⟨enc ++ body, by rw [hf2, hf1, List.append_assoc], ?_⟩
      intro v fuel hv hfuel
      match fuel, hfuel with
      | fuel + 1, hfuel =>
        simp only [Reader.readAllGo, hrd v body hv]
        rw [hrest v fuel hv (by simp at hfuel; omega)]
        simp
    | (w1, .panic s), h => simp at h

end Tw.Demo
