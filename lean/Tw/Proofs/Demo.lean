import Tw.Model.Demo
import Tw.Proofs.Packer
/-! Helper lemmas about the demo model (`Tw.Model.Demo`): fixed-width integers, chunk header codec. -/
namespace Tw.Demo
open Tw.Packer (toI32 inI32 readInt writeInt)
open Tw.Gen.Demo

theorem toNat_ofNat (n : Nat) : (UInt8.ofNat n).toNat = n % 256 := by
  simp [UInt8.toNat_ofNat']

theorem beVal_be32 (n : Nat) (h : n < 4294967296) : beVal (be32 n) = n := by
  simp [beVal, be32]
  omega

theorem toI32_toU32 (v : Int) (h : inI32 v) : toI32 (toU32 v) = v := by
  unfold toI32 toU32 inI32 at *
  omega

theorem toU32_lt (v : Int) : toU32 v < 4294967296 := by
  unfold toU32; omega

theorem takeN_append (a rest : Bytes) (n : Nat) (h : a.length = n) :
    takeN n (a ++ rest) = some (a, rest) := by
  subst h
  simp [takeN]

theorem be32_length (n : Nat) : (be32 n).length = 4 := rfl

/-! ### chunk header codec -/

theorem tickDeltaBits : ∀ dt < 32,
    (UInt8.ofNat (CHUNKTYPEFLAG_TICKMARKER ||| CHUNKTICKFLAG_INLINETICK ||| dt)).toNat &&& CHUNKTYPEFLAG_TICKMARKER ≠ 0
    ∧ (UInt8.ofNat (CHUNKTYPEFLAG_TICKMARKER ||| CHUNKTICKFLAG_INLINETICK ||| dt)).toNat &&& CHUNKTICKFLAG_KEYFRAME = 0
    ∧ (UInt8.ofNat (CHUNKTYPEFLAG_TICKMARKER ||| CHUNKTICKFLAG_INLINETICK ||| dt)).toNat &&& CHUNKTICKFLAG_INLINETICK ≠ 0
    ∧ (UInt8.ofNat (CHUNKTYPEFLAG_TICKMARKER ||| CHUNKTICKFLAG_INLINETICK ||| dt)).toNat &&& CHUNKTICKMASK_TICK_V5 = dt := by
  decide

theorem tickAbsBits : ∀ kf : Bool,
    (UInt8.ofNat (CHUNKTYPEFLAG_TICKMARKER ||| (if kf then CHUNKTICKFLAG_KEYFRAME else 0))).toNat &&& CHUNKTYPEFLAG_TICKMARKER ≠ 0
    ∧ (decide ((UInt8.ofNat (CHUNKTYPEFLAG_TICKMARKER ||| (if kf then CHUNKTICKFLAG_KEYFRAME else 0))).toNat &&& CHUNKTICKFLAG_KEYFRAME ≠ 0) = kf)
    ∧ (UInt8.ofNat (CHUNKTYPEFLAG_TICKMARKER ||| (if kf then CHUNKTICKFLAG_KEYFRAME else 0))).toNat &&& CHUNKTICKFLAG_INLINETICK = 0
    ∧ (UInt8.ofNat (CHUNKTYPEFLAG_TICKMARKER ||| (if kf then CHUNKTICKFLAG_KEYFRAME else 0))).toNat &&& CHUNKTICKMASK_TICK_V5 = 0 := by
  decide

theorem dataBits (k : DataKind) : ∀ s < 32,
    (UInt8.ofNat (k.flag ||| s)).toNat &&& CHUNKTYPEFLAG_TICKMARKER = 0
    ∧ (UInt8.ofNat (k.flag ||| s)).toNat &&& CHUNKMASK_TYPE = k.flag
    ∧ (UInt8.ofNat (k.flag ||| s)).toNat &&& CHUNKMASK_SIZE = s := by
  cases k <;> decide

theorem kindOfBits_flag (k : DataKind) : kindOfBits k.flag = k := by
  cases k <;> decide

/-- the values the writer's header encoder is defined for -/
def ChunkHeader.inRange : ChunkHeader → Prop
  | .tick (.delta d) kf => d ≤ 31 ∧ kf = false
  | .tick (.absolute t) _ => inI32 t
  | .data _ size => size < 65536

/-- the warnings the reader raises on a header the writer produced -/
def ChunkHeader.readWarnings : ChunkHeader → List Warning
  | .data .unknown _ => [Warning.unknownChunkType]
  | _ => []

theorem readChunkHeader_write (v : Version) (hv : v.num ≥ 5) (h : ChunkHeader) (bs rest : Bytes)
    (hr : h.inRange) (hw : h.write = some bs) :
    readChunkHeader v (bs ++ rest) = .ok h rest h.readWarnings := by
  match h, hr, hw with
  | .tick (.delta d) kf, hr, hw =>
    obtain ⟨hd, hkf⟩ := hr
    subst hkf
    simp only [ChunkHeader.write, writerVersion, Version.maxTickDelta] at hw
    have hd' : d ≤ CHUNKTICKMASK_TICK_V5 := by simpa [CHUNKTICKMASK_TICK_V5] using hd
    simp only [hd', true_and, if_true, Option.some.injEq] at hw
    subst hw
    obtain ⟨h1, h2, h3, h4⟩ := tickDeltaBits d (by omega)
    generalize UInt8.ofNat (CHUNKTYPEFLAG_TICKMARKER ||| CHUNKTICKFLAG_INLINETICK ||| d) = f at *
    simp [readChunkHeader, hv, h1, h2, h3, h4, tickResult, ChunkHeader.readWarnings]
  | .tick (.absolute t) kf, hr, hw =>
    simp only [ChunkHeader.write, Option.some.injEq] at hw
    subst hw
    obtain ⟨h1, h2, h3, h4⟩ := tickAbsBits kf
    have ht : toI32 (beVal (be32 (toU32 t))) = t := by
      rw [beVal_be32 _ (toU32_lt t), toI32_toU32 t hr]
    generalize UInt8.ofNat (CHUNKTYPEFLAG_TICKMARKER ||| (if kf then CHUNKTICKFLAG_KEYFRAME else 0)) = f at *
    simp only [List.cons_append, readChunkHeader, hv, h1, h3, h4, readAbsolute, takeN_append _ _ 4 (be32_length _),
      tickResult, ChunkHeader.readWarnings, ht, ne_eq, not_false_eq_true, if_true, not_true_eq_false, if_false, h2
      ]
  | .data k size, hr, hw =>
    have hr' : size < 65536 := hr
    have hws : (if k = DataKind.unknown then [Warning.unknownChunkType] else []) = (ChunkHeader.data k size).readWarnings := by
      cases k <;> simp [ChunkHeader.readWarnings]
    simp only [ChunkHeader.write] at hw
    by_cases h30 : size < CHUNKSIZE_ONEBYTEFOLLOWS
    · simp only [h30, if_true, Option.some.injEq] at hw
      subst hw
      obtain ⟨h1, h2, h3⟩ := dataBits k size (by simp [CHUNKSIZE_ONEBYTEFOLLOWS] at h30; omega)
      generalize UInt8.ofNat (k.flag ||| size) = f at *
      have n30 : ¬ size = CHUNKSIZE_ONEBYTEFOLLOWS := by omega
      have n31 : ¬ size = CHUNKSIZE_TWOBYTESFOLLOW := by simp [CHUNKSIZE_ONEBYTEFOLLOWS, CHUNKSIZE_TWOBYTESFOLLOW] at *; omega
      simp only [List.cons_append, List.nil_append, readChunkHeader, h1, h2, h3, kindOfBits_flag, n30, n31, hws,
        ne_eq, not_true_eq_false, if_false]
    · simp only [h30, if_false] at hw
      have h30' : 30 ≤ size := by simp [CHUNKSIZE_ONEBYTEFOLLOWS] at h30; omega
      by_cases h255 : size ≤ 255
      · simp only [h255, if_true, Option.some.injEq] at hw
        subst hw
        obtain ⟨h1, h2, h3⟩ := dataBits k CHUNKSIZE_ONEBYTEFOLLOWS (by decide)
        generalize UInt8.ofNat (k.flag ||| CHUNKSIZE_ONEBYTEFOLLOWS) = f at *
        have hsz : (UInt8.ofNat size).toNat = size := by rw [toNat_ofNat]; omega
        have n30 : ¬ size < 30 := by omega
        simp only [List.cons_append, List.nil_append, readChunkHeader, h1, h2, h3, kindOfBits_flag, hws, hsz, n30,
          ne_eq, not_true_eq_false, if_false, if_true]
      · simp only [h255, if_false, Option.some.injEq] at hw
        subst hw
        obtain ⟨h1, h2, h3⟩ := dataBits k CHUNKSIZE_TWOBYTESFOLLOW (by decide)
        generalize UInt8.ofNat (k.flag ||| CHUNKSIZE_TWOBYTESFOLLOW) = f at *
        have hsz : (UInt8.ofNat size).toNat + 256 * (UInt8.ofNat (size / 256)).toNat = size := by
          rw [toNat_ofNat, toNat_ofNat]; omega
        have n255 : ¬ size < 255 := by omega
        have n3031 : ¬ CHUNKSIZE_TWOBYTESFOLLOW = CHUNKSIZE_ONEBYTEFOLLOWS := by decide
        simp only [List.cons_append, List.nil_append, readChunkHeader, h1, h2, h3, kindOfBits_flag, hws, hsz, n255,
          n3031, ne_eq, not_true_eq_false, if_false, if_true]

/-! ### message pipeline -/

theorem ofNat_eq (n : Nat) (a : UInt8) (h : n % 256 = a.toNat) : UInt8.ofNat n = a := by
  apply UInt8.toNat_inj.mp
  rw [toNat_ofNat, h]

theorem toU32_toI32 (x : Nat) (h : x < 4294967296) : toU32 (toI32 x) = x := by
  unfold toI32 toU32
  omega

theorem le32_leWord (a b c d : UInt8) : le32 (toU32 (leWord a b c d)) = [a, b, c, d] := by
  have ha := a.toNat_lt; have hb := b.toNat_lt; have hc := c.toNat_lt; have hd := d.toNat_lt
  unfold leWord
  rw [toU32_toI32 _ (by unfold leVal4; omega)]
  unfold le32 leVal4
  rw [ofNat_eq _ a (by omega), ofNat_eq _ b (by omega), ofNat_eq _ c (by omega), ofNat_eq _ d (by omega)]

theorem unpack_msgInts (msg : Bytes) : (msgInts msg).flatMap (fun n => le32 (toU32 n)) = pad4 msg := by
  fun_induction msgInts msg <;> simp_all [pad4, le32_leWord]

theorem msgInts_inI32 (msg : Bytes) : ∀ v ∈ msgInts msg, inI32 v := by
  fun_induction msgInts msg <;> simp_all [leWord, Tw.Packer.toI32_range]

theorem msgInts_length (msg : Bytes) : (msgInts msg).length = (msg.length + 3) / 4 := by
  fun_induction msgInts msg <;> simp_all <;> omega

theorem unpackMsg_pack (vs : List Int) (hvs : ∀ v ∈ vs, inI32 v) :
    ∀ fuel slots, (packInts vs).length ≤ fuel → vs.length ≤ slots →
      unpackMsg fuel slots (packInts vs) = (.ok (vs.flatMap fun n => le32 (toU32 n)), []) := by
  induction vs with
  | nil => intro fuel slots _ _; simp [packInts, unpackMsg]
  | cons v vs ih =>
    intro fuel slots hf hs
    have hv : inI32 v := hvs v (by simp)
    have hlen := (Tw.Packer.writeInt_length v).1
    have hpk : packInts (v :: vs) = writeInt v ++ packInts vs := by simp [packInts]
    rw [hpk] at hf ⊢
    match hw : writeInt v with
    | [] => simp [hw] at hlen
    | b :: t =>
      have hrd := Tw.Packer.readInt_writeInt v hv (packInts vs)
      rw [hw] at hrd hf
      simp only [List.cons_append] at hrd hf ⊢
      match fuel, slots, hf, hs with
      | fuel + 1, slots + 1, hf, hs =>
        simp only [unpackMsg, hrd, List.map_nil, List.nil_append]
        rw [ih (fun v hv => hvs v (by simp [hv])) fuel slots (by simp at hf; omega) (by simp at hs; omega)]
        simp


/-! ### the counting decompressor agrees with the shared Huffman model -/

section
open Tw.Huffman (decStep decBits decZeros DecResult StepResult BitsResult)

theorem decStepC_spec (t : Tw.Huffman.Table) (cap nd : Nat) (out : Bytes) (bit : Bool) :
    decStepC t cap nd out.length out bit =
      (decStep t cap nd out bit,
        match decStep t cap nd out bit with
        | .cont _ out' => out'.length
        | _ => out.length) := by
  unfold decStepC decStep Tw.Huffman.child Tw.Huffman.childF
  simp only []
  generalize (if bit = true then (Tw.Huffman.node t nd).2 else (Tw.Huffman.node t nd).1) = idx
  by_cases h1 : idx ≥ Tw.Huffman.NUM_SYMBOLS
  · simp only [if_pos h1]
  · by_cases h2 : idx = Tw.Huffman.EOF
    · simp only [if_neg h1, if_pos h2]
    · by_cases h3 : out.length ≥ cap
      · simp only [if_neg h1, if_neg h2, if_pos h3]
      · simp only [if_neg h1, if_neg h2, if_neg h3, List.length_cons]

theorem decStepC_fst (t : Tw.Huffman.Table) (cap nd : Nat) (out : Bytes) (bit : Bool) :
    (decStepC t cap nd out.length out bit).1 = decStep t cap nd out bit := by
  rw [decStepC_spec]

theorem decStepC_snd (t : Tw.Huffman.Table) (cap nd : Nat) (out : Bytes) (bit : Bool) (nd' : Nat) (out' : Bytes)
    (h : decStep t cap nd out bit = .cont nd' out') :
    (decStepC t cap nd out.length out bit).2 = out'.length := by
  rw [decStepC_spec, h]

theorem decBitsC_eq (t : Tw.Huffman.Table) (cap : Nat) (bits : List Bool) : ∀ nd (out : Bytes),
    decBitsC t cap nd out.length out bits =
      match decBits t cap nd out bits with
      | .more nd' out' => .more nd' out'.length out'
      | .fin r => .fin r := by
  induction bits with
  | nil => intro nd out; simp [decBitsC, decBits]
  | cons b bs ih =>
    intro nd out
    unfold decBitsC decBits
    have h1 := decStepC_fst t cap nd out b
    match hs : decStep t cap nd out b with
    | .cont nd' out' =>
      have h2 := decStepC_snd t cap nd out b nd' out' hs
      rw [hs] at h1
      have : decStepC t cap nd out.length out b = (.cont nd' out', out'.length) := Prod.ext h1 h2
      simp only [this]
      exact ih nd' out'
    | .done out' =>
      rw [hs] at h1
      generalize decStepC t cap nd out.length out b = r at h1
      obtain ⟨r1, r2⟩ := r
      simp only at h1
      subst h1
      simp
    | .capacity =>
      rw [hs] at h1
      generalize decStepC t cap nd out.length out b = r at h1
      obtain ⟨r1, r2⟩ := r
      simp only at h1
      subst h1
      simp

theorem decZerosC_eq (t : Tw.Huffman.Table) (cap : Nat) : ∀ (fuel nd : Nat) (out : Bytes),
    decZerosC t cap fuel nd out.length out = decZeros t cap fuel nd out
  | 0, nd, out => by simp only [decZerosC, decZeros]
  | fuel + 1, nd, out => by
    simp only [decZerosC, decZeros]
    have h1 := decStepC_fst t cap nd out false
    match hs : decStep t cap nd out false with
    | .cont nd' out' =>
      have h2 := decStepC_snd t cap nd out false nd' out' hs
      rw [hs] at h1
      have : decStepC t cap nd out.length out false = (.cont nd' out', out'.length) := Prod.ext h1 h2
      simp only [this]
      exact decZerosC_eq t cap fuel nd' out'
    | .done out' =>
      rw [hs] at h1
      generalize decStepC t cap nd out.length out false = r at h1
      obtain ⟨r1, r2⟩ := r
      simp only at h1
      subst h1
      simp
    | .capacity =>
      rw [hs] at h1
      generalize decStepC t cap nd out.length out false = r at h1
      obtain ⟨r1, r2⟩ := r
      simp only at h1
      subst h1
      simp

theorem decompressC_eq (t : Tw.Huffman.Table) (input : Bytes) (cap : Nat) :
    decompressC t input cap = Tw.Huffman.decompress t input cap := by
  unfold decompressC Tw.Huffman.decompress
  have h := decBitsC_eq t cap (input.flatMap Tw.Huffman.byteBits) Tw.Huffman.ROOT_IDX []
  simp only [List.length_nil] at h
  rw [h]
  match decBits t cap Tw.Huffman.ROOT_IDX [] (input.flatMap Tw.Huffman.byteBits) with
  | .more nd out => simp only; exact decZerosC_eq t cap _ nd out
  | .fin r => rfl

end

/-! ### one chunk: written, then read back -/

/-- The Huffman round trip for the built-in table (proved as C07 `roundtrip` + `table_wellFormed`). -/
def HuffmanRoundTrip : Prop :=
  ∀ (xs : List UInt8) (cap : Nat), xs.length ≤ cap →
    Tw.Huffman.decompress table (Tw.Huffman.compress table false xs) cap = .ok xs

theorem ChunkHeader.write_length (h : ChunkHeader) (bs : Bytes) (hw : h.write = some bs) : 1 ≤ bs.length := by
  match h, hw with
  | .tick (.delta d) kf, hw =>
    simp only [ChunkHeader.write] at hw
    split at hw
    · simp only [Option.some.injEq] at hw; subst hw; simp
    · simp at hw
  | .tick (.absolute t) kf, hw =>
    simp only [ChunkHeader.write, Option.some.injEq] at hw; subst hw; simp
  | .data k size, hw =>
    simp only [ChunkHeader.write] at hw
    split at hw
    · simp only [Option.some.injEq] at hw; subst hw; simp
    · split at hw <;> (simp only [Option.some.injEq] at hw; subst hw; simp)

theorem writeTick_ok (w w' : Writer) (kf : Bool) (t : Int) (ht : inI32 t)
    (h : w.writeTick kf t = (w', .ok)) :
    ∃ hdr, w'.file = w.file ++ hdr ∧ 1 ≤ hdr.length ∧ w'.prevTick = some t ∧
      ∀ (v : Version) (rest : Bytes), v.num ≥ 5 →
        Reader.readChunk { data := hdr ++ rest, version := v, currentTick := w.prevTick } =
          ({ data := rest, version := v, currentTick := some t }, .chunk (.tick t kf), []) := by
  unfold Writer.writeTick at h
  match htm : TickMarker.new t w.prevTick kf writerVersion, h with
  | some tm, h =>
    simp only [] at h
    match hwr : (ChunkHeader.tick tm kf).write, h with
    | some hdr, h =>
      simp only [Prod.mk.injEq, and_true] at h
      subst h
      refine ⟨hdr, rfl, ChunkHeader.write_length _ _ hwr, rfl, ?_⟩
      intro v rest hv
      unfold TickMarker.new at htm
      match hprev : w.prevTick, htm with
      | none, htm =>
        simp only [Option.some.injEq] at htm
        subst htm
        have := readChunkHeader_write v hv _ hdr rest (show (ChunkHeader.tick (.absolute t) kf).inRange from ht) hwr
        simp only [Reader.readChunk, this, ChunkHeader.readWarnings]
      | some p, htm =>
        simp only [] at htm
        by_cases hgt : t > p
        · simp only [hgt, not_true_eq_false, if_false] at htm
          by_cases hd : inI32 (t - p) ∧ kf = false ∧ t - p ≤ (writerVersion.maxTickDelta : Int)
          · simp only [hd, and_self, if_true, Option.some.injEq] at htm
            subst htm
            obtain ⟨_, hkf, hle⟩ := hd
            have hle' : (t - p).toNat ≤ 31 := by
              simp [writerVersion, Version.maxTickDelta, CHUNKTICKMASK_TICK_V5] at hle; omega
            have := readChunkHeader_write v hv _ hdr rest
              (show (ChunkHeader.tick (.delta (t - p).toNat) kf).inRange from ⟨hle', hkf⟩) hwr
            have hsum : p + ((t - p).toNat : Int) = t := by omega
            simp only [Reader.readChunk, this, ChunkHeader.readWarnings, hsum, ht, not_true_eq_false, if_false]
          · simp only [hd, if_false, Option.some.injEq] at htm
            subst htm
            have := readChunkHeader_write v hv _ hdr rest (show (ChunkHeader.tick (.absolute t) kf).inRange from ht) hwr
            have hge : ¬ p ≥ t := by omega
            simp only [Reader.readChunk, this, ChunkHeader.readWarnings, hge, if_false]
        · simp [hgt] at htm


theorem writeData_ok (hH : HuffmanRoundTrip) (w w' : Writer) (k : DataKind) (hk : k ≠ .unknown) (data : Bytes)
    (h : w.writeData k data = (w', .ok)) :
    data.length ≤ MAX_SNAPSHOT_SIZE ∧
    ∃ enc, w'.file = w.file ++ enc ∧ 1 ≤ enc.length ∧ w'.prevTick = w.prevTick ∧
      ∀ (v : Version) (rest : Bytes), v.num ≥ 5 →
        readChunkHeader v (enc ++ rest) = .ok (.data k (Tw.Huffman.compress table false data).length)
            (Tw.Huffman.compress table false data ++ rest) [] ∧
        takeN (Tw.Huffman.compress table false data).length (Tw.Huffman.compress table false data ++ rest)
          = some (Tw.Huffman.compress table false data, rest) ∧
        decompressC table (Tw.Huffman.compress table false data) MAX_SNAPSHOT_SIZE = .ok data := by
  unfold Writer.writeData at h
  by_cases hlen : data.length > MAX_SNAPSHOT_SIZE
  · simp [hlen] at h
  · simp only [hlen, if_false] at h
    unfold Tw.Huffman.compressInto at h
    simp only [] at h
    by_cases hc : (Tw.Huffman.compress table false data).length ≤ MAX_SNAPSHOT_SIZE
    · simp only [hc, if_true] at h
      by_cases hc2 : (Tw.Huffman.compress table false data).length > 65535
      · simp [hc2] at h
      · simp only [hc2, if_false] at h
        match hwr : (ChunkHeader.data k (Tw.Huffman.compress table false data).length).write, h with
        | some hdr, h =>
          simp only [Prod.mk.injEq, and_true] at h
          subst h
          refine ⟨by omega, hdr ++ Tw.Huffman.compress table false data, by simp [List.append_assoc], ?_, rfl, ?_⟩
          · have := ChunkHeader.write_length _ _ hwr
            simp; omega
          intro v rest hv
          have hr := readChunkHeader_write v hv _ hdr (Tw.Huffman.compress table false data ++ rest)
            (show (ChunkHeader.data k _).inRange from (by show _ < 65536; omega)) hwr
          have hws : (ChunkHeader.data k (Tw.Huffman.compress table false data).length).readWarnings = [] := by
            cases k <;> simp_all [ChunkHeader.readWarnings]
          rw [hws] at hr
          refine ⟨by rw [List.append_assoc]; exact hr, takeN_append _ _ _ rfl, ?_⟩
          rw [decompressC_eq]
          exact hH data MAX_SNAPSHOT_SIZE (by omega)
    · simp [hc] at h


/-- chunks of the writer's domain: tick numbers are `i32`s -/
def Chunk.inRange : Chunk → Prop
  | .tick t _ => inI32 t
  | _ => True

theorem writeChunk_ok (hH : HuffmanRoundTrip) (w w' : Writer) (c : Chunk) (hc : c.inRange)
    (h : w.writeChunk c = (w', .ok)) :
    ∃ enc, w'.file = w.file ++ enc ∧ 1 ≤ enc.length ∧
      ∀ (v : Version) (rest : Bytes), v.num ≥ 5 →
        Reader.readChunk { data := enc ++ rest, version := v, currentTick := w.prevTick } =
          ({ data := rest, version := v, currentTick := w'.prevTick }, .chunk c.padded, []) := by
  match c, hc, h with
  | .tick t kf, hc, h =>
    obtain ⟨hdr, hf, hl, hp, hr⟩ := writeTick_ok w w' kf t hc h
    refine ⟨hdr, hf, hl, ?_⟩
    intro v rest hv
    rw [hp]
    exact hr v rest hv
  | .snapshot d, _, h =>
    obtain ⟨_, enc, hf, hl, hp, hr⟩ := writeData_ok hH w w' .snapshot (by decide) d h
    refine ⟨enc, hf, hl, ?_⟩
    intro v rest hv
    obtain ⟨h1, h2, h3⟩ := hr v rest hv
    simp only [Reader.readChunk, h1, h2, h3, hp, Chunk.padded]
  | .delta d, _, h =>
    obtain ⟨_, enc, hf, hl, hp, hr⟩ := writeData_ok hH w w' .delta (by decide) d h
    refine ⟨enc, hf, hl, ?_⟩
    intro v rest hv
    obtain ⟨h1, h2, h3⟩ := hr v rest hv
    simp only [Reader.readChunk, h1, h2, h3, hp, Chunk.padded]
  | .message d, _, h =>
    simp only [Writer.writeChunk, Writer.writeMessage] at h
    by_cases hl1 : d.length > MAX_SNAPSHOT_SIZE
    · simp [hl1] at h
    · simp only [hl1, if_false] at h
      by_cases hl2 : (packInts (msgInts d)).length > MAX_SNAPSHOT_SIZE
      · simp [hl2] at h
      · simp only [hl2, if_false] at h
        obtain ⟨_, enc, hf, hl, hp, hr⟩ := writeData_ok hH w w' .message (by decide) _ h
        refine ⟨enc, hf, hl, ?_⟩
        intro v rest hv
        obtain ⟨h1, h2, h3⟩ := hr v rest hv
        have hslots : (msgInts d).length ≤ MAX_SNAPSHOT_SIZE / 4 := by
          rw [msgInts_length]; simp [MAX_SNAPSHOT_SIZE] at hl1 ⊢; omega
        have hu := unpackMsg_pack (msgInts d) (msgInts_inI32 d) (packInts (msgInts d)).length (MAX_SNAPSHOT_SIZE / 4)
          (Nat.le_refl _) hslots
        rw [unpack_msgInts] at hu
        simp only [Reader.readChunk, h1, h2, h3, hp, hu, Chunk.padded, List.append_nil]

/-! ### a chunk sequence: written, then read back -/

theorem writeAll_readAll (hH : HuffmanRoundTrip) : ∀ (cs : List Chunk) (w w' : Writer),
    (∀ c ∈ cs, c.inRange) → w.writeAll cs = (w', .ok) →
    ∃ body, w'.file = w.file ++ body ∧
      ∀ (v : Version) (fuel : Nat), v.num ≥ 5 → body.length + 1 ≤ fuel →
        Reader.readAllGo fuel { data := body, version := v, currentTick := w.prevTick } =
          (cs.map Chunk.padded, [], none) := by
  intro cs
  induction cs with
  | nil =>
    intro w w' _ h
    simp only [Writer.writeAll, Prod.mk.injEq, and_true] at h
    subst h
    refine ⟨[], by simp, ?_⟩
    intro v fuel _ hf
    match fuel, hf with
    | fuel + 1, _ => simp [Reader.readAllGo, Reader.readChunk, readChunkHeader]
  | cons c cs ih =>
    intro w w' hr h
    simp only [Writer.writeAll] at h
    match hw1 : w.writeChunk c, h with
    | (w1, .ok), h =>
      simp only [] at h
      obtain ⟨enc, hf1, hl1, hrd⟩ := writeChunk_ok hH w w1 c (hr c (by simp)) hw1
      obtain ⟨body, hf2, hrest⟩ := ih w1 w' (fun c hc => hr c (by simp [hc])) h
      refine ⟨enc ++ body, by rw [hf2, hf1, List.append_assoc], ?_⟩
      intro v fuel hv hfuel
      match fuel, hfuel with
      | fuel + 1, hfuel =>
        simp only [Reader.readAllGo, hrd v body hv]
        rw [hrest v fuel hv (by simp at hfuel; omega)]
        simp
    | (w1, .panic s), h => simp at h

/-! ### file header: written, then read back -/

theorem magic_length : magic.length = 7 := by decide
theorem shaExtension_length : shaExtension.length = 16 := by decide
theorem kind_magic_length (k : Kind) : k.magic.length = 8 := by cases k <;> decide
theorem capped_length (n : Nat) (s : Bytes) (h : s.length < n) : (capped n s).length = n := by
  simp [capped]; omega

theorem cstr_capped (n : Nat) (s : Bytes) (h : s.length < n) (hz : ∀ b ∈ s, b ≠ 0) : cstr (capped n s) = s := by
  unfold cstr capped
  have hpos : 0 < n - s.length := by omega
  obtain ⟨k, hk⟩ : ∃ k, n - s.length = k + 1 := ⟨n - s.length - 1, by omega⟩
  rw [hk, List.replicate_succ]
  rw [List.takeWhile_append_of_pos (by simpa using hz)]
  simp

theorem weirdPadding_capped (n : Nat) (s : Bytes) (hz : ∀ b ∈ s, b ≠ 0) : weirdPadding (capped n s) = false := by
  unfold weirdPadding capped
  rw [List.dropWhile_append_of_pos (by simpa using hz)]
  induction (n - s.length) with
  | zero => simp
  | succ k ih => simp [List.replicate_succ]


/-- header arguments inside the documented format: NUL-free strings (they are NUL-terminated in
the file), a 32-byte digest, `u32` checksum, `i32` length -/
def HeaderArgs.wf (a : HeaderArgs) : Prop :=
  (∀ b ∈ a.netVersion, b ≠ 0) ∧ (∀ b ∈ a.mapName, b ≠ 0) ∧ (∀ b ∈ a.timestamp, b ≠ 0) ∧
  (∀ s, a.sha = some s → s.length = 32) ∧ a.crc < 4294967296 ∧ inI32 a.length

/-- what the reader's header accessors are expected to return for a file written with `a` -/
def HeaderArgs.info (a : HeaderArgs) : HeaderInfo :=
  { version := if a.sha.isSome then writerVersionDdnet else writerVersion
    netVersion := a.netVersion, mapName := a.mapName, mapSize := a.map.length, crc := a.crc,
    kind := a.kind, length := a.length, timestamp := a.timestamp, markers := [], sha := a.sha,
    map := a.map }

/-- a concrete instance of `HeaderArgs.wf` (used for the non-vacuity examples) -/
def exampleArgs : HeaderArgs :=
  { netVersion := [48, 46, 54], mapName := [100, 109, 49], sha := none, crc := 7, kind := .client,
    length := 0, timestamp := [50], map := [1, 2, 3] }

theorem readI32s_zero : readI32s 64 zeroMarkerBytes = noMarkers := by decide

theorem toI32_small (n : Nat) (h : n < 2147483648) : toI32 n = n := by
  unfold toI32; omega

theorem readFixed_encode (a : HeaderArgs) (hwf : a.wf) (rest : Bytes)
    (hl1 : a.netVersion.length < 64) (hl2 : a.mapName.length < 64) (hl3 : a.timestamp.length < 20)
    (hl4 : a.map.length < 2147483648) (hl5 : a.length ≥ 0) (v : Version) :
    readFixed (magic ++ ([UInt8.ofNat v.num] ++ (capped 64 a.netVersion ++ (capped 64 a.mapName
      ++ (be32 a.map.length ++ (be32 a.crc ++ (a.kind.magic ++ (be32 (toU32 a.length)
      ++ (capped 20 a.timestamp ++ rest))))))))) =
    some ({ version := v, netVersion := capped 64 a.netVersion, mapName := capped 64 a.mapName,
            mapSize := a.map.length, crc := a.crc, kind := a.kind, length := a.length,
            timestamp := capped 20 a.timestamp }, rest) := by
  obtain ⟨hz1, hz2, hz3, hsha, hcrc, hlen⟩ := hwf
  have e1 : toI32 (beVal (be32 a.map.length)) = (a.map.length : Int) := by
    rw [beVal_be32 _ (by omega), toI32_small _ hl4]
  have e2 : beVal (be32 a.crc) = a.crc := beVal_be32 _ hcrc
  have e3 : toI32 (beVal (be32 (toU32 a.length))) = a.length := by
    rw [beVal_be32 _ (toU32_lt _), toI32_toU32 _ hlen]
  have hk : readKind a.kind.magic = some a.kind := by cases a.kind <;> decide
  have hneg : ¬ ((a.map.length : Int) < 0) := by omega
  have hneg2 : ¬ (a.length < 0) := by omega
  have hv : Version.ofByte (beVal [UInt8.ofNat v.num]) = some v := by cases v <;> decide
  unfold readFixed
  rw [takeN_append magic _ 7 magic_length]
  simp only [ne_eq, not_true_eq_false, if_false]
  rw [takeN_append [UInt8.ofNat v.num] _ 1 rfl]
  simp only [hv]
  rw [takeN_append (capped 64 a.netVersion) _ 64 (capped_length _ _ hl1)]
  simp only []
  rw [takeN_append (capped 64 a.mapName) _ 64 (capped_length _ _ hl2)]
  simp only []
  rw [takeN_append (be32 a.map.length) _ 4 (be32_length _)]
  simp only [e1, hneg, if_false]
  rw [takeN_append (be32 a.crc) _ 4 (be32_length _)]
  simp only []
  rw [takeN_append a.kind.magic _ 8 (kind_magic_length _)]
  simp only [hk]
  rw [takeN_append (be32 (toU32 a.length)) _ 4 (be32_length _)]
  simp only [e3, hneg2, if_false]
  rw [takeN_append (capped 20 a.timestamp) _ 20 (capped_length _ _ hl3)]
  simp only [e2, Int.toNat_natCast]


theorem readMarkers_zero (v : Version) (hv : v.num ≥ 5) (rest : Bytes) :
    readMarkers v (be32 0 ++ (zeroMarkerBytes ++ rest)) = some (0, noMarkers, rest) := by
  have hv4 : v.num ≥ 4 := by omega
  have e4 : toI32 (beVal (be32 0)) = 0 := by decide
  unfold readMarkers
  simp only [hv4, if_true]
  rw [takeN_append (be32 0) _ 4 (be32_length _)]
  simp only [e4]
  rw [takeN_append zeroMarkerBytes _ 256 (List.length_replicate ..)]
  simp [readI32s_zero]

theorem markerWarnings_zero : markerWarnings 0 noMarkers = [] := by decide
theorem noMarkers_take : noMarkers.take 0 = [] := rfl

theorem readHeader_encode (a : HeaderArgs) (hwf : a.wf) (hdr rest : Bytes)
    (henc : encodeHeader a = some hdr) :
    readHeader (hdr ++ rest) = some (a.info, rest, []) := by
  have hwf' := hwf
  obtain ⟨hz1, hz2, hz3, hsha, hcrc, hlen⟩ := hwf
  unfold encodeHeader at henc
  by_cases hc : a.netVersion.length < 64 ∧ a.mapName.length < 64 ∧ a.timestamp.length < 20
      ∧ a.map.length < 2147483648 ∧ a.length ≥ 0
  · simp only [hc, and_self, not_true_eq_false, if_false, Option.some.injEq] at henc
    obtain ⟨hl1, hl2, hl3, hl4, hl5⟩ := hc
    subst henc
    have hw : headerWarnings (capped 64 a.netVersion) (capped 64 a.mapName) (capped 20 a.timestamp) = [] := by
      simp [headerWarnings, weirdPadding_capped _ _ hz1, weirdPadding_capped _ _ hz2, weirdPadding_capped _ _ hz3]
    match hs : a.sha with
    | none =>
      simp only [Option.isSome_none, Bool.false_eq_true, if_false, List.append_assoc, List.nil_append]
      unfold readHeader
      rw [readFixed_encode a hwf' _ hl1 hl2 hl3 hl4 hl5 writerVersion]
      simp only []
      rw [readMarkers_zero _ (by decide)]
      simp only [readSha, writerVersion, reduceCtorEq, if_false]
      rw [takeN_append a.map _ _ rfl]
      simp [HeaderArgs.info, hs, hw, markerWarnings_zero, noMarkers_take, cstr_capped _ _ hl1 hz1, cstr_capped _ _ hl2 hz2,
        cstr_capped _ _ hl3 hz3, writerVersion]
    | some sh =>
      have hshl := hsha sh hs
      simp only [Option.isSome_some, if_true, List.append_assoc]
      unfold readHeader
      rw [readFixed_encode a hwf' _ hl1 hl2 hl3 hl4 hl5 writerVersionDdnet]
      simp only []
      rw [readMarkers_zero _ (by decide)]
      simp only [readSha, writerVersionDdnet, if_true]
      rw [takeN_append shaExtension _ 16 shaExtension_length]
      simp only [ne_eq, not_true_eq_false, if_false]
      rw [takeN_append sh _ 32 hshl]
      simp only []
      rw [takeN_append a.map _ _ rfl]
      simp [HeaderArgs.info, hs, hw, markerWarnings_zero, noMarkers_take, cstr_capped _ _ hl1 hz1, cstr_capped _ _ hl2 hz2,
        cstr_capped _ _ hl3 hz3, writerVersionDdnet]
  · simp [hc] at henc

/-! ### the whole file -/

theorem info_version_ge5 (a : HeaderArgs) : a.info.version.num ≥ 5 := by
  unfold HeaderArgs.info
  cases a.sha <;> simp [writerVersion, writerVersionDdnet, Version.num]

theorem readFile_written (hH : HuffmanRoundTrip) (a : HeaderArgs) (ha : a.wf) (cs : List Chunk)
    (hcs : ∀ c ∈ cs, c.inRange) (w0 w : Writer) (hnew : Writer.new a = some w0)
    (hw : w0.writeAll cs = (w, .ok)) :
    readFile w.file = some (a.info, cs.map Chunk.padded, [], none) := by
  unfold Writer.new at hnew
  match henc : encodeHeader a, hnew with
  | some hdr, hnew =>
    simp only [Option.some.injEq] at hnew
    subst hnew
    obtain ⟨body, hf, hrd⟩ := writeAll_readAll hH cs _ w hcs hw
    simp only at hf hrd
    have hh := readHeader_encode a ha hdr body henc
    unfold readFile Reader.new
    rw [hf, hh]
    simp only [Reader.readAll]
    rw [hrd a.info.version (body.length + 1) (info_version_ge5 a) (Nat.le_refl _)]
    simp

/-! ### what the writer refuses -/

theorem writeTick_refuses (w : Writer) (kf : Bool) (t p : Int) (hp : w.prevTick = some p) (h : t ≤ p) :
    w.writeTick kf t = (w, .panic "TickMarker::new: tick > p") := by
  have : ¬ t > p := by omega
  simp [Writer.writeTick, TickMarker.new, hp, this]

theorem writeTick_accepts (w : Writer) (kf : Bool) (t : Int) (h : ∀ p, w.prevTick = some p → p < t) :
    ∃ hdr, w.writeTick kf t = ({ file := w.file ++ hdr, prevTick := some t }, .ok) := by
  unfold Writer.writeTick TickMarker.new
  match hp : w.prevTick with
  | none => simp [ChunkHeader.write]
  | some p =>
    have hgt : t > p := h p hp
    simp only [hgt, not_true_eq_false, if_false]
    by_cases hd : inI32 (t - p) ∧ kf = false ∧ t - p ≤ (writerVersion.maxTickDelta : Int)
    · simp only [hd, and_self, if_true]
      obtain ⟨_, hkf, hle⟩ := hd
      have hle' : (t - p).toNat ≤ writerVersion.maxTickDelta := by omega
      simp [ChunkHeader.write, hle', hkf]
    · simp only [hd, if_false, ChunkHeader.write]
      exact ⟨_, rfl⟩

theorem writeData_refusal_unchanged (w w' : Writer) (k : DataKind) (d : Bytes) (s : String)
    (h : w.writeData k d = (w', .panic s)) : w' = w := by
  unfold Writer.writeData at h
  repeat' split at h
  all_goals first | (cases h; rfl) | (simp at h)

theorem writeChunk_refusal_unchanged (w w' : Writer) (c : Chunk) (s : String)
    (h : w.writeChunk c = (w', .panic s)) : w' = w := by
  match c, h with
  | .tick t kf, h =>
    simp only [Writer.writeChunk, Writer.writeTick] at h
    repeat' split at h
    all_goals first | (cases h; rfl) | (simp at h)
  | .snapshot d, h => exact writeData_refusal_unchanged _ _ _ _ _ h
  | .delta d, h => exact writeData_refusal_unchanged _ _ _ _ _ h
  | .message d, h =>
    simp only [Writer.writeChunk, Writer.writeMessage] at h
    split at h
    · cases h; rfl
    · split at h
      · cases h; rfl
      · exact writeData_refusal_unchanged _ _ _ _ _ h
  | .unknown, h => cases h; rfl

theorem data_header_writes (k : DataKind) (n : Nat) : ∃ hdr, (ChunkHeader.data k n).write = some hdr := by
  simp only [ChunkHeader.write]
  repeat' split
  all_goals exact ⟨_, rfl⟩

theorem writeData_accepts_iff (w : Writer) (k : DataKind) (d : Bytes) :
    (w.writeData k d).2 = .ok ↔
      d.length ≤ MAX_SNAPSHOT_SIZE ∧ (Tw.Huffman.compress table false d).length ≤ 65535 := by
  obtain ⟨hdr, hh⟩ := data_header_writes k (Tw.Huffman.compress table false d).length
  unfold Writer.writeData Tw.Huffman.compressInto
  by_cases h1 : d.length > MAX_SNAPSHOT_SIZE
  · simp only [h1, if_true]
    constructor
    · intro h; cases h
    · intro h; omega
  · by_cases h2 : (Tw.Huffman.compress table false d).length ≤ MAX_SNAPSHOT_SIZE
    · by_cases h3 : (Tw.Huffman.compress table false d).length > 65535
      · simp only [h1, h2, h3, if_true, if_false]
        constructor
        · intro h; cases h
        · intro h; omega
      · simp only [h1, h2, h3, if_true, if_false, hh, true_iff]
        omega
    · simp only [h1, h2, if_false]
      constructor
      · intro h; cases h
      · intro h; simp [MAX_SNAPSHOT_SIZE] at h2; omega

theorem new_accepts_iff (a : HeaderArgs) :
    (Writer.new a).isSome ↔ (a.netVersion.length < 64 ∧ a.mapName.length < 64 ∧ a.timestamp.length < 20
        ∧ a.map.length < 2147483648 ∧ a.length ≥ 0) := by
  unfold Writer.new encodeHeader
  split <;> simp_all

end Tw.Demo
