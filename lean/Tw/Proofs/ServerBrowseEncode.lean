import Tw.Model.ServerBrowse
import Tw.Model.ServerBrowseEnc
import Tw.Proofs.Packer
import Tw.Proofs.ServerBrowse
import Tw.Proofs.ServerBrowseMerge

/-! A reference *encoder* for server infos (what a well-behaved server puts on the wire) and the
round trip `parse (encode x) = x`, for all seven info kinds.  The encoder is specification-level:
the library has no writer for these packets. -/
namespace Tw.ServerBrowse
open Tw.Gen.Browse
open Tw.Packer (readString readInt writeInt inI32)

/-! ### strings -/

theorem readString_putStr : ∀ (s rest : List UInt8), (∀ b ∈ s, b ≠ 0) → readString (putStr s rest) = some (s, rest)
  | [], rest, _ => by simp [putStr, readString]
  | b :: s, rest, h => by
    have hb : b ≠ 0 := h b List.mem_cons_self
    have ih := readString_putStr s rest (fun x hx => h x (List.mem_cons_of_mem _ hx))
    simp only [putStr, List.cons_append] at ih ⊢
    unfold readString
    simp [hb, ih]

/-- what a string field must satisfy to survive: no NUL, valid UTF-8, within the capacity -/
structure GoodStr (cap : Nat) (s : List UInt8) : Prop where
  noNul : ∀ b ∈ s, b ≠ 0
  utf8 : utf8Valid s = true
  fits : s.length ≤ cap

theorem readStr_putStr {cap : Nat} {s : List UInt8} (h : GoodStr cap s) (rest : List UInt8) :
    readStr (putStr s rest) = some (s, rest) := by
  unfold readStr
  rw [readString_putStr s rest h.noNul]
  simp [h.utf8]

theorem truncated_good {cap : Nat} {s : List UInt8} (h : GoodStr cap s) : truncated cap s = s := by
  unfold truncated; simp [h.fits]

theorem goodStr_nil (cap : Nat) : GoodStr cap [] := ⟨by simp, rfl, by simp⟩

/-! ### decimal integers -/

theorem utf8Valid_ascii : ∀ (s : List UInt8), (∀ b ∈ s, b.toNat < 128) → utf8Valid s = true
  | [], _ => rfl
  | b :: s, h => by
    unfold utf8Valid
    have := h b List.mem_cons_self
    simp [this, utf8Valid_ascii s (fun x hx => h x (List.mem_cons_of_mem _ hx))]

theorem digit_toNat (n : Nat) : (digit n).toNat = 48 + n % 10 := by
  unfold digit
  rw [UInt8.toNat_ofNat']
  omega

theorem digitsVal_append : ∀ (l r : List UInt8) (acc : Nat),
    digitsVal (l ++ r) acc = (digitsVal l acc).bind (digitsVal r)
  | [], r, acc => by simp [digitsVal]
  | b :: l, r, acc => by
    simp only [List.cons_append, digitsVal]
    split
    · exact digitsVal_append l r _
    · rfl

theorem digitsVal_digit (n acc : Nat) : digitsVal [digit n] acc = some (acc * 10 + n % 10) := by
  have h1 : 48 ≤ 48 + n % 10 := by omega
  have h2 : 48 + n % 10 ≤ 57 := by omega
  simp [digitsVal, isDigit, digit_toNat, h2]

theorem natDigits_spec : ∀ (f n : Nat), n < f →
    digitsVal (natDigits f n) 0 = some n ∧ natDigits f n ≠ [] ∧ ∀ b ∈ natDigits f n, 48 ≤ b.toNat ∧ b.toNat ≤ 57
  | 0, n, h => by omega
  | f + 1, n, h => by
    unfold natDigits
    by_cases h10 : n < 10
    · simp only [h10, if_true]
      refine ⟨?_, by simp, ?_⟩
      · rw [digitsVal_digit]; simp; omega
      · intro b hb
        simp only [List.mem_singleton] at hb
        rw [hb, digit_toNat]; omega
    · simp only [h10, if_false]
      have ih := natDigits_spec f (n / 10) (by omega)
      refine ⟨?_, by simp, ?_⟩
      · rw [digitsVal_append, ih.1]
        simp only [Option.bind_some, digitsVal_digit]
        congr 1; omega
      · intro b hb
        rcases List.mem_append.1 hb with hb | hb
        · exact ih.2.2 b hb
        · simp only [List.mem_singleton] at hb
          rw [hb, digit_toNat]; omega

theorem decimal_bytes (v : Int) : ∀ b ∈ decimal v, b.toNat < 128 ∧ b ≠ 0 := by
  intro b hb
  unfold decimal at hb
  have key : ∀ f n, n < f → ∀ b ∈ natDigits f n, b.toNat < 128 ∧ b ≠ 0 := by
    intro f n h b hb
    have := (natDigits_spec f n h).2.2 b hb
    refine ⟨by omega, ?_⟩
    intro e; rw [e] at this; simp at this
  split at hb
  · rcases List.mem_cons.1 hb with rfl | hb
    · exact ⟨by decide, by decide⟩
    · exact key _ _ (by omega) b hb
  · exact key _ _ (by omega) b hb

theorem parseI32_decimal (v : Int) (h : inI32 v) : parseI32 (decimal v) = some v := by
  obtain ⟨hlo, hhi⟩ := h
  unfold decimal
  by_cases hneg : v < 0
  · simp only [hneg, if_true]
    have sp := natDigits_spec (v.natAbs + 1) v.natAbs (by omega)
    unfold parseI32
    simp only
    have h45 : (45 : UInt8).toNat = 45 := by decide
    simp only [h45, if_true]
    have hne : (natDigits (v.natAbs + 1) v.natAbs).isEmpty = false := by
      cases hd : natDigits (v.natAbs + 1) v.natAbs with
      | nil => exact absurd hd sp.2.1
      | cons a l => rfl
    simp only [hne, Bool.false_eq_true, if_false, sp.1]
    have : v.natAbs ≤ 2 ^ 31 := by omega
    simp only [this, if_true]
    congr 1; omega
  · simp only [hneg, if_false]
    have sp := natDigits_spec (v.toNat + 1) v.toNat (by omega)
    unfold parseI32
    cases hd : natDigits (v.toNat + 1) v.toNat with
    | nil => exact absurd hd sp.2.1
    | cons c t =>
      have hc := sp.2.2 c (by rw [hd]; exact List.mem_cons_self)
      have h1 : ¬ c.toNat = 45 := by omega
      have h2 : ¬ c.toNat = 43 := by omega
      simp only [h1, h2, if_false]
      rw [← hd]
      have hne : (natDigits (v.toNat + 1) v.toNat).isEmpty = false := by rw [hd]; rfl
      simp only [hne, Bool.false_eq_true, if_false, sp.1]
      have : v.toNat < 2 ^ 31 := by omega
      simp only [this, if_true]
      congr 1; omega

theorem readIntV5_decimal (v : Int) (h : inI32 v) (rest : List UInt8) :
    readIntV5 (putStr (decimal v) rest) = some (v, rest) := by
  unfold readIntV5
  rw [readString_putStr _ _ (fun b hb => (decimal_bytes v b hb).2)]
  simp [utf8Valid_ascii _ (fun b hb => (decimal_bytes v b hb).1), parseI32_decimal v h]

theorem reader_putInt (k : InfoKind) (v : Int) (h : inI32 v) (rest : List UInt8) :
    k.reader (putInt k v rest) = some (v, rest) := by
  cases k <;> first
    | exact readIntV5_decimal v h rest
    | (show readIntV7 (writeInt v ++ rest) = some (v, rest)
       unfold readIntV7
       rw [Tw.Packer.readInt_writeInt v h rest])

/-! ### the per-version feature tables, evaluated (regenerated tables: these are re-checked by `decide`) -/

@[simp] theorem hasHostname_v5 : Version.v5.hasHostname = false := by decide
@[simp] theorem hasHostname_v6 : Version.v6.hasHostname = false := by decide
@[simp] theorem hasHostname_v6Ddper : Version.v6Ddper.hasHostname = false := by decide
@[simp] theorem hasHostname_v664 : Version.v664.hasHostname = false := by decide
@[simp] theorem hasHostname_v6Ex : Version.v6Ex.hasHostname = false := by decide
@[simp] theorem hasHostname_v7 : Version.v7.hasHostname = true := by decide
@[simp] theorem hasProgression_v5 : Version.v5.hasProgression = true := by decide
@[simp] theorem hasProgression_v6 : Version.v6.hasProgression = false := by decide
@[simp] theorem hasProgression_v6Ddper : Version.v6Ddper.hasProgression = false := by decide
@[simp] theorem hasProgression_v664 : Version.v664.hasProgression = false := by decide
@[simp] theorem hasProgression_v6Ex : Version.v6Ex.hasProgression = false := by decide
@[simp] theorem hasProgression_v7 : Version.v7.hasProgression = false := by decide
@[simp] theorem hasSkillLevel_v5 : Version.v5.hasSkillLevel = false := by decide
@[simp] theorem hasSkillLevel_v6 : Version.v6.hasSkillLevel = false := by decide
@[simp] theorem hasSkillLevel_v6Ddper : Version.v6Ddper.hasSkillLevel = false := by decide
@[simp] theorem hasSkillLevel_v664 : Version.v664.hasSkillLevel = false := by decide
@[simp] theorem hasSkillLevel_v6Ex : Version.v6Ex.hasSkillLevel = false := by decide
@[simp] theorem hasSkillLevel_v7 : Version.v7.hasSkillLevel = true := by decide
@[simp] theorem hasOffset_v5 : Version.v5.hasOffset = false := by decide
@[simp] theorem hasOffset_v6 : Version.v6.hasOffset = false := by decide
@[simp] theorem hasOffset_v6Ddper : Version.v6Ddper.hasOffset = false := by decide
@[simp] theorem hasOffset_v664 : Version.v664.hasOffset = true := by decide
@[simp] theorem hasOffset_v6Ex : Version.v6Ex.hasOffset = false := by decide
@[simp] theorem hasOffset_v7 : Version.v7.hasOffset = false := by decide
@[simp] theorem hasExtendedPlayerInfo_v5 : Version.v5.hasExtendedPlayerInfo = false := by decide
@[simp] theorem hasExtendedPlayerInfo_v6 : Version.v6.hasExtendedPlayerInfo = true := by decide
@[simp] theorem hasExtendedPlayerInfo_v6Ddper : Version.v6Ddper.hasExtendedPlayerInfo = true := by decide
@[simp] theorem hasExtendedPlayerInfo_v664 : Version.v664.hasExtendedPlayerInfo = true := by decide
@[simp] theorem hasExtendedPlayerInfo_v6Ex : Version.v6Ex.hasExtendedPlayerInfo = true := by decide
@[simp] theorem hasExtendedPlayerInfo_v7 : Version.v7.hasExtendedPlayerInfo = true := by decide
@[simp] theorem hasExtendedMapInfo_v5 : Version.v5.hasExtendedMapInfo = false := by decide
@[simp] theorem hasExtendedMapInfo_v6 : Version.v6.hasExtendedMapInfo = false := by decide
@[simp] theorem hasExtendedMapInfo_v6Ddper : Version.v6Ddper.hasExtendedMapInfo = false := by decide
@[simp] theorem hasExtendedMapInfo_v664 : Version.v664.hasExtendedMapInfo = false := by decide
@[simp] theorem hasExtendedMapInfo_v6Ex : Version.v6Ex.hasExtendedMapInfo = true := by decide
@[simp] theorem hasExtendedMapInfo_v7 : Version.v7.hasExtendedMapInfo = false := by decide
@[simp] theorem hasExtraInfo_v5 : Version.v5.hasExtraInfo = false := by decide
@[simp] theorem hasExtraInfo_v6 : Version.v6.hasExtraInfo = false := by decide
@[simp] theorem hasExtraInfo_v6Ddper : Version.v6Ddper.hasExtraInfo = false := by decide
@[simp] theorem hasExtraInfo_v664 : Version.v664.hasExtraInfo = false := by decide
@[simp] theorem hasExtraInfo_v6Ex : Version.v6Ex.hasExtraInfo = true := by decide
@[simp] theorem hasExtraInfo_v7 : Version.v7.hasExtraInfo = false := by decide
@[simp] theorem hasFullClientFlags_v5 : Version.v5.hasFullClientFlags = false := by decide
@[simp] theorem hasFullClientFlags_v6 : Version.v6.hasFullClientFlags = false := by decide
@[simp] theorem hasFullClientFlags_v6Ddper : Version.v6Ddper.hasFullClientFlags = false := by decide
@[simp] theorem hasFullClientFlags_v664 : Version.v664.hasFullClientFlags = false := by decide
@[simp] theorem hasFullClientFlags_v6Ex : Version.v6Ex.hasFullClientFlags = false := by decide
@[simp] theorem hasFullClientFlags_v7 : Version.v7.hasFullClientFlags = true := by decide

@[simp] theorem version_info5 : InfoKind.info5.received.version = .v5 := rfl
@[simp] theorem version_info6 : InfoKind.info6.received.version = .v6 := rfl
@[simp] theorem version_info6Ddper : InfoKind.info6Ddper.received.version = .v6Ddper := rfl
@[simp] theorem version_info664 : InfoKind.info664.received.version = .v664 := rfl
@[simp] theorem version_info6Ex : InfoKind.info6Ex.received.version = .v6Ex := rfl
@[simp] theorem version_info6ExMore : InfoKind.info6ExMore.received.version = .v6Ex := rfl
@[simp] theorem version_info7 : InfoKind.info7.received.version = .v7 := rfl

/-! ### clients -/

/-- what a client record must satisfy to be representable on the wire of kind `k` -/
structure ClientOk (k : InfoKind) (c : ClientInfo) : Prop where
  name : GoodStr CAP_CLIENT_NAME c.name
  score : inI32 c.score
  ext : k.received.version.hasExtendedPlayerInfo = true →
    GoodStr CAP_CLIENT_CLAN c.clan ∧ inI32 c.country ∧
      (if k.received.version.hasFullClientFlags = true then inI32 c.flags else (c.flags = 0 ∨ c.flags = 1))
  plain : k.received.version.hasExtendedPlayerInfo = false → c.clan = [] ∧ c.country = -1 ∧ c.flags = 0

theorem readClient_encClient (k : InfoKind) (c : ClientInfo) (h : ClientOk k c) (rest : List UInt8) :
    readClient k.reader k.received.version (encClient k c rest) = .client c rest := by
  obtain ⟨hname, hscore, hext, hplain⟩ := h
  have hn := fun r => readStr_putStr hname r
  have hs := fun r => reader_putInt k c.score hscore r
  have he := fun r => readStr_putStr (goodStr_nil 0) r
  have i0 := fun r => reader_putInt k 0 (by decide) r
  have i1 := fun r => reader_putInt k 1 (by decide) r
  have hco' := fun (hh : inI32 c.country) r => reader_putInt k c.country hh r
  have hf' := fun (hh : inI32 c.flags) r => reader_putInt k c.flags hh r
  unfold readClient encClient
  simp only [hn]
  unfold readClientTail
  cases k
  case info5 =>
    have hp := hplain (by simp)
    obtain ⟨cname, cclan, ccountry, cscore, cflags⟩ := c
    simp only at hp hs ⊢
    obtain ⟨rfl, rfl, rfl⟩ := hp
    simp [Reader.andThen, Reader.ret, hs, truncated_good hname]
  all_goals
    have hx := hext (by simp)
    obtain ⟨hclan, hcountry, hflags⟩ := hx
    have hc := fun r => readStr_putStr hclan r
    have hco := hco' hcountry
    simp only [version_info6, version_info6Ddper, version_info664, version_info6Ex, version_info6ExMore, version_info7,
      hasFullClientFlags_v6, hasFullClientFlags_v6Ddper, hasFullClientFlags_v664, hasFullClientFlags_v6Ex,
      hasFullClientFlags_v7, if_true, if_false, Bool.false_eq_true] at hflags
    obtain ⟨cname, cclan, ccountry, cscore, cflags⟩ := c
    simp only at hflags hs hc hco hn hf' ⊢
    first
    | (have hf := hf' hflags
       simp [Reader.andThen, Reader.ret, hs, hc, hco, hf, truncated_good hname, truncated_good hclan])
    | (rcases hflags with rfl | rfl <;>
       simp [Reader.andThen, Reader.ret, hs, hc, hco, he, i0, i1, truncated_good hname, truncated_good hclan,
         CLIENTINFO_FLAG_SPECTATOR])

theorem readClient_nil (ri : Reader Int) (ver : Version) : readClient ri ver [] = .stop := by
  simp [readClient, readStr, readString]

theorem parseClients_encClients (hs : SLOT_SKIP_FROM = RECEIVED_BITS) (k : InfoKind) :
    ∀ (cs : List ClientInfo), (∀ c ∈ cs, ClientOk k c) →
    ∀ (fuel j : Nat) (acc : List ClientInfo) (recv : Nat), cs.length < fuel →
      (k.received.version = .v664 → j + cs.length ≤ RECEIVED_BITS) →
      parseClients k.reader k.received.version fuel j (encClients k cs []) acc recv
        = .ok (some (acc ++ cs, if k.received.version = .v664 then recv ||| rangeMask j cs.length else recv)) := by
  intro cs
  induction cs with
  | nil =>
    intro _ fuel j acc recv hf _
    cases fuel with
    | zero => simp at hf
    | succ f =>
      unfold parseClients
      simp only [encClients, readClient_nil, List.append_nil, List.length_nil, rangeMask_zero, Nat.or_zero, ite_self]
  | cons c cs ih =>
    intro hok fuel j acc recv hf hj
    cases fuel with
    | zero => simp at hf
    | succ f =>
      unfold parseClients
      simp only [encClients, readClient_encClient k c (hok c List.mem_cons_self)]
      have ih' := ih (fun x hx => hok x (List.mem_cons_of_mem _ hx)) f (j + 1) (acc ++ [c])
      simp only [List.length_cons] at hf hj
      by_cases hv : k.received.version = .v664
      · have hj' := hj hv
        have hnj : ¬ j ≥ SLOT_SKIP_FROM := by omega
        simp only [hv, if_true, hnj, if_false]
        rw [shl1_ok (by omega)]
        simp only
        have := ih' (recv ||| 1 <<< j) (by omega) (fun _ => by omega)
        simp only [hv, if_true] at this
        rw [this, shl_one, Nat.or_assoc, rangeMask_succ]
        simp [List.append_assoc]
      · simp only [hv, if_false]
        have := ih' recv (by omega) (fun h => absurd h hv)
        simp only [hv, if_false] at this
        rw [this]
        simp [List.append_assoc]

theorem encClient_length (k : InfoKind) (c : ClientInfo) (rest : List UInt8) :
    rest.length < (encClient k c rest).length := by
  unfold encClient
  have mono_putStr : ∀ s (r : List UInt8), r.length ≤ (putStr s r).length := by intro s r; simp [putStr]; omega
  have mono_putInt : ∀ v (r : List UInt8), r.length ≤ (putInt k v r).length := by
    intro v r; cases k <;> simp [putInt, putStr] <;> omega
  simp only
  have a1 : rest.length ≤ ((if k.received.version.hasExtraInfo = true then putStr [] else id) rest).length := by
    split
    · exact mono_putStr _ _
    · exact Nat.le_refl _
  generalize ((if k.received.version.hasExtraInfo = true then putStr [] else id) rest) = r1 at a1
  have a2 : r1.length ≤ ((if k.received.version.hasExtendedPlayerInfo = true then
      (if k.received.version.hasFullClientFlags = true then putInt k c.flags else putInt k (if c.flags = 1 then 0 else 1))
      else id) r1).length := by
    split
    · split <;> exact mono_putInt _ _
    · exact Nat.le_refl _
  generalize ((if k.received.version.hasExtendedPlayerInfo = true then
      (if k.received.version.hasFullClientFlags = true then putInt k c.flags else putInt k (if c.flags = 1 then 0 else 1))
      else id) r1) = r2 at a2
  have a3 := mono_putInt c.score r2
  generalize putInt k c.score r2 = r3 at a3
  have a4 : r3.length ≤ ((if k.received.version.hasExtendedPlayerInfo = true then fun r => putStr c.clan (putInt k c.country r) else id) r3).length := by
    split
    · exact Nat.le_trans (mono_putInt _ _) (mono_putStr _ _)
    · exact Nat.le_refl _
  generalize ((if k.received.version.hasExtendedPlayerInfo = true then fun r => putStr c.clan (putInt k c.country r) else id) r3) = r4 at a4
  simp only [putStr, List.length_append, List.length_cons]
  omega

theorem encClients_length (k : InfoKind) : ∀ (cs : List ClientInfo), cs.length ≤ (encClients k cs []).length
  | [] => by simp [encClients]
  | c :: cs => by
    have := encClient_length k c (encClients k cs [])
    have := encClients_length k cs
    simp only [encClients, List.length_cons]; omega

/-! ### the head of a normal info -/

@[simp] theorem maxClients_v5 : Version.v5.maxClients = some MAX_CLIENTS_5 := by decide
@[simp] theorem maxClients_v6 : Version.v6.maxClients = some MAX_CLIENTS_5 := by decide
@[simp] theorem maxClients_v6Ddper : Version.v6Ddper.maxClients = some MAX_CLIENTS_5 := by decide
@[simp] theorem maxClients_v664 : Version.v664.maxClients = some MAX_CLIENTS_6_64 := by decide
@[simp] theorem maxClients_v6Ex : Version.v6Ex.maxClients = none := by decide
@[simp] theorem maxClients_v7 : Version.v7.maxClients = some MAX_CLIENTS_7 := by decide

theorem crcWire_inI32 {c : Nat} (h : c < 2 ^ 32) : inI32 (crcWire c) := by
  unfold crcWire inI32; split <;> constructor <;> omega

theorem asU32_crcWire {c : Nat} (h : c < 2 ^ 32) : asU32 (crcWire c) = c := by
  unfold crcWire asU32; split <;> omega

/-- what the head of an info must satisfy to be representable on the wire of kind `k` and to pass
the receiver's sanity checks -/
structure HeadOk (k : InfoKind) (i : ServerInfo) (offset : Nat) : Prop where
  ver : i.infoVersion = k.received.version
  token : inI32 i.token
  version : GoodStr CAP_VERSION i.version
  name : GoodStr CAP_NAME i.name
  map : GoodStr CAP_MAP i.map
  gameType : GoodStr CAP_GAME_TYPE i.gameType
  flags : inI32 i.flags
  hostname : if k.received.version.hasHostname = true then ∃ h, i.hostname = some h ∧ GoodStr CAP_HOSTNAME h
    else i.hostname = none
  mapInfo : if k.received.version.hasExtendedMapInfo = true then
      ∃ c sz, i.mapCrc = some c ∧ c < 2 ^ 32 ∧ i.mapSize = some sz ∧ sz < 2 ^ 31
    else i.mapCrc = none ∧ i.mapSize = none
  progression : if k.received.version.hasProgression = true then ∃ p, i.progression = some p ∧ inI32 p
    else i.progression = none
  skill : if k.received.version.hasSkillLevel = true then ∃ p, i.skillLevel = some p ∧ inI32 p
    else i.skillLevel = none
  counts : CountsSane i
  maxClients : inI32 i.maxClients
  plainCounts : k.received.version.hasExtendedPlayerInfo = false →
    i.numClients = i.numPlayers ∧ i.maxClients = i.maxPlayers
  offset : if k.received.version.hasOffset = true then offset < 2 ^ 31 else offset = 0

set_option linter.unusedSimpArgs false in
set_option maxHeartbeats 1000000 in
theorem parseHeadNormal_encHead (k : InfoKind) (hk : k ≠ .info6ExMore) (i : ServerInfo) (offset : Nat)
    (h : HeadOk k i offset) (rest : List UInt8) :
    parseHeadNormal k.reader k.received.version i.token (encHead k i offset rest)
      = some ({ i with clients := [] }, offset, rest) := by
  obtain ⟨hver, htok, hversion, hname, hmap, hgt, hflags, hhost, hmapinfo, hprog, hskill, hcounts, hmc, hplain, hoff⟩ := h
  obtain ⟨c1, c2, c3, c4, c5, c6⟩ := hcounts
  have inNp : inI32 i.numPlayers := by unfold inI32 at hmc ⊢; omega
  have inMp : inI32 i.maxPlayers := by unfold inI32 at hmc ⊢; omega
  have inNc : inI32 i.numClients := by unfold inI32 at hmc ⊢; omega
  have rI := fun (v : Int) (hv : inI32 v) (r : List UInt8) => reader_putInt k v hv r
  have rVersion := fun r => readStr_putStr hversion r
  have rName := fun r => readStr_putStr hname r
  have rMap := fun r => readStr_putStr hmap r
  have rGt := fun r => readStr_putStr hgt r
  have rFlags := rI _ hflags
  have rNp := rI _ inNp
  have rMp := rI _ inMp
  have rNc := rI _ inNc
  have rMc := rI _ hmc
  have tV := truncated_good hversion
  have tN := truncated_good hname
  have tM := truncated_good hmap
  have tG := truncated_good hgt
  obtain ⟨iv, itok, iversion, iname, ihost, imap, icrc, isize, igt, iflags, iprog, iskill, inp, imp, inc, imc, icl⟩ := i
  simp only at *
  unfold parseHeadNormal encHead
  have e5 : MAX_CLIENTS_5 = 16 := rfl
  have e664 : MAX_CLIENTS_6_64 = 64 := rfl
  have e7 : MAX_CLIENTS_7 = 64 := rfl
  cases k
  case info6ExMore => exact absurd rfl hk
  case info5 =>
    simp only [version_info5, version_info6, version_info6Ddper, version_info664, version_info6Ex, version_info6ExMore, version_info7, hasHostname_v5, hasHostname_v6, hasHostname_v6Ddper, hasHostname_v664, hasHostname_v6Ex, hasHostname_v7, hasProgression_v5, hasProgression_v6, hasProgression_v6Ddper, hasProgression_v664, hasProgression_v6Ex, hasProgression_v7, hasSkillLevel_v5, hasSkillLevel_v6, hasSkillLevel_v6Ddper, hasSkillLevel_v664, hasSkillLevel_v6Ex, hasSkillLevel_v7, hasOffset_v5, hasOffset_v6, hasOffset_v6Ddper, hasOffset_v664, hasOffset_v6Ex, hasOffset_v7, hasExtendedPlayerInfo_v5, hasExtendedPlayerInfo_v6, hasExtendedPlayerInfo_v6Ddper, hasExtendedPlayerInfo_v664, hasExtendedPlayerInfo_v6Ex, hasExtendedPlayerInfo_v7, hasExtendedMapInfo_v5, hasExtendedMapInfo_v6, hasExtendedMapInfo_v6Ddper, hasExtendedMapInfo_v664, hasExtendedMapInfo_v6Ex, hasExtendedMapInfo_v7, hasExtraInfo_v5, hasExtraInfo_v6, hasExtraInfo_v6Ddper, hasExtraInfo_v664, hasExtraInfo_v6Ex, hasExtraInfo_v7, hasFullClientFlags_v5, hasFullClientFlags_v6, hasFullClientFlags_v6Ddper, hasFullClientFlags_v664, hasFullClientFlags_v6Ex, hasFullClientFlags_v7, if_true, if_false, Bool.false_eq_true, forall_const, false_implies, implies_true, reduceCtorEq] at *
    obtain ⟨p, rfl, hp⟩ := hprog
    obtain ⟨rfl, rfl⟩ := hmapinfo
    obtain ⟨rfl, rfl⟩ := hplain
    subst hhost hskill hoff hver
    have rP := rI p hp
    have hmax := c6 _ rfl
    simp [readHead, checkHead, rVersion, rName, rMap, rGt, rFlags, rNp, rMp, rNc, rMc, tV, tN, tM, tG, id, Version.exceedsMax, rP]
    try (rw [if_neg]; all_goals first | rfl | omega)
  case info6 =>
    simp only [version_info5, version_info6, version_info6Ddper, version_info664, version_info6Ex, version_info6ExMore, version_info7, hasHostname_v5, hasHostname_v6, hasHostname_v6Ddper, hasHostname_v664, hasHostname_v6Ex, hasHostname_v7, hasProgression_v5, hasProgression_v6, hasProgression_v6Ddper, hasProgression_v664, hasProgression_v6Ex, hasProgression_v7, hasSkillLevel_v5, hasSkillLevel_v6, hasSkillLevel_v6Ddper, hasSkillLevel_v664, hasSkillLevel_v6Ex, hasSkillLevel_v7, hasOffset_v5, hasOffset_v6, hasOffset_v6Ddper, hasOffset_v664, hasOffset_v6Ex, hasOffset_v7, hasExtendedPlayerInfo_v5, hasExtendedPlayerInfo_v6, hasExtendedPlayerInfo_v6Ddper, hasExtendedPlayerInfo_v664, hasExtendedPlayerInfo_v6Ex, hasExtendedPlayerInfo_v7, hasExtendedMapInfo_v5, hasExtendedMapInfo_v6, hasExtendedMapInfo_v6Ddper, hasExtendedMapInfo_v664, hasExtendedMapInfo_v6Ex, hasExtendedMapInfo_v7, hasExtraInfo_v5, hasExtraInfo_v6, hasExtraInfo_v6Ddper, hasExtraInfo_v664, hasExtraInfo_v6Ex, hasExtraInfo_v7, hasFullClientFlags_v5, hasFullClientFlags_v6, hasFullClientFlags_v6Ddper, hasFullClientFlags_v664, hasFullClientFlags_v6Ex, hasFullClientFlags_v7, if_true, if_false, Bool.false_eq_true, forall_const, false_implies, implies_true, reduceCtorEq] at *
    obtain ⟨rfl, rfl⟩ := hmapinfo
    subst hhost hskill hoff hver hprog
    have hmax := c6 _ rfl
    simp [readHead, checkHead, rVersion, rName, rMap, rGt, rFlags, rNp, rMp, rNc, rMc, tV, tN, tM, tG, id, Version.exceedsMax]
    try (rw [if_neg]; all_goals first | rfl | omega)
  case info6Ddper =>
    simp only [version_info5, version_info6, version_info6Ddper, version_info664, version_info6Ex, version_info6ExMore, version_info7, hasHostname_v5, hasHostname_v6, hasHostname_v6Ddper, hasHostname_v664, hasHostname_v6Ex, hasHostname_v7, hasProgression_v5, hasProgression_v6, hasProgression_v6Ddper, hasProgression_v664, hasProgression_v6Ex, hasProgression_v7, hasSkillLevel_v5, hasSkillLevel_v6, hasSkillLevel_v6Ddper, hasSkillLevel_v664, hasSkillLevel_v6Ex, hasSkillLevel_v7, hasOffset_v5, hasOffset_v6, hasOffset_v6Ddper, hasOffset_v664, hasOffset_v6Ex, hasOffset_v7, hasExtendedPlayerInfo_v5, hasExtendedPlayerInfo_v6, hasExtendedPlayerInfo_v6Ddper, hasExtendedPlayerInfo_v664, hasExtendedPlayerInfo_v6Ex, hasExtendedPlayerInfo_v7, hasExtendedMapInfo_v5, hasExtendedMapInfo_v6, hasExtendedMapInfo_v6Ddper, hasExtendedMapInfo_v664, hasExtendedMapInfo_v6Ex, hasExtendedMapInfo_v7, hasExtraInfo_v5, hasExtraInfo_v6, hasExtraInfo_v6Ddper, hasExtraInfo_v664, hasExtraInfo_v6Ex, hasExtraInfo_v7, hasFullClientFlags_v5, hasFullClientFlags_v6, hasFullClientFlags_v6Ddper, hasFullClientFlags_v664, hasFullClientFlags_v6Ex, hasFullClientFlags_v7, if_true, if_false, Bool.false_eq_true, forall_const, false_implies, implies_true, reduceCtorEq] at *
    obtain ⟨rfl, rfl⟩ := hmapinfo
    subst hhost hskill hoff hver hprog
    have hmax := c6 _ rfl
    simp [readHead, checkHead, rVersion, rName, rMap, rGt, rFlags, rNp, rMp, rNc, rMc, tV, tN, tM, tG, id, Version.exceedsMax]
    try (rw [if_neg]; all_goals first | rfl | omega)
  case info664 =>
    simp only [version_info5, version_info6, version_info6Ddper, version_info664, version_info6Ex, version_info6ExMore, version_info7, hasHostname_v5, hasHostname_v6, hasHostname_v6Ddper, hasHostname_v664, hasHostname_v6Ex, hasHostname_v7, hasProgression_v5, hasProgression_v6, hasProgression_v6Ddper, hasProgression_v664, hasProgression_v6Ex, hasProgression_v7, hasSkillLevel_v5, hasSkillLevel_v6, hasSkillLevel_v6Ddper, hasSkillLevel_v664, hasSkillLevel_v6Ex, hasSkillLevel_v7, hasOffset_v5, hasOffset_v6, hasOffset_v6Ddper, hasOffset_v664, hasOffset_v6Ex, hasOffset_v7, hasExtendedPlayerInfo_v5, hasExtendedPlayerInfo_v6, hasExtendedPlayerInfo_v6Ddper, hasExtendedPlayerInfo_v664, hasExtendedPlayerInfo_v6Ex, hasExtendedPlayerInfo_v7, hasExtendedMapInfo_v5, hasExtendedMapInfo_v6, hasExtendedMapInfo_v6Ddper, hasExtendedMapInfo_v664, hasExtendedMapInfo_v6Ex, hasExtendedMapInfo_v7, hasExtraInfo_v5, hasExtraInfo_v6, hasExtraInfo_v6Ddper, hasExtraInfo_v664, hasExtraInfo_v6Ex, hasExtraInfo_v7, hasFullClientFlags_v5, hasFullClientFlags_v6, hasFullClientFlags_v6Ddper, hasFullClientFlags_v664, hasFullClientFlags_v6Ex, hasFullClientFlags_v7, if_true, if_false, Bool.false_eq_true, forall_const, false_implies, implies_true, reduceCtorEq] at *
    obtain ⟨rfl, rfl⟩ := hmapinfo
    subst hhost hskill hver hprog
    have rOff := rI (offset : Int) (by unfold inI32; omega)
    have hmax := c6 _ rfl
    simp [readHead, checkHead, rVersion, rName, rMap, rGt, rFlags, rNp, rMp, rNc, rMc, tV, tN, tM, tG, id, Version.exceedsMax, rOff]
    try (rw [if_neg]; all_goals first | rfl | omega)
  case info6Ex =>
    simp only [version_info5, version_info6, version_info6Ddper, version_info664, version_info6Ex, version_info6ExMore, version_info7, hasHostname_v5, hasHostname_v6, hasHostname_v6Ddper, hasHostname_v664, hasHostname_v6Ex, hasHostname_v7, hasProgression_v5, hasProgression_v6, hasProgression_v6Ddper, hasProgression_v664, hasProgression_v6Ex, hasProgression_v7, hasSkillLevel_v5, hasSkillLevel_v6, hasSkillLevel_v6Ddper, hasSkillLevel_v664, hasSkillLevel_v6Ex, hasSkillLevel_v7, hasOffset_v5, hasOffset_v6, hasOffset_v6Ddper, hasOffset_v664, hasOffset_v6Ex, hasOffset_v7, hasExtendedPlayerInfo_v5, hasExtendedPlayerInfo_v6, hasExtendedPlayerInfo_v6Ddper, hasExtendedPlayerInfo_v664, hasExtendedPlayerInfo_v6Ex, hasExtendedPlayerInfo_v7, hasExtendedMapInfo_v5, hasExtendedMapInfo_v6, hasExtendedMapInfo_v6Ddper, hasExtendedMapInfo_v664, hasExtendedMapInfo_v6Ex, hasExtendedMapInfo_v7, hasExtraInfo_v5, hasExtraInfo_v6, hasExtraInfo_v6Ddper, hasExtraInfo_v664, hasExtraInfo_v6Ex, hasExtraInfo_v7, hasFullClientFlags_v5, hasFullClientFlags_v6, hasFullClientFlags_v6Ddper, hasFullClientFlags_v664, hasFullClientFlags_v6Ex, hasFullClientFlags_v7, if_true, if_false, Bool.false_eq_true, forall_const, false_implies, implies_true, reduceCtorEq] at *
    obtain ⟨c, sz, rfl, hc, rfl, hsz⟩ := hmapinfo
    subst hhost hskill hoff hver hprog
    have rCrc := rI (crcWire c) (crcWire_inI32 hc)
    have rSz := rI (sz : Int) (by unfold inI32; omega)
    have hcrc := asU32_crcWire hc
    have hszn : ¬ ((sz : Int) < 0) := by omega
    simp [readHead, checkHead, rVersion, rName, rMap, rGt, rFlags, rNp, rMp, rNc, rMc, tV, tN, tM, tG, id, Version.exceedsMax, rCrc, rSz, hcrc, hszn]
    try (rw [if_neg]; all_goals first | rfl | omega)
  case info7 =>
    simp only [version_info5, version_info6, version_info6Ddper, version_info664, version_info6Ex, version_info6ExMore, version_info7, hasHostname_v5, hasHostname_v6, hasHostname_v6Ddper, hasHostname_v664, hasHostname_v6Ex, hasHostname_v7, hasProgression_v5, hasProgression_v6, hasProgression_v6Ddper, hasProgression_v664, hasProgression_v6Ex, hasProgression_v7, hasSkillLevel_v5, hasSkillLevel_v6, hasSkillLevel_v6Ddper, hasSkillLevel_v664, hasSkillLevel_v6Ex, hasSkillLevel_v7, hasOffset_v5, hasOffset_v6, hasOffset_v6Ddper, hasOffset_v664, hasOffset_v6Ex, hasOffset_v7, hasExtendedPlayerInfo_v5, hasExtendedPlayerInfo_v6, hasExtendedPlayerInfo_v6Ddper, hasExtendedPlayerInfo_v664, hasExtendedPlayerInfo_v6Ex, hasExtendedPlayerInfo_v7, hasExtendedMapInfo_v5, hasExtendedMapInfo_v6, hasExtendedMapInfo_v6Ddper, hasExtendedMapInfo_v664, hasExtendedMapInfo_v6Ex, hasExtendedMapInfo_v7, hasExtraInfo_v5, hasExtraInfo_v6, hasExtraInfo_v6Ddper, hasExtraInfo_v664, hasExtraInfo_v6Ex, hasExtraInfo_v7, hasFullClientFlags_v5, hasFullClientFlags_v6, hasFullClientFlags_v6Ddper, hasFullClientFlags_v664, hasFullClientFlags_v6Ex, hasFullClientFlags_v7, if_true, if_false, Bool.false_eq_true, forall_const, false_implies, implies_true, reduceCtorEq] at *
    obtain ⟨rfl, rfl⟩ := hmapinfo
    obtain ⟨hn, rfl, hhn⟩ := hhost
    obtain ⟨p, rfl, hp⟩ := hskill
    subst hoff hver hprog
    have rHost := fun r => readStr_putStr hhn r
    have tH := truncated_good hhn
    have rP := rI p hp
    have hmax := c6 _ rfl
    simp [readHead, checkHead, rVersion, rName, rMap, rGt, rFlags, rNp, rMp, rNc, rMc, tV, tN, tM, tG, id, Version.exceedsMax, rHost, tH, rP]
    try (rw [if_neg]; all_goals first | rfl | omega)

/-! ### whole datagram payloads -/

theorem serverInfo_eta (i : ServerInfo) : { i with clients := i.clients } = i := by cases i; rfl

theorem parseBody_enc (hs : SLOT_SKIP_FROM = RECEIVED_BITS) (k : InfoKind) (info : ServerInfo) (packetNo offset : Nat)
    (cs : List ClientInfo) (hc : ∀ c ∈ cs, ClientOk k c) (hp : packetNo < RECEIVED_BITS)
    (hslots : k.received.version = .v664 → offset + cs.length ≤ RECEIVED_BITS) :
    parseBody k.reader k.received.version info packetNo offset
        ((if k.received.version.hasExtraInfo then putStr [] else id) (encClients k cs []))
      = .ok (some { info := { info with clients := cs },
                    received := if k.received.version = .v664 then rangeMask offset cs.length
                                else if k.received.version = .v6Ex then 1 <<< packetNo else 0 }) := by
  unfold parseBody
  have hextra : skipExtra k.received.version
      ((if k.received.version.hasExtraInfo then putStr [] else id) (encClients k cs [])) = some (encClients k cs []) := by
    unfold skipExtra
    by_cases he : k.received.version.hasExtraInfo = true
    · simp only [he, if_true, readStr_putStr (goodStr_nil 0)]
    · simp only [he, if_false, id, Bool.false_eq_true]
  simp only [hextra]
  have hfuel := encClients_length k cs
  by_cases hv : k.received.version = .v6Ex
  · have h664 : ¬ k.received.version = .v664 := by rw [hv]; decide
    simp only [hv, if_true, shl1_ok hp]
    have := parseClients_encClients hs k cs hc ((encClients k cs []).length + 1) offset [] (1 <<< packetNo) (by omega)
      (fun h => absurd h h664)
    simp only [hv, List.nil_append] at this
    rw [this]
    simp
  · simp only [hv, if_false]
    have := parseClients_encClients hs k cs hc ((encClients k cs []).length + 1) offset [] 0 (by omega) hslots
    simp only [List.nil_append] at this
    rw [this]
    by_cases h664 : k.received.version = .v664
    · simp [h664]
    · simp [h664]

theorem received_normal {k : InfoKind} (hk : k ≠ .info6ExMore) : k.received = .normal k.received.version := by
  cases k <;> first | rfl | exact absurd rfl hk

/-- **Round trip, normal packets.** Parsing the encoding of an info that is representable in kind `k`
(`HeadOk`, `ClientOk`) returns exactly that info, with the mask of its clients' slots. -/
theorem parsePartial_encInfo (hs : SLOT_SKIP_FROM = RECEIVED_BITS) (k : InfoKind) (hk : k ≠ .info6ExMore) (i : ServerInfo)
    (offset : Nat) (h : HeadOk k i offset) (hc : ∀ c ∈ i.clients, ClientOk k c)
    (hslots : k = .info664 → offset + i.clients.length ≤ RECEIVED_BITS) :
    parsePartial k (encInfo k i offset) = .ok (some { info := i, received := maskFor k offset i.clients.length }) := by
  unfold parsePartial parseServerInfo encInfo
  rw [reader_putInt k i.token h.token]
  simp only
  have hb := parseBody_enc hs k { i with clients := [] } 0 offset i.clients hc (by decide)
    (fun hv => hslots (by cases k <;> first | rfl | (simp at hv)))
  have hh := parseHeadNormal_encHead k hk i offset h
    ((if k.received.version.hasExtraInfo then putStr [] else id) (encClients k i.clients []))
  generalize hrv : k.received = rv at *
  cases rv with
  | v6ExMore => cases k <;> first | exact absurd rfl hk | cases hrv
  | normal ver =>
    have hver : k.received.version = ver := by rw [hrv]; rfl
    simp only [Received.version] at hh hb ⊢
    rw [hh]
    simp only
    rw [hb]
    have hi : ({ i with clients := [] } : ServerInfo) = { i with clients := [] } := rfl
    congr 2
    refine PartialInfo.mk.injEq _ _ _ _ ▸ ⟨?_, ?_⟩
    · cases i; rfl
    · cases k <;> first | rfl | exact absurd rfl hk | (cases hrv; simp [maskFor]) 

/-- **Round trip, `iex+` packets.** -/
theorem parsePartial_encMore (hs : SLOT_SKIP_FROM = RECEIVED_BITS) (hg : PACKET_NO_REJECT_FROM ≤ RECEIVED_BITS)
    (token : Int) (htok : inI32 token) (no : Nat) (hlo : PACKET_NO_MIN ≤ no) (hhi : no < PACKET_NO_REJECT_FROM)
    (cs : List ClientInfo) (hc : ∀ c ∈ cs, ClientOk .info6ExMore c) :
    parsePartial .info6ExMore (encMore token no cs)
      = .ok (some { info := (moreHdr token).withClients cs, received := 1 <<< no }) := by
  have h64 : RECEIVED_BITS = 64 := rfl
  have hno : inI32 (no : Int) := by unfold inI32; omega
  unfold parsePartial parseServerInfo encMore
  rw [reader_putInt .info6ExMore token htok]
  simp only [InfoKind.received]
  unfold parseHeadMore
  rw [reader_putInt .info6ExMore (no : Int) hno]
  have hcond : ¬ ((no : Int) < (PACKET_NO_MIN : Int) ∨ (no : Int) ≥ (PACKET_NO_REJECT_FROM : Int)) := by omega
  simp only [Option.bind_eq_bind, Option.bind_some, hcond, if_false, Option.pure_def, Int.toNat_natCast]
  have hb := parseBody_enc hs .info6ExMore { infoVersion := .v6Ex, token := token } no 0 cs hc (by omega)
    (fun hv => by simp at hv)
  simp only [version_info6ExMore, hasExtraInfo_v6Ex, if_true] at hb
  rw [hb]
  simp [moreHdr, ServerInfo.withClients]

/-- **Round trip, single-packet kinds** (`Info5/6/6Ddper/7Response::parse`): the info comes back with
its clients sorted. -/
theorem parseFull_encInfo (hs : SLOT_SKIP_FROM = RECEIVED_BITS) (k : InfoKind) (hk : k ≠ .info6ExMore) (i : ServerInfo)
    (offset : Nat) (h : HeadOk k i offset) (hc : ∀ c ∈ i.clients, ClientOk k c)
    (hslots : k = .info664 → offset + i.clients.length ≤ RECEIVED_BITS) :
    parseFull k (encInfo k i offset) = .ok (some { i with clients := sortClients i.clients }) := by
  unfold parseFull
  rw [parsePartial_encInfo hs k hk i offset h hc hslots]

/-! ### the parts of a family on the wire -/

theorem HeadOk.withClients {k : InfoKind} {i : ServerInfo} {o : Nat} (h : HeadOk k i o) (cs : List ClientInfo) :
    HeadOk k (i.withClients cs) o :=
  ⟨h.ver, h.token, h.version, h.name, h.map, h.gameType, h.flags, h.hostname, h.mapInfo, h.progression, h.skill,
    h.counts, h.maxClients, h.plainCounts, h.offset⟩

namespace Family

/-- the response kind part `i` travels in -/
def kind (f : Family) (i : Nat) : InfoKind :=
  if f.ex then (if i = 0 then .info6Ex else .info6ExMore) else .info664

/-- the datagram payload of part `i` -/
def encodePart (f : Family) (i : Nat) : List UInt8 :=
  if f.ex then
    (if i = 0 then encInfo .info6Ex (f.hdr.withClients (f.chunk i)) 0 else encMore f.hdr.token (f.no i) (f.chunk i))
  else encInfo .info664 (f.hdr.withClients (f.chunk i)) (f.offset i)

/-- every field of the family fits its wire representation -/
structure Encodable (f : Family) : Prop where
  head : ∀ i < f.size, HeadOk (if f.ex then .info6Ex else .info664) f.hdr (if f.ex then 0 else f.offset i)
  clients : ∀ i < f.size, ∀ c ∈ f.chunk i, ClientOk (f.kind i) c

theorem offset_size (f : Family) : f.offset f.size = f.allClients.length := by
  simp [offset, allClients, List.length_flatMap]

/-- **Round trip for the parts of a family**: the accumulator values `Family.part i` the merge
theorems talk about are exactly what the parser returns for the datagrams a server sends. -/
theorem parse_encodePart (hs : SLOT_SKIP_FROM = RECEIVED_BITS) (hg : PACKET_NO_REJECT_FROM = RECEIVED_BITS)
    (hmin : PACKET_NO_MIN = 1) (f : Family) (hwf : f.WellFormed) (henc : f.Encodable) (i : Nat) (hi : i < f.size) :
    parsePartial (f.kind i) (f.encodePart i) = .ok (some (f.part i)) := by
  obtain ⟨hhead, hclients⟩ := henc
  have hh := hhead i hi
  have hcl := hclients i hi
  unfold kind encodePart part at *
  cases hex : f.ex with
  | false =>
    simp only [hex, Bool.false_eq_true, if_false] at hh hcl ⊢
    have hslot : f.offset i + (f.chunk i).length ≤ RECEIVED_BITS := by
      have h1 := hwf.2.2.2.2.2 hex
      have h2 : f.offset i + (f.chunk i).length ≤ f.offset f.size := f.offset_mono hi
      rw [f.offset_size] at h2
      omega
    rw [parsePartial_encInfo hs .info664 (by decide) (f.hdr.withClients (f.chunk i)) (f.offset i) (hh.withClients _) hcl (fun _ => hslot)]
    rfl
  | true =>
    simp only [hex, if_true] at hh hcl ⊢
    obtain ⟨hno, _⟩ := hwf.2.2.2.2.1 hex
    by_cases h0 : i = 0
    · subst h0
      simp only [if_true] at hcl ⊢
      rw [parsePartial_encInfo hs .info6Ex (by decide) (f.hdr.withClients (f.chunk 0)) 0 (hh.withClients _) hcl (fun h => by cases h)]
      have : f.no 0 = 0 := (hno 0 hi).1.2 rfl
      simp [exPart, this, maskFor]
    · simp only [h0, if_false] at hcl ⊢
      have hne : f.no i ≠ 0 := fun e => h0 ((hno i hi).1.1 e)
      have hlt := (hno i hi).2
      rw [parsePartial_encMore hs (by omega) f.hdr.token hh.token (f.no i) (by omega) (by omega) (f.chunk i) hcl]
      simp [exPart, hne]

end Family

/-! ### soundness of the executable checkers -/

theorem goodStrB_sound {cap : Nat} {s : List UInt8} (h : goodStrB cap s = true) : GoodStr cap s := by
  unfold goodStrB at h
  simp only [Bool.and_eq_true, List.all_eq_true, bne_iff_ne, ne_eq, decide_eq_true_eq] at h
  exact ⟨h.1.1, h.1.2, h.2⟩

theorem inI32B_sound {v : Int} (h : inI32B v = true) : inI32 v := by
  unfold inI32B at h
  simp only [Bool.and_eq_true, decide_eq_true_eq] at h
  exact h

theorem clientOkB_sound {k : InfoKind} {c : ClientInfo} (h : clientOkB k c = true) : ClientOk k c := by
  unfold clientOkB at h
  simp only [Bool.and_eq_true] at h
  obtain ⟨⟨h1, h2⟩, h3⟩ := h
  refine ⟨goodStrB_sound h1, inI32B_sound h2, ?_, ?_⟩
  · intro he
    simp only [he, if_true, Bool.and_eq_true] at h3
    refine ⟨goodStrB_sound h3.1.1, inI32B_sound h3.1.2, ?_⟩
    by_cases hf : k.received.version.hasFullClientFlags = true
    · simp only [hf, if_true] at h3 ⊢
      exact inI32B_sound h3.2
    · simp only [hf, if_false, Bool.false_eq_true, Bool.or_eq_true, beq_iff_eq] at h3 ⊢
      exact h3.2
  · intro he
    simp only [he, Bool.false_eq_true, if_false, Bool.and_eq_true, beq_iff_eq] at h3
    exact ⟨h3.1.1, h3.1.2, h3.2⟩

theorem countsSaneB_sound {i : ServerInfo} (h : countsSaneB i = true) : CountsSane i := by
  unfold countsSaneB at h
  simp only [Bool.and_eq_true, decide_eq_true_eq] at h
  obtain ⟨⟨⟨⟨⟨h1, h2⟩, h3⟩, h4⟩, h5⟩, h6⟩ := h
  refine ⟨h1, h2, h3, h4, h5, ?_⟩
  intro m hm
  rw [hm] at h6
  simpa using h6

theorem headOkB_sound {k : InfoKind} {i : ServerInfo} {offset : Nat} (h : headOkB k i offset = true) :
    HeadOk k i offset := by
  unfold headOkB at h
  simp only [Bool.and_eq_true] at h
  obtain ⟨⟨⟨⟨⟨⟨⟨⟨⟨⟨⟨⟨⟨⟨hv, ht⟩, h1⟩, h2⟩, h3⟩, h4⟩, h5⟩, hh⟩, hm⟩, hp⟩, hs⟩, hc⟩, hmc⟩, hpl⟩, ho⟩ := h
  refine ⟨by simpa using hv, inI32B_sound ht, goodStrB_sound h1, goodStrB_sound h2, goodStrB_sound h3,
    goodStrB_sound h4, inI32B_sound h5, ?_, ?_, ?_, ?_, countsSaneB_sound hc, inI32B_sound hmc, ?_, ?_⟩
  · split
    · rename_i hb
      simp only [hb, if_true] at hh
      cases hho : i.hostname with
      | none => simp [hho] at hh
      | some x => simp only [hho] at hh; exact ⟨x, rfl, goodStrB_sound hh⟩
    · rename_i hb
      simp only [hb, if_false, Bool.false_eq_true, Option.isNone_iff_eq_none] at hh
      exact hh
  · split
    · rename_i hb
      simp only [hb, if_true] at hm
      cases hc1 : i.mapCrc with
      | none => simp [hc1] at hm
      | some c =>
        cases hc2 : i.mapSize with
        | none => simp [hc1, hc2] at hm
        | some sz =>
          simp only [hc1, hc2, Bool.and_eq_true, decide_eq_true_eq] at hm
          exact ⟨c, sz, rfl, hm.1, rfl, hm.2⟩
    · rename_i hb
      simp only [hb, if_false, Bool.false_eq_true, Bool.and_eq_true, Option.isNone_iff_eq_none] at hm
      exact hm
  · split
    · rename_i hb
      simp only [hb, if_true] at hp
      cases hpp : i.progression with
      | none => simp [hpp] at hp
      | some x => simp only [hpp] at hp; exact ⟨x, rfl, inI32B_sound hp⟩
    · rename_i hb
      simp only [hb, if_false, Bool.false_eq_true, Option.isNone_iff_eq_none] at hp
      exact hp
  · split
    · rename_i hb
      simp only [hb, if_true] at hs
      cases hpp : i.skillLevel with
      | none => simp [hpp] at hs
      | some x => simp only [hpp] at hs; exact ⟨x, rfl, inI32B_sound hs⟩
    · rename_i hb
      simp only [hb, if_false, Bool.false_eq_true, Option.isNone_iff_eq_none] at hs
      exact hs
  · intro he
    simp only [he, Bool.false_eq_true, if_false, Bool.and_eq_true, decide_eq_true_eq] at hpl
    exact hpl
  · split
    · rename_i hb
      simp only [hb, if_true, decide_eq_true_eq] at ho
      exact ho
    · rename_i hb
      simp only [hb, if_false, Bool.false_eq_true, decide_eq_true_eq] at ho
      exact ho

/-- the executable test implies the hypotheses of the round-trip theorem -/
theorem representableB_sound {k : InfoKind} {i : ServerInfo} {offset : Nat} (h : representableB k i offset = true) :
    k ≠ .info6ExMore ∧ HeadOk k i offset ∧ (∀ c ∈ i.clients, ClientOk k c) ∧
      (k = .info664 → offset + i.clients.length ≤ RECEIVED_BITS) := by
  unfold representableB at h
  simp only [Bool.and_eq_true, bne_iff_ne, ne_eq, List.all_eq_true] at h
  obtain ⟨⟨⟨hk, hh⟩, hc⟩, hs⟩ := h
  refine ⟨hk, headOkB_sound hh, fun c hc' => clientOkB_sound (hc c hc'), ?_⟩
  intro hk'
  simp only [hk', beq_self_eq_true, if_true, decide_eq_true_eq] at hs
  exact hs

theorem representableMoreB_sound {token : Int} {no : Nat} {cs : List ClientInfo}
    (h : representableMoreB token no cs = true) :
    inI32 token ∧ 1 ≤ no ∧ no < 64 ∧ ∀ c ∈ cs, ClientOk .info6ExMore c := by
  unfold representableMoreB at h
  simp only [Bool.and_eq_true, decide_eq_true_eq, List.all_eq_true] at h
  exact ⟨inI32B_sound h.1.1.1, h.1.1.2, h.1.2, fun c hc => clientOkB_sound (h.2 c hc)⟩

/-! ### every well-formed family that passes the executable test is encodable -/

theorem HeadOk.with_offset_664 {i : ServerInfo} {o : Nat} (h : HeadOk .info664 i o) (o' : Nat) (ho : o' < 2 ^ 31) :
    HeadOk .info664 i o' :=
  ⟨h.ver, h.token, h.version, h.name, h.map, h.gameType, h.flags, h.hostname, h.mapInfo, h.progression, h.skill,
    h.counts, h.maxClients, h.plainCounts, by rw [if_pos (by decide)]; exact ho⟩

theorem ClientOk.more_of_ex {c : ClientInfo} (h : ClientOk .info6Ex c) : ClientOk .info6ExMore c :=
  ⟨h.name, h.score, h.ext, h.plain⟩

namespace Family

/-- executable: header and every client of the family fit the wire -/
def representableB (f : Family) : Bool :=
  headOkB (if f.ex then .info6Ex else .info664) f.hdr 0 &&
    f.chunks.all (fun cs => cs.all (clientOkB (if f.ex then .info6Ex else .info664)))

theorem chunk_mem (f : Family) {i : Nat} (hi : i < f.size) : f.chunk i ∈ f.chunks := by
  unfold chunk size at *
  simp [List.getD_eq_getElem?_getD, List.getElem?_eq_getElem hi]

/-- **General encodability.** A well-formed family whose header and clients pass the executable test
is `Encodable`, so `roundtrip_family_parts` applies to it. -/
theorem encodable_of_representableB (f : Family) (hwf : f.WellFormed) (h : f.representableB = true) : f.Encodable := by
  unfold representableB at h
  simp only [Bool.and_eq_true, List.all_eq_true] at h
  obtain ⟨hh, hc⟩ := h
  have hhead := headOkB_sound hh
  constructor
  · intro i hi
    cases hex : f.ex with
    | true => simp only [hex, if_true] at hhead ⊢; exact hhead
    | false =>
      simp only [hex, Bool.false_eq_true, if_false] at hhead ⊢
      apply hhead.with_offset_664
      have h1 := hwf.2.2.2.2.2 hex
      have h2 : f.offset i + (f.chunk i).length ≤ f.offset f.size := f.offset_mono hi
      rw [f.offset_size] at h2
      have : RECEIVED_BITS = 64 := rfl
      omega
  · intro i hi c hcm
    have hok := clientOkB_sound (hc _ (f.chunk_mem hi) c hcm)
    unfold kind
    cases hex : f.ex with
    | false => simp only [hex, Bool.false_eq_true, if_false] at hok ⊢; exact hok
    | true =>
      simp only [hex, if_true] at hok ⊢
      split
      · exact hok
      · exact hok.more_of_ex

end Family

/-! ### the concrete families are encodable, and their encodings are the corpus byte strings -/

theorem goodStr_of_decide {cap : Nat} {s : List UInt8} (h1 : (∀ b ∈ s, b ≠ 0)) (h2 : utf8Valid s = true)
    (h3 : s.length ≤ cap) : GoodStr cap s := ⟨h1, h2, h3⟩

theorem witnessHdr_headOk_ex : HeadOk .info6Ex (witnessHdr .v6Ex) 0 where
  ver := rfl
  token := by decide
  version := goodStr_of_decide (by decide) (by decide) (by decide)
  name := goodStr_of_decide (by decide) (by decide) (by decide)
  map := goodStr_of_decide (by decide) (by decide) (by decide)
  gameType := goodStr_of_decide (by decide) (by decide) (by decide)
  flags := by decide
  hostname := by rw [if_neg (by decide)]; rfl
  mapInfo := by rw [if_pos (by decide)]; exact ⟨0, 0, rfl, by decide, rfl, by decide⟩
  progression := by rw [if_neg (by decide)]; rfl
  skill := by rw [if_neg (by decide)]; rfl
  counts := ⟨by decide, by decide, by decide, by decide, by decide, fun m hm => by
    have : (witnessHdr .v6Ex).infoVersion.maxClients = none := by decide
    rw [this] at hm; cases hm⟩
  maxClients := by decide
  plainCounts := fun h => absurd h (by decide)
  offset := by rw [if_neg (by decide)]

theorem witnessHdr_headOk_legacy (o : Nat) (ho : o < 2 ^ 31) : HeadOk .info664 (witnessHdr .v664) o where
  ver := rfl
  token := by decide
  version := goodStr_of_decide (by decide) (by decide) (by decide)
  name := goodStr_of_decide (by decide) (by decide) (by decide)
  map := goodStr_of_decide (by decide) (by decide) (by decide)
  gameType := goodStr_of_decide (by decide) (by decide) (by decide)
  flags := by decide
  hostname := by rw [if_neg (by decide)]; rfl
  mapInfo := by rw [if_neg (by decide)]; exact ⟨rfl, rfl⟩
  progression := by rw [if_neg (by decide)]; rfl
  skill := by rw [if_neg (by decide)]; rfl
  counts := ⟨by decide, by decide, by decide, by decide, by decide, fun m hm => by
    have : (witnessHdr .v664).infoVersion.maxClients = some 64 := by decide
    rw [this] at hm
    cases hm
    decide⟩
  maxClients := by decide
  plainCounts := fun h => absurd h (by decide)
  offset := by rw [if_pos (by decide)]; exact ho

theorem clientOk_simple (k : InfoKind) (hk : k.received.version.hasExtendedPlayerInfo = true)
    (hf : k.received.version.hasFullClientFlags = false) (c : ClientInfo)
    (h1 : GoodStr CAP_CLIENT_NAME c.name) (h2 : GoodStr CAP_CLIENT_CLAN c.clan) (h3 : inI32 c.country)
    (h4 : inI32 c.score) (h5 : c.flags = 0 ∨ c.flags = 1) : ClientOk k c where
  name := h1
  score := h4
  ext := fun _ => ⟨h2, h3, by rw [if_neg (by rw [hf]; decide)]; exact h5⟩
  plain := fun h => by rw [hk] at h; cases h

theorem witnessClients_ok (k : InfoKind) (hk : k.received.version.hasExtendedPlayerInfo = true)
    (hf : k.received.version.hasFullClientFlags = false) (c : ClientInfo) (hc : c = clientA ∨ c = clientB) :
    ClientOk k c := by
  rcases hc with rfl | rfl <;>
    exact clientOk_simple k hk hf _ (goodStr_of_decide (by decide) (by decide) (by decide))
      (goodStr_of_decide (by decide) (by decide) (by decide)) (by decide) (by decide) (by decide)

/-- the info of the repository's test `parse_info_v7` -/
def witnessV7 : ServerInfo :=
  { infoVersion := .v7, token := 1, version := [116, 119, 111], name := [116, 104, 114, 101, 101], hostname := some [102, 111, 117, 114], map := [102, 105, 118, 101],
    gameType := [115, 105, 120], flags := 7, skillLevel := some 8, numPlayers := 1, maxPlayers := 2, numClients := 2, maxClients := 3,
    clients := [{ name := [116, 104, 105, 114, 116, 101, 101, 110], clan := [102, 111, 117, 114, 116, 101, 101, 110], country := 15, score := 16, flags := 17 },
                { name := [101, 105, 103, 104, 116, 101, 101, 110], clan := [110, 105, 110, 101, 116, 101, 101, 110], country := 20, score := 21, flags := 22 }] }

/-- the payload bytes of that test -/
def witnessV7Bytes : List UInt8 := [1, 116, 119, 111, 0, 116, 104, 114, 101, 101, 0, 102, 111, 117, 114, 0, 102, 105, 118, 101, 0, 115, 105, 120, 0, 7, 8, 1, 2, 2, 3, 116, 104, 105, 114, 116, 101, 101, 110, 0, 102, 111, 117, 114, 116, 101, 101, 110, 0, 15, 16, 17, 101, 105, 103, 104, 116, 101, 101, 110, 0, 110, 105, 110, 101, 116, 101, 101, 110, 0, 20, 21, 22]

theorem witnessEx_encodable : witnessEx.Encodable where
  head := fun i _ => witnessHdr_headOk_ex
  clients := by
    intro i hi c hc
    have hi2 : i < 2 := hi
    have : i = 0 ∨ i = 1 := by omega
    rcases this with rfl | rfl
    · exact witnessClients_ok _ (by decide) (by decide) c (Or.inl (by simpa [Family.chunk, witnessEx] using hc))
    · exact witnessClients_ok _ (by decide) (by decide) c (Or.inr (by simpa [Family.chunk, witnessEx] using hc))

theorem witnessLegacy_encodable : witnessLegacy.Encodable where
  head := by
    intro i hi
    have hi2 : i < 2 := hi
    have : i = 0 ∨ i = 1 := by omega
    rcases this with rfl | rfl
    · exact witnessHdr_headOk_legacy _ (by decide)
    · exact witnessHdr_headOk_legacy _ (by decide)
  clients := by
    intro i hi c hc
    have hi2 : i < 2 := hi
    have : i = 0 ∨ i = 1 := by omega
    rcases this with rfl | rfl
    · exact witnessClients_ok _ (by decide) (by decide) c (Or.inl (by simpa [Family.chunk, witnessLegacy] using hc))
    · exact witnessClients_ok _ (by decide) (by decide) c (Or.inr (by simpa [Family.chunk, witnessLegacy] using hc))

end Tw.ServerBrowse
