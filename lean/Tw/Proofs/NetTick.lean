import Tw.Proofs.NetPeers

/-! `Net::needs_tick` is the minimum of the peers' deadlines; consequences of the simulation used by
`Props/C20`. -/
namespace Tw.Net
open Tw.Conn Tw.Conn6 Tw.Time

theorem Timeout.le_refl (a : Timeout) : Timeout.le a a = true := by
  cases a <;> simp [Timeout.le]

theorem Timeout.le_total (a b : Timeout) : Timeout.le a b = true ∨ Timeout.le b a = true := by
  cases a <;> cases b <;> simp [Timeout.le]; omega

theorem Timeout.le_trans {a b c : Timeout} (h1 : Timeout.le a b = true) (h2 : Timeout.le b c = true) :
    Timeout.le a c = true := by
  cases a <;> cases b <;> cases c <;> simp_all [Timeout.le]; omega

theorem Timeout.min_le_left (a b : Timeout) : Timeout.le (Timeout.min a b) a = true := by
  unfold Timeout.min
  split
  · exact Timeout.le_refl a
  · rename_i h
    rcases Timeout.le_total a b with h' | h'
    · exact absurd h' h
    · exact h'

theorem Timeout.min_le_right (a b : Timeout) : Timeout.le (Timeout.min a b) b = true := by
  unfold Timeout.min
  split
  · assumption
  · exact Timeout.le_refl b

theorem Timeout.min_eq (a b : Timeout) : Timeout.min a b = a ∨ Timeout.min a b = b := by
  unfold Timeout.min; split <;> simp

/-- the endpoint's deadline is not later than any peer's -/
theorem needsTick_le (net : Net) : ∀ e ∈ net.peers, Timeout.le net.needsTick e.2.conn.needsTick = true := by
  unfold Net.needsTick
  induction net.peers with
  | nil => simp
  | cons x xs ih =>
    intro e he
    simp only [List.foldr_cons]
    rcases List.mem_cons.1 he with rfl | he
    · exact Timeout.min_le_left _ _
    · exact Timeout.le_trans (Timeout.min_le_right _ _) (ih e he)

/-- … and it is one of them (or inactive when there is no peer) -/
theorem needsTick_attained (net : Net) :
    (net.peers = [] ∧ net.needsTick = .inactive) ∨ ∃ e ∈ net.peers, net.needsTick = e.2.conn.needsTick := by
  unfold Net.needsTick
  induction net.peers with
  | nil => simp
  | cons x xs ih =>
    right
    simp only [List.foldr_cons]
    rcases Timeout.min_eq x.2.conn.needsTick (List.foldr (fun e m => Timeout.min e.2.conn.needsTick m) Timeout.inactive xs) with h | h
    · exact ⟨x, by simp, h⟩
    · rcases ih with ⟨hnil, hin⟩ | ⟨e, he, heq⟩
      · subst hnil
        refine ⟨x, by simp, ?_⟩
        simp only [List.foldr_nil] at h ⊢
        cases hx : x.2.conn.needsTick <;> simp [Timeout.min, Timeout.le]
      · exact ⟨e, List.mem_cons_of_mem _ he, by rw [h, heq]⟩

/-! ### a reported `Disconnect` empties the slot -/

theorem slotOnDisconnect_none_stays {evs : List Event} {t : Slot}
    (h : slotOnDisconnect none evs = .ok t) : t = none := by
  induction evs with
  | nil => simp [slotOnDisconnect] at h; exact h.symm
  | cons y ys ih =>
    cases y <;> simp only [slotOnDisconnect] at h
    · exact ih h
    · exact ih h
    · exact ih h
    · simp at h

theorem slotOnDisconnect_none_of_mem {evs : List Event} {s s' : Slot} {rr : Bytes}
    (hm : Event.disconnect rr ∈ evs) (h : slotOnDisconnect s evs = .ok s') : s' = none := by
  induction evs generalizing s with
  | nil => simp at hm
  | cons x xs ih =>
    cases x with
    | disconnect r2 =>
      simp only [slotOnDisconnect] at h
      cases s with
      | none => simp at h
      | some v => exact slotOnDisconnect_none_stays h
    | connless d => simp only [slotOnDisconnect] at h; exact ih (by simpa using hm) h
    | chunk d v => simp only [slotOnDisconnect] at h; exact ih (by simpa using hm) h
    | ready => simp only [slotOnDisconnect] at h; exact ih (by simpa using hm) h

theorem refStateless_no_disconnect {acc : Bool} {a : Nat} {s s' : Slot} {pending : Bool}
    {rd : Option Bool → Option Packet} {fresh : Option Nat} {r : Ret} {o : Out}
    (h : refStateless acc a s pending rd fresh = .ok (s', r, o)) (b pid : Nat) (reason : Bytes) :
    (b, NEvent.disconnect pid reason) ∉ o.events := by
  unfold refStateless at h
  split at h
  · simp only [Except.ok.injEq, Prod.mk.injEq] at h; rw [← h.2.2]; simp
  · simp only [Except.ok.injEq, Prod.mk.injEq] at h; rw [← h.2.2]; simp
  · split at h
    · simp only [Except.ok.injEq, Prod.mk.injEq] at h; rw [← h.2.2]; simp
    · split at h
      · split at h
        · simp at h
        · simp only [Except.ok.injEq, Prod.mk.injEq] at h; rw [← h.2.2]; simp
      · simp only [Except.ok.injEq, Prod.mk.injEq] at h; rw [← h.2.2]; simp
  · simp only [Except.ok.injEq, Prod.mk.injEq] at h; rw [← h.2.2]; simp

/-- the reference reports `Disconnect(pid)` only for the peer in the slot, and the slot is empty
afterwards -/
theorem ref_dgram_disconnect {acc : Bool} {a : Nat} {env : Env} {s s' : Slot}
    {rd : Option Bool → Option Packet} {fresh : Option Nat} {r : Ret} {o : Out}
    (h : refStep acc a env s (.dgram rd fresh) = .ok (s', r, o)) {pid : Nat} {reason : Bytes}
    (hm : (a, NEvent.disconnect pid reason) ∈ o.events) : s' = none ∧ ∃ p, s = some (pid, p) := by
  cases s with
  | none =>
    simp only [refStep] at h
    exact absurd hm (refStateless_no_disconnect h _ _ _)
  | some e =>
    obtain ⟨pid', p⟩ := e
    simp only [refStep] at h
    split at h
    · exact absurd hm (refStateless_no_disconnect h _ _ _)
    · split at h
      · simp at h
      · rename_i c o' hfd
        split at h
        · simp at h
        · rename_i s1 hsd
          simp only [Except.ok.injEq, Prod.mk.injEq] at h
          obtain ⟨h1, _, h3⟩ := h
          rw [← h3] at hm
          simp only [liftOut, List.mem_map] at hm
          obtain ⟨ev, hev, hevq⟩ := hm
          simp only [Prod.mk.injEq, true_and] at hevq
          cases ev <;> simp [mapEvent] at hevq
          rename_i rr
          exact ⟨by rw [← h1]; exact slotOnDisconnect_none_of_mem hev hsd, p, by rw [hevq.1]⟩

/-- an id whose peer sat at address `a` is absent once `a`'s slot is empty and the other slots are
untouched -/
theorem lookup_none_of_slot_emptied {ps ps' : Peers} {a pid : Nat} {p : Peer} (hi : PInv ps) (hi' : PInv ps')
    (hs : slot ps a = some (pid, p)) (hs' : slot ps' a = none)
    (hoth : ∀ b, b ≠ a → slot ps' b = slot ps b) : lookup ps' pid = none := by
  rw [lookup_none_iff]
  intro e he hep
  by_cases hb : e.2.addr = a
  · exact (slot_none_iff.1 hs') e he hb
  · have h1 : slot ps' e.2.addr = some e := mem_slot hi'.addr he rfl
    rw [hoth _ hb] at h1
    have h2 := (slot_mem h1).1
    have h3 := (slot_mem hs).1
    have := pid_inj hi.pid h2 h3 (by simpa using hep)
    exact hb (by rw [this]; exact (slot_mem hs).2)

/-! ### the id allocator terminates -/

theorem nodup_map_of_inj_on {α β : Type} {f : α → β} : ∀ (l : List α), l.Nodup →
    (∀ x, x ∈ l → ∀ y, y ∈ l → f x = f y → x = y) → (l.map f).Nodup
  | [], _, _ => by simp
  | z :: zs, hl, hf => by
    simp only [List.nodup_cons] at hl
    simp only [List.map_cons, List.nodup_cons]
    refine ⟨?_, nodup_map_of_inj_on zs hl.2 (fun x hx y hy => hf x (List.mem_cons_of_mem _ hx) y (List.mem_cons_of_mem _ hy))⟩
    intro hm
    obtain ⟨y, hy, hfy⟩ := List.mem_map.1 hm
    have := hf y (List.mem_cons_of_mem _ hy) z (by simp) hfy
    exact hl.1 (this ▸ hy)

/-- pigeonhole: a duplicate-free list contained in another is not longer -/
theorem length_le_of_nodup_subset : ∀ (l₁ l₂ : List Nat), l₁.Nodup → (∀ x ∈ l₁, x ∈ l₂) → l₁.length ≤ l₂.length
  | [], _, _, _ => by simp
  | x :: xs, l₂, hn, hs => by
    simp only [List.nodup_cons] at hn
    have hx : x ∈ l₂ := hs x (by simp)
    have hsub : ∀ y ∈ xs, y ∈ l₂.erase x := by
      intro y hy
      have hne : y ≠ x := fun h => hn.1 (h ▸ hy)
      exact (List.mem_erase_of_ne hne).2 (hs y (List.mem_cons_of_mem _ hy))
    have ih := length_le_of_nodup_subset xs (l₂.erase x) hn.2 hsub
    have hlen := List.length_erase_of_mem hx
    have hpos : 0 < l₂.length := List.length_pos_of_mem hx
    simp only [List.length_cons]
    omega

theorem idMod_eq : idMod = 4294967296 := by decide

def idIter : Nat → Nat → Nat
  | 0, n => n
  | k + 1, n => idIter k (idNext n)

theorem idIter_eq (k n : Nat) (hn : n < idMod) : idIter k n = (n + k) % idMod := by
  induction k generalizing n with
  | zero => simp [idIter, Nat.mod_eq_of_lt hn]
  | succ k ih =>
    have hlt : idNext n < idMod := Nat.mod_lt _ (by rw [idMod_eq]; omega)
    rw [idIter, ih _ hlt]
    simp only [idNext, Tw.Gen.Net.peerIdStep, idMod_eq]
    omega

theorem newPeerLoop_none {fuel : Nat} {ps : Peers} {n : Nat} (h : newPeerLoop fuel ps n = none) :
    ∀ k, k < fuel → lookup ps (idIter k n) ≠ none := by
  induction fuel generalizing n with
  | zero => intro k hk; omega
  | succ f ih =>
    simp only [newPeerLoop] at h
    split at h
    · rename_i p hl
      intro k hk
      cases k with
      | zero => simp [idIter, hl]
      | succ k => simpa [idIter] using ih h k (by omega)
    · simp at h

/-- the loop of `Peers::new_peer` finds a free id as long as fewer than 2^32 peers are live -/
theorem newPeerLoop_some (ps : Peers) (n : Nat) (hn : n < idMod) (hlen : ps.length < idMod) :
    newPeerLoop (ps.length + 1) ps n ≠ none := by
  intro h
  have hall := newPeerLoop_none h
  let cands := (List.range (ps.length + 1)).map (fun k => idIter k n)
  have hnd : cands.Nodup := by
    apply nodup_map_of_inj_on _ List.nodup_range
    intro x hx y hy hxy
    simp only [List.mem_range] at hx hy
    rw [idIter_eq _ _ hn, idIter_eq _ _ hn] at hxy
    rw [idMod_eq] at hxy hn hlen
    omega
  have hsub : cands ⊆ pids ps := by
    intro c hc
    obtain ⟨k, hk, rfl⟩ := List.mem_map.1 hc
    have := hall k (List.mem_range.1 hk)
    cases hl : lookup ps (idIter k n) with
    | none => exact absurd hl this
    | some p => exact List.mem_map.2 ⟨_, lookup_mem hl, rfl⟩
  have := length_le_of_nodup_subset cands (pids ps) hnd (fun x hx => hsub hx)
  simp [cands, pids] at this
  omega


theorem newPeer_ok_of_room (net : Net) (addr : Nat) (tok : Bool) (hn : net.nextPeerId < idMod)
    (hlen : net.peers.length < idMod) : ∃ net1 pid, newPeer net addr tok = .ok (net1, pid) := by
  unfold newPeer
  cases h : newPeerLoop (net.peers.length + 1) net.peers net.nextPeerId with
  | none => exact absurd h (newPeerLoop_some _ _ hn hlen)
  | some v => obtain ⟨pid, nx⟩ := v; exact ⟨_, _, rfl⟩

theorem newPeerLoop_next_lt {fuel : Nat} {ps : Peers} {n pid nx : Nat}
    (h : newPeerLoop fuel ps n = some (pid, nx)) : nx < idMod := by
  induction fuel generalizing n with
  | zero => simp [newPeerLoop] at h
  | succ f ih =>
    simp only [newPeerLoop] at h
    split at h
    · exact ih h
    · simp at h; rw [← h.2]; exact Nat.mod_lt _ (by rw [idMod_eq]; omega)

theorem newPeer_next_lt {net net1 : Net} {addr pid : Nat} {tok : Bool}
    (h : newPeer net addr tok = .ok (net1, pid)) : net1.nextPeerId < idMod := by
  unfold newPeer at h
  split at h
  · simp at h
  · rename_i pid' nx hl
    simp only [Except.ok.injEq, Prod.mk.injEq] at h
    rw [← h.1]
    exact newPeerLoop_next_lt hl

theorem step_next_lt {env : Conn6.Env} {net net' : Net} {op : Op} {r : Ret} {o : Out}
    (hn : net.nextPeerId < idMod) (h : step env net op = .ok (net', r, o)) : net'.nextPeerId < idMod := by
  cases op with
  | feed addr rd =>
    simp only [step, feed] at h
    have hu : ∀ pending, feedUnknown net addr pending rd = .ok (net', r, o) → net'.nextPeerId < idMod := by
      intro pending hu
      unfold feedUnknown at hu
      split at hu
      · simp only [Except.ok.injEq, Prod.mk.injEq] at hu; rw [← hu.1]; exact hn
      · simp only [Except.ok.injEq, Prod.mk.injEq] at hu; rw [← hu.1]; exact hn
      · split at hu
        · simp only [Except.ok.injEq, Prod.mk.injEq] at hu; rw [← hu.1]; exact hn
        · split at hu
          · split at hu
            · simp at hu
            · rename_i hnp
              simp only [Except.ok.injEq, Prod.mk.injEq] at hu; rw [← hu.1]; exact newPeer_next_lt hnp
          · simp only [Except.ok.injEq, Prod.mk.injEq] at hu; rw [← hu.1]; exact hn
      · simp only [Except.ok.injEq, Prod.mk.injEq] at hu; rw [← hu.1]; exact hn
    split at h
    · split at h
      · simp at h
      · split at h
        · exact hu _ h
        · unfold feedPeer at h
          split at h
          · simp at h
          · split at h
            · simp at h
            · split at h
              · simp at h
              · simp only [Except.ok.injEq, Prod.mk.injEq] at h; rw [← h.1]; exact hn
    · exact hu _ h
  | connect addr =>
    simp only [step, connect] at h
    split at h
    · simp at h
    · rename_i hnp
      split at h
      · simp at h
      · simp only [Except.ok.injEq, Prod.mk.injEq] at h; rw [← h.1]; exact (newPeer_next_lt hnp : _ < idMod)
  | accept pid =>
    simp only [step, accept, modifyPeer] at h
    split at h
    · simp at h
    · split at h
      · simp at h
      · simp only [Except.ok.injEq, Prod.mk.injEq] at h; rw [← h.1]; exact hn
  | send pid d v =>
    simp only [step, send, modifyPeer] at h
    split at h
    · simp at h
    · split at h
      · simp at h
      · simp only [Except.ok.injEq, Prod.mk.injEq] at h; rw [← h.1]; exact hn
  | flush pid =>
    simp only [step, flush, modifyPeer] at h
    split at h
    · simp at h
    · split at h
      · simp at h
      · simp only [Except.ok.injEq, Prod.mk.injEq] at h; rw [← h.1]; exact hn
  | reject pid reason =>
    simp only [step, reject, removePeer] at h
    split at h
    · simp at h
    · split at h
      · simp at h
      · split at h
        · simp at h
        · simp only [Except.ok.injEq, Prod.mk.injEq] at h; rw [← h.1]; exact hn
  | disconnect pid reason =>
    simp only [step, disconnect, removePeer] at h
    split at h
    · simp at h
    · split at h
      · simp at h
      · split at h
        · simp at h
        · simp only [Except.ok.injEq, Prod.mk.injEq] at h; rw [← h.1]; exact hn
  | ignore pid =>
    simp only [step, ignore, removePeer] at h
    split at h
    · simp at h
    · split at h
      · simp at h
      · simp only [Except.ok.injEq, Prod.mk.injEq] at h; rw [← h.1]; exact hn
  | sendConnless addr d =>
    simp only [step, sendConnless] at h
    split at h
    · simp only [Except.ok.injEq, Prod.mk.injEq] at h; rw [← h.1]; exact hn
    · split at h
      · simp at h
      · simp only [Except.ok.injEq, Prod.mk.injEq] at h; rw [← h.1]; exact hn
  | tick =>
    simp only [step, tick] at h
    split at h
    · simp at h
    · simp only [Except.ok.injEq, Prod.mk.injEq] at h; rw [← h.1]; exact hn

theorem run_next_lt (h : History) : ∀ (net net' : Net) (outs : List (Ret × Out)),
    net.nextPeerId < idMod → run net h = .ok (net', outs) → net'.nextPeerId < idMod := by
  induction h with
  | nil => intro net net' outs hn hr; simp [run] at hr; rw [← hr.1]; exact hn
  | cons x xs ih =>
    obtain ⟨env, op⟩ := x
    intro net net' outs hn hr
    simp only [run] at hr
    cases hst : step env net op with
    | error f => simp [hst] at hr
    | ok v =>
      obtain ⟨net1, r, o⟩ := v
      simp only [hst] at hr
      cases hrest : run net1 xs with
      | error f => simp [hrest] at hr
      | ok w =>
        obtain ⟨net2, outs2⟩ := w
        simp only [hrest, Except.ok.injEq, Prod.mk.injEq] at hr
        rw [← hr.1]
        exact ih net1 net2 outs2 (step_next_lt hn hst) hrest

/-- equality of call results is decidable (for the `decide`d examples) -/
instance instDecEqExcept {ε α : Type} [DecidableEq ε] [DecidableEq α] : DecidableEq (Except ε α)
  | .ok a, .ok b => if h : a = b then isTrue (by rw [h]) else isFalse (fun h' => h (by injection h'))
  | .error a, .error b => if h : a = b then isTrue (by rw [h]) else isFalse (fun h' => h (by injection h'))
  | .ok _, .error _ => isFalse (fun h => by cases h)
  | .error _, .ok _ => isFalse (fun h => by cases h)

/-! ### a concrete history (non-vacuity of the hypotheses; the D22 history) -/

/-- the client's connect request, read the same under every token hint -/
def connectReq (tok : Bool) : Option Bool → Option Conn6.Packet := fun _ => some (connectPacket tok)

/-- connect request from 1 (with token), its retransmission, accept, connect request from 2
(vanilla), connect out to 3, half a second later a tick, reject 2's peer, disconnect 1's peer -/
def exampleHistory : History := [
  ({ now := 0 }, .feed 1 (connectReq true)),
  ({ now := 0 }, .feed 1 (connectReq true)),
  ({ now := 0, draws := [0x01020304] }, .accept 0),
  ({ now := 0 }, .feed 2 (connectReq false)),
  ({ now := 0 }, .connect 3),
  ({ now := 600000 }, .tick),
  ({ now := 600000 }, .reject 1 []),
  ({ now := 600000 }, .disconnect 0 [98])]

/-- ids and addresses of the peers a run ends with -/
def finalPeers : Except Fail (Net × List (Ret × Out)) → Option (List Nat × List Nat)
  | .ok (n, _) => some (pids n.peers, addrs n.peers)
  | .error _ => none

/-- `step` with `Net::feed` as it was before the repair of D22 -/
def legacyStep (env : Env) (net : Net) : Op → Res
  | .feed a rd => feedLegacy env net a rd
  | op => step env net op

end Tw.Net
