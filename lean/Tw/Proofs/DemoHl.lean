import Tw.Model.DemoHl
import Tw.Proofs.Demo
import Tw.Proofs.SnapExt
import Tw.Proofs.SnapRaw
import Tw.Proofs.SnapWire

/-! Helper lemmas about the high-level demo model (`Tw.Model.DemoHl`). -/
namespace Tw.DemoHl
open Tw.Demo Tw.Snap

/-- objects the typed writer can hand over: a valid type id, a `u16` id, `i32` fields -/
def Item.valid (it : Item) : Prop := it.tid.Valid ∧ it.id < 65536 ∧ ∀ x ∈ it.data, I32 x

/-- the state invariant of the (repaired) writer: the builder is the recycled last snapshot and both
satisfy the snapshot invariants -/
structure DemoWriter.Inv (w : DemoWriter) : Prop where
  builder : nextBuilder w.snap = some w.builder
  binv : w.builder.Inv
  sok : ExtOk w.snap

theorem new_inv (a : HeaderArgs) (w : DemoWriter) (h : DemoWriter.new a = some w) : w.Inv := by
  unfold DemoWriter.new at h
  match hw : Writer.new a, h with
  | some iw, h =>
    simp only [Option.some.injEq] at h
    subst h
    exact ⟨(by decide : nextBuilder Snap.empty = some Builder.new), Builder.new_inv, Builder.new_inv.ok⟩

/-! ### refusals -/

theorem writeSnap_low_tick (objSize : Nat → Option Nat) (w : DemoWriter) (tick : Int) (items : List Item)
    (h : tick ≤ w.lastTick) : w.writeSnap objSize tick items = (w, .err .tooLowTickNumber) := by
  simp [DemoWriter.writeSnap, h]

theorem writeMsg_too_long (w : DemoWriter) (msg : Bytes) (h : msg.length > Tw.Gen.Demo.MAX_SNAPSHOT_SIZE) :
    w.writeMsg msg = (w, .err .tooLongNetMsg) := by
  simp [DemoWriter.writeMsg, h]

/-- a refused `write_snap` leaves the writer exactly as it was -/
theorem writeSnap_err_unchanged (objSize : Nat → Option Nat) (w w' : DemoWriter) (hinv : w.Inv) (tick : Int)
    (items : List Item) (e : WriteError) (h : w.writeSnap objSize tick items = (w', .err e)) : w' = w := by
  have hb := hinv.builder
  unfold DemoWriter.writeSnap at h
  split at h
  · cases h; rfl
  · simp only [hb] at h
    repeat' split at h
    all_goals first | (cases h; rfl) | (cases h)

/-- a refused `write_msg` leaves the writer exactly as it was -/
theorem writeMsg_err_unchanged (w w' : DemoWriter) (msg : Bytes) (e : WriteError)
    (h : w.writeMsg msg = (w', .err e)) : w' = w := by
  unfold DemoWriter.writeMsg at h
  repeat' split at h
  all_goals first | (cases h; rfl) | (cases h)

/-! ### accepted snapshots -/

theorem addItems_inv (items : List Item) (hv : ∀ it ∈ items, it.valid) :
    ∀ (b b' : Builder), b.Inv → addItems b items = .ok b' → b'.Inv := by
  induction items with
  | nil => intro b b' hb h; simp only [addItems, AddResult.ok.injEq] at h; subst h; exact hb
  | cons it rest ih =>
    intro b b' hb h
    simp only [addItems] at h
    match ha : b.addItem it.tid it.id it.data, h with
    | some (b1, none), h =>
      simp only [] at h
      obtain ⟨h1, h2, h3⟩ := hv it (by simp)
      exact ih (fun i hi => hv i (by simp [hi])) b1 b' (Builder.addItem_inv hb h1 h2 h3 ha) h

/-- what an accepted `write_snap` did -/
theorem writeSnap_ok_inv (objSize : Nat → Option Nat) (w w' : DemoWriter) (tick : Int) (items : List Item)
    (h : w.writeSnap objSize tick items = (w', .ok)) :
    w.lastTick < tick ∧
    ∃ (b b' : Builder) (bs : Bytes) (inner1 : Writer),
      addItems w.builder items = .ok b ∧
      snapPayload objSize (w.isKeyframe tick) w.snap b.snap = .ok bs ∧ fitsChunk bs ∧
      w.inner.writeTick (w.isKeyframe tick) tick = (inner1, .ok) ∧
      inner1.writeData (if w.isKeyframe tick then .snapshot else .delta) bs = (w'.inner, .ok) ∧
      nextBuilder b.snap = some b' ∧
      w' = { inner := w'.inner, lastTick := tick,
             lastKeyframe := if w.isKeyframe tick then some tick else w.lastKeyframe, snap := b.snap,
             builder := b' } := by
  unfold DemoWriter.writeSnap at h
  split at h
  · cases h
  · rename_i hlt
    refine ⟨by omega, ?_⟩
    simp only [] at h
    split at h
    · cases h
    · split at h <;> cases h
    · rename_i b hadd
      split at h
      · cases h
      · split at h <;> cases h
      · rename_i bs hpay
        split at h
        · split at h <;> cases h
        rename_i hfit
        split at h
        · cases h
        · rename_i inner1 hwt
          split at h
          · cases h
          · rename_i inner2 hwd
            split at h
            · cases h
            · rename_i b' hnb
              cases h
              exact ⟨b, b', bs, inner1, hadd, hpay, Decidable.not_not.mp hfit, hwt, hwd, hnb, rfl⟩

theorem writeSnap_preserves_inv (objSize : Nat → Option Nat) (w w' : DemoWriter) (hinv : w.Inv) (tick : Int)
    (items : List Item) (hv : ∀ it ∈ items, it.valid)
    (h : w.writeSnap objSize tick items = (w', .ok)) : w'.Inv := by
  obtain ⟨_, b, b', bs, inner1, hadd, _, _, _, _, hnb, hw'⟩ := writeSnap_ok_inv objSize w w' tick items h
  have hb := addItems_inv items hv w.builder b hinv.binv hadd
  obtain ⟨b'', h1, h2, _, _⟩ := Builder.recycle_inv hb
  unfold nextBuilder at hnb
  rw [h1] at hnb
  injection hnb with hnb
  subst hnb
  rw [hw']
  exact ⟨h1, h2, hb.ok⟩

/-! ### the bytes of an accepted snapshot, read back -/

theorem writeBytes_ok {s : RawSnap} {cap : Nat} {bs : Bytes} (h : s.writeBytes cap = .ok bs) :
    ∃ xs, s.writeInts = some xs ∧ bs = Tw.Snap.packInts xs := by
  unfold RawSnap.writeBytes at h
  unfold RawSnap.writeInts
  split at h
  · cases h
  · rename_i h1
    simp only [h1, if_false]
    simp only [] at h
    split at h
    · cases h
    · split at h
      · cases h
      · rename_i h3
        simp only [h3, if_false]
        cases h
        exact ⟨_, rfl, rfl⟩

/-- a key frame written from a builder that satisfies the invariant is read back as the same
snapshot without a warning -/
theorem keyframe_payload_roundtrip {b : Builder} (hb : b.Inv) {old : Snap} {objSize : Nat → Option Nat} {bs : Bytes}
    (h : snapPayload objSize true old b.snap = .ok bs) : Snap.readBytes bs = .ok (b.snap, []) := by
  unfold snapPayload at h
  simp only [if_true] at h
  match hw : b.snap.raw.writeBytes Tw.Gen.Demo.MAX_SNAPSHOT_SIZE, h with
  | .ok bs', h =>
    cases h
    obtain ⟨xs, hx, hbs⟩ := writeBytes_ok hw
    rw [writeInts_of_WF hb.ok.raw_wf] at hx
    injection hx with hx
    subst hx hbs
    unfold Snap.readBytes
    rw [readBytes_wireInts hb.ok.raw_wf]
    simp only [buildFromRaw_of_extOk hb.ok, List.append_nil]

/-! ### one accepted call, read back by the high-level reader -/

/-- An accepted key-frame `write_snap`: the bytes appended to the file are read back by the
high-level reader as `Tick(tick)` followed by a snapshot chunk that reports exactly the items of the
snapshot the writer keeps (`w'.snap`), which also becomes the reader's snapshot; no warning. -/
theorem keyframe_step (hH : HuffmanRoundTrip) (objSize : Nat → Option Nat) (w w' : DemoWriter) (hinv : w.Inv)
    (tick : Int) (ht : Tw.Packer.inI32 tick) (items : List Item) (hv : ∀ it ∈ items, it.valid)
    (hk : w.isKeyframe tick = true) (h : w.writeSnap objSize tick items = (w', .ok)) :
    ∃ enc, w'.inner.file = w.inner.file ++ enc ∧ 2 ≤ enc.length ∧
      ∀ (v : Version) (rest : Bytes) (s0 : Snap), v.num ≥ 5 →
        ∃ r1, DemoReader.nextChunk objSize
            { raw := { data := enc ++ rest, version := v, currentTick := w.inner.prevTick }, snap := s0 } =
              (r1, .chunk (.tick tick), []) ∧
          DemoReader.nextChunk objSize r1 =
            match snapItems w'.snap with
            | some its => ({ raw := { data := rest, version := v, currentTick := w'.inner.prevTick },
                             snap := w'.snap }, .chunk (.snapshot its), [])
            | none => (r1, .error .panic, []) := by
  obtain ⟨_, b, b', bs, inner1, hadd, hpay, hfit, hwt, hwd, hnb, hw'⟩ := writeSnap_ok_inv objSize w w' tick items h
  simp only [hk, if_true] at hpay hwt hwd
  have hb := addItems_inv items hv w.builder b hinv.binv hadd
  have hread := keyframe_payload_roundtrip hb hpay
  obtain ⟨e1, hf1, hl1, hr1⟩ := writeChunk_ok hH w.inner inner1 (.tick tick true) ht hwt
  obtain ⟨e2, hf2, hl2, hr2⟩ := writeChunk_ok hH inner1 w'.inner (.snapshot bs) trivial hwd
  have hsnap : w'.snap = b.snap := by rw [hw']
  refine ⟨e1 ++ e2, by rw [hf2, hf1, List.append_assoc], by rw [List.length_append]; omega, ?_⟩
  intro v rest s0 hv5
  have h1 := hr1 v (e2 ++ rest) hv5
  have h2 := hr2 v rest hv5
  refine ⟨{ raw := { data := e2 ++ rest, version := v, currentTick := inner1.prevTick }, snap := s0 }, ?_, ?_⟩
  · simp only [DemoReader.nextChunk, List.append_assoc, h1, Chunk.padded, List.map_nil]
  · simp only [DemoReader.nextChunk, h2, Chunk.padded, hread, hsnap, List.map_nil, List.append_nil]
    cases snapItems b.snap <;> rfl


/-- An accepted delta `write_snap` (no key frame due): provided the new snapshot's item sizes agree
with the previous snapshot's and with the object-size table (`SizesAgree`, `SizesOk` — true for typed
objects, whose size is a function of their type; otherwise `Delta::create` panics, D15), the bytes
appended to the file are read back by a reader holding the writer's previous snapshot as
`Tick(tick)` followed by a snapshot chunk with exactly the items of the writer's new snapshot. -/
theorem delta_step (hH : HuffmanRoundTrip) (objSize : Nat → Option Nat) (w w' : DemoWriter) (hinv : w.Inv)
    (tick : Int) (ht : Tw.Packer.inI32 tick) (items : List Item) (hv : ∀ it ∈ items, it.valid)
    (hk : w.isKeyframe tick = false) (h : w.writeSnap objSize tick items = (w', .ok))
    (hag : SizesAgree w.snap.raw w'.snap.raw) (hok : SizesOk objSize w'.snap.raw.items) :
    ∃ enc, w'.inner.file = w.inner.file ++ enc ∧ 2 ≤ enc.length ∧
      ∀ (v : Version) (rest : Bytes), v.num ≥ 5 →
        ∃ r1, DemoReader.nextChunk objSize
            { raw := { data := enc ++ rest, version := v, currentTick := w.inner.prevTick }, snap := w.snap } =
              (r1, .chunk (.tick tick), []) ∧
          DemoReader.nextChunk objSize r1 =
            match snapItems w'.snap with
            | some its => ({ raw := { data := rest, version := v, currentTick := w'.inner.prevTick },
                             snap := w'.snap }, .chunk (.snapshot its), [])
            | none => (r1, .error .panic, []) := by
  obtain ⟨_, b, b', bs, inner1, hadd, hpay, hfit, hwt, hwd, hnb, hw'⟩ := writeSnap_ok_inv objSize w w' tick items h
  simp only [hk, Bool.false_eq_true, if_false] at hpay hwt hwd
  have hb := addItems_inv items hv w.builder b hinv.binv hadd
  have hsnap : w'.snap = b.snap := by rw [hw']
  rw [hsnap] at hag hok
  obtain ⟨d, xs, hd, hwi, hrd, hap⟩ := delta_roundtrip true objSize hinv.sok.raw_wf hb.ok.raw_wf hag hok
  have hbs : bs = Tw.Snap.packInts xs := by
    unfold snapPayload at hpay
    simp only [Bool.false_eq_true, if_false, hd, hwi] at hpay
    split at hpay
    · cases hpay
    · cases hpay; rfl
  have hrd' : readDelta objSize (.bytes bs) = .ok (d, []) := by
    rw [hbs]; simpa [enc] using hrd
  have hrw : w.snap.readWithDelta d = .ok (b.snap, []) := by
    unfold Snap.readWithDelta
    rw [hap]
    simp only [buildFromRaw_of_extOk hb.ok, List.append_nil]
  obtain ⟨e1, hf1, hl1, hr1⟩ := writeChunk_ok hH w.inner inner1 (.tick tick false) ht hwt
  obtain ⟨e2, hf2, hl2, hr2⟩ := writeChunk_ok hH inner1 w'.inner (.delta bs) trivial hwd
  refine ⟨e1 ++ e2, by rw [hf2, hf1, List.append_assoc], by rw [List.length_append]; omega, ?_⟩
  intro v rest hv5
  have h1 := hr1 v (e2 ++ rest) hv5
  have h2 := hr2 v rest hv5
  refine ⟨{ raw := { data := e2 ++ rest, version := v, currentTick := inner1.prevTick }, snap := w.snap }, ?_, ?_⟩
  · simp only [DemoReader.nextChunk, List.append_assoc, h1, Chunk.padded, List.map_nil]
  · simp only [DemoReader.nextChunk, h2, Chunk.padded, hrd', hrw, hsnap, List.map_nil, List.append_nil]
    cases snapItems b.snap <;> rfl

/-- An accepted `write_msg`: the appended bytes are read back as the message, zero-padded to a
multiple of four bytes; the reader's snapshot is untouched. -/
theorem msg_step (hH : HuffmanRoundTrip) (objSize : Nat → Option Nat) (w w' : DemoWriter) (msg : Bytes)
    (h : w.writeMsg msg = (w', .ok)) :
    w'.snap = w.snap ∧ w'.builder = w.builder ∧ w'.lastTick = w.lastTick ∧ w'.lastKeyframe = w.lastKeyframe ∧
    ∃ enc, w'.inner.file = w.inner.file ++ enc ∧ 1 ≤ enc.length ∧
      ∀ (v : Version) (rest : Bytes) (s0 : Snap), v.num ≥ 5 →
        DemoReader.nextChunk objSize
            { raw := { data := enc ++ rest, version := v, currentTick := w.inner.prevTick }, snap := s0 } =
          ({ raw := { data := rest, version := v, currentTick := w'.inner.prevTick }, snap := s0 },
            .chunk (.message (pad4 msg)), []) := by
  unfold DemoWriter.writeMsg at h
  split at h
  · cases h
  · split at h
    · cases h
    split at h
    · cases h
    · rename_i inner' hwm
      cases h
      refine ⟨rfl, rfl, rfl, rfl, ?_⟩
      obtain ⟨enc, hf, hl, hr⟩ := writeChunk_ok hH w.inner inner' (.message msg) trivial hwm
      refine ⟨enc, hf, hl, ?_⟩
      intro v rest s0 hv5
      simp only [DemoReader.nextChunk, hr v rest hv5, Chunk.padded, List.map_nil]


theorem writeMsg_preserves_inv (w w' : DemoWriter) (msg : Bytes) (hinv : w.Inv)
    (h : w.writeMsg msg = (w', .ok)) : w'.Inv := by
  unfold DemoWriter.writeMsg at h
  split at h
  · cases h
  · split at h
    · cases h
    split at h
    · cases h
    · cases h
      exact ⟨hinv.builder, hinv.binv, hinv.sok⟩

/-! ### the payload-limit panic (D29) in the model -/

theorem msgInts_replicate (c : UInt8) : ∀ k, msgInts (List.replicate (4 * k) c) = List.replicate k (leWord c c c c) := by
  intro k
  induction k with
  | zero => rfl
  | succ k ih =>
    have : 4 * (k + 1) = 4 * k + 1 + 1 + 1 + 1 := by omega
    rw [this]
    simp only [List.replicate_succ, msgInts, ih]

theorem packInts_replicate_length (v : Int) : ∀ k, (Tw.Demo.packInts (List.replicate k v)).length = k * (Tw.Packer.writeInt v).length := by
  intro k
  induction k with
  | zero => simp [Tw.Demo.packInts]
  | succ k ih =>
    have : Tw.Demo.packInts (List.replicate (k + 1) v) = Tw.Packer.writeInt v ++ Tw.Demo.packInts (List.replicate k v) := by
      simp [Tw.Demo.packInts, List.replicate_succ]
    rw [this, List.length_append, ih]
    rw [Nat.add_mul]; omega

/-! ### histories (vocabulary of the full statement) -/

inductive Op where
  | snap (tick : Int) (items : List Item)
  | msg (bytes : Bytes)
  deriving Repr

def Op.valid : Op → Prop
  | .snap t items => Tw.Packer.inI32 t ∧ ∀ it ∈ items, it.valid
  | .msg _ => True

/-- run a history; the results of the calls in order -/
def DemoWriter.run (objSize : Nat → Option Nat) (w : DemoWriter) : List Op → DemoWriter × List HResult
  | [] => (w, [])
  | .snap t items :: rest =>
    let (w1, r) := w.writeSnap objSize t items
    let (w2, rs) := DemoWriter.run objSize w1 rest
    (w2, r :: rs)
  | .msg b :: rest =>
    let (w1, r) := w.writeMsg b
    let (w2, rs) := DemoWriter.run objSize w1 rest
    (w2, r :: rs)

/-- two chunk lists agree up to the order of the objects inside each snapshot: the same chunks, the
same object *sets* -/
def chunksAgree : List HChunk → List HChunk → Prop
  | [], [] => True
  | .snapshot a :: r, .snapshot b :: r' => (∀ it, it ∈ a ↔ it ∈ b) ∧ chunksAgree r r'
  | c :: r, c' :: r' => c = c' ∧ chunksAgree r r'
  | _, _ => False

/-- what the reader must report for a history and its results: for each accepted call its chunks -/
def expectedChunks : List Op → List HResult → List HChunk
  | .snap t items :: ops, .ok :: rs => .tick t :: .snapshot items :: expectedChunks ops rs
  | .msg b :: ops, .ok :: rs => .message (pad4 b) :: expectedChunks ops rs
  | _ :: ops, _ :: rs => expectedChunks ops rs
  | _, _ => []

end Tw.DemoHl
