import Tw.Proofs.NetC01
import Tw.Props.C01

/-! C20 ∘ C01: what C01 says about two connections holds for a connection behind the endpoint. -/
namespace Tw.NetC01
open Tw.Conn Tw.Net Tw.NetSim

/-- the composition: along every run of the composite world whose ghost schedule is admissible for
C01, the vital payloads the endpoint reported for the peer at `addr` are a prefix of what the remote
submitted, the vital payloads the remote's connection delivered are a prefix of what `Net::send`
accepted for that peer, and the ghost's history of `b` is the endpoint's real one -/
theorem net_c01 (tl acc : Bool) (addr : Nat) (sched : List NMove) (w : NW tl)
    (hrun : nwRun addr (NW.init tl acc) sched = some w)
    (hok : nwOk addr (NW.init tl acc) sched = true)
    (hadm : admissible (World.init (proto6 tl)) (ghostSched addr (NW.init tl acc) sched) = true) :
    w.netVital <+: w.g.a.submittedVital ∧ w.g.a.deliveredVital <+: vitalOf w.netSub ∧
      w.netOut = w.g.b.out.map (·.pkt) := by
  have hc := coup_run sched _ w (coup_init tl acc addr) hok hrun
  have hg : NetSim.run (World.init (proto6 tl)) (ghostSched addr (NW.init tl acc) sched) = some w.g :=
    ghost_run sched _ w hrun
  have hsafe := Tw.Props.C01.C01_conn6 tl _ w.g hadm hg
  refine ⟨?_, ?_, hc.out⟩
  · rw [hc.vital]; exact hsafe.vital_ab
  · rw [hc.sub]; exact hsafe.vital_ba

end Tw.NetC01
