import Tw.Proofs.ConnTimers
import Tw.Proofs.ConnSafety7

/-!
# 0.7: the timer bounds hold in every reachable world

(`PendingConnect` reports no deadline — finding D23 — and is not constrained.)
-/
namespace Tw.NetSim.P7
open Tw.Conn Tw.Conn7 Tw.Time Tw.NetSim

def Timed (now : Nat) (c : Conn) : Prop :=
  match c.state with
  | .online _ _ o => SendDue now c.send ∧ RqDue now o
  | .token _ => SendDue now c.send
  | .connecting _ _ => SendDue now c.send
  | .pending _ _ => SendDue now c.send
  | _ => True

theorem Timed.mono {now now' : Nat} {c : Conn} (hn : now ≤ now') (h : Timed now c) : Timed now' c := by
  obtain ⟨st, snd⟩ := c
  cases st <;> simp only [Timed] at h ⊢
  · exact h.mono hn
  · exact h.mono hn
  · exact h.mono hn
  · exact ⟨h.1.mono hn, h.2.mono hn⟩

theorem tickAction_timed {env : Env} {c c' : Conn} {out : Out} (ht : tickAction env c = .ok (c', out))
    (hq : ∀ a b o, c.state = .online a b o → RqDue env.now o) : Timed env.now c' := by
  obtain ⟨st, snd⟩ := c
  cases st <;> simp only [tickAction] at ht
  case unconnected => injection ht with ht; injection ht with h1 _; subst h1; trivial
  case disconnected => injection ht with ht; injection ht with h1 _; subst h1; trivial
  case pendingConnect own => injection ht with ht; injection ht with h1 _; subst h1; trivial
  case token own =>
    split at ht
    · cases ht
    · injection ht with ht; injection ht with h1 _; subst h1; exact timerDue_after _ _
  case connecting own their =>
    split at ht
    · cases ht
    · injection ht with ht; injection ht with h1 _; subst h1; exact timerDue_after _ _
  case pending own their =>
    split at ht
    · cases ht
    · injection ht with ht; injection ht with h1 _; subst h1; exact timerDue_after _ _
  case online own their o =>
    split at ht
    · split at ht
      · cases ht
      · injection ht with ht; injection ht with h1 _; subst h1
        exact ⟨timerDue_after _ _, (hq own their o rfl).flush⟩
    · split at ht
      · cases ht
      · injection ht with ht; injection ht with h1 _; subst h1
        exact ⟨timerDue_after _ _, hq own their o rfl⟩

theorem timed_call7 (now : Nat) (draws : List Nat) (c : Conn) (cl : Call) (r : Ret Conn Packet)
    (hr : P7.call now draws c cl = .ok r) (h : Timed now c) : Timed now r.conn := by
  obtain ⟨st, snd⟩ := c
  cases cl with
  | connect =>
    simp only [P7.call] at hr
    split at hr
    · cases hr
    · rename_i c1 out hcon
      injection hr with hr; subst hr
      unfold connect at hcon
      cases st with
      | unconnected =>
        simp only at hcon
        split at hcon
        · cases hcon
        · exact tickAction_timed hcon (by intro a b o ho; cases ho)
      | _ => simp at hcon
  | send d v =>
    simp only [P7.call] at hr
    split at hr
    · cases hr
    · rename_i c1 res out hsend
      injection hr with hr; subst hr
      unfold Conn7.send at hsend
      cases st with
      | online own their o =>
        simp only at hsend
        split at hsend
        · cases hsend
        · rename_i o1 res' fl hos
          split at hsend
          · cases hsend
          · injection hsend with hsend; injection hsend with e1 _; subst e1
            exact ⟨h.1, h.2.send hos⟩
      | _ => simp at hsend
  | sendConnless d =>
    simp only [P7.call] at hr
    split at hr
    · cases hr
    · rename_i c1 res out hsend
      injection hr with hr; subst hr
      unfold Conn7.sendConnless at hsend
      cases st with
      | online own their o =>
        simp only at hsend
        split at hsend
        · injection hsend with hsend; injection hsend with e1 _; subst e1
          exact ⟨timerDue_after _ _, h.2⟩
        · split at hsend
          · cases hsend
          · injection hsend with hsend; injection hsend with e1 _; subst e1
            exact ⟨timerDue_after _ _, h.2⟩
      | _ => simp at hsend
  | flush =>
    simp only [P7.call] at hr
    split at hr
    · cases hr
    · rename_i c1 out hfl
      injection hr with hr; subst hr
      unfold Conn7.flush at hfl
      cases st with
      | online own their o =>
        simp only at hfl
        split at hfl
        · cases hfl
        · injection hfl with hfl; injection hfl with e1 _; subst e1
          exact ⟨timerDue_after _ _, h.2.flush⟩
      | _ => simp at hfl
  | tick =>
    simp only [P7.call] at hr
    split at hr
    · cases hr
    · rename_i c1 out htick
      injection hr with hr; subst hr
      unfold Conn7.tick at htick
      cases st with
      | online own their o =>
        simp only at htick
        split at htick
        · unfold resendConn at htick
          split at htick
          · cases htick
          · rename_i o1 send1 fl hrs
            split at htick
            · cases htick
            · injection htick with htick; injection htick with e1 _; subst e1
              exact ⟨h.1.resend hrs, h.2.resend hrs⟩
        · split at htick
          · exact tickAction_timed htick (by
              intro a b o' ho; injection ho with _ _ ho; subst ho; exact h.2)
          · injection htick with htick; injection htick with e1 _; subst e1; exact h
      | _ =>
        simp only [Bool.false_eq_true, if_false] at htick
        split at htick
        · exact tickAction_timed htick (by intro a b o' ho; cases ho)
        · injection htick with htick; injection htick with e1 _; subst e1; exact h
  | disconnect reason =>
    simp only [P7.call] at hr
    split at hr
    · cases hr
    · rename_i c1 out hdis
      injection hr with hr; subst hr
      unfold Conn7.disconnect at hdis
      split at hdis
      · cases hdis
      · split at hdis
        · cases hdis
        · split at hdis
          · cases hdis
          · injection hdis with hdis; injection hdis with e1 _; subst e1; trivial

theorem feedBody_timed {env : Env} {c c1 : Conn} {q : Packet} {out : Out}
    (h : Timed env.now c) (hf : feedBody env c q = .ok (c1, out)) : Timed env.now c1 := by
  obtain ⟨st, snd⟩ := c
  have hnoop : ∀ (evs : List Event), feedBody env ⟨st, snd⟩ q = .ok (⟨st, snd⟩, { events := evs }) →
      Timed env.now c1 := by
    intro evs hk
    rw [hk] at hf
    injection hf with hf; injection hf with e1 _; subst e1; exact h
  cases q with
  | connless a b d => exact hnoop [] (by simp [feedBody])
  | chunks ack tk rr n cs =>
    have hrecv : ∀ (own their : Nat) (o : Online), RqDue env.now o → SendDue env.now snd →
        (match o.receive Conn7.cfg env.now snd rr cs with
          | .error e => .error e
          | .ok (o1, send1, fl, evs) =>
            match emit (fl.map (ofFlushed their)) with
            | .error e => .error e
            | .ok ps => .ok (⟨.online own their o1, send1⟩, { sent := ps, events := evs })) = Except.ok (c1, out) →
        Timed env.now c1 := by
      intro own their o hq hs hk
      split at hk
      · cases hk
      · rename_i o1 send1 fl evs hrc
        split at hk
        · cases hk
        · injection hk with hk; injection hk with e1 _; subst e1
          obtain ⟨a, b⟩ := receive_timers hrc hq hs
          exact ⟨b, a⟩
    cases st with
    | online own their o => simp only [feedBody] at hf; exact hrecv own their o h.2 h.1 hf
    | pending own their => simp only [feedBody] at hf; exact hrecv own their .new (RqDue.new _) h hf
    | unconnected => exact hnoop [] (by simp [feedBody])
    | token own => exact hnoop [] (by simp [feedBody])
    | pendingConnect own => exact hnoop [] (by simp [feedBody])
    | connecting own their => exact hnoop [] (by simp [feedBody])
    | disconnected => exact hnoop [] (by simp [feedBody])
  | control ack tk ctl =>
    cases ctl with
    | keepAlive => exact hnoop [] (by simp [feedBody])
    | close reason =>
      simp only [feedBody] at hf
      injection hf with hf; injection hf with e1 _; subst e1; trivial
    | accept =>
      cases st with
      | connecting own their =>
        simp only [feedBody] at hf
        injection hf with hf; injection hf with e1 _; subst e1
        exact ⟨h, RqDue.new _⟩
      | online own their o => exact hnoop [] (by simp [feedBody])
      | pending own their => exact hnoop [] (by simp [feedBody])
      | unconnected => exact hnoop [] (by simp [feedBody])
      | token own => exact hnoop [] (by simp [feedBody])
      | pendingConnect own => exact hnoop [] (by simp [feedBody])
      | disconnected => exact hnoop [] (by simp [feedBody])
    | connect their =>
      cases st with
      | pendingConnect own =>
        simp only [feedBody] at hf
        exact tickAction_timed hf (by intro a b o ho; cases ho)
      | online own their o => exact hnoop [] (by simp [feedBody])
      | pending own their => exact hnoop [] (by simp [feedBody])
      | unconnected => exact hnoop [] (by simp [feedBody])
      | token own => exact hnoop [] (by simp [feedBody])
      | connecting own their => exact hnoop [] (by simp [feedBody])
      | disconnected => exact hnoop [] (by simp [feedBody])
    | token their =>
      cases st with
      | unconnected =>
        cases htk : tokenRandom env.draws with
        | none => simp [feedBody, htk] at hf
        | some t0 =>
          simp only [feedBody, htk] at hf
          split at hf
          · cases hf
          · injection hf with hf; injection hf with e1 _; subst e1; trivial
      | pendingConnect own =>
        simp only [feedBody] at hf
        split at hf
        · cases hf
        · injection hf with hf; injection hf with e1 _; subst e1; trivial
      | token own =>
        simp only [feedBody] at hf
        exact tickAction_timed hf (by intro a b o ho; cases ho)
      | online own their o => exact hnoop [] (by simp [feedBody])
      | pending own their => exact hnoop [] (by simp [feedBody])
      | connecting own their => exact hnoop [] (by simp [feedBody])
      | disconnected => exact hnoop [] (by simp [feedBody])

theorem timed_recv7 (now : Nat) (draws : List Nat) (c : Conn) (p : Packet) (alt : Unit)
    (r : Ret Conn Packet) (hr : P7.recv now draws c p alt = .ok r) (h : Timed now c) : Timed now r.conn := by
  unfold P7.recv at hr
  split at hr
  · cases hr
  · rename_i c1 out hf
    injection hr with hr; subst hr
    simp only
    have hquiet : ∀ (o : Out), (Except.ok (c, o) : Res) = Except.ok (c1, out) → Timed now c1 := by
      intro o hk
      injection hk with hk; injection hk with e1 _; subst e1; exact h
    have hbody : ∀ (ack : Nat),
        (match c.state with
          | .online own their o =>
            match o.feedAck ack with
            | .error e => .error e
            | .ok o1 => feedBody ⟨now, draws⟩ { c with state := .online own their o1 } p
          | _ => feedBody ⟨now, draws⟩ c p) = Except.ok (c1, out) → Timed now c1 := by
      intro ack hk
      cases hst : c.state with
      | online own their o =>
        simp only [hst] at hk
        split at hk
        · cases hk
        · rename_i o1 hfa
          refine feedBody_timed (env := ⟨now, draws⟩) ?_ hk
          have ho1 := Tw.NetSim.feedAck_eq hfa
          have hh : SendDue now c.send ∧ RqDue now o := by
            have := h; simp only [Timed, hst] at this; exact this
          simp only [Timed]
          exact ⟨hh.1, by rw [ho1]; exact hh.2.ackChunks _⟩
      | unconnected => simp only [hst] at hk; exact feedBody_timed (env := ⟨now, draws⟩) h hk
      | token own => simp only [hst] at hk; exact feedBody_timed (env := ⟨now, draws⟩) h hk
      | pendingConnect own => simp only [hst] at hk; exact feedBody_timed (env := ⟨now, draws⟩) h hk
      | connecting own their => simp only [hst] at hk; exact feedBody_timed (env := ⟨now, draws⟩) h hk
      | pending own their => simp only [hst] at hk; exact feedBody_timed (env := ⟨now, draws⟩) h hk
      | disconnected => simp only [hst] at hk; exact feedBody_timed (env := ⟨now, draws⟩) h hk
    unfold feed at hf
    cases p with
    | connless a b d =>
      simp only at hf
      split at hf
      · exact hquiet _ hf
      · split at hf
        · exact hquiet _ hf
        · exact hquiet _ hf
    | control ack tk ctl =>
      simp only at hf
      split at hf
      · exact hquiet _ hf
      · exact hbody ack hf
    | chunks ack tk rr n cs =>
      simp only at hf
      split at hf
      · exact hquiet _ hf
      · exact hbody ack hf

theorem loct7 : LocT proto7 Timed where
  init := fun _ => trivial
  mono := fun _ _ _ hn h => Timed.mono hn h
  call := fun now draws c cl r hr h => timed_call7 now draws c cl r hr h
  recv := fun now draws c p alt r hr h => timed_recv7 now draws c p alt r hr h

end Tw.NetSim.P7
