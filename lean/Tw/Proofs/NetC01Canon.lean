import Tw.Model.NetSim

/-! Every connect request a genuine 0.6 connection writes is `control 0 (some TOKEN_NONE) connect`
(needed to identify the canned packet of `Net::accept` with the client's own datagram). -/
namespace Tw.NetC01
open Tw.Conn Tw.Conn6 Tw.Time

/-- a connect request as a genuine connection writes it -/
def Canon (p : Packet) : Prop := ∀ ack tok, p = .control ack tok .connect → ack = 0 ∧ tok = some TOKEN_NONE

theorem canon_chunks (tok : Option Nat) (fl : List Flushed) : ∀ p ∈ fl.map (ofFlushed tok), Canon p := by
  intro p hp ack t h
  obtain ⟨f, _, rfl⟩ := List.mem_map.1 hp
  simp [ofFlushed] at h

theorem canon_emit {ps qs : List Packet} (h : emit ps = .ok qs) (hc : ∀ p ∈ ps, Canon p) : ∀ p ∈ qs, Canon p := by
  unfold emit at h
  split at h
  · simp at h; subst h; exact hc
  · simp at h

theorem canon_sendControl {st : State} {ctl : Control} {ps : List Packet} (h : sendControl st ctl = .ok ps)
    (hc : ctl = .connect → st = .connecting) : ∀ p ∈ ps, Canon p := by
  unfold sendControl at h
  cases hcp : controlPacket st ctl with
  | error e => simp [hcp] at h
  | ok p =>
    simp only [hcp] at h
    apply canon_emit h
    intro q hq ack tok hqe
    simp at hq
    subst hq
    subst hqe
    cases st with
    | connecting => simp [controlPacket] at hcp; exact ⟨hcp.1.symm, hcp.2.1.symm⟩
    | disconnected => simp [controlPacket] at hcp
    | unconnected => simp [controlPacket] at hcp; have := hc hcp.2.2; cases this
    | pending t => simp [controlPacket] at hcp; have := hc hcp.2.2; cases this
    | online t o => simp [controlPacket] at hcp; have := hc hcp.2.2; cases this

theorem canon_tickAction {env : Env} {c c' : Conn} {o : Out} (h : tickAction env c = .ok (c', o)) :
    ∀ p ∈ o.sent, Canon p := by
  obtain ⟨st, sd⟩ := c
  cases st with
  | unconnected => simp [tickAction] at h; rw [← h.2]; simp
  | disconnected => simp [tickAction] at h; rw [← h.2]; simp
  | connecting =>
    simp only [tickAction] at h
    cases hs : sendControl .connecting .connect with
    | error e => simp [hs] at h
    | ok ps => simp [hs] at h; rw [← h.2]; exact canon_sendControl hs (fun _ => rfl)
  | pending t =>
    simp only [tickAction] at h
    cases hs : sendControl (.pending t) .connectAccept with
    | error e => simp [hs] at h
    | ok ps => simp [hs] at h; rw [← h.2]; exact canon_sendControl hs (by simp)
  | online t o =>
    simp only [tickAction] at h
    split at h
    · cases hs : emit (List.map (ofFlushed t) o.flush.2) with
      | error e => simp [hs] at h
      | ok ps => simp [hs] at h; rw [← h.2]; exact canon_emit hs (canon_chunks _ _)
    · cases hs : sendControl (.online t o) .keepAlive with
      | error e => simp [hs] at h
      | ok ps => simp [hs] at h; rw [← h.2]; exact canon_sendControl hs (by simp)

theorem canon_connect {env : Env} {c c' : Conn} {o : Out} (h : connect env c = .ok (c', o)) :
    ∀ p ∈ o.sent, Canon p := by
  unfold connect at h
  split at h
  · exact canon_tickAction h
  · simp at h

theorem canon_disconnect {env : Env} {c c' : Conn} {r : Bytes} {o : Out} (h : disconnect env c r = .ok (c', o)) :
    ∀ p ∈ o.sent, Canon p := by
  unfold disconnect at h
  split at h
  · simp at h
  · split at h
    · simp at h
    · cases hs : sendControl c.state (.close r) with
      | error e => simp [hs] at h
      | ok ps => simp [hs] at h; rw [← h.2]; exact canon_sendControl hs (by simp)

theorem canon_flush {env : Env} {c c' : Conn} {o : Out} (h : flush env c = .ok (c', o)) :
    ∀ p ∈ o.sent, Canon p := by
  unfold flush at h
  split at h
  · rename_i t on _
    cases hs : emit (List.map (ofFlushed t) on.flush.2) with
    | error e => simp [hs] at h
    | ok ps => simp [hs] at h; rw [← h.2]; exact canon_emit hs (canon_chunks _ _)
  · simp at h

theorem canon_send {env : Env} {c c' : Conn} {d : Bytes} {v : Bool} {r : SendRes} {o : Out}
    (h : send env c d v = .ok (c', r, o)) : ∀ p ∈ o.sent, Canon p := by
  unfold send at h
  split at h
  · rename_i t on _
    cases h1 : on.send cfg env.now d v with
    | error e => simp [h1] at h
    | ok w =>
      obtain ⟨o1, r1, fl⟩ := w
      simp only [h1] at h
      cases hs : emit (List.map (ofFlushed t) fl) with
      | error e => simp [hs] at h
      | ok ps => simp [hs] at h; rw [← h.2.2]; exact canon_emit hs (canon_chunks _ _)
  · simp at h

theorem canon_sendConnless {env : Env} {c c' : Conn} {d : Bytes} {r : SendRes} {o : Out}
    (h : sendConnless env c d = .ok (c', r, o)) : ∀ p ∈ o.sent, Canon p := by
  unfold sendConnless at h
  split at h
  · split at h
    · simp at h; rw [← h.2.2]; simp
    · cases hs : emit [Packet.connless d] with
      | error e => simp [hs] at h
      | ok ps =>
        simp [hs] at h; rw [← h.2.2]
        apply canon_emit hs
        intro p hp ack tok hpe
        simp at hp; subst hp; cases hpe
  · simp at h

theorem canon_resendConn {env : Env} {t : Option Nat} {on : Online} {sd : Timeout} {c' : Conn} {o : Out}
    (h : resendConn env t on sd = .ok (c', o)) : ∀ p ∈ o.sent, Canon p := by
  unfold resendConn at h
  cases h1 : on.resend cfg env.now sd with
  | error e => simp [h1] at h
  | ok w =>
    obtain ⟨o1, s1, fl⟩ := w
    simp only [h1] at h
    cases hs : emit (List.map (ofFlushed t) fl) with
    | error e => simp [hs] at h
    | ok ps => simp [hs] at h; rw [← h.2]; exact canon_emit hs (canon_chunks _ _)

theorem canon_tick {env : Env} {c c' : Conn} {o : Out} (h : tick env c = .ok (c', o)) :
    ∀ p ∈ o.sent, Canon p := by
  have plain : ∀ {c0 : Conn}, (if c0.send.triggered env.now = true then tickAction env { c0 with send := .inactive }
      else Except.ok (c0, ({} : Out))) = .ok (c', o) → ∀ p ∈ o.sent, Canon p := by
    intro c0 h0
    split at h0
    · exact canon_tickAction h0
    · simp only [Except.ok.injEq, Prod.mk.injEq] at h0; rw [← h0.2]; simp
  obtain ⟨st, sd⟩ := c
  cases st with
  | online t on =>
    simp only [tick] at h
    split at h
    · exact canon_resendConn h
    · exact plain (c0 := ⟨.online t on, sd⟩) h
  | unconnected => simp only [tick, Bool.false_eq_true, if_false] at h; exact plain (c0 := ⟨.unconnected, sd⟩) h
  | connecting => simp only [tick, Bool.false_eq_true, if_false] at h; exact plain (c0 := ⟨.connecting, sd⟩) h
  | pending t => simp only [tick, Bool.false_eq_true, if_false] at h; exact plain (c0 := ⟨.pending t, sd⟩) h
  | disconnected => simp only [tick, Bool.false_eq_true, if_false] at h; exact plain (c0 := ⟨.disconnected, sd⟩) h

theorem canon_feedBody {env : Env} {c c' : Conn} {tok : Option Nat} {p : Packet} {o : Out}
    (h : feedBody env c tok p = .ok (c', o)) : ∀ q ∈ o.sent, Canon q := by
  cases p with
  | connless d => simp [feedBody] at h; rw [← h.2]; simp
  | chunks ack t rr n cs =>
    simp only [feedBody] at h
    split at h
    · simp at h; rw [← h.2]; simp
    · rename_i t0 on _
      cases h1 : on.receive cfg env.now c.send rr cs with
      | error e => simp [h1] at h
      | ok w =>
        obtain ⟨o1, s1, fl, evs⟩ := w
        simp only [h1] at h
        cases hs : emit (List.map (ofFlushed t0) fl) with
        | error e => simp [hs] at h
        | ok ps => simp [hs] at h; rw [← h.2]; exact canon_emit hs (canon_chunks _ _)
  | control ack t ctl =>
    cases ctl with
    | keepAlive => simp [feedBody] at h; rw [← h.2]; simp
    | accept => simp [feedBody] at h; rw [← h.2]; simp
    | close r => simp [feedBody] at h; rw [← h.2]; simp
    | connect =>
      simp only [feedBody] at h
      split at h
      · split at h
        · exact canon_tickAction h
        · split at h
          · split at h
            · simp at h
            · exact canon_tickAction h
          · simp at h; rw [← h.2]; simp
      · simp at h; rw [← h.2]; simp
    | connectAccept =>
      simp only [feedBody] at h
      split at h
      · cases hs : sendControl (State.online tok Online.new) .accept with
        | error e => simp [hs] at h
        | ok ps => simp [hs] at h; rw [← h.2]; exact canon_sendControl hs (by simp)
      · simp at h; rw [← h.2]; simp

theorem canon_feed {env : Env} {c c' : Conn} {rd : Option Bool → Option Packet} {o : Out}
    (h : feed env c rd = .ok (c', o)) : ∀ q ∈ o.sent, Canon q := by
  unfold feed at h
  split at h
  · simp at h; rw [← h.2]; simp
  · split at h
    · exact canon_feedBody h
    · split at h
      · simp at h; rw [← h.2]; simp
      · split at h
        · split at h
          · simp at h
          · exact canon_feedBody h
        · exact canon_feedBody h

/-! ### more shape facts about the 0.6 connection -/

/-- `tick_action` never makes a connection `Unconnected` -/
theorem nu_tickAction {env : Env} {c c' : Conn} {o : Out} (h : tickAction env c = .ok (c', o))
    (hn : c.state ≠ .unconnected) : c'.state ≠ .unconnected ∧ o.events = [] := by
  obtain ⟨st, sd⟩ := c
  cases st with
  | unconnected => exact absurd rfl hn
  | disconnected => simp [tickAction] at h; rw [← h.1, ← h.2]; simp
  | connecting =>
    simp only [tickAction] at h
    cases hs : sendControl .connecting .connect with
    | error e => simp [hs] at h
    | ok ps => simp [hs] at h; rw [← h.1, ← h.2]; simp
  | pending t =>
    simp only [tickAction] at h
    cases hs : sendControl (.pending t) .connectAccept with
    | error e => simp [hs] at h
    | ok ps => simp [hs] at h; rw [← h.1, ← h.2]; simp
  | online t o =>
    simp only [tickAction] at h
    split at h
    · cases hs : emit (List.map (ofFlushed t) o.flush.2) with
      | error e => simp [hs] at h
      | ok ps => simp [hs] at h; rw [← h.1, ← h.2]; simp
    · cases hs : sendControl (.online t o) .keepAlive with
      | error e => simp [hs] at h
      | ok ps => simp [hs] at h; rw [← h.1, ← h.2]; simp

theorem nu_resendConn {env : Env} {t : Option Nat} {on : Online} {sd : Timeout} {c' : Conn} {o : Out}
    (h : resendConn env t on sd = .ok (c', o)) : c'.state ≠ .unconnected ∧ o.events = [] := by
  unfold resendConn at h
  cases h1 : on.resend cfg env.now sd with
  | error e => simp [h1] at h
  | ok w =>
    obtain ⟨o1, s1, fl⟩ := w
    simp only [h1] at h
    cases hs : emit (List.map (ofFlushed t) fl) with
    | error e => simp [hs] at h
    | ok ps => simp [hs] at h; rw [← h.1, ← h.2]; simp

/-- `tick` reports no events, and never makes a connection `Unconnected` -/
theorem tick_shape {env : Env} {c c' : Conn} {o : Out} (h : tick env c = .ok (c', o)) :
    o.events = [] ∧ (c.state ≠ .unconnected → c'.state ≠ .unconnected) := by
  have plain : ∀ {c0 : Conn}, (if c0.send.triggered env.now = true then tickAction env { c0 with send := .inactive }
      else Except.ok (c0, ({} : Out))) = .ok (c', o) →
      o.events = [] ∧ (c0.state ≠ .unconnected → c'.state ≠ .unconnected) := by
    intro c0 h0
    split at h0
    · by_cases hu : c0.state = .unconnected
      · obtain ⟨st, sd⟩ := c0
        simp only at hu
        subst hu
        simp [tickAction] at h0
        rw [← h0.2]; simp
      · have := nu_tickAction h0 hu
        exact ⟨this.2, fun _ => this.1⟩
    · simp only [Except.ok.injEq, Prod.mk.injEq] at h0; rw [← h0.1, ← h0.2]; simp
  obtain ⟨st, sd⟩ := c
  cases st with
  | online t on =>
    simp only [tick] at h
    split at h
    · have := nu_resendConn h; exact ⟨this.2, fun _ => this.1⟩
    · exact plain (c0 := ⟨.online t on, sd⟩) h
  | unconnected => simp only [tick, Bool.false_eq_true, if_false] at h; exact plain (c0 := ⟨.unconnected, sd⟩) h
  | connecting => simp only [tick, Bool.false_eq_true, if_false] at h; exact plain (c0 := ⟨.connecting, sd⟩) h
  | pending t => simp only [tick, Bool.false_eq_true, if_false] at h; exact plain (c0 := ⟨.pending t, sd⟩) h
  | disconnected => simp only [tick, Bool.false_eq_true, if_false] at h; exact plain (c0 := ⟨.disconnected, sd⟩) h

theorem nu_feedBody {env : Env} {c c' : Conn} {tok : Option Nat} {p : Packet} {o : Out}
    (h : feedBody env c tok p = .ok (c', o)) (hn : c.state ≠ .unconnected) : c'.state ≠ .unconnected := by
  cases p with
  | connless d => simp [feedBody] at h; rw [← h.1]; exact hn
  | chunks ack t rr n cs =>
    simp only [feedBody] at h
    split at h
    · simp at h; rw [← h.1]; exact hn
    · rename_i t0 on _
      cases h1 : on.receive cfg env.now c.send rr cs with
      | error e => simp [h1] at h
      | ok w =>
        obtain ⟨o1, s1, fl, evs⟩ := w
        simp only [h1] at h
        cases hs : emit (List.map (ofFlushed t0) fl) with
        | error e => simp [hs] at h
        | ok ps => simp [hs] at h; rw [← h.1]; simp
  | control ack t ctl =>
    cases ctl with
    | keepAlive => simp [feedBody] at h; rw [← h.1]; exact hn
    | accept => simp [feedBody] at h; rw [← h.1]; exact hn
    | close r => simp [feedBody] at h; rw [← h.1]; simp
    | connect =>
      simp only [feedBody] at h
      first
        | (split at h
           · rename_i hu; exact absurd hu hn
           · simp at h; rw [← h.1]; exact hn)
        | (simp at h; rw [← h.1]; exact hn)
    | connectAccept =>
      simp only [feedBody] at h
      split at h
      · cases hs : sendControl (State.online tok Online.new) .accept with
        | error e => simp [hs] at h
        | ok ps => simp [hs] at h; rw [← h.1]; simp
      · simp at h; rw [← h.1]; exact hn

/-- `feed` never makes a connection `Unconnected` -/
theorem nu_feed {env : Env} {c c' : Conn} {rd : Option Bool → Option Packet} {o : Out}
    (h : feed env c rd = .ok (c', o)) (hn : c.state ≠ .unconnected) : c'.state ≠ .unconnected := by
  unfold feed at h
  split at h
  · simp at h; rw [← h.1]; exact hn
  · split at h
    · exact nu_feedBody h hn
    · split at h
      · simp at h; rw [← h.1]; exact hn
      · split at h
        · split at h
          · simp at h
          · exact nu_feedBody h (by simp)
        · exact nu_feedBody h hn

/-- `feed` looks at the reader's result only under the connection's own token hint -/
theorem feed_congr (env : Env) (c : Conn) {rd rd' : Option Bool → Option Packet} (h : rd c.hint = rd' c.hint) :
    feed env c rd = feed env c rd' := by
  unfold feed; rw [h]

/-- `connect` on a fresh connection leaves it `Connecting` -/
theorem nu_connect {env : Env} {c' : Conn} {o : Out} (h : connect env Conn.new = .ok (c', o)) :
    c'.state ≠ .unconnected := by
  simp only [connect, Conn.new] at h
  exact (nu_tickAction h (by simp)).1

theorem nu_send {env : Env} {c c' : Conn} {d : Bytes} {v : Bool} {r : SendRes} {o : Out}
    (h : send env c d v = .ok (c', r, o)) : c'.state ≠ .unconnected := by
  unfold send at h
  split at h
  · rename_i t on _
    cases h1 : on.send cfg env.now d v with
    | error e => simp [h1] at h
    | ok w =>
      obtain ⟨o1, r1, fl⟩ := w
      simp only [h1] at h
      cases hs : emit (List.map (ofFlushed t) fl) with
      | error e => simp [hs] at h
      | ok ps => simp [hs] at h; rw [← h.1]; simp
  · simp at h

theorem nu_flush {env : Env} {c c' : Conn} {o : Out} (h : flush env c = .ok (c', o)) :
    c'.state ≠ .unconnected := by
  unfold flush at h
  split at h
  · rename_i t on _
    cases hs : emit (List.map (ofFlushed t) on.flush.2) with
    | error e => simp [hs] at h
    | ok ps => simp [hs] at h; rw [← h.1]; simp
  · simp at h

end Tw.NetC01
