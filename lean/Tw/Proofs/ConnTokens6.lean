import Tw.Proofs.ConnSafety6

/-!
# 0.6: the two endpoints agree on the token

What a call or a delivery can do to the handshake state and which `Connect` / `ConnectAccept`
datagrams it emits (`Trans`), then the world invariant `Agree6`: an online (or pending) endpoint's
token is the token of every `ConnectAccept` it sent; a connecting side went online with the token of
a `ConnectAccept` of the peer's history; `ConnectAccept`s are only sent in answer to a `Connect` of
the peer; nobody sends both.  Consequence (`agree6`): when both sides are online (or one online, one
pending) their tokens are equal, so neither drops the other's datagrams.
-/
namespace Tw.NetSim.P6
open Tw.Conn Tw.Conn6 Tw.Time Tw.NetSim

def isConnect : Packet → Bool
  | .control _ _ .connect => true
  | _ => false

/-- the token of a `ConnectAccept` -/
def caTok : Packet → Option (Option Nat)
  | .control _ t .connectAccept => some t
  | _ => none

/-- the token `send_control` attaches -/
def tokOf : State → Option Nat
  | .unconnected => none
  | .connecting => some TOKEN_NONE
  | .pending t => t
  | .online t _ => t
  | .disconnected => none

theorem sendControl_eq {st : State} {ctl : Control} {ps : List Packet} (h : sendControl st ctl = .ok ps) :
    ps = [.control (ackOf st) (tokOf st) ctl] := by
  unfold sendControl at h
  cases st <;> simp only [controlPacket] at h
  all_goals first
    | cases h
    | (have := emit_ok h; subst this; rfl)

/-- what one call / delivery does to the handshake: `rx` is the packet `feed` processed, if any -/
structure Trans (st st' : State) (sent : List Packet) (rx : Option Packet) : Prop where
  t1 : ∀ p ∈ sent, isConnect p = true → st' = .connecting
  t2 : ∀ p ∈ sent, ∀ t, caTok p = some t → st' = .pending t ∧
    (st = .pending t ∨ (st = .unconnected ∧ ∃ q, rx = some q ∧ isConnect q = true))
  t3 : st' = .connecting → st = .connecting ∨ (st = .unconnected ∧ ∃ p ∈ sent, isConnect p = true)
  t4 : ∀ t, st' = .pending t → st = .pending t ∨ (st = .unconnected ∧ ∃ p ∈ sent, caTok p = some t)
  t5 : ∀ t o, st' = .online t o → (∃ o0, st = .online t o0) ∨ st = .pending t ∨
    (st = .connecting ∧ ∃ q, rx = some q ∧ caTok q = some t)
  t6 : st' = .unconnected → st = .unconnected

theorem Trans.same (st : State) (rx : Option Packet) (sent : List Packet)
    (hs : ∀ p ∈ sent, isConnect p = false ∧ caTok p = none) : Trans st st sent rx := by
  refine ⟨?_, ?_, fun h => Or.inl h, fun t h => Or.inl h, fun t o h => Or.inl ⟨o, h⟩, id⟩
  · intro p hp hc; rw [(hs p hp).1] at hc; cases hc
  · intro p hp t hc; rw [(hs p hp).2] at hc; cases hc

/-- within the online state, or into the disconnected state: no handshake datagram -/
theorem Trans.quiet {st st' : State} (rx : Option Packet) (sent : List Packet)
    (hs : ∀ p ∈ sent, isConnect p = false ∧ caTok p = none)
    (h : st' = .disconnected ∨ ∃ t o o', st = .online t o ∧ st' = .online t o') : Trans st st' sent rx := by
  refine ⟨?_, ?_, ?_, ?_, ?_, ?_⟩
  · intro p hp hc; rw [(hs p hp).1] at hc; cases hc
  · intro p hp t hc; rw [(hs p hp).2] at hc; cases hc
  · intro h'; rcases h with h | ⟨t, o, o', _, h⟩ <;> rw [h] at h' <;> cases h'
  · intro t h'; rcases h with h | ⟨t0, o, o', _, h⟩ <;> rw [h] at h' <;> cases h'
  · intro t o h'
    rcases h with h | ⟨t0, o0, o', h0, h⟩
    · rw [h] at h'; cases h'
    · rw [h] at h'; injection h' with e1 _; subst e1; exact Or.inl ⟨o0, h0⟩
  · intro h'; rcases h with h | ⟨t, o, o', _, h⟩ <;> rw [h] at h' <;> cases h'

theorem flushed_quiet (t : Option Nat) {fl : List Flushed} {ps : List Packet}
    (hem : emit (fl.map (ofFlushed t)) = .ok ps) : ∀ p ∈ ps, isConnect p = false ∧ caTok p = none := by
  have := emit_ok hem; subst this
  intro p hp
  simp only [List.mem_map] at hp
  obtain ⟨f, _, rfl⟩ := hp
  exact ⟨rfl, rfl⟩

theorem tickAction_trans {env : Env} {c c' : Conn} {out : Out} (rx : Option Packet)
    (ht : tickAction env c = .ok (c', out)) :
    Trans c.state c'.state out.sent rx ∧
    (c.state = .connecting → ∃ p ∈ out.sent, isConnect p = true) ∧
    (∀ t, c.state = .pending t → ∃ p ∈ out.sent, caTok p = some t) := by
  obtain ⟨st, snd⟩ := c
  cases st <;> simp only [tickAction] at ht
  case unconnected =>
    injection ht with ht; injection ht with h1 h2; subst h1 h2
    exact ⟨Trans.same _ _ _ (by simp), by simp, by simp⟩
  case disconnected =>
    injection ht with ht; injection ht with h1 h2; subst h1 h2
    exact ⟨Trans.same _ _ _ (by simp), by simp, by simp⟩
  case connecting =>
    split at ht
    · cases ht
    · rename_i ps hsc
      injection ht with ht; injection ht with h1 h2; subst h1 h2
      have := sendControl_eq hsc; subst this
      refine ⟨⟨fun _ _ _ => rfl, ?_, fun h => Or.inl h, fun t h => Or.inl h, fun t o h => Or.inl ⟨o, h⟩, id⟩,
        fun _ => ⟨.control (ackOf .connecting) (tokOf .connecting) .connect, by simp, rfl⟩, by simp⟩
      intro p hp t hc; simp at hp; subst hp; simp [caTok] at hc
  case pending t =>
    split at ht
    · cases ht
    · rename_i ps hsc
      injection ht with ht; injection ht with h1 h2; subst h1 h2
      have := sendControl_eq hsc; subst this
      refine ⟨⟨?_, ?_, fun h => Or.inl h, fun t h => Or.inl h, fun t o h => Or.inl ⟨o, h⟩, id⟩,
        by simp, ?_⟩
      · intro p hp hc; simp at hp; subst hp; simp [isConnect] at hc
      · intro p hp t' hc
        simp at hp; subst hp
        simp [caTok, tokOf] at hc
        subst hc
        exact ⟨rfl, Or.inl rfl⟩
      · intro t' ht'
        injection ht' with ht'; subst ht'
        exact ⟨.control (ackOf (.pending t)) (tokOf (.pending t)) .connectAccept, by simp, rfl⟩
  case online t o =>
    split at ht
    · split at ht
      · cases ht
      · rename_i ps hem
        injection ht with ht; injection ht with h1 h2; subst h1 h2
        exact ⟨Trans.quiet _ _ (flushed_quiet t hem) (Or.inr ⟨t, o, _, rfl, rfl⟩), by simp, by simp⟩
    · split at ht
      · cases ht
      · rename_i ps hsc
        injection ht with ht; injection ht with h1 h2; subst h1 h2
        have := sendControl_eq hsc; subst this
        exact ⟨Trans.same _ _ _ (by intro p hp; simp at hp; subst hp; exact ⟨rfl, rfl⟩), by simp, by simp⟩

theorem trans_call6 (now : Nat) (draws : List Nat) (c : Conn) (cl : Call) (r : Ret Conn Packet)
    (hr : P6.call now draws c cl = .ok r) : Trans c.state r.conn.state r.sent none := by
  obtain ⟨st, snd⟩ := c
  cases cl with
  | connect =>
    simp only [P6.call] at hr
    split at hr
    · cases hr
    · rename_i c1 out hcon
      injection hr with hr; subst hr
      unfold connect at hcon
      cases st with
      | unconnected =>
        simp only at hcon
        obtain ⟨tr, hc, _⟩ := tickAction_trans none hcon
        obtain ⟨p, hp, hpc⟩ := hc rfl
        have hst := tr.t1 p hp hpc
        refine ⟨tr.t1, ?_, fun _ => Or.inr ⟨rfl, p, hp, hpc⟩, ?_, ?_, ?_⟩
        · intro p' hp' t hc'
          have := (tr.t2 p' hp' t hc').1
          simp [hst] at this
        · intro t h'; simp [hst] at h'
        · intro t o h'; simp [hst] at h'
        · intro h'; simp [hst] at h'
      | _ => simp at hcon
  | send d v =>
    simp only [P6.call] at hr
    split at hr
    · cases hr
    · rename_i c1 res out hsend
      injection hr with hr; subst hr
      unfold Conn6.send at hsend
      cases st with
      | online t o =>
        simp only at hsend
        split at hsend
        · cases hsend
        · split at hsend
          · cases hsend
          · rename_i ps hem
            injection hsend with hsend; injection hsend with e1 e2; injection e2 with e2 e3
            subst e1 e3
            exact Trans.quiet _ _ (flushed_quiet t hem) (Or.inr ⟨t, o, _, rfl, rfl⟩)
      | _ => simp at hsend
  | sendConnless d =>
    simp only [P6.call] at hr
    split at hr
    · cases hr
    · rename_i c1 res out hsend
      injection hr with hr; subst hr
      unfold Conn6.sendConnless at hsend
      cases st with
      | online t o =>
        simp only at hsend
        split at hsend
        · injection hsend with hsend; injection hsend with e1 e2; injection e2 with e2 e3
          subst e1 e3
          exact Trans.same _ _ _ (by simp)
        · split at hsend
          · cases hsend
          · rename_i ps hem
            injection hsend with hsend; injection hsend with e1 e2; injection e2 with e2 e3
            subst e1 e3
            have := emit_ok hem; subst this
            exact Trans.same _ _ _ (by intro p hp; simp at hp; subst hp; exact ⟨rfl, rfl⟩)
      | _ => simp at hsend
  | flush =>
    simp only [P6.call] at hr
    split at hr
    · cases hr
    · rename_i c1 out hfl
      injection hr with hr; subst hr
      unfold Conn6.flush at hfl
      cases st with
      | online t o =>
        simp only at hfl
        split at hfl
        · cases hfl
        · rename_i ps hem
          injection hfl with hfl; injection hfl with e1 e2; subst e1 e2
          exact Trans.quiet _ _ (flushed_quiet t hem) (Or.inr ⟨t, o, _, rfl, rfl⟩)
      | _ => simp at hfl
  | tick =>
    simp only [P6.call] at hr
    split at hr
    · cases hr
    · rename_i c1 out htick
      injection hr with hr; subst hr
      unfold Conn6.tick at htick
      cases st with
      | online t o =>
        simp only at htick
        split at htick
        · unfold resendConn at htick
          split at htick
          · cases htick
          · split at htick
            · cases htick
            · rename_i ps hem
              injection htick with htick; injection htick with e1 e2; subst e1 e2
              exact Trans.quiet _ _ (flushed_quiet t hem) (Or.inr ⟨t, o, _, rfl, rfl⟩)
        · split at htick
          · exact (tickAction_trans none htick).1
          · injection htick with htick; injection htick with e1 e2; subst e1 e2
            exact Trans.same _ _ _ (by simp)
      | _ =>
        simp only [Bool.false_eq_true, if_false] at htick
        split at htick
        · exact (tickAction_trans none htick).1
        · injection htick with htick; injection htick with e1 e2; subst e1 e2
          exact Trans.same _ _ _ (by simp)
  | disconnect reason =>
    simp only [P6.call] at hr
    split at hr
    · cases hr
    · rename_i c1 out hdis
      injection hr with hr; subst hr
      unfold Conn6.disconnect at hdis
      split at hdis
      · cases hdis
      · split at hdis
        · cases hdis
        · split at hdis
          · cases hdis
          · rename_i ps hsc
            injection hdis with hdis; injection hdis with e1 e2; subst e1 e2
            have := sendControl_eq hsc; subst this
            exact Trans.quiet _ _ (by intro p hp; simp at hp; subst hp; exact ⟨rfl, rfl⟩) (Or.inl rfl)

/-! ## deliveries -/

/-- the token as the receiver reads it: a peer without tokens has it stripped on the wire -/
def wtok (tl : Bool) (t : Option Nat) : Option Nat := if tl then none else t

variable {tl : Bool}

theorem wireRead_kind {p q : Packet} {alt : Alt} {hint : Option Bool} (h : wireRead tl p alt hint = some q) :
    isConnect q = isConnect p ∧ ∀ t, caTok q = some t → ∃ tp, caTok p = some tp ∧ wtok tl tp = t := by
  unfold wireRead at h
  simp only at h
  have hs : isConnect (if tl = true then strip p else p) = isConnect p ∧
      ∀ t, caTok (if tl = true then strip p else p) = some t → ∃ tp, caTok p = some tp ∧ wtok tl tp = t := by
    cases tl with
    | true =>
      simp only [if_true]
      cases p with
      | control a t c => cases c <;> simp [strip, isConnect, caTok, wtok]
      | _ => simp [strip, isConnect, caTok]
    | false =>
      simp only [Bool.false_eq_true, if_false]
      exact ⟨by simp, fun t ht => ⟨t, ht, by simp [wtok]⟩⟩
  generalize (if tl = true then strip p else p) = p' at h hs
  cases p' with
  | connless d => simp only at h; injection h with h; rw [← h]; exact hs
  | chunks ack tk rr n cs =>
    simp only at h
    split at h
    · injection h with h; rw [← h]; exact hs
    · cases h
  | control ack tk ctl =>
    cases ctl with
    | close r =>
      simp only at h
      split at h
      · injection h with h; rw [← h]; exact hs
      · cases alt with
        | exact => simp only at h; injection h with h; rw [← h]; exact hs
        | error => cases h
        | close tok' r' =>
          simp only at h; injection h with h; rw [← h]
          exact ⟨by rw [← hs.1]; rfl, by intro t ht; simp [caTok] at ht⟩
    | keepAlive => simp only at h; split at h; (injection h with h; rw [← h]; exact hs); cases h
    | connect => simp only at h; split at h; (injection h with h; rw [← h]; exact hs); cases h
    | connectAccept => simp only at h; split at h; (injection h with h; rw [← h]; exact hs); cases h
    | accept => simp only at h; split at h; (injection h with h; rw [← h]; exact hs); cases h

/-- the acked online core does not matter for the handshake summary -/
theorem Trans.of_online {t : Option Nat} {o o1 : Online} {st' : State} {sent : List Packet} {rx : Option Packet}
    (h : Trans (.online t o1) st' sent rx) : Trans (.online t o) st' sent rx := by
  refine ⟨h.t1, ?_, ?_, ?_, ?_, ?_⟩
  · intro p hp t' hc
    obtain ⟨_, h2⟩ := h.t2 p hp t' hc
    rcases h2 with h2 | ⟨h2, _⟩ <;> cases h2
  · intro h'
    rcases h.t3 h' with h3 | ⟨h3, _⟩ <;> cases h3
  · intro t' h'
    rcases h.t4 t' h' with h4 | ⟨h4, _⟩ <;> cases h4
  · intro t' o' h'
    rcases h.t5 t' o' h' with ⟨o0, h5⟩ | h5 | ⟨h5, _⟩
    · injection h5 with e1 _; subst e1; exact Or.inl ⟨o, rfl⟩
    · cases h5
    · cases h5
  · intro h'; cases h.t6 h'

theorem feedBody_trans {env : Env} {c c1 : Conn} {token : Option Nat} {q : Packet} {out : Out}
    (htok : ∀ ack t ctl, q = .control ack t ctl → token = t)
    (hf : feedBody env c token q = .ok (c1, out)) : Trans c.state c1.state out.sent (some q) := by
  obtain ⟨st, snd⟩ := c
  have hnoop : ∀ (evs : List Event), feedBody env ⟨st, snd⟩ token q = .ok (⟨st, snd⟩, { events := evs }) →
      Trans st c1.state out.sent (some q) := by
    intro evs hk
    rw [hk] at hf
    injection hf with hf; injection hf with e1 e2; subst e1 e2
    exact Trans.same _ _ _ (by simp)
  -- an unconnected acceptor answers a `Connect`: it becomes pending and sends its `ConnectAccept`
  have hpend : ∀ (tk : Option Nat), st = .unconnected → isConnect q = true →
      tickAction env ⟨.pending tk, snd⟩ = .ok (c1, out) → Trans st c1.state out.sent (some q) := by
    intro tk hst hq ht
    obtain ⟨tr, _, hca⟩ := tickAction_trans (some q) ht
    obtain ⟨p0, hp0, hp0c⟩ := hca tk rfl
    have hst' : c1.state = .pending tk := (tr.t2 p0 hp0 tk hp0c).1
    refine ⟨?_, ?_, ?_, ?_, ?_, ?_⟩
    · intro p hp hc; have := tr.t1 p hp hc; rw [hst'] at this; cases this
    · intro p hp t hc
      exact ⟨(tr.t2 p hp t hc).1, Or.inr ⟨hst, q, rfl, hq⟩⟩
    · intro h'; rw [hst'] at h'; cases h'
    · intro t h'
      rw [hst'] at h'; injection h' with h'; subst h'
      exact Or.inr ⟨hst, p0, hp0, hp0c⟩
    · intro t o h'; rw [hst'] at h'; cases h'
    · intro h'; rw [hst'] at h'; cases h'
  cases q with
  | connless d => exact hnoop [.connless d] (by simp [feedBody])
  | chunks ack tk rr n cs =>
    have hrecv : ∀ (t : Option Nat) (o : Online), (st = .online t o ∨ st = .pending t) →
        (match o.receive Conn6.cfg env.now snd rr cs with
          | .error e => .error e
          | .ok (o1, send1, fl, evs) =>
            match emit (fl.map (ofFlushed t)) with
            | .error e => .error e
            | .ok ps => .ok (⟨.online t o1, send1⟩, { sent := ps, events := evs })) = Except.ok (c1, out) →
        Trans st c1.state out.sent (some (.chunks ack tk rr n cs)) := by
      intro t o hst hk
      split at hk
      · cases hk
      · split at hk
        · cases hk
        · rename_i ps hem
          injection hk with hk; injection hk with e1 e2; subst e1 e2
          have hq := flushed_quiet t hem
          refine ⟨?_, ?_, ?_, ?_, ?_, ?_⟩
          · intro p hp hc; rw [(hq p hp).1] at hc; cases hc
          · intro p hp t' hc; rw [(hq p hp).2] at hc; cases hc
          · intro h'; cases h'
          · intro t' h'; cases h'
          · intro t' o' h'
            injection h' with e1 _; subst e1
            rcases hst with hst | hst
            · exact Or.inl ⟨o, hst⟩
            · exact Or.inr (Or.inl hst)
          · intro h'; cases h'
    cases st with
    | online t o => simp only [feedBody] at hf; exact hrecv t o (Or.inl rfl) hf
    | pending t => simp only [feedBody] at hf; exact hrecv t .new (Or.inr rfl) hf
    | unconnected => exact hnoop [] (by simp [feedBody])
    | connecting => exact hnoop [] (by simp [feedBody])
    | disconnected => exact hnoop [] (by simp [feedBody])
  | control ack tk ctl =>
    have htk := htok ack tk ctl rfl
    subst htk
    cases ctl with
    | keepAlive => exact hnoop [] (by simp [feedBody])
    | accept => exact hnoop [] (by simp [feedBody])
    | close reason =>
      simp only [feedBody] at hf
      injection hf with hf; injection hf with e1 e2; subst e1 e2
      exact Trans.quiet _ _ (by simp) (Or.inl rfl)
    | connect =>
      cases st with
      | unconnected =>
        simp only [feedBody] at hf
        cases token with
        | none => simp only at hf; exact hpend none rfl rfl hf
        | some t0 =>
          simp only at hf
          split at hf
          · split at hf
            · cases hf
            · exact hpend _ rfl rfl hf
          · injection hf with hf; injection hf with e1 e2; subst e1 e2
            exact Trans.same _ _ _ (by simp)
      | online t o => exact hnoop [] (by simp [feedBody])
      | pending t => exact hnoop [] (by simp [feedBody])
      | connecting => exact hnoop [] (by simp [feedBody])
      | disconnected => exact hnoop [] (by simp [feedBody])
    | connectAccept =>
      cases st with
      | connecting =>
        simp only [feedBody] at hf
        split at hf
        · cases hf
        · rename_i ps hsc
          injection hf with hf; injection hf with e1 e2; subst e1 e2
          have := sendControl_eq hsc; subst this
          refine ⟨?_, ?_, ?_, ?_, ?_, ?_⟩
          · intro p hp hc; simp at hp; subst hp; simp [isConnect] at hc
          · intro p hp t' hc; simp at hp; subst hp; simp [caTok] at hc
          · intro h'; cases h'
          · intro t' h'; cases h'
          · intro t' o' h'
            injection h' with e1 _; subst e1
            exact Or.inr (Or.inr ⟨rfl, _, rfl, rfl⟩)
          · intro h'; cases h'
      | online t o => exact hnoop [] (by simp [feedBody])
      | pending t => exact hnoop [] (by simp [feedBody])
      | unconnected => exact hnoop [] (by simp [feedBody])
      | disconnected => exact hnoop [] (by simp [feedBody])

/-- a delivery: the handshake summary, with `rx` the packet as read (`none`: dropped before `feed`'s
body — read error or token mismatch) -/
theorem trans_recv6 (now : Nat) (draws : List Nat) (c : Conn) (p : Packet) (alt : Alt) (r : Ret Conn Packet)
    (hr : P6.recv tl now draws c p alt = .ok r) :
    ∃ rx, Trans c.state r.conn.state r.sent rx ∧
      ∀ q, rx = some q → isConnect q = isConnect p ∧ ∀ t, caTok q = some t → ∃ tp, caTok p = some tp ∧ wtok tl tp = t := by
  unfold P6.recv at hr
  split at hr
  · cases hr
  · rename_i c1 out hf
    injection hr with hr; subst hr
    simp only
    have hquiet : ∀ (o : Out), o.sent = [] → (Except.ok (c, o) : Res) = Except.ok (c1, out) →
        ∃ rx, Trans c.state c1.state out.sent rx ∧
          ∀ q, rx = some q → isConnect q = isConnect p ∧ ∀ t, caTok q = some t → ∃ tp, caTok p = some tp ∧ wtok tl tp = t := by
      intro o ho hk
      injection hk with hk; injection hk with e1 e2; subst e1 e2
      exact ⟨none, Trans.same _ _ _ (by simp [ho]), by intro q hq; cases hq⟩
    unfold feed at hf
    cases hq : wireRead tl p alt c.hint with
    | none => simp only [hq] at hf; exact hquiet _ rfl hf
    | some q =>
      have hk := wireRead_kind hq
      simp only [hq] at hf
      cases hta : q.tokenAck? with
      | none =>
        simp only [hta] at hf
        refine ⟨some q, feedBody_trans ?_ hf, by intro q' hq'; injection hq' with hq'; subst hq'; exact hk⟩
        intro ack t ctl hqq; subst hqq; simp [Packet.tokenAck?] at hta
      | some ta =>
        obtain ⟨token, ack⟩ := ta
        simp only [hta] at hf
        have htok : ∀ ack' t ctl, q = .control ack' t ctl → token = t := by
          intro ack' t ctl hqq; subst hqq; simp [Packet.tokenAck?] at hta; exact hta.1.symm
        split at hf
        · exact hquiet _ rfl hf
        · refine ⟨some q, ?_, by intro q' hq'; injection hq' with hq'; subst hq'; exact hk⟩
          cases hst : c.state with
          | online t o =>
            simp only [hst] at hf
            split at hf
            · cases hf
            · exact (feedBody_trans htok hf).of_online
          | unconnected => simp only [hst] at hf; rw [← hst]; exact feedBody_trans htok hf
          | connecting => simp only [hst] at hf; rw [← hst]; exact feedBody_trans htok hf
          | pending t => simp only [hst] at hf; rw [← hst]; exact feedBody_trans htok hf
          | disconnected => simp only [hst] at hf; rw [← hst]; exact feedBody_trans htok hf

/-! ## the world invariant -/

def hasConnect (e : End (Pr tl)) : Prop := ∃ dg ∈ e.out, isConnect dg.pkt = true
def hasCA (e : End (Pr tl)) (t : Option Nat) : Prop := ∃ dg ∈ e.out, caTok dg.pkt = some t

theorem hasConnect_book (e : End (Pr tl)) (r : Ret Conn Packet) (sub : List (Bytes × Bool)) :
    hasConnect (e.book r sub) ↔ hasConnect e ∨ ∃ p ∈ r.sent, isConnect p = true := by
  simp only [hasConnect, End.book, List.mem_append, List.mem_map]
  constructor
  · rintro ⟨dg, hdg | ⟨p, hp, rfl⟩, h⟩
    · exact Or.inl ⟨dg, hdg, h⟩
    · exact Or.inr ⟨p, hp, h⟩
  · rintro (⟨dg, hdg, h⟩ | ⟨p, hp, h⟩)
    · exact ⟨dg, Or.inl hdg, h⟩
    · exact ⟨_, Or.inr ⟨p, hp, rfl⟩, h⟩

theorem hasCA_book (e : End (Pr tl)) (r : Ret Conn Packet) (sub : List (Bytes × Bool)) (t : Option Nat) :
    hasCA (e.book r sub) t ↔ hasCA e t ∨ ∃ p ∈ r.sent, caTok p = some t := by
  simp only [hasCA, End.book, List.mem_append, List.mem_map]
  constructor
  · rintro ⟨dg, hdg | ⟨p, hp, rfl⟩, h⟩
    · exact Or.inl ⟨dg, hdg, h⟩
    · exact Or.inr ⟨p, hp, h⟩
  · rintro (⟨dg, hdg, h⟩ | ⟨p, hp, h⟩)
    · exact ⟨dg, Or.inl hdg, h⟩
    · exact ⟨_, Or.inr ⟨p, hp, rfl⟩, h⟩

/-- what the histories say about the handshake state of `e` (peer `peer`) -/
structure G (tl : Bool) (e peer : End (Pr tl)) : Prop where
  unc : e.conn.state = .unconnected → ¬ hasConnect e ∧ ∀ t, ¬ hasCA e t
  cng : e.conn.state = .connecting → hasConnect e ∧ ∀ t, ¬ hasCA e t
  pnd : ∀ t, e.conn.state = .pending t → ¬ hasConnect e ∧ hasCA e t ∧ ∀ t', hasCA e t' → t' = t
  onl : ∀ t o, e.conn.state = .online t o →
    (¬ hasConnect e ∧ hasCA e t ∧ ∀ t', hasCA e t' → t' = t) ∨
    (hasConnect e ∧ (∀ t', ¬ hasCA e t') ∧ ∃ tp, hasCA peer tp ∧ wtok tl tp = t)
  excl : hasConnect e → ∀ t, ¬ hasCA e t
  ans : ∀ t, hasCA e t → hasConnect peer

theorem G.peer_mono {e peer peer' : End (Pr tl)} (h : G tl e peer) (hout : ∀ dg ∈ peer.out, dg ∈ peer'.out) :
    G tl e peer' := by
  refine ⟨h.unc, h.cng, h.pnd, ?_, h.excl, ?_⟩
  · intro t o hst
    rcases h.onl t o hst with h1 | ⟨a, b, tp, ⟨dg, hdg, hc⟩, hw⟩
    · exact Or.inl h1
    · exact Or.inr ⟨a, b, tp, ⟨dg, hout dg hdg, hc⟩, hw⟩
  · intro t ht
    obtain ⟨dg, hdg, hc⟩ := h.ans t ht
    exact ⟨dg, hout dg hdg, hc⟩

theorem G.act {e peer : End (Pr tl)} (h : G tl e peer) {r : Ret Conn Packet} {rx : Option Packet}
    (tr : Trans e.conn.state r.conn.state r.sent rx)
    (hrx : ∀ q, rx = some q → (isConnect q = true → hasConnect peer) ∧
      ∀ t, caTok q = some t → ∃ tp, hasCA peer tp ∧ wtok tl tp = t)
    (sub : List (Bytes × Bool)) : G tl (e.book r sub) peer := by
  have hst' : (e.book r sub).conn.state = r.conn.state := rfl
  -- no new handshake datagram unless the new state is connecting / pending
  have noC : r.conn.state ≠ .connecting → (hasConnect (e.book r sub) ↔ hasConnect e) := by
    intro hne
    rw [hasConnect_book]
    exact ⟨fun hh => hh.elim id (fun ⟨p, hp, hc⟩ => absurd (tr.t1 p hp hc) hne), Or.inl⟩
  have noA : ∀ t, (∀ t', r.conn.state ≠ .pending t') → (hasCA (e.book r sub) t ↔ hasCA e t) := by
    intro t hne
    rw [hasCA_book]
    exact ⟨fun hh => hh.elim id (fun ⟨p, hp, hc⟩ => absurd (tr.t2 p hp t hc).1 (hne t)), Or.inl⟩
  refine ⟨?_, ?_, ?_, ?_, ?_, ?_⟩
  · intro hs
    rw [hst'] at hs
    have h0 := h.unc (tr.t6 hs)
    rw [noC (by rw [hs]; simp)]
    refine ⟨h0.1, fun t => ?_⟩
    rw [noA t (by intro t'; rw [hs]; simp)]
    exact h0.2 t
  · intro hs
    rw [hst'] at hs
    have hA : ∀ t, hasCA (e.book r sub) t ↔ hasCA e t := fun t => noA t (by intro t'; rw [hs]; simp)
    rcases tr.t3 hs with h3 | ⟨h3, p, hp, hc⟩
    · have h0 := h.cng h3
      exact ⟨(hasConnect_book e r sub).mpr (Or.inl h0.1), fun t => by rw [hA t]; exact h0.2 t⟩
    · have h0 := h.unc h3
      exact ⟨(hasConnect_book e r sub).mpr (Or.inr ⟨p, hp, hc⟩), fun t => by rw [hA t]; exact h0.2 t⟩
  · intro t hs
    rw [hst'] at hs
    rw [noC (by rw [hs]; simp)]
    have hall : ∀ t', (∃ p ∈ r.sent, caTok p = some t') → t' = t := by
      rintro t' ⟨p, hp, hc⟩
      have := (tr.t2 p hp t' hc).1
      rw [hs] at this; injection this with this; exact this.symm
    rcases tr.t4 t hs with h4 | ⟨h4, p, hp, hc⟩
    · have h0 := h.pnd t h4
      refine ⟨h0.1, (hasCA_book e r sub t).mpr (Or.inl h0.2.1), ?_⟩
      intro t' ht'
      rcases (hasCA_book e r sub t').mp ht' with ht' | ht'
      · exact h0.2.2 t' ht'
      · exact hall t' ht'
    · have h0 := h.unc h4
      refine ⟨h0.1, (hasCA_book e r sub t).mpr (Or.inr ⟨p, hp, hc⟩), ?_⟩
      intro t' ht'
      rcases (hasCA_book e r sub t').mp ht' with ht' | ht'
      · exact absurd ht' (h0.2 t')
      · exact hall t' ht'
  · intro t o hs
    rw [hst'] at hs
    have hC := noC (by rw [hs]; simp)
    have hA : ∀ t', hasCA (e.book r sub) t' ↔ hasCA e t' := fun t' => noA t' (by intro t''; rw [hs]; simp)
    simp only [hC, hA]
    rcases tr.t5 t o hs with ⟨o0, h5⟩ | h5 | ⟨h5, q, hq, hqc⟩
    · exact h.onl t o0 h5
    · exact Or.inl (h.pnd t h5)
    · have h0 := h.cng h5
      exact Or.inr ⟨h0.1, h0.2, (hrx q hq).2 t hqc⟩
  · intro hc t hca
    rcases (hasConnect_book e r sub).mp hc with hc | ⟨p, hp, hpc⟩
    · rcases (hasCA_book e r sub t).mp hca with hca | ⟨p', hp', hpc'⟩
      · exact h.excl hc t hca
      · rcases (tr.t2 p' hp' t hpc').2 with h2 | ⟨h2, _⟩
        · exact (h.pnd t h2).1 hc
        · exact (h.unc h2).1 hc
    · have hs := tr.t1 p hp hpc
      rcases (hasCA_book e r sub t).mp hca with hca | ⟨p', hp', hpc'⟩
      · rcases tr.t3 hs with h3 | ⟨h3, _⟩
        · exact (h.cng h3).2 t hca
        · exact (h.unc h3).2 t hca
      · have := (tr.t2 p' hp' t hpc').1
        rw [hs] at this; cases this
  · intro t hca
    rcases (hasCA_book e r sub t).mp hca with hca | ⟨p, hp, hpc⟩
    · exact h.ans t hca
    · rcases (tr.t2 p hp t hpc).2 with h2 | ⟨_, q, hq, hqc⟩
      · exact h.ans t (h.pnd t h2).2.1
      · exact (hrx q hq).1 hqc

def Agree6 (tl : Bool) (w : World (Pr tl)) : Prop := G tl w.a w.b ∧ G tl w.b w.a

theorem agree6_init (tl : Bool) : Agree6 tl (World.init (Pr tl)) := by
  have : G tl ({ conn := Conn.new } : End (Pr tl)) { conn := Conn.new } := by
    refine ⟨fun _ => ⟨?_, fun t => ?_⟩, fun h => (by cases h), fun t h => (by cases h), fun t o h => (by cases h), ?_, ?_⟩
    · rintro ⟨dg, hdg, _⟩; simp at hdg
    · rintro ⟨dg, hdg, _⟩; simp at hdg
    · rintro ⟨dg, hdg, _⟩; simp at hdg
    · rintro t ⟨dg, hdg, _⟩; simp at hdg
  exact ⟨this, this⟩

theorem agree6_step {w w' : World (Pr tl)} (h : Agree6 tl w) (m : Move (Pr tl)) (he : step w m = some w') :
    Agree6 tl w' := by
  cases m with
  | advance dt =>
    simp only [step] at he
    injection he with he; subst he; exact h
  | call s draws c =>
    simp only [step] at he
    cases hr : (Pr tl).call w.now draws (w.get s).conn c with
    | error e => rw [hr] at he; cases he
    | ok r =>
      rw [hr] at he
      injection he with he
      subst he
      have tr := trans_call6 w.now draws (w.get s).conn c r hr
      cases s with
      | a => exact ⟨h.1.act tr (by intro q hq; cases hq) _, h.2.peer_mono (book_out_mono _ _ _)⟩
      | b => exact ⟨h.1.peer_mono (book_out_mono _ _ _), h.2.act tr (by intro q hq; cases hq) _⟩
  | deliver to i draws alt =>
    simp only [step] at he
    cases hdg : (w.get to.other).out[i]? with
    | none => rw [hdg] at he; cases he
    | some dg =>
      rw [hdg] at he
      simp only at he
      cases hr : (Pr tl).recv w.now draws (w.get to).conn dg.pkt alt with
      | error e => rw [hr] at he; cases he
      | ok r =>
        rw [hr] at he
        injection he with he
        subst he
        have hm := List.mem_of_getElem? hdg
        obtain ⟨rx, tr, hk⟩ := trans_recv6 w.now draws (w.get to).conn dg.pkt alt r hr
        have hrx : ∀ q, rx = some q → (isConnect q = true → hasConnect (w.get to.other)) ∧
            ∀ t, caTok q = some t → ∃ tp, hasCA (w.get to.other) tp ∧ wtok tl tp = t := by
          intro q hq
          obtain ⟨k1, k2⟩ := hk q hq
          refine ⟨fun hc => ⟨dg, hm, by rw [← k1]; exact hc⟩, fun t ht => ?_⟩
          obtain ⟨tp, h1, h2⟩ := k2 t ht
          exact ⟨tp, ⟨dg, hm, h1⟩, h2⟩
        cases to with
        | a => exact ⟨h.1.act tr hrx _, h.2.peer_mono (book_out_mono _ _ _)⟩
        | b => exact ⟨h.1.peer_mono (book_out_mono _ _ _), h.2.act tr hrx _⟩

theorem agree6_run : ∀ (ms : List (Move (Pr tl))) (w w' : World (Pr tl)), Agree6 tl w → run w ms = some w' →
    Agree6 tl w' := by
  intro ms
  induction ms with
  | nil => intro w w' h he; simp [run] at he; subst he; exact h
  | cons m ms ih =>
    intro w w' h he
    simp only [run] at he
    cases hst : step w m with
    | none => rw [hst] at he; cases he
    | some w1 => rw [hst] at he; exact ih w1 w' (agree6_step h m hst) he

/-- the token of a pending / online state -/
def stTok : State → Option (Option Nat)
  | .pending t => some t
  | .online t _ => some t
  | _ => none

/-- **token agreement**: an online endpoint and its pending-or-online peer hold the same token -/
theorem G.agree {e peer : End (Pr tl)} (h1 : G tl e peer) (h2 : G tl peer e)
    (hs1 : tokS tl e.conn) (hs2 : tokS tl peer.conn)
    {t1 : Option Nat} {o1 : Online} (he : e.conn.state = .online t1 o1) {t2 : Option Nat}
    (hp : stTok peer.conn.state = some t2) : t1 = t2 := by
  have hw : ∀ t, stTok peer.conn.state = some t → wtok tl t = t := by
    intro t ht
    have : peer.conn.state.token? = some t := by
      cases hst : peer.conn.state <;> rw [hst] at ht <;> simp [stTok] at ht <;> simp [State.token?, ht]
    have := hs2 t this
    cases tl <;> simp [wtok] at this ⊢
    cases t <;> simp at this ⊢
  -- what the peer's histories say about its token
  have hpeer : (¬ hasConnect peer ∧ hasCA peer t2 ∧ ∀ t', hasCA peer t' → t' = t2) ∨
      (hasConnect peer ∧ (∀ t', ¬ hasCA peer t') ∧ ∃ tp, hasCA e tp ∧ wtok tl tp = t2) := by
    cases hst : peer.conn.state with
    | pending t => rw [hst] at hp; injection hp with hp; subst hp; exact Or.inl (h2.pnd t hst)
    | online t o => rw [hst] at hp; injection hp with hp; subst hp; exact h2.onl t o hst
    | unconnected => rw [hst] at hp; cases hp
    | connecting => rw [hst] at hp; cases hp
    | disconnected => rw [hst] at hp; cases hp
  have hw1 : wtok tl t1 = t1 := by
    have := hs1 t1 (by simp [State.token?, he])
    cases tl <;> simp [wtok] at this ⊢
    cases t1 <;> simp at this ⊢
  rcases h1.onl t1 o1 he with ⟨a1, a2, a3⟩ | ⟨b1, b2, tp, b3, b4⟩
  · -- e is the acceptor
    rcases hpeer with ⟨c1, c2, _⟩ | ⟨_, _, tp, d3, d4⟩
    · exact absurd (h1.ans t1 a2) c1
    · have := a3 tp d3
      subst this
      rw [← d4, hw1]
  · -- e is the connector: it took the token of one of the peer's ConnectAccepts
    rcases hpeer with ⟨_, _, c3⟩ | ⟨d1, d2, _⟩
    · have := c3 tp b3
      subst this
      rw [← b4]; exact hw tp hp
    · exact absurd b3 (d2 tp)

end Tw.NetSim.P6
