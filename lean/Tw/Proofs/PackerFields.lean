import Tw.Proofs.Packer

namespace Tw.Packer

theorem Field.encode_length (f : Field) : f.encode.length = f.encodedLength := by
  cases f <;> simp [Field.encode, Field.encodedLength]

theorem Buf.write_fits (b : Buf) (bs : List UInt8) (h : bs.length ≤ b.remaining) :
    b.write bs = ({ b with data := b.data ++ bs }, true) := by
  simp [Buf.write, h]

theorem Buf.write_overflow (b : Buf) (bs : List UInt8) (h : ¬ bs.length ≤ b.remaining) :
    b.write bs = ({ b with data := b.data ++ bs.take b.remaining }, false) := by
  simp [Buf.write, h]

theorem any_eq_zero_false (s : List UInt8) (h : ∀ b ∈ s, b ≠ 0) : s.any (· == 0) = false := by
  simp only [List.any_eq_false, beq_iff_eq]
  intro b hb; exact h b hb

/-- A field that fits is appended whole. -/
theorem packField_fits (b : Buf) (f : Field) (hwf : f.wf) (h : f.encodedLength ≤ b.remaining) :
    packField b f = ({ b with data := b.data ++ f.encode }, .ok) := by
  cases f with
  | int v =>
    simp only [Field.encodedLength] at h
    simp [packField, Buf.write_fits _ _ h, Field.encode]
  | str s =>
    simp only [Field.encodedLength] at h
    have h1 : s.length ≤ b.remaining := by omega
    have h2 : [(0:UInt8)].length ≤ ({ b with data := b.data ++ s } : Buf).remaining := by
      simp [Buf.remaining] at h ⊢; omega
    simp [packField, any_eq_zero_false s hwf, Buf.write_fits _ _ h1, Buf.write_fits _ _ h2, Field.encode]
  | data d =>
    simp only [Field.encodedLength] at h
    have hlt : ¬ d.length ≥ 2 ^ 31 := by simp [Field.wf] at hwf; omega
    have h1 : (writeInt d.length).length ≤ b.remaining := by omega
    have h2 : d.length ≤ ({ b with data := b.data ++ writeInt d.length } : Buf).remaining := by
      simp [Buf.remaining] at h ⊢; omega
    simp [packField, hlt, Buf.write_fits _ _ h1, Buf.write_fits _ _ h2, Field.encode]
  | raw d =>
    simp only [Field.encodedLength] at h
    simp [packField, Buf.write_fits _ _ h, Field.encode]

/-- A field that does not fit yields `CapacityError`; what has been written is a prefix of its
encoding that exactly fills the buffer or stops at a write boundary, never beyond the capacity. -/
theorem packField_overflow (b : Buf) (f : Field) (hwf : f.wf) (hinv : b.data.length ≤ b.cap)
    (h : b.remaining < f.encodedLength) :
    ∃ k, packField b f = ({ b with data := b.data ++ f.encode.take k }, .capacity) ∧
      b.data.length + (f.encode.take k).length ≤ b.cap := by
  cases f with
  | int v =>
    simp only [Field.encodedLength] at h
    refine ⟨b.remaining, ?_, ?_⟩
    · simp [packField, Buf.write_overflow _ _ (by omega : ¬ (writeInt v).length ≤ b.remaining), Field.encode]
    · simp [Buf.remaining, List.length_take]; omega
  | str s =>
    simp only [Field.encodedLength] at h
    by_cases h1 : s.length ≤ b.remaining
    · have h2 : ¬ [(0:UInt8)].length ≤ ({ b with data := b.data ++ s } : Buf).remaining := by
        simp [Buf.remaining] at h h1 ⊢; omega
      refine ⟨s.length, ?_, ?_⟩
      · have hr : ({ b with data := b.data ++ s } : Buf).remaining = 0 := by
          simp [Buf.remaining] at h h1 ⊢; omega
        simp [packField, any_eq_zero_false s hwf, Buf.write_fits _ _ h1, Buf.write_overflow _ _ h2,
          Field.encode, hr]
      · simp [Field.encode, Buf.remaining] at h1 ⊢; omega
    · refine ⟨b.remaining, ?_, ?_⟩
      · have : (s ++ [0]).take b.remaining = s.take b.remaining := by
          rw [List.take_append_of_le_length (by omega)]
        simp [packField, any_eq_zero_false s hwf, Buf.write_overflow _ _ h1, Field.encode, this]
      · simp [Buf.remaining, List.length_take]; omega
  | data d =>
    simp only [Field.encodedLength] at h
    have hlt : ¬ d.length ≥ 2 ^ 31 := by simp [Field.wf] at hwf; omega
    by_cases h1 : (writeInt d.length).length ≤ b.remaining
    · have h2 : ¬ d.length ≤ ({ b with data := b.data ++ writeInt d.length } : Buf).remaining := by
        simp [Buf.remaining] at h h1 ⊢; omega
      refine ⟨(writeInt d.length).length + (b.remaining - (writeInt d.length).length), ?_, ?_⟩
      · have hr : ({ b with data := b.data ++ writeInt d.length } : Buf).remaining
            = b.remaining - (writeInt d.length).length := by
          simp [Buf.remaining]; omega
        have ht : (writeInt (d.length : Int)).take ((writeInt (d.length : Int)).length + (b.remaining - (writeInt (d.length : Int)).length)) = writeInt (d.length : Int) :=
          List.take_of_length_le (by omega)
        simp [packField, hlt, Buf.write_fits _ _ h1, Buf.write_overflow _ _ h2, Field.encode, hr,
          List.take_append, ht]
      · simp [Field.encode, Buf.remaining, List.length_take] at h1 ⊢; omega
    · refine ⟨b.remaining, ?_, ?_⟩
      · have : (writeInt d.length ++ d).take b.remaining = (writeInt d.length).take b.remaining := by
          rw [List.take_append_of_le_length (by omega)]
        simp [packField, hlt, Buf.write_overflow _ _ h1, Field.encode, this]
      · simp [Buf.remaining, List.length_take]; omega
  | raw d =>
    simp only [Field.encodedLength] at h
    refine ⟨b.remaining, ?_, ?_⟩
    · simp [packField, Buf.write_overflow _ _ (by omega : ¬ d.length ≤ b.remaining), Field.encode]
    · simp [Buf.remaining, List.length_take]; omega

end Tw.Packer
