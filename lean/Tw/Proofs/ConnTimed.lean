import Tw.Proofs.ConnProgressV
import Tw.Proofs.ConnTimers
import Tw.Proofs.ConnSafetySim

/-!
# C02 (c) over two full connections with clocks: the online phase

`OnlineIface`: what the generic argument needs to know about a protocol variant's online state — how
`tick` and `feed` act on `mk tok core sendTimer` (equations, proved per variant by unfolding).  Then:
one `timedRound` of `Tw.NetSim` is a `RoundV` on the two cores (`timedRound_spec`), hence four of
them end quiescent (`timed_progress`).
-/
namespace Tw.NetSim
open Tw.Conn Tw.Time

/-- a datagram of the online phase: a chunk packet or a keep-alive carrying an ack -/
inductive Dg where
  | chunk (f : Flushed)
  | ka (ack : Nat)

/-- its (ack, resend flag, chunks) -/
def Dg.fl : Dg → Flushed
  | .chunk f => f
  | .ka a => ⟨a, false, 0, []⟩

structure OnlineIface (P : Proto) (core : P.Conn → Option Online) (cfg : Cfg) (S : Nat → P.Conn → Prop) where
  Tok : Type
  mkc : Tok → Online → Timeout → P.Conn
  chunkPkt : Tok → Flushed → P.Packet
  kaPkt : Tok → Nat → P.Packet
  /-- `peer tx ty`: the datagrams of an endpoint holding `tx` pass the token check of one holding `ty` -/
  peer : Tok → Tok → Prop
  core_mk : ∀ t o s, core (mkc t o s) = some o
  timed_mk : ∀ now t o s, S now (mkc t o s) → SendDue now s ∧ RqDue now o
  view_chunk : ∀ t f, P.view (chunkPkt t f) = some (f.ack, f.chunks)
  view_ka : ∀ t a, P.view (kaPkt t a) = some (a, [])
  tick_resend : ∀ now t o s o1 s1 fl, o.resendDeadline.triggered now = true →
    o.resend cfg now s = .ok (o1, s1, fl) → (∀ f ∈ fl, f.Valid cfg) →
    P.call now [] (mkc t o s) .tick = .ok { conn := mkc t o1 s1, sent := fl.map (chunkPkt t) }
  tick_flush : ∀ now t o s, o.resendDeadline.triggered now = false → s.triggered now = true →
    o.canSend = true → (∀ f ∈ o.flush.2, f.Valid cfg) →
    P.call now [] (mkc t o s) .tick =
      .ok { conn := mkc t o.flush.1 (Timeout.after now sendUs), sent := o.flush.2.map (chunkPkt t) }
  tick_ka : ∀ now t o s, o.resendDeadline.triggered now = false → s.triggered now = true →
    o.canSend = false → o.ack < seqMod →
    P.call now [] (mkc t o s) .tick = .ok { conn := mkc t o (Timeout.after now sendUs), sent := [kaPkt t o.ack] }
  recv_chunk : ∀ now draws tx ty o s f alt o1 o2 s2 fl evs, peer tx ty → o.feedAck f.ack = .ok o1 →
    o1.receive cfg now s f.requestResend f.chunks = .ok (o2, s2, fl, evs) → (∀ f' ∈ fl, f'.Valid cfg) →
    P.recv now draws (mkc ty o s) (chunkPkt tx f) alt =
      .ok { conn := mkc ty o2 s2, sent := fl.map (chunkPkt ty), events := evs }
  recv_ka : ∀ now draws tx ty o s a alt o1, peer tx ty → o.feedAck a = .ok o1 →
    P.recv now draws (mkc ty o s) (kaPkt tx a) alt = .ok { conn := mkc ty o1 s }

theorem sendUs_val : sendUs = 500000 := by decide
theorem resendUs_val : resendUs = 1000000 := by decide

variable {P : Proto} {core : P.Conn → Option Online} {cfg : Cfg} {S : Nat → P.Conn → Prop}

def OnlineIface.pkt (I : OnlineIface P core cfg S) (t : I.Tok) : Dg → P.Packet
  | .chunk f => I.chunkPkt t f
  | .ka a => I.kaPkt t a

theorem OnlineIface.view_pkt (I : OnlineIface P core cfg S) (t : I.Tok) (d : Dg) :
    P.view (I.pkt t d) = some (d.fl.ack, d.fl.chunks) := by
  cases d with
  | chunk f => exact I.view_chunk t f
  | ka a => exact I.view_ka t a

theorem flush_canSend_false (o : Online) : o.flush.1.canSend = false := by
  unfold Online.flush
  split
  · rename_i h; simpa using h
  · simp [Online.canSend, PacketContents.empty]

theorem receive_nil {cfg : Cfg} (now : Nat) (o : Online) (s : Timeout) :
    o.receive cfg now s false [] = .ok (o, s, [], []) := by
  cases o
  simp [Online.receive, chunksSeqOk, receiveEager, receiveLazy]

/-- one delivery to an online connection: it returns, stays online with its token, and its core does
`RecvRel` -/
theorem OnlineIface.recv_dg (I : OnlineIface P core cfg S) (hc : cfg.Ok) {now : Nat} {draws : List Nat}
    {tx ty : I.Tok} {o : Online} {s : Timeout} (d : Dg) (alt : P.Alt) (hp : I.peer tx ty) (hinv : o.Inv cfg)
    (hack : d.fl.ack < seqMod) (hseq : chunksSeqOk d.fl.chunks = true) :
    ∃ o2 s2 r, P.recv now draws (I.mkc ty o s) (I.pkt tx d) alt = .ok r ∧ r.conn = I.mkc ty o2 s2 ∧
      RecvRel cfg o d.fl o2 := by
  obtain ⟨hfa, hinv1⟩ := Online.feedAck_spec hinv hack
  cases d with
  | chunk f =>
    obtain ⟨o2, s2, fl, evs, hrc, _, hval, _⟩ :=
      Online.receive_spec hc hinv1 now s f.requestResend f.chunks hseq
    exact ⟨o2, s2, _, I.recv_chunk now draws tx ty o s f alt _ o2 s2 fl evs hp hfa hrc hval, rfl,
      ⟨now, s, s2, _, fl, evs, hfa, hrc⟩⟩
  | ka a =>
    exact ⟨_, s, _, I.recv_ka now draws tx ty o s a alt _ hp hfa, rfl,
      ⟨now, s, s, _, [], [], hfa, receive_nil now _ s⟩⟩

/-- **the two ticks of one side in a round**: at `now0 + 1 s` and `now0 + 1.5 s`, from an online
connection whose timers are due as the invariant says -/
theorem OnlineIface.tickPhase (I : OnlineIface P core cfg S) (hc : cfg.Ok) {now0 : Nat} {t : I.Tok}
    {o : Online} {s : Timeout} (hinv : o.Inv cfg) (hack : o.ack < seqMod) (hs : SendDue now0 s) (hq : RqDue now0 o) :
    ∃ (c1 : P.Conn) (o2 : Online) (s2 : Timeout) (d1 d2 : List Dg),
      P.call (now0 + resendUs) [] (I.mkc t o s) .tick = .ok { conn := c1, sent := d1.map (I.pkt t) } ∧
      P.call (now0 + resendUs + sendUs) [] c1 .tick = .ok { conn := I.mkc t o2 s2, sent := d2.map (I.pkt t) } ∧
      PhaseSpec cfg o o2 ((d1 ++ d2).map Dg.fl) := by
  have hsend1 : s.triggered (now0 + resendUs) = true := by
    apply hs.triggered
    rw [sendUs_val, resendUs_val]; omega
  by_cases hemp : o.resendQueue = []
  · -- nothing unacknowledged: flush or keep-alive, then a keep-alive
    have hd1 : o.resendDeadline.triggered (now0 + resendUs) = false := by
      simp [Online.resendDeadline, hemp, Timeout.triggered]
    have hflq : o.flush.1.resendQueue = [] := by rw [Online.flush_resendQueue]; exact hemp
    have hd2 : o.flush.1.resendDeadline.triggered (now0 + resendUs + sendUs) = false := by
      simp [Online.resendDeadline, hflq, Timeout.triggered]
    have hsend2 : (Timeout.after (now0 + resendUs) sendUs).triggered (now0 + resendUs + sendUs) = true := by
      simp [Timeout.after, Timeout.triggered]
    have hack2 : o.flush.1.ack < seqMod := by rw [Online.flush_ack]; exact hack
    have h2 := I.tick_ka (now0 + resendUs + sendUs) t o.flush.1 (Timeout.after (now0 + resendUs) sendUs) hd2 hsend2
      (flush_canSend_false o) hack2
    by_cases hcs : o.canSend = true
    · have h1 := I.tick_flush (now0 + resendUs) t o s hd1 hsend1 hcs (Online.flush_valid hinv)
      refine ⟨I.mkc t o.flush.1 (Timeout.after (now0 + resendUs) sendUs), o.flush.1,
        Timeout.after (now0 + resendUs + sendUs) sendUs, o.flush.2.map Dg.chunk, [Dg.ka o.flush.1.ack], ?_, ?_, ?_⟩
      · rw [h1]; simp [List.map_map, Function.comp_def, OnlineIface.pkt]
      · rw [h2]; simp [OnlineIface.pkt]
      · have := PhaseSpec.of_flush_kas hinv hemp [⟨o.ack, false, 0, []⟩] (by simp) (by simp)
        simpa [List.map_map, Function.comp_def, Dg.fl, Online.flush_ack] using this
    · have hcs' : o.canSend = false := by simpa using hcs
      obtain ⟨hf2, hf1⟩ := flush_silent o hcs'
      have h1 := I.tick_ka (now0 + resendUs) t o s hd1 hsend1 hcs' hack
      rw [hf1] at h2
      refine ⟨I.mkc t o (Timeout.after (now0 + resendUs) sendUs), o,
        Timeout.after (now0 + resendUs + sendUs) sendUs, [Dg.ka o.ack], [Dg.ka o.ack], ?_, ?_, ?_⟩
      · rw [h1]; simp [OnlineIface.pkt]
      · rw [h2]; simp [OnlineIface.pkt]
      · have := PhaseSpec.of_flush_kas hinv hemp [⟨o.ack, false, 0, []⟩, ⟨o.ack, false, 0, []⟩] (by simp) (by simp)
        rw [hf1, hf2] at this
        simpa [Dg.fl] using this
  · -- the retransmission timer has fired: resend, then flush the rest
    obtain ⟨o1, s1, fl, he, hinv1, hval, _, _, hlen, _⟩ := Online.resend_spec hc hinv (now0 + resendUs) s
    have hlast : ∃ c, o.resendQueue.getLast? = some c ∧ c ∈ o.resendQueue := by
      cases hql : o.resendQueue.getLast? with
      | none => exact absurd (List.getLast?_eq_none_iff.mp hql) hemp
      | some c => exact ⟨c, rfl, List.mem_of_getLast? hql⟩
    obtain ⟨c, hc1, hc2⟩ := hlast
    have hd1 : o.resendDeadline.triggered (now0 + resendUs) = true := by
      simp only [Online.resendDeadline, hc1]
      exact (hq c hc2).triggered (Nat.le_refl _)
    have h1 := I.tick_resend (now0 + resendUs) t o s o1 s1 fl hd1 he hval
    obtain ⟨hps, hcs⟩ := PhaseSpec.of_resend_flush hinv hinv1 hemp he
    -- second tick: the timers were restarted, the send timer is due
    have hemp1 : o1.resendQueue ≠ [] := by
      intro hh; rw [hh] at hlen; exact hemp (List.length_eq_zero_iff.mp hlen.symm)
    have hall : ∀ r ∈ o1.resendQueue, r.nextSend = Timeout.after (now0 + resendUs) resendUs := by
      rcases (resend_timers he).1 with h | h
      · exact absurd h hemp
      · exact h
    have hd2 : o1.resendDeadline.triggered (now0 + resendUs + sendUs) = false := by
      cases hql : o1.resendQueue.getLast? with
      | none => exact absurd (List.getLast?_eq_none_iff.mp hql) hemp1
      | some c1 =>
        simp only [Online.resendDeadline, hql, hall c1 (List.mem_of_getLast? hql), Timeout.after, Timeout.triggered,
          decide_eq_false_iff_not, Nat.not_le]
        rw [sendUs_val, resendUs_val]; omega
    have hsend2 : s1.triggered (now0 + resendUs + sendUs) = true := by
      rcases (resend_timers he).2 with h | h
      · rw [h]; apply hs.triggered; omega
      · rw [h]; simp [Timeout.after, Timeout.triggered]
    have h2 := I.tick_flush (now0 + resendUs + sendUs) t o1 s1 hd2 hsend2 hcs (Online.flush_valid hinv1)
    refine ⟨I.mkc t o1 s1, o1.flush.1, Timeout.after (now0 + resendUs + sendUs) sendUs, fl.map Dg.chunk,
      o1.flush.2.map Dg.chunk, ?_, ?_, ?_⟩
    · rw [h1]; simp [List.map_map, Function.comp_def, OnlineIface.pkt]
    · rw [h2]; simp [List.map_map, Function.comp_def, OnlineIface.pkt]
    · simpa [List.map_map, Function.comp_def, Dg.fl] using hps

/-! ## deliveries to one endpoint -/

/-- deliver one packet to an endpoint at time `now` -/
def recvEnd (now : Nat) (alt : P.Alt) (e : End P) (pk : P.Packet) : Option (End P) :=
  match P.recv now [] e.conn pk alt with
  | .ok r => some (e.book r [])
  | .error _ => none

def recvEnds (now : Nat) (alt : P.Alt) : End P → List P.Packet → Option (End P)
  | e, [] => some e
  | e, pk :: pks =>
    match recvEnd now alt e pk with
    | none => none
    | some e1 => recvEnds now alt e1 pks

theorem World.get_set_same (w : World P) (s : Side) (e : End P) : (w.set s e).get s = e := by
  cases s <;> rfl
theorem World.get_set_other (w : World P) (s : Side) (e : End P) : (w.set s e).get s.other = w.get s.other := by
  cases s <;> rfl
theorem World.set_set (w : World P) (s : Side) (e e' : End P) : (w.set s e).set s e' = w.set s e' := by
  cases s <;> rfl
theorem World.set_now (w : World P) (s : Side) (e : End P) : (w.set s e).now = w.now := by
  cases s <;> rfl
theorem World.set_get (w : World P) (s : Side) : w.set s (w.get s) = w := by
  cases s <;> rfl

/-- delivering the datagrams at indices `old.length …` of the peer's history, in order -/
theorem run_deliverRange (to : Side) (alt : P.Alt) : ∀ (pks : List P.Packet) (stamps : List (Nat × Nat))
    (old rest : List (Sent P.Packet)) (w : World P),
    stamps.length = pks.length →
    (w.get to.other).out = old ++ (pks.zip stamps).map (fun x => ⟨x.1, x.2.1, x.2.2⟩) ++ rest →
    run w ((List.range' old.length pks.length).map fun i => Move.deliver to i [] alt) =
      (recvEnds w.now alt (w.get to) pks).map (w.set to) := by
  intro pks
  induction pks with
  | nil =>
    intro stamps old rest w _ _
    simp [run, recvEnds, World.set_get]
  | cons pk pks ih =>
    intro stamps old rest w hl hout
    cases stamps with
    | nil => simp at hl
    | cons st stamps =>
      have hidx : (w.get to.other).out[old.length]? = some ⟨pk, st.1, st.2⟩ := by
        rw [hout, List.append_assoc, List.getElem?_append_right (Nat.le_refl _)]; simp
      simp only [List.length_cons, List.range'_succ, List.map_cons, run, step, hidx, recvEnds, recvEnd]
      cases hr : P.recv w.now [] (w.get to).conn pk alt with
      | error e => rfl
      | ok r =>
        simp only
        have := ih stamps (old ++ [⟨pk, st.1, st.2⟩]) rest (w.set to ((w.get to).book r []))
          (by simpa using hl) (by rw [World.get_set_other, hout]; simp)
        simp only [List.length_append, List.length_singleton] at this
        rw [this, World.get_set_same, World.set_now]
        cases recvEnds w.now alt ((w.get to).book r []) pks with
        | none => rfl
        | some e' => simp [World.set_set]

theorem h2_fresh {cfg : Cfg} {e peer : End P} (h : AInv cfg (absEnd P core e) (absEnd P core peer))
    {dg : Sent P.Packet} (hdg : dg ∈ peer.out) (hn : dg.nStamp = peer.nAbs) (hd : e.nAbs ≤ dg.dStamp + 512) :
    ∀ ack cs, P.view dg.pkt = some (ack, cs) → e.nAbs < unwrap dg.dStamp ack + 1024 ∧
      ∀ c ∈ cs, ∀ s r', c.vital = some (s, r') → e.dAbs + 1 < unwrap dg.nStamp s + 1024 := by
  intro ack cs hv
  have hm := mem_absEnd_out (core := core) hdg hv
  have ha := h.1.acks _ hm
  have hn' := h.2.net _ hm
  dsimp only [AEnt.fl] at ha hn'
  obtain ⟨a1, _⟩ := ha
  obtain ⟨n1, n2, _⟩ := hn'
  have hpn : (absEnd P core peer).sub.length = peer.nAbs := rfl
  refine ⟨?_, ?_⟩
  · rw [unwrap_eq (Nat.le_refl _) (by omega) a1]; omega
  · intro c hcm s r' hvit
    obtain ⟨k, k1, k2, k3⟩ := n2 c hcm s r' hvit
    rw [unwrap_eq (q := k + 1) (by omega) (by omega) k3.2]
    have hdle := h.2.dle
    have : e.dAbs ≤ peer.nAbs := hdle
    omega

theorem entry_ok {cfg : Cfg} {e peer : End P} (h : AInv cfg (absEnd P core e) (absEnd P core peer))
    {dg : Sent P.Packet} (hdg : dg ∈ peer.out) {ack : Nat} {cs : List Chunk} (hv : P.view dg.pkt = some (ack, cs)) :
    ack < seqMod ∧ chunksSeqOk cs = true := by
  have hm := mem_absEnd_out (core := core) hdg hv
  have ha := h.1.acks _ hm
  have hn' := h.2.net _ hm
  dsimp only [AEnt.fl] at ha hn'
  obtain ⟨a1, _⟩ := ha
  obtain ⟨_, n2, _⟩ := hn'
  refine ⟨by rw [a1, seqMod_eq]; omega, ?_⟩
  simp only [chunksSeqOk, List.all_eq_true]
  intro c hcm
  cases hvit : c.vital with
  | none => rfl
  | some v =>
    obtain ⟨sq, r⟩ := v
    obtain ⟨k, _, _, hk⟩ := n2 c hcm sq r hvit
    simp only [decide_eq_true_eq]
    rw [hk.2, seqMod_eq]; omega

theorem book_nAbs (e : End P) (r : Ret P.Conn P.Packet) : (e.book r []).nAbs = e.nAbs := by
  simp [End.book, End.nAbs, End.submittedVital]

theorem book_dAbs_le (e : End P) (r : Ret P.Conn P.Packet) (sub : List (Bytes × Bool)) : e.dAbs ≤ (e.book r sub).dAbs := by
  simp [End.book, End.dAbs, End.deliveredVital, vitalPayloads_append]

/-- **a block of deliveries** to an online endpoint `e` of datagrams of the online peer's history
that were stamped with the peer's present submission count (no submission since) -/
theorem OnlineIface.block (I : OnlineIface P core cfg S) (hc : cfg.Ok) (hs : Sim P core cfg) (hl : LocT P S)
    {now : Nat} {tx ty : I.Tok} (hp : I.peer tx ty) (alt : P.Alt) (peer : End P) :
    ∀ (dgs : List Dg) (stamps : List (Nat × Nat)) (e : End P) (o : Online) (s : Timeout),
      e.conn = I.mkc ty o s → stamps.length = dgs.length →
      (∀ x ∈ (dgs.map (I.pkt tx)).zip stamps, (⟨x.1, x.2.1, x.2.2⟩ : Sent P.Packet) ∈ peer.out ∧
        x.2.1 = peer.nAbs ∧ e.nAbs ≤ x.2.2 + 512) →
      AInv cfg (absEnd P core e) (absEnd P core peer) → S now e.conn →
      ∃ e' o' s', recvEnds now alt e (dgs.map (I.pkt tx)) = some e' ∧ e'.conn = I.mkc ty o' s' ∧
        RecvListRel cfg o (dgs.map Dg.fl) o' ∧ AInv cfg (absEnd P core e') (absEnd P core peer) ∧
        S now e'.conn ∧ e'.nAbs = e.nAbs ∧ e'.submitted = e.submitted ∧ e.dAbs ≤ e'.dAbs := by
  intro dgs
  induction dgs with
  | nil =>
    intro stamps e o s he _ _ h hS
    exact ⟨e, o, s, rfl, he, .nil o, h, hS, rfl, rfl, Nat.le_refl _⟩
  | cons d dgs ih =>
    intro stamps e o s he hlen hst h hS
    cases stamps with
    | nil => simp at hlen
    | cons st stamps =>
      obtain ⟨hmem, hn, hd⟩ := hst (I.pkt tx d, st) (by simp)
      have hview := I.view_pkt tx d
      have hinv : o.Inv cfg := (h.1.snd o (by simp [absEnd, he, I.core_mk])).inv
      obtain ⟨hack, hseq⟩ := entry_ok (core := core) h hmem hview
      obtain ⟨o2, s2, r, hr, hrc, hrel⟩ := I.recv_dg hc (now := now) (draws := []) (s := s) d alt hp hinv hack hseq
      rw [← he] at hr
      have h' := hs.recv now [] e peer _ alt r hmem hr h (h2_fresh (core := core) h hmem hn hd)
      have hS' := hl.recv now [] e.conn _ alt r hr hS
      obtain ⟨e', o', s', f1, f2, f3, f4, f5, f6, f7, f8⟩ := ih stamps (e.book r []) o2 s2 hrc
        (by simpa using hlen)
        (by
          intro x hx
          obtain ⟨a, b, c⟩ := hst x (by simp only [List.map_cons, List.zip_cons_cons]; exact List.mem_cons_of_mem _ hx)
          exact ⟨a, b, by rw [book_nAbs]; exact c⟩)
        h' hS'
      refine ⟨e', o', s', ?_, f2, .cons hrel f3, f4, f5, by rw [f6, book_nAbs], by rw [f7]; simp [End.book],
        Nat.le_trans (book_dAbs_le e r []) f8⟩
      simp only [List.map_cons, recvEnds, recvEnd, hr]
      exact f1

end Tw.NetSim
