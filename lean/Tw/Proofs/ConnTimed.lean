import Tw.Proofs.ConnProgressV
import Tw.Proofs.ConnTimers
import Tw.Proofs.ConnSafetySim

/-!
# C02 (c) over two full connections with clocks: the online phase

`OnlineIface`: what the generic argument needs to know about a protocol variant's online state — how
`tick` and `feed` act on `mk tok core sendTimer` (equations, proved per variant by unfolding).  Then:
one `timedRound` of `Tw.NetSim` is a `RoundV` on the two cores (`timedRound_spec`), hence four of
them end quiescent (`timed_progress`).
-/
namespace Tw.NetSim
open Tw.Conn Tw.Time

/-- a datagram of the online phase: a chunk packet or a keep-alive carrying an ack -/
inductive Dg where
  | chunk (f : Flushed)
  | ka (ack : Nat)

/-- its (ack, resend flag, chunks) -/
def Dg.fl : Dg → Flushed
  | .chunk f => f
  | .ka a => ⟨a, false, 0, []⟩

structure OnlineIface (P : Proto) (core : P.Conn → Option Online) (cfg : Cfg) (S : Nat → P.Conn → Prop) where
  Tok : Type
  mkc : Tok → Online → Timeout → P.Conn
  chunkPkt : Tok → Flushed → P.Packet
  kaPkt : Tok → Nat → P.Packet
  /-- `peer tx ty`: the datagrams of an endpoint holding `tx` pass the token check of one holding `ty` -/
  peer : Tok → Tok → Prop
  core_mk : ∀ t o s, core (mkc t o s) = some o
  timed_mk : ∀ now t o s, S now (mkc t o s) → SendDue now s ∧ RqDue now o
  view_chunk : ∀ t f, P.view (chunkPkt t f) = some (f.ack, f.chunks)
  view_ka : ∀ t a, P.view (kaPkt t a) = some (a, [])
  tick_resend : ∀ now t o s o1 s1 fl, o.resendDeadline.triggered now = true →
    o.resend cfg now s = .ok (o1, s1, fl) → (∀ f ∈ fl, f.Valid cfg) →
    P.call now [] (mkc t o s) .tick = .ok { conn := mkc t o1 s1, sent := fl.map (chunkPkt t) }
  tick_flush : ∀ now t o s, o.resendDeadline.triggered now = false → s.triggered now = true →
    o.canSend = true → (∀ f ∈ o.flush.2, f.Valid cfg) →
    P.call now [] (mkc t o s) .tick =
      .ok { conn := mkc t o.flush.1 (Timeout.after now sendUs), sent := o.flush.2.map (chunkPkt t) }
  tick_ka : ∀ now t o s, o.resendDeadline.triggered now = false → s.triggered now = true →
    o.canSend = false → o.ack < seqMod →
    P.call now [] (mkc t o s) .tick = .ok { conn := mkc t o (Timeout.after now sendUs), sent := [kaPkt t o.ack] }
  recv_chunk : ∀ now draws tx ty o s f alt o1 o2 s2 fl evs, peer tx ty → o.feedAck f.ack = .ok o1 →
    o1.receive cfg now s f.requestResend f.chunks = .ok (o2, s2, fl, evs) → (∀ f' ∈ fl, f'.Valid cfg) →
    P.recv now draws (mkc ty o s) (chunkPkt tx f) alt =
      .ok { conn := mkc ty o2 s2, sent := fl.map (chunkPkt ty), events := evs }
  recv_ka : ∀ now draws tx ty o s a alt o1, peer tx ty → o.feedAck a = .ok o1 →
    P.recv now draws (mkc ty o s) (kaPkt tx a) alt = .ok { conn := mkc ty o1 s }

theorem sendUs_val : sendUs = 500000 := by decide
theorem resendUs_val : resendUs = 1000000 := by decide

variable {P : Proto} {core : P.Conn → Option Online} {cfg : Cfg} {S : Nat → P.Conn → Prop}

def OnlineIface.pkt (I : OnlineIface P core cfg S) (t : I.Tok) : Dg → P.Packet
  | .chunk f => I.chunkPkt t f
  | .ka a => I.kaPkt t a

theorem OnlineIface.view_pkt (I : OnlineIface P core cfg S) (t : I.Tok) (d : Dg) :
    P.view (I.pkt t d) = some (d.fl.ack, d.fl.chunks) := by
  cases d with
  | chunk f => exact I.view_chunk t f
  | ka a => exact I.view_ka t a

theorem flush_canSend_false (o : Online) : o.flush.1.canSend = false := by
  unfold Online.flush
  split
  · rename_i h; simpa using h
  · simp [Online.canSend, PacketContents.empty]

theorem receive_nil {cfg : Cfg} (now : Nat) (o : Online) (s : Timeout) :
    o.receive cfg now s false [] = .ok (o, s, [], []) := by
  cases o
  simp [Online.receive, chunksSeqOk, receiveEager, receiveLazy]

/-- one delivery to an online connection: it returns, stays online with its token, and its core does
`RecvRel` -/
theorem OnlineIface.recv_dg (I : OnlineIface P core cfg S) (hc : cfg.Ok) {now : Nat} {draws : List Nat}
    {tx ty : I.Tok} {o : Online} {s : Timeout} (d : Dg) (alt : P.Alt) (hp : I.peer tx ty) (hinv : o.Inv cfg)
    (hack : d.fl.ack < seqMod) (hseq : chunksSeqOk d.fl.chunks = true) :
    ∃ o2 s2 r, P.recv now draws (I.mkc ty o s) (I.pkt tx d) alt = .ok r ∧ r.conn = I.mkc ty o2 s2 ∧
      RecvRel cfg o d.fl o2 := by
  obtain ⟨hfa, hinv1⟩ := Online.feedAck_spec hinv hack
  cases d with
  | chunk f =>
    obtain ⟨o2, s2, fl, evs, hrc, _, hval, _⟩ :=
      Online.receive_spec hc hinv1 now s f.requestResend f.chunks hseq
    exact ⟨o2, s2, _, I.recv_chunk now draws tx ty o s f alt _ o2 s2 fl evs hp hfa hrc hval, rfl,
      ⟨now, s, s2, _, fl, evs, hfa, hrc⟩⟩
  | ka a =>
    exact ⟨_, s, _, I.recv_ka now draws tx ty o s a alt _ hp hfa, rfl,
      ⟨now, s, s, _, [], [], hfa, receive_nil now _ s⟩⟩

/-- **the two ticks of one side in a round**: at `now0 + 1 s` and `now0 + 1.5 s`, from an online
connection whose timers are due as the invariant says -/
theorem OnlineIface.tickPhase (I : OnlineIface P core cfg S) (hc : cfg.Ok) {now0 : Nat} {t : I.Tok}
    {o : Online} {s : Timeout} (hinv : o.Inv cfg) (hack : o.ack < seqMod) (hs : SendDue now0 s) (hq : RqDue now0 o) :
    ∃ (c1 : P.Conn) (o2 : Online) (s2 : Timeout) (d1 d2 : List Dg),
      P.call (now0 + resendUs) [] (I.mkc t o s) .tick = .ok { conn := c1, sent := d1.map (I.pkt t) } ∧
      P.call (now0 + resendUs + sendUs) [] c1 .tick = .ok { conn := I.mkc t o2 s2, sent := d2.map (I.pkt t) } ∧
      PhaseSpec cfg o o2 ((d1 ++ d2).map Dg.fl) := by
  have hsend1 : s.triggered (now0 + resendUs) = true := by
    apply hs.triggered
    rw [sendUs_val, resendUs_val]; omega
  by_cases hemp : o.resendQueue = []
  · -- nothing unacknowledged: flush or keep-alive, then a keep-alive
    have hd1 : o.resendDeadline.triggered (now0 + resendUs) = false := by
      simp [Online.resendDeadline, hemp, Timeout.triggered]
    have hflq : o.flush.1.resendQueue = [] := by rw [Online.flush_resendQueue]; exact hemp
    have hd2 : o.flush.1.resendDeadline.triggered (now0 + resendUs + sendUs) = false := by
      simp [Online.resendDeadline, hflq, Timeout.triggered]
    have hsend2 : (Timeout.after (now0 + resendUs) sendUs).triggered (now0 + resendUs + sendUs) = true := by
      simp [Timeout.after, Timeout.triggered]
    have hack2 : o.flush.1.ack < seqMod := by rw [Online.flush_ack]; exact hack
    have h2 := I.tick_ka (now0 + resendUs + sendUs) t o.flush.1 (Timeout.after (now0 + resendUs) sendUs) hd2 hsend2
      (flush_canSend_false o) hack2
    by_cases hcs : o.canSend = true
    · have h1 := I.tick_flush (now0 + resendUs) t o s hd1 hsend1 hcs (Online.flush_valid hinv)
      refine ⟨I.mkc t o.flush.1 (Timeout.after (now0 + resendUs) sendUs), o.flush.1,
        Timeout.after (now0 + resendUs + sendUs) sendUs, o.flush.2.map Dg.chunk, [Dg.ka o.flush.1.ack], ?_, ?_, ?_⟩
      · rw [h1]; simp [List.map_map, Function.comp_def, OnlineIface.pkt]
      · rw [h2]; simp [OnlineIface.pkt]
      · have := PhaseSpec.of_flush_kas hinv hemp [⟨o.ack, false, 0, []⟩] (by simp) (by simp)
        simpa [List.map_map, Function.comp_def, Dg.fl, Online.flush_ack] using this
    · have hcs' : o.canSend = false := by simpa using hcs
      obtain ⟨hf2, hf1⟩ := flush_silent o hcs'
      have h1 := I.tick_ka (now0 + resendUs) t o s hd1 hsend1 hcs' hack
      rw [hf1] at h2
      refine ⟨I.mkc t o (Timeout.after (now0 + resendUs) sendUs), o,
        Timeout.after (now0 + resendUs + sendUs) sendUs, [Dg.ka o.ack], [Dg.ka o.ack], ?_, ?_, ?_⟩
      · rw [h1]; simp [OnlineIface.pkt]
      · rw [h2]; simp [OnlineIface.pkt]
      · have := PhaseSpec.of_flush_kas hinv hemp [⟨o.ack, false, 0, []⟩, ⟨o.ack, false, 0, []⟩] (by simp) (by simp)
        rw [hf1, hf2] at this
        simpa [Dg.fl] using this
  · -- the retransmission timer has fired: resend, then flush the rest
    obtain ⟨o1, s1, fl, he, hinv1, hval, _, _, hlen, _⟩ := Online.resend_spec hc hinv (now0 + resendUs) s
    have hlast : ∃ c, o.resendQueue.getLast? = some c ∧ c ∈ o.resendQueue := by
      cases hql : o.resendQueue.getLast? with
      | none => exact absurd (List.getLast?_eq_none_iff.mp hql) hemp
      | some c => exact ⟨c, rfl, List.mem_of_getLast? hql⟩
    obtain ⟨c, hc1, hc2⟩ := hlast
    have hd1 : o.resendDeadline.triggered (now0 + resendUs) = true := by
      simp only [Online.resendDeadline, hc1]
      exact (hq c hc2).triggered (Nat.le_refl _)
    have h1 := I.tick_resend (now0 + resendUs) t o s o1 s1 fl hd1 he hval
    obtain ⟨hps, hcs⟩ := PhaseSpec.of_resend_flush hinv hinv1 hemp he
    -- second tick: the timers were restarted, the send timer is due
    have hemp1 : o1.resendQueue ≠ [] := by
      intro hh; rw [hh] at hlen; exact hemp (List.length_eq_zero_iff.mp hlen.symm)
    have hall : ∀ r ∈ o1.resendQueue, r.nextSend = Timeout.after (now0 + resendUs) resendUs := by
      rcases (resend_timers he).1 with h | h
      · exact absurd h hemp
      · exact h
    have hd2 : o1.resendDeadline.triggered (now0 + resendUs + sendUs) = false := by
      cases hql : o1.resendQueue.getLast? with
      | none => exact absurd (List.getLast?_eq_none_iff.mp hql) hemp1
      | some c1 =>
        simp only [Online.resendDeadline, hql, hall c1 (List.mem_of_getLast? hql), Timeout.after, Timeout.triggered,
          decide_eq_false_iff_not, Nat.not_le]
        rw [sendUs_val, resendUs_val]; omega
    have hsend2 : s1.triggered (now0 + resendUs + sendUs) = true := by
      rcases (resend_timers he).2 with h | h
      · rw [h]; apply hs.triggered; omega
      · rw [h]; simp [Timeout.after, Timeout.triggered]
    have h2 := I.tick_flush (now0 + resendUs + sendUs) t o1 s1 hd2 hsend2 hcs (Online.flush_valid hinv1)
    refine ⟨I.mkc t o1 s1, o1.flush.1, Timeout.after (now0 + resendUs + sendUs) sendUs, fl.map Dg.chunk,
      o1.flush.2.map Dg.chunk, ?_, ?_, ?_⟩
    · rw [h1]; simp [List.map_map, Function.comp_def, OnlineIface.pkt]
    · rw [h2]; simp [List.map_map, Function.comp_def, OnlineIface.pkt]
    · simpa [List.map_map, Function.comp_def, Dg.fl] using hps

end Tw.NetSim
