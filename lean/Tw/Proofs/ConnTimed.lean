import Tw.Proofs.ConnProgressV
import Tw.Proofs.ConnTimers
import Tw.Proofs.ConnSafetySim

/-!
# C02 (c) over two full connections with clocks: the online phase

`OnlineIface`: what the generic argument needs to know about a protocol variant's online state — how
`tick` and `feed` act on `mk tok core sendTimer` (equations, proved per variant by unfolding).  Then:
one `timedRound` of `Tw.NetSim` is a `RoundV` on the two cores (`timedRound_spec`), hence four of
them end quiescent (`timed_progress`).
-/
namespace Tw.NetSim
open Tw.Conn Tw.Time

/-- a datagram of the online phase: a chunk packet or a keep-alive carrying an ack -/
inductive Dg where
  | chunk (f : Flushed)
  | ka (ack : Nat)

/-- its (ack, resend flag, chunks) -/
def Dg.fl : Dg → Flushed
  | .chunk f => f
  | .ka a => ⟨a, false, 0, []⟩

structure OnlineIface (P : Proto) (core : P.Conn → Option Online) (cfg : Cfg) (S : Nat → P.Conn → Prop) where
  Tok : Type
  mkc : Tok → Online → Timeout → P.Conn
  chunkPkt : Tok → Flushed → P.Packet
  kaPkt : Tok → Nat → P.Packet
  /-- `peer tx ty`: the datagrams of an endpoint holding `tx` pass the token check of one holding `ty` -/
  peer : Tok → Tok → Prop
  core_mk : ∀ t o s, core (mkc t o s) = some o
  online_mk : ∀ t o s, P.online (mkc t o s) = some o
  timed_mk : ∀ now t o s, S now (mkc t o s) → SendDue now s ∧ RqDue now o
  view_chunk : ∀ t f, P.view (chunkPkt t f) = some (f.ack, f.chunks)
  view_ka : ∀ t a, P.view (kaPkt t a) = some (a, [])
  tick_resend : ∀ now t o s o1 s1 fl, o.resendDeadline.triggered now = true →
    o.resend cfg now s = .ok (o1, s1, fl) → (∀ f ∈ fl, f.Valid cfg) →
    P.call now [] (mkc t o s) .tick = .ok { conn := mkc t o1 s1, sent := fl.map (chunkPkt t) }
  tick_flush : ∀ now t o s, o.resendDeadline.triggered now = false → s.triggered now = true →
    o.canSend = true → (∀ f ∈ o.flush.2, f.Valid cfg) →
    P.call now [] (mkc t o s) .tick =
      .ok { conn := mkc t o.flush.1 (Timeout.after now sendUs), sent := o.flush.2.map (chunkPkt t) }
  tick_ka : ∀ now t o s, o.resendDeadline.triggered now = false → s.triggered now = true →
    o.canSend = false → o.ack < seqMod →
    P.call now [] (mkc t o s) .tick = .ok { conn := mkc t o (Timeout.after now sendUs), sent := [kaPkt t o.ack] }
  recv_chunk : ∀ now draws tx ty o s f alt o1 o2 s2 fl evs, peer tx ty → o.feedAck f.ack = .ok o1 →
    o1.receive cfg now s f.requestResend f.chunks = .ok (o2, s2, fl, evs) → (∀ f' ∈ fl, f'.Valid cfg) →
    P.recv now draws (mkc ty o s) (chunkPkt tx f) alt =
      .ok { conn := mkc ty o2 s2, sent := fl.map (chunkPkt ty), events := evs }
  recv_ka : ∀ now draws tx ty o s a alt o1, peer tx ty → o.feedAck a = .ok o1 →
    P.recv now draws (mkc ty o s) (kaPkt tx a) alt = .ok { conn := mkc ty o1 s }

theorem sendUs_val : sendUs = 500000 := by decide
theorem resendUs_val : resendUs = 1000000 := by decide

variable {P : Proto} {core : P.Conn → Option Online} {cfg : Cfg} {S : Nat → P.Conn → Prop}

def OnlineIface.pkt (I : OnlineIface P core cfg S) (t : I.Tok) : Dg → P.Packet
  | .chunk f => I.chunkPkt t f
  | .ka a => I.kaPkt t a

theorem OnlineIface.view_pkt (I : OnlineIface P core cfg S) (t : I.Tok) (d : Dg) :
    P.view (I.pkt t d) = some (d.fl.ack, d.fl.chunks) := by
  cases d with
  | chunk f => exact I.view_chunk t f
  | ka a => exact I.view_ka t a

theorem flush_canSend_false (o : Online) : o.flush.1.canSend = false := by
  unfold Online.flush
  split
  · rename_i h; simpa using h
  · simp [Online.canSend, PacketContents.empty]

theorem receive_nil {cfg : Cfg} (now : Nat) (o : Online) (s : Timeout) :
    o.receive cfg now s false [] = .ok (o, s, [], []) := by
  cases o
  simp [Online.receive, chunksSeqOk, receiveEager, receiveLazy]

/-- one delivery to an online connection: it returns, stays online with its token, and its core does
`RecvRel` -/
theorem OnlineIface.recv_dg (I : OnlineIface P core cfg S) (hc : cfg.Ok) {now : Nat} {draws : List Nat}
    {tx ty : I.Tok} {o : Online} {s : Timeout} (d : Dg) (alt : P.Alt) (hp : I.peer tx ty) (hinv : o.Inv cfg)
    (hack : d.fl.ack < seqMod) (hseq : chunksSeqOk d.fl.chunks = true) :
    ∃ o2 s2 r, P.recv now draws (I.mkc ty o s) (I.pkt tx d) alt = .ok r ∧ r.conn = I.mkc ty o2 s2 ∧
      RecvRel cfg o d.fl o2 := by
  obtain ⟨hfa, hinv1⟩ := Online.feedAck_spec hinv hack
  cases d with
  | chunk f =>
    obtain ⟨o2, s2, fl, evs, hrc, _, hval, _⟩ :=
      Online.receive_spec hc hinv1 now s f.requestResend f.chunks hseq
    exact ⟨o2, s2, _, I.recv_chunk now draws tx ty o s f alt _ o2 s2 fl evs hp hfa hrc hval, rfl,
      ⟨now, s, s2, _, fl, evs, hfa, hrc⟩⟩
  | ka a =>
    exact ⟨_, s, _, I.recv_ka now draws tx ty o s a alt _ hp hfa, rfl,
      ⟨now, s, s, _, [], [], hfa, receive_nil now _ s⟩⟩

/-- **the two ticks of one side in a round**: at `now0 + 1 s` and `now0 + 1.5 s`, from an online
connection whose timers are due as the invariant says -/
theorem OnlineIface.tickPhase (I : OnlineIface P core cfg S) (hc : cfg.Ok) {now0 : Nat} {t : I.Tok}
    {o : Online} {s : Timeout} (hinv : o.Inv cfg) (hack : o.ack < seqMod) (hs : SendDue now0 s) (hq : RqDue now0 o) :
    ∃ (c1 : P.Conn) (o2 : Online) (s2 : Timeout) (d1 d2 : List Dg),
      P.call (now0 + resendUs) [] (I.mkc t o s) .tick = .ok { conn := c1, sent := d1.map (I.pkt t) } ∧
      P.call (now0 + resendUs + sendUs) [] c1 .tick = .ok { conn := I.mkc t o2 s2, sent := d2.map (I.pkt t) } ∧
      PhaseSpec cfg o o2 ((d1 ++ d2).map Dg.fl) ∧ d2 ≠ [] := by
  have hsend1 : s.triggered (now0 + resendUs) = true := by
    apply hs.triggered
    rw [sendUs_val, resendUs_val]; omega
  by_cases hemp : o.resendQueue = []
  · -- nothing unacknowledged: flush or keep-alive, then a keep-alive
    have hd1 : o.resendDeadline.triggered (now0 + resendUs) = false := by
      simp [Online.resendDeadline, hemp, Timeout.triggered]
    have hflq : o.flush.1.resendQueue = [] := by rw [Online.flush_resendQueue]; exact hemp
    have hd2 : o.flush.1.resendDeadline.triggered (now0 + resendUs + sendUs) = false := by
      simp [Online.resendDeadline, hflq, Timeout.triggered]
    have hsend2 : (Timeout.after (now0 + resendUs) sendUs).triggered (now0 + resendUs + sendUs) = true := by
      simp [Timeout.after, Timeout.triggered]
    have hack2 : o.flush.1.ack < seqMod := by rw [Online.flush_ack]; exact hack
    have h2 := I.tick_ka (now0 + resendUs + sendUs) t o.flush.1 (Timeout.after (now0 + resendUs) sendUs) hd2 hsend2
      (flush_canSend_false o) hack2
    by_cases hcs : o.canSend = true
    · have h1 := I.tick_flush (now0 + resendUs) t o s hd1 hsend1 hcs (Online.flush_valid hinv)
      refine ⟨I.mkc t o.flush.1 (Timeout.after (now0 + resendUs) sendUs), o.flush.1,
        Timeout.after (now0 + resendUs + sendUs) sendUs, o.flush.2.map Dg.chunk, [Dg.ka o.flush.1.ack], ?_, ?_, ?_,
        by simp⟩
      · rw [h1]; simp [List.map_map, Function.comp_def, OnlineIface.pkt]
      · rw [h2]; simp [OnlineIface.pkt]
      · have := PhaseSpec.of_flush_kas hinv hemp [⟨o.ack, false, 0, []⟩] (by simp) (by simp)
        simpa [List.map_map, Function.comp_def, Dg.fl, Online.flush_ack] using this
    · have hcs' : o.canSend = false := by simpa using hcs
      obtain ⟨hf2, hf1⟩ := flush_silent o hcs'
      have h1 := I.tick_ka (now0 + resendUs) t o s hd1 hsend1 hcs' hack
      rw [hf1] at h2
      refine ⟨I.mkc t o (Timeout.after (now0 + resendUs) sendUs), o,
        Timeout.after (now0 + resendUs + sendUs) sendUs, [Dg.ka o.ack], [Dg.ka o.ack], ?_, ?_, ?_, by simp⟩
      · rw [h1]; simp [OnlineIface.pkt]
      · rw [h2]; simp [OnlineIface.pkt]
      · have := PhaseSpec.of_flush_kas hinv hemp [⟨o.ack, false, 0, []⟩, ⟨o.ack, false, 0, []⟩] (by simp) (by simp)
        rw [hf1, hf2] at this
        simpa [Dg.fl] using this
  · -- the retransmission timer has fired: resend, then flush the rest
    obtain ⟨o1, s1, fl, he, hinv1, hval, _, _, hlen, _⟩ := Online.resend_spec hc hinv (now0 + resendUs) s
    have hlast : ∃ c, o.resendQueue.getLast? = some c ∧ c ∈ o.resendQueue := by
      cases hql : o.resendQueue.getLast? with
      | none => exact absurd (List.getLast?_eq_none_iff.mp hql) hemp
      | some c => exact ⟨c, rfl, List.mem_of_getLast? hql⟩
    obtain ⟨c, hc1, hc2⟩ := hlast
    have hd1 : o.resendDeadline.triggered (now0 + resendUs) = true := by
      simp only [Online.resendDeadline, hc1]
      exact (hq c hc2).triggered (Nat.le_refl _)
    have h1 := I.tick_resend (now0 + resendUs) t o s o1 s1 fl hd1 he hval
    obtain ⟨hps, hcs⟩ := PhaseSpec.of_resend_flush hinv hinv1 hemp he
    -- second tick: the timers were restarted, the send timer is due
    have hemp1 : o1.resendQueue ≠ [] := by
      intro hh; rw [hh] at hlen; exact hemp (List.length_eq_zero_iff.mp hlen.symm)
    have hall : ∀ r ∈ o1.resendQueue, r.nextSend = Timeout.after (now0 + resendUs) resendUs := by
      rcases (resend_timers he).1 with h | h
      · exact absurd h hemp
      · exact h
    have hd2 : o1.resendDeadline.triggered (now0 + resendUs + sendUs) = false := by
      cases hql : o1.resendQueue.getLast? with
      | none => exact absurd (List.getLast?_eq_none_iff.mp hql) hemp1
      | some c1 =>
        simp only [Online.resendDeadline, hql, hall c1 (List.mem_of_getLast? hql), Timeout.after, Timeout.triggered,
          decide_eq_false_iff_not, Nat.not_le]
        rw [sendUs_val, resendUs_val]; omega
    have hsend2 : s1.triggered (now0 + resendUs + sendUs) = true := by
      rcases (resend_timers he).2 with h | h
      · rw [h]; apply hs.triggered; omega
      · rw [h]; simp [Timeout.after, Timeout.triggered]
    have h2 := I.tick_flush (now0 + resendUs + sendUs) t o1 s1 hd2 hsend2 hcs (Online.flush_valid hinv1)
    refine ⟨I.mkc t o1 s1, o1.flush.1, Timeout.after (now0 + resendUs + sendUs) sendUs, fl.map Dg.chunk,
      o1.flush.2.map Dg.chunk, ?_, ?_, ?_, by rw [flush_emits o1 hcs]; simp⟩
    · rw [h1]; simp [List.map_map, Function.comp_def, OnlineIface.pkt]
    · rw [h2]; simp [List.map_map, Function.comp_def, OnlineIface.pkt]
    · simpa [List.map_map, Function.comp_def, Dg.fl] using hps

/-! ## deliveries to one endpoint -/

/-- deliver one packet to an endpoint at time `now` -/
def recvEnd (now : Nat) (alt : P.Alt) (e : End P) (pk : P.Packet) : Option (End P) :=
  match P.recv now [] e.conn pk alt with
  | .ok r => some (e.book r [])
  | .error _ => none

def recvEnds (now : Nat) (alt : P.Alt) : End P → List P.Packet → Option (End P)
  | e, [] => some e
  | e, pk :: pks =>
    match recvEnd now alt e pk with
    | none => none
    | some e1 => recvEnds now alt e1 pks

theorem World.get_set_same (w : World P) (s : Side) (e : End P) : (w.set s e).get s = e := by
  cases s <;> rfl
theorem World.get_set_other (w : World P) (s : Side) (e : End P) : (w.set s e).get s.other = w.get s.other := by
  cases s <;> rfl
theorem World.set_set (w : World P) (s : Side) (e e' : End P) : (w.set s e).set s e' = w.set s e' := by
  cases s <;> rfl
theorem World.set_now (w : World P) (s : Side) (e : End P) : (w.set s e).now = w.now := by
  cases s <;> rfl
theorem World.set_get (w : World P) (s : Side) : w.set s (w.get s) = w := by
  cases s <;> rfl

/-- delivering the datagrams at indices `old.length …` of the peer's history, in order -/
theorem run_deliverRange (to : Side) (alt : P.Alt) (n d : Nat) : ∀ (pks : List P.Packet)
    (old rest : List (Sent P.Packet)) (w : World P),
    (w.get to.other).out = old ++ pks.map (fun p => ⟨p, n, d⟩) ++ rest →
    run w ((List.range' old.length pks.length).map fun i => Move.deliver to i [] alt) =
      (recvEnds w.now alt (w.get to) pks).map (w.set to) := by
  intro pks
  induction pks with
  | nil =>
    intro old rest w _
    simp [run, recvEnds, World.set_get]
  | cons pk pks ih =>
    intro old rest w hout
    have hidx : (w.get to.other).out[old.length]? = some ⟨pk, n, d⟩ := by
      rw [hout, List.append_assoc, List.getElem?_append_right (Nat.le_refl _)]; simp
    simp only [List.length_cons, List.range'_succ, List.map_cons, run, step, hidx, recvEnds, recvEnd]
    cases hr : P.recv w.now [] (w.get to).conn pk alt with
    | error e => rfl
    | ok r =>
      simp only
      have := ih (old ++ [⟨pk, n, d⟩]) rest (w.set to ((w.get to).book r []))
        (by rw [World.get_set_other, hout]; simp)
      simp only [List.length_append, List.length_singleton] at this
      rw [this, World.get_set_same, World.set_now]
      cases recvEnds w.now alt ((w.get to).book r []) pks with
      | none => rfl
      | some e' => simp [World.set_set]

theorem h2_fresh {cfg : Cfg} {e peer : End P} (h : AInv cfg (absEnd P core e) (absEnd P core peer))
    {dg : Sent P.Packet} (hdg : dg ∈ peer.out) (hn : dg.nStamp = peer.nAbs) (hd : e.nAbs ≤ dg.dStamp + 512) :
    ∀ ack cs, P.view dg.pkt = some (ack, cs) → e.nAbs < unwrap dg.dStamp ack + 1024 ∧
      ∀ c ∈ cs, ∀ s r', c.vital = some (s, r') → e.dAbs + 1 < unwrap dg.nStamp s + 1024 := by
  intro ack cs hv
  have hm := mem_absEnd_out (core := core) hdg hv
  have ha := h.1.acks _ hm
  have hn' := h.2.net _ hm
  dsimp only [AEnt.fl] at ha hn'
  obtain ⟨a1, _⟩ := ha
  obtain ⟨n1, n2, _⟩ := hn'
  have hpn : (absEnd P core peer).sub.length = peer.nAbs := rfl
  refine ⟨?_, ?_⟩
  · rw [unwrap_eq (Nat.le_refl _) (by omega) a1]; omega
  · intro c hcm s r' hvit
    obtain ⟨k, k1, k2, k3⟩ := n2 c hcm s r' hvit
    rw [unwrap_eq (q := k + 1) (by omega) (by omega) k3.2]
    have hdle := h.2.dle
    have : e.dAbs ≤ peer.nAbs := hdle
    omega

theorem entry_ok {cfg : Cfg} {e peer : End P} (h : AInv cfg (absEnd P core e) (absEnd P core peer))
    {dg : Sent P.Packet} (hdg : dg ∈ peer.out) {ack : Nat} {cs : List Chunk} (hv : P.view dg.pkt = some (ack, cs)) :
    ack < seqMod ∧ chunksSeqOk cs = true := by
  have hm := mem_absEnd_out (core := core) hdg hv
  have ha := h.1.acks _ hm
  have hn' := h.2.net _ hm
  dsimp only [AEnt.fl] at ha hn'
  obtain ⟨a1, _⟩ := ha
  obtain ⟨_, n2, _⟩ := hn'
  refine ⟨by rw [a1, seqMod_eq]; omega, ?_⟩
  simp only [chunksSeqOk, List.all_eq_true]
  intro c hcm
  cases hvit : c.vital with
  | none => rfl
  | some v =>
    obtain ⟨sq, r⟩ := v
    obtain ⟨k, _, _, hk⟩ := n2 c hcm sq r hvit
    simp only [decide_eq_true_eq]
    rw [hk.2, seqMod_eq]; omega

theorem book_nAbs (e : End P) (r : Ret P.Conn P.Packet) : (e.book r []).nAbs = e.nAbs := by
  simp [End.book, End.nAbs, End.submittedVital]

theorem book_dAbs_le (e : End P) (r : Ret P.Conn P.Packet) (sub : List (Bytes × Bool)) : e.dAbs ≤ (e.book r sub).dAbs := by
  simp [End.book, End.dAbs, End.deliveredVital, vitalPayloads_append]

/-- **a block of deliveries** to an online endpoint `e` of datagrams of the online peer's history
that were stamped with the peer's present submission count (no submission since) -/
theorem OnlineIface.block (I : OnlineIface P core cfg S) (hc : cfg.Ok) (hs : Sim P core cfg) (hl : LocT P S)
    {now : Nat} {tx ty : I.Tok} (hp : I.peer tx ty) (alt : P.Alt) (peer : End P) (n d : Nat)
    (hn : n = peer.nAbs) :
    ∀ (dgs : List Dg) (e : End P) (o : Online) (s : Timeout),
      e.conn = I.mkc ty o s → e.nAbs ≤ d + 512 →
      (∀ x ∈ dgs, (⟨I.pkt tx x, n, d⟩ : Sent P.Packet) ∈ peer.out) →
      AInv cfg (absEnd P core e) (absEnd P core peer) → S now e.conn →
      ∃ e' o' s', recvEnds now alt e (dgs.map (I.pkt tx)) = some e' ∧ e'.conn = I.mkc ty o' s' ∧
        RecvListRel cfg o (dgs.map Dg.fl) o' ∧ AInv cfg (absEnd P core e') (absEnd P core peer) ∧
        S now e'.conn ∧ e'.nAbs = e.nAbs ∧ e'.submitted = e.submitted ∧ e.dAbs ≤ e'.dAbs ∧
        ∃ ext, e'.out = e.out ++ ext := by
  intro dgs
  induction dgs with
  | nil =>
    intro e o s he _ _ h hS
    exact ⟨e, o, s, rfl, he, .nil o, h, hS, rfl, rfl, Nat.le_refl _, [], by simp⟩
  | cons x dgs ih =>
    intro e o s he hd hst h hS
    have hmem := hst x (by simp)
    have hview := I.view_pkt tx x
    have hinv : o.Inv cfg := (h.1.snd o (by simp [absEnd, he, I.core_mk])).inv
    obtain ⟨hack, hseq⟩ := entry_ok (core := core) h hmem hview
    obtain ⟨o2, s2, r, hr, hrc, hrel⟩ := I.recv_dg hc (now := now) (draws := []) (s := s) x alt hp hinv hack hseq
    rw [← he] at hr
    have h' := hs.recv now [] e peer _ alt r hmem hr h (h2_fresh (core := core) h hmem hn hd)
    have hS' := hl.recv now [] e.conn _ alt r hr hS
    obtain ⟨e', o', s', f1, f2, f3, f4, f5, f6, f7, f8, ext, f9⟩ := ih (e.book r []) o2 s2 hrc
      (by rw [book_nAbs]; exact hd) (fun y hy => hst y (List.mem_cons_of_mem _ hy)) h' hS'
    refine ⟨e', o', s', ?_, f2, .cons hrel f3, f4, f5, by rw [f6, book_nAbs], by rw [f7]; simp [End.book],
      Nat.le_trans (book_dAbs_le e r []) f8, _, by rw [f9]; simp only [End.book]; rw [List.append_assoc]⟩
    simp only [List.map_cons, recvEnds, recvEnd, hr]
    exact f1

/-! ## one timed round of the world is a `RoundV` of the two cores -/

def sd : Bool → Side
  | true => .a
  | false => .b

/-- the two cores (fresh if not online) with the ghost logs -/
def viewW (core : P.Conn → Option Online) (w : World P) : View :=
  ⟨fun x => (core (w.get (sd x)).conn).getD .new, fun x => (w.get (sd x)).submittedVital,
    fun x => (w.get (sd x)).deliveredVital⟩

/-- both sides online with matching tokens, the safety invariant and the timer bounds -/
structure OnlineW (I : OnlineIface P core cfg S) (ta tb : I.Tok) (w : World P) : Prop where
  winv : WInv P core cfg w
  tinv : TInv S w
  ca : ∃ o s, w.a.conn = I.mkc ta o s
  cb : ∃ o s, w.b.conn = I.mkc tb o s
  pab : I.peer ta tb
  pba : I.peer tb ta

theorem vinv_of_ainv {ea eb : End P} {oa ob : Online} (h : AInv cfg (absEnd P core ea) (absEnd P core eb))
    (ha : core ea.conn = some oa) (hb : core eb.conn = some ob) :
    VInv cfg ⟨fun x => if x then oa else ob, fun x => if x then ea.submittedVital else eb.submittedVital,
      fun x => if x then ea.deliveredVital else eb.deliveredVital⟩ := by
  have sa := h.1.snd oa ha
  have sb := h.2.snd ob hb
  have ra := h.2.rcv oa ha
  have rb := h.1.rcv ob hb
  refine ⟨?_, ?_, ?_, ?_, ?_, ?_, ?_⟩ <;> intro x <;> cases x
  · exact sb.inv
  · exact sa.inv
  · exact ra
  · exact rb
  · exact h.2.pre
  · exact h.1.pre
  · exact h.2.dle
  · exact h.1.dle
  · exact sb.qlen
  · exact sa.qlen
  · exact sb.qwin
  · exact sa.qwin
  · exact sb.q
  · exact sa.q

theorem viewW_eq (w : World P) {oa ob : Online} (ha : core w.a.conn = some oa) (hb : core w.b.conn = some ob) :
    viewW core w = ⟨fun x => if x then oa else ob, fun x => if x then w.a.submittedVital else w.b.submittedVital,
      fun x => if x then w.a.deliveredVital else w.b.deliveredVital⟩ := by
  simp only [viewW]
  congr 1 <;> funext x <;> cases x <;> simp [sd, World.get, ha, hb]

theorem OnlineW.vinv {I : OnlineIface P core cfg S} {ta tb : I.Tok} {w : World P} (h : OnlineW I ta tb w) :
    VInv cfg (viewW core w) := by
  obtain ⟨oa, sa, ha⟩ := h.ca
  obtain ⟨ob, sb, hb⟩ := h.cb
  have ca : core w.a.conn = some oa := by rw [ha]; exact I.core_mk _ _ _
  have cb : core w.b.conn = some ob := by rw [hb]; exact I.core_mk _ _ _
  rw [viewW_eq w ca cb]
  exact vinv_of_ainv h.winv ca cb

/-- a tick that returns, booked -/
def tickRet (c : P.Conn) (pks : List P.Packet) : Ret P.Conn P.Packet := { conn := c, sent := pks }

theorem book_tick_logs (e : End P) (c : P.Conn) (pks : List P.Packet) :
    (e.book (tickRet c pks) []).submitted = e.submitted ∧ (e.book (tickRet c pks) []).events = e.events ∧
    (e.book (tickRet c pks) []).conn = c ∧
    (e.book (tickRet c pks) []).out = e.out ++ pks.map (fun p => ⟨p, e.nAbs, e.dAbs⟩) := by
  simp [End.book, tickRet]

theorem run_tickMoves (w : World P) (ca1 cb1 ca2 cb2 : P.Conn) (pa1 pb1 pa2 pb2 : List P.Packet)
    (ha1 : P.call (w.now + resendUs) [] w.a.conn .tick = .ok (tickRet ca1 pa1))
    (hb1 : P.call (w.now + resendUs) [] w.b.conn .tick = .ok (tickRet cb1 pb1))
    (ha2 : P.call (w.now + resendUs + sendUs) [] ca1 .tick = .ok (tickRet ca2 pa2))
    (hb2 : P.call (w.now + resendUs + sendUs) [] cb1 .tick = .ok (tickRet cb2 pb2)) :
    run w tickMoves = some
      { a := (w.a.book (tickRet ca1 pa1) []).book (tickRet ca2 pa2) []
        b := (w.b.book (tickRet cb1 pb1) []).book (tickRet cb2 pb2) []
        now := w.now + resendUs + sendUs } := by
  simp only [tickMoves, run, step, World.get, World.set, ha1, hb1]
  have e1 : (w.a.book (tickRet ca1 pa1) []).conn = ca1 := rfl
  have e2 : (w.b.book (tickRet cb1 pb1) []).conn = cb1 := rfl
  simp only [e1, e2, ha2, hb2]

theorem timedRound_spec (I : OnlineIface P core cfg S) (hc : cfg.Ok) (hs : Sim P core cfg) (hl : LocT P S)
    (alt : P.Alt) {ta tb : I.Tok} {w : World P} (h : OnlineW I ta tb w) :
    ∃ wb w', timedRound alt w = some w' ∧ OnlineW I ta tb w' ∧
      RoundV cfg (viewW core w) (viewW core wb) (viewW core w') := by
  obtain ⟨oa, sa, ha⟩ := h.ca
  obtain ⟨ob, sb, hb⟩ := h.cb
  have hca : core w.a.conn = some oa := by rw [ha]; exact I.core_mk _ _ _
  have hcb : core w.b.conn = some ob := by rw [hb]; exact I.core_mk _ _ _
  have hwinv : AInv cfg (absEnd P core w.a) (absEnd P core w.b) := h.winv
  have hinva : oa.Inv cfg := (hwinv.1.snd oa hca).inv
  have hinvb : ob.Inv cfg := (hwinv.2.snd ob hcb).inv
  have hacka : oa.ack < seqMod := by rw [hwinv.2.rcv oa hca, seqMod_eq]; omega
  have hackb : ob.ack < seqMod := by rw [hwinv.1.rcv ob hcb, seqMod_eq]; omega
  have hta := h.tinv.1; rw [ha] at hta
  have htb := h.tinv.2; rw [hb] at htb
  obtain ⟨hsa, hqa⟩ := I.timed_mk _ _ _ _ hta
  obtain ⟨hsb, hqb⟩ := I.timed_mk _ _ _ _ htb
  obtain ⟨ca1, oa2, sa2, da1, da2, ea1, ea2, hpsa, _⟩ := I.tickPhase hc (t := ta) hinva hacka hsa hqa
  obtain ⟨cb1, ob2, sb2, db1, db2, eb1, eb2, hpsb, _⟩ := I.tickPhase hc (t := tb) hinvb hackb hsb hqb
  rw [← ha] at ea1
  rw [← hb] at eb1
  have hrun := run_tickMoves w ca1 cb1 (I.mkc ta oa2 sa2) (I.mkc tb ob2 sb2) _ _ _ _ ea1 eb1 ea2 eb2
  -- the world after the ticks
  generalize hw1 : ({ a := (w.a.book (tickRet ca1 (da1.map (I.pkt ta))) []).book (tickRet (I.mkc ta oa2 sa2) (da2.map (I.pkt ta))) []
                      b := (w.b.book (tickRet cb1 (db1.map (I.pkt tb))) []).book (tickRet (I.mkc tb ob2 sb2) (db2.map (I.pkt tb))) []
                      now := w.now + resendUs + sendUs } : World P) = w1 at hrun
  have w1a : w1.a = (w.a.book (tickRet ca1 (da1.map (I.pkt ta))) []).book (tickRet (I.mkc ta oa2 sa2) (da2.map (I.pkt ta))) [] := by
    rw [← hw1]
  have w1b : w1.b = (w.b.book (tickRet cb1 (db1.map (I.pkt tb))) []).book (tickRet (I.mkc tb ob2 sb2) (db2.map (I.pkt tb))) [] := by
    rw [← hw1]
  have w1now : w1.now = w.now + resendUs + sendUs := by rw [← hw1]
  -- invariants after the ticks
  have hA1 : AInv cfg (absEnd P core (w.a.book (tickRet ca1 (da1.map (I.pkt ta))) [])) (absEnd P core w.b) :=
    hs.call _ _ w.a .tick _ _ ea1 hwinv (by intro d hd; cases hd)
  have hB1 : AInv cfg (absEnd P core (w.b.book (tickRet cb1 (db1.map (I.pkt tb))) []))
      (absEnd P core (w.a.book (tickRet ca1 (da1.map (I.pkt ta))) [])) :=
    hs.call _ _ w.b .tick _ _ eb1 hA1.symm (by intro d hd; cases hd)
  have hA2 : AInv cfg (absEnd P core w1.a) (absEnd P core (w.b.book (tickRet cb1 (db1.map (I.pkt tb))) [])) := by
    rw [w1a]
    exact hs.call _ _ (w.a.book (tickRet ca1 (da1.map (I.pkt ta))) []) .tick _ _ ea2 hB1.symm (by intro d hd; cases hd)
  have hB2 : AInv cfg (absEnd P core w1.b) (absEnd P core w1.a) := by
    rw [w1b]
    exact hs.call _ _ (w.b.book (tickRet cb1 (db1.map (I.pkt tb))) []) .tick _ _ eb2 hA2.symm (by intro d hd; cases hd)
  have hT1 : TInv S w1 := by
    constructor
    · rw [w1a, w1now]
      refine hl.call _ _ _ .tick _ ea2 (hl.mono _ _ _ (Nat.le_add_right _ _) ?_)
      exact hl.call _ _ _ .tick _ ea1 (hl.mono _ _ _ (Nat.le_add_right _ _) h.tinv.1)
    · rw [w1b, w1now]
      refine hl.call _ _ _ .tick _ eb2 (hl.mono _ _ _ (Nat.le_add_right _ _) ?_)
      exact hl.call _ _ _ .tick _ eb1 (hl.mono _ _ _ (Nat.le_add_right _ _) h.tinv.2)
  -- the histories after the ticks
  have outa : w1.a.out = w.a.out ++ ((da1 ++ da2).map (I.pkt ta)).map (fun p => ⟨p, w.a.nAbs, w.a.dAbs⟩) := by
    rw [w1a]; simp [End.book, tickRet, End.nAbs, End.dAbs, End.submittedVital, End.deliveredVital]
  have outb : w1.b.out = w.b.out ++ ((db1 ++ db2).map (I.pkt tb)).map (fun p => ⟨p, w.b.nAbs, w.b.dAbs⟩) := by
    rw [w1b]; simp [End.book, tickRet, End.nAbs, End.dAbs, End.submittedVital, End.deliveredVital]
  have conna : w1.a.conn = I.mkc ta oa2 sa2 := by rw [w1a]; rfl
  have connb : w1.b.conn = I.mkc tb ob2 sb2 := by rw [w1b]; rfl
  have suba : w1.a.submitted = w.a.submitted := by rw [w1a]; simp [End.book, tickRet]
  have subb : w1.b.submitted = w.b.submitted := by rw [w1b]; simp [End.book, tickRet]
  have eva : w1.a.events = w.a.events := by rw [w1a]; simp [End.book, tickRet]
  have evb : w1.b.events = w.b.events := by rw [w1b]; simp [End.book, tickRet]
  have nAa : w1.a.nAbs = w.a.nAbs := by simp [End.nAbs, End.submittedVital, suba]
  have nAb : w1.b.nAbs = w.b.nAbs := by simp [End.nAbs, End.submittedVital, subb]
  have dAa : w1.a.dAbs = w.a.dAbs := by simp [End.dAbs, End.deliveredVital, eva]
  have dAb : w1.b.dAbs = w.b.dAbs := by simp [End.dAbs, End.deliveredVital, evb]
  -- block 1: a's tick datagrams to b
  have hwin_ba : w.b.nAbs ≤ w.a.dAbs + 512 := hwinv.2.win
  have hwin_ab : w.a.nAbs ≤ w.b.dAbs + 512 := hwinv.1.win
  obtain ⟨eb3, ob3, sb3, g1, g2, g3, g4, g5, g6, g7, g8, extb, g9⟩ :=
    I.block hc hs hl (now := w1.now) h.pab alt w1.a w.a.nAbs w.a.dAbs nAa.symm (da1 ++ da2) w1.b ob2 sb2 connb
      (by rw [nAb]; exact hwin_ba)
      (by
        intro x hx
        rw [outa]
        refine List.mem_append_right _ ?_
        simp only [List.mem_map]
        exact ⟨I.pkt ta x, ⟨x, hx, rfl⟩, rfl⟩)
      hB2 hT1.2
  have hrun1 : run w1 (deliverRange .b w.a.out.length w1.a.out.length alt) = some (w1.set .b eb3) := by
    have := run_deliverRange (P := P) .b alt w.a.nAbs w.a.dAbs ((da1 ++ da2).map (I.pkt ta)) w.a.out [] w1
      (by simp only [Side.other, World.get]; rw [outa]; simp)
    simp only [deliverRange]
    have hlen : w1.a.out.length - w.a.out.length = ((da1 ++ da2).map (I.pkt ta)).length := by
      rw [outa]; simp
    rw [hlen, this]
    simp only [World.get]
    rw [g1]; rfl
  -- block 2: b's tick datagrams to a
  have hb3out : eb3.out = w.b.out ++ ((db1 ++ db2).map (I.pkt tb)).map (fun p => ⟨p, w.b.nAbs, w.b.dAbs⟩) ++ extb := by
    rw [g9, outb]
  obtain ⟨ea3, oa3, sa3, k1, k2, k3, k4, k5, k6, k7, k8, exta, k9⟩ :=
    I.block hc hs hl (now := w1.now) h.pba alt eb3 w.b.nAbs w.b.dAbs (by rw [g6, nAb]) (db1 ++ db2) w1.a oa2 sa2 conna
      (by rw [nAa]; exact hwin_ab)
      (by
        intro x hx
        rw [hb3out]
        refine List.mem_append_left _ (List.mem_append_right _ ?_)
        simp only [List.mem_map]
        exact ⟨I.pkt tb x, ⟨x, hx, rfl⟩, rfl⟩)
      g4.symm hT1.1
  have hrun2 : run (w1.set .b eb3) (deliverRange .a w.b.out.length w1.b.out.length alt) =
      some ((w1.set .b eb3).set .a ea3) := by
    have := run_deliverRange (P := P) .a alt w.b.nAbs w.b.dAbs ((db1 ++ db2).map (I.pkt tb)) w.b.out extb (w1.set .b eb3)
      (by simp only [Side.other, World.get, World.set]; rw [hb3out])
    simp only [deliverRange]
    have hlen : w1.b.out.length - w.b.out.length = ((db1 ++ db2).map (I.pkt tb)).length := by
      rw [outb]; simp
    rw [hlen, this]
    simp only [World.get, World.set]
    rw [k1]; rfl
  refine ⟨w1, (w1.set .b eb3).set .a ea3, ?_, ?_, ?_⟩
  · simp only [timedRound, hrun, hrun1, hrun2]
  · exact ⟨k4, ⟨k5, g5⟩, ⟨oa3, sa3, k2⟩, ⟨ob3, sb3, g2⟩, h.pab, h.pba⟩
  · -- the round on the two cores
    have c1a : core w1.a.conn = some oa2 := by rw [conna]; exact I.core_mk _ _ _
    have c1b : core w1.b.conn = some ob2 := by rw [connb]; exact I.core_mk _ _ _
    have c3a : core ea3.conn = some oa3 := by rw [k2]; exact I.core_mk _ _ _
    have c3b : core eb3.conn = some ob3 := by rw [g2]; exact I.core_mk _ _ _
    have hv0 := viewW_eq w hca hcb
    have hvb := viewW_eq w1 c1a c1b
    have hv' : viewW core ((w1.set .b eb3).set .a ea3) =
        ⟨fun x => if x then oa3 else ob3, fun x => if x then ea3.submittedVital else eb3.submittedVital,
          fun x => if x then ea3.deliveredVital else eb3.deliveredVital⟩ :=
      viewW_eq ((w1.set .b eb3).set .a ea3) (ob := ob3) c3a c3b
    rw [hv0, hvb, hv']
    refine ⟨vinv_of_ainv hwinv hca hcb, vinv_of_ainv hB2.symm c1a c1b, vinv_of_ainv k4 c3a c3b, ?_, ?_, ?_, ?_, ?_⟩
    · funext x; cases x
      · simp [End.submittedVital, subb]
      · simp [End.submittedVital, suba]
    · funext x; cases x
      · simp [End.deliveredVital, evb]
      · simp [End.deliveredVital, eva]
    · funext x; cases x
      · simp [End.submittedVital, g7, subb]
      · simp [End.submittedVital, k7, suba]
    · intro y; cases y
      · have h1 := g8; have h2 := dAb
        simp only [End.dAbs] at h1 h2
        simp only [Bool.false_eq_true, if_false]; omega
      · have h1 := k8; have h2 := dAa
        simp only [End.dAbs] at h1 h2
        simp only [if_true]; omega
    · intro x; cases x
      · exact ⟨(db1 ++ db2).map Dg.fl, hpsb, k3⟩
      · exact ⟨(da1 ++ da2).map Dg.fl, hpsa, g3⟩

theorem timedRounds_succ (alt : P.Alt) (k : Nat) (w : World P) :
    timedRounds alt (k + 1) w = (timedRound alt w).bind (timedRounds alt k) := by
  simp only [timedRounds]
  cases timedRound alt w <;> rfl

/-- **timed progress, online phase**: from two online connections with matching tokens (in a world
satisfying the safety invariant and the timer bounds) four timed rounds — clock + 1 s, both tick,
clock + 0.5 s, both tick, the tick datagrams are delivered in order — all return and end with
everything handed over, both resend queues and packets empty and no resend requested -/
theorem timed_progress (I : OnlineIface P core cfg S) (hc : cfg.Ok) (hs : Sim P core cfg) (hl : LocT P S)
    (alt : P.Alt) {ta tb : I.Tok} {w : World P} (h : OnlineW I ta tb w) :
    ∃ w', timedRounds alt 4 w = some w' ∧ (viewW core w').quiescent ∧ OnlineW I ta tb w' := by
  obtain ⟨b1, w1, e1, o1, R1⟩ := timedRound_spec I hc hs hl alt h
  obtain ⟨b2, w2, e2, o2, R2⟩ := timedRound_spec I hc hs hl alt o1
  obtain ⟨b3, w3, e3, o3, R3⟩ := timedRound_spec I hc hs hl alt o2
  obtain ⟨b4, w4, e4, o4, R4⟩ := timedRound_spec I hc hs hl alt o3
  refine ⟨w4, ?_, four_rounds R1 R2 R3 R4, o4⟩
  simp only [timedRounds_succ, e1, e2, e3, e4, Option.bind_some, timedRounds]

theorem OnlineW.quiescent {I : OnlineIface P core cfg S} {ta tb : I.Tok} {w : World P} (h : OnlineW I ta tb w)
    (hq : (viewW core w).quiescent) : w.quiescent := by
  obtain ⟨oa, sa, ha⟩ := h.ca
  obtain ⟨ob, sb, hb⟩ := h.cb
  have hca : core w.a.conn = some oa := by rw [ha]; exact I.core_mk _ _ _
  have hcb : core w.b.conn = some ob := by rw [hb]; exact I.core_mk _ _ _
  rw [viewW_eq w hca hcb] at hq
  have qa := hq true
  have qb := hq false
  simp only [Bool.not_true, Bool.not_false, if_true, Bool.false_eq_true, if_false] at qa qb
  refine ⟨qa.1, qb.1, ?_⟩
  intro s
  cases s with
  | a => exact ⟨oa, by show P.online w.a.conn = _; rw [ha]; exact I.online_mk _ _ _, qa.2⟩
  | b => exact ⟨ob, by show P.online w.b.conn = _; rw [hb]; exact I.online_mk _ _ _, qb.2⟩

end Tw.NetSim
