import Tw.Proofs.SnapExt

/-! C11: what the readers accept can be used with every other operation: allocation bound,
the invariant `build_from_raw` establishes for any raw snapshot, `items()`, `item()`, `recycle()`
never panic on an accepted snapshot. -/
namespace Tw.Snap

def measure (s : RawSnap) : Nat := s.items.length + dataLen s.items

theorem addItem_measure {s s' : RawSnap} {k : Int} {d : List Int} (h : s.addItem k d = .ok s') :
    measure s' = measure s + 1 + d.length := by
  obtain ⟨h1, h2⟩ := addItem_ok h
  unfold measure
  rw [h1, length_minsert_of_none h2, dataLen_minsert_of_none h2]
  omega

theorem readItemsLoop_measure (itemData : List Int) :
    ∀ (offs : List Int) (prev : Nat) (s s' : RawSnap), measure s = prev →
      readItemsLoop itemData itemData.length offs prev s = .ok s' → measure s' = itemData.length := by
  intro offs
  induction offs with
  | nil =>
    intro prev s s' hm h
    simp only [readItemsLoop] at h
    split at h
    · cases h
    · rename_i hlt
      obtain ⟨k, hk, he⟩ := addAt_cases itemData prev itemData.length s (by omega) (Nat.le_refl _)
      rw [he] at h
      cases ha : s.addItem k ((itemData.drop (prev + 1)).take (itemData.length - (prev + 1))) with
      | error e => rw [ha] at h; cases h
      | ok s1 =>
        rw [ha] at h
        injection h with h
        subst h
        rw [addItem_measure ha, hm, List.length_take, List.length_drop]
        omega
  | cons o os ih =>
    intro prev s s' hm h
    simp only [readItemsLoop] at h
    split at h
    · cases h
    · split at h
      · cases h
      · split at h
        · cases h
        · split at h
          · cases h
          · rename_i h1 h2 h3 h4
            obtain ⟨k, hk, he⟩ := addAt_cases itemData prev (o.toNat / 4) s (by omega) (by omega)
            rw [he] at h
            cases ha : s.addItem k ((itemData.drop (prev + 1)).take (o.toNat / 4 - (prev + 1))) with
            | error e => rw [ha] at h; cases h
            | ok s1 =>
              rw [ha] at h
              dsimp only at h
              apply ih (o.toNat / 4) s1 s' _ h
              rw [addItem_measure ha, hm, List.length_take, List.length_drop]
              omega

/-- the reader's result is never larger than its input: items + data words + the two header words -/
theorem readFromInts_size_le {data : List Int} {s : RawSnap} {ws : List Warning}
    (h : RawSnap.readFromInts data = .ok (s, ws)) : s.items.length + dataLen s.items + 2 ≤ data.length := by
  cases data with
  | nil => simp [RawSnap.readFromInts] at h
  | cons ds rest =>
    cases rest with
    | nil =>
      rw [RawSnap.readFromInts] at h
      split at h <;> cases h
    | cons n body =>
      rw [RawSnap.readFromInts] at h
      split at h
      · cases h
      · split at h
        · cases h
        · split at h
          · cases h
          · split at h
            · cases h
            · dsimp only at h
              split at h
              · cases h
              · rename_i hlen
                have hidL : ((body.drop n.toNat).take (ds.toNat / 4)).length = ds.toNat / 4 := by
                  rw [List.length_take, List.length_drop]; omega
                cases hoffs : body.take n.toNat with
                | nil =>
                  rw [hoffs] at h
                  dsimp only at h
                  split at h
                  · cases h
                  · simp at h
                    rw [← h.1]
                    simp [RawSnap.empty, dataLen]
                | cons o os =>
                  rw [hoffs] at h
                  dsimp only at h
                  split at h
                  · cases h
                  · split at h
                    · cases h
                    · split at h
                      · cases h
                      · cases hr : readItemsLoop ((body.drop n.toNat).take (ds.toNat / 4)) (ds.toNat / 4) os 0
                            RawSnap.empty with
                        | ok s1 =>
                          rw [hr] at h
                          simp at h
                          rw [← h.1]
                          have hm := readItemsLoop_measure ((body.drop n.toNat).take (ds.toNat / 4)) os 0
                            RawSnap.empty s1 (by simp [measure, RawSnap.empty, dataLen])
                          rw [hidL] at hm
                          have := hm hr
                          unfold measure at this
                          simp only [List.length_cons]
                          omega
                        | err e => rw [hr] at h; cases h
                        | panic p => rw [hr] at h; cases h
theorem uuidToData_length (u : Int) : (uuidToData u).length = 4 := rfl

theorem dataToUuid_length {d : List Int} {u : Int} {ex : Bool} (h : dataToUuid d = some (u, ex)) : 4 ≤ d.length := by
  match d, h with
  | a :: b :: c :: e :: rest, _ => simp
  | [], h => simp [dataToUuid] at h
  | [_], h => simp [dataToUuid] at h
  | [_, _], h => simp [dataToUuid] at h
  | [_, _, _], h => simp [dataToUuid] at h

/-- `m1` is a sub-map of `m2` with values at most as long -/
def SubLe (m1 m2 : Items) : Prop :=
  ∀ k v, mfind k m1 = some v → ∃ v', mfind k m2 = some v' ∧ v.length ≤ v'.length

theorem subLe_bounds {m1 m2 : Items} (h1 : Sorted m1) (h2 : Sorted m2) (h : SubLe m1 m2) :
    m1.length ≤ m2.length ∧ dataLen m1 ≤ dataLen m2 := by
  induction m2 generalizing m1 with
  | nil =>
    cases m1 with
    | nil => simp
    | cons p r =>
      obtain ⟨v', hv, _⟩ := h p.1 p.2 (by simp [mfind])
      simp [mfind] at hv
  | cons q r2 ih =>
    obtain ⟨k2, v2⟩ := q
    rw [sorted_cons] at h2
    cases m1 with
    | nil => simp [dataLen]
    | cons p r1 =>
      obtain ⟨k1, v1⟩ := p
      rw [sorted_cons] at h1
      by_cases hk : k1 = k2
      · subst hk
        have hsub : SubLe r1 r2 := by
          intro k v hv
          have hmem := mem_of_mfind hv
          have hlt := h1.1 _ hmem
          have hne : k ≠ k1 := by simp at hlt; omega
          obtain ⟨v', hv', hl⟩ := h k v (by simp [mfind, hne, hv])
          simp [mfind, hne] at hv'
          exact ⟨v', hv', hl⟩
        obtain ⟨v', hv', hl⟩ := h k1 v1 (by simp [mfind])
        simp [mfind] at hv'
        subst hv'
        have := ih h1.2 h2.2 hsub
        simp [dataLen_cons]
        omega
      · have hsub : SubLe ((k1, v1) :: r1) r2 := by
          intro k v hv
          obtain ⟨v', hv', hl⟩ := h k v hv
          have hne : k ≠ k2 := by
            intro e
            subst e
            obtain ⟨w, hw, _⟩ := h k1 v1 (by simp [mfind])
            simp only [mfind, hk] at hw
            have hm := mem_of_mfind hw
            have hlt := h2.1 _ hm
            have hm1 := mem_of_mfind hv
            simp at hm1
            rcases hm1 with hm1 | hm1
            · exact hk hm1.1.symm
            · have := h1.1 _ hm1
              simp at this hlt
              omega
          simp [mfind, hne] at hv'
          exact ⟨v', hv', hl⟩
        have := ih (m1 := (k1, v1) :: r1) (by rw [sorted_cons]; exact h1) h2.2 hsub
        simp [dataLen_cons] at this ⊢
        omega

theorem vacantCheck_none_le {m B : Items} {k : Int} {v : List Int} (hm : Sorted m) (hk : mfind k m = none)
    (hB : Sorted B) (hsub : SubLe (minsert k v m) B) (hlim : Limits B) :
    vacantCheck m v.length = none := by
  have hb := subLe_bounds (sorted_minsert (k := k) (v := v) hm) hB hsub
  rw [length_minsert_of_none hk, dataLen_minsert_of_none hk] at hb
  unfold Limits serializedSize at hlim
  unfold vacantCheck serializedSize
  have h1 : ¬ (m.length + 1 > maxItems) := by omega
  have h2 : ¬ (4 * (2 + (m.length + 1) + (m.length + 1) + (dataLen m + v.length)) > maxSize) := by omega
  simp [h1, h2]

theorem addAll_ok_le (S : Items) (hS : Sorted S) (hlim : Limits S) :
    ∀ (l : Items) (s0 : RawSnap), Sorted s0.items → SubLe s0.items S →
      (∀ p ∈ l, ∃ v', mfind p.1 S = some v' ∧ p.2.length ≤ v'.length) →
      (∀ p ∈ l, mfind p.1 s0.items = none) → (l.map Prod.fst).Nodup →
      ∃ r, addAll l s0 = .ok r := by
  intro l
  induction l with
  | nil => intro s0 _ _ _ _ _; exact ⟨s0, rfl⟩
  | cons p l ih =>
    obtain ⟨k0, d0⟩ := p
    intro s0 hs hsub hl hnew hnd
    have hk0 : mfind k0 s0.items = none := hnew (k0, d0) (by simp)
    have hsub' : SubLe (minsert k0 d0 s0.items) S := by
      intro k v hv
      rw [mfind_minsert] at hv
      by_cases hkk : k = k0
      · rw [if_pos hkk] at hv
        injection hv with hv
        rw [hkk, ← hv]
        exact hl (k0, d0) (by simp)
      · rw [if_neg hkk] at hv
        exact hsub k v hv
    have hvc := vacantCheck_none_le (v := d0) hs hk0 hS hsub' hlim
    simp only [List.map_cons, List.nodup_cons] at hnd
    have hnew' : ∀ p ∈ l, mfind p.1 (minsert k0 d0 s0.items) = none := by
      intro p hp
      have hne : p.1 ≠ k0 := by
        intro e
        apply hnd.1
        rw [← e]
        exact mem_keys_of_mem hp
      rw [mfind_minsert, if_neg hne]
      exact hnew p (by simp [hp])
    obtain ⟨r, hr⟩ := ih ⟨minsert k0 d0 s0.items⟩ (sorted_minsert hs) hsub'
      (fun p hp => hl p (by simp [hp])) hnew' hnd.2
    exact ⟨r, by simp only [addAll, RawSnap.addItem, hk0, hvc, hr]⟩

attribute [local irreducible] uuidToData keyOf

def isReg (p : Int × List Int) : Bool := decide (keyType p.1 = typeIdEx)

/-- what `build_from_raw` establishes for *any* raw snapshot it accepts -/
structure Accepted (s : Snap) : Prop where
  raw_wf : s.raw.WF
  ext_sorted : Sorted s.ext
  ext_reg : ∀ u t, mfind u s.ext = some t →
    ∃ k d ex, (k, d) ∈ s.raw.items ∧ keyType k = typeIdEx ∧ keyId k = t ∧ dataToUuid d = some (u, ex)
  reg_ext : ∀ k d, (k, d) ∈ s.raw.items → keyType k = typeIdEx →
    ∃ u ex, dataToUuid d = some (u, ex) ∧ mfind u s.ext = some (keyId k)
  types_reg : ∀ p ∈ s.raw.items, offsetExt ≤ keyType p.1 →
    (mfind (keyOf typeIdEx (keyType p.1)) s.raw.items).isSome
  ext_count : s.ext.length = (s.raw.items.filter isReg).length

theorem buildExt_general (all : Items) : ∀ (m : Items) (ext0 ext' : List (Int × Nat)) (ws ws' : List Warning),
    Sorted ext0 → buildExt all m ext0 ws = .ok (ext', ws') →
    Sorted ext' ∧ ext'.length = ext0.length + (m.filter isReg).length ∧
    (∀ u t, mfind u ext0 = some t → mfind u ext' = some t) ∧
    (∀ u t, mfind u ext' = some t → mfind u ext0 = some t ∨
      ∃ k d ex, (k, d) ∈ m ∧ keyType k = typeIdEx ∧ keyId k = t ∧ dataToUuid d = some (u, ex)) ∧
    (∀ k d, (k, d) ∈ m → keyType k = typeIdEx → ∃ u ex, dataToUuid d = some (u, ex) ∧ mfind u ext' = some (keyId k)) ∧
    (∀ p ∈ m, offsetExt ≤ keyType p.1 → (mfind (keyOf typeIdEx (keyType p.1)) all).isSome) := by
  intro m
  induction m with
  | nil =>
    intro ext0 ext' ws ws' hs h
    simp [buildExt] at h
    rw [← h.1]
    exact ⟨hs, by simp, fun _ _ h => h, fun _ _ h => Or.inl h, by simp, by simp⟩
  | cons q r ih =>
    obtain ⟨k, d⟩ := q
    intro ext0 ext' ws ws' hs h
    simp only [buildExt] at h
    by_cases ht : keyType k = typeIdEx
    · simp only [ht, if_true] at h
      cases hd : dataToUuid d with
      | none => rw [hd] at h; cases h
      | some t =>
        obtain ⟨u, ex⟩ := t
        rw [hd] at h
        dsimp only at h
        cases hf : mfind u ext0 with
        | some t0 => simp [hf] at h
        | none =>
          simp only [hf, Option.isSome_none, Bool.false_eq_true, if_false] at h
          obtain ⟨h1, h2, h3, h4, h5, h6⟩ := ih _ _ _ _ (sorted_minsert hs) h
          have hreg : isReg (k, d) = true := by simp [isReg, ht]
          refine ⟨h1, ?_, ?_, ?_, ?_, ?_⟩
          · rw [h2, length_minsert_of_none hf, List.filter_cons, hreg]; simp; omega
          · intro u' t' hu'
            apply h3
            rw [mfind_minsert]
            have e : u' ≠ u := by intro e; rw [e, hf] at hu'; cases hu'
            rw [if_neg e]; exact hu'
          · intro u' t' hu'
            rcases h4 u' t' hu' with h' | ⟨k', d', ex', hm, hk', hid', hdu'⟩
            · rw [mfind_minsert] at h'
              by_cases e : u' = u
              · rw [if_pos e] at h'
                injection h' with h'
                right
                exact ⟨k, d, ex, by simp, ht, h', by rw [e]; exact hd⟩
              · rw [if_neg e] at h'
                exact Or.inl h'
            · right
              exact ⟨k', d', ex', by simp [hm], hk', hid', hdu'⟩
          · intro k' d' hm hk'
            simp only [List.mem_cons, Prod.mk.injEq] at hm
            rcases hm with ⟨e1, e2⟩ | hm
            · subst e1 e2
              exact ⟨u, ex, hd, h3 u (keyId k') (by rw [mfind_minsert, if_pos rfl])⟩
            · exact h5 k' d' hm hk'
          · intro p hp hge
            simp only [List.mem_cons] at hp
            rcases hp with rfl | hp
            · exfalso
              simp only at hge
              rw [ht, offsetExt_eq, typeIdEx_eq] at hge
              omega
            · exact h6 p hp hge
    · simp only [ht, if_false] at h
      have hreg : isReg (k, d) = false := by simp [isReg, ht]
      by_cases hge : keyType k ≥ offsetExt
      · simp only [hge, if_true] at h
        cases hf : mfind (keyOf typeIdEx (keyType k)) all with
        | none => simp [hf] at h
        | some v =>
          simp only [hf, Option.isNone_some, Bool.false_eq_true, if_false] at h
          obtain ⟨h1, h2, h3, h4, h5, h6⟩ := ih _ _ _ _ hs h
          refine ⟨h1, ?_, h3, ?_, ?_, ?_⟩
          · rw [h2, List.filter_cons, hreg]; simp
          · intro u' t' hu'
            rcases h4 u' t' hu' with h' | ⟨k', d', ex', hm, hk', hid', hdu'⟩
            · exact Or.inl h'
            · exact Or.inr ⟨k', d', ex', by simp [hm], hk', hid', hdu'⟩
          · intro k' d' hm hk'
            simp only [List.mem_cons, Prod.mk.injEq] at hm
            rcases hm with ⟨e1, e2⟩ | hm
            · subst e1; exact absurd hk' ht
            · exact h5 k' d' hm hk'
          · intro p hp hge'
            simp only [List.mem_cons] at hp
            rcases hp with rfl | hp
            · simp only; rw [hf]; rfl
            · exact h6 p hp hge'
      · simp only [hge, if_false] at h
        obtain ⟨h1, h2, h3, h4, h5, h6⟩ := ih _ _ _ _ hs h
        refine ⟨h1, ?_, h3, ?_, ?_, ?_⟩
        · rw [h2, List.filter_cons, hreg]; simp
        · intro u' t' hu'
          rcases h4 u' t' hu' with h' | ⟨k', d', ex', hm, hk', hid', hdu'⟩
          · exact Or.inl h'
          · exact Or.inr ⟨k', d', ex', by simp [hm], hk', hid', hdu'⟩
        · intro k' d' hm hk'
          simp only [List.mem_cons, Prod.mk.injEq] at hm
          rcases hm with ⟨e1, e2⟩ | hm
          · subst e1; exact absurd hk' ht
          · exact h5 k' d' hm hk'
        · intro p hp hge'
          simp only [List.mem_cons] at hp
          rcases hp with rfl | hp
          · exact absurd hge' hge
          · exact h6 p hp hge'

theorem accepted_of_buildFromRaw {raw : RawSnap} {s : Snap} {ws : List Warning} (hwf : raw.WF)
    (h : buildFromRaw raw = .ok (s, ws)) : Accepted s := by
  unfold buildFromRaw at h
  cases hb : buildExt raw.items raw.items [] [] with
  | panic q => simp [hb] at h
  | err e => simp [hb] at h
  | ok r =>
    obtain ⟨ext, ws'⟩ := r
    simp [hb] at h
    obtain ⟨h1, h2, _, h4, h5, h6⟩ := buildExt_general raw.items raw.items [] ext [] ws' sorted_nil hb
    rw [← h.1]
    refine ⟨hwf, h1, ?_, h5, h6, by simpa using h2⟩
    intro u t hu
    rcases h4 u t hu with h' | h'
    · simp [mfind] at h'
    · exact h'
theorem typeId_ne_none {s : Snap} (hs : Accepted s) {p : Int × List Int} (hp : p ∈ s.raw.items) :
    s.typeId (keyType p.1) ≠ none := by
  unfold Snap.typeId
  split
  · simp
  · split
    · simp
    · rename_i h1 h2
      have hge : offsetExt ≤ keyType p.1 := by omega
      have := hs.types_reg p hp hge
      unfold RawSnap.item
      cases hf : mfind (keyOf typeIdEx (keyType p.1)) s.raw.items with
      | none => rw [hf] at this; simp at this
      | some d =>
        simp only
        cases dataToUuid d with
        | none => simp
        | some t => obtain ⟨u, ex⟩ := t; simp

theorem typeId_some_not_reg {s : Snap} {t : Nat} {tid : TypeId} (h : s.typeId t = some (some tid)) :
    t ≠ typeIdEx := by
  intro e
  unfold Snap.typeId at h
  simp [e] at h

theorem itemsLoop_ne_none {s : Snap} (hs : Accepted s) : ∀ (m : Items) (rem : Nat),
    (∀ p ∈ m, p ∈ s.raw.items) → (m.filter (fun p => !isReg p)).length ≤ rem → itemsLoop s m rem ≠ none := by
  intro m
  induction m with
  | nil => intro rem _ _; simp [itemsLoop]
  | cons q r ih =>
    obtain ⟨k, d⟩ := q
    intro rem hsub hcount
    have hr : ∀ p ∈ r, p ∈ s.raw.items := fun p hp => hsub p (by simp [hp])
    have hle : (r.filter (fun p => !isReg p)).length ≤ ((k, d) :: r |>.filter (fun p => !isReg p)).length := by
      rw [List.filter_cons]; split <;> simp
    simp only [itemsLoop]
    cases ht : s.typeId (keyType k) with
    | none => exact absurd ht (typeId_ne_none hs (hsub (k, d) (by simp)))
    | some o =>
      cases o with
      | none => exact ih rem hr (by omega)
      | some tid =>
        have hnr : isReg (k, d) = false := by
          simp [isReg]; exact typeId_some_not_reg ht
        have hc : (r.filter (fun p => !isReg p)).length + 1 ≤ rem := by
          rw [List.filter_cons] at hcount
          simp [hnr] at hcount
          omega
        have hne : ¬ rem = 0 := by omega
        simp only [hne, if_false]
        have := ih (rem - 1) hr (by omega)
        cases hl : itemsLoop s r (rem - 1) with
        | none => exact absurd hl this
        | some l => simp

theorem filter_partition_length (m : Items) :
    m.length = (m.filter isReg).length + (m.filter (fun p => !isReg p)).length := by
  induction m with
  | nil => rfl
  | cons p r ih =>
    simp only [List.filter_cons]
    cases isReg p <;> simp <;> omega

/-- `Snap::items()` never panics on an accepted snapshot -/
theorem items_ne_none {s : Snap} (hs : Accepted s) : s.items ≠ none := by
  unfold Snap.items
  have hp := filter_partition_length s.raw.items
  have hc := hs.ext_count
  have h1 : ¬ s.ext.length > s.raw.items.length := by omega
  simp only [h1, if_false]
  exact itemsLoop_ne_none hs s.raw.items _ (fun p hp => hp) (by omega)

/-- `Snap::item` never panics for an ordinal in `1..0x3fff` or any UUID -/
theorem item_ne_none (s : Snap) (tid : TypeId) (id : Nat)
    (h : match tid with | .ordinal o => 0 < o ∧ o < offsetExt | .uuid _ => True) : s.item tid id ≠ none := by
  unfold Snap.item Snap.rawTypeId
  cases tid with
  | ordinal o =>
    simp only at h
    simp [h]
  | uuid u =>
    simp only
    cases mfind u s.ext <;> simp

theorem recycleNext_total : ∀ (m : Items) (n : Nat), n ≤ 32768 →
    ∃ n', recycleNext m n = some n' ∧ n' ≤ 32768 ∧ (offsetExt ≤ n → offsetExt ≤ n') := by
  intro m
  induction m with
  | nil => intro n h; exact ⟨n, rfl, h, id⟩
  | cons q r ih =>
    obtain ⟨k, d⟩ := q
    intro n h
    simp only [recycleNext]
    split
    · exact ⟨n, rfl, h, id⟩
    · split
      · rename_i hr
        have h1 : ¬ n + 256 ≥ 65536 := by omega
        simp only [h1, if_false]
        split
        · obtain ⟨n', e1, e2, e3⟩ := ih (keyId k + 1) (by omega)
          exact ⟨n', e1, e2, fun _ => e3 (by omega)⟩
        · exact ih n h
      · exact ih n h

/-- `Snap::recycle` never panics on an accepted snapshot (since the fixes of D6 and D20), and the
builder it returns has its counter in `OFFSET_EXTENDED_TYPE_ID ..= 0x8000`. -/
theorem recycle_ne_none {s : Snap} (hs : Accepted s) :
    ∃ b, s.recycle = some b ∧ offsetExt ≤ b.nextTypeId ∧ b.nextTypeId ≤ 32768 ∧ b.snap.ext = s.ext := by
  obtain ⟨hS, hI, hN, hZ⟩ := hs.raw_wf
  obtain ⟨n', hn, hn1, hn2⟩ := recycleNext_total s.raw.items offsetExt (by rw [offsetExt_eq]; omega)
  -- each ext entry points at a registry item of the raw snapshot
  have hentry : ∀ u t, (u, t) ∈ s.ext → ∃ d ex, mfind (keyOf typeIdEx t) s.raw.items = some d ∧
      dataToUuid d = some (u, ex) := by
    intro u t hm
    obtain ⟨k, d, ex, hkd, hk, hid, hdu⟩ := hs.ext_reg u t (mfind_of_mem hs.ext_sorted hm)
    refine ⟨d, ex, ?_, hdu⟩
    have : keyOf typeIdEx t = k := by rw [← hk, ← hid]; exact keyOf_key (hI _ hkd).1
    rw [this]
    exact mfind_of_mem hS hkd
  have hnd : ((s.ext.map (fun p => (keyOf typeIdEx p.2, uuidToData p.1))).map Prod.fst).Nodup := by
    have e : (s.ext.map (fun p => (keyOf typeIdEx p.2, uuidToData p.1))).map Prod.fst
        = s.ext.map (fun p => keyOf typeIdEx p.2) := by rw [List.map_map]; rfl
    rw [e]
    apply nodup_map_of_sorted _ _ hs.ext_sorted
    intro p hp q hq he
    obtain ⟨u1, t1⟩ := p
    obtain ⟨u2, t2⟩ := q
    obtain ⟨d1, ex1, hf1, hd1⟩ := hentry u1 t1 hp
    obtain ⟨d2, ex2, hf2, hd2⟩ := hentry u2 t2 hq
    have he' : keyOf typeIdEx t1 = keyOf typeIdEx t2 := he
    rw [he', hf2] at hf1
    injection hf1 with hf1
    rw [← hf1, hd2] at hd1
    injection hd1 with hd1
    injection hd1 with hd1
    exact hd1.symm
  obtain ⟨r, hr⟩ := addAll_ok_le s.raw.items hS ⟨hN, hZ⟩
    (s.ext.map (fun p => (keyOf typeIdEx p.2, uuidToData p.1))) RawSnap.empty sorted_nil
    (by intro k v h; simp [RawSnap.empty, mfind] at h)
    (by
      intro p hp
      obtain ⟨q, hq, rfl⟩ := List.mem_map.mp hp
      obtain ⟨u, t⟩ := q
      obtain ⟨d, ex, hf, hd⟩ := hentry u t hq
      exact ⟨d, hf, by simp only; rw [uuidToData_length]; exact dataToUuid_length hd⟩)
    (by intro p _; simp [RawSnap.empty, mfind]) hnd
  refine ⟨⟨⟨r, s.ext⟩, n'⟩, ?_, hn2 (Nat.le_refl _), hn1, rfl⟩
  unfold Snap.recycle
  rw [hn]
  simp only
  rw [recycleAdd_eq_addAll, hr]

/-! ### the three ways a snapshot gets accepted -/

theorem accepted_of_readFromInts {data : List Int} (hI : ∀ x ∈ data, I32 x) {s : Snap} {ws : List Warning}
    (h : Snap.readFromInts data = .ok (s, ws)) :
    Accepted s ∧ s.raw.items.length + dataLen s.raw.items + 2 ≤ data.length := by
  unfold Snap.readFromInts at h
  cases hr : RawSnap.readFromInts data with
  | panic q => simp [hr] at h
  | err e => simp [hr] at h
  | ok r =>
    obtain ⟨raw, ws1⟩ := r
    simp only [hr] at h
    have hwf := (readFromInts_total data hI).2 raw ws1 hr
    cases hb : buildFromRaw raw with
    | panic q => simp [hb] at h
    | err e => simp [hb] at h
    | ok r2 =>
      obtain ⟨s2, ws2⟩ := r2
      simp [hb] at h
      rw [← h.1]
      refine ⟨accepted_of_buildFromRaw hwf hb, ?_⟩
      rw [buildFromRaw_raw hb]
      exact readFromInts_size_le hr

theorem decodeInts_length : ∀ (fuel : Nat) (bs : List UInt8), (decodeInts fuel bs).1.length ≤ bs.length := by
  intro fuel
  induction fuel with
  | zero => intro bs; simp [decodeInts]
  | succ f ih =>
    intro bs
    cases bs with
    | nil => simp [decodeInts]
    | cons b r =>
      simp only [decodeInts]
      cases hr : Tw.Packer.readInt (b :: r) with
      | none => simp
      | some t =>
        obtain ⟨v, rest, w⟩ := t
        have hlt := (readInt_rest_lt hr).1
        have := ih rest
        simp only [List.length_cons] at hlt ⊢
        omega

theorem accepted_of_readBytes {bs : List UInt8} {s : Snap} {ws : List Warning}
    (h : Snap.readBytes bs = .ok (s, ws)) :
    Accepted s ∧ s.raw.items.length + dataLen s.raw.items + 2 ≤ bs.length := by
  unfold Snap.readBytes at h
  cases hr : RawSnap.readBytes bs with
  | panic q => simp [hr] at h
  | err e => simp [hr] at h
  | ok r =>
    obtain ⟨raw, ws1⟩ := r
    simp only [hr] at h
    have hwf := (readBytes_total bs).2 raw ws1 hr
    cases hb : buildFromRaw raw with
    | panic q => simp [hb] at h
    | err e => simp [hb] at h
    | ok r2 =>
      obtain ⟨s2, ws2⟩ := r2
      simp [hb] at h
      rw [← h.1]
      refine ⟨accepted_of_buildFromRaw hwf hb, ?_⟩
      rw [buildFromRaw_raw hb]
      unfold RawSnap.readBytes at hr
      cases hr2 : RawSnap.readFromInts (decodeInts bs.length bs).1 with
      | panic q => simp [hr2] at hr
      | err e => simp [hr2] at hr
      | ok r3 =>
        obtain ⟨raw3, ws3⟩ := r3
        simp [hr2] at hr
        rw [← hr.1]
        have := readFromInts_size_le hr2
        have := decodeInts_length bs.length bs
        omega

theorem accepted_of_readWithDelta {a s : Snap} {d : Delta} {ws : List Warning} (ha : a.raw.WF)
    (hd : ∀ p ∈ d.updated, I32 p.1 ∧ ∀ v ∈ p.2, I32 v) (h : a.readWithDelta d = .ok (s, ws)) : Accepted s := by
  unfold Snap.readWithDelta at h
  cases hr : applyDelta a.raw d with
  | panic q => simp [hr] at h
  | err e => simp [hr] at h
  | ok r =>
    obtain ⟨raw, ws1⟩ := r
    simp only [hr] at h
    have hwf := applyDelta_WF ha hd hr
    cases hb : buildFromRaw raw with
    | panic q => simp [hb] at h
    | err e => simp [hb] at h
    | ok r2 =>
      obtain ⟨s2, ws2⟩ := r2
      simp [hb] at h
      rw [← h.1]
      exact accepted_of_buildFromRaw hwf hb

end Tw.Snap
