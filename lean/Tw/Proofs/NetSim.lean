import Tw.Model.NetSim
import Tw.Proofs.Conn

/-!
# C01 (online phase): the prefix invariant of the two-endpoint system
-/
namespace Tw.NetSim
open Tw.Conn Tw.Time

/-! ## sequence arithmetic -/

theorem seqNext_eq (a : Nat) : seqNext a = (a + 1) % 1024 := rfl

theorem seqCompare_current (a b : Nat) : seqCompare a b = .current ↔ a = b := by
  unfold seqCompare
  simp only
  constructor
  · intro h
    by_cases h1 : a < b
    · simp [h1] at h; split at h <;> cases h
    · by_cases h2 : b < a
      · simp [h1, h2] at h; split at h <;> cases h
      · omega
  · intro h; subst h; simp

/-- `Sequence::update` accepts exactly the successor -/
theorem seqUpdate_fst (a s : Nat) : (seqUpdate a s).1 = if seqNext a = s then s else a := by
  unfold seqUpdate
  simp only
  by_cases h : seqNext a = s
  · simp [h, (seqCompare_current _ _).mpr]
  · have : seqCompare (seqNext a) s ≠ .current := fun hc => h ((seqCompare_current _ _).mp hc)
    simp [h, this]

theorem seqUpdate_snd (a s : Nat) : (seqUpdate a s).2 = .current ↔ seqNext a = s := by
  unfold seqUpdate
  simp only
  exact seqCompare_current _ _

/-! ## lazy = eager -/

/-- the eager scan, instrumented to emit the chunk whenever it accepts one (and every non-vital one) -/
def eagerTrace : Nat → Bool → List Chunk → (Nat × Bool) × List Event
  | ack, rr, [] => ((ack, rr), [])
  | ack, rr, c :: cs =>
    match c.vital with
    | none =>
      let r := eagerTrace ack rr cs
      (r.1, .chunk c.data false :: r.2)
    | some (s, _) =>
      let (a, ord) := seqUpdate ack s
      let r := eagerTrace a (rr || ord != .current) cs
      (r.1, if ord = .current then .chunk c.data true :: r.2 else r.2)

/-- erasing the instrumentation gives the eager scan of the code … -/
theorem eagerTrace_fst (ack : Nat) (rr : Bool) (cs : List Chunk) : (eagerTrace ack rr cs).1 = receiveEager ack rr cs := by
  induction cs generalizing ack rr with
  | nil => rfl
  | cons c cs ih =>
    unfold eagerTrace receiveEager
    cases hv : c.vital with
    | none => simp only; exact ih ack rr
    | some v => obtain ⟨s, r⟩ := v; simp only; exact ih _ _

/-- … and what it emits is exactly what the lazy iterator yields, for every packet, starting ack
and resend flag -/
theorem eagerTrace_snd (ack : Nat) (rr : Bool) (cs : List Chunk) : (eagerTrace ack rr cs).2 = receiveLazy ack cs := by
  induction cs generalizing ack rr with
  | nil => rfl
  | cons c cs ih =>
    unfold eagerTrace receiveLazy
    cases hv : c.vital with
    | none => simp only; rw [ih ack rr]
    | some v =>
      obtain ⟨s, r⟩ := v
      simp only
      by_cases h : (seqUpdate ack s).2 = .current
      · have h1 : (seqUpdate ack s).1 = seqNext ack ∨ True := Or.inr trivial
        simp only [h, if_true]
        rw [ih]
      · simp only [h, if_false]
        rw [ih]
        have : (seqUpdate ack s).1 = ack := by
          rw [seqUpdate_fst]
          have := mt (seqUpdate_snd ack s).mpr h
          simp [this]
        rw [this]

/-! ## what a receiver accepts -/

/-- chunk `(seq, data)` is the `k`-th vital chunk the sender submitted -/
def IsChunk (sub : List Bytes) (k : Nat) (seq : Nat) (data : Bytes) : Prop :=
  sub[k]? = some data ∧ seq = (k + 1) % 1024

theorem IsChunk.append {sub : List Bytes} {k seq : Nat} {data : Bytes} (h : IsChunk sub k seq data) (ext : List Bytes) :
    IsChunk (sub ++ ext) k seq data := by
  refine ⟨?_, h.2⟩
  have hk : k < sub.length := by
    have := h.1
    exact (List.getElem?_eq_some_iff.mp this).1
  rw [List.getElem?_append_left hk]; exact h.1

/-- every vital chunk of the packet is some chunk `k < n` of the sender, less than 1024 behind `n` -/
def ChunksKnown (sub : List Bytes) (n : Nat) (cs : List Chunk) : Prop :=
  ∀ c ∈ cs, ∀ seq r, c.vital = some (seq, r) → ∃ k, k < n ∧ n < k + 1024 ∧ IsChunk sub k seq c.data

/-- **the acceptance lemma**: a receiver that has been handed the first `d` chunks and processes a
packet of known chunks is handed exactly the next `m` chunks, and its ack becomes `d + m` -/
theorem receive_known (sub : List Bytes) (n : Nat) (hn : n = sub.length) :
    ∀ (cs : List Chunk) (d : Nat) (rr : Bool), d ≤ n → n ≤ d + 512 → ChunksKnown sub n cs →
      ∃ m, d + m ≤ n ∧ vitalPayloads (receiveLazy (d % 1024) cs) = (sub.drop d).take m ∧
        (receiveEager (d % 1024) rr cs).1 = (d + m) % 1024 := by
  intro cs
  induction cs with
  | nil => intro d rr hd _ _; exact ⟨0, by omega, by simp [receiveLazy, vitalPayloads], by simp [receiveEager]⟩
  | cons c cs ih =>
    intro d rr hd hw hk
    have hk' : ChunksKnown sub n cs := fun c' hc' => hk c' (List.mem_cons_of_mem _ hc')
    unfold receiveLazy receiveEager
    cases hv : c.vital with
    | none =>
      obtain ⟨m, h1, h2, h3⟩ := ih d rr hd hw hk'
      exact ⟨m, h1, by simpa [vitalPayloads] using h2, by simpa using h3⟩
    | some v =>
      obtain ⟨seq, r⟩ := v
      obtain ⟨k, hkn, hkw, hch⟩ := hk c (by simp) seq r hv
      simp only
      by_cases hacc : seqNext (d % 1024) = seq
      · -- accepted: then k = d
        have hkd : k = d := by
          have := hch.2
          rw [seqNext_eq] at hacc
          omega
        subst hkd
        have h1 : (seqUpdate (k % 1024) seq).2 = .current := (seqUpdate_snd _ _).mpr hacc
        have h2 : (seqUpdate (k % 1024) seq).1 = (k + 1) % 1024 := by
          rw [seqUpdate_fst, if_pos hacc, hch.2]
        obtain ⟨m, hm1, hm2, hm3⟩ := ih (k + 1) (rr || (seqUpdate (k % 1024) seq).2 != .current) (by omega) (by omega) hk'
        refine ⟨m + 1, by omega, ?_, ?_⟩
        · simp only [h1, if_true, vitalPayloads]
          rw [h2, hm2]
          have hks : k < sub.length := by omega
          rw [List.drop_eq_getElem_cons hks, List.take_succ_cons]
          have := hch.1
          rw [List.getElem?_eq_getElem hks] at this
          injection this with this
          rw [this]
        · rw [h2, hm3]; congr 1; omega
      · have h1 : (seqUpdate (d % 1024) seq).2 ≠ .current := fun h => hacc ((seqUpdate_snd _ _).mp h)
        have h2 : (seqUpdate (d % 1024) seq).1 = d % 1024 := by rw [seqUpdate_fst, if_neg hacc]
        obtain ⟨m, hm1, hm2, hm3⟩ := ih d (rr || (seqUpdate (d % 1024) seq).2 != .current) hd hw hk'
        refine ⟨m, hm1, ?_, ?_⟩
        · simp only [h1, if_false]; exact hm2
        · rw [h2]; exact hm3

/-- non-vital events are non-vital chunks of the packet -/
theorem nonvital_mem (ack : Nat) (cs : List Chunk) :
    ∀ d ∈ nonvitalPayloads (receiveLazy ack cs), ∃ c ∈ cs, c.vital = none ∧ c.data = d := by
  induction cs generalizing ack with
  | nil => intro d hd; simp [receiveLazy, nonvitalPayloads] at hd
  | cons c cs ih =>
    intro d hd
    unfold receiveLazy at hd
    cases hv : c.vital with
    | none =>
      simp only [hv, nonvitalPayloads] at hd
      rcases List.mem_cons.mp hd with rfl | hd
      · exact ⟨c, by simp, hv, rfl⟩
      · obtain ⟨c', hc', h1, h2⟩ := ih ack d hd
        exact ⟨c', List.mem_cons_of_mem _ hc', h1, h2⟩
    | some v =>
      obtain ⟨s, r⟩ := v
      simp only [hv] at hd
      split at hd
      · simp only [nonvitalPayloads] at hd
        obtain ⟨c', hc', h1, h2⟩ := ih _ d hd
        exact ⟨c', List.mem_cons_of_mem _ hc', h1, h2⟩
      · obtain ⟨c', hc', h1, h2⟩ := ih _ d hd
        exact ⟨c', List.mem_cons_of_mem _ hc', h1, h2⟩

/-! ## chunk bookkeeping on the sender side -/

/-- every vital chunk queued in the packet is a known chunk; the later it sits in the packet, the
more submissions may have happened since it was placed -/
def PacketOk (sub : List Bytes) (n : Nat) (cs : List Chunk) : Prop :=
  ∀ j c seq r, cs[j]? = some c → c.vital = some (seq, r) →
    ∃ k, k < n ∧ n + j + 1 ≤ k + 512 + cs.length ∧ IsChunk sub k seq c.data

/-- a datagram on the wire: every vital chunk is a known chunk, at most 767 behind the stamp -/
def FlOk (sub : List Bytes) (n : Nat) (f : Flushed) : Prop :=
  ∀ c ∈ f.chunks, ∀ seq r, c.vital = some (seq, r) → ∃ k, k < n ∧ n ≤ k + 767 ∧ IsChunk sub k seq c.data

def NvOk (nv : List Bytes) (cs : List Chunk) : Prop := ∀ c ∈ cs, c.vital = none → c.data ∈ nv

theorem singleton_getElem? {α : Type} {x c : α} {i : Nat} (h : [x][i]? = some c) : i = 0 ∧ c = x := by
  cases i with
  | zero => simp at h; exact ⟨rfl, h.symm⟩
  | succ i => simp at h

theorem PacketOk.nil (sub : List Bytes) (n : Nat) : PacketOk sub n [] := by
  intro j c seq r h; simp at h

theorem PacketOk.toFl {sub : List Bytes} {n : Nat} {cs : List Chunk} (h : PacketOk sub n cs) (hl : cs.length ≤ 255)
    (ack : Nat) (rr : Bool) (num : Nat) : FlOk sub n ⟨ack, rr, num, cs⟩ := by
  intro c hc seq r hv
  obtain ⟨j, hj⟩ := List.getElem?_of_mem hc
  obtain ⟨k, h1, h2, h3⟩ := h j c seq r hj hv
  exact ⟨k, h1, by omega, h3⟩

theorem PacketOk.appendNonvital {sub : List Bytes} {n : Nat} {cs : List Chunk} (h : PacketOk sub n cs) (data : Bytes) :
    PacketOk sub n (cs ++ [⟨none, data⟩]) := by
  intro j c seq r hj hv
  by_cases hlt : j < cs.length
  · rw [List.getElem?_append_left hlt] at hj
    obtain ⟨k, h1, h2, h3⟩ := h j c seq r hj hv
    exact ⟨k, h1, by simp; omega, h3⟩
  · rw [List.getElem?_append_right (by omega)] at hj
    obtain ⟨hj0, hjc⟩ := singleton_getElem? hj
    subst hjc
    simp at hv

/-- appending a vital chunk that is at most 512 behind -/
theorem PacketOk.appendVital {sub : List Bytes} {n : Nat} {cs : List Chunk} (h : PacketOk sub n cs)
    (k seq : Nat) (r : Bool) (data : Bytes) (hk : k < n) (hw : n ≤ k + 512) (hc : IsChunk sub k seq data) :
    PacketOk sub n (cs ++ [⟨some (seq, r), data⟩]) := by
  intro j c seq' r' hj hv
  by_cases hlt : j < cs.length
  · rw [List.getElem?_append_left hlt] at hj
    obtain ⟨k', h1, h2, h3⟩ := h j c seq' r' hj hv
    exact ⟨k', h1, by simp; omega, h3⟩
  · rw [List.getElem?_append_right (by omega)] at hj
    obtain ⟨hj0, hjc⟩ := singleton_getElem? hj
    subst hjc
    simp at hv
    obtain ⟨rfl, rfl⟩ := hv
    exact ⟨k, hk, by simp; omega, hc⟩

/-- one more submission: the bounds shift by one, which the new last position pays for -/
theorem PacketOk.submit {sub : List Bytes} {cs : List Chunk} (h : PacketOk sub sub.length cs) (data : Bytes) (r : Bool) :
    PacketOk (sub ++ [data]) (sub.length + 1) (cs ++ [⟨some ((sub.length + 1) % 1024, r), data⟩]) := by
  intro j c seq' r' hj hv
  by_cases hlt : j < cs.length
  · rw [List.getElem?_append_left hlt] at hj
    obtain ⟨k', h1, h2, h3⟩ := h j c seq' r' hj hv
    exact ⟨k', by omega, by simp; omega, h3.append _⟩
  · rw [List.getElem?_append_right (by omega)] at hj
    obtain ⟨hj0, hjc⟩ := singleton_getElem? hj
    subst hjc
    simp at hv
    obtain ⟨rfl, rfl⟩ := hv
    refine ⟨sub.length, by omega, by simp; omega, ?_, rfl⟩
    simp

theorem PacketOk.mono {sub : List Bytes} {n : Nat} {cs : List Chunk} (h : PacketOk sub n cs) (ext : List Bytes) :
    PacketOk (sub ++ ext) n cs := by
  intro j c seq r hj hv
  obtain ⟨k, h1, h2, h3⟩ := h j c seq r hj hv
  exact ⟨k, h1, h2, h3.append _⟩

theorem FlOk.mono {sub : List Bytes} {n : Nat} {f : Flushed} (h : FlOk sub n f) (ext : List Bytes) :
    FlOk (sub ++ ext) n f := by
  intro c hc seq r hv
  obtain ⟨k, h1, h2, h3⟩ := h c hc seq r hv
  exact ⟨k, h1, h2, h3.append _⟩

theorem NvOk.mono {nv : List Bytes} {cs : List Chunk} (h : NvOk nv cs) (ext : List Bytes) : NvOk (nv ++ ext) cs := by
  intro c hc hv; exact List.mem_append_left _ (h c hc hv)

/-- all non-vital chunks of the packet: `PacketOk` holds vacuously -/
theorem PacketOk.ofNonvital (sub : List Bytes) (n : Nat) (cs : List Chunk) (h : ∀ c ∈ cs, c.vital = none) :
    PacketOk sub n cs := by
  intro j c seq r hj hv
  have := h c (List.mem_of_getElem? hj)
  rw [this] at hv; cases hv

/-! ## the resend loop only emits known chunks -/

theorem resendLoop_known {cfg : Cfg} (hc : cfg.Ok) (sub nv : List Bytes) (n : Nat) (now : Nat) :
    ∀ (todo : List ResendChunk) (o : Online) (send : Timeout) (acc : List Flushed),
      o.Inv cfg → PacketOk sub n o.packet.chunks → NvOk nv o.packet.chunks →
      (∀ c ∈ todo, cfg.accepts c.data.length = true ∧ ∃ k, k < n ∧ n ≤ k + 512 ∧ IsChunk sub k c.seq c.data) →
      (∀ f ∈ acc, FlOk sub n f ∧ NvOk nv f.chunks ∧ f.ack = o.ack) →
      ∀ o' send' fl, resendLoop cfg now todo o send acc = .ok (o', send', fl) →
        PacketOk sub n o'.packet.chunks ∧ NvOk nv o'.packet.chunks ∧
        (∀ f ∈ fl, FlOk sub n f ∧ NvOk nv f.chunks ∧ f.ack = o.ack) := by
  intro todo
  induction todo with
  | nil =>
    intro o send acc _ hp hnv _ hacc o' send' fl he
    simp only [resendLoop] at he
    injection he with he; injection he with h1 h2; injection h2 with h2 h3
    subst h1 h3
    exact ⟨hp, hnv, hacc⟩
  | cons c rest ih =>
    intro o send acc hinv hp hnv htodo hacc o' send' fl he
    obtain ⟨hcacc, k, hk1, hk2, hk3⟩ := htodo c (by simp)
    unfold resendLoop at he
    simp only at he
    have key : ∃ o1 : Online, o1 = (if o.packet.canFit c.data.length true = true then o else o.flush.1) ∧
        o1.Inv cfg ∧ PacketOk sub n o1.packet.chunks ∧ NvOk nv o1.packet.chunks ∧ o1.ack = o.ack ∧
        (o1.packet.canFit c.data.length true = true ∨ o1.packet.chunks = []) := by
      by_cases hf : o.packet.canFit c.data.length true = true
      · exact ⟨o, by simp [hf], hinv, hp, hnv, rfl, Or.inl hf⟩
      · refine ⟨o.flush.1, by simp [hf], Online.flush_inv hinv, ?_, ?_, Online.flush_ack o,
          Or.inr (Online.flush_packet_nil hinv)⟩
        · rw [Online.flush_packet_nil hinv]; exact PacketOk.nil _ _
        · rw [Online.flush_packet_nil hinv]; intro c hc; simp at hc
    obtain ⟨o1, ho1, hinv1, hp1, hnv1, hack1, hfit1⟩ := key
    rw [← ho1] at he
    rw [PacketContents.writeChunk_ok hc _ _ _ hcacc hinv1.pn (by simpa using hfit1)] at he
    simp only at he
    have hacc' : ∀ f ∈ (if o.packet.canFit c.data.length true = true then acc else acc ++ o.flush.2),
        FlOk sub n f ∧ NvOk nv f.chunks ∧ f.ack = o1.ack := by
      rw [hack1]
      split
      · exact hacc
      · intro f hf
        rcases List.mem_append.mp hf with hf | hf
        · exact hacc f hf
        · unfold Online.flush at hf
          split at hf
          · simp at hf
          · simp at hf
            subst hf
            exact ⟨hp.toFl (by have := hinv.cnt; rw [maxNumChunks_eq] at this; exact this) _ _ _, hnv, rfl⟩
    have := ih _ _ _ (hinv1.appendVital (c.seq, true) c.data hcacc hfit1)
      (hp1.appendVital k c.seq true c.data hk1 hk2 hk3)
      (by
        intro c' hc' hv
        simp only at hc'
        rcases List.mem_append.mp hc' with hc' | hc'
        · exact hnv1 c' hc' hv
        · simp at hc'; subst hc'; simp at hv)
      (fun c' hc' => htodo c' (by simp [hc'])) hacc' o' send' fl he
    obtain ⟨h1, h2, h3⟩ := this
    exact ⟨h1, h2, fun f hf => by rw [← hack1]; exact h3 f hf⟩

/-! ## the resend queue -/

/-- the queue (newest first) holds the last `q.length` submitted chunks -/
def QueueOk (sub : List Bytes) (q : List ResendChunk) : Prop :=
  ∀ i c, q[i]? = some c → i < sub.length ∧ IsChunk sub (sub.length - 1 - i) c.seq c.data

theorem QueueOk.take {sub : List Bytes} {q : List ResendChunk} (h : QueueOk sub q) (i : Nat) : QueueOk sub (q.take i) := by
  intro j c hj
  rw [List.getElem?_take] at hj
  split at hj
  · exact h j c hj
  · cases hj

theorem QueueOk.restart {sub : List Bytes} {q : List ResendChunk} (h : QueueOk sub q) (now : Nat) :
    QueueOk sub (q.map (ResendChunk.restart now)) := by
  intro j c hj
  rw [List.getElem?_map] at hj
  cases hq : q[j]? with
  | none => rw [hq] at hj; cases hj
  | some c0 =>
    rw [hq] at hj
    simp at hj
    subst hj
    exact h j c0 hq

theorem QueueOk.push {sub : List Bytes} {q : List ResendChunk} (h : QueueOk sub q) (t : Timeout) (data : Bytes) :
    QueueOk (sub ++ [data]) (⟨t, (sub.length + 1) % 1024, data⟩ :: q) := by
  intro j c hj
  cases j with
  | zero =>
    simp at hj
    subst hj
    refine ⟨by simp, ?_, ?_⟩
    · simp
    · simp
  | succ j =>
    simp at hj
    obtain ⟨h1, h2⟩ := h j c hj
    refine ⟨by simp; omega, ?_⟩
    have : (sub ++ [data]).length - 1 - (j + 1) = sub.length - 1 - j := by simp; omega
    rw [this]
    exact h2.append _

theorem QueueOk.todo {sub : List Bytes} {q : List ResendChunk} (h : QueueOk sub q) (hl : q.length ≤ 512) :
    ∀ c ∈ q, ∃ k, k < sub.length ∧ sub.length ≤ k + 512 ∧ IsChunk sub k c.seq c.data := by
  intro c hc
  obtain ⟨i, hi⟩ := List.getElem?_of_mem hc
  obtain ⟨h1, h2⟩ := h i c hi
  have hil : i < q.length := (List.getElem?_eq_some_iff.mp hi).1
  exact ⟨sub.length - 1 - i, by omega, by omega, h2⟩

theorem findIdx?_some {α : Type} (p : α → Bool) : ∀ (l : List α) (i : Nat), l.findIdx? p = some i →
    ∃ c, l[i]? = some c ∧ p c = true := by
  intro l
  induction l with
  | nil => intro i h; simp at h
  | cons x xs ih =>
    intro i h
    rw [List.findIdx?_cons] at h
    by_cases hp : p x = true
    · simp [hp] at h; subst h; exact ⟨x, by simp, hp⟩
    · simp [hp] at h
      obtain ⟨j, hj, rfl⟩ := h
      obtain ⟨c, hc1, hc2⟩ := ih j hj
      exact ⟨c, by simpa using hc1, hc2⟩

/-- processing an ack that says "I have been handed `dS` chunks" (`dS` at most 1023 behind the
sender's counter) never drops a chunk the receiver has not been handed -/
theorem ackChunks_window {sub : List Bytes} {o : Online} (hq : QueueOk sub o.resendQueue)
    (hl : o.resendQueue.length ≤ 512) (dS d : Nat) (hd1 : dS ≤ d) (hd2 : d ≤ sub.length)
    (hwin : sub.length < dS + 1024) (hqw : sub.length ≤ d + o.resendQueue.length) :
    sub.length ≤ d + (o.ackChunks (dS % 1024)).resendQueue.length := by
  unfold Online.ackChunks
  cases hf : o.resendQueue.findIdx? (fun c => c.seq == dS % 1024) with
  | none => exact hqw
  | some i =>
    simp only
    obtain ⟨c, hc1, hc2⟩ := findIdx?_some _ _ _ hf
    obtain ⟨h1, h2⟩ := hq i c hc1
    have hil : i < o.resendQueue.length := (List.getElem?_eq_some_iff.mp hc1).1
    have hseq : c.seq = dS % 1024 := by simpa using hc2
    have := h2.2
    rw [List.length_take]
    have : sub.length - i = dS := by omega
    omega

/-! ## the invariant of one direction (`x` sends, `!x` receives) -/

structure Dir (cfg : Cfg) (s : Sys) (x : Bool) : Prop where
  inv : (s.ep x).Inv cfg
  seq : (s.ep x).sequence = (s.sub x).length % 1024
  ack : (s.ep (!x)).ack = (s.del (!x)).length % 1024
  pre : s.del (!x) = (s.sub x).take (s.del (!x)).length
  dle : (s.del (!x)).length ≤ (s.sub x).length
  qlen : (s.ep x).resendQueue.length ≤ 512
  qwin : (s.sub x).length ≤ (s.del (!x)).length + (s.ep x).resendQueue.length
  q : QueueOk (s.sub x) (s.ep x).resendQueue
  pk : PacketOk (s.sub x) (s.sub x).length (s.ep x).packet.chunks
  pknv : NvOk (s.nvSub x) (s.ep x).packet.chunks
  net : ∀ p ∈ s.net x, p.nSelf ≤ (s.sub x).length ∧ FlOk (s.sub x) p.nSelf p.pkt ∧ NvOk (s.nvSub x) p.pkt.chunks
  acks : ∀ p ∈ s.net (!x), p.pkt.ack = p.dSelf % 1024 ∧ p.dSelf ≤ (s.del (!x)).length ∧
    p.nPeer ≤ (s.sub x).length ∧ p.nPeer ≤ p.dSelf + 512
  nvd : ∀ d ∈ s.nvDel (!x), d ∈ s.nvSub x

theorem bool_ne {x z : Bool} (h : ¬ x = z) : x = !z := by
  cases x <;> cases z <;> simp at h ⊢

@[simp] theorem upd_same {α : Type} (f : Bool → α) (x : Bool) (v : α) : upd f x v x = v := by simp [upd]
@[simp] theorem upd_not {α : Type} (f : Bool → α) (x : Bool) (v : α) : upd f x v (!x) = f (!x) := by
  cases x <;> simp [upd]
@[simp] theorem upd_not' {α : Type} (f : Bool → α) (x : Bool) (v : α) : upd f (!x) v x = f x := by
  cases x <;> simp [upd]

theorem Sys.init_dir (cfg : Cfg) (x : Bool) : Dir cfg Sys.init x := by
  refine ⟨Online.new_inv cfg, rfl, rfl, rfl, by simp [Sys.init], by simp [Sys.init, Online.new], by simp [Sys.init],
    ?_, ?_, ?_, ?_, ?_, ?_⟩
  · intro i c h; simp [Sys.init, Online.new] at h
  · exact PacketOk.nil _ _
  · intro c hc; simp [Sys.init, Online.new, PacketContents.empty] at hc
  · intro p hp; simp [Sys.init] at hp
  · intro p hp; simp [Sys.init] at hp
  · intro d hd; simp [Sys.init] at hd

/-- what a move by `z` that only touches `z`'s sending side (send / flush / resend) preserves of the
direction in which `z` is the receiver: its new datagrams carry its current ack -/
theorem recv_role {cfg : Cfg} {s s' : Sys} {z : Bool} (h : Dir cfg s (!z))
    (hep : s'.ep (!z) = s.ep (!z)) (hack : (s'.ep z).ack = (s.ep z).ack)
    (hsub : s'.sub (!z) = s.sub (!z)) (hdel : s'.del z = s.del z) (hnet : s'.net (!z) = s.net (!z))
    (hnv : s'.nvSub (!z) = s.nvSub (!z)) (hnvd : s'.nvDel z = s.nvDel z)
    (fl : List Flushed) (hnetz : s'.net z = s.net z ++ stamp s z fl) (hfl : ∀ f ∈ fl, f.ack = (s.ep z).ack) :
    Dir cfg s' (!z) := by
  have hack0 := h.ack
  have hpre := h.pre
  have hdle := h.dle
  have hqw := h.qwin
  have hacks := h.acks
  have hnvd0 := h.nvd
  simp only [Bool.not_not] at hack0 hpre hdle hqw hacks hnvd0
  refine ⟨by rw [hep]; exact h.inv, by rw [hep, hsub]; exact h.seq, ?_, ?_, ?_, by rw [hep]; exact h.qlen, ?_,
    by rw [hep, hsub]; exact h.q, by rw [hep, hsub]; exact h.pk, by rw [hep, hnv]; exact h.pknv,
    by rw [hnet, hsub, hnv]; exact h.net, ?_, ?_⟩
  · simp only [Bool.not_not]; rw [hack, hdel]; exact hack0
  · simp only [Bool.not_not]; rw [hdel, hsub]; exact hpre
  · simp only [Bool.not_not]; rw [hdel, hsub]; exact hdle
  · simp only [Bool.not_not]; rw [hdel, hsub, hep]; exact hqw
  · simp only [Bool.not_not]
    rw [hnetz, hdel, hsub]
    intro p hp
    rcases List.mem_append.mp hp with hp | hp
    · exact hacks p hp
    · simp only [stamp, List.mem_map] at hp
      obtain ⟨f, hf, rfl⟩ := hp
      simp only
      refine ⟨by rw [hfl f hf]; exact hack0, Nat.le_refl _, Nat.le_refl _, ?_⟩
      have := h.qlen
      omega
  · simp only [Bool.not_not]; rw [hnvd, hnv]; exact hnvd0

/-- … and of the direction in which `z` sends, for a move that leaves the submission lists alone
(flush / resend / the resend inside a delivery) -/
theorem send_role_same {cfg : Cfg} {s s' : Sys} {z : Bool} (h : Dir cfg s z) (o' : Online)
    (hep : s'.ep z = o') (hepo : s'.ep (!z) = s.ep (!z))
    (hsub : s'.sub z = s.sub z) (hdel : s'.del (!z) = s.del (!z)) (hnetp : s'.net (!z) = s.net (!z))
    (hnv : s'.nvSub z = s.nvSub z) (hnvd : s'.nvDel (!z) = s.nvDel (!z))
    (fl : List Flushed) (hnetz : s'.net z = s.net z ++ stamp s z fl)
    (hinv : o'.Inv cfg) (hseq : o'.sequence = (s.ep z).sequence)
    (hql : o'.resendQueue.length ≤ 512) (hqw : (s.sub z).length ≤ (s.del (!z)).length + o'.resendQueue.length)
    (hq : QueueOk (s.sub z) o'.resendQueue)
    (hpk : PacketOk (s.sub z) (s.sub z).length o'.packet.chunks) (hpknv : NvOk (s.nvSub z) o'.packet.chunks)
    (hfl : ∀ f ∈ fl, FlOk (s.sub z) (s.sub z).length f ∧ NvOk (s.nvSub z) f.chunks) :
    Dir cfg s' z := by
  refine ⟨by rw [hep]; exact hinv, by rw [hep, hsub, hseq]; exact h.seq, by rw [hepo, hdel]; exact h.ack,
    by rw [hdel, hsub]; exact h.pre, by rw [hdel, hsub]; exact h.dle, by rw [hep]; exact hql,
    by rw [hep, hsub, hdel]; exact hqw, by rw [hep, hsub]; exact hq, by rw [hep, hsub]; exact hpk,
    by rw [hep, hnv]; exact hpknv, ?_, by rw [hnetp, hdel, hsub]; exact h.acks, by rw [hnvd, hnv]; exact h.nvd⟩
  rw [hnetz, hsub, hnv]
  intro p hp
  rcases List.mem_append.mp hp with hp | hp
  · exact h.net p hp
  · simp only [stamp, List.mem_map] at hp
    obtain ⟨f, hf, rfl⟩ := hp
    exact ⟨Nat.le_refl _, (hfl f hf).1, (hfl f hf).2⟩

/-- what `flush` emits -/
theorem flush_fl {cfg : Cfg} {o : Online} (hinv : o.Inv cfg) {sub nv : List Bytes} {n : Nat}
    (hpk : PacketOk sub n o.packet.chunks) (hnv : NvOk nv o.packet.chunks) :
    ∀ f ∈ o.flush.2, FlOk sub n f ∧ NvOk nv f.chunks ∧ f.ack = o.ack := by
  intro f hf
  unfold Online.flush at hf
  split at hf
  · simp at hf
  · simp at hf
    subst hf
    exact ⟨hpk.toFl (by have := hinv.cnt; rw [maxNumChunks_eq] at this; exact this) _ _ _, hnv, rfl⟩

theorem step_flush {cfg : Cfg} {s : Sys} (h : ∀ x, Dir cfg s x) (z : Bool) (s' : Sys)
    (he : step cfg s (.flush z) = some s') : ∀ x, Dir cfg s' x := by
  simp only [step] at he
  injection he with he
  subst he
  have hz := h z
  have hfl := flush_fl hz.inv hz.pk hz.pknv
  intro x
  by_cases hx : x = z
  · subst hx
    refine send_role_same hz _ (by simp) (by simp) rfl rfl (by simp) rfl rfl _ (by simp)
      (Online.flush_inv hz.inv) (Online.flush_sequence _) ?_ ?_ ?_ ?_ ?_ (fun f hf => ⟨(hfl f hf).1, (hfl f hf).2.1⟩)
    · rw [Online.flush_resendQueue]; exact hz.qlen
    · rw [Online.flush_resendQueue]; exact hz.qwin
    · rw [Online.flush_resendQueue]; exact hz.q
    · rw [Online.flush_packet_nil hz.inv]; exact PacketOk.nil _ _
    · rw [Online.flush_packet_nil hz.inv]; intro c hc; simp at hc
  · have hx' : x = !z := bool_ne hx
    subst hx'
    exact recv_role (h (!z)) (by simp) (by simp [Online.flush_ack]) rfl rfl (by simp) rfl rfl _ (by simp)
      (fun f hf => (hfl f hf).2.2)

/-- everything the invariant needs to know about `resend` -/
theorem resend_facts {cfg : Cfg} (hc : cfg.Ok) {o : Online} (hinv : o.Inv cfg) {sub nv : List Bytes}
    (hq : QueueOk sub o.resendQueue) (hl : o.resendQueue.length ≤ 512)
    (hpk : PacketOk sub sub.length o.packet.chunks)
    (hnv : NvOk nv o.packet.chunks) (now : Nat) (send : Timeout) {o' : Online} {send' : Timeout} {fl : List Flushed}
    (he : o.resend cfg now send = .ok (o', send', fl)) :
    o'.Inv cfg ∧ o'.sequence = o.sequence ∧ o'.ack = o.ack ∧ o'.resendQueue.length = o.resendQueue.length ∧
    QueueOk sub o'.resendQueue ∧ PacketOk sub sub.length o'.packet.chunks ∧ NvOk nv o'.packet.chunks ∧
    (∀ f ∈ fl, FlOk sub sub.length f ∧ NvOk nv f.chunks ∧ f.ack = o.ack) := by
  obtain ⟨o2, s2, fl2, he2, hinv2, _, hack2, hseq2, hlen2, _⟩ := Online.resend_spec hc hinv now send
  rw [he] at he2
  injection he2 with he2; injection he2 with h1 h2; injection h2 with h2 h3
  subst h1 h2 h3
  refine ⟨hinv2, hseq2, hack2, hlen2, ?_⟩
  unfold Online.resend at he
  split at he
  · injection he with he; injection he with h1 h2; injection h2 with h2 h3
    subst h1 h3
    exact ⟨hq, hpk, hnv, by simp⟩
  · -- the loop on the restarted state
    have hinv1 : (o.resendStart now).Inv cfg := by
      unfold Online.resendStart
      have hall : ∀ c ∈ o.packetNonvital.chunks, nonvital c = true := by
        intro c hcm; rw [hinv.nv] at hcm; exact (List.mem_filter.mp hcm).2
      refine ⟨hinv.pnv, hinv.pnv, (List.filter_eq_self.mpr hall).symm, ?_, ?_, ?_, ?_⟩
      · have := hinv.cnt
        have h1 : o.packetNonvital.chunks.length ≤ o.packet.chunks.length := by
          rw [hinv.nv]; exact List.length_filter_le _ _
        simp only; omega
      · have := hinv.size
        have h1 : o.packetNonvital.size ≤ o.packet.size := by
          simp only [PacketContents.size]; rw [hinv.nv]; exact chunksSize_filter_le _ _
        simp only; omega
      · intro c hcm
        simp only at hcm
        rw [hinv.nv] at hcm
        exact hinv.data c (List.mem_filter.mp hcm).1
      · intro c hcm
        simp only [List.mem_map] at hcm
        obtain ⟨c0, hc0, rfl⟩ := hcm
        exact hinv.rq c0 hc0
    have hq1 : QueueOk sub (o.resendStart now).resendQueue := hq.restart now
    have hl1 : (o.resendStart now).resendQueue.length ≤ 512 := by simp [Online.resendStart]; exact hl
    have hnvall : ∀ c ∈ (o.resendStart now).packet.chunks, c.vital = none := by
      intro c hcm
      simp only [Online.resendStart] at hcm
      rw [hinv.nv] at hcm
      have := (List.mem_filter.mp hcm).2
      simpa [nonvital] using this
    have hnv1 : NvOk nv (o.resendStart now).packet.chunks := by
      intro c hcm hv
      simp only [Online.resendStart] at hcm
      rw [hinv.nv] at hcm
      exact hnv c (List.mem_filter.mp hcm).1 hv
    obtain ⟨h1, h2, h3⟩ := resendLoop_known hc sub nv sub.length now _ _ send [] hinv1
      (PacketOk.ofNonvital _ _ _ hnvall) hnv1
      (by
        intro c hcm
        have hcm' := List.mem_reverse.mp hcm
        exact ⟨hinv1.rq c hcm', hq1.todo hl1 c hcm'⟩)
      (by simp) o' send' fl he
    obtain ⟨o3, s3, fl3, he3, _, _, hrq3, _⟩ := resendLoop_spec hc now (o.resendStart now).resendQueue.reverse
      (o.resendStart now) send [] hinv1 (fun c hcm => hinv1.rq c (List.mem_reverse.mp hcm)) (by simp)
    rw [he] at he3
    injection he3 with he3; injection he3 with e1 e2
    subst e1
    refine ⟨by rw [hrq3]; exact hq1, h1, h2, ?_⟩
    intro f hf
    obtain ⟨a, b, c⟩ := h3 f hf
    exact ⟨a, b, by rw [c]; rfl⟩

theorem step_resend {cfg : Cfg} (hc : cfg.Ok) {s : Sys} (h : ∀ x, Dir cfg s x) (z : Bool) (s' : Sys)
    (he : step cfg s (.resend z) = some s') : ∀ x, Dir cfg s' x := by
  simp only [step] at he
  cases hr : (s.ep z).resend cfg 0 .inactive with
  | error e => rw [hr] at he; cases he
  | ok r =>
    obtain ⟨o, snd, fl⟩ := r
    rw [hr] at he
    injection he with he
    subst he
    have hz := h z
    obtain ⟨f1, f2, f3, f4, f5, f6, f7, f8⟩ := resend_facts hc hz.inv hz.q hz.qlen hz.pk hz.pknv 0 .inactive hr
    intro x
    by_cases hx : x = z
    · subst hx
      exact send_role_same hz _ (by simp) (by simp) rfl rfl (by simp) rfl rfl _ (by simp)
        f1 f2 (by rw [f4]; exact hz.qlen) (by rw [f4]; exact hz.qwin) f5 f6 f7
        (fun f hf => ⟨(f8 f hf).1, (f8 f hf).2.1⟩)
    · have hx' : x = !z := bool_ne hx
      subst hx'
      exact recv_role (h (!z)) (by simp) (by simpa using f3) rfl rfl (by simp) rfl rfl _ (by simp)
        (fun f hf => (f8 f hf).2.2)

theorem step_send {cfg : Cfg} (hc : cfg.Ok) {s : Sys} (h : ∀ x, Dir cfg s x) (z : Bool) (data : Bytes) (vital : Bool)
    (s' : Sys) (he : step cfg s (.send z data vital) = some s') : ∀ x, Dir cfg s' x := by
  simp only [step] at he
  split at he
  · cases he
  · rename_i hguard
    have hz := h z
    rcases Online.send_spec hc hz.inv 0 data vital with ⟨_, hs⟩ | ⟨hacc, hs⟩
    · rw [hs] at he
      injection he with he; subst he; exact h
    · rw [hs] at he
      injection he with he
      subst he
      -- the state the chunk is queued into, and what was flushed to make room
      have key : ∃ (ob : Online) (fl : List Flushed),
          ob = (if (s.ep z).packet.canFit data.length vital = true then s.ep z else (s.ep z).flush.1) ∧
          fl = (if (s.ep z).packet.canFit data.length vital = true then [] else (s.ep z).flush.2) ∧
          ob.Inv cfg ∧ ob.sequence = (s.ep z).sequence ∧ ob.ack = (s.ep z).ack ∧
          ob.resendQueue = (s.ep z).resendQueue ∧
          PacketOk (s.sub z) (s.sub z).length ob.packet.chunks ∧ NvOk (s.nvSub z) ob.packet.chunks ∧
          (∀ f ∈ fl, FlOk (s.sub z) (s.sub z).length f ∧ NvOk (s.nvSub z) f.chunks ∧ f.ack = (s.ep z).ack) := by
        by_cases hf : (s.ep z).packet.canFit data.length vital = true
        · exact ⟨s.ep z, [], by simp [hf], by simp [hf], hz.inv, rfl, rfl, rfl, hz.pk, hz.pknv, by simp⟩
        · refine ⟨(s.ep z).flush.1, (s.ep z).flush.2, by simp [hf], by simp [hf], Online.flush_inv hz.inv, Online.flush_sequence _,
            Online.flush_ack _, Online.flush_resendQueue _, ?_, ?_, flush_fl hz.inv hz.pk hz.pknv⟩
          · rw [Online.flush_packet_nil hz.inv]; exact PacketOk.nil _ _
          · rw [Online.flush_packet_nil hz.inv]; intro c hcm; simp at hcm
      obtain ⟨ob, fl, hob, hfl, binv, bseq, back, bq, bpk, bnv, bfl⟩ := key
      rw [← hob, ← hfl]
      have hfit : ob.packet.canFit data.length vital = true ∨ ob.packet.chunks = [] := by
        by_cases hf : (s.ep z).packet.canFit data.length vital = true
        · left; rw [hob]; simp [hf]
        · right; rw [hob]; simp only [hf]; exact Online.flush_packet_nil hz.inv
      have qinv := Online.queued_inv binv 0 data vital hacc hfit
      intro x
      by_cases hx : x = z
      · rw [hx]
        cases vital with
        | false =>
          -- a non-vital chunk: the submission list of vital chunks is untouched
          simp only [Bool.false_eq_true, if_false]
          refine ⟨by simpa using qinv, ?_, ?_, ?_, ?_, ?_, ?_, ?_, ?_, ?_, ?_, ?_, ?_⟩
          · simp [Online.queued, bseq]; exact hz.seq
          · simp; exact hz.ack
          · simp; exact hz.pre
          · simp; exact hz.dle
          · simp [Online.queued, bq]; exact hz.qlen
          · simp [Online.queued, bq]; exact hz.qwin
          · simp [Online.queued, bq]; exact hz.q
          · simp [Online.queued]; exact bpk.appendNonvital data
          · simp only [upd_same, Online.queued, Bool.false_eq_true, if_false]
            intro c hcm hv
            rcases List.mem_append.mp hcm with hcm | hcm
            · exact List.mem_append_left _ (bnv c hcm hv)
            · simp at hcm; subst hcm; simp
          · simp only [upd_same]
            intro p hp
            rcases List.mem_append.mp hp with hp | hp
            · obtain ⟨a, b, c⟩ := hz.net p hp
              exact ⟨a, b, c.mono _⟩
            · simp only [stamp, List.mem_map] at hp
              obtain ⟨f, hf, rfl⟩ := hp
              exact ⟨Nat.le_refl _, (bfl f hf).1, (bfl f hf).2.1.mono _⟩
          · simp; exact hz.acks
          · simp only [upd_same, upd_not]
            intro d hd; exact List.mem_append_left _ (hz.nvd d hd)
        | true =>
          simp only [if_true]
          have hq512 : (s.ep z).resendQueue.length < 512 := by
            simp [h1Limit] at hguard
            omega
          have hseq' : seqNext ob.sequence = ((s.sub z).length + 1) % 1024 := by
            rw [bseq, hz.seq, seqNext_eq]; omega
          have hdle := hz.dle
          refine ⟨by simpa using qinv, ?_, ?_, ?_, ?_, ?_, ?_, ?_, ?_, ?_, ?_, ?_, ?_⟩
          · simp [Online.queued, hseq']
          · simp; exact hz.ack
          · simp only [upd_same, upd_not]
            rw [List.take_append_of_le_length hdle]; exact hz.pre
          · simp; omega
          · simp [Online.queued, bq]; omega
          · simp [Online.queued, bq]; have := hz.qwin; omega
          · simp only [upd_same, Online.queued, if_true, bq, hseq']
            exact hz.q.push _ data
          · simp only [upd_same, Online.queued, if_true, hseq', List.length_append, List.length_singleton]
            exact bpk.submit data false
          · simp only [upd_same, Online.queued, if_true]
            intro c hcm hv
            rcases List.mem_append.mp hcm with hcm | hcm
            · exact bnv c hcm hv
            · simp at hcm; subst hcm; simp at hv
          · simp only [upd_same]
            intro p hp
            rcases List.mem_append.mp hp with hp | hp
            · obtain ⟨a, b, c⟩ := hz.net p hp
              exact ⟨by simp; omega, b.mono _, c⟩
            · simp only [stamp, List.mem_map] at hp
              obtain ⟨f, hf, rfl⟩ := hp
              exact ⟨by simp, (bfl f hf).1.mono _, (bfl f hf).2.1⟩
          · simp only [upd_same, upd_not]
            intro p hp
            obtain ⟨a, b, c, d⟩ := hz.acks p hp
            exact ⟨a, b, by simp; omega, d⟩
          · simp; exact hz.nvd
      · have hx' : x = !z := bool_ne hx
        subst hx'
        refine recv_role (h (!z)) (by simp) ?_ ?_ rfl (by simp) ?_ rfl fl (by simp) (fun f hf => (bfl f hf).2.2)
        · simp only [upd_same]; cases vital <;> simp [Online.queued, back]
        · cases vital <;> simp
        · cases vital <;> simp

theorem ackChunks_fields (o : Online) (a : Nat) :
    (o.ackChunks a).ack = o.ack ∧ (o.ackChunks a).sequence = o.sequence ∧ (o.ackChunks a).packet = o.packet ∧
    (o.ackChunks a).packetNonvital = o.packetNonvital ∧ (o.ackChunks a).requestResend = o.requestResend ∧
    (o.ackChunks a).resendQueue.length ≤ o.resendQueue.length ∧
    ∃ i, (o.ackChunks a).resendQueue = o.resendQueue.take i := by
  unfold Online.ackChunks
  split
  · refine ⟨rfl, rfl, rfl, rfl, rfl, ?_, _, rfl⟩
    simp only [List.length_take]; omega
  · exact ⟨rfl, rfl, rfl, rfl, rfl, Nat.le_refl _, o.resendQueue.length, by simp⟩

theorem vitalPayloads_length_le (evs : List Event) : True := trivial

theorem step_deliver {cfg : Cfg} (hc : cfg.Ok) {s : Sys} (h : ∀ x, Dir cfg s x) (z : Bool) (i : Nat) (s' : Sys)
    (he : step cfg s (.deliver z i) = some s') : ∀ x, Dir cfg s' x := by
  simp only [step] at he
  cases hp : (s.net (!z))[i]? with
  | none => rw [hp] at he; cases he
  | some p =>
    rw [hp] at he
    simp only at he
    split at he
    · cases he
    · rename_i hguard
      have hpm : p ∈ s.net (!z) := List.mem_of_getElem? hp
      have hg1 : (s.sub (!z)).length - p.nSelf < 256 := by
        simp only [h2Limit, ge_iff_le, not_or, Nat.not_le] at hguard; exact hguard.1
      have hg2 : (s.sub z).length - p.nPeer < 256 := by
        simp only [h2Limit, ge_iff_le, not_or, Nat.not_le] at hguard; exact hguard.2
      have hz := h z
      have hy := h (!z)
      -- facts about the datagram: as a carrier of acks (direction z) and of chunks (direction !z)
      obtain ⟨pa1, pa2, pa3, pa4⟩ := hz.acks p hpm
      obtain ⟨pn1, pn2, pn3⟩ := hy.net p hpm
      cases hfa : (s.ep z).feedAck p.pkt.ack with
      | error e => rw [hfa] at he; cases he
      | ok o1 =>
        rw [hfa] at he
        simp only at he
        have ho1 : o1 = (s.ep z).ackChunks p.pkt.ack := by
          unfold Online.feedAck at hfa
          split at hfa
          · cases hfa
          · injection hfa with hfa; exact hfa.symm
        obtain ⟨ka, ks, kp, kpn, krr, kql, ki, kq⟩ := ackChunks_fields (s.ep z) p.pkt.ack
        rw [← ho1] at ka ks kp kpn krr kql kq
        have hinv1 : o1.Inv cfg := by rw [ho1]; exact Online.ackChunks_inv hz.inv _
        have hq1 : QueueOk (s.sub z) o1.resendQueue := by rw [kq]; exact hz.q.take ki
        have hql1 : o1.resendQueue.length ≤ 512 := Nat.le_trans kql hz.qlen
        have hqw1 : (s.sub z).length ≤ (s.del (!z)).length + o1.resendQueue.length := by
          rw [ho1, pa1]
          exact ackChunks_window hz.q hz.qlen p.dSelf _ pa2 hz.dle (by omega) hz.qwin
        have hpk1 : PacketOk (s.sub z) (s.sub z).length o1.packet.chunks := by rw [kp]; exact hz.pk
        have hnv1 : NvOk (s.nvSub z) o1.packet.chunks := by rw [kp]; exact hz.pknv
        cases hrc : o1.receive cfg 0 .inactive p.pkt.requestResend p.pkt.chunks with
        | error e => rw [hrc] at he; cases he
        | ok r =>
          obtain ⟨o2, snd2, fl, evs⟩ := r
          rw [hrc] at he
          injection he with he
          subst he
          -- open `receive`: the optional resend, then the scan
          have key : ∃ o1' : Online,
              o1'.Inv cfg ∧ o1'.sequence = o1.sequence ∧ o1'.ack = o1.ack ∧
              o1'.resendQueue.length = o1.resendQueue.length ∧ QueueOk (s.sub z) o1'.resendQueue ∧
              PacketOk (s.sub z) (s.sub z).length o1'.packet.chunks ∧ NvOk (s.nvSub z) o1'.packet.chunks ∧
              (∀ f ∈ fl, FlOk (s.sub z) (s.sub z).length f ∧ NvOk (s.nvSub z) f.chunks ∧ f.ack = o1.ack) ∧
              o2 = { o1' with ack := (receiveEager o1'.ack o1'.requestResend p.pkt.chunks).1,
                              requestResend := (receiveEager o1'.ack o1'.requestResend p.pkt.chunks).2 } ∧
              evs = receiveLazy o1'.ack p.pkt.chunks := by
            unfold Online.receive at hrc
            cases hrr : p.pkt.requestResend with
            | false =>
              simp only [hrr, Bool.false_eq_true, if_false] at hrc
              split at hrc
              · cases hrc
              · injection hrc with hrc; injection hrc with e1 e2; injection e2 with e2 e3; injection e3 with e3 e4
                subst e3
                exact ⟨o1, hinv1, rfl, rfl, rfl, hq1, hpk1, hnv1, by simp, e1.symm, e4.symm⟩
            | true =>
              simp only [hrr, if_true] at hrc
              cases hrs : o1.resend cfg 0 .inactive with
              | error e => rw [hrs] at hrc; cases hrc
              | ok r2 =>
                obtain ⟨o1', s1', fl1⟩ := r2
                rw [hrs] at hrc
                simp only at hrc
                split at hrc
                · cases hrc
                · injection hrc with hrc; injection hrc with e1 e2; injection e2 with e2 e3; injection e3 with e3 e4
                  subst e3
                  obtain ⟨f1, f2, f3, f4, f5, f6, f7, f8⟩ := resend_facts hc hinv1 hq1 hql1 hpk1 hnv1 0 .inactive hrs
                  exact ⟨o1', f1, f2, f3, f4, f5, f6, f7, f8, e1.symm, e4.symm⟩
          obtain ⟨o1', g1, g2, g3, g4, g5, g6, g7, g8, g9, g10⟩ := key
          have hinv2 : o2.Inv cfg := by
            rw [g9]; exact ⟨g1.pn, g1.pnv, g1.nv, g1.cnt, g1.size, g1.data, g1.rq⟩
          -- what the receiver z is handed: the next m chunks of !z
          have hknown : ChunksKnown (s.sub (!z)) (s.sub (!z)).length p.pkt.chunks := by
            intro c hcm seq r hv
            obtain ⟨k, k1, k2, k3⟩ := pn2 c hcm seq r hv
            exact ⟨k, by omega, by omega, k3⟩
          have hyack := hy.ack
          have hypre := hy.pre
          have hydle := hy.dle
          have hyqw := hy.qwin
          have hyacks := hy.acks
          have hynvd := hy.nvd
          simp only [Bool.not_not] at hyack hypre hydle hyqw hyacks hynvd
          have hyql := hy.qlen
          obtain ⟨m, m1, m2, m3⟩ := receive_known (s.sub (!z)) _ rfl p.pkt.chunks (s.del z).length o1'.requestResend
            hydle (by omega) hknown
          have hstart : o1'.ack = (s.del z).length % 1024 := by rw [g3, ka]; exact hyack
          have hlen : (vitalPayloads evs).length = m := by
            rw [g10, hstart, m2, List.length_take, List.length_drop]; omega
          intro x
          by_cases hx : x = z
          · rw [hx]
            refine send_role_same hz o2 (by simp) (by simp) rfl (by simp) (by simp) rfl (by simp) fl (by simp)
              hinv2 (by rw [g9]; simp [g2, ks]) (by rw [g9]; simp only; rw [g4]; exact hql1)
              (by rw [g9]; simp only; rw [g4]; exact hqw1) (by rw [g9]; exact g5) (by rw [g9]; exact g6)
              (by rw [g9]; exact g7) (fun f hf => ⟨(g8 f hf).1, (g8 f hf).2.1⟩)
          · have hx' : x = !z := bool_ne hx
            rw [hx']
            refine ⟨by simpa using hy.inv, by simpa using hy.seq, ?_, ?_, ?_, by simpa using hy.qlen, ?_,
              by simpa using hy.q, by simpa using hy.pk, by simpa using hy.pknv, by simpa using hy.net, ?_, ?_⟩
            · simp only [Bool.not_not, upd_same, List.length_append, hlen]
              rw [g9]; simp only
              rw [hstart]; exact m3
            · simp only [Bool.not_not, upd_same, List.length_append, hlen]
              rw [g10, hstart, m2]
              rw [List.take_add]
              rw [← hypre]
            · simp only [Bool.not_not, upd_same, List.length_append, hlen]; exact m1
            · simp only [Bool.not_not, upd_same, upd_not, List.length_append, hlen]; omega
            · simp only [Bool.not_not, upd_same, upd_not, List.length_append, hlen]
              intro p' hp'
              rcases List.mem_append.mp hp' with hp' | hp'
              · obtain ⟨a, b, c, d⟩ := hyacks p' hp'
                exact ⟨a, by omega, c, d⟩
              · simp only [stamp, List.mem_map] at hp'
                obtain ⟨f, hf, rfl⟩ := hp'
                simp only
                refine ⟨by rw [(g8 f hf).2.2, ka]; exact hyack, by omega, Nat.le_refl _, by omega⟩
            · simp only [Bool.not_not, upd_same, upd_not]
              intro d hd
              rcases List.mem_append.mp hd with hd | hd
              · exact hynvd d hd
              · rw [g10] at hd
                obtain ⟨c, hcm, hv, rfl⟩ := nonvital_mem _ _ d hd
                exact pn3 c hcm hv

/-- **the invariant is inductive** -/
theorem step_dir {cfg : Cfg} (hc : cfg.Ok) {s s' : Sys} (h : ∀ x, Dir cfg s x) (m : Move)
    (he : step cfg s m = some s') : ∀ x, Dir cfg s' x := by
  cases m with
  | send z d v => exact step_send hc h z d v s' he
  | flush z => exact step_flush h z s' he
  | resend z => exact step_resend hc h z s' he
  | deliver z i => exact step_deliver hc h z i s' he

theorem run_dir {cfg : Cfg} (hc : cfg.Ok) : ∀ (ms : List Move) (s s' : Sys), (∀ x, Dir cfg s x) →
    run cfg s ms = some s' → ∀ x, Dir cfg s' x := by
  intro ms
  induction ms with
  | nil => intro s s' h he; simp [run] at he; subst he; exact h
  | cons m ms ih =>
    intro s s' h he
    simp only [run] at he
    cases hs : step cfg s m with
    | none => rw [hs] at he; cases he
    | some s1 => rw [hs] at he; exact ih s1 s' (step_dir hc h m hs) he

end Tw.NetSim
