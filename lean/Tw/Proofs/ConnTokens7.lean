import Tw.Proofs.ConnSafety7

/-!
# 0.7: the two endpoints agree on the token pair

Every `Token` / `Connect` datagram an endpoint sent carries its own token as response token
(`Own`), and the peer token an endpoint holds is the response token of a datagram of the peer's
history (`Their`).  Hence (`agree7`): an endpoint's `their_token` is the peer's `own_token` — the
token it attaches is the one the peer expects.
-/
namespace Tw.NetSim.P7
open Tw.Conn Tw.Conn7 Tw.Time Tw.NetSim

/-- the response token of a `Token` / `Connect` message -/
def rtok : Packet → Option Nat
  | .control _ _ (.token rt) => some rt
  | .control _ _ (.connect rt) => some rt
  | _ => none

/-- what one call / delivery does to the token pair; `rx` is the packet `feed` processed, if any -/
structure Trans (st st' : State) (sent : List Packet) (rx : Option Packet) : Prop where
  r1 : ∀ p ∈ sent, ∀ rt, rtok p = some rt → st'.ownToken? = some rt
  r2 : ∀ o, st.ownToken? = some o → st'.ownToken? = some o ∨ st' = .disconnected
  r3 : ∀ t, st'.theirToken? = some t → st.theirToken? = some t ∨ ∃ q, rx = some q ∧ rtok q = some t
  r4 : st = .disconnected → st' = .disconnected

theorem Trans.same (st : State) (rx : Option Packet) (sent : List Packet) (hs : ∀ p ∈ sent, rtok p = none) :
    Trans st st sent rx :=
  ⟨fun p hp rt h => (by rw [hs p hp] at h; cases h), fun _ h => Or.inl h, fun _ h => Or.inl h, id⟩

theorem Trans.keep {st st' : State} (rx : Option Packet) (sent : List Packet) (hs : ∀ p ∈ sent, rtok p = none)
    (h : st' = .disconnected ∨ (st'.ownToken? = st.ownToken? ∧ st'.theirToken? = st.theirToken? ∧ st ≠ .disconnected)) :
    Trans st st' sent rx := by
  refine ⟨fun p hp rt h' => (by rw [hs p hp] at h'; cases h'), ?_, ?_, ?_⟩
  · intro o ho
    rcases h with h | ⟨h, _⟩
    · exact Or.inr h
    · exact Or.inl (by rw [h]; exact ho)
  · intro t ht
    rcases h with h | ⟨_, h, _⟩
    · rw [h] at ht; cases ht
    · exact Or.inl (by rw [← h]; exact ht)
  · intro hd
    rcases h with h | ⟨_, _, h⟩
    · exact h
    · exact absurd hd h

theorem flushed_rtok (their : Nat) {fl : List Flushed} {ps : List Packet}
    (hem : emit (fl.map (ofFlushed their)) = .ok ps) : ∀ p ∈ ps, rtok p = none := by
  have := emit_ok hem; subst this
  intro p hp
  simp only [List.mem_map] at hp
  obtain ⟨f, _, rfl⟩ := hp
  rfl

theorem tickAction_trans {env : Env} {c c' : Conn} {out : Out} (rx : Option Packet)
    (ht : tickAction env c = .ok (c', out)) :
    c'.state.ownToken? = c.state.ownToken? ∧ c'.state.theirToken? = c.state.theirToken? ∧
    (c.state = .disconnected → c'.state = .disconnected) ∧
    ∀ p ∈ out.sent, ∀ rt, rtok p = some rt → c.state.ownToken? = some rt := by
  obtain ⟨st, snd⟩ := c
  have hctl : ∀ {ctl : Control} {ps : List Packet}, sendControl st ctl = .ok ps →
      (∀ rt, ctl = .token rt ∨ ctl = .connect rt → st.ownToken? = some rt) →
      ∀ p ∈ ps, ∀ rt, rtok p = some rt → st.ownToken? = some rt := by
    intro ctl ps hsc hown p hp rt hr
    obtain ⟨tok, rfl⟩ := sendControl_ok hsc
    simp at hp; subst hp
    cases ctl with
    | token rt' => simp [rtok] at hr; subst hr; exact hown _ (Or.inl rfl)
    | connect rt' => simp [rtok] at hr; subst hr; exact hown _ (Or.inr rfl)
    | _ => simp [rtok] at hr
  cases st <;> simp only [tickAction] at ht
  case unconnected => injection ht with ht; injection ht with h1 h2; subst h1 h2; exact ⟨rfl, rfl, id, by simp⟩
  case disconnected => injection ht with ht; injection ht with h1 h2; subst h1 h2; exact ⟨rfl, rfl, id, by simp⟩
  case pendingConnect own => injection ht with ht; injection ht with h1 h2; subst h1 h2; exact ⟨rfl, rfl, id, by simp⟩
  case token own =>
    split at ht
    · cases ht
    · rename_i ps hsc
      injection ht with ht; injection ht with h1 h2; subst h1 h2
      refine ⟨rfl, rfl, fun h => (by cases h), hctl hsc ?_⟩
      intro rt h; rcases h with h | h <;> cases h; rfl
  case connecting own their =>
    split at ht
    · cases ht
    · rename_i ps hsc
      injection ht with ht; injection ht with h1 h2; subst h1 h2
      refine ⟨rfl, rfl, fun h => (by cases h), hctl hsc ?_⟩
      intro rt h; rcases h with h | h <;> cases h; rfl
  case pending own their =>
    split at ht
    · cases ht
    · rename_i ps hsc
      injection ht with ht; injection ht with h1 h2; subst h1 h2
      refine ⟨rfl, rfl, fun h => (by cases h), hctl hsc ?_⟩
      intro rt h; rcases h with h | h <;> cases h
  case online own their o =>
    split at ht
    · split at ht
      · cases ht
      · rename_i ps hem
        injection ht with ht; injection ht with h1 h2; subst h1 h2
        refine ⟨rfl, rfl, fun h => (by cases h), ?_⟩
        intro p hp rt hr; rw [flushed_rtok their hem p hp] at hr; cases hr
    · split at ht
      · cases ht
      · rename_i ps hsc
        injection ht with ht; injection ht with h1 h2; subst h1 h2
        refine ⟨rfl, rfl, fun h => (by cases h), hctl hsc ?_⟩
        intro rt h; rcases h with h | h <;> cases h

/-- `tick_action` on a state reached from `st0` -/
theorem Trans.ofTick {env : Env} {c c' : Conn} {out : Out} {st0 : State} {rx : Option Packet}
    (ht : tickAction env c = .ok (c', out))
    (h2 : ∀ o, st0.ownToken? = some o → c.state.ownToken? = some o)
    (h3 : ∀ t, c.state.theirToken? = some t → st0.theirToken? = some t ∨ ∃ q, rx = some q ∧ rtok q = some t)
    (h4 : st0 = .disconnected → c.state = .disconnected) :
    Trans st0 c'.state out.sent rx := by
  obtain ⟨a, b, c4, d⟩ := tickAction_trans rx ht
  exact ⟨fun p hp rt hr => (by rw [a]; exact d p hp rt hr), fun o ho => Or.inl (by rw [a]; exact h2 o ho),
    fun t ht' => h3 t (by rw [← b]; exact ht'), fun hd => c4 (h4 hd)⟩

theorem trans_call7 (now : Nat) (draws : List Nat) (c : Conn) (cl : Call) (r : Ret Conn Packet)
    (hr : P7.call now draws c cl = .ok r) : Trans c.state r.conn.state r.sent none := by
  obtain ⟨st, snd⟩ := c
  cases cl with
  | connect =>
    simp only [P7.call] at hr
    split at hr
    · cases hr
    · rename_i c1 out hcon
      injection hr with hr; subst hr
      unfold connect at hcon
      cases st with
      | unconnected =>
        simp only at hcon
        split at hcon
        · cases hcon
        · exact Trans.ofTick hcon (by intro o ho; cases ho) (by intro t ht; cases ht) (by intro h; cases h)
      | _ => simp at hcon
  | send d v =>
    simp only [P7.call] at hr
    split at hr
    · cases hr
    · rename_i c1 res out hsend
      injection hr with hr; subst hr
      unfold Conn7.send at hsend
      cases st with
      | online own their o =>
        simp only at hsend
        split at hsend
        · cases hsend
        · split at hsend
          · cases hsend
          · rename_i ps hem
            injection hsend with hsend; injection hsend with e1 e2; injection e2 with e2 e3
            subst e1 e3
            exact Trans.keep _ _ (flushed_rtok their hem) (Or.inr ⟨rfl, rfl, by simp⟩)
      | _ => simp at hsend
  | sendConnless d =>
    simp only [P7.call] at hr
    split at hr
    · cases hr
    · rename_i c1 res out hsend
      injection hr with hr; subst hr
      unfold Conn7.sendConnless at hsend
      cases st with
      | online own their o =>
        simp only at hsend
        split at hsend
        · injection hsend with hsend; injection hsend with e1 e2; injection e2 with e2 e3
          subst e1 e3
          exact Trans.same _ _ _ (by simp)
        · split at hsend
          · cases hsend
          · rename_i ps hem
            injection hsend with hsend; injection hsend with e1 e2; injection e2 with e2 e3
            subst e1 e3
            have := emit_ok hem; subst this
            exact Trans.same _ _ _ (by intro p hp; simp at hp; subst hp; rfl)
      | _ => simp at hsend
  | flush =>
    simp only [P7.call] at hr
    split at hr
    · cases hr
    · rename_i c1 out hfl
      injection hr with hr; subst hr
      unfold Conn7.flush at hfl
      cases st with
      | online own their o =>
        simp only at hfl
        split at hfl
        · cases hfl
        · rename_i ps hem
          injection hfl with hfl; injection hfl with e1 e2; subst e1 e2
          exact Trans.keep _ _ (flushed_rtok their hem) (Or.inr ⟨rfl, rfl, by simp⟩)
      | _ => simp at hfl
  | tick =>
    simp only [P7.call] at hr
    split at hr
    · cases hr
    · rename_i c1 out htick
      injection hr with hr; subst hr
      unfold Conn7.tick at htick
      cases st with
      | online own their o =>
        simp only at htick
        split at htick
        · unfold resendConn at htick
          split at htick
          · cases htick
          · split at htick
            · cases htick
            · rename_i ps hem
              injection htick with htick; injection htick with e1 e2; subst e1 e2
              exact Trans.keep _ _ (flushed_rtok their hem) (Or.inr ⟨rfl, rfl, by simp⟩)
        · split at htick
          · exact Trans.ofTick htick (fun o ho => ho) (fun t ht => Or.inl ht) (fun h => h)
          · injection htick with htick; injection htick with e1 e2; subst e1 e2
            exact Trans.same _ _ _ (by simp)
      | _ =>
        simp only [Bool.false_eq_true, if_false] at htick
        split at htick
        · exact Trans.ofTick htick (fun o ho => ho) (fun t ht => Or.inl ht) (fun h => h)
        · injection htick with htick; injection htick with e1 e2; subst e1 e2
          exact Trans.same _ _ _ (by simp)
  | disconnect reason =>
    simp only [P7.call] at hr
    split at hr
    · cases hr
    · rename_i c1 out hdis
      injection hr with hr; subst hr
      unfold Conn7.disconnect at hdis
      split at hdis
      · cases hdis
      · split at hdis
        · cases hdis
        · split at hdis
          · cases hdis
          · rename_i ps hsc
            injection hdis with hdis; injection hdis with e1 e2; subst e1 e2
            obtain ⟨tok, rfl⟩ := sendControl_ok hsc
            exact Trans.keep _ _ (by intro p hp; simp at hp; subst hp; rfl) (Or.inl rfl)

theorem feedBody_trans {env : Env} {c c1 : Conn} {q : Packet} {out : Out}
    (hf : feedBody env c q = .ok (c1, out)) : Trans c.state c1.state out.sent (some q) := by
  obtain ⟨st, snd⟩ := c
  have hnoop : ∀ (evs : List Event), feedBody env ⟨st, snd⟩ q = .ok (⟨st, snd⟩, { events := evs }) →
      Trans st c1.state out.sent (some q) := by
    intro evs hk
    rw [hk] at hf
    injection hf with hf; injection hf with e1 e2; subst e1 e2
    exact Trans.same _ _ _ (by simp)
  cases q with
  | connless a b d => exact hnoop [] (by simp [feedBody])
  | chunks ack tk rr n cs =>
    have hrecv : ∀ (own their : Nat) (o : Online),
        (st.ownToken? = some own ∧ st.theirToken? = some their) →
        (match o.receive Conn7.cfg env.now snd rr cs with
          | .error e => .error e
          | .ok (o1, send1, fl, evs) =>
            match emit (fl.map (ofFlushed their)) with
            | .error e => .error e
            | .ok ps => .ok (⟨.online own their o1, send1⟩, { sent := ps, events := evs })) = Except.ok (c1, out) →
        Trans st c1.state out.sent (some (.chunks ack tk rr n cs)) := by
      intro own their o hst hk
      split at hk
      · cases hk
      · split at hk
        · cases hk
        · rename_i ps hem
          injection hk with hk; injection hk with e1 e2; subst e1 e2
          exact Trans.keep _ _ (flushed_rtok their hem) (Or.inr ⟨by rw [hst.1]; rfl, by rw [hst.2]; rfl,
            by intro hd; rw [hd] at hst; simp [State.ownToken?] at hst⟩)
    cases st with
    | online own their o => simp only [feedBody] at hf; exact hrecv own their o ⟨rfl, rfl⟩ hf
    | pending own their => simp only [feedBody] at hf; exact hrecv own their .new ⟨rfl, rfl⟩ hf
    | unconnected => exact hnoop [] (by simp [feedBody])
    | token own => exact hnoop [] (by simp [feedBody])
    | pendingConnect own => exact hnoop [] (by simp [feedBody])
    | connecting own their => exact hnoop [] (by simp [feedBody])
    | disconnected => exact hnoop [] (by simp [feedBody])
  | control ack tk ctl =>
    cases ctl with
    | keepAlive => exact hnoop [] (by simp [feedBody])
    | close reason =>
      simp only [feedBody] at hf
      injection hf with hf; injection hf with e1 e2; subst e1 e2
      exact Trans.keep _ _ (by simp) (Or.inl rfl)
    | accept =>
      cases st with
      | connecting own their =>
        simp only [feedBody] at hf
        injection hf with hf; injection hf with e1 e2; subst e1 e2
        exact Trans.keep _ _ (by simp) (Or.inr ⟨rfl, rfl, by simp⟩)
      | online own their o => exact hnoop [] (by simp [feedBody])
      | pending own their => exact hnoop [] (by simp [feedBody])
      | unconnected => exact hnoop [] (by simp [feedBody])
      | token own => exact hnoop [] (by simp [feedBody])
      | pendingConnect own => exact hnoop [] (by simp [feedBody])
      | disconnected => exact hnoop [] (by simp [feedBody])
    | connect their =>
      cases st with
      | pendingConnect own =>
        simp only [feedBody] at hf
        refine Trans.ofTick hf (fun o ho => ho) ?_ (by intro h; cases h)
        intro t ht
        simp [State.theirToken?] at ht
        subst ht
        exact Or.inr ⟨_, rfl, rfl⟩
      | online own their o => exact hnoop [] (by simp [feedBody])
      | pending own their => exact hnoop [] (by simp [feedBody])
      | unconnected => exact hnoop [] (by simp [feedBody])
      | token own => exact hnoop [] (by simp [feedBody])
      | connecting own their => exact hnoop [] (by simp [feedBody])
      | disconnected => exact hnoop [] (by simp [feedBody])
    | token their =>
      cases st with
      | unconnected =>
        cases htk : tokenRandom env.draws with
        | none => simp [feedBody, htk] at hf
        | some t0 =>
          simp only [feedBody, htk] at hf
          split at hf
          · cases hf
          · rename_i ps hsc
            injection hf with hf; injection hf with e1 e2; subst e1 e2
            have := sendControlWith_ok hsc; subst this
            refine ⟨?_, fun o ho => (by cases ho), fun t ht => (by cases ht), fun h => (by cases h)⟩
            intro p hp rt hr
            simp at hp; subst hp
            simp [rtok] at hr; subst hr; rfl
      | pendingConnect own =>
        simp only [feedBody] at hf
        split at hf
        · cases hf
        · rename_i ps hsc
          injection hf with hf; injection hf with e1 e2; subst e1 e2
          have := sendControlWith_ok hsc; subst this
          refine ⟨?_, fun o ho => Or.inl ho, fun t ht => Or.inl ht, fun h => (by cases h)⟩
          intro p hp rt hr
          simp at hp; subst hp
          simp [rtok] at hr; subst hr; rfl
      | token own =>
        simp only [feedBody] at hf
        refine Trans.ofTick hf (fun o ho => ho) ?_ (by intro h; cases h)
        intro t ht
        simp [State.theirToken?] at ht
        subst ht
        exact Or.inr ⟨_, rfl, rfl⟩
      | online own their o => exact hnoop [] (by simp [feedBody])
      | pending own their => exact hnoop [] (by simp [feedBody])
      | connecting own their => exact hnoop [] (by simp [feedBody])
      | disconnected => exact hnoop [] (by simp [feedBody])

theorem Trans.of_online {own their : Nat} {o o1 : Online} {st' : State} {sent : List Packet} {rx : Option Packet}
    (h : Trans (.online own their o1) st' sent rx) : Trans (.online own their o) st' sent rx :=
  ⟨h.r1, h.r2, h.r3, fun hd => by cases hd⟩

/-- a delivery: `rx` is the delivered packet if `feed` got to its body -/
theorem trans_recv7 (now : Nat) (draws : List Nat) (c : Conn) (p : Packet) (alt : Unit) (r : Ret Conn Packet)
    (hr : P7.recv now draws c p alt = .ok r) :
    ∃ rx, Trans c.state r.conn.state r.sent rx ∧ ∀ q, rx = some q → q = p := by
  unfold P7.recv at hr
  split at hr
  · cases hr
  · rename_i c1 out hf
    injection hr with hr; subst hr
    simp only
    have hquiet : ∀ (o : Out), o.sent = [] → (Except.ok (c, o) : Res) = Except.ok (c1, out) →
        ∃ rx, Trans c.state c1.state out.sent rx ∧ ∀ q, rx = some q → q = p := by
      intro o ho hk
      injection hk with hk; injection hk with e1 e2; subst e1 e2
      exact ⟨none, Trans.same _ _ _ (by simp [ho]), by intro q hq; cases hq⟩
    have hbody : ∀ (ack : Nat),
        (match c.state with
          | .online own their o =>
            match o.feedAck ack with
            | .error e => .error e
            | .ok o1 => feedBody ⟨now, draws⟩ { c with state := .online own their o1 } p
          | _ => feedBody ⟨now, draws⟩ c p) = Except.ok (c1, out) →
        ∃ rx, Trans c.state c1.state out.sent rx ∧ ∀ q, rx = some q → q = p := by
      intro ack hk
      refine ⟨some p, ?_, by intro q hq; injection hq with hq; exact hq.symm⟩
      cases hst : c.state with
      | online own their o =>
        simp only [hst] at hk
        split at hk
        · cases hk
        · exact (feedBody_trans hk).of_online
      | unconnected => simp only [hst] at hk; rw [← hst]; exact feedBody_trans hk
      | token own => simp only [hst] at hk; rw [← hst]; exact feedBody_trans hk
      | pendingConnect own => simp only [hst] at hk; rw [← hst]; exact feedBody_trans hk
      | connecting own their => simp only [hst] at hk; rw [← hst]; exact feedBody_trans hk
      | pending own their => simp only [hst] at hk; rw [← hst]; exact feedBody_trans hk
      | disconnected => simp only [hst] at hk; rw [← hst]; exact feedBody_trans hk
    unfold feed at hf
    cases p with
    | connless a b d =>
      simp only at hf
      split at hf
      · exact hquiet _ rfl hf
      · split at hf
        · exact hquiet _ rfl hf
        · exact hquiet _ rfl hf
    | control ack tk ctl =>
      simp only at hf
      split at hf
      · exact hquiet _ rfl hf
      · exact hbody ack hf
    | chunks ack tk rr n cs =>
      simp only at hf
      split at hf
      · exact hquiet _ rfl hf
      · exact hbody ack hf

/-! ## the world invariant -/

/-- every response token `e` ever sent is its own token (unless it is disconnected by now); the
peer token it holds is a response token of the peer's history -/
structure G (e peer : End proto7) : Prop where
  own : ∀ dg ∈ e.out, ∀ rt, rtok dg.pkt = some rt →
    e.conn.state.ownToken? = some rt ∨ e.conn.state = .disconnected
  their : ∀ t, e.conn.state.theirToken? = some t → ∃ dg ∈ peer.out, rtok dg.pkt = some t

theorem G.peer_mono {e peer peer' : End proto7} (h : G e peer) (hout : ∀ dg ∈ peer.out, dg ∈ peer'.out) :
    G e peer' :=
  ⟨h.own, fun t ht => by obtain ⟨dg, hdg, hr⟩ := h.their t ht; exact ⟨dg, hout dg hdg, hr⟩⟩

theorem G.act {e peer : End proto7} (h : G e peer) {r : Ret Conn Packet} {rx : Option Packet}
    (tr : Trans e.conn.state r.conn.state r.sent rx)
    (hrx : ∀ q, rx = some q → ∃ dg ∈ peer.out, dg.pkt = q) (sub : List (Bytes × Bool)) :
    G (e.book r sub) peer := by
  refine ⟨?_, ?_⟩
  · intro dg hdg rt hr
    simp only [End.book, List.mem_append, List.mem_map] at hdg
    show r.conn.state.ownToken? = some rt ∨ r.conn.state = .disconnected
    rcases hdg with hdg | ⟨p, hp, rfl⟩
    · rcases h.own dg hdg rt hr with ho | hd
      · exact tr.r2 rt ho
      · right
        -- a disconnected connection stays disconnected: it has no own token to lose, nothing is sent
        exact tr.r4 hd
    · exact Or.inl (tr.r1 p hp rt hr)
  · intro t ht
    rcases tr.r3 t ht with h3 | ⟨q, hq, hqr⟩
    · exact h.their t h3
    · obtain ⟨dg, hdg, hpk⟩ := hrx q hq
      exact ⟨dg, hdg, by rw [hpk]; exact hqr⟩

def Agree7 (w : World proto7) : Prop := G w.a w.b ∧ G w.b w.a

theorem agree7_init : Agree7 (World.init proto7) := by
  have : G ({ conn := Conn.new } : End proto7) { conn := Conn.new } :=
    ⟨fun dg hdg => by simp at hdg, fun t ht => by simp [proto7, Conn.new, State.theirToken?] at ht⟩
  exact ⟨this, this⟩

theorem agree7_step {w w' : World proto7} (h : Agree7 w) (m : Move proto7) (he : step w m = some w') :
    Agree7 w' := by
  cases m with
  | advance dt =>
    simp only [step] at he
    injection he with he; subst he; exact h
  | call s draws c =>
    simp only [step] at he
    cases hr : proto7.call w.now draws (w.get s).conn c with
    | error e => rw [hr] at he; cases he
    | ok r =>
      rw [hr] at he
      injection he with he
      subst he
      have tr := trans_call7 w.now draws (w.get s).conn c r hr
      cases s with
      | a => exact ⟨h.1.act tr (by intro q hq; cases hq) _, h.2.peer_mono (book_out_mono _ _ _)⟩
      | b => exact ⟨h.1.peer_mono (book_out_mono _ _ _), h.2.act tr (by intro q hq; cases hq) _⟩
  | deliver to i draws alt =>
    simp only [step] at he
    cases hdg : (w.get to.other).out[i]? with
    | none => rw [hdg] at he; cases he
    | some dg =>
      rw [hdg] at he
      simp only at he
      cases hr : proto7.recv w.now draws (w.get to).conn dg.pkt alt with
      | error e => rw [hr] at he; cases he
      | ok r =>
        rw [hr] at he
        injection he with he
        subst he
        have hm := List.mem_of_getElem? hdg
        obtain ⟨rx, tr, hk⟩ := trans_recv7 w.now draws (w.get to).conn dg.pkt alt r hr
        have hrx : ∀ q, rx = some q → ∃ dg' ∈ (w.get to.other).out, dg'.pkt = q :=
          fun q hq => ⟨dg, hm, (hk q hq).symm⟩
        cases to with
        | a => exact ⟨h.1.act tr hrx _, h.2.peer_mono (book_out_mono _ _ _)⟩
        | b => exact ⟨h.1.peer_mono (book_out_mono _ _ _), h.2.act tr hrx _⟩

theorem agree7_run : ∀ (ms : List (Move proto7)) (w w' : World proto7), Agree7 w → run w ms = some w' →
    Agree7 w' := by
  intro ms
  induction ms with
  | nil => intro w w' h he; simp [run] at he; subst he; exact h
  | cons m ms ih =>
    intro w w' h he
    simp only [run] at he
    cases hst : step w m with
    | none => rw [hst] at he; cases he
    | some w1 => rw [hst] at he; exact ih w1 w' (agree7_step h m hst) he

/-- **token agreement**: the peer token an endpoint attaches to its datagrams is the own token of a
peer that is still in the game (has an own token, i.e. is neither unconnected nor disconnected) -/
theorem G.agree {e peer : End proto7} (h1 : G e peer) (h2 : G peer e) {t o : Nat}
    (ht : e.conn.state.theirToken? = some t) (ho : peer.conn.state.ownToken? = some o) : t = o := by
  obtain ⟨dg, hdg, hr⟩ := h1.their t ht
  rcases h2.own dg hdg t hr with h | h
  · rw [ho] at h; injection h with h; exact h.symm
  · rw [h] at ho; cases ho

end Tw.NetSim.P7
