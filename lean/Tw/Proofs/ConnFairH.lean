import Tw.Proofs.ConnFair

/-!
# C02 (c): the fair suffix with an acceptor that may still be `Pending`

`GIface`: the interface of `ConnTimed.OnlineIface` restated with a *shape predicate* `Sh tok core conn`
("`conn` is this endpoint with token `tok` and online core `core`" — online, or pending with the fresh
core) instead of the constructor of online connections, and with datagrams `DgH` that also cover the
control datagrams of the handshake (`ctl kind ack`: no chunks, an ack).  The block / tick / round lemmas
of `ConnFair` are repeated for it; `fairRoundT_specH`, `fair_progressH`.
-/
namespace Tw.NetSim
open Tw.Conn Tw.Time

/-- a datagram of the suffix: a chunk packet or a control datagram (kind tag, ack) -/
inductive DgH where
  | chunk (f : Flushed)
  | ctl (k : Nat) (ack : Nat)

def DgH.fl : DgH → Flushed
  | .chunk f => f
  | .ctl _ a => ⟨a, false, 0, []⟩

structure GIface (P : Proto) (core : P.Conn → Option Online) (cfg : Cfg) (S : Nat → P.Conn → Prop) where
  Tok : Type
  /-- `Sh t o c`: the connection object `c` holds token(s) `t` and has online core `o` -/
  Sh : Tok → Online → P.Conn → Prop
  pkt : Tok → DgH → P.Packet
  peer : Tok → Tok → Prop
  core_sh : ∀ {t o c}, Sh t o c → core c = some o
  view_pkt : ∀ t d, P.view (pkt t d) = some (d.fl.ack, d.fl.chunks)
  /-- the two ticks of a round -/
  tickPhase : ∀ {now0 t o c}, Sh t o c → o.Inv cfg → o.ack < seqMod → S now0 c →
    ∃ (c1 c2 : P.Conn) (o2 : Online) (d1 d2 : List DgH),
      P.call (now0 + resendUs) [] c .tick = .ok { conn := c1, sent := d1.map (pkt t) } ∧
      P.call (now0 + resendUs + sendUs) [] c1 .tick = .ok { conn := c2, sent := d2.map (pkt t) } ∧
      Sh t o2 c2 ∧ PhaseSpec cfg o o2 ((d1 ++ d2).map DgH.fl) ∧ d2 ≠ []
  /-- one delivery -/
  recv_dg : ∀ {now draws tx ty o c} (d : DgH) (alt : P.Alt), Sh ty o c → peer tx ty → o.Inv cfg →
    d.fl.ack < seqMod → chunksSeqOk d.fl.chunks = true →
    ∃ (o2 : Online) (r : Ret P.Conn P.Packet) (fl : List Flushed),
      P.recv now draws c (pkt tx d) alt = .ok r ∧ Sh ty o2 r.conn ∧ RecvRel cfg o d.fl o2 ∧
      r.sent = fl.map (fun f => pkt ty (.chunk f)) ∧ (o.resendQueue = [] → fl = [])
  /-- a connection with an online core reports it (or is pending with nothing queued) -/
  online_sh : ∀ {t o c}, Sh t o c → P.online c = some o ∨ (P.online c = none ∧ o = .new)

variable {P : Proto} {core : P.Conn → Option Online} {cfg : Cfg} {S : Nat → P.Conn → Prop}

/-- both sides are this-endpoint-with-token (online, or pending with the fresh core), with matching
tokens, the safety invariant and the timer bounds -/
structure OnlineWH (I : GIface P core cfg S) (ta tb : I.Tok) (w : World P) : Prop where
  winv : WInv P core cfg w
  tinv : TInv S w
  ca : ∃ o, I.Sh ta o w.a.conn
  cb : ∃ o, I.Sh tb o w.b.conn
  pab : I.peer ta tb
  pba : I.peer tb ta

/-- **a block of deliveries** (each datagram with its own ack stamp), with the answers it provokes -/
theorem GIface.blockH (I : GIface P core cfg S) (hc : cfg.Ok) (hs : Sim P core cfg) (hl : LocT P S)
    {now : Nat} {draws : List Nat} {tx ty : I.Tok} (hp : I.peer tx ty) (alt : P.Alt) (peer : End P) :
    ∀ (dgs : List (DgH × Nat)) (e : End P) (o : Online),
      I.Sh ty o e.conn →
      (∀ x ∈ dgs, (⟨I.pkt tx x.1, peer.nAbs, x.2⟩ : Sent P.Packet) ∈ peer.out ∧ e.nAbs ≤ x.2 + 512) →
      AInv cfg (absEnd P core e) (absEnd P core peer) → S now e.conn →
      ∃ (e' : End P) (o' : Online) (reps : List (DgH × Nat)),
        recvEndsD now draws alt e (dgs.map fun x => I.pkt tx x.1) = some e' ∧ I.Sh ty o' e'.conn ∧
        RecvListRel cfg o (dgs.map fun x => x.1.fl) o' ∧ AInv cfg (absEnd P core e') (absEnd P core peer) ∧
        S now e'.conn ∧ e'.nAbs = e.nAbs ∧ e'.submitted = e.submitted ∧ e.dAbs ≤ e'.dAbs ∧
        e'.out = e.out ++ reps.map (fun x => ⟨I.pkt ty x.1, e.nAbs, x.2⟩) ∧
        (∀ x ∈ reps, e.dAbs ≤ x.2) ∧ (o.resendQueue = [] → reps = []) := by
  intro dgs
  induction dgs with
  | nil =>
    intro e o he _ h hS
    exact ⟨e, o, [], rfl, he, .nil o, h, hS, rfl, rfl, Nat.le_refl _, by simp, by simp, fun _ => rfl⟩
  | cons x dgs ih =>
    intro e o he hst h hS
    obtain ⟨hmem, hd⟩ := hst x (by simp)
    have hview := I.view_pkt tx x.1
    have hinv : o.Inv cfg := (h.1.snd o (I.core_sh he)).inv
    obtain ⟨hack, hseq⟩ := entry_ok (core := core) h hmem hview
    obtain ⟨o2, r, fl, hr, hrc, hrel, hsent, hfl⟩ :=
      I.recv_dg (now := now) (draws := draws) x.1 alt he hp hinv hack hseq
    have h' := hs.recv now draws e peer _ alt r hmem hr h (h2_fresh (core := core) h hmem rfl hd)
    have hS' := hl.recv now draws e.conn _ alt r hr hS
    obtain ⟨e', o', reps, f1, f2, f3, f4, f5, f6, f7, f8, f9, f10, f11⟩ := ih (e.book r []) o2 hrc
      (fun y hy => by
        obtain ⟨a, b⟩ := hst y (List.mem_cons_of_mem _ hy)
        exact ⟨a, by rw [book_nAbs]; exact b⟩) h' hS'
    refine ⟨e', o', fl.map (fun f => (DgH.chunk f, e.dAbs)) ++ reps, ?_, f2, .cons hrel f3, f4, f5,
      by rw [f6, book_nAbs], by rw [f7]; simp [End.book], Nat.le_trans (book_dAbs_le' e r) f8, ?_, ?_, ?_⟩
    · simp only [List.map_cons, recvEndsD, recvEndD, hr]
      exact f1
    · rw [f9, book_nAbs]
      simp only [End.book, hsent, List.map_map, List.map_append, List.append_assoc]
      rfl
    · intro y hy
      rcases List.mem_append.mp hy with hy | hy
      · simp only [List.mem_map] at hy
        obtain ⟨f, _, rfl⟩ := hy
        exact Nat.le_refl _
      · exact Nat.le_trans (book_dAbs_le' e r) (f10 y hy)
    · intro hq
      have : o2.resendQueue = [] := hrel.rq.2 hq
      rw [hfl hq, f11 this]; rfl

/-- **the tick phase of a round** on two online connections -/
theorem GIface.ticksWH (I : GIface P core cfg S) (hc : cfg.Ok) (hs : Sim P core cfg) (hl : LocT P S)
    {ta tb : I.Tok} {w : World P} (h : OnlineWH I ta tb w) :
    ∃ (w1 : World P) (oa ob oa2 ob2 : Online) (da db : List DgH),
      run w tickMoves = some w1 ∧ core w.a.conn = some oa ∧ core w.b.conn = some ob ∧
      I.Sh ta oa2 w1.a.conn ∧ I.Sh tb ob2 w1.b.conn ∧
      w1.a.out = w.a.out ++ (da.map (I.pkt ta)).map (fun p => ⟨p, w.a.nAbs, w.a.dAbs⟩) ∧
      w1.b.out = w.b.out ++ (db.map (I.pkt tb)).map (fun p => ⟨p, w.b.nAbs, w.b.dAbs⟩) ∧
      w1.a.submitted = w.a.submitted ∧ w1.b.submitted = w.b.submitted ∧
      w1.a.events = w.a.events ∧ w1.b.events = w.b.events ∧
      AInv cfg (absEnd P core w1.b) (absEnd P core w1.a) ∧ TInv S w1 ∧
      PhaseSpec cfg oa oa2 (da.map DgH.fl) ∧ PhaseSpec cfg ob ob2 (db.map DgH.fl) ∧ da ≠ [] ∧ db ≠ [] := by
  obtain ⟨oa, ha⟩ := h.ca
  obtain ⟨ob, hb⟩ := h.cb
  have hca : core w.a.conn = some oa := I.core_sh ha
  have hcb : core w.b.conn = some ob := I.core_sh hb
  have hwinv : AInv cfg (absEnd P core w.a) (absEnd P core w.b) := h.winv
  have hinva : oa.Inv cfg := (hwinv.1.snd oa hca).inv
  have hinvb : ob.Inv cfg := (hwinv.2.snd ob hcb).inv
  have hacka : oa.ack < seqMod := by rw [hwinv.2.rcv oa hca, seqMod_eq]; omega
  have hackb : ob.ack < seqMod := by rw [hwinv.1.rcv ob hcb, seqMod_eq]; omega
  obtain ⟨ca1, ca2, oa2, da1, da2, ea1, ea2, sha2, hpsa, hna⟩ := I.tickPhase ha hinva hacka h.tinv.1
  obtain ⟨cb1, cb2, ob2, db1, db2, eb1, eb2, shb2, hpsb, hnb⟩ := I.tickPhase hb hinvb hackb h.tinv.2
  have hrun := run_tickMoves w ca1 cb1 ca2 cb2 _ _ _ _ ea1 eb1 ea2 eb2
  generalize hw1 : ({ a := (w.a.book (tickRet ca1 (da1.map (I.pkt ta))) []).book (tickRet ca2 (da2.map (I.pkt ta))) []
                      b := (w.b.book (tickRet cb1 (db1.map (I.pkt tb))) []).book (tickRet cb2 (db2.map (I.pkt tb))) []
                      now := w.now + resendUs + sendUs } : World P) = w1 at hrun
  have w1a : w1.a = (w.a.book (tickRet ca1 (da1.map (I.pkt ta))) []).book (tickRet ca2 (da2.map (I.pkt ta))) [] := by
    rw [← hw1]
  have w1b : w1.b = (w.b.book (tickRet cb1 (db1.map (I.pkt tb))) []).book (tickRet cb2 (db2.map (I.pkt tb))) [] := by
    rw [← hw1]
  have w1now : w1.now = w.now + resendUs + sendUs := by rw [← hw1]
  have hA1 : AInv cfg (absEnd P core (w.a.book (tickRet ca1 (da1.map (I.pkt ta))) [])) (absEnd P core w.b) :=
    hs.call _ _ w.a .tick _ _ ea1 hwinv (by intro d hd; cases hd)
  have hB1 : AInv cfg (absEnd P core (w.b.book (tickRet cb1 (db1.map (I.pkt tb))) []))
      (absEnd P core (w.a.book (tickRet ca1 (da1.map (I.pkt ta))) [])) :=
    hs.call _ _ w.b .tick _ _ eb1 hA1.symm (by intro d hd; cases hd)
  have hA2 : AInv cfg (absEnd P core w1.a) (absEnd P core (w.b.book (tickRet cb1 (db1.map (I.pkt tb))) [])) := by
    rw [w1a]
    exact hs.call _ _ (w.a.book (tickRet ca1 (da1.map (I.pkt ta))) []) .tick _ _ ea2 hB1.symm (by intro d hd; cases hd)
  have hB2 : AInv cfg (absEnd P core w1.b) (absEnd P core w1.a) := by
    rw [w1b]
    exact hs.call _ _ (w.b.book (tickRet cb1 (db1.map (I.pkt tb))) []) .tick _ _ eb2 hA2.symm (by intro d hd; cases hd)
  have hT1 : TInv S w1 := by
    constructor
    · rw [w1a, w1now]
      refine hl.call _ _ _ .tick _ ea2 (hl.mono _ _ _ (Nat.le_add_right _ _) ?_)
      exact hl.call _ _ _ .tick _ ea1 (hl.mono _ _ _ (Nat.le_add_right _ _) h.tinv.1)
    · rw [w1b, w1now]
      refine hl.call _ _ _ .tick _ eb2 (hl.mono _ _ _ (Nat.le_add_right _ _) ?_)
      exact hl.call _ _ _ .tick _ eb1 (hl.mono _ _ _ (Nat.le_add_right _ _) h.tinv.2)
  refine ⟨w1, oa, ob, oa2, ob2, da1 ++ da2, db1 ++ db2, hrun, hca, hcb, by rw [w1a]; exact sha2, by rw [w1b]; exact shb2,
    ?_, ?_, by rw [w1a]; simp [End.book, tickRet], by rw [w1b]; simp [End.book, tickRet],
    by rw [w1a]; simp [End.book, tickRet], by rw [w1b]; simp [End.book, tickRet], hB2, hT1, hpsa, hpsb,
    by simp [hna], by simp [hnb]⟩
  · rw [w1a]; simp [End.book, tickRet, End.nAbs, End.dAbs, End.submittedVital, End.deliveredVital]
  · rw [w1b]; simp [End.book, tickRet, End.nAbs, End.dAbs, End.submittedVital, End.deliveredVital]

/-- both sides online; the cursors: everything `b` sent has been delivered, of what `a` sent the
answers `La` (with their ack stamps) are still to be delivered -/
structure OnlineFH (I : GIface P core cfg S) (ta tb : I.Tok) (s : FairState P) (La : List (DgH × Nat)) : Prop where
  on : OnlineWH I ta tb s.w
  hcb : s.cb = s.w.b.out.length
  hca : ∃ pre, s.w.a.out = pre ++ La.map (fun x => ⟨I.pkt ta x.1, s.w.a.nAbs, x.2⟩) ∧ pre.length = s.ca
  fresh : ∀ x ∈ La, s.w.b.nAbs ≤ x.2 + 512

theorem OnlineFH.start {I : GIface P core cfg S} {ta tb : I.Tok} {w : World P} (h : OnlineWH I ta tb w) :
    OnlineFH I ta tb (FairState.start w) [] :=
  ⟨h, rfl, ⟨w.a.out, by simp [FairState.start], rfl⟩, by simp⟩

theorem fairRoundT_specH (I : GIface P core cfg S) (hc : cfg.Ok) (hs : Sim P core cfg) (hl : LocT P S)
    (draws : List Nat) (alt : P.Alt) {ta tb : I.Tok} {s : FairState P} {La : List (DgH × Nat)}
    (h : OnlineFH I ta tb s La) :
    ∃ (s' : FairState P) (La' : List (DgH × Nat)) (vb : View), fairRoundT draws alt s = some s' ∧
      OnlineFH I ta tb s' La' ∧
      RoundT cfg (viewW core s.w) (La.map fun x => x.1.fl) vb (viewW core s'.w) (La'.map fun x => x.1.fl) := by
  obtain ⟨w1, oa, ob, oa2, ob2, da, db, hrun, hca, hcb, conna, connb, outa, outb, suba, subb, eva, evb,
    hB2, hT1, hpsa, hpsb, hna, hnb⟩ := I.ticksWH hc hs hl h.on
  obtain ⟨pre, hpre, hprelen⟩ := h.hca
  have hwinv : AInv cfg (absEnd P core s.w.a) (absEnd P core s.w.b) := h.on.winv
  have nAa := nAbs_of_submitted suba
  have nAb := nAbs_of_submitted subb
  have dAa := dAbs_of_events eva
  have dAb := dAbs_of_events evb
  have hwin_ba : s.w.b.nAbs ≤ s.w.a.dAbs + 512 := hwinv.2.win
  have hwin_ab : s.w.a.nAbs ≤ s.w.b.dAbs + 512 := hwinv.1.win
  -- block 1: the leftovers, then a's tick datagrams, to b
  have outa' : w1.a.out = pre ++ (La.map (fun x => (⟨I.pkt ta x.1, w1.a.nAbs, x.2⟩ : Sent P.Packet)) ++
      (da.map fun d => (⟨I.pkt ta d, w1.a.nAbs, s.w.a.dAbs⟩ : Sent P.Packet))) := by
    rw [outa, hpre, nAa]; simp [List.map_map, Function.comp_def]
  obtain ⟨ebm, obm, reps1, g1, g2, g3, g4, g5, g6, g7, g8, g9, g10, g11⟩ :=
    I.blockH hc hs hl (now := w1.now) (draws := draws) h.on.pab alt w1.a La w1.b ob2 connb
      (by
        intro x hx
        refine ⟨?_, by rw [nAb]; exact h.fresh x hx⟩
        rw [outa']
        exact List.mem_append_right _ (List.mem_append_left _ (List.mem_map_of_mem (f := fun x => (⟨I.pkt ta x.1, w1.a.nAbs, x.2⟩ : Sent P.Packet)) hx)))
      hB2 hT1.2
  obtain ⟨eb3, ob3, reps2, i1, i2, i3, i4, i5, i6, i7, i8, i9, i10, i11⟩ :=
    I.blockH hc hs hl (now := w1.now) (draws := draws) h.on.pab alt w1.a (da.map fun d => (d, s.w.a.dAbs)) ebm obm g2
      (by
        intro x hx
        simp only [List.mem_map] at hx
        obtain ⟨d, hd, rfl⟩ := hx
        refine ⟨?_, by rw [g6, nAb]; exact hwin_ba⟩
        rw [outa']
        exact List.mem_append_right _ (List.mem_append_right _ (List.mem_map_of_mem (f := fun d => (⟨I.pkt ta d, w1.a.nAbs, s.w.a.dAbs⟩ : Sent P.Packet)) hd)))
      g4 g5
  have hrecvB : recvEndsD w1.now draws alt w1.b
      ((La.map (fun x => (⟨I.pkt ta x.1, w1.a.nAbs, x.2⟩ : Sent P.Packet)) ++
        (da.map fun d => (⟨I.pkt ta d, w1.a.nAbs, s.w.a.dAbs⟩ : Sent P.Packet))).map (·.pkt)) = some eb3 := by
    rw [List.map_append, recvEndsD_append]
    simp only [List.map_map, Function.comp_def]
    rw [g1]
    simp only [Option.bind_some]
    simpa [List.map_map, Function.comp_def] using i1
  have hrun1 : run w1 (deliverRangeD .b s.ca w1.a.out.length draws alt) = some (w1.set .b eb3) := by
    have := run_deliverRangeG (P := P) .b draws alt
      (La.map (fun x => (⟨I.pkt ta x.1, w1.a.nAbs, x.2⟩ : Sent P.Packet)) ++
        (da.map fun d => (⟨I.pkt ta d, w1.a.nAbs, s.w.a.dAbs⟩ : Sent P.Packet))) pre [] w1
      (by simp only [Side.other, World.get]; rw [outa']; simp)
    simp only [deliverRangeD]
    have hlen : w1.a.out.length - s.ca = (La.map (fun x => (⟨I.pkt ta x.1, w1.a.nAbs, x.2⟩ : Sent P.Packet)) ++
        (da.map fun d => (⟨I.pkt ta d, w1.a.nAbs, s.w.a.dAbs⟩ : Sent P.Packet))).length := by
      rw [outa', ← hprelen]; simp
    rw [hlen, ← hprelen, this]
    simp only [World.get]
    rw [hrecvB]; rfl
  -- what b has sent by now: its tick datagrams and its answers of this round
  have eb3out : eb3.out = s.w.b.out ++ ((db.map fun d => (⟨I.pkt tb d, w1.b.nAbs, s.w.b.dAbs⟩ : Sent P.Packet)) ++
      ((reps1 ++ reps2).map fun x => (⟨I.pkt tb x.1, w1.b.nAbs, x.2⟩ : Sent P.Packet))) := by
    rw [i9, g9, outb, g6, nAb]; simp [List.map_map, Function.comp_def]
  have eb3n : eb3.nAbs = w1.b.nAbs := by rw [i6, g6]
  -- block 2: b's tick datagrams, then its answers, to a
  obtain ⟨eam, oam, repa1, k1, k2, k3, k4, k5, k6, k7, k8, k9, k10, k11⟩ :=
    I.blockH hc hs hl (now := w1.now) (draws := draws) h.on.pba alt eb3 (db.map fun d => (d, s.w.b.dAbs)) w1.a oa2 conna
      (by
        intro x hx
        simp only [List.mem_map] at hx
        obtain ⟨d, hd, rfl⟩ := hx
        refine ⟨?_, by rw [nAa]; exact hwin_ab⟩
        rw [eb3out, eb3n]
        exact List.mem_append_right _ (List.mem_append_left _ (List.mem_map_of_mem (f := fun d => (⟨I.pkt tb d, w1.b.nAbs, s.w.b.dAbs⟩ : Sent P.Packet)) hd)))
      i4.symm hT1.1
  obtain ⟨ea3, oa3, repa2, m1, m2, m3, m4, m5, m6, m7, m8, m9, m10, m11⟩ :=
    I.blockH hc hs hl (now := w1.now) (draws := draws) h.on.pba alt eb3 (reps1 ++ reps2) eam oam k2
      (by
        intro x hx
        refine ⟨?_, ?_⟩
        · rw [eb3out, eb3n]
          exact List.mem_append_right _ (List.mem_append_right _ (List.mem_map_of_mem (f := fun x => (⟨I.pkt tb x.1, w1.b.nAbs, x.2⟩ : Sent P.Packet)) hx))
        · rw [k6, nAa]
          have hx2 : s.w.b.dAbs ≤ x.2 := by
            rcases List.mem_append.mp hx with hx | hx
            · have := g10 x hx; rw [dAb] at this; exact this
            · have := i10 x hx; rw [← dAb]; exact Nat.le_trans g8 this
          omega)
      k4 k5
  have hrecvA : recvEndsD w1.now draws alt w1.a
      (((db.map fun d => (⟨I.pkt tb d, w1.b.nAbs, s.w.b.dAbs⟩ : Sent P.Packet)) ++
        ((reps1 ++ reps2).map fun x => (⟨I.pkt tb x.1, w1.b.nAbs, x.2⟩ : Sent P.Packet))).map (·.pkt)) = some ea3 := by
    rw [List.map_append, recvEndsD_append]
    simp only [List.map_map, Function.comp_def]
    have k1' := k1
    simp only [List.map_map, Function.comp_def] at k1'
    rw [k1']
    simp only [Option.bind_some]
    exact m1
  have hrun2 : run (w1.set .b eb3) (deliverRangeD .a s.cb (w1.set .b eb3).b.out.length draws alt) =
      some ((w1.set .b eb3).set .a ea3) := by
    have := run_deliverRangeG (P := P) .a draws alt
      ((db.map fun d => (⟨I.pkt tb d, w1.b.nAbs, s.w.b.dAbs⟩ : Sent P.Packet)) ++
        ((reps1 ++ reps2).map fun x => (⟨I.pkt tb x.1, w1.b.nAbs, x.2⟩ : Sent P.Packet))) s.w.b.out [] (w1.set .b eb3)
      (by simp only [Side.other, World.get, World.set]; rw [eb3out]; simp)
    simp only [deliverRangeD]
    have hlen : (w1.set .b eb3).b.out.length - s.cb =
        ((db.map fun d => (⟨I.pkt tb d, w1.b.nAbs, s.w.b.dAbs⟩ : Sent P.Packet)) ++
        ((reps1 ++ reps2).map fun x => (⟨I.pkt tb x.1, w1.b.nAbs, x.2⟩ : Sent P.Packet))).length := by
      simp only [World.set]; rw [eb3out, h.hcb]; simp
    rw [hlen, h.hcb, this]
    simp only [World.get, World.set]
    rw [hrecvA]; rfl
  -- the state after the round
  have c3a : core ea3.conn = some oa3 := I.core_sh m2
  have c3b : core eb3.conn = some ob3 := I.core_sh i2
  have c1a : core w1.a.conn = some oa2 := I.core_sh conna
  have c1b : core w1.b.conn = some ob2 := I.core_sh connb
  have cmb : core ebm.conn = some obm := I.core_sh g2
  have cma : core eam.conn = some oam := I.core_sh k2
  refine ⟨⟨(w1.set .b eb3).set .a ea3, w1.a.out.length, eb3.out.length⟩, repa1 ++ repa2, viewW core w1, ?_, ?_, ?_⟩
  · simp only [fairRoundT, hrun, hrun1, hrun2]
    rfl
  · refine ⟨⟨m4, ⟨m5, i5⟩, ⟨oa3, m2⟩, ⟨ob3, i2⟩, h.on.pab, h.on.pba⟩, rfl, ⟨w1.a.out, ?_, rfl⟩, ?_⟩
    · show ea3.out = _
      rw [m9, k9, k6]
      have : ea3.nAbs = w1.a.nAbs := by rw [m6, k6]
      simp only [World.set, this, List.map_append, List.append_assoc]
    · intro x hx
      show eb3.nAbs ≤ x.2 + 512
      rw [eb3n, nAb]
      have hx2 : s.w.a.dAbs ≤ x.2 := by
        rcases List.mem_append.mp hx with hx | hx
        · have := k10 x hx; rw [dAa] at this; exact this
        · have := m10 x hx; rw [← dAa]; exact Nat.le_trans k8 this
      omega
  · -- the round on the two cores
    have hv0 := viewW_eq s.w hca hcb
    have hvb := viewW_eq w1 c1a c1b
    have hv' : viewW core ((w1.set .b eb3).set .a ea3) =
        ⟨fun x => if x then oa3 else ob3, fun x => if x then ea3.submittedVital else eb3.submittedVital,
          fun x => if x then ea3.deliveredVital else eb3.deliveredVital⟩ :=
      viewW_eq ((w1.set .b eb3).set .a ea3) (ob := ob3) c3a c3b
    rw [hv0, hvb, hv']
    refine ⟨vinv_of_ainv hwinv hca hcb, vinv_of_ainv hB2.symm c1a c1b, vinv_of_ainv m4 c3a c3b, ?_, ?_, ?_, ?_⟩
    · funext x; cases x
      · simp [End.submittedVital, subb]
      · simp [End.submittedVital, suba]
    · funext x; cases x
      · simp [End.deliveredVital, evb]
      · simp [End.deliveredVital, eva]
    · funext x; cases x
      · simp [End.submittedVital, i7, g7, subb]
      · simp [End.submittedVital, m7, k7, suba]
    · refine ⟨da.map DgH.fl, db.map DgH.fl, (reps1 ++ reps2).map (fun x => x.1.fl), obm, oam, ebm.dAbs, eam.dAbs,
        hpsa, by simpa using hna, hpsb, by simpa using hnb, g3, ?_, ?_, ?_, ?_, ?_, m3, ?_, ?_, ?_, ?_, ?_⟩
      · simpa [List.map_map, Function.comp_def] using i3
      · exact g4.2.rcv obm cmb
      · have := g8; simp only [End.dAbs] at this dAb ⊢; simp only [Bool.false_eq_true, if_false]; omega
      · have := i8; simp only [End.dAbs] at this ⊢; simp only [Bool.false_eq_true, if_false]; exact this
      · simpa [List.map_map, Function.comp_def] using k3
      · exact k4.2.rcv oam cma
      · have := k8; simp only [End.dAbs] at this dAa ⊢; simp only [if_true]; omega
      · have := m8; simp only [End.dAbs] at this ⊢; simp only [if_true]; exact this
      · intro hq
        simp only [Bool.false_eq_true, if_false] at hq
        have h1 := g11 hq
        have hqm : obm.resendQueue = [] := (g3.idle hq).1
        have h2 := i11 hqm
        rw [h1, h2]; rfl
      · intro hq
        simp only [if_true] at hq
        have h1 := k11 hq
        have hqm : oam.resendQueue = [] := (k3.idle hq).1
        have h2 := m11 hqm
        rw [h1, h2]; rfl


theorem OnlineWH.quiescentH {I : GIface P core cfg S} {ta tb : I.Tok} {w : World P} (h : OnlineWH I ta tb w)
    (hq : (viewW core w).quiescent) : w.quiescentH := by
  obtain ⟨oa, ha⟩ := h.ca
  obtain ⟨ob, hb⟩ := h.cb
  have hca : core w.a.conn = some oa := I.core_sh ha
  have hcb : core w.b.conn = some ob := I.core_sh hb
  rw [viewW_eq w hca hcb] at hq
  have qa := hq true
  have qb := hq false
  simp only [Bool.not_true, Bool.not_false, if_true, Bool.false_eq_true, if_false] at qa qb
  refine ⟨qa.1, qb.1, ?_⟩
  intro s o ho
  cases s with
  | a =>
    rcases I.online_sh ha with h1 | ⟨h1, _⟩
    · have : P.online w.a.conn = some o := ho
      rw [h1] at this; injection this with this; subst this; exact qa.2
    · have : P.online w.a.conn = some o := ho
      rw [h1] at this; cases this
  | b =>
    rcases I.online_sh hb with h1 | ⟨h1, _⟩
    · have : P.online w.b.conn = some o := ho
      rw [h1] at this; injection this with this; subst this; exact qb.2
    · have : P.online w.b.conn = some o := ho
      rw [h1] at this; cases this

/-- **four rounds of the fair suffix from any cursor state**: both sides online or pending with
matching tokens, some answers of `a` possibly still undelivered -/
theorem fair_progressH (I : GIface P core cfg S) (hc : cfg.Ok) (hs : Sim P core cfg) (hl : LocT P S)
    (draws : List Nat) (alt : P.Alt) {ta tb : I.Tok} {s : FairState P} {La : List (DgH × Nat)}
    (h : OnlineFH I ta tb s La) :
    ∃ s' La', fairRoundsT draws alt 4 s = some s' ∧ s'.w.quiescentH ∧ OnlineFH I ta tb s' La' := by
  obtain ⟨s1, L1, b1, e1, o1, R1⟩ := fairRoundT_specH I hc hs hl draws alt h
  obtain ⟨s2, L2, b2, e2, o2, R2⟩ := fairRoundT_specH I hc hs hl draws alt o1
  obtain ⟨s3, L3, b3, e3, o3, R3⟩ := fairRoundT_specH I hc hs hl draws alt o2
  obtain ⟨s4, L4, b4, e4, o4, R4⟩ := fairRoundT_specH I hc hs hl draws alt o3
  refine ⟨s4, L4, ?_, o4.on.quiescentH (four_roundsT R1 R2 R3 R4), o4⟩
  simp only [fairRoundsT_succ, e1, e2, e3, e4, Option.bind_some, fairRoundsT]

/-! ## shape-agnostic upkeep of the invariants (used for the handshake rounds) -/

/-- deliveries of fresh datagrams of the peer's history keep the safety invariant and the clock
invariant, whatever state the receiver is in -/
theorem blockAny (hs : Sim P core cfg) (hl : LocT P S) {now : Nat} {draws : List Nat} (alt : P.Alt) (peer : End P) :
    ∀ (sents : List (Sent P.Packet)) (e e' : End P),
      (∀ sn ∈ sents, sn ∈ peer.out ∧ sn.nStamp = peer.nAbs ∧ e.nAbs ≤ sn.dStamp + 512) →
      AInv cfg (absEnd P core e) (absEnd P core peer) → S now e.conn →
      recvEndsD now draws alt e (sents.map (·.pkt)) = some e' →
      AInv cfg (absEnd P core e') (absEnd P core peer) ∧ S now e'.conn ∧ e'.submitted = e.submitted ∧
        e.dAbs ≤ e'.dAbs := by
  intro sents
  induction sents with
  | nil =>
    intro e e' _ h hS he
    simp [recvEndsD] at he
    subst he
    exact ⟨h, hS, rfl, Nat.le_refl _⟩
  | cons sn sents ih =>
    intro e e' hst h hS he
    obtain ⟨hmem, hn, hd⟩ := hst sn (by simp)
    simp only [List.map_cons, recvEndsD, recvEndD] at he
    cases hr : P.recv now draws e.conn sn.pkt alt with
    | error x => rw [hr] at he; cases he
    | ok r =>
      rw [hr] at he
      simp only at he
      have h' := hs.recv now draws e peer sn alt r hmem hr h (h2_fresh (core := core) h hmem hn hd)
      have hS' := hl.recv now draws e.conn _ alt r hr hS
      obtain ⟨a, b, c, d⟩ := ih (e.book r []) e'
        (fun y hy => by
          obtain ⟨y1, y2, y3⟩ := hst y (List.mem_cons_of_mem _ hy)
          exact ⟨y1, y2, by rw [book_nAbs]; exact y3⟩) h' hS' he
      exact ⟨a, b, by rw [c]; simp [End.book], Nat.le_trans (book_dAbs_le' e r) d⟩

/-- the tick moves are admissible whenever they return -/
theorem admissible_ticks {w w1 : World P} (h : run w tickMoves = some w1) : admissible w tickMoves = true := by
  simp only [tickMoves, run] at h
  simp only [tickMoves, admissible, h1, h2, Bool.and_self, Bool.true_and]
  cases s1 : step w (.advance resendUs) with
  | none => rw [s1] at h; cases h
  | some x1 =>
    rw [s1] at h; simp only at h ⊢
    cases s2 : step x1 (.call .a [] .tick) with
    | none => rw [s2] at h; cases h
    | some x2 =>
      rw [s2] at h; simp only at h ⊢
      cases s3 : step x2 (.call .b [] .tick) with
      | none => rw [s3] at h; cases h
      | some x3 =>
        rw [s3] at h; simp only at h ⊢
        cases s4 : step x3 (.advance sendUs) with
        | none => rw [s4] at h; cases h
        | some x4 =>
          rw [s4] at h; simp only at h ⊢
          cases s5 : step x4 (.call .a [] .tick) with
          | none => rw [s5] at h; cases h
          | some x5 =>
            rw [s5] at h; simp only at h ⊢
            cases s6 : step x5 (.call .b [] .tick) with
            | none => rw [s6] at h; cases h
            | some x6 => rfl

theorem run_tickMoves' (w : World P) (T1 T2 : Nat) (h1 : T1 = w.now + resendUs) (h2 : T2 = T1 + sendUs)
    (ca1 cb1 ca2 cb2 : P.Conn) (pa1 pb1 pa2 pb2 : List P.Packet)
    (ha1 : P.call T1 [] w.a.conn .tick = .ok (tickRet ca1 pa1))
    (hb1 : P.call T1 [] w.b.conn .tick = .ok (tickRet cb1 pb1))
    (ha2 : P.call T2 [] ca1 .tick = .ok (tickRet ca2 pa2))
    (hb2 : P.call T2 [] cb1 .tick = .ok (tickRet cb2 pb2)) :
    run w tickMoves = some
      { a := (w.a.book (tickRet ca1 pa1) []).book (tickRet ca2 pa2) []
        b := (w.b.book (tickRet cb1 pb1) []).book (tickRet cb2 pb2) []
        now := T2 } := by
  subst h1; subst h2
  exact run_tickMoves w ca1 cb1 ca2 cb2 pa1 pb1 pa2 pb2 ha1 hb1 ha2 hb2

/-! ## events only grow -/

theorem step_events {w w' : World P} (m : Move P) (h : step w m = some w') (s : Side) :
    ∃ ev, (w'.get s).events = (w.get s).events ++ ev := by
  cases m with
  | advance dt =>
    simp only [step] at h; injection h with h; subst h; exact ⟨[], by cases s <;> simp [World.get]⟩
  | call x draws c =>
    simp only [step] at h
    cases hr : P.call w.now draws (w.get x).conn c with
    | error e => rw [hr] at h; cases h
    | ok r =>
      rw [hr] at h; injection h with h; subst h
      cases x <;> cases s <;> simp [World.get, World.set, End.book]
  | deliver to i draws alt =>
    simp only [step] at h
    cases hdg : (w.get to.other).out[i]? with
    | none => rw [hdg] at h; cases h
    | some dg =>
      rw [hdg] at h; simp only at h
      cases hr : P.recv w.now draws (w.get to).conn dg.pkt alt with
      | error e => rw [hr] at h; cases h
      | ok r =>
        rw [hr] at h; injection h with h; subst h
        cases to <;> cases s <;> simp [World.get, World.set, End.book]

theorem run_events : ∀ (ms : List (Move P)) (w w' : World P), NetSim.run w ms = some w' → ∀ s : Side,
    ∃ ev, (w'.get s).events = (w.get s).events ++ ev := by
  intro ms
  induction ms with
  | nil => intro w w' h s; simp [NetSim.run] at h; subst h; exact ⟨[], by simp⟩
  | cons m ms ih =>
    intro w w' h s
    simp only [NetSim.run] at h
    cases hst : step w m with
    | none => rw [hst] at h; cases h
    | some w1 =>
      rw [hst] at h
      obtain ⟨e1, h1⟩ := step_events m hst s
      obtain ⟨e2, h2⟩ := ih w1 w' h s
      exact ⟨e1 ++ e2, by rw [h2, h1, List.append_assoc]⟩

theorem fairRoundT_events {draws : List Nat} {alt : P.Alt} {s s' : FairState P}
    (h : fairRoundT draws alt s = some s') (x : Side) : ∃ ev, (s'.w.get x).events = (s.w.get x).events ++ ev := by
  simp only [fairRoundT] at h
  cases h1 : NetSim.run s.w tickMoves with
  | none => rw [h1] at h; cases h
  | some w1 =>
    rw [h1] at h; simp only at h
    cases h2 : NetSim.run w1 (deliverRangeD .b s.ca w1.a.out.length draws alt) with
    | none => rw [h2] at h; cases h
    | some w2 =>
      rw [h2] at h; simp only at h
      cases h3 : NetSim.run w2 (deliverRangeD .a s.cb w2.b.out.length draws alt) with
      | none => rw [h3] at h; cases h
      | some w3 =>
        rw [h3] at h; injection h with h; subst h
        obtain ⟨e1, g1⟩ := run_events _ _ _ h1 x
        obtain ⟨e2, g2⟩ := run_events _ _ _ h2 x
        obtain ⟨e3, g3⟩ := run_events _ _ _ h3 x
        exact ⟨e1 ++ e2 ++ e3, by rw [g3, g2, g1]; simp⟩

theorem fairRoundsT_events {draws : List Nat} {alt : P.Alt} : ∀ (k : Nat) {s s' : FairState P},
    fairRoundsT draws alt k s = some s' → ∀ x : Side, ∃ ev, (s'.w.get x).events = (s.w.get x).events ++ ev := by
  intro k
  induction k with
  | zero => intro s s' h x; simp [fairRoundsT] at h; subst h; exact ⟨[], by simp⟩
  | succ k ih =>
    intro s s' h x
    rw [fairRoundsT_succ] at h
    cases h1 : fairRoundT draws alt s with
    | none => rw [h1] at h; cases h
    | some s1 =>
      rw [h1] at h
      obtain ⟨e1, g1⟩ := fairRoundT_events h1 x
      obtain ⟨e2, g2⟩ := ih h x
      exact ⟨e1 ++ e2, by rw [g2, g1, List.append_assoc]⟩

theorem fairRoundsT_add {draws : List Nat} {alt : P.Alt} (j k : Nat) (s : FairState P) :
    fairRoundsT draws alt (j + k) s = (fairRoundsT draws alt j s).bind (fairRoundsT draws alt k) := by
  induction j generalizing s with
  | zero => simp [fairRoundsT]
  | succ j ih =>
    rw [Nat.succ_add, fairRoundsT_succ, fairRoundsT_succ]
    cases fairRoundT draws alt s with
    | none => rfl
    | some s1 => exact ih s1

/-! ## one round of the fair suffix from its three parts (used for the handshake rounds) -/

/-- the ticks, the deliveries to `b` and the deliveries to `a` of one round, each given by its
result; the safety and clock invariants carry over whatever the connections' states are -/
theorem fairRoundT_of (hs : Sim P core cfg) (hl : LocT P S) (draws : List Nat) (alt : P.Alt)
    {s : FairState P} (hW : WInv P core cfg s.w) (hT : TInv S s.w) {w1 : World P}
    (hrun : NetSim.run s.w tickMoves = some w1)
    {prea Lb : List (Sent P.Packet)} (houta : w1.a.out = prea ++ Lb) (hprea : prea.length = s.ca)
    (hLb : ∀ sn ∈ Lb, sn.nStamp = w1.a.nAbs ∧ w1.b.nAbs ≤ sn.dStamp + 512)
    {b2 : End P} (hB : recvEndsD w1.now draws alt w1.b (Lb.map (·.pkt)) = some b2)
    {preb La : List (Sent P.Packet)} (houtb : b2.out = preb ++ La) (hpreb : preb.length = s.cb)
    (hLa : ∀ sn ∈ La, sn.nStamp = b2.nAbs ∧ w1.a.nAbs ≤ sn.dStamp + 512)
    {a2 : End P} (hA : recvEndsD w1.now draws alt w1.a (La.map (·.pkt)) = some a2) :
    fairRoundT draws alt s = some ⟨(w1.set .b b2).set .a a2, w1.a.out.length, b2.out.length⟩ ∧
      AInv cfg (absEnd P core a2) (absEnd P core b2) ∧ S w1.now a2.conn ∧ S w1.now b2.conn ∧
      a2.submitted = w1.a.submitted ∧ b2.submitted = w1.b.submitted ∧ w1.a.dAbs ≤ a2.dAbs ∧ w1.b.dAbs ≤ b2.dAbs := by
  have hW1 : WInv P core cfg w1 := run_inv hs tickMoves s.w w1 hW (admissible_ticks hrun) hrun
  have hT1 : TInv S w1 := run_loct hl tickMoves s.w w1 hT hrun
  obtain ⟨hA2, hS2, b2sub, b2d⟩ := blockAny hs hl (now := w1.now) (draws := draws) alt w1.a Lb w1.b b2
    (fun sn hsn => ⟨by rw [houta]; exact List.mem_append_right _ hsn, (hLb sn hsn).1, (hLb sn hsn).2⟩)
    hW1.symm hT1.2 hB
  obtain ⟨hA3, hS3, a2sub, a2d⟩ := blockAny hs hl (now := w1.now) (draws := draws) alt b2 La w1.a a2
    (fun sn hsn => ⟨by rw [houtb]; exact List.mem_append_right _ hsn, (hLa sn hsn).1, (hLa sn hsn).2⟩)
    hA2.symm hT1.1 hA
  have hrun1 : NetSim.run w1 (deliverRangeD .b s.ca w1.a.out.length draws alt) = some (w1.set .b b2) := by
    have := run_deliverRangeG (P := P) .b draws alt Lb prea [] w1
      (by simp only [Side.other, World.get]; rw [houta]; simp)
    simp only [deliverRangeD]
    have hlen : w1.a.out.length - s.ca = Lb.length := by rw [houta, ← hprea]; simp
    rw [hlen, ← hprea, this]
    simp only [World.get]
    rw [hB]; rfl
  have hrun2 : NetSim.run (w1.set .b b2) (deliverRangeD .a s.cb (w1.set .b b2).b.out.length draws alt) =
      some ((w1.set .b b2).set .a a2) := by
    have := run_deliverRangeG (P := P) .a draws alt La preb [] (w1.set .b b2)
      (by simp only [Side.other, World.get, World.set]; rw [houtb]; simp)
    simp only [deliverRangeD]
    have hlen : (w1.set .b b2).b.out.length - s.cb = La.length := by
      simp only [World.set]; rw [houtb, ← hpreb]; simp
    rw [hlen, ← hpreb, this]
    simp only [World.get, World.set]
    rw [hA]; rfl
  refine ⟨?_, hA3, hS3, hS2, a2sub, b2sub, a2d, b2d⟩
  simp only [fairRoundT, hrun, hrun1]
  simp only [World.set] at hrun2 ⊢
  rw [hrun2]

theorem fairRoundsT_one {draws : List Nat} {alt : P.Alt} {s s1 : FairState P}
    (e1 : fairRoundT draws alt s = some s1) : fairRoundsT draws alt 1 s = some s1 := by
  simp [fairRoundsT, e1]

theorem fairRoundsT_two {draws : List Nat} {alt : P.Alt} {s s1 s2 : FairState P}
    (e1 : fairRoundT draws alt s = some s1) (e2 : fairRoundT draws alt s1 = some s2) :
    fairRoundsT draws alt 2 s = some s2 := by
  simp [fairRoundsT, e1, e2]

theorem fairRoundsT_then {draws : List Nat} {alt : P.Alt} {j k : Nat} {s s1 s2 : FairState P}
    (e1 : fairRoundsT draws alt j s = some s1) (e2 : fairRoundsT draws alt k s1 = some s2) :
    fairRoundsT draws alt (j + k) s = some s2 := by
  rw [fairRoundsT_add, e1]; exact e2

end Tw.NetSim
