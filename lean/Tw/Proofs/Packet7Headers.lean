import Tw.Model.Packet7
import Tw.Proofs.PacketBits

/-! Header codecs of protocol7.rs (0.7): arithmetic forms of pack/unpack (from the extracted masks via
the generic bit-field lemmas) and the round trips. -/
namespace Tw.Packet7
open Tw.Packet Tw.PacketBits

/-- unfold the extracted literals of protocol7.rs -/
macro "gen7" : tactic => `(tactic| simp only [
  Tw.Gen.Packet7.PacketHeaderPacked_unpack_warn_0, Tw.Gen.Packet7.PacketHeaderPacked_unpack_warn_2,
  Tw.Gen.Packet7.PacketHeaderPacked_unpack_warn_3, Tw.Gen.Packet7.PacketHeaderPacked_unpack_warn_4,
  Tw.Gen.Packet7.PacketHeaderPacked_unpack_warn_5,
  Tw.Gen.Packet7.PacketHeader_pack_2, Tw.Gen.Packet7.PacketHeader_pack_3,
  Tw.Gen.Packet7.PacketHeaderConnlessPacked_unpack_warn_0, Tw.Gen.Packet7.PacketHeaderConnlessPacked_unpack_warn_2,
  Tw.Gen.Packet7.PacketHeaderConnlessPacked_unpack_warn_3, Tw.Gen.Packet7.PacketHeaderConnlessPacked_unpack_warn_4,
  Tw.Gen.Packet7.PacketHeaderConnless_pack_2,
  Tw.Gen.Packet7.ChunkHeaderPacked_unpack_warn_0, Tw.Gen.Packet7.ChunkHeaderPacked_unpack_warn_2,
  Tw.Gen.Packet7.ChunkHeaderPacked_unpack_warn_3, Tw.Gen.Packet7.ChunkHeaderPacked_unpack_warn_4,
  Tw.Gen.Packet7.ChunkHeaderPacked_unpack_warn_5, Tw.Gen.Packet7.ChunkHeaderPacked_unpack_warn_6,
  Tw.Gen.Packet7.ChunkHeader_pack_2, Tw.Gen.Packet7.ChunkHeader_pack_3, Tw.Gen.Packet7.ChunkHeader_pack_4,
  Tw.Gen.Packet7.ChunkHeader_pack_5, Tw.Gen.Packet7.ChunkHeader_pack_6,
  Tw.Gen.Packet7.ChunkHeaderVitalPacked_unpack_warn_0, Tw.Gen.Packet7.ChunkHeaderVitalPacked_unpack_warn_1,
  Tw.Gen.Packet7.ChunkHeaderVitalPacked_unpack_warn_2, Tw.Gen.Packet7.ChunkHeaderVitalPacked_unpack_warn_3,
  Tw.Gen.Packet7.ChunkHeaderVital_pack_1, Tw.Gen.Packet7.ChunkHeaderVital_pack_2,
  Tw.Gen.Packet7.ChunkHeaderVital_pack_3, Tw.Gen.Packet7.ChunkHeaderVital_pack_4,
  Tw.Gen.Packet7.PACKET_FLAGS_BITS, Tw.Gen.Packet7.SEQUENCE_BITS, Tw.Gen.Packet7.CHUNK_FLAGS_BITS,
  Tw.Gen.Packet7.CHUNK_SIZE_BITS, Tw.Gen.Packet7.VERSION_BITS] at *)

/-- masks and shifts as arithmetic -/
macro "bits_arith7" : tactic => `(tactic| simp only [and_3, and_12, and_15, and_32, and_48, and_60, and_63,
  and_192, and_240, and_255, and_768, and_960, and_1008, and_4032, Nat.shiftRight_eq_div_pow,
  Nat.shiftLeft_eq, Nat.reducePow] at *)

theorem ph_pack_eq (h : PacketHeader) (hf : h.flags < 16) (ha : h.ack < 1024) :
    h.pack = some (h.flags * 4 + h.ack / 256, h.ack % 256, h.numChunks) := by
  unfold PacketHeader.pack
  gen7
  bits_arith7
  have h1 : ¬ (h.flags / 16 ≠ 0 ∨ h.ack / 1024 ≠ 0) := by omega
  rw [if_neg h1]
  have e1 : h.flags * 4 % 256 = h.flags * 4 := by omega
  have e2 : h.ack / 256 % 256 = h.ack / 256 := by omega
  rw [e1, e2, or_eq_add _ _ 2 (by omega) (by omega)]

theorem ph_unpack_eq (b0 b1 b2 : Nat) (tok : Token) (h1 : b1 < 256) :
    PacketHeader.unpackWarn b0 b1 b2 tok =
      ({ flags := b0 / 4 % 16, ack := b0 % 4 * 256 + b1, numChunks := b2, token := tok },
       if b0 / 64 % 4 ≠ 0 then [.packetHeaderPadding] else []) := by
  unfold PacketHeader.unpackWarn
  gen7
  bits_arith7
  rw [or_eq_add _ _ 8 (by omega) (by omega)]
  have e : b0 / 4 % 16 * 4 / 4 = b0 / 4 % 16 := by omega
  have c1 : (b0 / 64 % 4 * 64 ≠ 0) = (b0 / 64 % 4 ≠ 0) := by apply propext; omega
  simp only [e, c1]

/-- `unpack (pack h) = (h, [])` for every in-range field tuple (the token bytes are copied) -/
theorem ph_unpack_pack (h : PacketHeader) (hf : h.flags < 16) (ha : h.ack < 1024) :
    ∃ b0 b1 b2, h.pack = some (b0, b1, b2) ∧ b0 < 256 ∧ b1 < 256 ∧
      PacketHeader.unpackWarn b0 b1 b2 h.token = (h, []) := by
  refine ⟨_, _, _, ph_pack_eq h hf ha, by omega, by omega, ?_⟩
  rw [ph_unpack_eq _ _ _ _ (by omega)]
  have e1 : (h.flags * 4 + h.ack / 256) / 4 % 16 = h.flags := by omega
  have e2 : (h.flags * 4 + h.ack / 256) % 4 * 256 + h.ack % 256 = h.ack := by omega
  have e3 : ¬ ((h.flags * 4 + h.ack / 256) / 64 % 4 ≠ 0) := by omega
  rw [e1, e2, if_neg e3]

/-- `pack (unpack b) = b` up to the two padding bits, for every byte pattern -/
theorem ph_pack_unpack (b0 b1 b2 : Nat) (tok : Token) (h1 : b1 < 256) :
    (PacketHeader.unpackWarn b0 b1 b2 tok).1.pack = some (b0 &&& 63, b1, b2) := by
  rw [ph_unpack_eq _ _ _ _ h1, ph_pack_eq _ (by simp only; omega) (by simp only; omega), and_63]
  simp only [Option.some.injEq, Prod.mk.injEq, and_true]
  omega

theorem phc_pack_eq (h : PacketHeaderConnless) (hf : h.flags < 16) (hv : h.version < 4) :
    h.pack = some (h.flags * 4 + h.version) := by
  unfold PacketHeaderConnless.pack
  gen7
  bits_arith7
  have h1 : ¬ (h.flags / 16 ≠ 0 ∨ h.version / 4 ≠ 0) := by omega
  rw [if_neg h1]
  have e1 : h.flags * 4 % 256 = h.flags * 4 := by omega
  rw [e1, or_eq_add _ _ 2 (by omega) (by omega)]

theorem phc_unpack_eq (b0 : Nat) (tok rt : Token) :
    PacketHeaderConnless.unpackWarn b0 tok rt =
      ({ flags := b0 / 4 % 16, version := b0 % 4, token := tok, responseToken := rt },
       if b0 / 64 % 4 ≠ 0 then [.packetHeaderPadding] else []) := by
  unfold PacketHeaderConnless.unpackWarn
  gen7
  bits_arith7
  have e : b0 / 4 % 16 * 4 / 4 = b0 / 4 % 16 := by omega
  have c1 : (b0 / 64 % 4 * 64 ≠ 0) = (b0 / 64 % 4 ≠ 0) := by apply propext; omega
  simp only [e, c1]

theorem phc_unpack_pack (h : PacketHeaderConnless) (hf : h.flags < 16) (hv : h.version < 4) :
    ∃ b0, h.pack = some b0 ∧ b0 < 256 ∧
      PacketHeaderConnless.unpackWarn b0 h.token h.responseToken = (h, []) := by
  refine ⟨_, phc_pack_eq h hf hv, by omega, ?_⟩
  rw [phc_unpack_eq]
  have e1 : (h.flags * 4 + h.version) / 4 % 16 = h.flags := by omega
  have e2 : (h.flags * 4 + h.version) % 4 = h.version := by omega
  have e3 : ¬ ((h.flags * 4 + h.version) / 64 % 4 ≠ 0) := by omega
  rw [e1, e2, if_neg e3]

theorem phc_pack_unpack (b0 : Nat) (tok rt : Token) :
    (PacketHeaderConnless.unpackWarn b0 tok rt).1.pack = some (b0 &&& 63) := by
  rw [phc_unpack_eq, phc_pack_eq _ (by simp only; omega) (by simp only; omega), and_63]
  simp only [Option.some.injEq]
  omega

theorem ch_pack_eq (h : ChunkHeader) (hf : h.flags < 4) (hs : h.size < 4096) :
    chunkHeaderPack h = some (h.flags * 64 + h.size / 64, h.size % 64) := by
  unfold chunkHeaderPack
  gen7
  bits_arith7
  have h1 : ¬ (h.flags / 4 ≠ 0 ∨ h.size / 4096 ≠ 0) := by omega
  rw [if_neg h1]
  have e1 : h.flags % 4 * 64 % 256 = h.flags * 64 := by omega
  have e2 : h.size / 64 % 64 * 64 / 64 % 256 = h.size / 64 := by omega
  have e3 : h.size % 64 % 256 = h.size % 64 := by omega
  rw [e1, e2, e3, or_eq_add _ _ 6 (by omega) (by omega)]

/-- arithmetic form; the padding test uses the extracted mask `0b1100_0000` (after the D1 fix) -/
theorem ch_unpack_eq (b0 b1 : Nat) :
    chunkHeaderUnpackWarn b0 b1 =
      ({ flags := b0 / 64 % 4, size := b0 % 64 * 64 + b1 % 64 },
       if b1 / 64 % 4 ≠ 0 then [.chunkHeaderPadding] else []) := by
  unfold chunkHeaderUnpackWarn
  gen7
  bits_arith7
  rw [or_eq_add _ _ 6 (by omega) (by omega)]
  have e : b0 / 64 % 4 * 64 / 64 = b0 / 64 % 4 := by omega
  have c1 : (b1 / 64 % 4 * 64 ≠ 0) = (b1 / 64 % 4 ≠ 0) := by apply propext; omega
  simp only [e, c1]

theorem ch_unpack_pack (h : ChunkHeader) (hf : h.flags < 4) (hs : h.size < 4096) :
    ∃ b0 b1, chunkHeaderPack h = some (b0, b1) ∧ b0 < 256 ∧ b1 < 256 ∧
      chunkHeaderUnpackWarn b0 b1 = (h, []) := by
  refine ⟨_, _, ch_pack_eq h hf hs, by omega, by omega, ?_⟩
  rw [ch_unpack_eq]
  have e1 : (h.flags * 64 + h.size / 64) / 64 % 4 = h.flags := by omega
  have e2 : (h.flags * 64 + h.size / 64) % 64 * 64 + h.size % 64 % 64 = h.size := by omega
  have e3 : ¬ (h.size % 64 / 64 % 4 ≠ 0) := by omega
  rw [e1, e2, if_neg e3]

theorem ch_pack_unpack (b0 b1 : Nat) (h0 : b0 < 256) :
    chunkHeaderPack (chunkHeaderUnpackWarn b0 b1).1 = some (b0, b1 &&& 63) := by
  rw [ch_unpack_eq, ch_pack_eq _ (by simp only; omega) (by simp only; omega), and_63]
  simp only [Option.some.injEq, Prod.mk.injEq]
  omega

theorem chv_pack_eq (v : ChunkHeaderVital) (hf : v.h.flags < 4) (hs : v.h.size < 4096)
    (hq : v.sequence < 1024) :
    chunkHeaderVitalPack v =
      some (v.h.flags * 64 + v.h.size / 64, v.sequence / 256 * 64 + v.h.size % 64, v.sequence % 256) := by
  unfold chunkHeaderVitalPack
  rw [ch_pack_eq _ hf hs]
  gen7
  bits_arith7
  have h1 : ¬ (v.sequence / 1024 ≠ 0) := by omega
  rw [if_neg h1]
  have e2 : v.sequence / 256 % 4 * 256 / 4 % 256 = v.sequence / 256 * 64 := by omega
  have e3 : v.sequence % 256 % 256 = v.sequence % 256 := by omega
  have e4 : v.h.size % 64 % 64 = v.h.size % 64 := by omega
  rw [e2, e3, e4, Nat.or_comm, or_eq_add _ _ 6 (by omega) (by omega)]

theorem chv_unpack_eq (b0 b1 b2 : Nat) (h2 : b2 < 256) :
    chunkHeaderVitalUnpackWarn b0 b1 b2 =
      ({ h := { flags := b0 / 64 % 4, size := b0 % 64 * 64 + b1 % 64 },
         sequence := b1 / 64 % 4 * 256 + b2 }, []) := by
  unfold chunkHeaderVitalUnpackWarn
  rw [ch_unpack_eq]
  gen7
  bits_arith7
  have e3 : ¬ (b1 % 64 / 64 % 4 ≠ 0) := by omega
  have e4 : b1 % 64 % 64 = b1 % 64 := by omega
  have e5 : b1 / 64 % 4 * 64 * 4 = b1 / 64 % 4 * 256 := by omega
  have e6 : b2 % 256 = b2 := by omega
  simp only [if_neg e3, e4, e5, e6]
  rw [or_eq_add _ _ 8 (by omega) (by omega)]

theorem chv_unpack_pack (v : ChunkHeaderVital) (hf : v.h.flags < 4) (hs : v.h.size < 4096)
    (hq : v.sequence < 1024) :
    ∃ b0 b1 b2, chunkHeaderVitalPack v = some (b0, b1, b2) ∧ b0 < 256 ∧ b1 < 256 ∧ b2 < 256 ∧
      chunkHeaderVitalUnpackWarn b0 b1 b2 = (v, []) := by
  refine ⟨_, _, _, chv_pack_eq v hf hs hq, by omega, by omega, by omega, ?_⟩
  rw [chv_unpack_eq _ _ _ (by omega)]
  have e1 : (v.h.flags * 64 + v.h.size / 64) / 64 % 4 = v.h.flags := by omega
  have e2 : (v.h.flags * 64 + v.h.size / 64) % 64 * 64 + (v.sequence / 256 * 64 + v.h.size % 64) % 64 = v.h.size := by omega
  have e3 : (v.sequence / 256 * 64 + v.h.size % 64) / 64 % 4 * 256 + v.sequence % 256 = v.sequence := by omega
  rw [e1, e2, e3]

/-- every byte pattern of a 0.7 vital chunk header is canonical -/
theorem chv_pack_unpack (b0 b1 b2 : Nat) (h0 : b0 < 256) (h1 : b1 < 256) (h2 : b2 < 256) :
    chunkHeaderVitalPack (chunkHeaderVitalUnpackWarn b0 b1 b2).1 = some (b0, b1, b2) := by
  rw [chv_unpack_eq _ _ _ h2,
    chv_pack_eq _ (by simp only; omega) (by simp only; omega) (by simp only; omega)]
  simp only [Option.some.injEq, Prod.mk.injEq]
  omega

end Tw.Packet7
