import Tw.Model.RsSem

/-!
Lemma set for reasoning about `Tw.RsSem` (the support library of the generated `Tw.Gen.Rs*`
definitions): monad plumbing, two's complement conversions at the widths 32 and 64, and the
bitwise-to-arithmetic normal forms (`x &&& (2^k-1) = x % 2^k`, `a*2^k ||| b = a*2^k + b`, …) so that
`omega` can finish.  Core Lean only.
-/
namespace Tw.RsSem

/-- widths at which signed arithmetic is used -/
def SW (w : Nat) : Prop := w = 32 ∨ w = 64
theorem sw32 : SW 32 := Or.inl rfl
theorem sw64 : SW 64 := Or.inr rfl

/-! ### monad plumbing: `simp [rs_simp]`-style unfolding set -/

theorem bind_ok {α β : Type} (x : α) (f : α → Rs β) : (Except.ok x >>= f) = f x := rfl
theorem bind_err {α β : Type} (e : Panic) (f : α → Rs β) : ((Except.error e : Rs α) >>= f) = Except.error e := rfl
theorem pure_eq {α : Type} (x : α) : (pure x : Rs α) = Except.ok x := rfl

/-! ### two's complement -/

theorem toU_toI {w : Nat} (hw : SW w) (n : Nat) : toU w (toI w n) = n % 2 ^ w := by
  rcases hw with rfl | rfl <;> (simp only [toU, toI]; omega)

theorem toI_toU {w : Nat} (hw : SW w) (a : Int) (h : inI w a) : toI w (toU w a) = a := by
  rcases hw with rfl | rfl <;> (simp only [toU, toI, inI] at *; omega)

theorem toU_nonneg {w : Nat} (hw : SW w) (a : Int) (h0 : 0 ≤ a) (h : a < 2 ^ w) : toU w a = a.toNat := by
  rcases hw with rfl | rfl <;> (simp only [toU] at *; omega)

theorem toU_neg {w : Nat} (hw : SW w) (a : Int) (h0 : a < 0) (h : -(2 : Int) ^ w ≤ a) :
    toU w a = (a + 2 ^ w).toNat := by
  rcases hw with rfl | rfl <;> (simp only [toU] at *; omega)

theorem toI_small {w : Nat} (hw : SW w) (n : Nat) (h : n < 2 ^ (w - 1)) : toI w n = n := by
  rcases hw with rfl | rfl <;> (simp only [toI] at *; omega)

theorem inI_toI {w : Nat} (hw : SW w) (n : Nat) : inI w (toI w n) := by
  rcases hw with rfl | rfl <;> (simp only [toI, inI]; omega)

/-! ### bitwise normal forms on `Nat` -/

theorem and_mask (x k : Nat) : x &&& (2 ^ k - 1) = x % 2 ^ k := Nat.and_two_pow_sub_one_eq_mod x k

theorem or_mul_pow (a b k : Nat) (h : b < 2 ^ k) : a * 2 ^ k ||| b = a * 2 ^ k + b := by
  rw [← Nat.shiftLeft_eq, Nat.shiftLeft_add_eq_or_of_lt h]

theorem or_mul_pow' (a b k : Nat) (h : b < 2 ^ k) : b ||| a * 2 ^ k = b + a * 2 ^ k := by
  rw [Nat.or_comm, or_mul_pow a b k h, Nat.add_comm]

theorem and_bit (x k : Nat) : x &&& 2 ^ k = if x / 2 ^ k % 2 = 1 then 2 ^ k else 0 := by
  have h : x &&& 2 ^ k = if x.testBit k then 2 ^ k else 0 := by
    apply Nat.eq_of_testBit_eq; intro i
    rw [Nat.testBit_and, Nat.testBit_two_pow]
    by_cases hk : k = i
    · subst hk; cases hb : x.testBit k <;> simp [Nat.testBit_two_pow]
    · cases hb : x.testBit k <;> simp [hk, Nat.testBit_two_pow]
  rw [h, Nat.testBit_eq_decide_div_mod_eq]
  by_cases h : x / 2 ^ k % 2 = 1 <;> simp [h]

theorem xor_ones (w n : Nat) (h : n < 2 ^ w) : n ^^^ (2 ^ w - 1) = 2 ^ w - 1 - n := by
  have := BitVec.toNat_not (x := BitVec.ofNat w n)
  rw [← BitVec.xor_allOnes, BitVec.toNat_xor, BitVec.toNat_allOnes, BitVec.toNat_ofNat,
    Nat.mod_eq_of_lt h] at this
  exact this

/-! ### signed bit operations against 0 and -1 (sign folding: `x ^ -sign`) -/

theorem ixor_zero {w : Nat} (hw : SW w) (a : Int) (h : inI w a) : ixor w a 0 = a := by
  have : toU w 0 = 0 := by simp [toU]
  simp [ixor, this, toI_toU hw a h]

theorem ixor_neg_one {w : Nat} (hw : SW w) (a : Int) (h : inI w a) : ixor w a (-1) = -a - 1 := by
  have h1 : toU w (-1) = 2 ^ w - 1 := by rcases hw with rfl | rfl <;> simp [toU]
  have hlt : toU w a < 2 ^ w := by rcases hw with rfl | rfl <;> (simp only [toU]; omega)
  rw [ixor, h1, xor_ones w _ hlt]
  rcases hw with rfl | rfl <;> (simp only [toU, toI, inI] at *; omega)

end Tw.RsSem
