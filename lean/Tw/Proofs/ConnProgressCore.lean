import Tw.Model.Conn
import Tw.Proofs.Conn
import Tw.Proofs.ConnSeq

/-!
# Component lemmas for progress (C02 c): what a resend emits, what in-order delivery of it does, what
the returning ack does.  Shared online core only (no network model).
-/
namespace Tw.Conn
open Tw.Time

/-- `(sequence, payload)` of the vital chunks of a chunk list, in order -/
def vitals : List Chunk → List (Nat × Bytes)
  | [] => []
  | c :: cs =>
    match c.vital with
    | some (s, _) => (s, c.data) :: vitals cs
    | none => vitals cs

theorem vitals_append (a b : List Chunk) : vitals (a ++ b) = vitals a ++ vitals b := by
  induction a with
  | nil => rfl
  | cons c cs ih =>
    simp only [List.cons_append, vitals]
    cases c.vital with
    | none => exact ih
    | some v => obtain ⟨s, r⟩ := v; simp [ih]

def flVitals (fl : List Flushed) : List (Nat × Bytes) := fl.flatMap fun f => vitals f.chunks

theorem flVitals_append (a b : List Flushed) : flVitals (a ++ b) = flVitals a ++ flVitals b := by
  simp [flVitals]

/-- a flush moves the packet's vital chunks onto the wire (or leaves them where they are) -/
theorem flush_vitals (o : Online) : flVitals o.flush.2 ++ vitals o.flush.1.packet.chunks = vitals o.packet.chunks := by
  unfold Online.flush
  split
  · simp [flVitals]
  · simp [flVitals, PacketContents.empty, vitals]

/-- **what the resend loop emits**: over the datagrams sent plus the packet left queued, exactly the
vital chunks that were already there followed by the chunks to resend, oldest first -/
theorem resendLoop_vitals {cfg : Cfg} (now : Nat) :
    ∀ (todo : List ResendChunk) (o : Online) (send : Timeout) (acc : List Flushed) o' send' fl,
      resendLoop cfg now todo o send acc = .ok (o', send', fl) →
      flVitals fl ++ vitals o'.packet.chunks =
        flVitals acc ++ vitals o.packet.chunks ++ todo.map (fun c => (c.seq, c.data)) := by
  intro todo
  induction todo with
  | nil =>
    intro o send acc o' send' fl he
    simp only [resendLoop] at he
    injection he with he; injection he with h1 h2; injection h2 with h2 h3
    subst h1 h3; simp
  | cons c rest ih =>
    intro o send acc o' send' fl he
    unfold resendLoop at he
    simp only at he
    cases hw : (if o.packet.canFit c.data.length true = true then o else o.flush.1).packet.writeChunk cfg c.data
        (some (c.seq, true)) with
    | error e => rw [hw] at he; cases he
    | ok p =>
      rw [hw] at he
      simp only at he
      have hpc := writeChunk_chunks hw
      have := ih _ _ _ o' send' fl he
      rw [this]
      simp only [hpc, vitals_append, vitals, List.map_cons]
      by_cases hf : o.packet.canFit c.data.length true = true
      · simp [hf]
      · simp only [hf, Bool.false_eq_true, if_false, flVitals_append]
        have hfl := flush_vitals o
        simp only [List.append_assoc]
        rw [← List.append_assoc (flVitals o.flush.2), hfl]
        simp

/-- **what `resend` followed by `flush` puts on the wire**: if the packet held no vital chunk of its
own… exactly the unacknowledged chunks, oldest first -/
theorem resend_vitals {cfg : Cfg} {now : Nat} {o o' : Online} {send send' : Timeout} {fl : List Flushed}
    (hnv : vitals o.packetNonvital.chunks = []) (hne : o.resendQueue ≠ [])
    (he : o.resend cfg now send = .ok (o', send', fl)) :
    flVitals (fl ++ o'.flush.2) ++ vitals o'.flush.1.packet.chunks = o.resendQueue.reverse.map (fun c => (c.seq, c.data)) := by
  unfold Online.resend at he
  rw [if_neg (by simpa using hne)] at he
  have := resendLoop_vitals now _ _ send [] o' send' fl he
  rw [flVitals_append, List.append_assoc, flush_vitals, this]
  simp [flVitals, Online.resendStart, hnv, ResendChunk.restart, List.map_reverse]

/-! ## the receiver processes datagrams one after the other = it processes their concatenation -/

theorem receiveEager_cons_none {c : Chunk} (h : c.vital = none) (ack : Nat) (rr : Bool) (cs : List Chunk) :
    receiveEager ack rr (c :: cs) = receiveEager ack rr cs := by
  rw [receiveEager]; simp [h]

theorem receiveEager_cons_some {c : Chunk} {s : Nat} {r : Bool} (h : c.vital = some (s, r)) (ack : Nat) (rr : Bool)
    (cs : List Chunk) :
    receiveEager ack rr (c :: cs) = receiveEager (seqUpdate ack s).1 (rr || (seqUpdate ack s).2 != .current) cs := by
  rw [receiveEager]; simp [h]

theorem receiveLazy_cons_none {c : Chunk} (h : c.vital = none) (ack : Nat) (cs : List Chunk) :
    receiveLazy ack (c :: cs) = .chunk c.data false :: receiveLazy ack cs := by
  rw [receiveLazy]; simp [h]

theorem receiveLazy_cons_some {c : Chunk} {s : Nat} {r : Bool} (h : c.vital = some (s, r)) (ack : Nat) (cs : List Chunk) :
    receiveLazy ack (c :: cs) =
      if (seqUpdate ack s).2 = .current then .chunk c.data true :: receiveLazy (seqUpdate ack s).1 cs
      else receiveLazy ack cs := by
  rw [receiveLazy]; simp [h]

theorem receiveEager_append (a b : List Chunk) (ack : Nat) (rr : Bool) :
    receiveEager ack rr (a ++ b) = receiveEager (receiveEager ack rr a).1 (receiveEager ack rr a).2 b := by
  induction a generalizing ack rr with
  | nil => rfl
  | cons c cs ih =>
    simp only [List.cons_append]
    cases hv : c.vital with
    | none => rw [receiveEager_cons_none hv, receiveEager_cons_none hv]; exact ih ack rr
    | some v =>
      obtain ⟨s, r⟩ := v
      rw [receiveEager_cons_some hv, receiveEager_cons_some hv]; exact ih _ _

theorem receiveLazy_append (a b : List Chunk) (ack : Nat) (rr : Bool) :
    receiveLazy ack (a ++ b) = receiveLazy ack a ++ receiveLazy (receiveEager ack rr a).1 b := by
  induction a generalizing ack rr with
  | nil => rfl
  | cons c cs ih =>
    simp only [List.cons_append]
    cases hv : c.vital with
    | none =>
      rw [receiveLazy_cons_none hv, receiveLazy_cons_none hv, receiveEager_cons_none hv, ih ack rr]; rfl
    | some v =>
      obtain ⟨s, r⟩ := v
      rw [receiveLazy_cons_some hv, receiveLazy_cons_some hv, receiveEager_cons_some hv]
      by_cases h : (seqUpdate ack s).2 = .current
      · rw [if_pos h, if_pos h, ih _ (rr || ((seqUpdate ack s).2 != .current))]; rfl
      · rw [if_neg h, if_neg h]
        have h1 : (seqUpdate ack s).1 = ack := by
          rw [seqUpdate_accept_fst]
          have := mt (seqUpdate_accept_snd ack s).mpr h
          simp [this]
        rw [ih ack (rr || ((seqUpdate ack s).2 != .current)), h1]

theorem vitalPayloads_append (a b : List Event) : vitalPayloads (a ++ b) = vitalPayloads a ++ vitalPayloads b := by
  induction a with
  | nil => rfl
  | cons e es ih =>
    cases e with
    | chunk d v => cases v <;> simp [vitalPayloads, ih]
    | connless d => simp [vitalPayloads, ih]
    | ready => simp [vitalPayloads, ih]
    | disconnect r => simp [vitalPayloads, ih]

/-- the chunk list carries exactly the sender's chunks `a, a+1, …, a+m-1`, in order (non-vital
chunks may be interleaved; the resend flag is irrelevant) -/
inductive Consecutive (sub : List Bytes) : Nat → List Chunk → Nat → Prop where
  | nil (a : Nat) : Consecutive sub a [] 0
  | nonvital (a m : Nat) (data : Bytes) (cs : List Chunk) : Consecutive sub a cs m →
      Consecutive sub a (⟨none, data⟩ :: cs) m
  | vital (a m : Nat) (r : Bool) (data : Bytes) (cs : List Chunk) : sub[a]? = some data →
      Consecutive sub (a + 1) cs m → Consecutive sub a (⟨some ((a + 1) % 1024, r), data⟩ :: cs) (m + 1)

/-- **in-order delivery of a resend brings the receiver fully up to date**: a receiver that has been
handed `d` chunks and is fed the chunks `a … a+m-1` with `a ≤ d ≤ a+m` (the first `d - a` are
retransmissions of what it already has; at most 512 of them) rejects the retransmissions, accepts
the rest: its ack becomes `a + m`, it is handed exactly `sub[d .. a+m)` -/
theorem receive_from_behind (sub : List Bytes) (cs : List Chunk) (a m : Nat) (h : Consecutive sub a cs m) :
    ∀ (d : Nat) (rr : Bool), a ≤ d → d ≤ a + m → d ≤ a + 512 →
      (receiveEager (d % 1024) rr cs).1 = (a + m) % 1024 ∧
      vitalPayloads (receiveLazy (d % 1024) cs) = (sub.drop d).take (a + m - d) := by
  induction h with
  | nil a =>
    intro d rr h1 h2 _
    have : d = a := by omega
    subst this; simp [receiveEager, receiveLazy, vitalPayloads]
  | nonvital a m data cs _ ih =>
    intro d rr h1 h2 h3
    obtain ⟨i1, i2⟩ := ih d rr h1 h2 h3
    exact ⟨by rw [receiveEager_cons_none rfl]; exact i1,
      by rw [receiveLazy_cons_none rfl]; simpa [vitalPayloads] using i2⟩
  | vital a m r data cs hd _ ih =>
    intro d rr h1 h2 h3
    by_cases hlt : a < d
    · -- a retransmission of something already handed over: rejected
      have hrej : seqNext (d % 1024) ≠ (a + 1) % 1024 := by rw [seqNext_val]; omega
      have e1 : (seqUpdate (d % 1024) ((a + 1) % 1024)).2 ≠ .current := fun hh => hrej ((seqUpdate_accept_snd _ _).mp hh)
      have e2 : (seqUpdate (d % 1024) ((a + 1) % 1024)).1 = d % 1024 := by rw [seqUpdate_accept_fst, if_neg hrej]
      obtain ⟨i1, i2⟩ := ih d (rr || ((seqUpdate (d % 1024) ((a + 1) % 1024)).2 != .current)) (by omega) (by omega) (by omega)
      constructor
      · rw [receiveEager_cons_some rfl, e2, i1]; congr 1; omega
      · rw [receiveLazy_cons_some rfl, if_neg e1, i2]; congr 1; omega
    · have hda : d = a := by omega
      subst hda
      have hacc : seqNext (d % 1024) = (d + 1) % 1024 := by rw [seqNext_val]; omega
      have e1 : (seqUpdate (d % 1024) ((d + 1) % 1024)).2 = .current := (seqUpdate_accept_snd _ _).mpr hacc
      have e2 : (seqUpdate (d % 1024) ((d + 1) % 1024)).1 = (d + 1) % 1024 := by rw [seqUpdate_accept_fst, if_pos hacc]
      obtain ⟨i1, i2⟩ := ih (d + 1) (rr || ((seqUpdate (d % 1024) ((d + 1) % 1024)).2 != .current)) (by omega) (by omega) (by omega)
      have hds : d < sub.length := (List.getElem?_eq_some_iff.mp hd).1
      constructor
      · rw [receiveEager_cons_some rfl, e2, i1]; congr 1; omega
      · rw [receiveLazy_cons_some rfl, if_pos e1, e2]
        simp only [vitalPayloads]
        rw [i2]
        have : d + (m + 1) - d = (d + 1 + m - (d + 1)) + 1 := by omega
        rw [this, List.drop_eq_getElem_cons hds, List.take_succ_cons]
        rw [List.getElem?_eq_getElem hds] at hd
        injection hd with hd
        rw [hd]

/-- a chunk list whose vital chunks are, in order, the chunks `a … a+m-1` is `Consecutive` -/
theorem consecutive_of_vitals (sub : List Bytes) : ∀ (cs : List Chunk) (a m : Nat),
    vitals cs = (List.range' a m).map (fun k => ((k + 1) % 1024, sub.getD k [])) → a + m ≤ sub.length →
    Consecutive sub a cs m := by
  intro cs
  induction cs with
  | nil =>
    intro a m hv _
    cases m with
    | zero => exact .nil a
    | succ m => simp [vitals, List.range'] at hv
  | cons c cs ih =>
    intro a m hv hl
    obtain ⟨v, d⟩ := c
    cases v with
    | none => exact .nonvital a m d cs (ih a m (by simpa [vitals] using hv) hl)
    | some x =>
      obtain ⟨s, r⟩ := x
      cases m with
      | zero => simp [vitals, List.range'] at hv
      | succ m =>
        simp only [vitals, List.range', List.map_cons, List.cons.injEq, Prod.mk.injEq] at hv
        obtain ⟨⟨hs, hd⟩, hrest⟩ := hv
        subst hs hd
        have ha : a < sub.length := by omega
        refine .vital a m r _ cs ?_ (ih (a + 1) m hrest (by omega))
        rw [List.getD_eq_getElem?_getD, List.getElem?_eq_getElem ha]; rfl

/-- chunks that are all retransmissions of what the receiver already has are all rejected -/
theorem receive_all_past (sub : List Bytes) (cs : List Chunk) (a m : Nat) (h : Consecutive sub a cs m) :
    ∀ (d : Nat) (rr : Bool), a + m ≤ d → d ≤ a + 512 →
      (receiveEager (d % 1024) rr cs).1 = d % 1024 ∧ vitalPayloads (receiveLazy (d % 1024) cs) = [] := by
  induction h with
  | nil a => intro d rr _ _; simp [receiveEager, receiveLazy, vitalPayloads]
  | nonvital a m data cs _ ih =>
    intro d rr h1 h2
    obtain ⟨i1, i2⟩ := ih d rr h1 h2
    exact ⟨by rw [receiveEager_cons_none rfl]; exact i1,
      by rw [receiveLazy_cons_none rfl]; simpa [vitalPayloads] using i2⟩
  | vital a m r data cs hd _ ih =>
    intro d rr h1 h2
    have hrej : seqNext (d % 1024) ≠ (a + 1) % 1024 := by rw [seqNext_val]; omega
    have e1 : (seqUpdate (d % 1024) ((a + 1) % 1024)).2 ≠ .current := fun hh => hrej ((seqUpdate_accept_snd _ _).mp hh)
    have e2 : (seqUpdate (d % 1024) ((a + 1) % 1024)).1 = d % 1024 := by rw [seqUpdate_accept_fst, if_neg hrej]
    obtain ⟨i1, i2⟩ := ih d (rr || ((seqUpdate (d % 1024) ((a + 1) % 1024)).2 != .current)) (by omega) (by omega)
    exact ⟨by rw [receiveEager_cons_some rfl, e2, i1], by rw [receiveLazy_cons_some rfl, if_neg e1, i2]⟩

/-- both cases at once: after the chunks `a … a+m-1` a receiver that had `d ≥ a` chunks (at most 512
ahead of `a`) has `max d (a+m)`, and was handed `max d (a+m) - d` payloads -/
theorem receive_consecutive_max (sub : List Bytes) (cs : List Chunk) (a m : Nat) (h : Consecutive sub a cs m)
    (d : Nat) (rr : Bool) (h1 : a ≤ d) (h2 : d ≤ a + 512) :
    (receiveEager (d % 1024) rr cs).1 = (max d (a + m)) % 1024 ∧
    (vitalPayloads (receiveLazy (d % 1024) cs)).length = min (max d (a + m)) (max d sub.length) - d := by
  by_cases hle : d ≤ a + m
  · obtain ⟨i1, i2⟩ := receive_from_behind sub cs a m h d rr h1 hle h2
    refine ⟨by rw [i1, Nat.max_eq_right hle], ?_⟩
    rw [i2, List.length_take, List.length_drop, Nat.max_eq_right hle]
    omega
  · obtain ⟨i1, i2⟩ := receive_all_past sub cs a m h d rr (by omega) h2
    refine ⟨by rw [i1, Nat.max_eq_left (by omega)], ?_⟩
    rw [i2, Nat.max_eq_left (by omega)]
    simp; omega

/-- processing datagrams one after the other (the receiver's ack and resend-request flag thread
through) is processing the concatenation of their chunk lists -/
def recvAll : Nat → Bool → List (List Chunk) → (Nat × Bool) × List Event
  | ack, rr, [] => ((ack, rr), [])
  | ack, rr, p :: ps =>
    let r := recvAll (receiveEager ack rr p).1 (receiveEager ack rr p).2 ps
    (r.1, receiveLazy ack p ++ r.2)

theorem recvAll_flatten (ps : List (List Chunk)) : ∀ (ack : Nat) (rr : Bool),
    recvAll ack rr ps = (receiveEager ack rr ps.flatten, receiveLazy ack ps.flatten) := by
  induction ps with
  | nil => intro ack rr; rfl
  | cons p ps ih =>
    intro ack rr
    simp only [recvAll, List.flatten_cons, ih, receiveEager_append, receiveLazy_append p ps.flatten ack rr]

/-- the unacknowledged chunks, oldest first, as `(sequence, payload)`: chunks `n-|q| … n-1` -/
theorem queue_vitals (sub : List Bytes) (q : List ResendChunk)
    (hq : ∀ i c, q[i]? = some c → i < sub.length ∧ sub[sub.length - 1 - i]? = some c.data ∧ c.seq = (sub.length - i) % 1024) :
    q.reverse.map (fun c => (c.seq, c.data)) =
      (List.range' (sub.length - q.length) q.length).map (fun k => ((k + 1) % 1024, sub.getD k [])) := by
  apply List.ext_getElem?
  intro j
  by_cases hj : j < q.length
  · have hidx : q.length - 1 - j < q.length := by omega
    have hc : q[q.length - 1 - j]? = some q[q.length - 1 - j] := List.getElem?_eq_getElem hidx
    obtain ⟨h1, h2, h3⟩ := hq _ _ hc
    have hl : q.length ≤ sub.length := by
      have := (hq (q.length - 1) _ (List.getElem?_eq_getElem (by omega))).1; omega
    rw [List.getElem?_map, List.getElem?_reverse hj, hc, List.getElem?_map, List.getElem?_range' hj]
    simp only [Option.map_some, Nat.one_mul]
    have e1 : sub.length - q.length + j + 1 = sub.length - (q.length - 1 - j) := by omega
    have e2 : sub.length - q.length + j = sub.length - 1 - (q.length - 1 - j) := by omega
    rw [h3, e1, e2, List.getD_eq_getElem?_getD, h2]; rfl
  · rw [List.getElem?_eq_none (by simp; omega), List.getElem?_eq_none (by simp; omega)]

/-! ## the returning ack -/

/-- an ack naming the newest unacknowledged chunk empties the resend queue -/
theorem ackChunks_all (o : Online) (c : ResendChunk) (rest : List ResendChunk) (hq : o.resendQueue = c :: rest) :
    (o.ackChunks c.seq).resendQueue = [] := by
  unfold Online.ackChunks
  rw [hq]
  simp [List.findIdx?_cons]

end Tw.Conn
