import Tw.Proofs.ConnSafety
import Tw.Proofs.Conn6
import Tw.Proofs.Conn7

/-!
# C01 (online cores alone): the prefix invariant of `Tw.NetSim.Core.Sys`
-/
namespace Tw.NetSim.Core
open Tw.Conn Tw.Time Tw.NetSim

/-! ## the invariant of one direction (`x` sends, `!x` receives) -/

structure Dir (cfg : Cfg) (s : Sys) (x : Bool) : Prop where
  inv : (s.ep x).Inv cfg
  seq : (s.ep x).sequence = (s.sub x).length % 1024
  ack : (s.ep (!x)).ack = (s.del (!x)).length % 1024
  pre : s.del (!x) = (s.sub x).take (s.del (!x)).length
  dle : (s.del (!x)).length ≤ (s.sub x).length
  qlen : (s.ep x).resendQueue.length ≤ 512
  qwin : (s.sub x).length ≤ (s.del (!x)).length + (s.ep x).resendQueue.length
  q : QueueOk (s.sub x) (s.ep x).resendQueue
  pk : PacketOk (s.sub x) (s.sub x).length (s.ep x).packet.chunks
  pknv : NvOk (s.nvSub x) (s.ep x).packet.chunks
  net : ∀ p ∈ s.net x, p.nSelf ≤ (s.sub x).length ∧ FlOk (s.sub x) p.nSelf p.pkt ∧ NvOk (s.nvSub x) p.pkt.chunks
  acks : ∀ p ∈ s.net (!x), p.pkt.ack = p.dSelf % 1024 ∧ p.dSelf ≤ (s.del (!x)).length ∧
    p.nPeer ≤ (s.sub x).length ∧ p.nPeer ≤ p.dSelf + 512
  nvd : ∀ d ∈ s.nvDel (!x), d ∈ s.nvSub x

theorem bool_ne {x z : Bool} (h : ¬ x = z) : x = !z := by
  cases x <;> cases z <;> simp at h ⊢

@[simp] theorem upd_same {α : Type} (f : Bool → α) (x : Bool) (v : α) : upd f x v x = v := by simp [upd]
@[simp] theorem upd_not {α : Type} (f : Bool → α) (x : Bool) (v : α) : upd f x v (!x) = f (!x) := by
  cases x <;> simp [upd]
@[simp] theorem upd_not' {α : Type} (f : Bool → α) (x : Bool) (v : α) : upd f (!x) v x = f x := by
  cases x <;> simp [upd]

theorem Sys.init_dir (cfg : Cfg) (x : Bool) : Dir cfg Sys.init x := by
  refine ⟨Online.new_inv cfg, rfl, rfl, rfl, by simp [Sys.init], by simp [Sys.init, Online.new], by simp [Sys.init],
    ?_, ?_, ?_, ?_, ?_, ?_⟩
  · intro i c h; simp [Sys.init, Online.new] at h
  · exact PacketOk.nil _ _
  · intro c hc; simp [Sys.init, Online.new, PacketContents.empty] at hc
  · intro p hp; simp [Sys.init] at hp
  · intro p hp; simp [Sys.init] at hp
  · intro d hd; simp [Sys.init] at hd

/-- what a move by `z` that only touches `z`'s sending side (send / flush / resend) preserves of the
direction in which `z` is the receiver: its new datagrams carry its current ack -/
theorem recv_role {cfg : Cfg} {s s' : Sys} {z : Bool} (h : Dir cfg s (!z))
    (hep : s'.ep (!z) = s.ep (!z)) (hack : (s'.ep z).ack = (s.ep z).ack)
    (hsub : s'.sub (!z) = s.sub (!z)) (hdel : s'.del z = s.del z) (hnet : s'.net (!z) = s.net (!z))
    (hnv : s'.nvSub (!z) = s.nvSub (!z)) (hnvd : s'.nvDel z = s.nvDel z)
    (fl : List Flushed) (hnetz : s'.net z = s.net z ++ stamp s z fl) (hfl : ∀ f ∈ fl, f.ack = (s.ep z).ack) :
    Dir cfg s' (!z) := by
  have hack0 := h.ack
  have hpre := h.pre
  have hdle := h.dle
  have hqw := h.qwin
  have hacks := h.acks
  have hnvd0 := h.nvd
  simp only [Bool.not_not] at hack0 hpre hdle hqw hacks hnvd0
  refine ⟨by rw [hep]; exact h.inv, by rw [hep, hsub]; exact h.seq, ?_, ?_, ?_, by rw [hep]; exact h.qlen, ?_,
    by rw [hep, hsub]; exact h.q, by rw [hep, hsub]; exact h.pk, by rw [hep, hnv]; exact h.pknv,
    by rw [hnet, hsub, hnv]; exact h.net, ?_, ?_⟩
  · simp only [Bool.not_not]; rw [hack, hdel]; exact hack0
  · simp only [Bool.not_not]; rw [hdel, hsub]; exact hpre
  · simp only [Bool.not_not]; rw [hdel, hsub]; exact hdle
  · simp only [Bool.not_not]; rw [hdel, hsub, hep]; exact hqw
  · simp only [Bool.not_not]
    rw [hnetz, hdel, hsub]
    intro p hp
    rcases List.mem_append.mp hp with hp | hp
    · exact hacks p hp
    · simp only [stamp, List.mem_map] at hp
      obtain ⟨f, hf, rfl⟩ := hp
      simp only
      refine ⟨by rw [hfl f hf]; exact hack0, Nat.le_refl _, Nat.le_refl _, ?_⟩
      have := h.qlen
      omega
  · simp only [Bool.not_not]; rw [hnvd, hnv]; exact hnvd0

/-- … and of the direction in which `z` sends, for a move that leaves the submission lists alone
(flush / resend / the resend inside a delivery) -/
theorem send_role_same {cfg : Cfg} {s s' : Sys} {z : Bool} (h : Dir cfg s z) (o' : Online)
    (hep : s'.ep z = o') (hepo : s'.ep (!z) = s.ep (!z))
    (hsub : s'.sub z = s.sub z) (hdel : s'.del (!z) = s.del (!z)) (hnetp : s'.net (!z) = s.net (!z))
    (hnv : s'.nvSub z = s.nvSub z) (hnvd : s'.nvDel (!z) = s.nvDel (!z))
    (fl : List Flushed) (hnetz : s'.net z = s.net z ++ stamp s z fl)
    (hinv : o'.Inv cfg) (hseq : o'.sequence = (s.ep z).sequence)
    (hql : o'.resendQueue.length ≤ 512) (hqw : (s.sub z).length ≤ (s.del (!z)).length + o'.resendQueue.length)
    (hq : QueueOk (s.sub z) o'.resendQueue)
    (hpk : PacketOk (s.sub z) (s.sub z).length o'.packet.chunks) (hpknv : NvOk (s.nvSub z) o'.packet.chunks)
    (hfl : ∀ f ∈ fl, FlOk (s.sub z) (s.sub z).length f ∧ NvOk (s.nvSub z) f.chunks) :
    Dir cfg s' z := by
  refine ⟨by rw [hep]; exact hinv, by rw [hep, hsub, hseq]; exact h.seq, by rw [hepo, hdel]; exact h.ack,
    by rw [hdel, hsub]; exact h.pre, by rw [hdel, hsub]; exact h.dle, by rw [hep]; exact hql,
    by rw [hep, hsub, hdel]; exact hqw, by rw [hep, hsub]; exact hq, by rw [hep, hsub]; exact hpk,
    by rw [hep, hnv]; exact hpknv, ?_, by rw [hnetp, hdel, hsub]; exact h.acks, by rw [hnvd, hnv]; exact h.nvd⟩
  rw [hnetz, hsub, hnv]
  intro p hp
  rcases List.mem_append.mp hp with hp | hp
  · exact h.net p hp
  · simp only [stamp, List.mem_map] at hp
    obtain ⟨f, hf, rfl⟩ := hp
    exact ⟨Nat.le_refl _, (hfl f hf).1, (hfl f hf).2⟩

/-- what `flush` emits -/
theorem step_flush {cfg : Cfg} {s : Sys} (h : ∀ x, Dir cfg s x) (z : Bool) (s' : Sys)
    (he : step cfg s (.flush z) = some s') : ∀ x, Dir cfg s' x := by
  simp only [step] at he
  injection he with he
  subst he
  have hz := h z
  have hfl := flush_fl hz.inv hz.pk hz.pknv
  intro x
  by_cases hx : x = z
  · subst hx
    refine send_role_same hz _ (by simp) (by simp) rfl rfl (by simp) rfl rfl _ (by simp)
      (Online.flush_inv hz.inv) (Online.flush_sequence _) ?_ ?_ ?_ ?_ ?_ (fun f hf => ⟨(hfl f hf).1, (hfl f hf).2.1⟩)
    · rw [Online.flush_resendQueue]; exact hz.qlen
    · rw [Online.flush_resendQueue]; exact hz.qwin
    · rw [Online.flush_resendQueue]; exact hz.q
    · rw [Online.flush_packet_nil hz.inv]; exact PacketOk.nil _ _
    · rw [Online.flush_packet_nil hz.inv]; intro c hc; simp at hc
  · have hx' : x = !z := bool_ne hx
    subst hx'
    exact recv_role (h (!z)) (by simp) (by simp [Online.flush_ack]) rfl rfl (by simp) rfl rfl _ (by simp)
      (fun f hf => (hfl f hf).2.2)

/-- everything the invariant needs to know about `resend` -/
theorem step_resend {cfg : Cfg} (hc : cfg.Ok) {s : Sys} (h : ∀ x, Dir cfg s x) (z : Bool) (s' : Sys)
    (he : step cfg s (.resend z) = some s') : ∀ x, Dir cfg s' x := by
  simp only [step] at he
  cases hr : (s.ep z).resend cfg 0 .inactive with
  | error e => rw [hr] at he; cases he
  | ok r =>
    obtain ⟨o, snd, fl⟩ := r
    rw [hr] at he
    injection he with he
    subst he
    have hz := h z
    obtain ⟨f1, f2, f3, f4, f5, f6, f7, f8⟩ := resend_facts hc hz.inv hz.q hz.qlen hz.pk hz.pknv 0 .inactive hr
    intro x
    by_cases hx : x = z
    · subst hx
      exact send_role_same hz _ (by simp) (by simp) rfl rfl (by simp) rfl rfl _ (by simp)
        f1 f2 (by rw [f4]; exact hz.qlen) (by rw [f4]; exact hz.qwin) f5 f6 f7
        (fun f hf => ⟨(f8 f hf).1, (f8 f hf).2.1⟩)
    · have hx' : x = !z := bool_ne hx
      subst hx'
      exact recv_role (h (!z)) (by simp) (by simpa using f3) rfl rfl (by simp) rfl rfl _ (by simp)
        (fun f hf => (f8 f hf).2.2)

theorem step_send {cfg : Cfg} (hc : cfg.Ok) {s : Sys} (h : ∀ x, Dir cfg s x) (z : Bool) (data : Bytes) (vital : Bool)
    (s' : Sys) (he : step cfg s (.send z data vital) = some s') : ∀ x, Dir cfg s' x := by
  simp only [step] at he
  split at he
  · cases he
  · rename_i hguard
    have hz := h z
    rcases Online.send_spec hc hz.inv 0 data vital with ⟨_, hs⟩ | ⟨hacc, hs⟩
    · rw [hs] at he
      injection he with he; subst he; exact h
    · rw [hs] at he
      injection he with he
      subst he
      -- the state the chunk is queued into, and what was flushed to make room
      have key : ∃ (ob : Online) (fl : List Flushed),
          ob = (if (s.ep z).packet.canFit data.length vital = true then s.ep z else (s.ep z).flush.1) ∧
          fl = (if (s.ep z).packet.canFit data.length vital = true then [] else (s.ep z).flush.2) ∧
          ob.Inv cfg ∧ ob.sequence = (s.ep z).sequence ∧ ob.ack = (s.ep z).ack ∧
          ob.resendQueue = (s.ep z).resendQueue ∧
          PacketOk (s.sub z) (s.sub z).length ob.packet.chunks ∧ NvOk (s.nvSub z) ob.packet.chunks ∧
          (∀ f ∈ fl, FlOk (s.sub z) (s.sub z).length f ∧ NvOk (s.nvSub z) f.chunks ∧ f.ack = (s.ep z).ack) := by
        by_cases hf : (s.ep z).packet.canFit data.length vital = true
        · exact ⟨s.ep z, [], by simp [hf], by simp [hf], hz.inv, rfl, rfl, rfl, hz.pk, hz.pknv, by simp⟩
        · refine ⟨(s.ep z).flush.1, (s.ep z).flush.2, by simp [hf], by simp [hf], Online.flush_inv hz.inv, Online.flush_sequence _,
            Online.flush_ack _, Online.flush_resendQueue _, ?_, ?_, flush_fl hz.inv hz.pk hz.pknv⟩
          · rw [Online.flush_packet_nil hz.inv]; exact PacketOk.nil _ _
          · rw [Online.flush_packet_nil hz.inv]; intro c hcm; simp at hcm
      obtain ⟨ob, fl, hob, hfl, binv, bseq, back, bq, bpk, bnv, bfl⟩ := key
      rw [← hob, ← hfl]
      have hfit : ob.packet.canFit data.length vital = true ∨ ob.packet.chunks = [] := by
        by_cases hf : (s.ep z).packet.canFit data.length vital = true
        · left; rw [hob]; simp [hf]
        · right; rw [hob]; simp only [hf]; exact Online.flush_packet_nil hz.inv
      have qinv := Online.queued_inv binv 0 data vital hacc hfit
      intro x
      by_cases hx : x = z
      · rw [hx]
        cases vital with
        | false =>
          -- a non-vital chunk: the submission list of vital chunks is untouched
          simp only [Bool.false_eq_true, if_false]
          refine ⟨by simpa using qinv, ?_, ?_, ?_, ?_, ?_, ?_, ?_, ?_, ?_, ?_, ?_, ?_⟩
          · simp [Online.queued, bseq]; exact hz.seq
          · simp; exact hz.ack
          · simp; exact hz.pre
          · simp; exact hz.dle
          · simp [Online.queued, bq]; exact hz.qlen
          · simp [Online.queued, bq]; exact hz.qwin
          · simp [Online.queued, bq]; exact hz.q
          · simp [Online.queued]; exact bpk.appendNonvital data
          · simp only [upd_same, Online.queued, Bool.false_eq_true, if_false]
            intro c hcm hv
            rcases List.mem_append.mp hcm with hcm | hcm
            · exact List.mem_append_left _ (bnv c hcm hv)
            · simp at hcm; subst hcm; simp
          · simp only [upd_same]
            intro p hp
            rcases List.mem_append.mp hp with hp | hp
            · obtain ⟨a, b, c⟩ := hz.net p hp
              exact ⟨a, b, c.mono _⟩
            · simp only [stamp, List.mem_map] at hp
              obtain ⟨f, hf, rfl⟩ := hp
              exact ⟨Nat.le_refl _, (bfl f hf).1, (bfl f hf).2.1.mono _⟩
          · simp; exact hz.acks
          · simp only [upd_same, upd_not]
            intro d hd; exact List.mem_append_left _ (hz.nvd d hd)
        | true =>
          simp only [if_true]
          have hq512 : (s.ep z).resendQueue.length < 512 := by
            simp [h1Limit] at hguard
            omega
          have hseq' : seqNext ob.sequence = ((s.sub z).length + 1) % 1024 := by
            rw [bseq, hz.seq, seqNext_eq]; omega
          have hdle := hz.dle
          refine ⟨by simpa using qinv, ?_, ?_, ?_, ?_, ?_, ?_, ?_, ?_, ?_, ?_, ?_, ?_⟩
          · simp [Online.queued, hseq']
          · simp; exact hz.ack
          · simp only [upd_same, upd_not]
            rw [List.take_append_of_le_length hdle]; exact hz.pre
          · simp; omega
          · simp [Online.queued, bq]; omega
          · simp [Online.queued, bq]; have := hz.qwin; omega
          · simp only [upd_same, Online.queued, if_true, bq, hseq']
            exact hz.q.push _ data
          · simp only [upd_same, Online.queued, if_true, hseq', List.length_append, List.length_singleton]
            exact bpk.submit data false
          · simp only [upd_same, Online.queued, if_true]
            intro c hcm hv
            rcases List.mem_append.mp hcm with hcm | hcm
            · exact bnv c hcm hv
            · simp at hcm; subst hcm; simp at hv
          · simp only [upd_same]
            intro p hp
            rcases List.mem_append.mp hp with hp | hp
            · obtain ⟨a, b, c⟩ := hz.net p hp
              exact ⟨by simp; omega, b.mono _, c⟩
            · simp only [stamp, List.mem_map] at hp
              obtain ⟨f, hf, rfl⟩ := hp
              exact ⟨by simp, (bfl f hf).1.mono _, (bfl f hf).2.1⟩
          · simp only [upd_same, upd_not]
            intro p hp
            obtain ⟨a, b, c, d⟩ := hz.acks p hp
            exact ⟨a, b, by simp; omega, d⟩
          · simp; exact hz.nvd
      · have hx' : x = !z := bool_ne hx
        subst hx'
        refine recv_role (h (!z)) (by simp) ?_ ?_ rfl (by simp) ?_ rfl fl (by simp) (fun f hf => (bfl f hf).2.2)
        · simp only [upd_same]; cases vital <;> simp [Online.queued, back]
        · cases vital <;> simp
        · cases vital <;> simp

theorem step_deliver {cfg : Cfg} (hc : cfg.Ok) {s : Sys} (h : ∀ x, Dir cfg s x) (z : Bool) (i : Nat) (s' : Sys)
    (he : step cfg s (.deliver z i) = some s') : ∀ x, Dir cfg s' x := by
  simp only [step] at he
  cases hp : (s.net (!z))[i]? with
  | none => rw [hp] at he; cases he
  | some p =>
    rw [hp] at he
    simp only at he
    split at he
    · cases he
    · rename_i hguard
      have hpm : p ∈ s.net (!z) := List.mem_of_getElem? hp
      have hg1 : (s.sub (!z)).length - p.nSelf < 256 := by
        simp only [h2Limit, ge_iff_le, not_or, Nat.not_le] at hguard; exact hguard.1
      have hg2 : (s.sub z).length - p.nPeer < 256 := by
        simp only [h2Limit, ge_iff_le, not_or, Nat.not_le] at hguard; exact hguard.2
      have hz := h z
      have hy := h (!z)
      -- facts about the datagram: as a carrier of acks (direction z) and of chunks (direction !z)
      obtain ⟨pa1, pa2, pa3, pa4⟩ := hz.acks p hpm
      obtain ⟨pn1, pn2, pn3⟩ := hy.net p hpm
      cases hfa : (s.ep z).feedAck p.pkt.ack with
      | error e => rw [hfa] at he; cases he
      | ok o1 =>
        rw [hfa] at he
        simp only at he
        have ho1 : o1 = (s.ep z).ackChunks p.pkt.ack := by
          unfold Online.feedAck at hfa
          split at hfa
          · cases hfa
          · injection hfa with hfa; exact hfa.symm
        obtain ⟨ka, ks, kp, kpn, krr, kql, ki, kq⟩ := ackChunks_fields (s.ep z) p.pkt.ack
        rw [← ho1] at ka ks kp kpn krr kql kq
        have hinv1 : o1.Inv cfg := by rw [ho1]; exact Online.ackChunks_inv hz.inv _
        have hq1 : QueueOk (s.sub z) o1.resendQueue := by rw [kq]; exact hz.q.take ki
        have hql1 : o1.resendQueue.length ≤ 512 := Nat.le_trans kql hz.qlen
        have hqw1 : (s.sub z).length ≤ (s.del (!z)).length + o1.resendQueue.length := by
          rw [ho1, pa1]
          exact ackChunks_window hz.q hz.qlen p.dSelf _ pa2 hz.dle (by omega) hz.qwin
        have hpk1 : PacketOk (s.sub z) (s.sub z).length o1.packet.chunks := by rw [kp]; exact hz.pk
        have hnv1 : NvOk (s.nvSub z) o1.packet.chunks := by rw [kp]; exact hz.pknv
        cases hrc : o1.receive cfg 0 .inactive p.pkt.requestResend p.pkt.chunks with
        | error e => rw [hrc] at he; cases he
        | ok r =>
          obtain ⟨o2, snd2, fl, evs⟩ := r
          rw [hrc] at he
          injection he with he
          subst he
          -- open `receive`: the optional resend, then the scan
          have key : ∃ o1' : Online,
              o1'.Inv cfg ∧ o1'.sequence = o1.sequence ∧ o1'.ack = o1.ack ∧
              o1'.resendQueue.length = o1.resendQueue.length ∧ QueueOk (s.sub z) o1'.resendQueue ∧
              PacketOk (s.sub z) (s.sub z).length o1'.packet.chunks ∧ NvOk (s.nvSub z) o1'.packet.chunks ∧
              (∀ f ∈ fl, FlOk (s.sub z) (s.sub z).length f ∧ NvOk (s.nvSub z) f.chunks ∧ f.ack = o1.ack) ∧
              o2 = { o1' with ack := (receiveEager o1'.ack o1'.requestResend p.pkt.chunks).1,
                              requestResend := (receiveEager o1'.ack o1'.requestResend p.pkt.chunks).2 } ∧
              evs = receiveLazy o1'.ack p.pkt.chunks := by
            unfold Online.receive at hrc
            cases hrr : p.pkt.requestResend with
            | false =>
              simp only [hrr, Bool.false_eq_true, if_false] at hrc
              split at hrc
              · cases hrc
              · injection hrc with hrc; injection hrc with e1 e2; injection e2 with e2 e3; injection e3 with e3 e4
                subst e3
                exact ⟨o1, hinv1, rfl, rfl, rfl, hq1, hpk1, hnv1, by simp, e1.symm, e4.symm⟩
            | true =>
              simp only [hrr, if_true] at hrc
              cases hrs : o1.resend cfg 0 .inactive with
              | error e => rw [hrs] at hrc; cases hrc
              | ok r2 =>
                obtain ⟨o1', s1', fl1⟩ := r2
                rw [hrs] at hrc
                simp only at hrc
                split at hrc
                · cases hrc
                · injection hrc with hrc; injection hrc with e1 e2; injection e2 with e2 e3; injection e3 with e3 e4
                  subst e3
                  obtain ⟨f1, f2, f3, f4, f5, f6, f7, f8⟩ := resend_facts hc hinv1 hq1 hql1 hpk1 hnv1 0 .inactive hrs
                  exact ⟨o1', f1, f2, f3, f4, f5, f6, f7, f8, e1.symm, e4.symm⟩
          obtain ⟨o1', g1, g2, g3, g4, g5, g6, g7, g8, g9, g10⟩ := key
          have hinv2 : o2.Inv cfg := by
            rw [g9]; exact ⟨g1.pn, g1.pnv, g1.nv, g1.cnt, g1.size, g1.data, g1.rq⟩
          -- what the receiver z is handed: the next m chunks of !z
          have hknown : ChunksKnown (s.sub (!z)) (s.sub (!z)).length p.pkt.chunks := by
            intro c hcm seq r hv
            obtain ⟨k, k1, k2, k3⟩ := pn2 c hcm seq r hv
            exact ⟨k, by omega, by omega, k3⟩
          have hyack := hy.ack
          have hypre := hy.pre
          have hydle := hy.dle
          have hyqw := hy.qwin
          have hyacks := hy.acks
          have hynvd := hy.nvd
          simp only [Bool.not_not] at hyack hypre hydle hyqw hyacks hynvd
          have hyql := hy.qlen
          obtain ⟨m, m1, m2, m3⟩ := receive_known (s.sub (!z)) _ rfl p.pkt.chunks (s.del z).length o1'.requestResend
            hydle (by omega) hknown
          have hstart : o1'.ack = (s.del z).length % 1024 := by rw [g3, ka]; exact hyack
          have hlen : (vitalPayloads evs).length = m := by
            rw [g10, hstart, m2, List.length_take, List.length_drop]; omega
          intro x
          by_cases hx : x = z
          · rw [hx]
            refine send_role_same hz o2 (by simp) (by simp) rfl (by simp) (by simp) rfl (by simp) fl (by simp)
              hinv2 (by rw [g9]; simp [g2, ks]) (by rw [g9]; simp only; rw [g4]; exact hql1)
              (by rw [g9]; simp only; rw [g4]; exact hqw1) (by rw [g9]; exact g5) (by rw [g9]; exact g6)
              (by rw [g9]; exact g7) (fun f hf => ⟨(g8 f hf).1, (g8 f hf).2.1⟩)
          · have hx' : x = !z := bool_ne hx
            rw [hx']
            refine ⟨by simpa using hy.inv, by simpa using hy.seq, ?_, ?_, ?_, by simpa using hy.qlen, ?_,
              by simpa using hy.q, by simpa using hy.pk, by simpa using hy.pknv, by simpa using hy.net, ?_, ?_⟩
            · simp only [Bool.not_not, upd_same, List.length_append, hlen]
              rw [g9]; simp only
              rw [hstart]; exact m3
            · simp only [Bool.not_not, upd_same, List.length_append, hlen]
              rw [g10, hstart, m2]
              rw [List.take_add]
              rw [← hypre]
            · simp only [Bool.not_not, upd_same, List.length_append, hlen]; exact m1
            · simp only [Bool.not_not, upd_same, upd_not, List.length_append, hlen]; omega
            · simp only [Bool.not_not, upd_same, upd_not, List.length_append, hlen]
              intro p' hp'
              rcases List.mem_append.mp hp' with hp' | hp'
              · obtain ⟨a, b, c, d⟩ := hyacks p' hp'
                exact ⟨a, by omega, c, d⟩
              · simp only [stamp, List.mem_map] at hp'
                obtain ⟨f, hf, rfl⟩ := hp'
                simp only
                refine ⟨by rw [(g8 f hf).2.2, ka]; exact hyack, by omega, Nat.le_refl _, by omega⟩
            · simp only [Bool.not_not, upd_same, upd_not]
              intro d hd
              rcases List.mem_append.mp hd with hd | hd
              · exact hynvd d hd
              · rw [g10] at hd
                obtain ⟨c, hcm, hv, rfl⟩ := nonvital_mem _ _ d hd
                exact pn3 c hcm hv

/-- **the invariant is inductive** -/
theorem step_dir {cfg : Cfg} (hc : cfg.Ok) {s s' : Sys} (h : ∀ x, Dir cfg s x) (m : Move)
    (he : step cfg s m = some s') : ∀ x, Dir cfg s' x := by
  cases m with
  | send z d v => exact step_send hc h z d v s' he
  | flush z => exact step_flush h z s' he
  | resend z => exact step_resend hc h z s' he
  | deliver z i => exact step_deliver hc h z i s' he

theorem run_dir {cfg : Cfg} (hc : cfg.Ok) : ∀ (ms : List Move) (s s' : Sys), (∀ x, Dir cfg s x) →
    run cfg s ms = some s' → ∀ x, Dir cfg s' x := by
  intro ms
  induction ms with
  | nil => intro s s' h he; simp [run] at he; subst he; exact h
  | cons m ms ih =>
    intro s s' h he
    simp only [run] at he
    cases hs : step cfg s m with
    | none => rw [hs] at he; cases he
    | some s1 => rw [hs] at he; exact ih s1 s' (step_dir hc h m hs) he


/-! ## The theorems of the first stage (formerly in `Props/C01.lean`; subsumed by `Tw.Props.C01.C01_all`) -/

/-- **prefix theorem (online phase)**: for every admissible schedule from two fresh online endpoints,
in both directions, what was handed over is a prefix of what was submitted -/
theorem online_vital_prefix (cfg : Cfg) (hc : cfg.Ok) (ms : List Move) (s : Sys)
    (h : run cfg Sys.init ms = some s) (x : Bool) : s.del (!x) <+: s.sub x := by
  have := (run_dir hc ms Sys.init s (Sys.init_dir cfg) h x).pre
  rw [this]
  exact List.take_prefix _ _

/-- … for the 0.6 and the 0.7 configuration -/
theorem online_vital_prefix6 (ms : List Move) (s : Sys) (h : run Tw.Conn6.cfg Sys.init ms = some s)
    (x : Bool) : s.del (!x) <+: s.sub x := online_vital_prefix _ Tw.Conn6.cfg_ok ms s h x

theorem online_vital_prefix7 (ms : List Move) (s : Sys) (h : run Tw.Conn7.cfg Sys.init ms = some s)
    (x : Bool) : s.del (!x) <+: s.sub x := online_vital_prefix _ Tw.Conn7.cfg_ok ms s h x

/-- the receiver's ack and the sender's sequence are the two counters modulo 1024 (wrap-around) -/
theorem online_counters (cfg : Cfg) (hc : cfg.Ok) (ms : List Move) (s : Sys)
    (h : run cfg Sys.init ms = some s) (x : Bool) :
    (s.ep (!x)).ack = (s.del (!x)).length % 1024 ∧ (s.ep x).sequence = (s.sub x).length % 1024 := by
  have d := run_dir hc ms Sys.init s (Sys.init_dir cfg) h x
  exact ⟨d.ack, d.seq⟩

/-- every non-vital chunk handed over was submitted by the peer -/
theorem online_nonvital_membership (cfg : Cfg) (hc : cfg.Ok) (ms : List Move) (s : Sys)
    (h : run cfg Sys.init ms = some s) (x : Bool) : ∀ d ∈ s.nvDel (!x), d ∈ s.nvSub x :=
  (run_dir hc ms Sys.init s (Sys.init_dir cfg) h x).nvd

/-! ## "ready" -/

theorem receiveLazy_no_ready (ack : Nat) (cs : List Chunk) : Event.ready ∉ receiveLazy ack cs := by
  induction cs generalizing ack with
  | nil => simp [receiveLazy]
  | cons c cs ih =>
    unfold receiveLazy
    cases hv : c.vital with
    | none => simp only; intro h; rcases List.mem_cons.mp h with h | h; cases h; exact ih _ h
    | some v =>
      obtain ⟨s, r⟩ := v
      simp only
      split
      · intro h; rcases List.mem_cons.mp h with h | h; cases h; exact ih _ h
      · exact ih _

theorem receive_events {cfg : Cfg} {now : Nat} {o : Online} {snd : Tw.Time.Timeout} {rr : Bool} {cs : List Chunk}
    {o' : Online} {s' : Tw.Time.Timeout} {fl : List Flushed} {evs : List Event}
    (h : o.receive cfg now snd rr cs = .ok (o', s', fl, evs)) : ∃ a, evs = receiveLazy a cs := by
  unfold Online.receive at h
  cases rr with
  | false =>
    simp only [Bool.false_eq_true, if_false] at h
    split at h
    · cases h
    · injection h with h; injection h with _ e2; injection e2 with _ e3; injection e3 with _ e4
      exact ⟨_, e4.symm⟩
  | true =>
    simp only [if_true] at h
    cases hr : o.resend cfg now snd with
    | error e => rw [hr] at h; cases h
    | ok r =>
      obtain ⟨o2, s2, f2⟩ := r
      rw [hr] at h
      simp only at h
      split at h
      · cases h
      · injection h with h; injection h with _ e2; injection e2 with _ e3; injection e3 with _ e4
        exact ⟨_, e4.symm⟩

theorem tickAction6_no_events (env : Tw.Conn6.Env) (c c' : Tw.Conn6.Conn) (out : Tw.Conn6.Out)
    (h : Tw.Conn6.tickAction env c = .ok (c', out)) : out.events = [] := by
  obtain ⟨st, snd⟩ := c
  cases st <;> simp only [Tw.Conn6.tickAction] at h
  · injection h with h; injection h with _ h; rw [← h]
  · split at h
    · cases h
    · injection h with h; injection h with _ h; rw [← h]
  · split at h
    · cases h
    · injection h with h; injection h with _ h; rw [← h]
  · split at h
    · split at h
      · cases h
      · injection h with h; injection h with _ h; rw [← h]
    · split at h
      · cases h
      · injection h with h; injection h with _ h; rw [← h]
  · injection h with h; injection h with _ h; rw [← h]

/-- **0.6**: processing a packet yields `Ready` only if the packet is a `ConnectAccept` control
packet and the connection is `Connecting`; the connection then goes online with that packet's token.
(`feedBody` is `feed` after the token check; every other call of the API produces no event at all.) -/
theorem conn6_ready_only_on_accept (env : Tw.Conn6.Env) (c c' : Tw.Conn6.Conn) (token : Option Nat)
    (p : Tw.Conn6.Packet) (out : Tw.Conn6.Out)
    (h : Tw.Conn6.feedBody env c token p = .ok (c', out)) (hr : Event.ready ∈ out.events) :
    c.state = .connecting ∧ (∃ ack tok, p = .control ack tok .connectAccept) ∧ c'.state = .online token .new := by
  obtain ⟨st, snd⟩ := c
  cases p with
  | connless d =>
    simp only [Tw.Conn6.feedBody] at h
    injection h with h; injection h with _ h; rw [← h] at hr; simp at hr
  | chunks ack tk rr n cs =>
    have key : ∀ (t : Option Nat) (o : Online),
        (match o.receive Tw.Conn6.cfg env.now snd rr cs with
          | .error e => .error e
          | .ok (o1, send1, fl, evs) =>
            match Tw.Conn6.emit (fl.map (Tw.Conn6.ofFlushed t)) with
            | .error e => .error e
            | .ok ps => .ok (⟨.online t o1, send1⟩, { sent := ps, events := evs })) = Except.ok (c', out) → False := by
      intro t o hk
      cases hrc : o.receive Tw.Conn6.cfg env.now snd rr cs with
      | error e => rw [hrc] at hk; cases hk
      | ok r =>
        obtain ⟨o1, s1, fl, evs⟩ := r
        rw [hrc] at hk
        simp only at hk
        split at hk
        · cases hk
        · injection hk with hk; injection hk with _ hk
          rw [← hk] at hr
          simp only at hr
          -- the events are those of the lazy iterator
          obtain ⟨a, ha⟩ := receive_events hrc
          rw [ha] at hr
          exact receiveLazy_no_ready _ _ hr
    cases st with
    | online t o => exact absurd h (fun hh => key t o hh)
    | pending t => exact absurd h (fun hh => key t .new hh)
    | unconnected => simp only [Tw.Conn6.feedBody] at h; injection h with h; injection h with _ h; rw [← h] at hr; simp at hr
    | connecting => simp only [Tw.Conn6.feedBody] at h; injection h with h; injection h with _ h; rw [← h] at hr; simp at hr
    | disconnected => simp only [Tw.Conn6.feedBody] at h; injection h with h; injection h with _ h; rw [← h] at hr; simp at hr
  | control ack tk ctl =>
    cases ctl with
    | keepAlive => simp only [Tw.Conn6.feedBody] at h; injection h with h; injection h with _ h; rw [← h] at hr; simp at hr
    | accept => simp only [Tw.Conn6.feedBody] at h; injection h with h; injection h with _ h; rw [← h] at hr; simp at hr
    | close r => simp only [Tw.Conn6.feedBody] at h; injection h with h; injection h with _ h; rw [← h] at hr; simp at hr
    | connect =>
      cases st with
      | unconnected =>
        cases token with
        | none =>
          simp only [Tw.Conn6.feedBody] at h
          have := tickAction6_no_events _ _ _ _ h
          rw [this] at hr; simp at hr
        | some t0 =>
          simp only [Tw.Conn6.feedBody] at h
          split at h
          · split at h
            · cases h
            · have := tickAction6_no_events _ _ _ _ h
              rw [this] at hr; simp at hr
          · injection h with h; injection h with _ h; rw [← h] at hr; simp at hr
      | online t o => simp only [Tw.Conn6.feedBody] at h; injection h with h; injection h with _ h; rw [← h] at hr; simp at hr
      | pending t => simp only [Tw.Conn6.feedBody] at h; injection h with h; injection h with _ h; rw [← h] at hr; simp at hr
      | connecting => simp only [Tw.Conn6.feedBody] at h; injection h with h; injection h with _ h; rw [← h] at hr; simp at hr
      | disconnected => simp only [Tw.Conn6.feedBody] at h; injection h with h; injection h with _ h; rw [← h] at hr; simp at hr
    | connectAccept =>
      cases st with
      | connecting =>
        simp only [Tw.Conn6.feedBody] at h
        split at h
        · cases h
        · injection h with h; injection h with h1 _
          exact ⟨rfl, ⟨ack, tk, rfl⟩, by rw [← h1]⟩
      | online t o => simp only [Tw.Conn6.feedBody] at h; injection h with h; injection h with _ h; rw [← h] at hr; simp at hr
      | pending t => simp only [Tw.Conn6.feedBody] at h; injection h with h; injection h with _ h; rw [← h] at hr; simp at hr
      | unconnected => simp only [Tw.Conn6.feedBody] at h; injection h with h; injection h with _ h; rw [← h] at hr; simp at hr
      | disconnected => simp only [Tw.Conn6.feedBody] at h; injection h with h; injection h with _ h; rw [← h] at hr; simp at hr

/-! ## Non-vacuity: an admissible schedule with loss, duplication and reordering; the guards are
decidable and the statement computes -/

def demo : List Move :=
  [.send true [1] true, .send true [2] true, .flush true, .send true [3] true, .send true [9] false, .flush true,
   .deliver false 1,      -- second datagram first: chunk 3 is from the future, a resend is requested
   .deliver false 1,      -- duplicate
   .flush false,
   .deliver true 0,       -- the resend request reaches the sender: it resends everything
   .flush true,
   .deliver false 2,      -- the resent chunks arrive
   .deliver false 0]      -- the delayed first datagram: all in the past

example : (run Tw.Conn6.cfg Sys.init demo).map (fun s => (s.del false, s.sub true, s.nvDel false)) =
    some ([[1], [2], [3]], [[1], [2], [3]], [[9], [9]]) := by decide +kernel

example : Tw.Conn6.cfg.Ok ∧ Tw.Conn7.cfg.Ok := ⟨Tw.Conn6.cfg_ok, Tw.Conn7.cfg_ok⟩



end Tw.NetSim.Core
