import Tw.Proofs.SnapAccepted
import Tw.Proofs.SnapRef1

/-! C11: what the delta reader accepts is `Delta.WF` up to delete/update overlap. -/
namespace Tw.Snap

theorem readKeys_sorted : ∀ (n : Nat) (src : Src) (acc : List Int) (ws : List Warning) (ks : List Int)
    (src' : Src) (ws' : List Warning), src.AllI32 → SortedSet acc → (∀ k ∈ acc, I32 k) →
    readKeys n src acc ws = some (ks, src', ws') → SortedSet ks ∧ ∀ k ∈ ks, I32 k := by
  intro n
  induction n with
  | zero =>
    intro src acc ws ks src' ws' _ hs hI h
    simp [readKeys] at h
    rw [← h.1]; exact ⟨hs, hI⟩
  | succ n ih =>
    intro src acc ws ks src' ws' hsrc hs hI h
    simp only [readKeys] at h
    cases h1 : src.readInt with
    | none => simp [h1] at h
    | some t =>
      obtain ⟨v, s1, w1⟩ := t
      simp only [h1] at h
      obtain ⟨hv, hs1⟩ := Src.readInt_I32 hsrc h1
      refine ih s1 _ _ ks src' ws' hs1 (sinsert_sorted hs) ?_ h
      intro k hk
      rcases sinsert_mem.mp hk with rfl | hk
      · exact hv
      · exact hI k hk

/-- every key updated so far is outside `deleted`, unless `DeleteUpdate` was warned -/
def NoOverlap (deleted : List Int) (upd : Items) (ws : List Warning) : Prop :=
  Warning.deleteUpdate ∉ ws → ∀ p ∈ upd, p.1 ∉ deleted

theorem noOverlap_step {deleted : List Int} {upd : Items} {ws : List Warning} {k : Int} {data : List Int}
    (h : NoOverlap deleted upd ws) (pre : List Warning) (dupW : List Warning) :
    NoOverlap deleted (minsert k data upd)
      (ws ++ pre ++ dupW ++ if deleted.contains k = true then [Warning.deleteUpdate] else []) := by
  intro hno p hp
  have hno1 : Warning.deleteUpdate ∉ ws := by
    intro hm; apply hno; simp [hm]
  rcases mem_minsert hp with rfl | hp
  · intro hmem
    apply hno
    have hc : deleted.contains k = true := List.contains_iff_mem.mpr hmem
    rw [if_pos hc]
    simp
  · exact h hno1 p hp

theorem readUpdates_noOverlap (objSize : Nat → Option Nat) (deleted : List Int) :
    ∀ (fuel : Nat) (src : Src) (upd : Items) (bl num : Nat) (ws : List Warning) (upd' : Items) (num' : Nat)
      (ws' : List Warning), NoOverlap deleted upd ws →
      readUpdates objSize deleted fuel src upd bl num ws = .ok (upd', num', ws') →
      NoOverlap deleted upd' ws' := by
  intro fuel
  induction fuel with
  | zero =>
    intro src upd bl num ws upd' num' ws' hu h
    simp only [readUpdates] at h
    split at h
    · simp at h; rw [← h.1, ← h.2.2]; exact hu
    · cases h
  | succ f ih =>
    intro src upd bl num ws upd' num' ws' hu h
    rw [readUpdates] at h
    split at h
    · simp at h; rw [← h.1, ← h.2.2]; exact hu
    · cases h1 : src.readInt with
      | none => simp [h1] at h
      | some t1 =>
        obtain ⟨t, s1, w1⟩ := t1
        simp only [h1] at h
        cases h2 : s1.readInt with
        | none => simp [h2] at h
        | some t2 =>
          obtain ⟨id, s2, w2⟩ := t2
          simp only [h2] at h
          split at h
          · cases h
          · split at h
            · cases h
            · cases ho : objSize t.toNat with
              | some sz =>
                simp only [ho] at h
                split at h
                · cases h
                · split at h
                  · cases h
                  · cases h4 : readData sz s2 with
                    | none => simp [h4] at h
                    | some t4 =>
                      obtain ⟨data, s4, w4⟩ := t4
                      simp only [h4] at h
                      refine ih s4 _ _ _ _ upd' num' ws' ?_ h
                      have := noOverlap_step (k := keyOf t.toNat id.toNat) (data := data) hu
                        (w1 ++ w2 ++ [] ++ w4)
                        (if (mfind (keyOf t.toNat id.toNat) upd).isSome = true then [Warning.duplicateUpdate] else [])
                      simpa [List.append_assoc] using this
              | none =>
                simp only [ho] at h
                cases h3 : s2.readInt with
                | none => simp [h3] at h
                | some t3 =>
                  obtain ⟨sz, s3, w3⟩ := t3
                  simp only [h3] at h
                  by_cases hneg : sz < 0
                  · simp only [hneg, if_true] at h; cases h
                  · simp only [hneg, if_false] at h
                    split at h
                    · cases h
                    · split at h
                      · cases h
                      · cases h4 : readData sz.toNat s3 with
                        | none => simp [h4] at h
                        | some t4 =>
                          obtain ⟨data, s4, w4⟩ := t4
                          simp only [h4] at h
                          refine ih s4 _ _ _ _ upd' num' ws' ?_ h
                          have := noOverlap_step (k := keyOf t.toNat id.toNat) (data := data) hu
                            (w1 ++ w2 ++ w3 ++ w4)
                            (if (mfind (keyOf t.toNat id.toNat) upd).isSome = true then [Warning.duplicateUpdate] else [])
                          simpa [List.append_assoc] using this

/-- C11: what `Delta::read` accepts is a well-formed delta (`Delta.WF`: sorted set of deleted `i32`
keys, sorted map of `i32` updates, sizes that fit) up to the one thing the reader only warns about:
a key that is both deleted and updated.  Without the `DeleteUpdate` warning it is `Delta.WF`. -/
theorem readDelta_accepts_WF (objSize : Nat → Option Nat) {src : Src} {d : Delta} {ws : List Warning}
    (hs : src.AllI32) (hsize : src.size < 2147483648) (h : readDelta objSize src = .ok (d, ws)) :
    SortedSet d.deleted ∧ (∀ k ∈ d.deleted, I32 k) ∧ Sorted d.updated ∧
    (∀ p ∈ d.updated, I32 p.1 ∧ ∀ x ∈ p.2, I32 x) ∧
    d.deleted.length < 2147483648 ∧ d.updated.length < 2147483648 ∧ dataLen d.updated < 2147483648 ∧
    (Warning.deleteUpdate ∉ ws → d.WF) := by
  have hI := readDelta_I32 objSize hs h
  have hal := readDelta_alloc objSize h
  -- the deleted set and the overlap property need a look inside
  have hinside : SortedSet d.deleted ∧ (∀ k ∈ d.deleted, I32 k) ∧
      (Warning.deleteUpdate ∉ ws → ∀ p ∈ d.updated, p.1 ∉ d.deleted) := by
    unfold readDelta at h
    cases h1 : src.readInt with
    | none => simp [h1] at h
    | some t1 =>
      obtain ⟨nd, s1, w1⟩ := t1
      simp only [h1] at h
      obtain ⟨_, hs1⟩ := Src.readInt_I32 hs h1
      split at h
      · cases h
      · cases h2 : s1.readInt with
        | none => simp [h2] at h
        | some t2 =>
          obtain ⟨nu, s2, w2⟩ := t2
          simp only [h2] at h
          obtain ⟨_, hs2⟩ := Src.readInt_I32 hs1 h2
          split at h
          · cases h
          · cases h3 : s2.readInt with
            | none => simp [h3] at h
            | some t3 =>
              obtain ⟨z, s3, w3⟩ := t3
              simp only [h3] at h
              obtain ⟨_, hs3⟩ := Src.readInt_I32 hs2 h3
              cases h4 : readKeys nd.toNat s3 [] [] with
              | none => simp [h4] at h
              | some t4 =>
                obtain ⟨deleted, s4, w4⟩ := t4
                simp only [h4] at h
                have hk := readKeys_sorted _ _ _ _ _ _ _ hs3 (by simp [SortedSet]) (by simp) h4
                cases h5 : readUpdates objSize deleted s4.size s4 [] 0 0 [] with
                | panic q => simp [h5] at h
                | err e => simp [h5] at h
                | ok r =>
                  obtain ⟨upd, num, w5⟩ := r
                  simp [h5] at h
                  have hno := readUpdates_noOverlap objSize deleted _ _ _ _ _ _ upd num w5
                    (by intro _ p hp; simp at hp) h5
                  rw [← h.1]
                  refine ⟨hk.1, hk.2, ?_⟩
                  intro hw
                  apply hno
                  intro hm
                  apply hw
                  rw [← h.2]
                  simp [hm]
  obtain ⟨h1, h2, h3⟩ := hinside
  refine ⟨h1, h2, hI.1, hI.2, by omega, by omega, by omega, ?_⟩
  intro hw
  exact ⟨h1, h2, hI.1, fun p hp => ⟨(hI.2 p hp).1, (hI.2 p hp).2, h3 hw p hp⟩, by omega, by omega, by omega⟩
end Tw.Snap
