import Tw.Model.Conn7
import Tw.Proofs.ConnWire7

/-!
# 0.7: the response tokens a connection puts into `Connect` / `Token` packets are 32-bit values

`Token::random` returns one of the `secure_random` draws (4 bytes each: values below `2^32`); the own
token of a connection is always such a draw, and `Connect` / `Token` packets carry the own token as
response token.  Hence `Wire7.tokRange` holds for everything a connection sends, for every schedule
whose random draws are 32-bit values (`Env.drawsOk`) — with arbitrary fed packets.
-/
namespace Tw.Conn7
open Tw.Conn Tw.Time Tw.Wire7

/-- the callback's `secure_random` results are 4-byte values -/
def Env.drawsOk (env : Env) : Prop := ∀ d ∈ env.draws, d < 2 ^ 32

/-- the own token is a 32-bit value -/
def Conn.TokInv (c : Conn) : Prop := ∀ o, c.state.ownToken? = some o → o < 2 ^ 32

def TokKeeps (c : Conn) (r : Res) : Prop :=
  c.TokInv → ∀ c' out, r = .ok (c', out) → c'.TokInv ∧ ∀ p ∈ out.sent, tokRange p

theorem tokenRandom_mem : ∀ (draws : List Nat) (t : Nat), tokenRandom draws = some t → t ∈ draws
  | [], t, h => by simp [tokenRandom] at h
  | d :: ds, t, h => by
    simp only [tokenRandom] at h
    split at h
    · injection h with h; subst h; simp
    · exact List.mem_cons_of_mem _ (tokenRandom_mem ds t h)

theorem emit_eq' {ps ps' : List Packet} (h : emit ps = .ok ps') : ps' = ps := by
  unfold emit at h
  split at h
  · cases h
  · split at h
    · injection h with h; exact h.symm
    · cases h

theorem sendControlWith_tok {st : State} {snd : Timeout} {ctl : Control} {tok : Nat} {ps : List Packet}
    (h : sendControlWith st ctl tok = .ok ps) (hi : Conn.TokInv ⟨st, snd⟩)
    (hc : ∀ rt, ctl = .connect rt ∨ ctl = .token rt → st.ownToken? = some rt) : ∀ p ∈ ps, tokRange p := by
  unfold sendControlWith at h
  have := emit_eq' h
  subst this
  intro p hp
  simp at hp
  subst hp
  cases ctl with
  | connect rt => exact hi rt (hc rt (Or.inl rfl))
  | token rt => exact hi rt (hc rt (Or.inr rfl))
  | _ => trivial

theorem flushed_tok (their : Nat) {fl : List Flushed} {ps : List Packet}
    (h : emit (fl.map (ofFlushed their)) = .ok ps) : ∀ p ∈ ps, tokRange p := by
  have := emit_eq' h
  subst this
  intro p hp
  simp only [List.mem_map] at hp
  obtain ⟨f, _, rfl⟩ := hp
  trivial

theorem tokKeeps_same (c : Conn) (out : Out) (ho : out.sent = []) : TokKeeps c (.ok (c, out)) := by
  intro hi c' out' h
  injection h with h; injection h with h1 h2; subst h1 h2
  exact ⟨hi, by simp [ho]⟩

theorem tokKeeps_error (c : Conn) (e : Fail) : TokKeeps c (.error e) := by intro _ _ _ h; cases h

theorem tickAction_tok (env : Env) (c c0 : Conn) (hc : c0.TokInv → c.TokInv) : TokKeeps c0 (tickAction env c) := by
  intro hi0 c' out h
  have hi := hc hi0
  obtain ⟨st, snd⟩ := c
  cases st <;> simp only [tickAction] at h
  case unconnected => injection h with h; injection h with h1 h2; subst h1 h2; exact ⟨hi, by simp⟩
  case disconnected => injection h with h; injection h with h1 h2; subst h1 h2; exact ⟨hi, by simp⟩
  case pendingConnect own => injection h with h; injection h with h1 h2; subst h1 h2; exact ⟨hi, by simp⟩
  case token own =>
    split at h
    · cases h
    · rename_i ps hsc
      injection h with h; injection h with h1 h2; subst h1 h2
      refine ⟨hi, sendControlWith_tok (snd := snd) hsc hi ?_⟩
      intro rt hrt
      rcases hrt with hrt | hrt <;> cases hrt <;> rfl
  case connecting own their =>
    split at h
    · cases h
    · rename_i ps hsc
      injection h with h; injection h with h1 h2; subst h1 h2
      refine ⟨hi, sendControlWith_tok (snd := snd) hsc hi ?_⟩
      intro rt hrt
      rcases hrt with hrt | hrt <;> cases hrt <;> rfl
  case pending own their =>
    split at h
    · cases h
    · rename_i ps hsc
      injection h with h; injection h with h1 h2; subst h1 h2
      refine ⟨hi, sendControlWith_tok (snd := snd) hsc hi ?_⟩
      intro rt hrt
      rcases hrt with hrt | hrt <;> cases hrt
  case online own their o =>
    split at h
    · split at h
      · cases h
      · rename_i ps hem
        injection h with h; injection h with h1 h2; subst h1 h2
        exact ⟨fun o' ho' => hi o' ho', flushed_tok their hem⟩
    · split at h
      · cases h
      · rename_i ps hsc
        injection h with h; injection h with h1 h2; subst h1 h2
        refine ⟨hi, sendControlWith_tok (snd := snd) hsc hi ?_⟩
        intro rt hrt
        rcases hrt with hrt | hrt <;> cases hrt

theorem connect_tok (env : Env) (hd : env.drawsOk) (c : Conn) : TokKeeps c (connect env c) := by
  obtain ⟨st, snd⟩ := c
  unfold connect
  cases st with
  | unconnected =>
    simp only
    cases ht : tokenRandom env.draws with
    | none => exact tokKeeps_error _ _
    | some t =>
      simp only
      refine tickAction_tok env _ _ ?_
      intro _ o ho
      simp [State.ownToken?] at ho
      subst ho
      exact hd _ (tokenRandom_mem _ _ ht)
  | _ => exact tokKeeps_error _ _

theorem disconnect_tok (env : Env) (c : Conn) (r : Bytes) : TokKeeps c (disconnect env c r) := by
  intro hi c' out h
  obtain ⟨st, snd⟩ := c
  unfold disconnect at h
  split at h
  · cases h
  · split at h
    · cases h
    · split at h
      · cases h
      · rename_i ps hsc
        injection h with h; injection h with h1 h2; subst h1 h2
        refine ⟨fun o ho => by simp [State.ownToken?] at ho, sendControlWith_tok (snd := snd) hsc hi ?_⟩
        intro rt hrt
        rcases hrt with hrt | hrt <;> cases hrt

theorem flush_tok (env : Env) (c : Conn) : TokKeeps c (flush env c) := by
  intro hi c' out h
  obtain ⟨st, snd⟩ := c
  unfold flush at h
  cases st with
  | online own their o =>
    simp only at h
    split at h
    · cases h
    · rename_i ps hem
      injection h with h; injection h with h1 h2; subst h1 h2
      exact ⟨fun o' ho' => hi o' ho', flushed_tok their hem⟩
  | _ => simp at h

theorem send_tok (env : Env) (c : Conn) (d : Bytes) (v : Bool) : TokKeeps c (step env c (.send d v)) := by
  intro hi c' out h
  obtain ⟨st, snd⟩ := c
  simp only [step] at h
  cases hsend : send env ⟨st, snd⟩ d v with
  | error e => rw [hsend] at h; cases h
  | ok r =>
    obtain ⟨c1, res, out1⟩ := r
    rw [hsend] at h
    injection h with h; injection h with h1 h2; subst h1 h2
    unfold send at hsend
    cases st with
    | online own their o =>
      simp only at hsend
      split at hsend
      · cases hsend
      · split at hsend
        · cases hsend
        · rename_i ps hem
          injection hsend with hsend; injection hsend with e1 e2; injection e2 with e2 e3
          subst e1 e3
          exact ⟨fun o' ho' => hi o' ho', flushed_tok their hem⟩
    | _ => simp at hsend

theorem sendConnless_tok (env : Env) (c : Conn) (d : Bytes) : TokKeeps c (step env c (.sendConnless d)) := by
  intro hi c' out h
  obtain ⟨st, snd⟩ := c
  simp only [step] at h
  cases hsend : sendConnless env ⟨st, snd⟩ d with
  | error e => rw [hsend] at h; cases h
  | ok r =>
    obtain ⟨c1, res, out1⟩ := r
    rw [hsend] at h
    injection h with h; injection h with h1 h2; subst h1 h2
    unfold sendConnless at hsend
    cases st with
    | online own their o =>
      simp only at hsend
      split at hsend
      · injection hsend with hsend; injection hsend with e1 e2; injection e2 with e2 e3
        subst e1 e3
        exact ⟨fun o' ho' => hi o' ho', by simp⟩
      · split at hsend
        · cases hsend
        · rename_i ps hem
          injection hsend with hsend; injection hsend with e1 e2; injection e2 with e2 e3
          subst e1 e3
          have := emit_eq' hem; subst this
          exact ⟨fun o' ho' => hi o' ho', by intro p hp; simp at hp; subst hp; trivial⟩
    | _ => simp at hsend

theorem tick_tok (env : Env) (c : Conn) : TokKeeps c (tick env c) := by
  obtain ⟨st, snd⟩ := c
  unfold tick
  cases st with
  | online own their o =>
    simp only
    split
    · intro hi c' out h
      unfold resendConn at h
      split at h
      · cases h
      · split at h
        · cases h
        · rename_i ps hem
          injection h with h; injection h with h1 h2; subst h1 h2
          exact ⟨fun o' ho' => hi o' ho', flushed_tok their hem⟩
    · split
      · exact tickAction_tok env _ _ (fun hi o' ho' => hi o' ho')
      · exact tokKeeps_same _ _ rfl
  | _ =>
    simp only [Bool.false_eq_true, if_false]
    split
    · exact tickAction_tok env _ _ (fun hi o' ho' => hi o' ho')
    · exact tokKeeps_same _ _ rfl

theorem feedBody_tok (env : Env) (hd : env.drawsOk) (c : Conn) (p : Packet) : TokKeeps c (feedBody env c p) := by
  obtain ⟨st, snd⟩ := c
  cases p with
  | connless a b d => simp only [feedBody]; exact tokKeeps_same _ _ rfl
  | chunks ack tk rr n cs =>
    have hrecv : ∀ (own their : Nat) (o : Online), (Conn.TokInv ⟨st, snd⟩ → own < 2 ^ 32) →
        TokKeeps ⟨st, snd⟩
          (match o.receive cfg env.now snd rr cs with
          | .error e => .error e
          | .ok (o1, send1, fl, evs) =>
            match emit (fl.map (ofFlushed their)) with
            | .error e => .error e
            | .ok ps => .ok (⟨.online own their o1, send1⟩, { sent := ps, events := evs })) := by
      intro own their o hown hi c' out h
      split at h
      · cases h
      · split at h
        · cases h
        · rename_i ps hem
          injection h with h; injection h with h1 h2; subst h1 h2
          refine ⟨?_, flushed_tok their hem⟩
          intro o' ho'
          simp [State.ownToken?] at ho'
          subst ho'; exact hown hi
    cases st with
    | online own their o => simp only [feedBody]; exact hrecv own their o (fun hi => hi own rfl)
    | pending own their => simp only [feedBody]; exact hrecv own their .new (fun hi => hi own rfl)
    | _ => simp only [feedBody]; exact tokKeeps_same _ _ rfl
  | control ack tk ctl =>
    cases ctl with
    | keepAlive => simp only [feedBody]; exact tokKeeps_same _ _ rfl
    | close reason =>
      simp only [feedBody]
      intro hi c' out h
      injection h with h; injection h with h1 h2; subst h1 h2
      exact ⟨fun o ho => by simp [State.ownToken?] at ho, by simp⟩
    | accept =>
      cases st with
      | connecting own their =>
        simp only [feedBody]
        intro hi c' out h
        injection h with h; injection h with h1 h2; subst h1 h2
        exact ⟨fun o ho => hi o (by simpa [State.ownToken?] using ho), by simp⟩
      | _ => simp only [feedBody]; exact tokKeeps_same _ _ rfl
    | connect their =>
      cases st with
      | pendingConnect own =>
        simp only [feedBody]
        exact tickAction_tok env _ _ (fun hi o ho => hi o (by simpa [State.ownToken?] using ho))
      | _ => simp only [feedBody]; exact tokKeeps_same _ _ rfl
    | token their =>
      cases st with
      | unconnected =>
        cases htk : tokenRandom env.draws with
        | none => simp only [feedBody, htk]; exact tokKeeps_error _ _
        | some t0 =>
          simp only [feedBody, htk]
          intro hi c' out h
          split at h
          · cases h
          · rename_i ps hsc
            injection h with h; injection h with h1 h2; subst h1 h2
            have hi' : Conn.TokInv ⟨.pendingConnect t0, snd⟩ := by
              intro o ho
              simp [State.ownToken?] at ho
              subst ho; exact hd _ (tokenRandom_mem _ _ htk)
            refine ⟨hi', sendControlWith_tok (snd := snd) hsc hi' ?_⟩
            intro rt hrt
            rcases hrt with hrt | hrt <;> cases hrt <;> rfl
      | pendingConnect own =>
        simp only [feedBody]
        intro hi c' out h
        split at h
        · cases h
        · rename_i ps hsc
          injection h with h; injection h with h1 h2; subst h1 h2
          refine ⟨hi, sendControlWith_tok (snd := snd) hsc hi ?_⟩
          intro rt hrt
          rcases hrt with hrt | hrt <;> cases hrt <;> rfl
      | token own =>
        simp only [feedBody]
        exact tickAction_tok env _ _ (fun hi o ho => hi o (by simpa [State.ownToken?] using ho))
      | _ => simp only [feedBody]; exact tokKeeps_same _ _ rfl

theorem feed_tok (env : Env) (hd : env.drawsOk) (c : Conn) (rd : Option Packet) : TokKeeps c (feed env c rd) := by
  unfold feed
  cases rd with
  | none => exact tokKeeps_same _ _ rfl
  | some p =>
    have hbody : TokKeeps c
        (match c.state with
          | .online own their o =>
            match o.feedAck (match p with | .control ack _ _ => ack | .chunks ack _ _ _ _ => ack | .connless _ _ _ => 0) with
            | .error e => .error e
            | .ok o1 => feedBody env { c with state := .online own their o1 } p
          | _ => feedBody env c p) := by
      obtain ⟨st, snd⟩ := c
      cases st with
      | online own their o =>
        simp only
        split
        · exact tokKeeps_error _ _
        · intro hi
          exact feedBody_tok env hd _ p (fun o' ho' => hi o' ho')
      | _ => exact feedBody_tok env hd _ p
    cases p with
    | connless tok rtok payload =>
      simp only
      split
      · exact tokKeeps_same _ _ rfl
      · split
        · exact tokKeeps_same _ _ rfl
        · exact tokKeeps_same _ _ rfl
    | control ack tk ctl =>
      simp only
      split
      · exact tokKeeps_same _ _ rfl
      · exact hbody
    | chunks ack tk rr n cs =>
      simp only
      split
      · exact tokKeeps_same _ _ rfl
      · exact hbody

theorem step_tok (env : Env) (hd : env.drawsOk) (c : Conn) (op : Op) : TokKeeps c (step env c op) := by
  cases op with
  | connect => exact connect_tok env hd c
  | disconnect r => exact disconnect_tok env c r
  | flush => exact flush_tok env c
  | send d v => exact send_tok env c d v
  | sendConnless d => exact sendConnless_tok env c d
  | tick => exact tick_tok env c
  | feed rd => exact feed_tok env hd c rd

theorem Conn.new_tokInv : Conn.new.TokInv := by intro o h; simp [Conn.new, State.ownToken?] at h

/-- **everything a 0.7 connection sends has 32-bit response tokens**, for every schedule (any calls,
any fed packets) whose random draws are 32-bit values -/
theorem run_tok : ∀ (sched : List (Env × Op)) (c c' : Conn) (outs : List Out), c.TokInv →
    (∀ eo ∈ sched, eo.1.drawsOk) → run c sched = .ok (c', outs) →
    c'.TokInv ∧ ∀ out ∈ outs, ∀ p ∈ out.sent, tokRange p := by
  intro sched
  induction sched with
  | nil =>
    intro c c' outs hi _ h
    simp only [run] at h
    injection h with h; injection h with h1 h2; subst h1 h2
    exact ⟨hi, by simp⟩
  | cons eo rest ih =>
    intro c c' outs hi hd h
    obtain ⟨env, op⟩ := eo
    simp only [run] at h
    cases hs : step env c op with
    | error e => rw [hs] at h; cases h
    | ok r =>
      obtain ⟨c1, out⟩ := r
      rw [hs] at h
      simp only at h
      cases hr : run c1 rest with
      | error e => rw [hr] at h; cases h
      | ok r2 =>
        obtain ⟨c2, outs2⟩ := r2
        rw [hr] at h
        injection h with h; injection h with h1 h2; subst h1 h2
        obtain ⟨a, b⟩ := step_tok env (hd (env, op) (by simp)) c op hi c1 out hs
        obtain ⟨a2, b2⟩ := ih c1 c2 outs2 a (fun eo heo => hd eo (List.mem_cons_of_mem _ heo)) hr
        refine ⟨a2, ?_⟩
        intro o ho p hp
        rcases List.mem_cons.mp ho with rfl | ho
        · exact b p hp
        · exact b2 o ho p hp

theorem conn7_all_sent_tokRange (sched : List (Env × Op)) (c : Conn) (outs : List Out)
    (hd : ∀ eo ∈ sched, eo.1.drawsOk) (h : run .new sched = .ok (c, outs)) :
    ∀ out ∈ outs, ∀ p ∈ out.sent, tokRange p :=
  (run_tok sched .new c outs Conn.new_tokInv hd h).2

end Tw.Conn7
