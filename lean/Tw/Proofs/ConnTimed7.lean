import Tw.Proofs.ConnTimed
import Tw.Proofs.ConnFair
import Tw.Proofs.ConnTimers7
import Tw.Proofs.ConnTokens7

/-!
# C02 (c) timed, 0.7: the online interface and the theorem for reachable worlds
-/
namespace Tw.NetSim.P7
open Tw.Conn Tw.Conn7 Tw.Time Tw.NetSim

theorem emit_ka (a t : Nat) : emit [.control a t .keepAlive] = .ok [.control a t .keepAlive] :=
  Tw.Conn7.emit_ok (by
    intro p hp; simp at hp; subst hp
    exact Tw.Conn7.control_valid a t .keepAlive (by intro r hr; cases hr) (by intro r hr; cases hr)
      (by intro r hr; cases hr))

def iface7 : OnlineIface proto7 core Conn7.cfg Timed where
  Tok := Nat × Nat
  mkc := fun t o s => ⟨.online t.1 t.2 o, s⟩
  chunkPkt := fun t f => ofFlushed t.2 f
  kaPkt := fun t a => .control a t.2 .keepAlive
  peer := fun tx ty => tx.2 = ty.1
  core_mk := fun _ _ _ => rfl
  online_mk := fun _ _ _ => rfl
  timed_mk := fun _ _ _ _ h => h
  view_chunk := fun _ _ => rfl
  view_ka := fun _ _ => rfl
  tick_resend := by
    intro now t o s o1 s1 fl hd he hval
    show P7.call now [] ⟨.online t.1 t.2 o, s⟩ .tick = _
    simp [P7.call, Conn7.tick, hd, resendConn, he, (Tw.Conn7.emit_flushed t.2 hval).1]
    rfl
  tick_flush := by
    intro now t o s hd hs hcs hval
    show P7.call now [] ⟨.online t.1 t.2 o, s⟩ .tick = _
    simp [P7.call, Conn7.tick, hd, hs, tickAction, hcs, (Tw.Conn7.emit_flushed t.2 hval).1]
    rfl
  tick_ka := by
    intro now t o s hd hs hcs _
    show P7.call now [] ⟨.online t.1 t.2 o, s⟩ .tick = _
    simp [P7.call, Conn7.tick, hd, hs, tickAction, hcs, sendControl, sendControlWith, State.theirToken?, emit_ka]
    rfl
  recv_chunk := by
    intro now draws tx ty o s f alt o1 o2 s2 fl evs hp hfa hrc hval
    show P7.recv now draws ⟨.online ty.1 ty.2 o, s⟩ (ofFlushed tx.2 f) alt = _
    have hp' : tx.2 = ty.1 := hp
    simp [P7.recv, feed, ofFlushed, expectedToken, State.ownToken?, hp', hfa, feedBody, hrc,
      (Tw.Conn7.emit_flushed ty.2 hval).1]
    rfl
  recv_ka := by
    intro now draws tx ty o s a alt o1 hp hfa
    show P7.recv now draws ⟨.online ty.1 ty.2 o, s⟩ (.control a tx.2 .keepAlive) alt = _
    have hp' : tx.2 = ty.1 := hp
    simp [P7.recv, feed, expectedToken, State.ownToken?, hp', hfa, feedBody]
    rfl

/-- **C02 (c), timed, 0.7, online phase** -/
theorem timed_progress7 (sched : List (Move proto7)) (w : World proto7)
    (hadm : admissible (World.init proto7) sched = true) (hrun : run (World.init proto7) sched = some w)
    {oa ta ob tb : Nat} {ca cb : Online} (ha : w.a.conn.state = .online oa ta ca)
    (hb : w.b.conn.state = .online ob tb cb) :
    ∃ w', timedRounds () 4 w = some w' ∧ w'.quiescent := by
  have hw := run_inv sim7 sched _ w (init_inv sim7) hadm hrun
  have ht := run_loct loct7 sched _ w (init_loct loct7) hrun
  have hg := agree7_run sched _ w agree7_init hrun
  have hab : ta = ob := hg.1.agree hg.2 (by rw [ha]; rfl) (by rw [hb]; rfl)
  have hba : tb = oa := hg.2.agree hg.1 (by rw [hb]; rfl) (by rw [ha]; rfl)
  have hO : OnlineW iface7 (oa, ta) (ob, tb) w := by
    refine ⟨hw, ht, ⟨ca, w.a.conn.send, ?_⟩, ⟨cb, w.b.conn.send, ?_⟩, hab, hba⟩
    · show w.a.conn = ⟨.online oa ta ca, w.a.conn.send⟩
      rw [← ha]; rfl
    · show w.b.conn = ⟨.online ob tb cb, w.b.conn.send⟩
      rw [← hb]; rfl
  obtain ⟨w', h1, h2, h3⟩ := timed_progress iface7 Conn7.cfg_ok sim7 loct7 () hO
  exact ⟨w', h1, h3.quiescent h2⟩

/-- **token agreement (0.7)**: in every reachable world the peer token an endpoint attaches to its
datagrams is the own token of the peer, as long as the peer has one -/
theorem tokens_agree7 (sched : List (Move proto7)) (w : World proto7)
    (hrun : run (World.init proto7) sched = some w) (s : Side) {t o : Nat}
    (h1 : (w.get s).conn.state.theirToken? = some t) (h2 : (w.get s.other).conn.state.ownToken? = some o) :
    t = o := by
  have hg := agree7_run sched _ w agree7_init hrun
  cases s with
  | a => exact hg.1.agree hg.2 h1 h2
  | b => exact hg.2.agree hg.1 h1 h2

/-- **timer bounds (0.7)** (`PendingConnect` reports no deadline — D23 — and is not constrained) -/
theorem timers_due7 (sched : List (Move proto7)) (w : World proto7)
    (hrun : run (World.init proto7) sched = some w) : Timed w.now w.a.conn ∧ Timed w.now w.b.conn :=
  run_loct loct7 sched _ w (init_loct loct7) hrun

example : admissible (World.init proto7) busy7 = true := by decide +kernel
example : ((run (World.init proto7) busy7).map fun w =>
    ((online w.a.conn).isSome && (online w.b.conn).isSome, w.settled)) = some (true, false) := by decide +kernel
example : (((run (World.init proto7) busy7).bind (timedRounds () 4)).map World.settled) = some true := by
  decide +kernel

theorem onlineW7 (sched : List (Move proto7)) (w : World proto7)
    (hadm : admissible (World.init proto7) sched = true) (hrun : run (World.init proto7) sched = some w)
    {oa ta ob tb : Nat} {ca cb : Online} (ha : w.a.conn.state = .online oa ta ca)
    (hb : w.b.conn.state = .online ob tb cb) : OnlineW iface7 (oa, ta) (ob, tb) w := by
  have hw := run_inv sim7 sched _ w (init_inv sim7) hadm hrun
  have ht := run_loct loct7 sched _ w (init_loct loct7) hrun
  have hg := agree7_run sched _ w agree7_init hrun
  have hab : ta = ob := hg.1.agree hg.2 (by rw [ha]; rfl) (by rw [hb]; rfl)
  have hba : tb = oa := hg.2.agree hg.1 (by rw [hb]; rfl) (by rw [ha]; rfl)
  refine ⟨hw, ht, ⟨ca, w.a.conn.send, ?_⟩, ⟨cb, w.b.conn.send, ?_⟩, hab, hba⟩
  · show w.a.conn = ⟨.online oa ta ca, w.a.conn.send⟩
    rw [← ha]; rfl
  · show w.b.conn = ⟨.online ob tb cb, w.b.conn.send⟩
    rw [← hb]; rfl

/-- **C02 (c), timed, 0.7, online phase, every datagram of the suffix delivered** -/
theorem fair_progress7 (draws : List Nat) (sched : List (Move proto7)) (w : World proto7)
    (hadm : admissible (World.init proto7) sched = true) (hrun : run (World.init proto7) sched = some w)
    {oa ta ob tb : Nat} {ca cb : Online} (ha : w.a.conn.state = .online oa ta ca)
    (hb : w.b.conn.state = .online ob tb cb) :
    ∃ s', fairRoundsT draws () 4 (FairState.start w) = some s' ∧ s'.w.quiescent :=
  fair_progress iface7 Conn7.cfg_ok sim7 loct7 draws () (onlineW7 sched w hadm hrun ha hb)

example : (((run (World.init proto7) busy7).bind fun w =>
    fairRoundsT (P := proto7) [] () 4 (FairState.start w)).map fun s => s.w.settled) = some true := by
  decide +kernel

end Tw.NetSim.P7
