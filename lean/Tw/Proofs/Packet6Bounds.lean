import Tw.Model.Packet6
import Tw.Proofs.Packet6Rewrite

/-! Slice bounds of the 0.6 reader: the byte-slice field of an accepted packet is exactly the bytes at
`(loc, len)` of the input or of the scratch buffer, inside that buffer; the scratch buffer is not
overrun. -/
namespace Tw.Packet6
open Tw.Packet Tw.PacketBits

/-- the Huffman decoder respects the output capacity (C07: `Tw.Huffman.decompress_bound`) -/
def HuffmanBounded (t : Huffman.Table) : Prop :=
  ∀ (input : List UInt8) (cap : Nat) (out : List UInt8), Huffman.decompress t input cap = .ok out → out.length ≤ cap

/-- the buffer a `Src` names -/
def bufOf (src : Src) (input scratch : List UInt8) : List UInt8 :=
  match src with
  | .input => input
  | .scratch => scratch

theorem resolve_eq (l : Loc) (len : Nat) (input scratch : List UInt8) :
    l.resolve len input scratch = ((bufOf l.src input scratch).drop l.off).take len := by
  cases l with
  | mk src off => cases src <;> rfl

/-- the returned slice is where the result says, inside the buffer it names -/
def ReadOk.Located (r : ReadOk) (input : List UInt8) : Prop :=
  match r.loc, r.pkt.slice with
  | some l, some sl =>
    l.off + sl.length ≤ (bufOf l.src input r.scratch).length ∧ l.resolve sl.length input r.scratch = sl
  | none, none => True
  | _, _ => False

theorem located_of_prefix (buf sl : List UInt8) (off : Nat) (hoff : off ≤ buf.length) (hp : sl <+: buf.drop off) :
    off + sl.length ≤ buf.length ∧ (buf.drop off).take sl.length = sl := by
  have hl := hp.length_le
  simp only [List.length_drop] at hl
  exact ⟨by omega, (List.prefix_iff_eq_take.mp hp).symm⟩

theorem readConnless_located (b0 b1 b2 : UInt8) (payload0 : List UInt8) (wh : List Warning) (r : ReadOk)
    (hr : readConnless (b0 :: b1 :: b2 :: payload0) payload0 wh = .ok r) :
    r.Located (b0 :: b1 :: b2 :: payload0) := by
  unfold readConnless at hr
  split at hr
  · simp at hr
  · rename_i hlen
    simp only [Except.ok.injEq] at hr
    subst hr
    have hP : Tw.Gen.Packet6.PADDING_SIZE_CONNLESS = 3 := by decide
    have hH : Tw.Gen.Packet6.HEADER_SIZE = 3 := by decide
    simp only [ReadOk.Located, Packet.slice, resolve_eq, bufOf, hP, hH, List.length_drop, List.length_cons]
    refine ⟨by omega, ?_⟩
    show List.take _ (List.drop 3 payload0) = _
    rw [List.take_of_length_le (by simp)]

theorem controlValue_located (payload : List UInt8) (src : Src) (off : Nat) (c : Control) (loc : Option Loc)
    (hr : controlValue payload src off = .ok (c, loc)) :
    (loc = none ∧ (Packet.connected 0 none (.control c)).slice = none) ∨
    (∃ m, c = .close m ∧ loc = some { src := src, off := off + 1 } ∧ payload ≠ [] ∧ m <+: payload.drop 1) := by
  unfold controlValue at hr
  split at hr
  · simp at hr
  · rename_i c0 pl
    dsimp only at hr
    split at hr
    · simp only [Except.ok.injEq, Prod.mk.injEq] at hr; obtain ⟨rfl, rfl⟩ := hr; exact Or.inl ⟨rfl, rfl⟩
    · split at hr
      · simp only [Except.ok.injEq, Prod.mk.injEq] at hr; obtain ⟨rfl, rfl⟩ := hr; exact Or.inl ⟨rfl, rfl⟩
      · split at hr
        · simp only [Except.ok.injEq, Prod.mk.injEq] at hr; obtain ⟨rfl, rfl⟩ := hr; exact Or.inl ⟨rfl, rfl⟩
        · split at hr
          · simp only [Except.ok.injEq, Prod.mk.injEq] at hr; obtain ⟨rfl, rfl⟩ := hr; exact Or.inl ⟨rfl, rfl⟩
          · split at hr
            · simp only [Except.ok.injEq, Prod.mk.injEq] at hr
              obtain ⟨rfl, rfl⟩ := hr
              exact Or.inr ⟨_, rfl, rfl, by simp, by simpa using List.take_prefix _ pl⟩
            · simp at hr

theorem drop_one_prefix {p q : List UInt8} (h : p <+: q) (hne : p ≠ []) :
    p.drop 1 <+: q.drop 1 ∧ 1 ≤ q.length := by
  obtain ⟨t', ht'⟩ := h
  subst ht'
  cases p with
  | nil => exact absurd rfl hne
  | cons x xs => simp

theorem readBodyWith_located (h : PacketHeader) (wh : List Warning) (payload : List UInt8) (src : Src)
    (scratch : List UInt8) (b : Bool) (r : ReadOk) (input : List UInt8)
    (hbuf : payload = (bufOf src input scratch).drop Tw.Gen.Packet6.HEADER_SIZE)
    (hlen : Tw.Gen.Packet6.HEADER_SIZE ≤ (bufOf src input scratch).length)
    (hr : readBodyWith h wh payload src scratch b = .ok r) : r.Located input ∧ r.scratch = scratch := by
  have hH : Tw.Gen.Packet6.HEADER_SIZE = 3 := by decide
  unfold readBodyWith at hr
  split at hr
  · simp at hr
  · dsimp only at hr
    -- the payload after the token was split off is a prefix of the original one
    have hpre : (if b = true then List.take (payload.length - Tw.Gen.Packet6.TOKEN_SIZE) payload else payload)
        <+: payload := by
      split
      · exact List.take_prefix _ _
      · exact List.prefix_refl _
    generalize (if b = true then List.take (payload.length - Tw.Gen.Packet6.TOKEN_SIZE) payload else payload) = p' at hr hpre
    split at hr
    · split at hr
      · simp at hr
      · rename_i c loc hrc
        simp only [Except.ok.injEq] at hr
        subst hr
        refine ⟨?_, rfl⟩
        rcases controlValue_located _ _ _ _ _ hrc with ⟨hl, hsl⟩ | ⟨m, rfl, hl, hne, hpm⟩
        · subst hl
          have : ∀ tk : Option Token, (Packet.connected h.ack tk (Body.control c)).slice = none := by
            intro tk
            cases c <;> first | rfl | simp [Packet.slice] at hsl
          simp only [ReadOk.Located, this]
        · subst hl
          obtain ⟨h2, h1⟩ := drop_one_prefix hpre hne
          have h3 : List.drop 1 payload = (bufOf src input scratch).drop 4 := by
            rw [hbuf, hH, List.drop_drop]
          have hpb : m <+: (bufOf src input scratch).drop (Tw.Gen.Packet6.HEADER_SIZE + 1) := by
            rw [hH, ← h3]
            exact hpm.trans h2
          have hoff : Tw.Gen.Packet6.HEADER_SIZE + 1 ≤ (bufOf src input scratch).length := by
            rw [hbuf, List.length_drop] at h1
            omega
          have := located_of_prefix _ m _ hoff hpb
          simp only [ReadOk.Located, Packet.slice, resolve_eq]
          exact this
    · simp only [Except.ok.injEq] at hr
      subst hr
      refine ⟨?_, rfl⟩
      simp only [ReadOk.Located, Packet.slice, resolve_eq]
      have := located_of_prefix (bufOf src input scratch) p'
        Tw.Gen.Packet6.HEADER_SIZE hlen (by rw [← hbuf]; exact hpre)
      exact this

theorem readBody_located (h : PacketHeader) (wh : List Warning) (payload : List UInt8) (src : Src)
    (scratch : List UInt8) (hint : Option Bool) (r : ReadOk) (input : List UInt8)
    (hbuf : payload = (bufOf src input scratch).drop Tw.Gen.Packet6.HEADER_SIZE)
    (hlen : Tw.Gen.Packet6.HEADER_SIZE ≤ (bufOf src input scratch).length)
    (hr : readBody h wh payload src scratch hint = .ok r) : r.Located input ∧ r.scratch = scratch := by
  unfold readBody at hr
  split at hr
  · simp at hr
  · exact readBodyWith_located h wh payload src scratch _ r input hbuf hlen hr

theorem readConnless_scratch (bytes payload0 : List UInt8) (wh : List Warning) (r : ReadOk)
    (hr : readConnless bytes payload0 wh = .ok r) : r.scratch = [] := by
  unfold readConnless at hr
  split at hr
  · simp at hr
  · simp only [Except.ok.injEq] at hr
    subst hr
    rfl

/-- **slice bounds (0.6)**: for every accepted datagram the byte-slice field of the result is exactly
the bytes at `(loc.src, loc.off, length)`, this range lies inside the named buffer, and the scratch
buffer holds at most `cap` bytes. -/
theorem read_located (t : Huffman.Table) (hb : HuffmanBounded t) (bytes : List UInt8) (hint : Option Bool)
    (cap : Nat) (r : ReadOk) (hr : read t bytes hint (some cap) = .ok r) :
    r.Located bytes ∧ r.scratch.length ≤ cap := by
  have hH : Tw.Gen.Packet6.HEADER_SIZE = 3 := by decide
  obtain ⟨b0, b1, b2, payload0, hbytes, hlen, hcase⟩ := read_ok_cases t bytes hint (some cap) r hr
  subst hbytes
  rcases hcase with h | h | ⟨cap', s, hc, hcap, hd, hs3, h⟩
  · exact ⟨readConnless_located b0 b1 b2 payload0 _ r h, by rw [readConnless_scratch _ _ _ r h]; simp⟩
  · obtain ⟨h1, h2⟩ := readBody_located _ _ payload0 .input [] hint r (b0 :: b1 :: b2 :: payload0) rfl
      (by simp [bufOf, hH]) h
    exact ⟨h1, by rw [h2]; simp⟩
  · simp only [Option.some.injEq] at hc
    subst hc
    obtain ⟨h1, h2⟩ := readBody_located _ _ (s.drop Tw.Gen.Packet6.HEADER_SIZE) .scratch s hint r
      (b0 :: b1 :: b2 :: payload0) rfl (by simpa [bufOf] using hs3) h
    refine ⟨h1, ?_⟩
    rw [h2]
    -- the scratch buffer: fake header (3 bytes) followed by at most `cap - 3` decompressed bytes
    unfold decompress at hd
    split at hd
    · simp at hd
    · split at hd
      · simp at hd
      · dsimp only at hd
        split at hd
        · simp at hd
        · split at hd
          · simp at hd
          · rename_i b1' hb1
            obtain ⟨hb1e, hb1l⟩ := bufWrite_eq_some hb1
            split at hd
            · rename_i out hout
              simp only [DecompressResult.ok.injEq] at hd
              subst hd
              have := hb _ _ _ hout
              simp only [List.length_append]
              simp only [List.length_nil, Nat.zero_add] at hb1l
              have e : b1'.length = 3 := by rw [hb1e]; rfl
              have e3 : ∀ x : Nat × Nat × Nat, (ofNat3 x).length = 3 := fun _ => rfl
              rw [e3] at hb1l
              omega
            · simp at hd
            · simp at hd

end Tw.Packet6
