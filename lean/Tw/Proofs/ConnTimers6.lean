import Tw.Proofs.ConnTimers
import Tw.Proofs.ConnSafety6

/-!
# 0.6: the timer bounds hold in every reachable world
-/
namespace Tw.NetSim.P6
open Tw.Conn Tw.Conn6 Tw.Time Tw.NetSim

/-- while a deadline is reported, the send timer is due within one send interval; online, every
retransmission timer within one retransmission interval -/
def Timed (now : Nat) (c : Conn) : Prop :=
  match c.state with
  | .online _ o => SendDue now c.send ∧ RqDue now o
  | .connecting => SendDue now c.send
  | .pending _ => SendDue now c.send
  | _ => True

theorem Timed.mono {now now' : Nat} {c : Conn} (hn : now ≤ now') (h : Timed now c) : Timed now' c := by
  obtain ⟨st, snd⟩ := c
  cases st <;> simp only [Timed] at h ⊢
  · exact h.mono hn
  · exact h.mono hn
  · exact ⟨h.1.mono hn, h.2.mono hn⟩

theorem tickAction_timed {env : Env} {c c' : Conn} {out : Out} (ht : tickAction env c = .ok (c', out))
    (hq : ∀ t o, c.state = .online t o → RqDue env.now o) : Timed env.now c' := by
  obtain ⟨st, snd⟩ := c
  cases st <;> simp only [tickAction] at ht
  case unconnected => injection ht with ht; injection ht with h1 _; subst h1; trivial
  case disconnected => injection ht with ht; injection ht with h1 _; subst h1; trivial
  case connecting =>
    split at ht
    · cases ht
    · injection ht with ht; injection ht with h1 _; subst h1; exact timerDue_after _ _
  case pending t =>
    split at ht
    · cases ht
    · injection ht with ht; injection ht with h1 _; subst h1; exact timerDue_after _ _
  case online t o =>
    split at ht
    · split at ht
      · cases ht
      · injection ht with ht; injection ht with h1 _; subst h1
        exact ⟨timerDue_after _ _, (hq t o rfl).flush⟩
    · split at ht
      · cases ht
      · injection ht with ht; injection ht with h1 _; subst h1
        exact ⟨timerDue_after _ _, hq t o rfl⟩

theorem timed_call6 (now : Nat) (draws : List Nat) (c : Conn) (cl : Call) (r : Ret Conn Packet)
    (hr : P6.call now draws c cl = .ok r) (h : Timed now c) : Timed now r.conn := by
  obtain ⟨st, snd⟩ := c
  cases cl with
  | connect =>
    simp only [P6.call] at hr
    split at hr
    · cases hr
    · rename_i c1 out hcon
      injection hr with hr; subst hr
      unfold connect at hcon
      cases st with
      | unconnected => simp only at hcon; exact tickAction_timed hcon (by intro t o ho; cases ho)
      | _ => simp at hcon
  | send d v =>
    simp only [P6.call] at hr
    split at hr
    · cases hr
    · rename_i c1 res out hsend
      injection hr with hr; subst hr
      unfold Conn6.send at hsend
      cases st with
      | online t o =>
        simp only at hsend
        split at hsend
        · cases hsend
        · rename_i o1 res' fl hos
          split at hsend
          · cases hsend
          · injection hsend with hsend; injection hsend with e1 _; subst e1
            exact ⟨h.1, h.2.send hos⟩
      | _ => simp at hsend
  | sendConnless d =>
    simp only [P6.call] at hr
    split at hr
    · cases hr
    · rename_i c1 res out hsend
      injection hr with hr; subst hr
      unfold Conn6.sendConnless at hsend
      cases st with
      | online t o =>
        simp only at hsend
        split at hsend
        · injection hsend with hsend; injection hsend with e1 _; subst e1
          exact ⟨timerDue_after _ _, h.2⟩
        · split at hsend
          · cases hsend
          · injection hsend with hsend; injection hsend with e1 _; subst e1
            exact ⟨timerDue_after _ _, h.2⟩
      | _ => simp at hsend
  | flush =>
    simp only [P6.call] at hr
    split at hr
    · cases hr
    · rename_i c1 out hfl
      injection hr with hr; subst hr
      unfold Conn6.flush at hfl
      cases st with
      | online t o =>
        simp only at hfl
        split at hfl
        · cases hfl
        · injection hfl with hfl; injection hfl with e1 _; subst e1
          exact ⟨timerDue_after _ _, h.2.flush⟩
      | _ => simp at hfl
  | tick =>
    simp only [P6.call] at hr
    split at hr
    · cases hr
    · rename_i c1 out htick
      injection hr with hr; subst hr
      unfold Conn6.tick at htick
      cases st with
      | online t o =>
        simp only at htick
        split at htick
        · unfold resendConn at htick
          split at htick
          · cases htick
          · rename_i o1 send1 fl hrs
            split at htick
            · cases htick
            · injection htick with htick; injection htick with e1 _; subst e1
              exact ⟨h.1.resend hrs, h.2.resend hrs⟩
        · split at htick
          · exact tickAction_timed htick (by intro t' o' ho; injection ho with _ ho; subst ho; exact h.2)
          · injection htick with htick; injection htick with e1 _; subst e1; exact h
      | _ =>
        simp only [Bool.false_eq_true, if_false] at htick
        split at htick
        · exact tickAction_timed htick (by intro t' o' ho; cases ho)
        · injection htick with htick; injection htick with e1 _; subst e1; exact h
  | disconnect reason =>
    simp only [P6.call] at hr
    split at hr
    · cases hr
    · rename_i c1 out hdis
      injection hr with hr; subst hr
      unfold Conn6.disconnect at hdis
      split at hdis
      · cases hdis
      · split at hdis
        · cases hdis
        · split at hdis
          · cases hdis
          · injection hdis with hdis; injection hdis with e1 _; subst e1; trivial

theorem feedBody_timed {env : Env} {c c1 : Conn} {token : Option Nat} {q : Packet} {out : Out}
    (h : Timed env.now c) (hf : feedBody env c token q = .ok (c1, out)) : Timed env.now c1 := by
  obtain ⟨st, snd⟩ := c
  have hnoop : ∀ (evs : List Event), feedBody env ⟨st, snd⟩ token q = .ok (⟨st, snd⟩, { events := evs }) →
      Timed env.now c1 := by
    intro evs hk
    rw [hk] at hf
    injection hf with hf; injection hf with e1 _; subst e1; exact h
  cases q with
  | connless d => exact hnoop [.connless d] (by simp [feedBody])
  | chunks ack tk rr n cs =>
    have hrecv : ∀ (t : Option Nat) (o : Online), RqDue env.now o → SendDue env.now snd →
        (match o.receive Conn6.cfg env.now snd rr cs with
          | .error e => .error e
          | .ok (o1, send1, fl, evs) =>
            match emit (fl.map (ofFlushed t)) with
            | .error e => .error e
            | .ok ps => .ok (⟨.online t o1, send1⟩, { sent := ps, events := evs })) = Except.ok (c1, out) →
        Timed env.now c1 := by
      intro t o hq hs hk
      split at hk
      · cases hk
      · rename_i o1 send1 fl evs hrc
        split at hk
        · cases hk
        · injection hk with hk; injection hk with e1 _; subst e1
          obtain ⟨a, b⟩ := receive_timers hrc hq hs
          exact ⟨b, a⟩
    cases st with
    | online t o => simp only [feedBody] at hf; exact hrecv t o h.2 h.1 hf
    | pending t => simp only [feedBody] at hf; exact hrecv t .new (RqDue.new _) h hf
    | unconnected => exact hnoop [] (by simp [feedBody])
    | connecting => exact hnoop [] (by simp [feedBody])
    | disconnected => exact hnoop [] (by simp [feedBody])
  | control ack tk ctl =>
    cases ctl with
    | keepAlive => exact hnoop [] (by simp [feedBody])
    | accept => exact hnoop [] (by simp [feedBody])
    | close reason =>
      simp only [feedBody] at hf
      injection hf with hf; injection hf with e1 _; subst e1; trivial
    | connect =>
      cases st with
      | unconnected =>
        simp only [feedBody] at hf
        cases token with
        | none => simp only at hf; exact tickAction_timed hf (by intro t o ho; cases ho)
        | some t0 =>
          simp only at hf
          split at hf
          · split at hf
            · cases hf
            · exact tickAction_timed hf (by intro t o ho; cases ho)
          · injection hf with hf; injection hf with e1 _; subst e1; trivial
      | online t o => exact hnoop [] (by simp [feedBody])
      | pending t => exact hnoop [] (by simp [feedBody])
      | connecting => exact hnoop [] (by simp [feedBody])
      | disconnected => exact hnoop [] (by simp [feedBody])
    | connectAccept =>
      cases st with
      | connecting =>
        simp only [feedBody] at hf
        split at hf
        · cases hf
        · injection hf with hf; injection hf with e1 _; subst e1
          exact ⟨h, RqDue.new _⟩
      | online t o => exact hnoop [] (by simp [feedBody])
      | pending t => exact hnoop [] (by simp [feedBody])
      | unconnected => exact hnoop [] (by simp [feedBody])
      | disconnected => exact hnoop [] (by simp [feedBody])

theorem timed_recv6 {tl : Bool} (now : Nat) (draws : List Nat) (c : Conn) (p : Packet) (alt : Alt)
    (r : Ret Conn Packet) (hr : P6.recv tl now draws c p alt = .ok r) (h : Timed now c) : Timed now r.conn := by
  unfold P6.recv at hr
  split at hr
  · cases hr
  · rename_i c1 out hf
    injection hr with hr; subst hr
    simp only
    have hquiet : ∀ (o : Out), (Except.ok (c, o) : Res) = Except.ok (c1, out) → Timed now c1 := by
      intro o hk
      injection hk with hk; injection hk with e1 _; subst e1; exact h
    unfold feed at hf
    cases hq : wireRead tl p alt c.hint with
    | none => simp only [hq] at hf; exact hquiet _ hf
    | some q =>
      simp only [hq] at hf
      cases hta : q.tokenAck? with
      | none => simp only [hta] at hf; exact feedBody_timed (env := ⟨now, draws⟩) h hf
      | some ta =>
        obtain ⟨token, ack⟩ := ta
        simp only [hta] at hf
        split at hf
        · exact hquiet _ hf
        · cases hst : c.state with
          | online t o =>
            simp only [hst] at hf
            split at hf
            · cases hf
            · rename_i o1 hfa
              refine feedBody_timed (env := ⟨now, draws⟩) ?_ hf
              have ho1 := Tw.NetSim.feedAck_eq hfa
              have hh : SendDue now c.send ∧ RqDue now o := by
                have := h; simp only [Timed, hst] at this; exact this
              simp only [Timed]
              exact ⟨hh.1, by rw [ho1]; exact hh.2.ackChunks _⟩
          | unconnected => simp only [hst] at hf; exact feedBody_timed (env := ⟨now, draws⟩) h hf
          | connecting => simp only [hst] at hf; exact feedBody_timed (env := ⟨now, draws⟩) h hf
          | pending t => simp only [hst] at hf; exact feedBody_timed (env := ⟨now, draws⟩) h hf
          | disconnected => simp only [hst] at hf; exact feedBody_timed (env := ⟨now, draws⟩) h hf

theorem loct6 (tl : Bool) : LocT (proto6 tl) Timed where
  init := fun _ => trivial
  mono := fun _ _ _ hn h => Timed.mono hn h
  call := fun now draws c cl r hr h => timed_call6 now draws c cl r hr h
  recv := fun now draws c p alt r hr h => timed_recv6 now draws c p alt r hr h

end Tw.NetSim.P6
