/-
C13: the laws the protocol layer needs (`Tw.SnapMgr.Laws`) hold for the concrete snapshot model
`Tw.Snap` (dom-snap): `Delta::create` / `Delta::write` / `Delta::read` / `Snap::read_with_delta`
over the snapshots that satisfy the builder invariant `ExtOk` and whose item sizes agree with the
object-size table.  This is where C09 (`applyDelta_createDelta`), C10 (`buildFromRaw_of_extOk`,
`readDelta_writeInts`) and C08 (`writeInt_length`) enter C13.
-/
import Tw.Proofs.SnapMgrSys
import Tw.Proofs.SnapDelta
import Tw.Proofs.SnapWire
import Tw.Proofs.SnapExt

namespace Tw.SnapMgr
open Tw.Snap

/-- snapshots of the concrete layer: the registry invariant of builder-made snapshots (C10) and
item sizes that agree with the object-size table (else `Delta::write` asserts) -/
def GoodSnap (objSize : Nat → Option Nat) (s : Tw.Snap.Snap) : Prop :=
  ExtOk s ∧ SizesOk objSize s.raw.items

def GoodDelta (objSize : Nat → Option Nat) (d : Tw.Snap.Delta) : Prop :=
  d.WF ∧ SizesOk objSize d.updated

theorem goodDelta_of_create {objSize : Nat → Option Nat} {a b : Tw.Snap.Snap}
    (ha : GoodSnap objSize a) (hb : GoodSnap objSize b) {d : Tw.Snap.Delta}
    (h : createDelta a.raw b.raw = some d) : GoodDelta objSize d :=
  ⟨(createDelta_WF ha.1.raw_wf hb.1.raw_wf h).1,
   sizesOk_of_lens objSize (createDelta_WF ha.1.raw_wf hb.1.raw_wf h).2 hb.2⟩

theorem goodSnap_empty (objSize : Nat → Option Nat) : GoodSnap objSize Tw.Snap.Snap.empty :=
  ⟨Builder.new_inv.ok, by intro p hp; simp [Tw.Snap.Snap.empty, RawSnap.empty] at hp⟩

theorem goodDelta_empty (objSize : Nat → Option Nat) : GoodDelta objSize Tw.Snap.Delta.empty :=
  ⟨by decide, by intro p hp; simp [Tw.Snap.Delta.empty] at hp⟩

/-- the empty delta (`Delta::clear`, what a `SnapEmpty` stands for) is a reference delta from any
well-formed snapshot to itself -/
theorem refDelta_empty {a : RawSnap} (ha : a.WF) : RefDelta a a Tw.Snap.Delta.empty := by
  have hfind : ∀ p, p ∈ a.items → mfind p.1 a.items = some p.2 := fun p hp => mfind_of_mem ha.1 hp
  refine ⟨?_, sorted_nil, ?_, ?_⟩
  · symm
    simp only [Tw.Snap.Delta.empty, List.map_eq_nil_iff, List.filter_eq_nil_iff]
    intro p hp
    simp [hfind p hp]
  · intro p hp; simp [Tw.Snap.Delta.empty] at hp
  · intro p hp _; exact hfind p hp

theorem sizesAgree_self {a : RawSnap} (ha : a.WF) : SizesAgree a a := by
  intro p hp
  rw [mfind_of_mem ha.1 hp]
  simp [lenAgree]

/-- **`SnapEmpty` means "same as base" in the concrete model**: applying the cleared delta to a
builder-made snapshot returns that snapshot, without a warning. -/
theorem readWithDelta_empty {a : Tw.Snap.Snap} (ha : ExtOk a) :
    a.readWithDelta Tw.Snap.Delta.empty = .ok (a, []) := by
  unfold Tw.Snap.Snap.readWithDelta
  rw [applyDelta_of_refDelta ha.raw_wf ha.raw_wf (sizesAgree_self ha.raw_wf) (refDelta_empty ha.raw_wf)]
  simp only [buildFromRaw_of_extOk ha, List.append_nil]

open Classical in
/-- The concrete snapshot layer as `Ops` (the 64 KiB capacity of the glue's buffer is not
represented here: `write` succeeds whenever the sizes agree), with either sender glue. -/
noncomputable def snapOps (objSize : Nat → Option Nat) (refGlue : Bool := false) :
    Ops { s : Tw.Snap.Snap // GoodSnap objSize s } { d : Tw.Snap.Delta // GoodDelta objSize d } where
  empty := ⟨Tw.Snap.Snap.empty, goodSnap_empty objSize⟩
  create a b :=
    (createDelta a.1.raw b.1.raw).pmap (fun d hd => ⟨d, goodDelta_of_create a.2 b.2 hd⟩) (fun _ h => h)
  write d := (d.1.writeInts objSize).map packInts
  clear := ⟨Tw.Snap.Delta.empty, goodDelta_empty objSize⟩
  read bs :=
    match readDelta objSize (.bytes bs) with
    | .ok (d, _) => if h : GoodDelta objSize d then .ok ⟨d, h⟩ else .error "NotWellFormed"
    | .err e => .error e.name
    | .panic p => .error p
  apply a d :=
    match a.1.readWithDelta d.1 with
    | .ok (s, _) => if h : GoodSnap objSize s then .ok ⟨s, h⟩ else .error "NotBuilderMade"
    | .err e => .error e.name
    | .panic p => .error p
  crc s := s.1.crc
  same a b := decide (a.1 = b.1)
  emptyWhenSame := refGlue

theorem packInts_ne_nil {x : Int} {xs : List Int} : packInts (x :: xs) ≠ [] := by
  rw [packInts_cons]
  intro h
  have := (Tw.Packer.writeInt_length x).1
  have h' := congrArg List.length h
  simp only [List.length_append, List.length_nil] at h'
  omega

/-- C09 + C10 + C08 give the laws of the protocol layer for the concrete snapshot model. -/
theorem snapOps_laws (objSize : Nat → Option Nat) (refGlue : Bool := false) :
    Laws (snapOps objSize refGlue) where
  apply_create := by
    intro a b d h
    simp only [snapOps, Option.pmap_eq_some_iff] at h
    obtain ⟨d0, _, hd0, hd⟩ := h
    have hag : SizesAgree a.1.raw b.1.raw := by
      by_contra hn
      rw [(createDelta_eq_none_iff _ _).mpr hn] at hd0
      cases hd0
    obtain ⟨d', hd', hap⟩ := applyDelta_createDelta a.2.1.raw_wf b.2.1.raw_wf hag
    rw [hd0] at hd'
    injection hd' with hd'
    subst hd'
    have hdv : d.1 = d0 := by rw [hd]
    have hrw : a.1.readWithDelta d.1 = .ok (b.1, []) := by
      unfold Tw.Snap.Snap.readWithDelta
      rw [hdv, hap]
      simp only [buildFromRaw_of_extOk b.2.1, List.append_nil]
    simp only [snapOps, hrw, b.2, dite_true]
  read_write := by
    intro d bs h
    simp only [snapOps, Option.map_eq_some_iff] at h
    obtain ⟨xs, hxs, rfl⟩ := h
    obtain ⟨xs', hw, hr⟩ := readDelta_writeInts true objSize d.2.1 d.2.2
    rw [hxs] at hw
    injection hw with hw
    subst hw
    simp only [enc, if_true] at hr
    simp only [snapOps, hr, d.2, dite_true]
  same_clear := by
    intro a b h
    have hab : a = b := Subtype.ext (by simpa [snapOps] using h)
    subst hab
    simp only [snapOps, readWithDelta_empty a.2.1, a.2, dite_true]
  write_nonempty := by
    intro d bs h
    simp only [snapOps, Option.map_eq_some_iff] at h
    obtain ⟨xs, hxs, rfl⟩ := h
    unfold Tw.Snap.Delta.writeInts at hxs
    split at hxs
    · cases hxs
    · injection hxs with hxs
      subst hxs
      exact packInts_ne_nil

/-- What the sender glue builds while `Storage::free` is empty (`new_builder` = `Builder::new()`):
the items are added in the given order to a fresh builder. `none` = a builder error or panic. -/
def freshBuild (items : List (TypeId × Nat × List Int)) : Option Tw.Snap.Snap :=
  (items.foldl (fun ob it => ob.bind fun b =>
      match b.addItem it.1 it.2.1 it.2.2 with
      | some (b', none) => some b'
      | _ => none) (some Builder.new)).map (·.snap)

end Tw.SnapMgr
