import Tw.Model.Conn7
import Tw.Proofs.Conn

/-!
# Lemmas about the 0.7 connection model: every permitted call succeeds, keeps the packet
invariant and emits only valid datagrams (C04).
-/
namespace Tw.Conn7
open Tw.Conn Tw.Time

theorem cfg_ok : cfg.Ok := by
  intro n h
  simp [Cfg.accepts, cfg] at h
  simp [cfg]
  rw [maxPayload_eq] at h
  have : Tw.Gen.Conn.P7.CHUNK_SIZE_BITS = 12 := rfl
  rw [this]
  omega

theorem TOKEN_NONE_eq : TOKEN_NONE = 0xffffffff := by decide

/-- the connection invariant: the online state satisfies the packet invariant and the own token is
not `TOKEN_NONE` (it came out of `Token::random`) -/
structure Conn.Inv (c : Conn) : Prop where
  online : ∀ own their o, c.state = .online own their o → o.Inv cfg
  own : ∀ own, c.state.ownToken? = some own → own ≠ TOKEN_NONE

def Good (r : Res) : Prop :=
  ∃ c' out, r = .ok (c', out) ∧ c'.Inv ∧ ∀ p ∈ out.sent, p.valid = true

theorem Conn.new_inv : Conn.new.Inv := by
  constructor
  · intro a b o h; simp [Conn.new] at h
  · intro a h; simp [Conn.new, State.ownToken?] at h

theorem tokenRandom_ne {l : List Nat} {t : Nat} (h : tokenRandom l = some t) : t ≠ TOKEN_NONE := by
  induction l with
  | nil => simp [tokenRandom] at h
  | cons x xs ih =>
    simp only [tokenRandom] at h
    split at h
    · injection h with h; subst h; assumption
    · exact ih h

theorem chunks_wire (ack tok : Nat) (rr : Bool) (n : Nat) (cs : List Chunk)
    (h : chunksSize cs ≤ maxPayload + 3) : (Packet.chunks ack tok rr n cs).wireSize ≤ maxPacketSize := by
  have h1 : Tw.Gen.Conn.P7.HEADER_SIZE = 7 := rfl
  rw [maxPacketSize_eq]; rw [maxPayload_eq] at h
  simp only [Packet.wireSize, h1]; omega

theorem ofFlushed_valid (t : Nat) {f : Flushed} (h : f.Valid cfg) : (ofFlushed t f).valid = true := by
  have hw := chunks_wire f.ack t f.requestResend f.numChunks f.chunks h.size
  have h4 : f.numChunks ≠ 0 ∨ f.requestResend = true := h.nonempty
  unfold ofFlushed Packet.valid
  simp only [Bool.and_eq_true, decide_eq_true_eq, Bool.or_eq_true, List.all_eq_true]
  exact ⟨⟨⟨⟨hw, h.num⟩, h.cnt⟩, h.data⟩, h4⟩

theorem valid_wire {p : Packet} (h : p.valid = true) : p.wireSize ≤ maxPacketSize ∧ p.writeOk = true := by
  cases p with
  | connless t rt d =>
    simp only [Packet.valid, decide_eq_true_eq] at h
    have h1 : Tw.Gen.Conn.P7.HEADER_SIZE_CONNLESS = 9 := rfl
    have h3 : Tw.Gen.Conn.P7.connlessMax + 9 ≤ 1400 := by decide
    rw [maxPacketSize_eq]
    simp only [Packet.wireSize, h1, Packet.writeOk, and_true]; omega
  | control ack t c =>
    simp only [Packet.valid, Bool.and_eq_true, decide_eq_true_eq] at h
    exact h
  | chunks ack t rr n cs =>
    simp only [Packet.valid, Bool.and_eq_true, decide_eq_true_eq] at h
    exact ⟨h.1.1.1.1, rfl⟩

theorem emit_ok {ps : List Packet} (h : ∀ p ∈ ps, p.valid = true) : emit ps = .ok ps := by
  unfold emit
  have h1 : ps.all Packet.writeOk = true := by
    rw [List.all_eq_true]; intro p hp; exact (valid_wire (h p hp)).2
  have h2 : ps.all (fun p => decide (p.wireSize ≤ maxPacketSize)) = true := by
    rw [List.all_eq_true]; intro p hp; exact decide_eq_true (valid_wire (h p hp)).1
  simp [h1, h2]

theorem emit_flushed (t : Nat) {fl : List Flushed} (h : ∀ f ∈ fl, f.Valid cfg) :
    emit (fl.map (ofFlushed t)) = .ok (fl.map (ofFlushed t)) ∧
      ∀ p ∈ fl.map (ofFlushed t), p.valid = true := by
  have hv : ∀ p ∈ fl.map (ofFlushed t), p.valid = true := by
    intro p hp
    obtain ⟨f, hf, rfl⟩ := List.mem_map.mp hp
    exact ofFlushed_valid t (h f hf)
  exact ⟨emit_ok hv, hv⟩

/-- control packets whose response token is not `TOKEN_NONE` and whose close reason is short -/
theorem control_valid (ack tok : Nat) (ctl : Control)
    (h : ∀ r, ctl = .close r → r.length ≤ 127)
    (hc : ∀ rt, ctl = .connect rt → rt ≠ TOKEN_NONE) (ht : ∀ rt, ctl = .token rt → rt ≠ TOKEN_NONE) :
    (Packet.control ack tok ctl).valid = true := by
  have h1 : Tw.Gen.Conn.P7.HEADER_SIZE = 7 := rfl
  have h2 : Tw.Gen.Conn.P7.TOKEN_REQUEST_PACKET_SIZE = 519 := rfl
  simp only [Packet.valid, Bool.and_eq_true, decide_eq_true_eq]
  rw [maxPacketSize_eq]
  cases ctl with
  | close r => have := h r rfl; simp [Packet.wireSize, Packet.writeOk, h1]; omega
  | keepAlive => simp [Packet.wireSize, Packet.writeOk, h1]
  | accept => simp [Packet.wireSize, Packet.writeOk, h1]
  | connect rt => have := hc rt rfl; simp [Packet.wireSize, Packet.writeOk, h1, this]
  | token rt =>
    have := ht rt rfl
    simp only [Packet.wireSize, Packet.writeOk, h1, h2, bne_iff_ne, ne_eq, this, not_false_eq_true, and_true]
    split <;> omega

theorem sendControlWith_ok (st : State) (ctl : Control) (tok : Nat)
    (h : ∀ r, ctl = .close r → r.length ≤ 127)
    (hc : ∀ rt, ctl = .connect rt → rt ≠ TOKEN_NONE) (ht : ∀ rt, ctl = .token rt → rt ≠ TOKEN_NONE) :
    ∃ p, sendControlWith st ctl tok = .ok [p] ∧ p.valid = true := by
  unfold sendControlWith
  exact ⟨_, emit_ok (by intro p hp; simp at hp; subst hp; exact control_valid _ tok ctl h hc ht),
    control_valid _ tok ctl h hc ht⟩

theorem sendControl_ok (st : State) (ctl : Control)
    (h : ∀ r, ctl = .close r → r.length ≤ 127)
    (hc : ∀ rt, ctl = .connect rt → rt ≠ TOKEN_NONE) (ht : ∀ rt, ctl = .token rt → rt ≠ TOKEN_NONE) :
    ∃ p, sendControl st ctl = .ok [p] ∧ p.valid = true :=
  sendControlWith_ok st ctl _ h hc ht

theorem good_same {c : Conn} (h : c.Inv) : Good (.ok (c, {})) :=
  ⟨c, {}, rfl, h, by simp⟩

theorem inv_online {own their : Nat} {o : Online} {s : Timeout} (h : o.Inv cfg) (hown : own ≠ TOKEN_NONE) :
    Conn.Inv ⟨.online own their o, s⟩ := by
  constructor
  · intro a b o' hs
    simp at hs
    rw [← hs.2.2]; exact h
  · intro a hs
    simp [State.ownToken?] at hs
    rw [← hs]; exact hown

/-- a state that is not online only needs its own token to be usable -/
theorem inv_not_online {st : State} {s : Timeout} (h : st.isOnline = false)
    (hown : ∀ own, st.ownToken? = some own → own ≠ TOKEN_NONE) : Conn.Inv ⟨st, s⟩ := by
  constructor
  · intro a b o hs
    simp at hs
    rw [hs] at h; simp [State.isOnline] at h
  · exact hown

theorem tickAction_good (env : Env) {c : Conn} (h : c.Inv) : Good (tickAction env c) := by
  obtain ⟨st, snd⟩ := c
  cases st with
  | unconnected => exact good_same h
  | disconnected => exact good_same h
  | pendingConnect own => exact good_same h
  | token own =>
    have hown := h.own own rfl
    obtain ⟨p, he, hv⟩ := sendControl_ok (.token own) (.token own) (by simp) (by simp)
      (by intro rt hrt; injection hrt with hrt; subst hrt; exact hown)
    simp only [tickAction, he]
    exact ⟨_, _, rfl, ⟨h.online, h.own⟩, by simpa using hv⟩
  | connecting own their =>
    have hown := h.own own rfl
    obtain ⟨p, he, hv⟩ := sendControl_ok (.connecting own their) (.connect own) (by simp)
      (by intro rt hrt; injection hrt with hrt; subst hrt; exact hown) (by simp)
    simp only [tickAction, he]
    exact ⟨_, _, rfl, ⟨h.online, h.own⟩, by simpa using hv⟩
  | pending own their =>
    obtain ⟨p, he, hv⟩ := sendControl_ok (.pending own their) .accept (by simp) (by simp) (by simp)
    simp only [tickAction, he]
    exact ⟨_, _, rfl, ⟨h.online, h.own⟩, by simpa using hv⟩
  | online own their o =>
    have ho : o.Inv cfg := h.online own their o rfl
    have hown := h.own own rfl
    simp only [tickAction]
    split
    · obtain ⟨he, hv⟩ := emit_flushed their (Online.flush_valid ho)
      simp only [he]
      exact ⟨_, _, rfl, inv_online (Online.flush_inv ho) hown, hv⟩
    · obtain ⟨p, he, hv⟩ := sendControl_ok (.online own their o) .keepAlive (by simp) (by simp) (by simp)
      simp only [he]
      exact ⟨_, _, rfl, inv_online ho hown, by simpa using hv⟩

theorem connect_good (env : Env) {c : Conn} (hp : permitted env c .connect = true) : Good (connect env c) := by
  obtain ⟨st, snd⟩ := c
  simp only [permitted, Bool.and_eq_true, beq_iff_eq] at hp
  obtain ⟨hs, hd⟩ := hp
  subst hs
  obtain ⟨t, ht⟩ := Option.isSome_iff_exists.mp hd
  simp only [connect, ht]
  exact tickAction_good env (c := ⟨.token t, snd⟩)
    (inv_not_online rfl (by intro own ho; simp [State.ownToken?] at ho; subst ho; exact tokenRandom_ne ht))

theorem disconnect_good (env : Env) {c : Conn} (h : c.Inv) (r : Bytes) (hp : permitted env c (.disconnect r) = true) :
    Good (disconnect env c r) := by
  obtain ⟨st, snd⟩ := c
  simp only [permitted, Bool.and_eq_true, bne_iff_ne, ne_eq, decide_eq_true_eq] at hp
  obtain ⟨⟨hd, hnul⟩, hlen⟩ := hp
  have hlen' : r.length ≤ 127 := hlen
  obtain ⟨p, he, hv⟩ := sendControl_ok st (.close r)
    (by intro r' hr; injection hr with hr; subst hr; exact hlen') (by simp) (by simp)
  have hany : r.any (· == 0) = false := by
    rw [List.any_eq_false]
    intro x hx
    have := List.all_eq_true.mp hnul x hx
    simpa using this
  have hfin : Conn.Inv ⟨.disconnected, snd⟩ := inv_not_online rfl (by intro own ho; simp [State.ownToken?] at ho)
  cases st with
  | disconnected => exact absurd rfl hd
  | unconnected => simp only [disconnect, hany, he]; exact ⟨_, _, rfl, hfin, by simpa using hv⟩
  | token a => simp only [disconnect, hany, he]; exact ⟨_, _, rfl, hfin, by simpa using hv⟩
  | pendingConnect a => simp only [disconnect, hany, he]; exact ⟨_, _, rfl, hfin, by simpa using hv⟩
  | connecting a b => simp only [disconnect, hany, he]; exact ⟨_, _, rfl, hfin, by simpa using hv⟩
  | pending a b => simp only [disconnect, hany, he]; exact ⟨_, _, rfl, hfin, by simpa using hv⟩
  | online a b o => simp only [disconnect, hany, he]; exact ⟨_, _, rfl, hfin, by simpa using hv⟩

theorem online_of_isOnline {st : State} (h : st.isOnline = true) : ∃ a b o, st = .online a b o := by
  cases st <;> simp [State.isOnline] at h
  exact ⟨_, _, _, rfl⟩

theorem flush_good (env : Env) {c : Conn} (h : c.Inv) (hp : permitted env c .flush = true) : Good (flush env c) := by
  obtain ⟨st, snd⟩ := c
  obtain ⟨own, their, o, rfl⟩ := online_of_isOnline (by simpa [permitted] using hp)
  have ho : o.Inv cfg := h.online own their o rfl
  obtain ⟨he, hv⟩ := emit_flushed their (Online.flush_valid ho)
  simp only [flush, he]
  exact ⟨_, _, rfl, inv_online (Online.flush_inv ho) (h.own own rfl), hv⟩

theorem send_good (env : Env) {c : Conn} (h : c.Inv) (d : Bytes) (v : Bool)
    (hp : permitted env c (.send d v) = true) : Good (step env c (.send d v)) := by
  obtain ⟨st, snd⟩ := c
  obtain ⟨own, their, o, rfl⟩ := online_of_isOnline (by simpa [permitted] using hp)
  have ho : o.Inv cfg := h.online own their o rfl
  simp only [step, send]
  cases hs : o.send cfg env.now d v with
  | error e => exact absurd hs (Online.send_ne_error cfg_ok ho _ _ _ e)
  | ok res =>
    obtain ⟨o1, r, fl⟩ := res
    obtain ⟨hinv, hfl⟩ := Online.send_inv cfg_ok ho _ _ _ hs
    obtain ⟨he, hv⟩ := emit_flushed their hfl
    simp only [he]
    exact ⟨_, _, rfl, inv_online hinv (h.own own rfl), hv⟩

theorem sendConnless_good (env : Env) {c : Conn} (h : c.Inv) (d : Bytes)
    (hp : permitted env c (.sendConnless d) = true) : Good (step env c (.sendConnless d)) := by
  obtain ⟨st, snd⟩ := c
  obtain ⟨own, their, o, rfl⟩ := online_of_isOnline (by simpa [permitted] using hp)
  have ho : o.Inv cfg := h.online own their o rfl
  simp only [step, sendConnless]
  by_cases hl : d.length > Tw.Gen.Conn.P7.connlessMax
  · rw [if_pos hl]
    exact ⟨_, _, rfl, inv_online ho (h.own own rfl), by simp⟩
  · rw [if_neg hl]
    have hv : ∀ p ∈ [Packet.connless their own d], p.valid = true := by
      intro p hp; simp at hp; subst hp
      simp only [Packet.valid, decide_eq_true_eq]; omega
    rw [emit_ok hv]
    exact ⟨_, _, rfl, inv_online ho (h.own own rfl), hv⟩

theorem resendConn_good (env : Env) (own their : Nat) {o : Online} (ho : o.Inv cfg) (hown : own ≠ TOKEN_NONE)
    (snd : Timeout) : Good (resendConn env own their o snd) := by
  obtain ⟨o', send', fl, he, hinv, hfl, _⟩ := Online.resend_spec cfg_ok ho env.now snd
  obtain ⟨he2, hv⟩ := emit_flushed their hfl
  simp only [resendConn, he, he2]
  exact ⟨_, _, rfl, inv_online hinv hown, hv⟩

theorem tick_good (env : Env) {c : Conn} (h : c.Inv) : Good (tick env c) := by
  obtain ⟨st, snd⟩ := c
  have rest : Good (if snd.triggered env.now = true then tickAction env ⟨st, .inactive⟩ else .ok (⟨st, snd⟩, {})) := by
    split
    · exact tickAction_good env ⟨h.online, h.own⟩
    · exact good_same h
  cases st with
  | online own their o =>
    simp only [tick]
    split
    · exact resendConn_good env own their (h.online own their o rfl) (h.own own rfl) snd
    · exact rest
  | unconnected => simpa [tick] using rest
  | token a => simpa [tick] using rest
  | pendingConnect a => simpa [tick] using rest
  | connecting a b => simpa [tick] using rest
  | pending a b => simpa [tick] using rest
  | disconnected => simpa [tick] using rest

theorem feedBody_good (env : Env) {c : Conn} (h : c.Inv) (p : Packet)
    (hwf : p.wf = true) (hd : (tokenRandom env.draws).isSome = true) : Good (feedBody env c p) := by
  obtain ⟨st, snd⟩ := c
  cases p with
  | connless a b d => exact good_same h
  | chunks ack tk rr n cs =>
    simp only [Packet.wf, Bool.and_eq_true, decide_eq_true_eq] at hwf
    have key : ∀ (own their : Nat) (o : Online), o.Inv cfg → own ≠ TOKEN_NONE →
        Good (match o.receive cfg env.now snd rr cs with
          | .error e => .error e
          | .ok (o1, send1, fl, evs) =>
            match emit (fl.map (ofFlushed their)) with
            | .error e => .error e
            | .ok ps => .ok (⟨.online own their o1, send1⟩, { sent := ps, events := evs })) := by
      intro own their o ho hown
      obtain ⟨o', send', fl, evs, he, hinv, hfl, _⟩ := Online.receive_spec cfg_ok ho env.now snd rr cs hwf.2
      obtain ⟨he2, hv⟩ := emit_flushed their hfl
      simp only [he, he2]
      exact ⟨_, _, rfl, inv_online hinv hown, hv⟩
    cases st with
    | online own their o => exact key own their o (h.online own their o rfl) (h.own own rfl)
    | pending own their => exact key own their .new (Online.new_inv cfg) (h.own own rfl)
    | unconnected => exact good_same h
    | token a => exact good_same h
    | pendingConnect a => exact good_same h
    | connecting a b => exact good_same h
    | disconnected => exact good_same h
  | control ack tk ctl =>
    cases ctl with
    | keepAlive => exact good_same h
    | close r =>
      exact ⟨_, _, rfl, inv_not_online rfl (by intro own ho; simp [State.ownToken?] at ho), by simp⟩
    | accept =>
      cases st with
      | connecting own their =>
        exact ⟨_, _, rfl, inv_online (Online.new_inv cfg) (h.own own rfl), by simp⟩
      | online a b o => exact good_same h
      | pending a b => exact good_same h
      | unconnected => exact good_same h
      | token a => exact good_same h
      | pendingConnect a => exact good_same h
      | disconnected => exact good_same h
    | connect their =>
      cases st with
      | pendingConnect own =>
        exact tickAction_good env (c := ⟨.pending own their, snd⟩)
          (inv_not_online rfl (by intro o ho; simp [State.ownToken?] at ho; subst ho; exact h.own own rfl))
      | online a b o => exact good_same h
      | pending a b => exact good_same h
      | unconnected => exact good_same h
      | token a => exact good_same h
      | connecting a b => exact good_same h
      | disconnected => exact good_same h
    | token their =>
      cases st with
      | unconnected =>
        obtain ⟨t, ht⟩ := Option.isSome_iff_exists.mp hd
        have htn := tokenRandom_ne ht
        obtain ⟨p, he, hv⟩ := sendControlWith_ok (.pendingConnect t) (.token t) their (by simp) (by simp)
          (by intro rt hrt; injection hrt with hrt; subst hrt; exact htn)
        simp only [feedBody, ht, he]
        exact ⟨_, _, rfl, inv_not_online rfl (by intro o ho; simp [State.ownToken?] at ho; subst ho; exact htn),
          by simpa using hv⟩
      | pendingConnect own =>
        have hown := h.own own rfl
        obtain ⟨p, he, hv⟩ := sendControlWith_ok (.pendingConnect own) (.token own) their (by simp) (by simp)
          (by intro rt hrt; injection hrt with hrt; subst hrt; exact hown)
        simp only [feedBody, he]
        exact ⟨_, _, rfl, h, by simpa using hv⟩
      | token own =>
        exact tickAction_good env (c := ⟨.connecting own their, snd⟩)
          (inv_not_online rfl (by intro o ho; simp [State.ownToken?] at ho; subst ho; exact h.own own rfl))
      | online a b o => exact good_same h
      | pending a b => exact good_same h
      | connecting a b => exact good_same h
      | disconnected => exact good_same h

theorem feed_good (env : Env) {c : Conn} (h : c.Inv) (rd : Option Packet)
    (hp : permitted env c (.feed rd) = true) : Good (feed env c rd) := by
  simp only [permitted, Bool.and_eq_true] at hp
  obtain ⟨hw, hd⟩ := hp
  cases rd with
  | none => exact ⟨_, _, rfl, h, by simp⟩
  | some p =>
    have hpw : p.wf = true := by simpa using hw
    cases p with
    | connless a b d =>
      simp only [feed]
      split
      · exact ⟨_, _, rfl, h, by simp⟩
      · split
        · exact ⟨_, _, rfl, h, by simp⟩
        · exact ⟨_, _, rfl, h, by simp⟩
    | control ack tk ctl =>
      simp only [feed]
      split
      · exact ⟨_, _, rfl, h, by simp⟩
      · have hack : ack < seqMod := by simpa [Packet.wf] using hpw
        obtain ⟨st, snd⟩ := c
        cases st with
        | online own their o =>
          obtain ⟨he, hinv⟩ := Online.feedAck_spec (h.online own their o rfl) hack
          simp only [he]
          exact feedBody_good env (inv_online hinv (h.own own rfl)) _ hpw hd
        | unconnected => exact feedBody_good env h _ hpw hd
        | token a => exact feedBody_good env h _ hpw hd
        | pendingConnect a => exact feedBody_good env h _ hpw hd
        | connecting a b => exact feedBody_good env h _ hpw hd
        | pending a b => exact feedBody_good env h _ hpw hd
        | disconnected => exact feedBody_good env h _ hpw hd
    | chunks ack tk rr n cs =>
      simp only [feed]
      split
      · exact ⟨_, _, rfl, h, by simp⟩
      · have hack : ack < seqMod := by
          simp only [Packet.wf, Bool.and_eq_true, decide_eq_true_eq] at hpw; exact hpw.1
        obtain ⟨st, snd⟩ := c
        cases st with
        | online own their o =>
          obtain ⟨he, hinv⟩ := Online.feedAck_spec (h.online own their o rfl) hack
          simp only [he]
          exact feedBody_good env (inv_online hinv (h.own own rfl)) _ hpw hd
        | unconnected => exact feedBody_good env h _ hpw hd
        | token a => exact feedBody_good env h _ hpw hd
        | pendingConnect a => exact feedBody_good env h _ hpw hd
        | connecting a b => exact feedBody_good env h _ hpw hd
        | pending a b => exact feedBody_good env h _ hpw hd
        | disconnected => exact feedBody_good env h _ hpw hd

theorem step_good (env : Env) {c : Conn} (h : c.Inv) (op : Op) (hp : permitted env c op = true) :
    Good (step env c op) := by
  cases op with
  | connect => exact connect_good env hp
  | disconnect r => exact disconnect_good env h r hp
  | flush => exact flush_good env h hp
  | send d v => exact send_good env h d v hp
  | sendConnless d => exact sendConnless_good env h d hp
  | tick => exact tick_good env h
  | feed rd => exact feed_good env h rd hp

theorem run_good : ∀ (sched : List (Env × Op)) (c : Conn), c.Inv → runPermitted c sched = true →
    ∃ c' outs, run c sched = .ok (c', outs) ∧ c'.Inv ∧ ∀ out ∈ outs, ∀ p ∈ out.sent, p.valid = true := by
  intro sched
  induction sched with
  | nil => intro c h _; exact ⟨c, [], rfl, h, by simp⟩
  | cons eo rest ih =>
    intro c h hp
    obtain ⟨env, op⟩ := eo
    simp only [runPermitted, Bool.and_eq_true] at hp
    obtain ⟨c1, out, he, hinv, hv⟩ := step_good env h op hp.1
    have hp2 := hp.2
    rw [he] at hp2
    obtain ⟨c2, outs, he2, hinv2, hv2⟩ := ih c1 hinv hp2
    refine ⟨c2, out :: outs, ?_, hinv2, ?_⟩
    · simp only [run, he, he2]
    · intro o ho
      rcases List.mem_cons.mp ho with rfl | ho
      · exact hv
      · exact hv2 o ho

end Tw.Conn7
