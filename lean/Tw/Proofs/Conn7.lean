import Tw.Model.Conn7
import Tw.Proofs.Conn

/-!
# Lemmas about the 0.7 connection model: every permitted call succeeds, keeps the packet
invariant and emits only valid datagrams (C04).
-/
namespace Tw.Conn7
open Tw.Conn Tw.Time

theorem cfg_ok : cfg.Ok := by
  intro n h
  simp [Cfg.accepts, cfg] at h
  simp [cfg]
  rw [maxPayload_eq] at h
  have : Tw.Gen.Conn.P7.CHUNK_SIZE_BITS = 12 := rfl
  rw [this]
  omega

theorem TOKEN_NONE_eq : TOKEN_NONE = 0xffffffff := by decide

/-- the connection invariant: the online state satisfies the packet invariant and the own token is
not `TOKEN_NONE` (it came out of `Token::random`) -/
structure Conn.Inv (c : Conn) : Prop where
  online : ∀ own their o, c.state = .online own their o → o.Inv cfg
  own : ∀ own, c.state.ownToken? = some own → own ≠ TOKEN_NONE

def Good (r : Res) : Prop :=
  ∃ c' out, r = .ok (c', out) ∧ c'.Inv ∧ ∀ p ∈ out.sent, p.valid = true

theorem Conn.new_inv : Conn.new.Inv := by
  constructor
  · intro a b o h; simp [Conn.new] at h
  · intro a h; simp [Conn.new, State.ownToken?] at h

theorem tokenRandom_ne {l : List Nat} {t : Nat} (h : tokenRandom l = some t) : t ≠ TOKEN_NONE := by
  induction l with
  | nil => simp [tokenRandom] at h
  | cons x xs ih =>
    simp only [tokenRandom] at h
    split at h
    · injection h with h; subst h; assumption
    · exact ih h

theorem chunks_wire (ack tok : Nat) (rr : Bool) (n : Nat) (cs : List Chunk)
    (h : chunksSize cs ≤ maxPayload + 3) : (Packet.chunks ack tok rr n cs).wireSize ≤ maxPacketSize := by
  have h1 : Tw.Gen.Conn.P7.HEADER_SIZE = 7 := rfl
  rw [maxPacketSize_eq]; rw [maxPayload_eq] at h
  simp only [Packet.wireSize, h1]; omega

theorem ofFlushed_valid (t : Nat) {f : Flushed} (h : f.Valid cfg) : (ofFlushed t f).valid = true := by
  have hw := chunks_wire f.ack t f.requestResend f.numChunks f.chunks h.size
  have h4 : f.numChunks ≠ 0 ∨ f.requestResend = true := h.nonempty
  unfold ofFlushed Packet.valid
  simp only [Bool.and_eq_true, decide_eq_true_eq, Bool.or_eq_true, List.all_eq_true]
  exact ⟨⟨⟨⟨hw, h.num⟩, h.cnt⟩, h.data⟩, h4⟩

theorem valid_wire {p : Packet} (h : p.valid = true) : p.wireSize ≤ maxPacketSize ∧ p.writeOk = true := by
  cases p with
  | connless t rt d =>
    simp only [Packet.valid, decide_eq_true_eq] at h
    have h1 : Tw.Gen.Conn.P7.HEADER_SIZE_CONNLESS = 9 := rfl
    have h3 : Tw.Gen.Conn.P7.connlessMax + 9 ≤ 1400 := by decide
    rw [maxPacketSize_eq]
    simp only [Packet.wireSize, h1, Packet.writeOk, and_true]; omega
  | control ack t c =>
    simp only [Packet.valid, Bool.and_eq_true, decide_eq_true_eq] at h
    exact h
  | chunks ack t rr n cs =>
    simp only [Packet.valid, Bool.and_eq_true, decide_eq_true_eq] at h
    exact ⟨h.1.1.1.1, rfl⟩

theorem emit_ok {ps : List Packet} (h : ∀ p ∈ ps, p.valid = true) : emit ps = .ok ps := by
  unfold emit
  have h1 : ps.all Packet.writeOk = true := by
    rw [List.all_eq_true]; intro p hp; exact (valid_wire (h p hp)).2
  have h2 : ps.all (fun p => decide (p.wireSize ≤ maxPacketSize)) = true := by
    rw [List.all_eq_true]; intro p hp; exact decide_eq_true (valid_wire (h p hp)).1
  simp [h1, h2]

theorem emit_flushed (t : Nat) {fl : List Flushed} (h : ∀ f ∈ fl, f.Valid cfg) :
    emit (fl.map (ofFlushed t)) = .ok (fl.map (ofFlushed t)) ∧
      ∀ p ∈ fl.map (ofFlushed t), p.valid = true := by
  have hv : ∀ p ∈ fl.map (ofFlushed t), p.valid = true := by
    intro p hp
    obtain ⟨f, hf, rfl⟩ := List.mem_map.mp hp
    exact ofFlushed_valid t (h f hf)
  exact ⟨emit_ok hv, hv⟩

/-- control packets whose response token is not `TOKEN_NONE` and whose close reason is short -/
theorem control_valid (ack tok : Nat) (ctl : Control)
    (h : ∀ r, ctl = .close r → r.length ≤ 127)
    (hc : ∀ rt, ctl = .connect rt → rt ≠ TOKEN_NONE) (ht : ∀ rt, ctl = .token rt → rt ≠ TOKEN_NONE) :
    (Packet.control ack tok ctl).valid = true := by
  have h1 : Tw.Gen.Conn.P7.HEADER_SIZE = 7 := rfl
  have h2 : Tw.Gen.Conn.P7.TOKEN_REQUEST_PACKET_SIZE = 519 := rfl
  simp only [Packet.valid, Bool.and_eq_true, decide_eq_true_eq]
  rw [maxPacketSize_eq]
  cases ctl with
  | close r => have := h r rfl; simp [Packet.wireSize, Packet.writeOk, h1]; omega
  | keepAlive => simp [Packet.wireSize, Packet.writeOk, h1]
  | accept => simp [Packet.wireSize, Packet.writeOk, h1]
  | connect rt => have := hc rt rfl; simp [Packet.wireSize, Packet.writeOk, h1, this]
  | token rt =>
    have := ht rt rfl
    simp only [Packet.wireSize, Packet.writeOk, h1, h2, bne_iff_ne, ne_eq, this, not_false_eq_true, and_true]
    split <;> omega

theorem sendControlWith_ok (st : State) (ctl : Control) (tok : Nat)
    (h : ∀ r, ctl = .close r → r.length ≤ 127)
    (hc : ∀ rt, ctl = .connect rt → rt ≠ TOKEN_NONE) (ht : ∀ rt, ctl = .token rt → rt ≠ TOKEN_NONE) :
    ∃ p, sendControlWith st ctl tok = .ok [p] ∧ p.valid = true := by
  unfold sendControlWith
  exact ⟨_, emit_ok (by intro p hp; simp at hp; subst hp; exact control_valid _ tok ctl h hc ht),
    control_valid _ tok ctl h hc ht⟩

theorem sendControl_ok (st : State) (ctl : Control)
    (h : ∀ r, ctl = .close r → r.length ≤ 127)
    (hc : ∀ rt, ctl = .connect rt → rt ≠ TOKEN_NONE) (ht : ∀ rt, ctl = .token rt → rt ≠ TOKEN_NONE) :
    ∃ p, sendControl st ctl = .ok [p] ∧ p.valid = true :=
  sendControlWith_ok st ctl _ h hc ht

theorem good_same {c : Conn} (h : c.Inv) : Good (.ok (c, {})) :=
  ⟨c, {}, rfl, h, by simp⟩

theorem inv_online {own their : Nat} {o : Online} {s : Timeout} (h : o.Inv cfg) (hown : own ≠ TOKEN_NONE) :
    Conn.Inv ⟨.online own their o, s⟩ := by
  constructor
  · intro a b o' hs
    simp at hs
    rw [← hs.2.2]; exact h
  · intro a hs
    simp [State.ownToken?] at hs
    rw [← hs]; exact hown

/-- a state that is not online only needs its own token to be usable -/
theorem inv_not_online {st : State} {s : Timeout} (h : st.isOnline = false)
    (hown : ∀ own, st.ownToken? = some own → own ≠ TOKEN_NONE) : Conn.Inv ⟨st, s⟩ := by
  constructor
  · intro a b o hs
    simp at hs
    rw [hs] at h; simp [State.isOnline] at h
  · exact hown

theorem tickAction_good (env : Env) {c : Conn} (h : c.Inv) : Good (tickAction env c) := by
  obtain ⟨st, snd⟩ := c
  cases st with
  | unconnected => exact good_same h
  | disconnected => exact good_same h
  | pendingConnect own => exact good_same h
  | token own =>
    have hown := h.own own rfl
    obtain ⟨p, he, hv⟩ := sendControl_ok (.token own) (.token own) (by simp) (by simp)
      (by intro rt hrt; injection hrt with hrt; subst hrt; exact hown)
    simp only [tickAction, he]
    exact ⟨_, _, rfl, ⟨h.online, h.own⟩, by simpa using hv⟩
  | connecting own their =>
    have hown := h.own own rfl
    obtain ⟨p, he, hv⟩ := sendControl_ok (.connecting own their) (.connect own) (by simp)
      (by intro rt hrt; injection hrt with hrt; subst hrt; exact hown) (by simp)
    simp only [tickAction, he]
    exact ⟨_, _, rfl, ⟨h.online, h.own⟩, by simpa using hv⟩
  | pending own their =>
    obtain ⟨p, he, hv⟩ := sendControl_ok (.pending own their) .accept (by simp) (by simp) (by simp)
    simp only [tickAction, he]
    exact ⟨_, _, rfl, ⟨h.online, h.own⟩, by simpa using hv⟩
  | online own their o =>
    have ho : o.Inv cfg := h.online own their o rfl
    have hown := h.own own rfl
    simp only [tickAction]
    split
    · obtain ⟨he, hv⟩ := emit_flushed their (Online.flush_valid ho)
      simp only [he]
      exact ⟨_, _, rfl, inv_online (Online.flush_inv ho) hown, hv⟩
    · obtain ⟨p, he, hv⟩ := sendControl_ok (.online own their o) .keepAlive (by simp) (by simp) (by simp)
      simp only [he]
      exact ⟨_, _, rfl, inv_online ho hown, by simpa using hv⟩

theorem connect_good (env : Env) {c : Conn} (hp : permitted env c .connect = true) : Good (connect env c) := by
  obtain ⟨st, snd⟩ := c
  simp only [permitted, Bool.and_eq_true, beq_iff_eq] at hp
  obtain ⟨hs, hd⟩ := hp
  subst hs
  obtain ⟨t, ht⟩ := Option.isSome_iff_exists.mp hd
  simp only [connect, ht]
  exact tickAction_good env (c := ⟨.token t, snd⟩)
    (inv_not_online rfl (by intro own ho; simp [State.ownToken?] at ho; subst ho; exact tokenRandom_ne ht))

theorem disconnect_good (env : Env) {c : Conn} (h : c.Inv) (r : Bytes) (hp : permitted env c (.disconnect r) = true) :
    Good (disconnect env c r) := by
  obtain ⟨st, snd⟩ := c
  simp only [permitted, Bool.and_eq_true, bne_iff_ne, ne_eq, decide_eq_true_eq] at hp
  obtain ⟨⟨hd, hnul⟩, hlen⟩ := hp
  have hlen' : r.length ≤ 127 := hlen
  obtain ⟨p, he, hv⟩ := sendControl_ok st (.close r)
    (by intro r' hr; injection hr with hr; subst hr; exact hlen') (by simp) (by simp)
  have hany : r.any (· == 0) = false := by
    rw [List.any_eq_false]
    intro x hx
    have := List.all_eq_true.mp hnul x hx
    simpa using this
  have hfin : Conn.Inv ⟨.disconnected, snd⟩ := inv_not_online rfl (by intro own ho; simp [State.ownToken?] at ho)
  cases st with
  | disconnected => exact absurd rfl hd
  | unconnected => simp only [disconnect, hany, he]; exact ⟨_, _, rfl, hfin, by simpa using hv⟩
  | token a => simp only [disconnect, hany, he]; exact ⟨_, _, rfl, hfin, by simpa using hv⟩
  | pendingConnect a => simp only [disconnect, hany, he]; exact ⟨_, _, rfl, hfin, by simpa using hv⟩
  | connecting a b => simp only [disconnect, hany, he]; exact ⟨_, _, rfl, hfin, by simpa using hv⟩
  | pending a b => simp only [disconnect, hany, he]; exact ⟨_, _, rfl, hfin, by simpa using hv⟩
  | online a b o => simp only [disconnect, hany, he]; exact ⟨_, _, rfl, hfin, by simpa using hv⟩

theorem online_of_isOnline {st : State} (h : st.isOnline = true) : ∃ a b o, st = .online a b o := by
  cases st <;> simp [State.isOnline] at h
  exact ⟨_, _, _, rfl⟩

theorem flush_good (env : Env) {c : Conn} (h : c.Inv) (hp : permitted env c .flush = true) : Good (flush env c) := by
  obtain ⟨st, snd⟩ := c
  obtain ⟨own, their, o, rfl⟩ := online_of_isOnline (by simpa [permitted] using hp)
  have ho : o.Inv cfg := h.online own their o rfl
  obtain ⟨he, hv⟩ := emit_flushed their (Online.flush_valid ho)
  simp only [flush, he]
  exact ⟨_, _, rfl, inv_online (Online.flush_inv ho) (h.own own rfl), hv⟩

theorem send_good (env : Env) {c : Conn} (h : c.Inv) (d : Bytes) (v : Bool)
    (hp : permitted env c (.send d v) = true) : Good (step env c (.send d v)) := by
  obtain ⟨st, snd⟩ := c
  obtain ⟨own, their, o, rfl⟩ := online_of_isOnline (by simpa [permitted] using hp)
  have ho : o.Inv cfg := h.online own their o rfl
  simp only [step, send]
  cases hs : o.send cfg env.now d v with
  | error e => exact absurd hs (Online.send_ne_error cfg_ok ho _ _ _ e)
  | ok res =>
    obtain ⟨o1, r, fl⟩ := res
    obtain ⟨hinv, hfl⟩ := Online.send_inv cfg_ok ho _ _ _ hs
    obtain ⟨he, hv⟩ := emit_flushed their hfl
    simp only [he]
    exact ⟨_, _, rfl, inv_online hinv (h.own own rfl), hv⟩

theorem sendConnless_good (env : Env) {c : Conn} (h : c.Inv) (d : Bytes)
    (hp : permitted env c (.sendConnless d) = true) : Good (step env c (.sendConnless d)) := by
  obtain ⟨st, snd⟩ := c
  obtain ⟨own, their, o, rfl⟩ := online_of_isOnline (by simpa [permitted] using hp)
  have ho : o.Inv cfg := h.online own their o rfl
  simp only [step, sendConnless]
  by_cases hl : d.length > Tw.Gen.Conn.P7.connlessMax
  · rw [if_pos hl]
    exact ⟨_, _, rfl, inv_online ho (h.own own rfl), by simp⟩
  · rw [if_neg hl]
    have hv : ∀ p ∈ [Packet.connless their own d], p.valid = true := by
      intro p hp; simp at hp; subst hp
      simp only [Packet.valid, decide_eq_true_eq]; omega
    rw [emit_ok hv]
    exact ⟨_, _, rfl, inv_online ho (h.own own rfl), hv⟩

theorem resendConn_good (env : Env) (own their : Nat) {o : Online} (ho : o.Inv cfg) (hown : own ≠ TOKEN_NONE)
    (snd : Timeout) : Good (resendConn env own their o snd) := by
  obtain ⟨o', send', fl, he, hinv, hfl, _⟩ := Online.resend_spec cfg_ok ho env.now snd
  obtain ⟨he2, hv⟩ := emit_flushed their hfl
  simp only [resendConn, he, he2]
  exact ⟨_, _, rfl, inv_online hinv hown, hv⟩

theorem tick_good (env : Env) {c : Conn} (h : c.Inv) : Good (tick env c) := by
  obtain ⟨st, snd⟩ := c
  have rest : Good (if snd.triggered env.now = true then tickAction env ⟨st, .inactive⟩ else .ok (⟨st, snd⟩, {})) := by
    split
    · exact tickAction_good env ⟨h.online, h.own⟩
    · exact good_same h
  cases st with
  | online own their o =>
    simp only [tick]
    split
    · exact resendConn_good env own their (h.online own their o rfl) (h.own own rfl) snd
    · exact rest
  | unconnected => simpa [tick] using rest
  | token a => simpa [tick] using rest
  | pendingConnect a => simpa [tick] using rest
  | connecting a b => simpa [tick] using rest
  | pending a b => simpa [tick] using rest
  | disconnected => simpa [tick] using rest

theorem feedBody_good (env : Env) {c : Conn} (h : c.Inv) (p : Packet)
    (hwf : p.wf = true) (hd : (tokenRandom env.draws).isSome = true) : Good (feedBody env c p) := by
  obtain ⟨st, snd⟩ := c
  cases p with
  | connless a b d => exact good_same h
  | chunks ack tk rr n cs =>
    simp only [Packet.wf, Bool.and_eq_true, decide_eq_true_eq] at hwf
    have key : ∀ (own their : Nat) (o : Online), o.Inv cfg → own ≠ TOKEN_NONE →
        Good (match o.receive cfg env.now snd rr cs with
          | .error e => .error e
          | .ok (o1, send1, fl, evs) =>
            match emit (fl.map (ofFlushed their)) with
            | .error e => .error e
            | .ok ps => .ok (⟨.online own their o1, send1⟩, { sent := ps, events := evs })) := by
      intro own their o ho hown
      obtain ⟨o', send', fl, evs, he, hinv, hfl, _⟩ := Online.receive_spec cfg_ok ho env.now snd rr cs hwf.2
      obtain ⟨he2, hv⟩ := emit_flushed their hfl
      simp only [he, he2]
      exact ⟨_, _, rfl, inv_online hinv hown, hv⟩
    cases st with
    | online own their o => exact key own their o (h.online own their o rfl) (h.own own rfl)
    | pending own their => exact key own their .new (Online.new_inv cfg) (h.own own rfl)
    | unconnected => exact good_same h
    | token a => exact good_same h
    | pendingConnect a => exact good_same h
    | connecting a b => exact good_same h
    | disconnected => exact good_same h
  | control ack tk ctl =>
    cases ctl with
    | keepAlive => exact good_same h
    | close r =>
      exact ⟨_, _, rfl, inv_not_online rfl (by intro own ho; simp [State.ownToken?] at ho), by simp⟩
    | accept =>
      cases st with
      | connecting own their =>
        exact ⟨_, _, rfl, inv_online (Online.new_inv cfg) (h.own own rfl), by simp⟩
      | online a b o => exact good_same h
      | pending a b => exact good_same h
      | unconnected => exact good_same h
      | token a => exact good_same h
      | pendingConnect a => exact good_same h
      | disconnected => exact good_same h
    | connect their =>
      cases st with
      | pendingConnect own =>
        exact tickAction_good env (c := ⟨.pending own their, snd⟩)
          (inv_not_online rfl (by intro o ho; simp [State.ownToken?] at ho; subst ho; exact h.own own rfl))
      | online a b o => exact good_same h
      | pending a b => exact good_same h
      | unconnected => exact good_same h
      | token a => exact good_same h
      | connecting a b => exact good_same h
      | disconnected => exact good_same h
    | token their =>
      cases st with
      | unconnected =>
        obtain ⟨t, ht⟩ := Option.isSome_iff_exists.mp hd
        have htn := tokenRandom_ne ht
        obtain ⟨p, he, hv⟩ := sendControlWith_ok (.pendingConnect t) (.token t) their (by simp) (by simp)
          (by intro rt hrt; injection hrt with hrt; subst hrt; exact htn)
        simp only [feedBody, ht, he]
        exact ⟨_, _, rfl, inv_not_online rfl (by intro o ho; simp [State.ownToken?] at ho; subst ho; exact htn),
          by simpa using hv⟩
      | pendingConnect own =>
        have hown := h.own own rfl
        obtain ⟨p, he, hv⟩ := sendControlWith_ok (.pendingConnect own) (.token own) their (by simp) (by simp)
          (by intro rt hrt; injection hrt with hrt; subst hrt; exact hown)
        simp only [feedBody, he]
        exact ⟨_, _, rfl, h, by simpa using hv⟩
      | token own =>
        exact tickAction_good env (c := ⟨.connecting own their, snd⟩)
          (inv_not_online rfl (by intro o ho; simp [State.ownToken?] at ho; subst ho; exact h.own own rfl))
      | online a b o => exact good_same h
      | pending a b => exact good_same h
      | connecting a b => exact good_same h
      | disconnected => exact good_same h

theorem feed_good (env : Env) {c : Conn} (h : c.Inv) (rd : Option Packet)
    (hp : permitted env c (.feed rd) = true) : Good (feed env c rd) := by
  simp only [permitted, Bool.and_eq_true] at hp
  obtain ⟨hw, hd⟩ := hp
  cases rd with
  | none => exact ⟨_, _, rfl, h, by simp⟩
  | some p =>
    have hpw : p.wf = true := by simpa using hw
    cases p with
    | connless a b d =>
      simp only [feed]
      split
      · exact ⟨_, _, rfl, h, by simp⟩
      · split
        · exact ⟨_, _, rfl, h, by simp⟩
        · exact ⟨_, _, rfl, h, by simp⟩
    | control ack tk ctl =>
      simp only [feed]
      split
      · exact ⟨_, _, rfl, h, by simp⟩
      · have hack : ack < seqMod := by simpa [Packet.wf] using hpw
        obtain ⟨st, snd⟩ := c
        cases st with
        | online own their o =>
          obtain ⟨he, hinv⟩ := Online.feedAck_spec (h.online own their o rfl) hack
          simp only [he]
          exact feedBody_good env (inv_online hinv (h.own own rfl)) _ hpw hd
        | unconnected => exact feedBody_good env h _ hpw hd
        | token a => exact feedBody_good env h _ hpw hd
        | pendingConnect a => exact feedBody_good env h _ hpw hd
        | connecting a b => exact feedBody_good env h _ hpw hd
        | pending a b => exact feedBody_good env h _ hpw hd
        | disconnected => exact feedBody_good env h _ hpw hd
    | chunks ack tk rr n cs =>
      simp only [feed]
      split
      · exact ⟨_, _, rfl, h, by simp⟩
      · have hack : ack < seqMod := by
          simp only [Packet.wf, Bool.and_eq_true, decide_eq_true_eq] at hpw; exact hpw.1
        obtain ⟨st, snd⟩ := c
        cases st with
        | online own their o =>
          obtain ⟨he, hinv⟩ := Online.feedAck_spec (h.online own their o rfl) hack
          simp only [he]
          exact feedBody_good env (inv_online hinv (h.own own rfl)) _ hpw hd
        | unconnected => exact feedBody_good env h _ hpw hd
        | token a => exact feedBody_good env h _ hpw hd
        | pendingConnect a => exact feedBody_good env h _ hpw hd
        | connecting a b => exact feedBody_good env h _ hpw hd
        | pending a b => exact feedBody_good env h _ hpw hd
        | disconnected => exact feedBody_good env h _ hpw hd

theorem step_good (env : Env) {c : Conn} (h : c.Inv) (op : Op) (hp : permitted env c op = true) :
    Good (step env c op) := by
  cases op with
  | connect => exact connect_good env hp
  | disconnect r => exact disconnect_good env h r hp
  | flush => exact flush_good env h hp
  | send d v => exact send_good env h d v hp
  | sendConnless d => exact sendConnless_good env h d hp
  | tick => exact tick_good env h
  | feed rd => exact feed_good env h rd hp

theorem run_good : ∀ (sched : List (Env × Op)) (c : Conn), c.Inv → runPermitted c sched = true →
    ∃ c' outs, run c sched = .ok (c', outs) ∧ c'.Inv ∧ ∀ out ∈ outs, ∀ p ∈ out.sent, p.valid = true := by
  intro sched
  induction sched with
  | nil => intro c h _; exact ⟨c, [], rfl, h, by simp⟩
  | cons eo rest ih =>
    intro c h hp
    obtain ⟨env, op⟩ := eo
    simp only [runPermitted, Bool.and_eq_true] at hp
    obtain ⟨c1, out, he, hinv, hv⟩ := step_good env h op hp.1
    have hp2 := hp.2
    rw [he] at hp2
    obtain ⟨c2, outs, he2, hinv2, hv2⟩ := ih c1 hinv hp2
    refine ⟨c2, out :: outs, ?_, hinv2, ?_⟩
    · simp only [run, he, he2]
    · intro o ho
      rcases List.mem_cons.mp ho with rfl | ho
      · exact hv
      · exact hv2 o ho

end Tw.Conn7

/-! ## C02: no call hangs; the send timer is armed in every non-idle state except `PendingConnect` -/
namespace Tw.Conn7
open Tw.Conn Tw.Time

/-- the send timer is active in `Token`, `Connecting`, `Pending`, `Online` (the 0.7 acceptor's
`PendingConnect` arms no timer: defect D23, see `Props/C02`) -/
def Armed (c : Conn) : Prop :=
  match c.state with
  | .token _ | .connecting _ _ | .pending _ _ | .online _ _ _ => c.send.isActive = true
  | _ => True

def Keeps (c : Conn) (r : Res) : Prop :=
  NoHang r ∧ ∀ c' out, r = .ok (c', out) → Armed c → Armed c'

theorem after_active (now d : Nat) : (Timeout.after now d).isActive = true := rfl

theorem nohang_err {α : Type} {x : Except Fail α} {e : Fail} (h : NoHang x) (hx : x = .error e) : e ≠ .hang := by
  intro he; subst he; exact h hx

theorem keeps_error (c : Conn) {e : Fail} (h : e ≠ .hang) : Keeps c (.error e) :=
  ⟨by unfold NoHang; intro he; injection he with he; exact h he, by intro _ _ h; cases h⟩

theorem keeps_panic (c : Conn) (site : String) : Keeps c (.error (.panic site)) :=
  keeps_error c (by simp)

theorem keeps_ok_armed (c : Conn) {c1 : Conn} (out : Out) (h : Armed c1) : Keeps c (.ok (c1, out)) := by
  refine ⟨by simp [NoHang], ?_⟩
  intro c' out' he _
  injection he with he; injection he with he _; rw [← he]; exact h

theorem keeps_ok_of (c : Conn) {c1 : Conn} (out : Out) (h : Armed c → Armed c1) : Keeps c (.ok (c1, out)) := by
  refine ⟨by simp [NoHang], ?_⟩
  intro c' out' he ha
  injection he with he; injection he with he _; rw [← he]; exact h ha

theorem keeps_same (c : Conn) (out : Out) : Keeps c (.ok (c, out)) := keeps_ok_of c out id

theorem emit_nohang (ps : List Packet) : NoHang (emit ps) := by
  unfold NoHang emit; split
  · simp
  · split <;> simp

theorem sendControlWith_nohang (st : State) (ctl : Control) (tok : Nat) : NoHang (sendControlWith st ctl tok) :=
  emit_nohang _

theorem sendControl_nohang (st : State) (ctl : Control) : NoHang (sendControl st ctl) :=
  emit_nohang _

theorem tickAction_keeps (env : Env) (c c0 : Conn) : Keeps c0 (tickAction env c) := by
  obtain ⟨st, snd⟩ := c
  cases st with
  | unconnected => exact keeps_ok_armed _ _ (by simp [Armed])
  | disconnected => exact keeps_ok_armed _ _ (by simp [Armed])
  | pendingConnect a => exact keeps_ok_armed _ _ (by simp [Armed])
  | token a =>
    simp only [tickAction]
    cases hx : sendControl (.token a) (.token a) with
    | error e => exact keeps_error _ (nohang_err (sendControl_nohang _ _) hx)
    | ok ps => exact keeps_ok_armed _ _ (by simp [Armed, after_active])
  | connecting a b =>
    simp only [tickAction]
    cases hx : sendControl (.connecting a b) (.connect a) with
    | error e => exact keeps_error _ (nohang_err (sendControl_nohang _ _) hx)
    | ok ps => exact keeps_ok_armed _ _ (by simp [Armed, after_active])
  | pending a b =>
    simp only [tickAction]
    cases hx : sendControl (.pending a b) .accept with
    | error e => exact keeps_error _ (nohang_err (sendControl_nohang _ _) hx)
    | ok ps => exact keeps_ok_armed _ _ (by simp [Armed, after_active])
  | online a b o =>
    simp only [tickAction]
    split
    · cases hx : emit (o.flush.2.map (ofFlushed b)) with
      | error e => exact keeps_error _ (nohang_err (emit_nohang _) hx)
      | ok ps => exact keeps_ok_armed _ _ (by simp [Armed, after_active])
    · cases hx : sendControl (.online a b o) .keepAlive with
      | error e => exact keeps_error _ (nohang_err (sendControl_nohang _ _) hx)
      | ok ps => exact keeps_ok_armed _ _ (by simp [Armed, after_active])

theorem connect_keeps (env : Env) (c : Conn) : Keeps c (connect env c) := by
  obtain ⟨st, snd⟩ := c
  cases st with
  | unconnected =>
    simp only [connect]
    split
    · exact keeps_panic _ _
    · exact tickAction_keeps env _ _
  | token a => exact keeps_panic _ _
  | pendingConnect a => exact keeps_panic _ _
  | connecting a b => exact keeps_panic _ _
  | pending a b => exact keeps_panic _ _
  | online a b o => exact keeps_panic _ _
  | disconnected => exact keeps_panic _ _

theorem disconnect_keeps (env : Env) (c : Conn) (r : Bytes) : Keeps c (disconnect env c r) := by
  obtain ⟨st, snd⟩ := c
  have key : ∀ st' : State, Keeps ⟨st, snd⟩
      (if r.any (· == 0) = true then .error (.panic "disconnect: reason must not contain NULs")
       else match sendControl st' (.close r) with
        | .error e => .error e
        | .ok ps => .ok (⟨.disconnected, snd⟩, { sent := ps })) := by
    intro st'
    split
    · exact keeps_panic _ _
    · cases hx : sendControl st' (.close r) with
      | error e => exact keeps_error _ (nohang_err (sendControl_nohang _ _) hx)
      | ok ps => exact keeps_ok_armed _ _ (by simp [Armed])
  cases st with
  | disconnected => exact keeps_panic _ _
  | unconnected => exact key _
  | token a => exact key _
  | pendingConnect a => exact key _
  | connecting a b => exact key _
  | pending a b => exact key _
  | online a b o => exact key _

theorem flush_keeps (env : Env) (c : Conn) : Keeps c (flush env c) := by
  obtain ⟨st, snd⟩ := c
  cases st with
  | online a b o =>
    simp only [flush]
    cases hx : emit (o.flush.2.map (ofFlushed b)) with
    | error e => exact keeps_error _ (nohang_err (emit_nohang _) hx)
    | ok ps => exact keeps_ok_armed _ _ (by simp [Armed, after_active])
  | unconnected => exact keeps_panic _ _
  | token a => exact keeps_panic _ _
  | pendingConnect a => exact keeps_panic _ _
  | connecting a b => exact keeps_panic _ _
  | pending a b => exact keeps_panic _ _
  | disconnected => exact keeps_panic _ _

theorem send_keeps (env : Env) (c : Conn) (d : Bytes) (v : Bool) : Keeps c (step env c (.send d v)) := by
  obtain ⟨st, snd⟩ := c
  cases st with
  | online a b o =>
    simp only [step, send]
    cases hr : o.send cfg env.now d v with
    | error e => exact keeps_error _ (nohang_err (send_nohang _ _ _ _ _) hr)
    | ok r =>
      obtain ⟨o1, res, fl⟩ := r
      simp only
      cases hq : emit (fl.map (ofFlushed b)) with
      | error e => exact keeps_error _ (nohang_err (emit_nohang _) hq)
      | ok ps => exact keeps_ok_of _ _ (by intro ha; simpa [Armed] using ha)
  | unconnected => exact keeps_panic _ _
  | token a => exact keeps_panic _ _
  | pendingConnect a => exact keeps_panic _ _
  | connecting a b => exact keeps_panic _ _
  | pending a b => exact keeps_panic _ _
  | disconnected => exact keeps_panic _ _

theorem sendConnless_keeps (env : Env) (c : Conn) (d : Bytes) : Keeps c (step env c (.sendConnless d)) := by
  obtain ⟨st, snd⟩ := c
  cases st with
  | online a b o =>
    simp only [step, sendConnless]
    by_cases hl : d.length > Tw.Gen.Conn.P7.connlessMax
    · rw [if_pos hl]
      exact keeps_ok_armed _ _ (by simp [Armed, after_active])
    · rw [if_neg hl]
      cases hq : emit [Packet.connless b a d] with
      | error e => exact keeps_error _ (nohang_err (emit_nohang _) hq)
      | ok ps => exact keeps_ok_armed _ _ (by simp [Armed, after_active])
  | unconnected => exact keeps_panic _ _
  | token a => exact keeps_panic _ _
  | pendingConnect a => exact keeps_panic _ _
  | connecting a b => exact keeps_panic _ _
  | pending a b => exact keeps_panic _ _
  | disconnected => exact keeps_panic _ _

theorem resendConn_keeps (env : Env) (c0 : Conn) (own their : Nat) (o : Online) (snd : Timeout)
    (hst : Armed c0 → snd.isActive = true) : Keeps c0 (resendConn env own their o snd) := by
  obtain ⟨h1, h2⟩ := resend_nohang cfg env.now o snd
  simp only [resendConn]
  cases hr : o.resend cfg env.now snd with
  | error e => exact keeps_error _ (nohang_err h1 hr)
  | ok r =>
    obtain ⟨o1, s1, fl⟩ := r
    simp only
    cases hq : emit (fl.map (ofFlushed their)) with
    | error e => exact keeps_error _ (nohang_err (emit_nohang _) hq)
    | ok ps => exact keeps_ok_of _ _ (by intro ha; simpa [Armed] using h2 o1 s1 fl hr (hst ha))

theorem tick_keeps (env : Env) (c : Conn) : Keeps c (tick env c) := by
  obtain ⟨st, snd⟩ := c
  have rest : Keeps ⟨st, snd⟩ (if snd.triggered env.now = true then tickAction env ⟨st, .inactive⟩ else .ok (⟨st, snd⟩, {})) := by
    split
    · exact tickAction_keeps env _ _
    · exact keeps_same _ _
  cases st with
  | online a b o =>
    simp only [tick]
    split
    · exact resendConn_keeps env ⟨.online a b o, snd⟩ a b o snd (by intro h; simpa [Armed] using h)
    · exact rest
  | unconnected => simpa [tick] using rest
  | token a => simpa [tick] using rest
  | pendingConnect a => simpa [tick] using rest
  | connecting a b => simpa [tick] using rest
  | pending a b => simpa [tick] using rest
  | disconnected => simpa [tick] using rest

theorem feedBody_keeps (env : Env) (c : Conn) (p : Packet) : Keeps c (feedBody env c p) := by
  obtain ⟨st, snd⟩ := c
  cases p with
  | connless a b d => exact keeps_same _ _
  | chunks ack tk rr n cs =>
    have key : ∀ (own their : Nat) (o : Online), (Armed ⟨st, snd⟩ → snd.isActive = true) →
        Keeps ⟨st, snd⟩ (match o.receive cfg env.now snd rr cs with
          | .error e => .error e
          | .ok (o1, send1, fl, evs) =>
            match emit (fl.map (ofFlushed their)) with
            | .error e => .error e
            | .ok ps => .ok (⟨.online own their o1, send1⟩, { sent := ps, events := evs })) := by
      intro own their o hst
      obtain ⟨h1, h2⟩ := receive_nohang cfg env.now o snd rr cs
      cases hr : o.receive cfg env.now snd rr cs with
      | error e => exact keeps_error _ (nohang_err h1 hr)
      | ok r =>
        obtain ⟨o1, s1, fl, evs⟩ := r
        simp only
        cases hq : emit (fl.map (ofFlushed their)) with
        | error e => exact keeps_error _ (nohang_err (emit_nohang _) hq)
        | ok ps => exact keeps_ok_of _ _ (by intro ha; simpa [Armed] using h2 o1 s1 fl evs hr (hst ha))
    cases st with
    | online a b o => exact key a b o (by intro h; simpa [Armed] using h)
    | pending a b => exact key a b .new (by intro h; simpa [Armed] using h)
    | unconnected => exact keeps_same _ _
    | token a => exact keeps_same _ _
    | pendingConnect a => exact keeps_same _ _
    | connecting a b => exact keeps_same _ _
    | disconnected => exact keeps_same _ _
  | control ack tk ctl =>
    cases ctl with
    | keepAlive => exact keeps_same _ _
    | close r => exact keeps_ok_armed _ _ (by simp [Armed])
    | accept =>
      cases st with
      | connecting a b => exact keeps_ok_of _ _ (by intro ha; simpa [Armed] using ha)
      | online a b o => exact keeps_same _ _
      | pending a b => exact keeps_same _ _
      | unconnected => exact keeps_same _ _
      | token a => exact keeps_same _ _
      | pendingConnect a => exact keeps_same _ _
      | disconnected => exact keeps_same _ _
    | connect their =>
      cases st with
      | pendingConnect a => simp only [feedBody]; exact tickAction_keeps env _ _
      | online a b o => exact keeps_same _ _
      | pending a b => exact keeps_same _ _
      | unconnected => exact keeps_same _ _
      | token a => exact keeps_same _ _
      | connecting a b => exact keeps_same _ _
      | disconnected => exact keeps_same _ _
    | token their =>
      cases st with
      | unconnected =>
        simp only [feedBody]
        cases hd : tokenRandom env.draws with
        | none => exact keeps_panic _ _
        | some t =>
          simp only
          cases hx : sendControlWith (.pendingConnect t) (.token t) their with
          | error e => exact keeps_error _ (nohang_err (sendControlWith_nohang _ _ _) hx)
          | ok ps => exact keeps_ok_armed _ _ (by simp [Armed])
      | pendingConnect a =>
        simp only [feedBody]
        cases hx : sendControlWith (.pendingConnect a) (.token a) their with
        | error e => exact keeps_error _ (nohang_err (sendControlWith_nohang _ _ _) hx)
        | ok ps => exact keeps_ok_armed _ _ (by simp [Armed])
      | token a => simp only [feedBody]; exact tickAction_keeps env _ _
      | online a b o => exact keeps_same _ _
      | pending a b => exact keeps_same _ _
      | connecting a b => exact keeps_same _ _
      | disconnected => exact keeps_same _ _

theorem keeps_of_state_eq {c c1 : Conn} {r : Res} (h : Keeps c1 r) (h2 : Armed c → Armed c1) : Keeps c r :=
  ⟨h.1, fun c' out he ha => h.2 c' out he (h2 ha)⟩

theorem feed_keeps (env : Env) (c : Conn) (rd : Option Packet) : Keeps c (feed env c rd) := by
  have body : ∀ (p : Packet) (ack : Nat), Keeps c
      (match c.state with
        | .online own their o =>
          match o.feedAck ack with
          | .error e => .error e
          | .ok o1 => feedBody env { c with state := .online own their o1 } p
        | _ => feedBody env c p) := by
    intro p ack
    obtain ⟨st, snd⟩ := c
    cases st with
    | online a b o =>
      simp only
      cases he : o.feedAck ack with
      | error e => exact keeps_error _ (nohang_err (feedAck_nohang _ _) he)
      | ok o1 =>
        exact keeps_of_state_eq (feedBody_keeps env ⟨.online a b o1, snd⟩ p) (by intro h; simpa [Armed] using h)
    | unconnected => exact feedBody_keeps env _ p
    | token a => exact feedBody_keeps env _ p
    | pendingConnect a => exact feedBody_keeps env _ p
    | connecting a b => exact feedBody_keeps env _ p
    | pending a b => exact feedBody_keeps env _ p
    | disconnected => exact feedBody_keeps env _ p
  cases rd with
  | none => exact keeps_same _ _
  | some p =>
    cases p with
    | connless a b d =>
      simp only [feed]
      split
      · exact keeps_same _ _
      · split
        · exact keeps_same _ _
        · exact keeps_same _ _
    | control ack tk ctl =>
      simp only [feed]
      split
      · exact keeps_same _ _
      · exact body _ ack
    | chunks ack tk rr n cs =>
      simp only [feed]
      split
      · exact keeps_same _ _
      · exact body _ ack

theorem step_keeps (env : Env) (c : Conn) (op : Op) : Keeps c (step env c op) := by
  cases op with
  | connect => exact connect_keeps env c
  | disconnect r => exact disconnect_keeps env c r
  | flush => exact flush_keeps env c
  | send d v => exact send_keeps env c d v
  | sendConnless d => exact sendConnless_keeps env c d
  | tick => exact tick_keeps env c
  | feed rd => exact feed_keeps env c rd

theorem run_keeps : ∀ (sched : List (Env × Op)) (c : Conn), Armed c →
    NoHang (run c sched) ∧ ∀ c' outs, run c sched = .ok (c', outs) → Armed c' := by
  intro sched
  induction sched with
  | nil =>
    intro c ha
    refine ⟨by simp [NoHang, run], ?_⟩
    intro c' outs h; simp [run] at h; rw [← h.1]; exact ha
  | cons eo rest ih =>
    intro c ha
    obtain ⟨env, op⟩ := eo
    obtain ⟨h1, h2⟩ := step_keeps env c op
    simp only [run]
    cases hs : step env c op with
    | error e =>
      refine ⟨?_, by intro _ _ h; cases h⟩
      have := nohang_err h1 hs
      unfold NoHang; intro h; injection h with h; exact this h
    | ok r =>
      obtain ⟨c1, out⟩ := r
      obtain ⟨h3, h4⟩ := ih c1 (h2 c1 out hs ha)
      simp only
      cases hr : run c1 rest with
      | error e =>
        refine ⟨?_, by intro _ _ h; cases h⟩
        have := nohang_err h3 hr
        unfold NoHang; intro h; injection h with h; exact this h
      | ok r2 =>
        obtain ⟨c2, outs⟩ := r2
        refine ⟨by simp [NoHang], ?_⟩
        intro c' outs' h
        injection h with h; injection h with h _; rw [← h]
        exact h4 c2 outs hr

theorem min_active_ne (x : Nat) (t : Timeout) : Timeout.min (.active x) t ≠ .inactive := by
  cases t with
  | inactive => simp [Timeout.min, Timeout.le]
  | active y =>
    simp only [Timeout.min, Timeout.le]
    by_cases h : x ≤ y <;> simp [h]

/-- the states in which the 0.7 code arms a timer -/
def State.armedKind : State → Bool
  | .token _ | .connecting _ _ | .pending _ _ | .online _ _ _ => true
  | _ => false

theorem armed_needsTick {c : Conn} (h : Armed c) (hn : c.state.armedKind = true) : c.needsTick ≠ .inactive := by
  obtain ⟨st, snd⟩ := c
  cases st with
  | unconnected => simp [State.armedKind] at hn
  | disconnected => simp [State.armedKind] at hn
  | pendingConnect a => simp [State.armedKind] at hn
  | token a =>
    simp only [Armed] at h
    cases snd with
    | inactive => simp [Timeout.isActive] at h
    | active x => exact min_active_ne x _
  | connecting a b =>
    simp only [Armed] at h
    cases snd with
    | inactive => simp [Timeout.isActive] at h
    | active x => exact min_active_ne x _
  | pending a b =>
    simp only [Armed] at h
    cases snd with
    | inactive => simp [Timeout.isActive] at h
    | active x => exact min_active_ne x _
  | online a b o =>
    simp only [Armed] at h
    cases snd with
    | inactive => simp [Timeout.isActive] at h
    | active x => exact min_active_ne x _

end Tw.Conn7
