import Tw.Model.Packet7
import Tw.Proofs.Packet7Read

/-! Writer of protocol7.rs (0.7) in closed form and the write → read round trip for every valid packet,
whichever branch (compressed / plain) the writer takes. -/
set_option linter.unusedSimpArgs false

namespace Tw.Packet7
open Tw.Packet Tw.PacketBits

/-- C05's `Valid` for 0.7 packets -/
def Valid : Packet → Prop
  | .connless payload _ _ => payload.length ≤ Tw.Gen.Packet7.CONNLESS_WRITE_LIMIT
  | .connected ack _ (.chunks _ nc payload) =>
    ack < 1024 ∧ nc < 256 ∧ payload.length ≤ Tw.Gen.Packet7.READ_PAYLOAD_LIMIT
  | .connected ack _ (.control (.close r)) =>
    ack < 1024 ∧ r.length ≤ Tw.Gen.Packet7.CTRLMSG_CLOSE_REASON_LENGTH ∧ (∀ b ∈ r, b ≠ 0)
  | .connected ack _ (.control (.connect rt)) => ack < 1024 ∧ rt ≠ tokenNone
  | .connected ack _ (.control (.token rt)) => ack < 1024 ∧ rt ≠ tokenNone
  | .connected ack _ (.control _) => ack < 1024

def expectedWarnings : Packet → List Warning
  | .connected _ _ (.chunks false 0 _) => [.chunksNoChunks]
  | _ => []

def HuffmanRoundTrip (t : Huffman.Table) : Prop :=
  ∀ (xs : List UInt8) (cap : Nat), xs.length ≤ cap →
    Huffman.decompress t (Huffman.compress t false xs) cap = .ok xs

theorem nulPos_append_zero (r : List UInt8) (h : ∀ b ∈ r, b ≠ 0) (rest : List UInt8) :
    nulPos (r ++ 0 :: rest) = r.length := by
  induction r with
  | nil => simp [nulPos]
  | cons b bs ih =>
    have hb : b ≠ 0 := h b (by simp)
    simp only [List.cons_append, nulPos, hb, if_false, List.length_cons]
    rw [ih (fun x hx => h x (by simp [hx]))]

theorem toNat_ofNat_lt (x : Nat) (h : x < 256) : (UInt8.ofNat x).toNat = x := by
  rw [UInt8.toNat_ofNat']
  exact Nat.mod_eq_of_lt h

theorem tok4_toList (tk : Token) (rest : List UInt8) : tok4 (tk.toList ++ rest) = tk := rfl

theorem ph_unpack_packed (h : PacketHeader) (hf : h.flags < 16) (ha : h.ack < 1024) :
    PacketHeader.unpackWarn (h.flags * 4 + h.ack / 256) (h.ack % 256) h.numChunks h.token = (h, []) := by
  obtain ⟨b0, b1, b2, hp, _, _, hu⟩ := ph_unpack_pack h hf ha
  rw [ph_pack_eq h hf ha] at hp
  simp only [Option.some.injEq, Prod.mk.injEq] at hp
  obtain ⟨rfl, rfl, rfl⟩ := hp
  exact hu

/-- `headerOf` of what the writers put in front -/
theorem headerOf_written (h : PacketHeader) (hf : h.flags < 16) (ha : h.ack < 1024) (hn : h.numChunks < 256)
    (body : List UInt8) :
    headerOf (hdrBytes (h.flags * 4 + h.ack / 256, h.ack % 256, h.numChunks) h.token ++ body) = (h, []) := by
  show PacketHeader.unpackWarn (UInt8.ofNat (h.flags * 4 + h.ack / 256)).toNat (UInt8.ofNat (h.ack % 256)).toNat
    (UInt8.ofNat h.numChunks).toNat h.token = _
  rw [toNat_ofNat_lt _ (by omega), toNat_ofNat_lt _ (by omega), toNat_ofNat_lt _ hn, ph_unpack_packed h hf ha]

/-- `read` on a datagram of at least seven bytes that is not too long, with a sufficient buffer -/
theorem read_long (t : Huffman.Table) (bytes : List UInt8) (scap : Nat)
    (hs : Tw.Gen.Packet7.MAX_PACKETSIZE ≤ scap) (hlen : bytes.length ≤ Tw.Gen.Packet7.MAX_PACKETSIZE)
    (h7 : Tw.Gen.Packet7.HEADER_SIZE ≤ bytes.length) :
    read t bytes (some scap) =
      if (headerOf bytes).1.flags &&& Tw.Gen.Packet7.PACKETFLAG_CONNLESS ≠ 0 then
        .lift (readConnless bytes (headerOf bytes).2)
      else if (headerOf bytes).1.flags &&& Tw.Gen.Packet7.PACKETFLAG_COMPRESSION ≠ 0 then
        match decompress t bytes scap with
        | .ok s =>
          if s.length < Tw.Gen.Packet7.HEADER_SIZE then .panic "ref_and_rest_from(decompressed).unwrap()"
          else .lift (readBody (headerOf bytes).1 (headerOf bytes).2 (s.drop Tw.Gen.Packet7.HEADER_SIZE) .scratch s
                  bytes.length)
        | .capacity => .err .compression (headerOf bytes).2
        | .panic site => .panic site
        | .diverge => .diverge
      else .lift (readBody (headerOf bytes).1 (headerOf bytes).2 (bytes.drop Tw.Gen.Packet7.HEADER_SIZE) .input []
              bytes.length) := by
  unfold read
  have h1 : ¬ scap < Tw.Gen.Packet7.MAX_PACKETSIZE := by omega
  have h2 : ¬ bytes.length > Tw.Gen.Packet7.MAX_PACKETSIZE := by omega
  have h3 : ¬ bytes.length < Tw.Gen.Packet7.HEADER_SIZE := by omega
  simp only [h1, decide_false, Bool.false_eq_true, if_false, h2, h3]
  rfl

theorem write_connless_eq (t : Huffman.Table) (payload : List UInt8) (tok rt : Token) (cap : Nat)
    (hv : payload.length ≤ Tw.Gen.Packet7.CONNLESS_WRITE_LIMIT) (hcap : 9 + payload.length ≤ cap) :
    write t (.connless payload tok rt) cap = .ok ([33] ++ tok.toList ++ rt.toList ++ payload) := by
  show writeConnless payload tok rt cap = _
  unfold writeConnless
  have h1 : ¬ payload.length > Tw.Gen.Packet7.CONNLESS_WRITE_LIMIT := by omega
  rw [if_neg h1, phc_pack_eq ⟨_, _, _, _⟩ (by simp only; decide) (by simp only; decide)]
  simp only
  rw [bufWrite_of_le (by simp [Token.toList]; omega)]
  simp only [List.nil_append]
  rw [bufWrite_of_le (by simp [Token.toList]; omega)]
  rfl

theorem read_connless_eq (t : Huffman.Table) (payload : List UInt8) (tok rt : Token) (scap : Nat)
    (hs : Tw.Gen.Packet7.MAX_PACKETSIZE ≤ scap) (hlen : payload.length ≤ 1391) :
    read t ([33] ++ tok.toList ++ rt.toList ++ payload) (some scap) =
      .ok { pkt := .connless payload tok rt, warns := [], loc := some { src := .input, off := 9 }, scratch := [] } := by
  have hM : Tw.Gen.Packet7.MAX_PACKETSIZE = 1400 := by decide
  rw [read_long t _ scap hs (by simp [Token.toList]; omega) (by simp [Token.toList, Tw.Gen.Packet7.HEADER_SIZE])]
  have e : headerOf ([33] ++ tok.toList ++ rt.toList ++ payload) = (⟨8, 256 + tok.b0.toNat, tok.b1.toNat, ⟨tok.b2, tok.b3, rt.b0, rt.b1⟩⟩, []) := by
    show PacketHeader.unpackWarn (33 : UInt8).toNat tok.b0.toNat tok.b1.toNat ⟨tok.b2, tok.b3, rt.b0, rt.b1⟩ = _
    rw [ph_unpack_eq _ _ _ _ (UInt8.toNat_lt _)]
    rfl
  rw [e]
  have h3 : (8 : Nat) &&& Tw.Gen.Packet7.PACKETFLAG_CONNLESS ≠ 0 := by decide
  rw [if_pos h3]
  unfold readConnless
  have h4 : ¬ ([33] ++ tok.toList ++ rt.toList ++ payload).length < Tw.Gen.Packet7.HEADER_SIZE_CONNLESS := by
    simp [Token.toList, Tw.Gen.Packet7.HEADER_SIZE_CONNLESS]
  rw [if_neg h4]
  have e2 : PacketHeaderConnless.unpackWarn (([33] ++ tok.toList ++ rt.toList ++ payload).getD 0 0).toNat
      (tok4 (([33] ++ tok.toList ++ rt.toList ++ payload).drop 1))
      (tok4 (([33] ++ tok.toList ++ rt.toList ++ payload).drop 5)) = (⟨8, 1, tok, rt⟩, []) := by
    show PacketHeaderConnless.unpackWarn (33 : UInt8).toNat tok rt = _
    rw [phc_unpack_eq]
    rfl
  rw [e2]
  simp [ReadResult.lift, Tw.Gen.Packet7.CONNLESS_VERSION, Tw.Gen.Packet7.PACKETFLAG_COMPRESSION,
    Tw.Gen.Packet7.PACKETFLAG_REQUEST_RESEND, Tw.Gen.Packet7.PACKETFLAG_CONTROL,
    Tw.Gen.Packet7.HEADER_SIZE_CONNLESS, Token.toList]

/-- discharge one `bufWrite` whose result fits (lengths by `simp`, bound by `omega`) -/
macro "bw7" : tactic => `(tactic| rw [bufWrite_of_le (by
  simp only [hdrBytes, Token.toList, List.length_append, List.length_cons, List.length_nil, List.nil_append,
    List.length_replicate] <;> omega)])

/-- the bytes `ControlPacket::write` puts after the header -/
def ctrlBody (c : Control) (tok : Token) : List UInt8 :=
  UInt8.ofNat c.magic ::
    (match c with
     | .connect rt => rt.toList
     | .close m => m ++ [0]
     | .token rt => rt.toList ++ (if tok = tokenNone then List.replicate TOKEN_REQUEST_PADDING 0 else [])
     | _ => [])

def ctrlLoc (c : Control) (src : Src) (off : Nat) : Option Loc :=
  match c with
  | .close _ => some { src := src, off := off + 1 }
  | _ => none

/-- validity of a control message (what `ControlPacket::write` asserts, plus the reason limit) -/
def ValidControl : Control → Prop
  | .close m => m.length ≤ Tw.Gen.Packet7.CTRLMSG_CLOSE_REASON_LENGTH ∧ ∀ b ∈ m, b ≠ 0
  | .connect rt => rt ≠ tokenNone
  | .token rt => rt ≠ tokenNone
  | _ => True

theorem any_zero_false (m : List UInt8) (h : ∀ b ∈ m, b ≠ 0) : (m.any fun x => decide (x = 0)) = false := by
  simp only [List.any_eq_false, decide_eq_true_eq]
  exact h

theorem ctrlBody_length_le (c : Control) (tok : Token) (hv : ValidControl c) : (ctrlBody c tok).length ≤ 512 := by
  have hp : TOKEN_REQUEST_PADDING = 507 := by decide
  cases c with
  | close m =>
    have := hv.1
    simp only [Tw.Gen.Packet7.CTRLMSG_CLOSE_REASON_LENGTH] at this
    simp only [ctrlBody, List.length_cons, List.length_append, List.length_nil]; omega
  | token rt =>
    simp only [ctrlBody, List.length_cons, List.length_append, Token.toList, List.length_nil]
    split <;> simp only [List.length_replicate, List.length_nil] <;> omega
  | _ => simp [ctrlBody, Token.toList]

theorem writeControl_eq (c : Control) (tok : Token) (ack cap : Nat) (ha : ack < 1024) (hv : ValidControl c)
    (hcap : Tw.Gen.Packet7.MAX_PACKETSIZE ≤ cap) :
    writeControl c tok ack cap = .ok (hdrBytes (4 + ack / 256, ack % 256, 0) tok ++ ctrlBody c tok) := by
  have hM : Tw.Gen.Packet7.MAX_PACKETSIZE = 1400 := by decide
  have hp : TOKEN_REQUEST_PADDING = 507 := by decide
  have hlen := ctrlBody_length_le c tok hv
  unfold writeControl
  rw [ph_pack_eq ⟨_, _, _, _⟩ (by show Tw.Gen.Packet7.PACKETFLAG_CONTROL < 16; decide) ha]
  simp only [Tw.Gen.Packet7.PACKETFLAG_CONTROL, Nat.one_mul]
  bw7
  simp only [List.nil_append]
  bw7
  cases c with
  | keepAlive => simp [ctrlBody, hdrBytes, Token.toList, hM]
  | accept => simp [ctrlBody, hdrBytes, Token.toList, hM]
  | connect rt =>
    have hrt : rt ≠ tokenNone := hv
    simp only [hrt, if_false]
    bw7
    simp [ctrlBody, hdrBytes, Token.toList, hM]
  | close m =>
    have hm := any_zero_false m hv.2
    simp only [ctrlBody, List.length_cons, List.length_append, List.length_nil] at hlen
    simp only [hm, Bool.false_eq_true, if_false]
    bw7
    simp only
    bw7
    simp only [hdrBytes, Token.toList, List.length_append, List.length_cons, List.length_nil, hM, ctrlBody,
      List.append_assoc, List.cons_append, List.nil_append]
    rw [if_pos (by omega)]
  | token rt =>
    have hrt : rt ≠ tokenNone := hv
    simp only [hrt, if_false]
    bw7
    simp only
    by_cases htk : tok = tokenNone
    · simp only [htk, if_true]
      bw7
      simp only [hdrBytes, Token.toList, List.length_append, List.length_cons, List.length_nil, hM, ctrlBody,
        List.cons_append, List.nil_append, List.length_replicate, if_true, List.append_assoc]
      rw [if_pos (by omega)]
    · simp only [htk, if_false]
      simp only [hdrBytes, Token.toList, List.length_append, List.length_cons, List.length_nil, hM, ctrlBody,
        List.cons_append, List.nil_append, if_false, htk, List.append_nil, List.append_assoc]
      rw [if_pos (by omega)]

theorem readControl_ctrlBody (ack : Nat) (c : Control) (tok : Token) (src : Src) (off : Nat)
    (hv : ValidControl c) :
    readControl ⟨Tw.Gen.Packet7.PACKETFLAG_CONTROL, ack, 0, tok⟩ (ctrlBody c tok) src off
        (7 + (ctrlBody c tok).length) = ([], .ok (c, ctrlLoc c src off)) := by
  have hp : TOKEN_REQUEST_PADDING = 507 := by decide
  unfold readControl
  cases c with
  | close m =>
    obtain ⟨hl, hz⟩ := hv
    have hn : nulPos (m ++ [0]) = m.length := nulPos_append_zero m hz []
    have hmin : min m.length Tw.Gen.Packet7.CTRLMSG_CLOSE_REASON_LENGTH = m.length := Nat.min_eq_left hl
    simp [ctrlBody, Control.magic, ctrlLoc, hn, hmin, Tw.Gen.Packet7.CTRLMSG_CLOSE, Tw.Gen.Packet7.CTRLMSG_CONNECT,
      Tw.Gen.Packet7.CTRLMSG_KEEPALIVE, Tw.Gen.Packet7.CTRLMSG_ACCEPT, Tw.Gen.Packet7.CTRLMSG_TOKEN,
      Tw.Gen.Packet7.PACKETFLAG_CONTROL, Tw.Gen.Packet7.PACKETFLAG_COMPRESSION,
      Tw.Gen.Packet7.PACKETFLAG_REQUEST_RESEND]
  | connect rt =>
    have hrt : rt ≠ tokenNone := hv
    simp [ctrlBody, Control.magic, ctrlLoc, Tw.Gen.Packet7.CTRLMSG_CLOSE, Tw.Gen.Packet7.CTRLMSG_CONNECT,
      Tw.Gen.Packet7.CTRLMSG_KEEPALIVE, Tw.Gen.Packet7.CTRLMSG_ACCEPT, Tw.Gen.Packet7.CTRLMSG_TOKEN,
      Tw.Gen.Packet7.PACKETFLAG_CONTROL, Tw.Gen.Packet7.PACKETFLAG_COMPRESSION,
      Tw.Gen.Packet7.PACKETFLAG_REQUEST_RESEND, Token.toList, tok4, hrt]
  | token rt =>
    have hrt : rt ≠ tokenNone := hv
    have e : tok4 (rt.toList ++ (if tok = tokenNone then List.replicate TOKEN_REQUEST_PADDING 0 else [])) = rt :=
      tok4_toList rt _
    have hT : Tw.Gen.Packet7.TOKEN_REQUEST_PACKET_SIZE = 519 := by decide
    by_cases htk : tok = tokenNone
    · have hlen : ¬ (7 + (ctrlBody (.token rt) tok).length < Tw.Gen.Packet7.TOKEN_REQUEST_PACKET_SIZE) := by
        simp only [ctrlBody, htk, if_true, List.length_cons, List.length_append, Token.toList, List.length_nil,
          List.length_replicate]
        omega
      simp only [ctrlBody, Control.magic, ctrlLoc] at hlen ⊢
      simp only [toNat_ofNat_lt _ (by decide : Tw.Gen.Packet7.CTRLMSG_TOKEN < 256)]
      simp only [Tw.Gen.Packet7.CTRLMSG_CLOSE, Tw.Gen.Packet7.CTRLMSG_CONNECT,
        Tw.Gen.Packet7.CTRLMSG_KEEPALIVE, Tw.Gen.Packet7.CTRLMSG_ACCEPT, Tw.Gen.Packet7.CTRLMSG_TOKEN,
        Tw.Gen.Packet7.PACKETFLAG_CONTROL, Tw.Gen.Packet7.PACKETFLAG_COMPRESSION,
        Tw.Gen.Packet7.PACKETFLAG_REQUEST_RESEND] at hlen ⊢
      simp only [e, hrt, htk, hlen, if_true, if_false, and_false, and_true, not_true_eq_false, ne_eq,
        List.length_append, List.length_replicate, Token.toList, List.length_cons, List.length_nil,
        Nat.reduceAdd, Nat.reduceLT, Nat.reduceEqDiff, reduceCtorEq, false_and, List.append_nil,
        Nat.not_lt_zero, Nat.reduceAnd, or_self]
      have e2 : ∀ l : List UInt8, tok4 ([rt.b0, rt.b1, rt.b2, rt.b3] ++ l) = rt := fun _ => rfl
      have e4 : ∀ l : List UInt8, tok4 (rt.b0 :: rt.b1 :: rt.b2 :: rt.b3 :: l) = rt := fun _ => rfl
      simp [-List.reduceReplicate, e2, e4, hT, hrt, hp]
    · simp only [ctrlBody, Control.magic, ctrlLoc]
      simp only [toNat_ofNat_lt _ (by decide : Tw.Gen.Packet7.CTRLMSG_TOKEN < 256)]
      simp only [Tw.Gen.Packet7.CTRLMSG_CLOSE, Tw.Gen.Packet7.CTRLMSG_CONNECT,
        Tw.Gen.Packet7.CTRLMSG_KEEPALIVE, Tw.Gen.Packet7.CTRLMSG_ACCEPT, Tw.Gen.Packet7.CTRLMSG_TOKEN,
        Tw.Gen.Packet7.PACKETFLAG_CONTROL, Tw.Gen.Packet7.PACKETFLAG_COMPRESSION,
        Tw.Gen.Packet7.PACKETFLAG_REQUEST_RESEND]
      have e2 : ∀ l : List UInt8, tok4 ([rt.b0, rt.b1, rt.b2, rt.b3] ++ l) = rt := fun _ => rfl
      have e3 : tok4 [rt.b0, rt.b1, rt.b2, rt.b3] = rt := rfl
      simp [e, e2, e3, hrt, htk, Token.toList]
  | _ =>
    simp [ctrlBody, Control.magic, ctrlLoc, Tw.Gen.Packet7.CTRLMSG_CLOSE, Tw.Gen.Packet7.CTRLMSG_CONNECT,
      Tw.Gen.Packet7.CTRLMSG_KEEPALIVE, Tw.Gen.Packet7.CTRLMSG_ACCEPT, Tw.Gen.Packet7.CTRLMSG_TOKEN,
      Tw.Gen.Packet7.PACKETFLAG_CONTROL, Tw.Gen.Packet7.PACKETFLAG_COMPRESSION,
      Tw.Gen.Packet7.PACKETFLAG_REQUEST_RESEND]

theorem hdrBytes_append_length (x : Nat × Nat × Nat) (tok : Token) (body : List UInt8) :
    (hdrBytes x tok ++ body).length = body.length + 7 := by
  simp [hdrBytes, Token.toList]

/-- reading what `write` produced for a connected packet: the header is recovered without warning -/
theorem read_written (t : Huffman.Table) (h : PacketHeader) (hf : h.flags < 16) (ha : h.ack < 1024)
    (hn : h.numChunks < 256) (hc : h.flags &&& Tw.Gen.Packet7.PACKETFLAG_CONNLESS = 0)
    (body : List UInt8) (scap : Nat) (hs : Tw.Gen.Packet7.MAX_PACKETSIZE ≤ scap)
    (hlen : body.length + 7 ≤ Tw.Gen.Packet7.MAX_PACKETSIZE) :
    read t (hdrBytes (h.flags * 4 + h.ack / 256, h.ack % 256, h.numChunks) h.token ++ body) (some scap) =
      if h.flags &&& Tw.Gen.Packet7.PACKETFLAG_COMPRESSION ≠ 0 then
        match decompress t (hdrBytes (h.flags * 4 + h.ack / 256, h.ack % 256, h.numChunks) h.token ++ body) scap with
        | .ok s =>
          if s.length < Tw.Gen.Packet7.HEADER_SIZE then .panic "ref_and_rest_from(decompressed).unwrap()"
          else .lift (readBody h [] (s.drop Tw.Gen.Packet7.HEADER_SIZE) .scratch s (body.length + 7))
        | .capacity => .err .compression []
        | .panic site => .panic site
        | .diverge => .diverge
      else .lift (readBody h [] body .input [] (body.length + 7)) := by
  have hH : Tw.Gen.Packet7.HEADER_SIZE = 7 := by decide
  rw [read_long t _ scap hs (by rw [hdrBytes_append_length]; exact hlen) (by rw [hdrBytes_append_length, hH]; omega)]
  rw [headerOf_written h hf ha hn body, hdrBytes_append_length]
  have hc' : ¬ (h.flags &&& Tw.Gen.Packet7.PACKETFLAG_CONNLESS ≠ 0) := by simp [hc]
  rw [if_neg hc']
  rfl

theorem v7_control_roundtrip (t : Huffman.Table) (ack : Nat) (tok : Token) (c : Control)
    (ha : ack < 1024) (hv : ValidControl c)
    (cap scap : Nat) (hcap : Tw.Gen.Packet7.MAX_PACKETSIZE ≤ cap) (hs : Tw.Gen.Packet7.MAX_PACKETSIZE ≤ scap) :
    ∃ bs, write t (.connected ack tok (.control c)) cap = .ok bs ∧ bs.length ≤ Tw.Gen.Packet7.MAX_PACKETSIZE ∧
      read t bs (some scap) =
        .ok { pkt := .connected ack tok (.control c), warns := [], loc := ctrlLoc c .input 7, scratch := [] } := by
  have hlen := ctrlBody_length_le c tok hv
  have hM : Tw.Gen.Packet7.MAX_PACKETSIZE = 1400 := by decide
  have hL : Tw.Gen.Packet7.READ_PAYLOAD_LIMIT = 1393 := by decide
  refine ⟨hdrBytes (4 + ack / 256, ack % 256, 0) tok ++ ctrlBody c tok, ?_, ?_, ?_⟩
  · show writeControl c tok ack cap = _
    exact writeControl_eq c tok ack cap ha hv hcap
  · rw [hdrBytes_append_length]; omega
  · have e : (4 + ack / 256, ack % 256, 0) =
        ((⟨Tw.Gen.Packet7.PACKETFLAG_CONTROL, ack, 0, tok⟩ : PacketHeader).flags * 4 + ack / 256, ack % 256, (0 : Nat)) := by
      simp [Tw.Gen.Packet7.PACKETFLAG_CONTROL]
    rw [e]
    rw [read_written t ⟨Tw.Gen.Packet7.PACKETFLAG_CONTROL, ack, 0, tok⟩ (by simp only; decide) ha
      (by simp only; decide) (by simp only; decide) _ scap hs (by omega)]
    have h8 : ¬ ((⟨Tw.Gen.Packet7.PACKETFLAG_CONTROL, ack, 0, tok⟩ : PacketHeader).flags &&&
        Tw.Gen.Packet7.PACKETFLAG_COMPRESSION ≠ 0) := by simp only; decide
    rw [if_neg h8]
    unfold readBody
    have hl : ¬ (ctrlBody c tok).length > Tw.Gen.Packet7.READ_PAYLOAD_LIMIT := by omega
    have h1 : (⟨Tw.Gen.Packet7.PACKETFLAG_CONTROL, ack, 0, tok⟩ : PacketHeader).flags &&&
        Tw.Gen.Packet7.PACKETFLAG_CONTROL ≠ 0 := by simp only; decide
    rw [if_neg hl, if_pos h1, Nat.add_comm, readControl_ctrlBody ack c tok .input _ hv]
    rfl

/-- does `write_impl` choose the compressed form for the payload `p`? -/
def useComp (t : Huffman.Table) (p : List UInt8) : Bool :=
  decide ((Huffman.compress t false p).length < p.length)

def chunkFlags (rr comp : Bool) : Nat :=
  (if rr then Tw.Gen.Packet7.PACKETFLAG_REQUEST_RESEND else 0) |||
    (if comp then Tw.Gen.Packet7.PACKETFLAG_COMPRESSION else 0)

def rrOf (h : PacketHeader) : Bool := h.flags &&& Tw.Gen.Packet7.PACKETFLAG_REQUEST_RESEND ≠ 0

theorem rrOf_chunkFlags (rr comp : Bool) (ack nc : Nat) (tok : Token) :
    rrOf ⟨chunkFlags rr comp, ack, nc, tok⟩ = rr := by
  cases rr <;> cases comp <;>
    (show decide (chunkFlags _ _ &&& Tw.Gen.Packet7.PACKETFLAG_REQUEST_RESEND ≠ 0) = _; decide)

theorem chooseCompression_eq (t : Huffman.Table) (p : List UInt8) (hp : p.length ≤ 2048) :
    chooseCompression t p = if useComp t p then some (Huffman.compress t false p) else none := by
  have hc : COMPRESSION_BUFFER_CAP = 2048 := by decide
  unfold chooseCompression Huffman.compressInto useComp
  simp only [hc]
  by_cases h1 : (Huffman.compress t false p).length ≤ 2048
  · simp only [h1, if_true, decide_eq_true_eq]
  · simp only [h1, if_false]
    have : ¬ (Huffman.compress t false p).length < p.length := by omega
    simp [this]

theorem writeChunks_eq (t : Huffman.Table) (ack : Nat) (tok : Token) (rr : Bool) (nc : Nat)
    (p : List UInt8) (cap : Nat) (ha : ack < 1024)
    (hpl : p.length ≤ Tw.Gen.Packet7.READ_PAYLOAD_LIMIT) (hcap : Tw.Gen.Packet7.MAX_PACKETSIZE ≤ cap) :
    writeChunks t ack tok rr nc p cap =
      .ok (hdrBytes (chunkFlags rr (useComp t p) * 4 + ack / 256, ack % 256, nc) tok ++
            (if useComp t p then Huffman.compress t false p else p)) := by
  have hL : Tw.Gen.Packet7.READ_PAYLOAD_LIMIT = 1393 := by decide
  have hM : Tw.Gen.Packet7.MAX_PACKETSIZE = 1400 := by decide
  unfold writeChunks
  simp only [chooseCompression_eq t p (by omega)]
  have hflags : chunkFlags rr (useComp t p) < 16 := by
    cases rr <;> cases useComp t p <;> decide
  by_cases hc : useComp t p = true
  · have hlt : (Huffman.compress t false p).length < p.length := by simpa [useComp] using hc
    simp only [hc, if_true, Option.isSome_some, Option.getD_some]
    have e : ((if rr = true then Tw.Gen.Packet7.PACKETFLAG_REQUEST_RESEND else 0) |||
        Tw.Gen.Packet7.PACKETFLAG_COMPRESSION) = chunkFlags rr true := by simp [chunkFlags]
    rw [hc] at hflags
    rw [e, ph_pack_eq ⟨chunkFlags rr true, ack, nc, tok⟩ hflags ha]
    simp only
    bw7
    simp only [List.nil_append]
    rw [bufWrite_of_le (by rw [hdrBytes_length]; omega)]
  · simp only [hc, Bool.false_eq_true, if_false, Option.isSome_none, Option.getD_none]
    have hc' : useComp t p = false := by simpa using hc
    have e : ((if rr = true then Tw.Gen.Packet7.PACKETFLAG_REQUEST_RESEND else 0) ||| 0) = chunkFlags rr false := by
      simp [chunkFlags]
    rw [hc'] at hflags
    rw [e, ph_pack_eq ⟨chunkFlags rr false, ack, nc, tok⟩ hflags ha]
    simp only
    bw7
    simp only [List.nil_append]
    rw [bufWrite_of_le (by rw [hdrBytes_length]; omega)]

theorem decompress_written (t : Huffman.Table) (hrt : HuffmanRoundTrip t) (h : PacketHeader)
    (hf : h.flags < 16) (ha : h.ack < 1024) (hn : h.numChunks < 256)
    (hc : h.flags &&& Tw.Gen.Packet7.PACKETFLAG_CONNLESS = 0)
    (hz : h.flags &&& Tw.Gen.Packet7.PACKETFLAG_COMPRESSION ≠ 0)
    (p : List UInt8) (scap : Nat) (hs : Tw.Gen.Packet7.MAX_PACKETSIZE ≤ scap) (hp : p.length + 7 ≤ scap)
    (hlen : (Huffman.compress t false p).length + 7 ≤ Tw.Gen.Packet7.MAX_PACKETSIZE) :
    ∃ fake : List UInt8, fake.length = 7 ∧
      decompress t (hdrBytes (h.flags * 4 + h.ack / 256, h.ack % 256, h.numChunks) h.token ++
        Huffman.compress t false p) scap = .ok (fake ++ p) := by
  have hH : Tw.Gen.Packet7.HEADER_SIZE = 7 := by decide
  refine ⟨fakeHeader (hdrBytes (h.flags * 4 + h.ack / 256, h.ack % 256, h.numChunks) h.token ++
    Huffman.compress t false p), fakeHeader_length _, ?_⟩
  have hu := headerOf_written h hf ha hn (Huffman.compress t false p)
  have hnd := needsDecompression_of (hdrBytes (h.flags * 4 + h.ack / 256, h.ack % 256, h.numChunks) h.token ++
      Huffman.compress t false p)
    (by rw [hdrBytes_append_length]; omega) (by rw [hdrBytes_append_length, hH]; omega)
    (by rw [hu]; simp [hc]) (by rw [hu]; exact hz)
  rw [decompress_eq t _ scap hs hnd]
  have hd : (hdrBytes (h.flags * 4 + h.ack / 256, h.ack % 256, h.numChunks) h.token ++
      Huffman.compress t false p).drop 7 = Huffman.compress t false p := rfl
  rw [hd, hrt p (scap - 7) (by omega)]

theorem readBody_chunks (h : PacketHeader) (p : List UInt8) (src : Src) (scratch : List UInt8) (total : Nat)
    (hp : p.length ≤ Tw.Gen.Packet7.READ_PAYLOAD_LIMIT)
    (h1 : ¬ (h.flags &&& Tw.Gen.Packet7.PACKETFLAG_CONTROL ≠ 0)) :
    readBody h [] p src scratch total =
      .ok { pkt := .connected h.ack h.token (.chunks (rrOf h) h.numChunks p),
            warns := (if h.numChunks = 0 ∧ ¬ rrOf h then [.chunksNoChunks] else []),
            loc := some { src := src, off := Tw.Gen.Packet7.HEADER_SIZE }, scratch := scratch } := by
  unfold readBody
  have hl : ¬ p.length > Tw.Gen.Packet7.READ_PAYLOAD_LIMIT := by omega
  rw [if_neg hl, if_neg h1]
  rfl

theorem v7_chunks_roundtrip (t : Huffman.Table) (hrt : HuffmanRoundTrip t) (ack : Nat) (tok : Token)
    (rr : Bool) (nc : Nat) (p : List UInt8) (ha : ack < 1024) (hn : nc < 256)
    (hpl : p.length ≤ Tw.Gen.Packet7.READ_PAYLOAD_LIMIT)
    (cap scap : Nat) (hcap : Tw.Gen.Packet7.MAX_PACKETSIZE ≤ cap) (hs : Tw.Gen.Packet7.MAX_PACKETSIZE ≤ scap) :
    ∃ bs, write t (.connected ack tok (.chunks rr nc p)) cap = .ok bs ∧
      bs.length ≤ Tw.Gen.Packet7.MAX_PACKETSIZE ∧
      ∃ r, read t bs (some scap) = .ok r ∧
        r.pkt = .connected ack tok (.chunks rr nc p) ∧
        r.warns = expectedWarnings (.connected ack tok (.chunks rr nc p)) ∧
        (r.loc = some { src := .input, off := 7 } ∨ r.loc = some { src := .scratch, off := 7 }) := by
  have hL : Tw.Gen.Packet7.READ_PAYLOAD_LIMIT = 1393 := by decide
  have hM : Tw.Gen.Packet7.MAX_PACKETSIZE = 1400 := by decide
  have hH : Tw.Gen.Packet7.HEADER_SIZE = 7 := by decide
  refine ⟨_, writeChunks_eq t ack tok rr nc p cap ha hpl hcap, ?_, ?_⟩
  · rw [hdrBytes_append_length]
    by_cases hc : useComp t p = true
    · have hlt : (Huffman.compress t false p).length < p.length := by simpa [useComp] using hc
      simp only [hc, if_true]
      omega
    · have hc' : useComp t p = false := by simpa using hc
      simp only [hc', Bool.false_eq_true, if_false]
      omega
  · have hwarn : (if nc = 0 ∧ ¬ rr = true then [Warning.chunksNoChunks] else []) =
        expectedWarnings (.connected ack tok (.chunks rr nc p)) := by
      cases rr <;> cases nc <;> simp [expectedWarnings]
    by_cases hc : useComp t p = true
    · have hlt : (Huffman.compress t false p).length < p.length := by simpa [useComp] using hc
      simp only [hc, if_true]
      have hfl : chunkFlags rr true < 16 := by cases rr <;> decide
      have h2 : chunkFlags rr true &&& Tw.Gen.Packet7.PACKETFLAG_CONNLESS = 0 := by cases rr <;> decide
      have h8 : chunkFlags rr true &&& Tw.Gen.Packet7.PACKETFLAG_COMPRESSION ≠ 0 := by cases rr <;> decide
      have h1 : ¬ (chunkFlags rr true &&& Tw.Gen.Packet7.PACKETFLAG_CONTROL ≠ 0) := by cases rr <;> decide
      have h4 : rrOf ⟨chunkFlags rr true, ack, nc, tok⟩ = rr := rrOf_chunkFlags _ _ _ _ _
      rw [read_written t ⟨chunkFlags rr true, ack, nc, tok⟩ hfl ha hn h2 _ scap hs (by omega)]
      rw [if_pos h8]
      obtain ⟨fake, hfk, hd⟩ := decompress_written t hrt ⟨chunkFlags rr true, ack, nc, tok⟩ hfl ha hn h2 h8
        p scap hs (by omega) (by omega)
      rw [hd]
      simp only
      have hlen3 : ¬ (fake ++ p).length < Tw.Gen.Packet7.HEADER_SIZE := by
        simp only [List.length_append]; omega
      rw [if_neg hlen3, hH, List.drop_left' hfk, readBody_chunks _ _ _ _ _ hpl h1]
      refine ⟨_, rfl, ?_, ?_, Or.inr rfl⟩
      · simp only [h4]
      · simp only [h4]; exact hwarn
    · have hc' : useComp t p = false := by simpa using hc
      simp only [hc', Bool.false_eq_true, if_false]
      have hfl : chunkFlags rr false < 16 := by cases rr <;> decide
      have h2 : chunkFlags rr false &&& Tw.Gen.Packet7.PACKETFLAG_CONNLESS = 0 := by cases rr <;> decide
      have h8 : ¬ (chunkFlags rr false &&& Tw.Gen.Packet7.PACKETFLAG_COMPRESSION ≠ 0) := by cases rr <;> decide
      have h1 : ¬ (chunkFlags rr false &&& Tw.Gen.Packet7.PACKETFLAG_CONTROL ≠ 0) := by cases rr <;> decide
      have h4 : rrOf ⟨chunkFlags rr false, ack, nc, tok⟩ = rr := rrOf_chunkFlags _ _ _ _ _
      rw [read_written t ⟨chunkFlags rr false, ack, nc, tok⟩ hfl ha hn h2 _ scap hs (by omega)]
      rw [if_neg h8, readBody_chunks _ _ _ _ _ hpl h1]
      refine ⟨_, rfl, ?_, ?_, Or.inl rfl⟩
      · simp only [h4]
      · simp only [h4]; exact hwarn

/-- **write → read round trip (0.7)** -/
theorem write_read_roundtrip (t : Huffman.Table) (hrt : HuffmanRoundTrip t) (p : Packet) (hv : Valid p)
    (cap scap : Nat) (hcap : Tw.Gen.Packet7.MAX_PACKETSIZE ≤ cap) (hs : Tw.Gen.Packet7.MAX_PACKETSIZE ≤ scap) :
    ∃ bs, write t p cap = .ok bs ∧ bs.length ≤ Tw.Gen.Packet7.MAX_PACKETSIZE ∧
      ∃ r, read t bs (some scap) = .ok r ∧ r.pkt = p ∧ r.warns = expectedWarnings p := by
  have hM : Tw.Gen.Packet7.MAX_PACKETSIZE = 1400 := by decide
  have hC : Tw.Gen.Packet7.CONNLESS_WRITE_LIMIT = 1391 := by decide
  match p, hv with
  | .connless payload tok rt, hv =>
    simp only [Valid] at hv
    refine ⟨_, write_connless_eq t payload tok rt cap hv (by omega), ?_, _,
      read_connless_eq t payload tok rt scap hs (by omega), rfl, rfl⟩
    simp [Token.toList]; omega
  | .connected ack tok (.chunks rr nc payload), hv =>
    simp only [Valid] at hv
    obtain ⟨ha, hn, hl⟩ := hv
    obtain ⟨bs, hw, hlen, r, hr, hp, hwn, _⟩ :=
      v7_chunks_roundtrip t hrt ack tok rr nc payload ha hn hl cap scap hcap hs
    exact ⟨bs, hw, hlen, r, hr, hp, hwn⟩
  | .connected ack tok (.control c), hv =>
    have ha : ack < 1024 := by cases c <;> simp only [Valid] at hv <;> first | exact hv | exact hv.1
    have hcl : ValidControl c := by
      cases c <;> simp only [Valid] at hv <;> simp only [ValidControl] <;> first | exact hv.2 | trivial
    obtain ⟨bs, hw, hlen, hr⟩ := v7_control_roundtrip t ack tok c ha hcl cap scap hcap hs
    refine ⟨bs, hw, hlen, _, hr, rfl, ?_⟩
    cases c <;> rfl

end Tw.Packet7
