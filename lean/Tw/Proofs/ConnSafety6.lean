import Tw.Proofs.ConnSafetySim
import Tw.Proofs.Conn6

/-!
# C01 for 0.6: every call of `Tw.Conn6` preserves the invariant
-/
namespace Tw.NetSim.P6
open Tw.Conn Tw.Conn6 Tw.Time Tw.NetSim

/-- the online core: fresh until the connection is online, gone once it is disconnected -/
def core (c : Conn) : Option Online :=
  match c.state with
  | .online _ o => some o
  | .disconnected => none
  | _ => some .new

/-- the ack `send_control` puts into a control packet -/
def ackOf : State → Nat
  | .online _ o => o.ack
  | _ => 0

theorem core_ack {st : State} {snd : Timeout} {o : Online} (h : core ⟨st, snd⟩ = some o) : ackOf st = o.ack := by
  cases st <;> simp [core] at h <;> subst h <;> rfl

theorem core_alive {st : State} {snd : Timeout} (h : st ≠ .disconnected) : ∃ o, core ⟨st, snd⟩ = some o := by
  cases st <;> simp [core] at h ⊢

theorem emit_ok {ps ps' : List Packet} (h : emit ps = .ok ps') : ps' = ps := by
  unfold emit at h
  split at h
  · injection h with h; exact h.symm
  · cases h

theorem view_ofFlushed (t : Option Nat) (fl : List Flushed) :
    (fl.map (ofFlushed t)).filterMap view = fl.map fun f => (f.ack, f.chunks) := by
  induction fl with
  | nil => rfl
  | cons f fl ih => simp [ofFlushed, view, ih]

theorem sendControl_ok {st : State} {ctl : Control} {ps : List Packet} (h : sendControl st ctl = .ok ps) :
    st ≠ .disconnected ∧ ∃ tok, ps = [.control (ackOf st) tok ctl] := by
  unfold sendControl at h
  cases st <;> simp only [controlPacket] at h
  all_goals first
    | cases h
    | (have := emit_ok h; subst this; exact ⟨by simp, _, rfl⟩)

variable {tl : Bool} {cfg : Cfg}

abbrev Pr (tl : Bool) : Proto := proto6 tl

/-- the shape of what the 0.6 calls return -/
def ret (c1 : Conn) (out : Out) (acc : Bool) : Ret Conn Packet :=
  { conn := c1, sent := out.sent, events := out.events, accepted := acc }

/-- nothing but control / connless datagrams, no chunk event, the online core untouched or gone -/
theorem quiet6 {e : End (Pr tl)} {c1 : Conn} {out : Out} {acc : Bool} {y : AEnd}
    (h : AInv cfg (absEnd (Pr tl) core e) y)
    (hcore : core c1 = core e.conn ∨ core c1 = none)
    (hsent : ∀ p ∈ out.sent, (∃ d, p = .connless d) ∨
      (e.conn.state ≠ .disconnected ∧ ∃ tok ctl, p = .control (ackOf e.conn.state) tok ctl))
    (hev : ∀ ev ∈ out.events, ∀ d v, ev ≠ .chunk d v) :
    AInv cfg (absEnd (Pr tl) core (e.book (ret c1 out acc) [])) y := by
  refine sim_quiet h hcore ?_ ?_
  · intro v hv
    obtain ⟨p, hp, hpv⟩ := List.mem_filterMap.mp hv
    simp only [ret] at hp
    rcases hsent p hp with ⟨d, rfl⟩ | ⟨hne, tok, ctl, rfl⟩
    · simp [Pr, proto6, view] at hpv
    · simp only [Pr, proto6, view, Option.some.injEq] at hpv
      subst hpv
      obtain ⟨o, ho⟩ := core_alive (snd := e.conn.send) hne
      exact ⟨rfl, o, ho, core_ack ho⟩
  · have key : ∀ evs : List Event, (∀ ev ∈ evs, ∀ d v, ev ≠ .chunk d v) →
        vitalPayloads evs = [] ∧ nonvitalPayloads evs = [] := by
      intro evs
      induction evs with
      | nil => intro _; exact ⟨rfl, rfl⟩
      | cons x xs ih =>
        intro hx
        obtain ⟨a, b⟩ := ih (fun ev hev => hx ev (List.mem_cons_of_mem _ hev))
        cases x with
        | chunk d v => exact absurd rfl (hx _ (by simp) d v)
        | _ => simp [vitalPayloads, nonvitalPayloads, a, b]
    exact key _ hev

theorem core_online {c : Conn} {t : Option Nat} {o : Online} (h : c.state = .online t o) : core c = some o := by
  simp [core, h]

/-- flush / send / resend / the flush of `tick` on an online connection -/
theorem online6 {e : End (Pr tl)} {y : AEnd} (h : AInv cfg (absEnd (Pr tl) core e) y)
    {t : Option Nat} {o o' : Online} (hst : e.conn.state = .online t o) {fl : List Flushed} {ps : List Packet}
    (hem : emit (fl.map (ofFlushed t)) = .ok ps) (sub : List (Bytes × Bool))
    (hok : SendOk cfg o' (e.submittedVital ++ vitalOf sub) (e.submittedNonvital ++ nonvitalOf sub) y.del.length)
    (hfl : FlsOk e.submittedVital e.submittedNonvital o.ack fl) (hack : o'.ack = o.ack)
    (snd' : Timeout) (acc : Bool) :
    AInv cfg (absEnd (Pr tl) core (e.book (ret ⟨.online t o', snd'⟩ { sent := ps } acc) sub)) y := by
  refine sim_send h (core_online hst) (o' := o') rfl fl ?_ ⟨rfl, rfl⟩ sub hok hfl hack
  rw [emit_ok hem]
  exact view_ofFlushed _ _

theorem sendOk_of {e : End (Pr tl)} {y : AEnd} (h : AInv cfg (absEnd (Pr tl) core e) y)
    {t : Option Nat} {o : Online} (hst : e.conn.state = .online t o) :
    SendOk cfg o e.submittedVital e.submittedNonvital y.del.length :=
  h.1.snd o (core_online hst)

theorem tickAction6 {env : Env} {e : End (Pr tl)} {y : AEnd} (h : AInv cfg (absEnd (Pr tl) core e) y)
    {c c' : Conn} {out : Out} (hc : c.state = e.conn.state) (ht : tickAction env c = .ok (c', out)) (acc : Bool) :
    AInv cfg (absEnd (Pr tl) core (e.book (ret c' out acc) [])) y := by
  obtain ⟨st, snd⟩ := c
  simp only at hc
  subst hc
  cases hst : e.conn.state with
  | unconnected =>
    simp only [tickAction, hst] at ht
    injection ht with ht; injection ht with h1 h2; subst h1 h2
    exact quiet6 h (Or.inl (by simp [core, hst])) (by simp) (by simp)
  | disconnected =>
    simp only [tickAction, hst] at ht
    injection ht with ht; injection ht with h1 h2; subst h1 h2
    exact quiet6 h (Or.inl (by simp [core, hst])) (by simp) (by simp)
  | connecting =>
    simp only [tickAction, hst] at ht
    split at ht
    · cases ht
    · rename_i ps hsc
      injection ht with ht; injection ht with h1 h2; subst h1 h2
      obtain ⟨hne, tok, rfl⟩ := sendControl_ok hsc
      refine quiet6 h (Or.inl (by simp [core, hst])) ?_ (by simp)
      intro p hp
      simp at hp; subst hp
      exact Or.inr ⟨by simp [hst], tok, _, by rw [hst]⟩
  | pending t =>
    simp only [tickAction, hst] at ht
    split at ht
    · cases ht
    · rename_i ps hsc
      injection ht with ht; injection ht with h1 h2; subst h1 h2
      obtain ⟨hne, tok, rfl⟩ := sendControl_ok hsc
      refine quiet6 h (Or.inl (by simp [core, hst])) ?_ (by simp)
      intro p hp
      simp at hp; subst hp
      exact Or.inr ⟨by simp [hst], tok, _, by rw [hst]⟩
  | online t o =>
    simp only [tickAction, hst] at ht
    split at ht
    · split at ht
      · cases ht
      · rename_i ps hem
        injection ht with ht; injection ht with h1 h2; subst h1 h2
        obtain ⟨a, b, c⟩ := (sendOk_of h hst).flush
        exact online6 h hst hem [] (by simpa [vitalOf, nonvitalOf] using a) b c _ acc
    · split at ht
      · cases ht
      · rename_i ps hsc
        injection ht with ht; injection ht with h1 h2; subst h1 h2
        obtain ⟨hne, tok, rfl⟩ := sendControl_ok hsc
        refine quiet6 h (Or.inl (by simp [core, hst])) ?_ (by simp)
        intro p hp
        simp at hp; subst hp
        exact Or.inr ⟨by simp [hst], tok, _, by rw [hst]⟩

theorem absEnd_conn (e : End (Pr tl)) (c : Conn) (hcore : core c = core e.conn) :
    absEnd (Pr tl) core { e with conn := c } = absEnd (Pr tl) core e := by
  simp [absEnd, hcore, End.submittedVital, End.submittedNonvital, End.deliveredVital, End.deliveredNonvital]

theorem flsOk_nil (sub nv : List Bytes) (a : Nat) : FlsOk sub nv a [] := by
  intro f hf; simp at hf

/-- **0.6, application calls**: every returning call preserves the invariant (H1 for a vital `send`) -/
theorem call6 (now : Nat) (draws : List Nat) (e : End (Pr tl)) (c : Call) (r : Ret Conn Packet) (y : AEnd)
    (hr : P6.call now draws e.conn c = .ok r) (h : AInv Conn6.cfg (absEnd (Pr tl) core e) y)
    (hh1 : ∀ d, c = .send d true → ∀ o, P6.online e.conn = some o → o.resendQueue.length < 512) :
    AInv Conn6.cfg (absEnd (Pr tl) core (e.book r (subOf c r))) y := by
  cases c with
  | connect =>
    simp only [P6.call] at hr
    split at hr
    · cases hr
    · rename_i c1 out hcon
      injection hr with hr; subst hr
      unfold connect at hcon
      cases hst : e.conn.state with
      | unconnected =>
        simp only [hst] at hcon
        have he' := absEnd_conn (tl := tl) e { e.conn with state := .connecting } (by simp [core, hst])
        rw [← he'] at h
        exact tickAction6 (e := { e with conn := { e.conn with state := .connecting } }) h rfl hcon false
      | _ => simp [hst] at hcon
  | send d v =>
    simp only [P6.call] at hr
    split at hr
    · cases hr
    · rename_i c1 res out hsend
      injection hr with hr; subst hr
      unfold Conn6.send at hsend
      cases hst : e.conn.state with
      | online t o =>
        simp only [hst] at hsend
        split at hsend
        · cases hsend
        · rename_i o1 res' fl hos
          split at hsend
          · cases hsend
          · rename_i ps hem
            injection hsend with hsend; injection hsend with e1 e2; injection e2 with e2 e3
            subst e1 e2 e3
            have hso := sendOk_of h hst
            rcases hso.send Conn6.cfg_ok hos with ⟨r1, r2, r3⟩ | ⟨r1, r2, r3, r4, r5⟩
            · subst r1 r2 r3
              exact online6 h hst hem [] (by simpa [vitalOf, nonvitalOf] using hso) (flsOk_nil _ _ _) rfl _ _
            · subst r1
              cases v with
              | false =>
                exact online6 h hst hem [(d, false)] (by simpa [vitalOf, nonvitalOf] using r4 rfl) r2 r3 _ _
              | true =>
                have hq := hh1 d rfl o (by simp [P6.online, hst])
                exact online6 h hst hem [(d, true)] (by simpa [vitalOf, nonvitalOf] using r5 rfl hq) r2 r3 _ _
      | _ => simp [hst] at hsend
  | sendConnless d =>
    simp only [P6.call] at hr
    split at hr
    · cases hr
    · rename_i c1 res out hsend
      injection hr with hr; subst hr
      unfold Conn6.sendConnless at hsend
      cases hst : e.conn.state with
      | online t o =>
        simp only [hst] at hsend
        split at hsend
        · injection hsend with hsend; injection hsend with e1 e2; injection e2 with e2 e3
          subst e1 e2 e3
          exact quiet6 h (Or.inl (by simp [core, hst])) (by simp) (by simp)
        · split at hsend
          · cases hsend
          · rename_i ps hem
            injection hsend with hsend; injection hsend with e1 e2; injection e2 with e2 e3
            subst e1 e2 e3
            have := emit_ok hem; subst this
            exact quiet6 h (Or.inl (by simp [core, hst])) (by intro p hp; simp at hp; exact Or.inl ⟨_, hp⟩) (by simp)
      | _ => simp [hst] at hsend
  | flush =>
    simp only [P6.call] at hr
    split at hr
    · cases hr
    · rename_i c1 out hfl
      injection hr with hr; subst hr
      unfold Conn6.flush at hfl
      cases hst : e.conn.state with
      | online t o =>
        simp only [hst] at hfl
        split at hfl
        · cases hfl
        · rename_i ps hem
          injection hfl with hfl; injection hfl with e1 e2; subst e1 e2
          obtain ⟨a, b, c⟩ := (sendOk_of h hst).flush
          exact online6 h hst hem [] (by simpa [vitalOf, nonvitalOf] using a) b c _ _
      | _ => simp [hst] at hfl
  | tick =>
    simp only [P6.call] at hr
    split at hr
    · cases hr
    · rename_i c1 out htick
      injection hr with hr; subst hr
      unfold Conn6.tick at htick
      have hidle : ∀ {snd : Timeout}, tickAction ⟨now, draws⟩ ⟨e.conn.state, snd⟩ = .ok (c1, out) →
          AInv Conn6.cfg (absEnd (Pr tl) core (e.book (ret c1 out false) [])) y := by
        intro snd ht
        have he' := absEnd_conn (tl := tl) e ⟨e.conn.state, snd⟩ (by simp [core])
        rw [← he'] at h
        exact tickAction6 (e := { e with conn := ⟨e.conn.state, snd⟩ }) h rfl ht false
      cases hst : e.conn.state with
      | online t o =>
        simp only [hst] at htick
        split at htick
        · unfold resendConn at htick
          split at htick
          · cases htick
          · rename_i o1 send1 fl hrs
            split at htick
            · cases htick
            · rename_i ps hem
              injection htick with htick; injection htick with e1 e2; subst e1 e2
              obtain ⟨a, b, c⟩ := (sendOk_of h hst).resend Conn6.cfg_ok hrs
              exact online6 h hst hem [] (by simpa [vitalOf, nonvitalOf] using a) b c _ _
        · split at htick
          · rw [← hst] at htick; exact hidle htick
          · injection htick with htick; injection htick with e1 e2; subst e1 e2
            exact quiet6 h (Or.inl rfl) (by simp) (by simp)
      | _ =>
        simp only [hst, Bool.false_eq_true, if_false] at htick
        split at htick
        · rw [← hst] at htick; exact hidle htick
        · injection htick with htick; injection htick with e1 e2; subst e1 e2
          exact quiet6 h (Or.inl rfl) (by simp) (by simp)
  | disconnect reason =>
    simp only [P6.call] at hr
    split at hr
    · cases hr
    · rename_i c1 out hdis
      injection hr with hr; subst hr
      unfold Conn6.disconnect at hdis
      split at hdis
      · cases hdis
      · split at hdis
        · cases hdis
        · split at hdis
          · cases hdis
          · rename_i ps hsc
            injection hdis with hdis; injection hdis with e1 e2; subst e1 e2
            obtain ⟨hne, tok, rfl⟩ := sendControl_ok hsc
            refine quiet6 h (Or.inr (by simp [core])) ?_ (by simp)
            intro p hp
            simp at hp; subst hp
            exact Or.inr ⟨hne, tok, _, rfl⟩

/-! ## deliveries -/

theorem view_strip (p : Packet) : view (strip p) = view p := by
  cases p <;> rfl

/-- whatever the reader makes of a datagram of the history, it mentions the same ack and chunks -/
theorem wireRead_view {p q : Packet} {alt : Alt} {hint : Option Bool} (h : wireRead tl p alt hint = some q) :
    view q = view p := by
  unfold wireRead at h
  simp only at h
  have hs : view (if tl = true then strip p else p) = view p := by
    split
    · exact view_strip p
    · rfl
  rw [← hs]
  generalize (if tl = true then strip p else p) = p' at h
  cases p' with
  | connless d => simp only at h; injection h with h; rw [h]
  | chunks ack tk rr n cs =>
    simp only at h
    split at h
    · injection h with h; rw [h]
    · cases h
  | control ack tk ctl =>
    cases ctl with
    | close r =>
      simp only at h
      split at h
      · injection h with h; rw [h]
      · cases alt with
        | exact => simp only at h; injection h with h; rw [h]
        | error => cases h
        | close tok' r' => simp only at h; injection h with h; rw [← h]; rfl
    | keepAlive => simp only at h; split at h; (injection h with h; rw [h]); cases h
    | connect => simp only at h; split at h; (injection h with h; rw [h]); cases h
    | connectAccept => simp only at h; split at h; (injection h with h; rw [h]); cases h
    | accept => simp only at h; split at h; (injection h with h; rw [h]); cases h

theorem tokenAck_view {q : Packet} {tk : Option Nat} {ack : Nat} (h : q.tokenAck? = some (tk, ack)) :
    ∃ cs, view q = some (ack, cs) := by
  cases q <;> simp [Packet.tokenAck?] at h
  · obtain ⟨_, rfl⟩ := h; exact ⟨_, rfl⟩
  · obtain ⟨_, rfl⟩ := h; exact ⟨_, rfl⟩

/-- `feed` after the token check and `ack_chunks` -/
theorem feedBody6 {env : Env} {e peer : End (Pr tl)} {dg : Sent Packet} (hdg : dg ∈ peer.out)
    (h : AInv Conn6.cfg (absEnd (Pr tl) core e) (absEnd (Pr tl) core peer)) {q : Packet} (hv : view q = view dg.pkt)
    (h2 : ∀ ack cs, view dg.pkt = some (ack, cs) →
      ∀ c ∈ cs, ∀ s r', c.vital = some (s, r') → e.dAbs + 1 < unwrap dg.nStamp s + 1024)
    {token : Option Nat} {c1 : Conn} {out : Out} (hf : feedBody env e.conn token q = .ok (c1, out)) :
    AInv Conn6.cfg (absEnd (Pr tl) core (e.book (ret c1 out false) [])) (absEnd (Pr tl) core peer) := by
  have hnoop : ∀ (evs : List Event), (∀ ev ∈ evs, ∀ d v, ev ≠ .chunk d v) →
      feedBody env e.conn token q = .ok (e.conn, { events := evs }) →
      AInv Conn6.cfg (absEnd (Pr tl) core (e.book (ret c1 out false) [])) (absEnd (Pr tl) core peer) := by
    intro evs hevs hq
    rw [hq] at hf
    injection hf with hf; injection hf with e1 e2; subst e1 e2
    exact quiet6 h (Or.inl rfl) (by simp) hevs
  have hpend : ∀ {st : State} , core ⟨st, e.conn.send⟩ = core e.conn →
      tickAction env ⟨st, e.conn.send⟩ = .ok (c1, out) →
      AInv Conn6.cfg (absEnd (Pr tl) core (e.book (ret c1 out false) [])) (absEnd (Pr tl) core peer) := by
    intro st hcore ht
    have he' := absEnd_conn (tl := tl) e ⟨st, e.conn.send⟩ hcore
    rw [← he'] at h
    exact tickAction6 (e := { e with conn := ⟨st, e.conn.send⟩ }) h rfl ht false
  cases q with
  | connless d => exact hnoop [.connless d] (by simp) (by simp [feedBody])
  | chunks ack tk rr n cs =>
    have hv' : view dg.pkt = some (ack, cs) := by rw [← hv]; rfl
    have hrecv : ∀ (t : Option Nat) (o : Online), core e.conn = some o →
        (match o.receive Conn6.cfg env.now e.conn.send rr cs with
          | .error e => .error e
          | .ok (o1, send1, fl, evs) =>
            match emit (fl.map (ofFlushed t)) with
            | .error e => .error e
            | .ok ps => .ok (⟨.online t o1, send1⟩, { sent := ps, events := evs })) = Except.ok (c1, out) →
        AInv Conn6.cfg (absEnd (Pr tl) core (e.book (ret c1 out false) [])) (absEnd (Pr tl) core peer) := by
      intro t o hx hk
      split at hk
      · cases hk
      · rename_i o1 send1 fl evs hrc
        split at hk
        · cases hk
        · rename_i ps hem
          injection hk with hk; injection hk with e1 e2; subst e1 e2
          refine sim_recv Conn6.cfg_ok hdg h hv' hx hrc (h2 ack cs hv') (o2 := o1) rfl ?_ rfl
          simp only [ret]
          rw [emit_ok hem]
          exact view_ofFlushed _ _
    cases hst : e.conn.state with
    | online t o => simp only [feedBody, hst] at hf; exact hrecv t o (core_online hst) hf
    | pending t => simp only [feedBody, hst] at hf; exact hrecv t .new (by simp [core, hst]) hf
    | unconnected => exact hnoop [] (by simp) (by simp [feedBody, hst])
    | connecting => exact hnoop [] (by simp) (by simp [feedBody, hst])
    | disconnected => exact hnoop [] (by simp) (by simp [feedBody, hst])
  | control ack tk ctl =>
    cases ctl with
    | keepAlive => exact hnoop [] (by simp) (by simp [feedBody])
    | accept => exact hnoop [] (by simp) (by simp [feedBody])
    | close reason =>
      simp only [feedBody] at hf
      injection hf with hf; injection hf with e1 e2; subst e1 e2
      exact quiet6 h (Or.inr (by simp [core])) (by simp) (by simp)
    | connect =>
      cases hst : e.conn.state with
      | unconnected =>
        simp only [feedBody, hst] at hf
        cases token with
        | none =>
          simp only at hf
          exact hpend (by simp [core, hst]) hf
        | some t0 =>
          simp only at hf
          split at hf
          · split at hf
            · cases hf
            · exact hpend (by simp [core, hst]) hf
          · injection hf with hf; injection hf with e1 e2; subst e1 e2
            exact quiet6 h (Or.inl rfl) (by simp) (by simp)
      | online t o => exact hnoop [] (by simp) (by simp [feedBody, hst])
      | pending t => exact hnoop [] (by simp) (by simp [feedBody, hst])
      | connecting => exact hnoop [] (by simp) (by simp [feedBody, hst])
      | disconnected => exact hnoop [] (by simp) (by simp [feedBody, hst])
    | connectAccept =>
      cases hst : e.conn.state with
      | connecting =>
        simp only [feedBody, hst] at hf
        split at hf
        · cases hf
        · rename_i ps hsc
          injection hf with hf; injection hf with e1 e2; subst e1 e2
          obtain ⟨hne, tok, rfl⟩ := sendControl_ok hsc
          refine quiet6 h (Or.inl (by simp [core, hst])) ?_ (by simp)
          intro p hp
          simp at hp; subst hp
          exact Or.inr ⟨by simp [hst], tok, _, by rw [hst]; rfl⟩
      | online t o => exact hnoop [] (by simp) (by simp [feedBody, hst])
      | pending t => exact hnoop [] (by simp) (by simp [feedBody, hst])
      | unconnected => exact hnoop [] (by simp) (by simp [feedBody, hst])
      | disconnected => exact hnoop [] (by simp) (by simp [feedBody, hst])

/-- **0.6, deliveries**: processing a datagram of the peer's history preserves the invariant (H2) -/
theorem recv6 (now : Nat) (draws : List Nat) (e peer : End (Pr tl)) (dg : Sent Packet) (alt : Alt)
    (r : Ret Conn Packet) (hdg : dg ∈ peer.out) (hr : P6.recv tl now draws e.conn dg.pkt alt = .ok r)
    (h : AInv Conn6.cfg (absEnd (Pr tl) core e) (absEnd (Pr tl) core peer))
    (h2 : ∀ ack cs, view dg.pkt = some (ack, cs) → e.nAbs < unwrap dg.dStamp ack + 1024 ∧
      ∀ c ∈ cs, ∀ s r', c.vital = some (s, r') → e.dAbs + 1 < unwrap dg.nStamp s + 1024) :
    AInv Conn6.cfg (absEnd (Pr tl) core (e.book r [])) (absEnd (Pr tl) core peer) := by
  unfold P6.recv at hr
  split at hr
  · cases hr
  · rename_i c1 out hf
    injection hr with hr; subst hr
    show AInv Conn6.cfg (absEnd (Pr tl) core (e.book (ret c1 out false) [])) (absEnd (Pr tl) core peer)
    have h2c : ∀ ack cs, view dg.pkt = some (ack, cs) →
        ∀ c ∈ cs, ∀ s r', c.vital = some (s, r') → e.dAbs + 1 < unwrap dg.nStamp s + 1024 :=
      fun ack cs hv => (h2 ack cs hv).2
    unfold feed at hf
    cases hq : wireRead tl dg.pkt alt e.conn.hint with
    | none =>
      simp only [hq] at hf
      injection hf with hf; injection hf with e1 e2; subst e1 e2
      exact quiet6 h (Or.inl rfl) (by simp) (by simp)
    | some q =>
      have hv := wireRead_view hq
      simp only [hq] at hf
      cases hta : q.tokenAck? with
      | none => simp only [hta] at hf; exact feedBody6 hdg h hv h2c hf
      | some ta =>
        obtain ⟨token, ack⟩ := ta
        simp only [hta] at hf
        split at hf
        · injection hf with hf; injection hf with e1 e2; subst e1 e2
          exact quiet6 h (Or.inl rfl) (by simp) (by simp)
        · obtain ⟨cs, hvq⟩ := tokenAck_view hta
          have hvd : view dg.pkt = some (ack, cs) := by rw [← hv]; exact hvq
          cases hst : e.conn.state with
          | online t o =>
            simp only [hst] at hf
            split at hf
            · cases hf
            · rename_i o1 hfa
              have h1 := sim_ack hdg h (P := Pr tl) (core := core) hvd (core_online hst) hfa (h2 ack cs hvd).1
                { e.conn with state := .online t o1 } rfl
              exact feedBody6 (e := { e with conn := { e.conn with state := .online t o1 } }) hdg h1 hv h2c hf
          | unconnected => simp only [hst] at hf; exact feedBody6 hdg h hv h2c hf
          | connecting => simp only [hst] at hf; exact feedBody6 hdg h hv h2c hf
          | pending t => simp only [hst] at hf; exact feedBody6 hdg h hv h2c hf
          | disconnected => simp only [hst] at hf; exact feedBody6 hdg h hv h2c hf

theorem sim6 (tl : Bool) : Sim (proto6 tl) core Conn6.cfg where
  init := rfl
  call := fun now draws e c r y hr h hh1 => call6 now draws e c r y hr h hh1
  recv := fun now draws e peer dg alt r hdg hr h h2 => recv6 now draws e peer dg alt r hdg hr h h2

/-! ## the handshake clause -/

/-- online or disconnected: the connection never reports `Ready` (again) -/
def late (c : Conn) : Bool :=
  match c.state with
  | .online _ _ => true
  | .disconnected => true
  | _ => false

theorem tickAction_hs {env : Env} {c c' : Conn} {out : Out} (ht : tickAction env c = .ok (c', out)) :
    out.events = [] ∧ late c' = late c := by
  obtain ⟨st, snd⟩ := c
  cases st <;> simp only [tickAction] at ht
  case unconnected => injection ht with ht; injection ht with h1 h2; subst h1 h2; exact ⟨rfl, rfl⟩
  case disconnected => injection ht with ht; injection ht with h1 h2; subst h1 h2; exact ⟨rfl, rfl⟩
  case connecting =>
    split at ht
    · cases ht
    · injection ht with ht; injection ht with h1 h2; subst h1 h2; exact ⟨rfl, rfl⟩
  case pending t =>
    split at ht
    · cases ht
    · injection ht with ht; injection ht with h1 h2; subst h1 h2; exact ⟨rfl, rfl⟩
  case online t o =>
    split at ht
    · split at ht
      · cases ht
      · injection ht with ht; injection ht with h1 h2; subst h1 h2; exact ⟨rfl, rfl⟩
    · split at ht
      · cases ht
      · injection ht with ht; injection ht with h1 h2; subst h1 h2; exact ⟨rfl, rfl⟩

theorem hs_call6 (now : Nat) (draws : List Nat) (c : Conn) (cl : Call) (r : Ret Conn Packet)
    (hr : P6.call now draws c cl = .ok r) : readyCount r.events = 0 ∧ (late c = true → late r.conn = true) := by
  cases cl with
  | connect =>
    simp only [P6.call] at hr
    split at hr
    · cases hr
    · rename_i c1 out hcon
      injection hr with hr; subst hr
      unfold connect at hcon
      cases hst : c.state with
      | unconnected =>
        simp only [hst] at hcon
        obtain ⟨a, b⟩ := tickAction_hs hcon
        simp only [a, readyCount, true_and]
        intro hl; simp [late, hst] at hl
      | _ => simp [hst] at hcon
  | send d v =>
    simp only [P6.call] at hr
    split at hr
    · cases hr
    · rename_i c1 res out hsend
      injection hr with hr; subst hr
      unfold Conn6.send at hsend
      cases hst : c.state with
      | online t o =>
        simp only [hst] at hsend
        split at hsend
        · cases hsend
        · split at hsend
          · cases hsend
          · injection hsend with hsend; injection hsend with e1 e2; injection e2 with e2 e3
            subst e1 e2 e3
            exact ⟨rfl, fun _ => rfl⟩
      | _ => simp [hst] at hsend
  | sendConnless d =>
    simp only [P6.call] at hr
    split at hr
    · cases hr
    · rename_i c1 res out hsend
      injection hr with hr; subst hr
      unfold Conn6.sendConnless at hsend
      cases hst : c.state with
      | online t o =>
        simp only [hst] at hsend
        split at hsend
        · injection hsend with hsend; injection hsend with e1 e2; injection e2 with e2 e3
          subst e1 e2 e3
          exact ⟨rfl, fun _ => rfl⟩
        · split at hsend
          · cases hsend
          · injection hsend with hsend; injection hsend with e1 e2; injection e2 with e2 e3
            subst e1 e2 e3
            exact ⟨rfl, fun _ => rfl⟩
      | _ => simp [hst] at hsend
  | flush =>
    simp only [P6.call] at hr
    split at hr
    · cases hr
    · rename_i c1 out hfl
      injection hr with hr; subst hr
      unfold Conn6.flush at hfl
      cases hst : c.state with
      | online t o =>
        simp only [hst] at hfl
        split at hfl
        · cases hfl
        · injection hfl with hfl; injection hfl with e1 e2; subst e1 e2
          exact ⟨rfl, fun _ => rfl⟩
      | _ => simp [hst] at hfl
  | tick =>
    simp only [P6.call] at hr
    split at hr
    · cases hr
    · rename_i c1 out htick
      injection hr with hr; subst hr
      unfold Conn6.tick at htick
      have hidle : ∀ {snd : Timeout}, tickAction ⟨now, draws⟩ ⟨c.state, snd⟩ = .ok (c1, out) →
          readyCount out.events = 0 ∧ (late c = true → late c1 = true) := by
        intro snd ht
        obtain ⟨a, b⟩ := tickAction_hs ht
        rw [a, b]
        exact ⟨rfl, fun hl => hl⟩
      cases hst : c.state with
      | online t o =>
        simp only [hst] at htick
        split at htick
        · unfold resendConn at htick
          split at htick
          · cases htick
          · split at htick
            · cases htick
            · injection htick with htick; injection htick with e1 e2; subst e1 e2
              exact ⟨rfl, fun _ => rfl⟩
        · split at htick
          · rw [← hst] at htick; exact hidle htick
          · injection htick with htick; injection htick with e1 e2; subst e1 e2
            exact ⟨rfl, fun hl => hl⟩
      | _ =>
        simp only [hst, Bool.false_eq_true, if_false] at htick
        split at htick
        · rw [← hst] at htick; exact hidle htick
        · injection htick with htick; injection htick with e1 e2; subst e1 e2
          exact ⟨rfl, fun hl => hl⟩
  | disconnect reason =>
    simp only [P6.call] at hr
    split at hr
    · cases hr
    · rename_i c1 out hdis
      injection hr with hr; subst hr
      unfold Conn6.disconnect at hdis
      split at hdis
      · cases hdis
      · split at hdis
        · cases hdis
        · split at hdis
          · cases hdis
          · injection hdis with hdis; injection hdis with e1 e2; subst e1 e2
            exact ⟨rfl, fun _ => rfl⟩

theorem wireRead_accept {p q : Packet} {alt : Alt} {hint : Option Bool} (h : wireRead tl p alt hint = some q)
    (hq : isAccept q = true) : isAccept p = true := by
  unfold wireRead at h
  simp only at h
  have hs : isAccept (if tl = true then strip p else p) = isAccept p := by
    split
    · cases p with
      | control a t c => cases c <;> rfl
      | _ => rfl
    · rfl
  rw [← hs]
  generalize (if tl = true then strip p else p) = p' at h
  cases p' with
  | connless d => simp only at h; injection h with h; rw [h]; exact hq
  | chunks ack tk rr n cs =>
    simp only at h
    split at h
    · injection h with h; rw [h]; exact hq
    · cases h
  | control ack tk ctl =>
    cases ctl with
    | close r =>
      simp only at h
      split at h
      · injection h with h; rw [h]; exact hq
      · cases alt with
        | exact => simp only at h; injection h with h; rw [h]; exact hq
        | error => cases h
        | close tok' r' => simp only at h; injection h with h; rw [← h] at hq; simp [isAccept] at hq
    | keepAlive => simp only at h; split at h; (injection h with h; rw [h]; exact hq); cases h
    | connect => simp only at h; split at h; (injection h with h; rw [h]; exact hq); cases h
    | connectAccept => rfl
    | accept => simp only at h; split at h; (injection h with h; rw [h]; exact hq); cases h

/-- `feed` after the token check: `Ready` is reported only for the peer's `ConnectAccept`, by a
connection that is `Connecting` and goes online -/
theorem feedBody_hs {env : Env} {c c1 : Conn} {token : Option Nat} {q : Packet} {out : Out}
    (hf : feedBody env c token q = .ok (c1, out)) :
    (late c = true → late c1 = true ∧ readyCount out.events = 0) ∧
    (readyCount out.events = 0 ∨ (readyCount out.events = 1 ∧ late c1 = true ∧ isAccept q = true)) := by
  have hnoop : ∀ (evs : List Event), readyCount evs = 0 →
      feedBody env c token q = .ok (c, { events := evs }) →
      (late c = true → late c1 = true ∧ readyCount out.events = 0) ∧
      (readyCount out.events = 0 ∨ (readyCount out.events = 1 ∧ late c1 = true ∧ isAccept q = true)) := by
    intro evs hevs hq
    rw [hq] at hf
    injection hf with hf; injection hf with e1 e2; subst e1 e2
    exact ⟨fun hl => ⟨hl, hevs⟩, Or.inl hevs⟩
  have htick : ∀ {c0 : Conn}, late c = false → tickAction env c0 = .ok (c1, out) →
      (late c = true → late c1 = true ∧ readyCount out.events = 0) ∧
      (readyCount out.events = 0 ∨ (readyCount out.events = 1 ∧ late c1 = true ∧ isAccept q = true)) := by
    intro c0 hl ht
    obtain ⟨a, _⟩ := tickAction_hs ht
    rw [a]
    exact ⟨fun hl' => (by rw [hl] at hl'; cases hl'), Or.inl rfl⟩
  cases q with
  | connless d => exact hnoop [.connless d] rfl (by simp [feedBody])
  | chunks ack tk rr n cs =>
    have hrecv : ∀ (t : Option Nat) (o : Online),
        (match o.receive Conn6.cfg env.now c.send rr cs with
          | .error e => .error e
          | .ok (o1, send1, fl, evs) =>
            match emit (fl.map (ofFlushed t)) with
            | .error e => .error e
            | .ok ps => .ok (⟨.online t o1, send1⟩, { sent := ps, events := evs })) = Except.ok (c1, out) →
        (late c = true → late c1 = true ∧ readyCount out.events = 0) ∧
        (readyCount out.events = 0 ∨ (readyCount out.events = 1 ∧ late c1 = true ∧
          isAccept (Packet.chunks ack tk rr n cs) = true)) := by
      intro t o hk
      split at hk
      · cases hk
      · rename_i o1 send1 fl evs hrc
        split at hk
        · cases hk
        · injection hk with hk; injection hk with e1 e2; subst e1 e2
          have := readyCount_receive hrc
          exact ⟨fun _ => ⟨rfl, this⟩, Or.inl this⟩
    cases hst : c.state with
    | online t o => simp only [feedBody, hst] at hf; exact hrecv t o hf
    | pending t => simp only [feedBody, hst] at hf; exact hrecv t .new hf
    | unconnected => exact hnoop [] rfl (by simp [feedBody, hst])
    | connecting => exact hnoop [] rfl (by simp [feedBody, hst])
    | disconnected => exact hnoop [] rfl (by simp [feedBody, hst])
  | control ack tk ctl =>
    cases ctl with
    | keepAlive => exact hnoop [] rfl (by simp [feedBody])
    | accept => exact hnoop [] rfl (by simp [feedBody])
    | close reason =>
      simp only [feedBody] at hf
      injection hf with hf; injection hf with e1 e2; subst e1 e2
      exact ⟨fun _ => ⟨rfl, rfl⟩, Or.inl rfl⟩
    | connect =>
      cases hst : c.state with
      | unconnected =>
        simp only [feedBody, hst] at hf
        have hl : late c = false := by simp [late, hst]
        cases token with
        | none => simp only at hf; exact htick hl hf
        | some t0 =>
          simp only at hf
          split at hf
          · split at hf
            · cases hf
            · exact htick hl hf
          · injection hf with hf; injection hf with e1 e2; subst e1 e2
            exact ⟨fun hl => ⟨hl, rfl⟩, Or.inl rfl⟩
      | online t o => exact hnoop [] rfl (by simp [feedBody, hst])
      | pending t => exact hnoop [] rfl (by simp [feedBody, hst])
      | connecting => exact hnoop [] rfl (by simp [feedBody, hst])
      | disconnected => exact hnoop [] rfl (by simp [feedBody, hst])
    | connectAccept =>
      cases hst : c.state with
      | connecting =>
        simp only [feedBody, hst] at hf
        split at hf
        · cases hf
        · injection hf with hf; injection hf with e1 e2; subst e1 e2
          exact ⟨fun hl => by simp [late, hst] at hl, Or.inr ⟨rfl, rfl, rfl⟩⟩
      | online t o => exact hnoop [] rfl (by simp [feedBody, hst])
      | pending t => exact hnoop [] rfl (by simp [feedBody, hst])
      | unconnected => exact hnoop [] rfl (by simp [feedBody, hst])
      | disconnected => exact hnoop [] rfl (by simp [feedBody, hst])

theorem hs_recv6 (now : Nat) (draws : List Nat) (c : Conn) (p : Packet) (alt : Alt) (r : Ret Conn Packet)
    (hr : P6.recv tl now draws c p alt = .ok r) :
    (late c = true → late r.conn = true ∧ readyCount r.events = 0) ∧
    (readyCount r.events = 0 ∨ (readyCount r.events = 1 ∧ late r.conn = true ∧ isAccept p = true)) := by
  unfold P6.recv at hr
  split at hr
  · cases hr
  · rename_i c1 out hf
    injection hr with hr; subst hr
    simp only
    have hquiet : ∀ (o : Out), o.events = [] → (Except.ok (c, o) : Res) = Except.ok (c1, out) →
        (late c = true → late c1 = true ∧ readyCount out.events = 0) ∧
        (readyCount out.events = 0 ∨ (readyCount out.events = 1 ∧ late c1 = true ∧ isAccept p = true)) := by
      intro o ho hk
      injection hk with hk; injection hk with e1 e2; subst e1 e2
      rw [ho]
      exact ⟨fun hl => ⟨hl, rfl⟩, Or.inl rfl⟩
    unfold feed at hf
    cases hq : wireRead tl p alt c.hint with
    | none => simp only [hq] at hf; exact hquiet _ rfl hf
    | some q =>
      simp only [hq] at hf
      have fin : ∀ {c0 : Conn} {token : Option Nat}, late c0 = late c →
          feedBody ⟨now, draws⟩ c0 token q = .ok (c1, out) →
          (late c = true → late c1 = true ∧ readyCount out.events = 0) ∧
          (readyCount out.events = 0 ∨ (readyCount out.events = 1 ∧ late c1 = true ∧ isAccept p = true)) := by
        intro c0 token hl hb
        obtain ⟨a, b⟩ := feedBody_hs hb
        rw [hl] at a
        refine ⟨a, ?_⟩
        rcases b with b | ⟨b1, b2, b3⟩
        · exact Or.inl b
        · exact Or.inr ⟨b1, b2, wireRead_accept hq b3⟩
      cases hta : q.tokenAck? with
      | none => simp only [hta] at hf; exact fin rfl hf
      | some ta =>
        obtain ⟨token, ack⟩ := ta
        simp only [hta] at hf
        split at hf
        · exact hquiet _ rfl hf
        · cases hst : c.state with
          | online t o =>
            simp only [hst] at hf
            split at hf
            · cases hf
            · exact fin (by simp [late, hst]) hf
          | unconnected => simp only [hst] at hf; exact fin rfl hf
          | connecting => simp only [hst] at hf; exact fin rfl hf
          | pending t => simp only [hst] at hf; exact fin rfl hf
          | disconnected => simp only [hst] at hf; exact fin rfl hf

theorem hs6 (tl : Bool) : Hs (proto6 tl) late where
  call := fun now draws c cl r hr => hs_call6 now draws c cl r hr
  recv := fun now draws c p alt r hr => hs_recv6 now draws c p alt r hr

/-! ## the token hint always matches (the totalised branch of `wireRead` is dead) -/

/-- the token of a pending / online connection is present iff the variant uses tokens -/
def tokS (tl : Bool) (c : Conn) : Prop := ∀ t, c.state.token? = some t → t.isSome = !tl

/-- with tokens, every connected datagram other than a close message carries one -/
def pktOk (tl : Bool) : Packet → Prop
  | .connless _ => True
  | .control _ _ (.close _) => True
  | .control _ t _ => tl = false → t.isSome = true
  | .chunks _ t _ _ _ => tl = false → t.isSome = true

/-- what the reader hands to `feed`: the token is present iff the variant uses tokens -/
def qOk (tl : Bool) : Packet → Prop
  | .connless _ => True
  | .control _ _ (.close _) => True
  | .control _ t _ => t.isSome = !tl
  | .chunks _ t _ _ _ => t.isSome = !tl

theorem pktOk_control {ack : Nat} {t : Option Nat} {ctl : Control} (h : tl = false → t.isSome = true) :
    pktOk tl (.control ack t ctl) := by
  cases ctl <;> first | exact h | trivial

theorem sendControl_tok {st : State} {snd : Timeout} {ctl : Control} {ps : List Packet}
    (h : sendControl st ctl = .ok ps) (hs : tokS tl ⟨st, snd⟩) (hu : st = .unconnected → ∃ r, ctl = .close r) :
    ∀ p ∈ ps, pktOk tl p := by
  unfold sendControl at h
  cases st <;> simp only [controlPacket] at h
  case disconnected => cases h
  case unconnected =>
    obtain ⟨r, rfl⟩ := hu rfl
    have := emit_ok h; subst this
    intro p hp; simp at hp; subst hp; trivial
  case connecting =>
    have := emit_ok h; subst this
    intro p hp; simp at hp; subst hp; exact pktOk_control (fun _ => rfl)
  case pending t =>
    have := emit_ok h; subst this
    intro p hp; simp at hp; subst hp
    exact pktOk_control (fun htl => by have := hs t rfl; simpa [htl] using this)
  case online t o =>
    have := emit_ok h; subst this
    intro p hp; simp at hp; subst hp
    exact pktOk_control (fun htl => by have := hs t rfl; simpa [htl] using this)

theorem flushed_tok {t : Option Nat} (ht : tl = false → t.isSome = true) {fl : List Flushed} {ps : List Packet}
    (hem : emit (fl.map (ofFlushed t)) = .ok ps) : ∀ p ∈ ps, pktOk tl p := by
  have := emit_ok hem; subst this
  intro p hp
  simp only [List.mem_map] at hp
  obtain ⟨f, _, rfl⟩ := hp
  exact ht

theorem tokS_online {t : Option Nat} {o : Online} {snd : Timeout} (hs : tokS tl ⟨.online t o, snd⟩) :
    tl = false → t.isSome = true := fun htl => by have := hs t rfl; simpa [htl] using this

theorem tickAction_tok {env : Env} {c c' : Conn} {out : Out} (ht : tickAction env c = .ok (c', out))
    (hs : tokS tl c) : tokS tl c' ∧ ∀ p ∈ out.sent, pktOk tl p := by
  obtain ⟨st, snd⟩ := c
  cases st <;> simp only [tickAction] at ht
  case unconnected => injection ht with ht; injection ht with h1 h2; subst h1 h2; exact ⟨hs, by simp⟩
  case disconnected => injection ht with ht; injection ht with h1 h2; subst h1 h2; exact ⟨hs, by simp⟩
  case connecting =>
    split at ht
    · cases ht
    · rename_i ps hsc
      injection ht with ht; injection ht with h1 h2; subst h1 h2
      exact ⟨hs, sendControl_tok hsc hs (by simp)⟩
  case pending t =>
    split at ht
    · cases ht
    · rename_i ps hsc
      injection ht with ht; injection ht with h1 h2; subst h1 h2
      exact ⟨hs, sendControl_tok hsc hs (by simp)⟩
  case online t o =>
    split at ht
    · split at ht
      · cases ht
      · rename_i ps hem
        injection ht with ht; injection ht with h1 h2; subst h1 h2
        exact ⟨fun t' ht' => hs t' ht', flushed_tok (tokS_online hs) hem⟩
    · split at ht
      · cases ht
      · rename_i ps hsc
        injection ht with ht; injection ht with h1 h2; subst h1 h2
        exact ⟨hs, sendControl_tok hsc hs (by simp)⟩

theorem tok_call6 (now : Nat) (draws : List Nat) (c : Conn) (cl : Call) (r : Ret Conn Packet)
    (hr : P6.call now draws c cl = .ok r) (hs : tokS tl c) : tokS tl r.conn ∧ ∀ p ∈ r.sent, pktOk tl p := by
  obtain ⟨st, snd⟩ := c
  cases cl with
  | connect =>
    simp only [P6.call] at hr
    split at hr
    · cases hr
    · rename_i c1 out hcon
      injection hr with hr; subst hr
      unfold connect at hcon
      cases st with
      | unconnected =>
        simp only at hcon
        exact tickAction_tok hcon (fun t ht => by simp [State.token?] at ht)
      | _ => simp at hcon
  | send d v =>
    simp only [P6.call] at hr
    split at hr
    · cases hr
    · rename_i c1 res out hsend
      injection hr with hr; subst hr
      unfold Conn6.send at hsend
      cases st with
      | online t o =>
        simp only at hsend
        split at hsend
        · cases hsend
        · split at hsend
          · cases hsend
          · rename_i ps hem
            injection hsend with hsend; injection hsend with e1 e2; injection e2 with e2 e3
            subst e1 e2 e3
            exact ⟨fun t' ht' => hs t' ht', flushed_tok (tokS_online hs) hem⟩
      | _ => simp at hsend
  | sendConnless d =>
    simp only [P6.call] at hr
    split at hr
    · cases hr
    · rename_i c1 res out hsend
      injection hr with hr; subst hr
      unfold Conn6.sendConnless at hsend
      cases st with
      | online t o =>
        simp only at hsend
        split at hsend
        · injection hsend with hsend; injection hsend with e1 e2; injection e2 with e2 e3
          subst e1 e2 e3
          exact ⟨fun t' ht' => hs t' ht', by simp⟩
        · split at hsend
          · cases hsend
          · rename_i ps hem
            injection hsend with hsend; injection hsend with e1 e2; injection e2 with e2 e3
            subst e1 e2 e3
            have := emit_ok hem; subst this
            exact ⟨fun t' ht' => hs t' ht', by intro p hp; simp at hp; subst hp; trivial⟩
      | _ => simp at hsend
  | flush =>
    simp only [P6.call] at hr
    split at hr
    · cases hr
    · rename_i c1 out hfl
      injection hr with hr; subst hr
      unfold Conn6.flush at hfl
      cases st with
      | online t o =>
        simp only at hfl
        split at hfl
        · cases hfl
        · rename_i ps hem
          injection hfl with hfl; injection hfl with e1 e2; subst e1 e2
          exact ⟨fun t' ht' => hs t' ht', flushed_tok (tokS_online hs) hem⟩
      | _ => simp at hfl
  | tick =>
    simp only [P6.call] at hr
    split at hr
    · cases hr
    · rename_i c1 out htick
      injection hr with hr; subst hr
      unfold Conn6.tick at htick
      have hidle : ∀ {snd' : Timeout}, tickAction ⟨now, draws⟩ ⟨st, snd'⟩ = .ok (c1, out) →
          tokS tl c1 ∧ ∀ p ∈ out.sent, pktOk tl p :=
        fun ht => tickAction_tok ht (fun t ht' => hs t ht')
      cases st with
      | online t o =>
        simp only at htick
        split at htick
        · unfold resendConn at htick
          split at htick
          · cases htick
          · split at htick
            · cases htick
            · rename_i ps hem
              injection htick with htick; injection htick with e1 e2; subst e1 e2
              exact ⟨fun t' ht' => hs t' ht', flushed_tok (tokS_online hs) hem⟩
        · split at htick
          · exact hidle htick
          · injection htick with htick; injection htick with e1 e2; subst e1 e2
            exact ⟨hs, by simp⟩
      | _ =>
        simp only [Bool.false_eq_true, if_false] at htick
        split at htick
        · exact hidle htick
        · injection htick with htick; injection htick with e1 e2; subst e1 e2
          exact ⟨hs, by simp⟩
  | disconnect reason =>
    simp only [P6.call] at hr
    split at hr
    · cases hr
    · rename_i c1 out hdis
      injection hr with hr; subst hr
      unfold Conn6.disconnect at hdis
      split at hdis
      · cases hdis
      · split at hdis
        · cases hdis
        · split at hdis
          · cases hdis
          · rename_i ps hsc
            injection hdis with hdis; injection hdis with e1 e2; subst e1 e2
            exact ⟨fun t ht => by simp [State.token?] at ht, sendControl_tok hsc hs (fun _ => ⟨_, rfl⟩)⟩

theorem wireRead_qOk {p q : Packet} {alt : Alt} {hint : Option Bool} (hp : pktOk tl p)
    (h : wireRead tl p alt hint = some q) : qOk tl q := by
  unfold wireRead at h
  simp only at h
  have hs : qOk tl (if tl = true then strip p else p) := by
    cases tl with
    | true =>
      simp only [if_true]
      cases p with
      | connless d => trivial
      | control a t c => cases c <;> simp [strip, qOk]
      | chunks a t rr n cs => simp [strip, qOk]
    | false =>
      simp only [Bool.false_eq_true, if_false]
      cases p with
      | connless d => trivial
      | control a t c => cases c <;> simp_all [pktOk, qOk]
      | chunks a t rr n cs => simp_all [pktOk, qOk]
  generalize (if tl = true then strip p else p) = p' at h hs
  cases p' with
  | connless d => simp only at h; injection h with h; rw [← h]; trivial
  | chunks ack tk rr n cs =>
    simp only at h
    split at h
    · injection h with h; rw [← h]; exact hs
    · cases h
  | control ack tk ctl =>
    cases ctl with
    | close r =>
      simp only at h
      split at h
      · injection h with h; rw [← h]; trivial
      · cases alt with
        | exact => simp only at h; injection h with h; rw [← h]; trivial
        | error => cases h
        | close tok' r' => simp only at h; injection h with h; rw [← h]; trivial
    | keepAlive => simp only at h; split at h; (injection h with h; rw [← h]; exact hs); cases h
    | connect => simp only at h; split at h; (injection h with h; rw [← h]; exact hs); cases h
    | connectAccept => simp only at h; split at h; (injection h with h; rw [← h]; exact hs); cases h
    | accept => simp only at h; split at h; (injection h with h; rw [← h]; exact hs); cases h

theorem feedBody_tok {env : Env} {c c1 : Conn} {token : Option Nat} {q : Packet} {out : Out}
    (hs : tokS tl c) (hq : qOk tl q) (htok : ∀ ack t ctl, q = .control ack t ctl → token = t)
    (hf : feedBody env c token q = .ok (c1, out)) : tokS tl c1 ∧ ∀ p ∈ out.sent, pktOk tl p := by
  obtain ⟨st, snd⟩ := c
  have hnoop : ∀ (evs : List Event), feedBody env ⟨st, snd⟩ token q = .ok (⟨st, snd⟩, { events := evs }) →
      tokS tl c1 ∧ ∀ p ∈ out.sent, pktOk tl p := by
    intro evs hk
    rw [hk] at hf
    injection hf with hf; injection hf with e1 e2; subst e1 e2
    exact ⟨hs, by simp⟩
  cases q with
  | connless d => exact hnoop [.connless d] (by simp [feedBody])
  | chunks ack tk rr n cs =>
    have hrecv : ∀ (t : Option Nat) (o : Online), (tl = false → t.isSome = true) → t.isSome = !tl →
        (match o.receive Conn6.cfg env.now snd rr cs with
          | .error e => .error e
          | .ok (o1, send1, fl, evs) =>
            match emit (fl.map (ofFlushed t)) with
            | .error e => .error e
            | .ok ps => .ok (⟨.online t o1, send1⟩, { sent := ps, events := evs })) = Except.ok (c1, out) →
        tokS tl c1 ∧ ∀ p ∈ out.sent, pktOk tl p := by
      intro t o ht ht' hk
      split at hk
      · cases hk
      · split at hk
        · cases hk
        · rename_i ps hem
          injection hk with hk; injection hk with e1 e2; subst e1 e2
          refine ⟨?_, flushed_tok ht hem⟩
          intro t' h'
          simp [State.token?] at h'
          subst h'; exact ht'
    cases st with
    | online t o => simp only [feedBody] at hf; exact hrecv t o (tokS_online hs) (hs t rfl) hf
    | pending t =>
      simp only [feedBody] at hf
      exact hrecv t .new (fun htl => by have := hs t rfl; simpa [htl] using this) (hs t rfl) hf
    | unconnected => exact hnoop [] (by simp [feedBody])
    | connecting => exact hnoop [] (by simp [feedBody])
    | disconnected => exact hnoop [] (by simp [feedBody])
  | control ack tk ctl =>
    have htk := htok ack tk ctl rfl
    subst htk
    cases ctl with
    | keepAlive => exact hnoop [] (by simp [feedBody])
    | accept => exact hnoop [] (by simp [feedBody])
    | close reason =>
      simp only [feedBody] at hf
      injection hf with hf; injection hf with e1 e2; subst e1 e2
      exact ⟨fun t ht => by simp [State.token?] at ht, by simp⟩
    | connect =>
      have hq' : token.isSome = !tl := hq
      cases st with
      | unconnected =>
        simp only [feedBody] at hf
        cases token with
        | none =>
          simp only at hf
          refine tickAction_tok hf ?_
          intro t ht
          simp [State.token?] at ht
          subst ht; exact hq'
        | some t0 =>
          simp only at hf
          split at hf
          · split at hf
            · cases hf
            · refine tickAction_tok hf ?_
              intro t ht
              simp [State.token?] at ht
              subst ht; exact hq'
          · injection hf with hf; injection hf with e1 e2; subst e1 e2
            exact ⟨hs, by simp⟩
      | online t o => exact hnoop [] (by simp [feedBody])
      | pending t => exact hnoop [] (by simp [feedBody])
      | connecting => exact hnoop [] (by simp [feedBody])
      | disconnected => exact hnoop [] (by simp [feedBody])
    | connectAccept =>
      have hq' : token.isSome = !tl := hq
      cases st with
      | connecting =>
        simp only [feedBody] at hf
        split at hf
        · cases hf
        · rename_i ps hsc
          injection hf with hf; injection hf with e1 e2; subst e1 e2
          have hs' : tokS tl ⟨.online token .new, snd⟩ := by
            intro t ht
            simp [State.token?] at ht
            subst ht; exact hq'
          exact ⟨hs', sendControl_tok hsc hs' (by simp)⟩
      | online t o => exact hnoop [] (by simp [feedBody])
      | pending t => exact hnoop [] (by simp [feedBody])
      | unconnected => exact hnoop [] (by simp [feedBody])
      | disconnected => exact hnoop [] (by simp [feedBody])

theorem tok_recv6 (now : Nat) (draws : List Nat) (c : Conn) (p : Packet) (alt : Alt) (r : Ret Conn Packet)
    (hr : P6.recv tl now draws c p alt = .ok r) (hs : tokS tl c) (hp : pktOk tl p) :
    tokS tl r.conn ∧ ∀ p' ∈ r.sent, pktOk tl p' := by
  unfold P6.recv at hr
  split at hr
  · cases hr
  · rename_i c1 out hf
    injection hr with hr; subst hr
    simp only
    have hquiet : ∀ (o : Out), o.sent = [] → (Except.ok (c, o) : Res) = Except.ok (c1, out) →
        tokS tl c1 ∧ ∀ p' ∈ out.sent, pktOk tl p' := by
      intro o ho hk
      injection hk with hk; injection hk with e1 e2; subst e1 e2
      exact ⟨hs, by simp [ho]⟩
    unfold feed at hf
    cases hq : wireRead tl p alt c.hint with
    | none => simp only [hq] at hf; exact hquiet _ rfl hf
    | some q =>
      have hqok := wireRead_qOk hp hq
      simp only [hq] at hf
      cases hta : q.tokenAck? with
      | none =>
        simp only [hta] at hf
        refine feedBody_tok hs hqok ?_ hf
        intro ack t ctl hqq; subst hqq; simp [Packet.tokenAck?] at hta
      | some ta =>
        obtain ⟨token, ack⟩ := ta
        simp only [hta] at hf
        have htok : ∀ ack' t ctl, q = .control ack' t ctl → token = t := by
          intro ack' t ctl hqq; subst hqq; simp [Packet.tokenAck?] at hta; exact hta.1.symm
        split at hf
        · exact hquiet _ rfl hf
        · cases hst : c.state with
          | online t o =>
            simp only [hst] at hf
            split at hf
            · cases hf
            · refine feedBody_tok ?_ hqok htok hf
              intro t' ht'
              simp [State.token?] at ht'
              subst ht'
              exact hs t (by simp [hst, State.token?])
          | unconnected => simp only [hst] at hf; exact feedBody_tok hs hqok htok hf
          | connecting => simp only [hst] at hf; exact feedBody_tok hs hqok htok hf
          | pending t => simp only [hst] at hf; exact feedBody_tok hs hqok htok hf
          | disconnected => simp only [hst] at hf; exact feedBody_tok hs hqok htok hf

theorem loc6 (tl : Bool) : Loc (proto6 tl) (tokS tl) (pktOk tl) where
  init := fun t ht => by simp [proto6, Conn.new, State.token?] at ht
  call := fun now draws c cl r hr hs => tok_call6 now draws c cl r hr hs
  recv := fun now draws c p alt r hr hs hp => tok_recv6 now draws c p alt r hr hs hp

/-- the hint of a connection that satisfies `tokS` never contradicts a datagram that satisfies `pktOk` -/
theorem misread_false {c : Conn} {p : Packet} (hs : tokS tl c) (hp : pktOk tl p) : misread tl p c.hint = false := by
  unfold misread
  simp only
  have hh : c.hint = none ∨ c.hint = some (!tl) := by
    unfold Conn.hint
    cases ht : c.state.token? with
    | none => left; rfl
    | some t => right; simp [hs t ht]
  cases tl with
  | true =>
    simp only [if_true]
    cases p with
    | connless d => rfl
    | control a t ctl =>
      cases ctl <;> simp only [strip] <;> first | rfl | (rcases hh with hh | hh <;> simp [hh, hasToken])
    | chunks a t rr n cs => simp only [strip]; rcases hh with hh | hh <;> simp [hh, hasToken]
  | false =>
    simp only [Bool.false_eq_true, if_false]
    cases p with
    | connless d => rfl
    | control a t ctl =>
      cases ctl <;> first | rfl | (have := hp rfl; rcases hh with hh | hh <;> simp [hh, hasToken, this])
    | chunks a t rr n cs => have := hp rfl; rcases hh with hh | hh <;> simp [hh, hasToken, this]

/-! ## the `new_accept_token` start -/

theorem initAccept_inv (now token k : Nat) :
    WInv (proto6 false) core Conn6.cfg (World.initAccept6 now token k) := by
  have ha : absEnd (proto6 false) core (World.initAccept6 now token k).a = AEnd.init := rfl
  unfold WInv
  rw [ha]
  refine (AInv.quiet (x := AEnd.init) (x' := absEnd (proto6 false) core (World.initAccept6 now token k).b)
    (AInv.init Conn6.cfg).symm
    (absEnd (proto6 false) core (World.initAccept6 now token k).b).out (Or.inl rfl) (List.nil_append _).symm
    rfl rfl rfl rfl ?_).symm
  intro e he
  simp only [absEnd, World.initAccept6, List.mem_filterMap] at he
  obtain ⟨dg, hdg, hde⟩ := he
  have := List.eq_of_mem_replicate hdg
  subst this
  simp only [absEnt, proto6, view, Option.map_some, Option.some.injEq] at hde
  subst hde
  exact ⟨rfl, rfl, rfl, .new, rfl, rfl⟩

theorem initAccept_hs (now token k : Nat) : HInv (proto6 false) late (World.initAccept6 now token k) :=
  ⟨⟨Or.inl rfl, fun h => absurd rfl h⟩, ⟨Or.inl rfl, fun h => absurd rfl h⟩⟩

theorem initAccept_loc (now token k : Nat) :
    LInv (P := proto6 false) (tokS false) (pktOk false) (World.initAccept6 now token k) := by
  refine ⟨⟨fun t ht => by simp [World.initAccept6, Conn.new, State.token?] at ht, by intro dg h; simp [World.initAccept6] at h⟩,
    ⟨fun t ht => ?_, ?_⟩⟩
  · simp [World.initAccept6, Conn.newAcceptToken, State.token?] at ht
    subst ht; rfl
  · intro dg hdg
    have := List.eq_of_mem_replicate hdg
    subst this
    intro _; rfl

end Tw.NetSim.P6
