import Tw.Proofs.ConnSafetySim
import Tw.Proofs.Conn6

/-!
# C01 for 0.6: every call of `Tw.Conn6` preserves the invariant
-/
namespace Tw.NetSim.P6
open Tw.Conn Tw.Conn6 Tw.Time Tw.NetSim

/-- the online core: fresh until the connection is online, gone once it is disconnected -/
def core (c : Conn) : Option Online :=
  match c.state with
  | .online _ o => some o
  | .disconnected => none
  | _ => some .new

/-- the ack `send_control` puts into a control packet -/
def ackOf : State → Nat
  | .online _ o => o.ack
  | _ => 0

theorem core_ack {st : State} {snd : Timeout} {o : Online} (h : core ⟨st, snd⟩ = some o) : ackOf st = o.ack := by
  cases st <;> simp [core] at h <;> subst h <;> rfl

theorem core_alive {st : State} {snd : Timeout} (h : st ≠ .disconnected) : ∃ o, core ⟨st, snd⟩ = some o := by
  cases st <;> simp [core] at h ⊢

theorem emit_ok {ps ps' : List Packet} (h : emit ps = .ok ps') : ps' = ps := by
  unfold emit at h
  split at h
  · injection h with h; exact h.symm
  · cases h

theorem view_ofFlushed (t : Option Nat) (fl : List Flushed) :
    (fl.map (ofFlushed t)).filterMap view = fl.map fun f => (f.ack, f.chunks) := by
  induction fl with
  | nil => rfl
  | cons f fl ih => simp [ofFlushed, view, ih]

theorem sendControl_ok {st : State} {ctl : Control} {ps : List Packet} (h : sendControl st ctl = .ok ps) :
    st ≠ .disconnected ∧ ∃ tok, ps = [.control (ackOf st) tok ctl] := by
  unfold sendControl at h
  cases st <;> simp only [controlPacket] at h
  all_goals first
    | cases h
    | (have := emit_ok h; subst this; exact ⟨by simp, _, rfl⟩)

variable {tl : Bool} {cfg : Cfg}

abbrev Pr (tl : Bool) : Proto := proto6 tl

/-- the shape of what the 0.6 calls return -/
def ret (c1 : Conn) (out : Out) (acc : Bool) : Ret Conn Packet :=
  { conn := c1, sent := out.sent, events := out.events, accepted := acc }

/-- nothing but control / connless datagrams, no chunk event, the online core untouched or gone -/
theorem quiet6 {e : End (Pr tl)} {c1 : Conn} {out : Out} {acc : Bool} {y : AEnd}
    (h : AInv cfg (absEnd (Pr tl) core e) y)
    (hcore : core c1 = core e.conn ∨ core c1 = none)
    (hsent : ∀ p ∈ out.sent, (∃ d, p = .connless d) ∨
      (e.conn.state ≠ .disconnected ∧ ∃ tok ctl, p = .control (ackOf e.conn.state) tok ctl))
    (hev : ∀ ev ∈ out.events, ∀ d v, ev ≠ .chunk d v) :
    AInv cfg (absEnd (Pr tl) core (e.book (ret c1 out acc) [])) y := by
  refine sim_quiet h hcore ?_ ?_
  · intro v hv
    obtain ⟨p, hp, hpv⟩ := List.mem_filterMap.mp hv
    simp only [ret] at hp
    rcases hsent p hp with ⟨d, rfl⟩ | ⟨hne, tok, ctl, rfl⟩
    · simp [Pr, proto6, view] at hpv
    · simp only [Pr, proto6, view, Option.some.injEq] at hpv
      subst hpv
      obtain ⟨o, ho⟩ := core_alive (snd := e.conn.send) hne
      exact ⟨rfl, o, ho, core_ack ho⟩
  · have key : ∀ evs : List Event, (∀ ev ∈ evs, ∀ d v, ev ≠ .chunk d v) →
        vitalPayloads evs = [] ∧ nonvitalPayloads evs = [] := by
      intro evs
      induction evs with
      | nil => intro _; exact ⟨rfl, rfl⟩
      | cons x xs ih =>
        intro hx
        obtain ⟨a, b⟩ := ih (fun ev hev => hx ev (List.mem_cons_of_mem _ hev))
        cases x with
        | chunk d v => exact absurd rfl (hx _ (by simp) d v)
        | _ => simp [vitalPayloads, nonvitalPayloads, a, b]
    exact key _ hev

theorem core_online {c : Conn} {t : Option Nat} {o : Online} (h : c.state = .online t o) : core c = some o := by
  simp [core, h]

/-- flush / send / resend / the flush of `tick` on an online connection -/
theorem online6 {e : End (Pr tl)} {y : AEnd} (h : AInv cfg (absEnd (Pr tl) core e) y)
    {t : Option Nat} {o o' : Online} (hst : e.conn.state = .online t o) {fl : List Flushed} {ps : List Packet}
    (hem : emit (fl.map (ofFlushed t)) = .ok ps) (sub : List (Bytes × Bool))
    (hok : SendOk cfg o' (e.submittedVital ++ vitalOf sub) (e.submittedNonvital ++ nonvitalOf sub) y.del.length)
    (hfl : FlsOk e.submittedVital e.submittedNonvital o.ack fl) (hack : o'.ack = o.ack)
    (snd' : Timeout) (acc : Bool) :
    AInv cfg (absEnd (Pr tl) core (e.book (ret ⟨.online t o', snd'⟩ { sent := ps } acc) sub)) y := by
  refine sim_send h (core_online hst) (o' := o') rfl fl ?_ ⟨rfl, rfl⟩ sub hok hfl hack
  rw [emit_ok hem]
  exact view_ofFlushed _ _

theorem sendOk_of {e : End (Pr tl)} {y : AEnd} (h : AInv cfg (absEnd (Pr tl) core e) y)
    {t : Option Nat} {o : Online} (hst : e.conn.state = .online t o) :
    SendOk cfg o e.submittedVital e.submittedNonvital y.del.length :=
  h.1.snd o (core_online hst)

theorem tickAction6 {env : Env} {e : End (Pr tl)} {y : AEnd} (h : AInv cfg (absEnd (Pr tl) core e) y)
    {c c' : Conn} {out : Out} (hc : c.state = e.conn.state) (ht : tickAction env c = .ok (c', out)) (acc : Bool) :
    AInv cfg (absEnd (Pr tl) core (e.book (ret c' out acc) [])) y := by
  obtain ⟨st, snd⟩ := c
  simp only at hc
  subst hc
  cases hst : e.conn.state with
  | unconnected =>
    simp only [tickAction, hst] at ht
    injection ht with ht; injection ht with h1 h2; subst h1 h2
    exact quiet6 h (Or.inl (by simp [core, hst])) (by simp) (by simp)
  | disconnected =>
    simp only [tickAction, hst] at ht
    injection ht with ht; injection ht with h1 h2; subst h1 h2
    exact quiet6 h (Or.inl (by simp [core, hst])) (by simp) (by simp)
  | connecting =>
    simp only [tickAction, hst] at ht
    split at ht
    · cases ht
    · rename_i ps hsc
      injection ht with ht; injection ht with h1 h2; subst h1 h2
      obtain ⟨hne, tok, rfl⟩ := sendControl_ok hsc
      refine quiet6 h (Or.inl (by simp [core, hst])) ?_ (by simp)
      intro p hp
      simp at hp; subst hp
      exact Or.inr ⟨by simp [hst], tok, _, by rw [hst]⟩
  | pending t =>
    simp only [tickAction, hst] at ht
    split at ht
    · cases ht
    · rename_i ps hsc
      injection ht with ht; injection ht with h1 h2; subst h1 h2
      obtain ⟨hne, tok, rfl⟩ := sendControl_ok hsc
      refine quiet6 h (Or.inl (by simp [core, hst])) ?_ (by simp)
      intro p hp
      simp at hp; subst hp
      exact Or.inr ⟨by simp [hst], tok, _, by rw [hst]⟩
  | online t o =>
    simp only [tickAction, hst] at ht
    split at ht
    · split at ht
      · cases ht
      · rename_i ps hem
        injection ht with ht; injection ht with h1 h2; subst h1 h2
        obtain ⟨a, b, c⟩ := (sendOk_of h hst).flush
        exact online6 h hst hem [] (by simpa [vitalOf, nonvitalOf] using a) b c _ acc
    · split at ht
      · cases ht
      · rename_i ps hsc
        injection ht with ht; injection ht with h1 h2; subst h1 h2
        obtain ⟨hne, tok, rfl⟩ := sendControl_ok hsc
        refine quiet6 h (Or.inl (by simp [core, hst])) ?_ (by simp)
        intro p hp
        simp at hp; subst hp
        exact Or.inr ⟨by simp [hst], tok, _, by rw [hst]⟩

theorem absEnd_conn (e : End (Pr tl)) (c : Conn) (hcore : core c = core e.conn) :
    absEnd (Pr tl) core { e with conn := c } = absEnd (Pr tl) core e := by
  simp [absEnd, hcore, End.submittedVital, End.submittedNonvital, End.deliveredVital, End.deliveredNonvital]

theorem flsOk_nil (sub nv : List Bytes) (a : Nat) : FlsOk sub nv a [] := by
  intro f hf; simp at hf

/-- **0.6, application calls**: every returning call preserves the invariant (H1 for a vital `send`) -/
theorem call6 (now : Nat) (draws : List Nat) (e : End (Pr tl)) (c : Call) (r : Ret Conn Packet) (y : AEnd)
    (hr : P6.call now draws e.conn c = .ok r) (h : AInv Conn6.cfg (absEnd (Pr tl) core e) y)
    (hh1 : ∀ d, c = .send d true → ∀ o, P6.online e.conn = some o → o.resendQueue.length < 512) :
    AInv Conn6.cfg (absEnd (Pr tl) core (e.book r (subOf c r))) y := by
  cases c with
  | connect =>
    simp only [P6.call] at hr
    split at hr
    · cases hr
    · rename_i c1 out hcon
      injection hr with hr; subst hr
      unfold connect at hcon
      cases hst : e.conn.state with
      | unconnected =>
        simp only [hst] at hcon
        have he' := absEnd_conn (tl := tl) e { e.conn with state := .connecting } (by simp [core, hst])
        rw [← he'] at h
        exact tickAction6 (e := { e with conn := { e.conn with state := .connecting } }) h rfl hcon false
      | _ => simp [hst] at hcon
  | send d v =>
    simp only [P6.call] at hr
    split at hr
    · cases hr
    · rename_i c1 res out hsend
      injection hr with hr; subst hr
      unfold Conn6.send at hsend
      cases hst : e.conn.state with
      | online t o =>
        simp only [hst] at hsend
        split at hsend
        · cases hsend
        · rename_i o1 res' fl hos
          split at hsend
          · cases hsend
          · rename_i ps hem
            injection hsend with hsend; injection hsend with e1 e2; injection e2 with e2 e3
            subst e1 e2 e3
            have hso := sendOk_of h hst
            rcases hso.send Conn6.cfg_ok hos with ⟨r1, r2, r3⟩ | ⟨r1, r2, r3, r4, r5⟩
            · subst r1 r2 r3
              exact online6 h hst hem [] (by simpa [vitalOf, nonvitalOf] using hso) (flsOk_nil _ _ _) rfl _ _
            · subst r1
              cases v with
              | false =>
                exact online6 h hst hem [(d, false)] (by simpa [vitalOf, nonvitalOf] using r4 rfl) r2 r3 _ _
              | true =>
                have hq := hh1 d rfl o (by simp [P6.online, hst])
                exact online6 h hst hem [(d, true)] (by simpa [vitalOf, nonvitalOf] using r5 rfl hq) r2 r3 _ _
      | _ => simp [hst] at hsend
  | sendConnless d =>
    simp only [P6.call] at hr
    split at hr
    · cases hr
    · rename_i c1 res out hsend
      injection hr with hr; subst hr
      unfold Conn6.sendConnless at hsend
      cases hst : e.conn.state with
      | online t o =>
        simp only [hst] at hsend
        split at hsend
        · injection hsend with hsend; injection hsend with e1 e2; injection e2 with e2 e3
          subst e1 e2 e3
          exact quiet6 h (Or.inl (by simp [core, hst])) (by simp) (by simp)
        · split at hsend
          · cases hsend
          · rename_i ps hem
            injection hsend with hsend; injection hsend with e1 e2; injection e2 with e2 e3
            subst e1 e2 e3
            have := emit_ok hem; subst this
            exact quiet6 h (Or.inl (by simp [core, hst])) (by intro p hp; simp at hp; exact Or.inl ⟨_, hp⟩) (by simp)
      | _ => simp [hst] at hsend
  | flush =>
    simp only [P6.call] at hr
    split at hr
    · cases hr
    · rename_i c1 out hfl
      injection hr with hr; subst hr
      unfold Conn6.flush at hfl
      cases hst : e.conn.state with
      | online t o =>
        simp only [hst] at hfl
        split at hfl
        · cases hfl
        · rename_i ps hem
          injection hfl with hfl; injection hfl with e1 e2; subst e1 e2
          obtain ⟨a, b, c⟩ := (sendOk_of h hst).flush
          exact online6 h hst hem [] (by simpa [vitalOf, nonvitalOf] using a) b c _ _
      | _ => simp [hst] at hfl
  | tick =>
    simp only [P6.call] at hr
    split at hr
    · cases hr
    · rename_i c1 out htick
      injection hr with hr; subst hr
      unfold Conn6.tick at htick
      have hidle : ∀ {snd : Timeout}, tickAction ⟨now, draws⟩ ⟨e.conn.state, snd⟩ = .ok (c1, out) →
          AInv Conn6.cfg (absEnd (Pr tl) core (e.book (ret c1 out false) [])) y := by
        intro snd ht
        have he' := absEnd_conn (tl := tl) e ⟨e.conn.state, snd⟩ (by simp [core])
        rw [← he'] at h
        exact tickAction6 (e := { e with conn := ⟨e.conn.state, snd⟩ }) h rfl ht false
      cases hst : e.conn.state with
      | online t o =>
        simp only [hst] at htick
        split at htick
        · unfold resendConn at htick
          split at htick
          · cases htick
          · rename_i o1 send1 fl hrs
            split at htick
            · cases htick
            · rename_i ps hem
              injection htick with htick; injection htick with e1 e2; subst e1 e2
              obtain ⟨a, b, c⟩ := (sendOk_of h hst).resend Conn6.cfg_ok hrs
              exact online6 h hst hem [] (by simpa [vitalOf, nonvitalOf] using a) b c _ _
        · split at htick
          · rw [← hst] at htick; exact hidle htick
          · injection htick with htick; injection htick with e1 e2; subst e1 e2
            exact quiet6 h (Or.inl rfl) (by simp) (by simp)
      | _ =>
        simp only [hst, Bool.false_eq_true, if_false] at htick
        split at htick
        · rw [← hst] at htick; exact hidle htick
        · injection htick with htick; injection htick with e1 e2; subst e1 e2
          exact quiet6 h (Or.inl rfl) (by simp) (by simp)
  | disconnect reason =>
    simp only [P6.call] at hr
    split at hr
    · cases hr
    · rename_i c1 out hdis
      injection hr with hr; subst hr
      unfold Conn6.disconnect at hdis
      split at hdis
      · cases hdis
      · split at hdis
        · cases hdis
        · split at hdis
          · cases hdis
          · rename_i ps hsc
            injection hdis with hdis; injection hdis with e1 e2; subst e1 e2
            obtain ⟨hne, tok, rfl⟩ := sendControl_ok hsc
            refine quiet6 h (Or.inr (by simp [core])) ?_ (by simp)
            intro p hp
            simp at hp; subst hp
            exact Or.inr ⟨hne, tok, _, rfl⟩

end Tw.NetSim.P6
