import Tw.Proofs.SnapDelta
import Tw.Proofs.Packer

/-! Wire forms: a delta written by `Delta::write` / `write_to_ints` is read back unchanged and
without a warning, from integers and from bytes. -/
namespace Tw.Snap
open Tw.Packer (readInt writeInt inI32)

theorem inI32_of_I32 {v : Int} (h : I32 v) : inI32 v := by
  unfold I32 at h; unfold inI32; omega

theorem keyOf_key {k : Int} (h : I32 k) : keyOf (keyType k) (keyId k) = k := by
  unfold I32 at h; unfold keyOf keyType keyId wrap
  have h2 : 0 ≤ (k % 4294967296) / 65536 := by omega
  have h3 : 0 ≤ (k % 4294967296) % 65536 := by omega
  rw [Int.toNat_of_nonneg h2, Int.toNat_of_nonneg h3]
  split <;> omega

theorem keyType_lt (k : Int) : keyType k < 65536 := by unfold keyType; omega
theorem keyId_lt (k : Int) : keyId k < 65536 := by unfold keyId; omega
theorem keyType_keyOf {t id : Nat} (ht : t < 65536) (hi : id < 65536) : keyType (keyOf t id) = t := by
  unfold keyOf keyType wrap; split <;> omega
theorem keyId_keyOf {t id : Nat} (_ht : t < 65536) (hi : id < 65536) : keyId (keyOf t id) = id := by
  unfold keyOf keyId wrap; split <;> omega
theorem keyOf_I32 (t id : Nat) : I32 (keyOf t id) := wrap_I32 _

/-! ### the two encodings of an integer sequence -/

/-- an integer sequence as a reader input: the integers themselves, or their packed bytes -/
def enc (bytes : Bool) (xs : List Int) : Src :=
  if bytes then .bytes (packInts xs) else .ints xs

theorem packInts_cons (x : Int) (xs : List Int) : packInts (x :: xs) = writeInt x ++ packInts xs := by
  simp [packInts]

theorem enc_readInt (f : Bool) {x : Int} (hx : I32 x) (xs : List Int) :
    (enc f (x :: xs)).readInt = some (x, enc f xs, []) := by
  cases f with
  | false => simp [enc, Src.readInt]
  | true =>
    simp only [enc, if_true, Src.readInt, packInts_cons]
    rw [Tw.Packer.readInt_writeInt x (inI32_of_I32 hx)]
    simp

theorem enc_nil_readInt (f : Bool) : (enc f []).readInt = none := by
  cases f <;> simp [enc, Src.readInt, packInts, readInt]

theorem enc_isEmpty_nil (f : Bool) : (enc f []).isEmpty = true := by
  cases f <;> simp [enc, Src.isEmpty, packInts]

theorem enc_isEmpty_cons (f : Bool) (x : Int) (xs : List Int) : (enc f (x :: xs)).isEmpty = false := by
  cases f with
  | false => simp [enc, Src.isEmpty]
  | true =>
    simp only [enc, if_true, Src.isEmpty, packInts_cons]
    have := (Tw.Packer.writeInt_length x).1
    cases h : writeInt x with
    | nil => simp [h] at this
    | cons a b => simp

theorem enc_size_ge (f : Bool) (xs : List Int) : xs.length ≤ (enc f xs).size := by
  cases f with
  | false => simp [enc, Src.size]
  | true =>
    simp only [enc, if_true, Src.size]
    induction xs with
    | nil => simp
    | cons x xs ih =>
      rw [packInts_cons, List.length_append]
      have := (Tw.Packer.writeInt_length x).1
      simp only [List.length_cons]
      omega

/-! ### sorted sets and maps grow at the end when the keys arrive in ascending order -/

theorem sinsert_append_of_lt {k : Int} {l : List Int} (h : ∀ x ∈ l, x < k) : sinsert k l = l ++ [k] := by
  induction l with
  | nil => rfl
  | cons a l ih =>
    have ha := h a (by simp)
    have h1 : ¬ k < a := by omega
    have h2 : ¬ k = a := by omega
    simp only [sinsert, h1, h2, if_false, List.cons_append]
    rw [ih (fun x hx => h x (by simp [hx]))]

theorem minsert_append_of_lt {α : Type} {k : Int} {v : α} {m : List (Int × α)} (h : ∀ p ∈ m, p.1 < k) :
    minsert k v m = m ++ [(k, v)] := by
  induction m with
  | nil => rfl
  | cons a l ih =>
    obtain ⟨k2, v2⟩ := a
    have ha := h (k2, v2) (by simp)
    have h1 : ¬ k < k2 := by simp at ha; omega
    have h2 : ¬ k = k2 := by simp at ha; omega
    simp only [minsert, h1, h2, if_false, List.cons_append]
    rw [ih (fun x hx => h x (by simp [hx]))]

theorem sortedSet_append_cons {acc ks : List Int} {k : Int} (h : SortedSet (acc ++ k :: ks)) :
    (∀ x ∈ acc, x < k) ∧ SortedSet ((acc ++ [k]) ++ ks) := by
  unfold SortedSet at *
  rw [List.append_assoc]
  refine ⟨?_, h⟩
  rw [List.pairwise_append] at h
  intro x hx
  exact h.2.2 x hx k (by simp)

theorem sorted_append_cons {α : Type} {m r : List (Int × α)} {k : Int} {v : α}
    (h : Sorted (m ++ (k, v) :: r)) : (∀ p ∈ m, p.1 < k) ∧ Sorted ((m ++ [(k, v)]) ++ r) := by
  unfold Sorted at *
  rw [List.append_assoc]
  refine ⟨?_, h⟩
  rw [List.map_append, List.pairwise_append] at h
  intro p hp
  exact h.2.2 p.1 (List.mem_map.mpr ⟨p, hp, rfl⟩) k (by simp)

/-! ### reading back what was written -/

theorem readKeys_enc (f : Bool) : ∀ (ks acc : List Int) (rest : List Int) (ws : List Warning),
    (∀ k ∈ ks, I32 k) → SortedSet (acc ++ ks) →
    readKeys ks.length (enc f (ks ++ rest)) acc ws = some (acc ++ ks, enc f rest, ws) := by
  intro ks
  induction ks with
  | nil => intro acc rest ws _ _; simp [readKeys]
  | cons k ks ih =>
    intro acc rest ws hI hs
    obtain ⟨hlt, hs'⟩ := sortedSet_append_cons hs
    simp only [List.length_cons, readKeys, List.cons_append, enc_readInt f (hI k (by simp))]
    rw [sinsert_append_of_lt hlt, List.append_nil, ih (acc ++ [k]) rest ws (fun x hx => hI x (by simp [hx])) hs']
    simp

theorem readData_enc (f : Bool) : ∀ (d rest : List Int), (∀ x ∈ d, I32 x) →
    readData d.length (enc f (d ++ rest)) = some (d, enc f rest, []) := by
  intro d
  induction d with
  | nil => intro rest _; simp [readData]
  | cons x d ih =>
    intro rest hI
    simp only [List.length_cons, readData, List.cons_append, enc_readInt f (hI x (by simp)),
      ih rest (fun y hy => hI y (by simp [hy]))]
    simp

theorem natCast_I32 {n : Nat} (h : n < 2147483648) : I32 (n : Int) := by unfold I32; omega

theorem mfind_none_of_gt {α : Type} {k : Int} {m : List (Int × α)} (h : ∀ p ∈ m, p.1 < k) : mfind k m = none := by
  rw [mfind_eq_none_iff]
  intro hm
  obtain ⟨p, hp, rfl⟩ := List.mem_map.mp hm
  have := h p hp
  omega

theorem readUpdates_enc (f : Bool) (objSize : Nat → Option Nat) (deleted : List Int) :
    ∀ (r : Items) (xs : List Int) (fuel : Nat) (upd : Items) (bl num : Nat) (ws : List Warning),
      writeUpdates objSize r = some xs → r.length ≤ fuel → Sorted (upd ++ r) →
      (∀ p ∈ r, I32 p.1 ∧ (∀ x ∈ p.2, I32 x) ∧ p.1 ∉ deleted) → bl + dataLen r < 2147483648 →
      readUpdates objSize deleted fuel (enc f xs) upd bl num ws = .ok (upd ++ r, num + r.length, ws) := by
  intro r
  induction r with
  | nil =>
    intro xs fuel upd bl num ws hw _ _ _ _
    simp [writeUpdates] at hw; subst hw
    cases fuel <;> simp [readUpdates, enc_isEmpty_nil]
  | cons p r ih =>
    obtain ⟨k, d⟩ := p
    intro xs fuel upd bl num ws hw hf hs hI hb
    cases fuel with
    | zero => simp at hf
    | succ fuel =>
    simp only [writeUpdates] at hw
    cases hr : writeUpdates objSize r with
    | none => simp [hr] at hw
    | some rest =>
      simp only [hr] at hw
      obtain ⟨hkI, hdI, hkd⟩ := hI (k, d) (by simp)
      obtain ⟨hlt, hs'⟩ := sorted_append_cons hs
      rw [dataLen_cons] at hb
      have ih' := ih rest fuel (upd ++ [(k, d)]) (bl + d.length) (num + 1) ws hr
        (by simp at hf; omega) hs' (fun p hp => hI p (by simp [hp])) (by omega)
      have ht : I32 (keyType k : Int) := natCast_I32 (by have := keyType_lt k; omega)
      have hid : I32 (keyId k : Int) := natCast_I32 (by have := keyId_lt k; omega)
      have hfind : mfind k upd = none := mfind_none_of_gt hlt
      have hdel : deleted.contains k = false := by
        simpa [List.contains_iff_mem] using hkd
      have hnot1 : ¬ ((keyType k : Int) < 0 ∨ (keyType k : Int) ≥ 65536) := by have := keyType_lt k; omega
      have hnot2 : ¬ ((keyId k : Int) < 0 ∨ (keyId k : Int) ≥ 65536) := by have := keyId_lt k; omega
      have hb1 : ¬ bl ≥ 4294967296 := by omega
      have hb2 : ¬ bl + d.length ≥ 4294967296 := by omega
      cases ho : objSize (keyType k) with
      | some sz =>
        simp only [ho] at hw
        split at hw
        · simp at hw
        · rename_i hsz
          simp at hsz hw
          subst hw
          subst hsz
          rw [readUpdates]
          simp only [enc_isEmpty_cons, enc_readInt f ht, enc_readInt f hid, hnot1, hnot2, if_false,
            Int.toNat_natCast, ho, hb1, hb2, readData_enc f d rest hdI, keyOf_key hkI, hfind, hdel,
            minsert_append_of_lt hlt]
          simp only [Bool.false_eq_true, if_false, Option.isSome_none, List.append_nil]
          rw [ih']
          simp [List.append_assoc]; omega
      | none =>
        simp only [ho] at hw
        simp at hw
        subst hw
        have hsz : I32 (d.length : Int) := natCast_I32 (by omega)
        have hnn : ¬ ((d.length : Int) < 0) := by omega
        rw [readUpdates]
        simp only [enc_isEmpty_cons, enc_readInt f ht, enc_readInt f hid, hnot1, hnot2, if_false,
          Int.toNat_natCast, ho, enc_readInt f hsz, hnn, hb1, hb2, readData_enc f d rest hdI, keyOf_key hkI,
          hfind, hdel, minsert_append_of_lt hlt]
        simp only [Bool.false_eq_true, if_false, Option.isSome_none, List.append_nil]
        rw [ih']
        simp [List.append_assoc]; omega

theorem writeUpdates_of_sizesOk (objSize : Nat → Option Nat) :
    ∀ m : Items, SizesOk objSize m → ∃ u, writeUpdates objSize m = some u ∧ m.length ≤ u.length := by
  intro m
  induction m with
  | nil => intro _; exact ⟨[], rfl, by simp⟩
  | cons p r ih =>
    obtain ⟨k, d⟩ := p
    intro h
    obtain ⟨u, hu, hl⟩ := ih (fun q hq => h q (by simp [hq]))
    have h0 := h (k, d) (by simp)
    cases ho : objSize (keyType k) with
    | some sz =>
      simp only [ho, szOk] at h0
      simp at h0
      refine ⟨(keyType k : Int) :: (keyId k : Int) :: (d ++ u), ?_, ?_⟩
      · simp only [writeUpdates, hu, ho, h0]; simp
      · simp; omega
    | none =>
      refine ⟨(keyType k : Int) :: (keyId k : Int) :: (d.length : Int) :: (d ++ u), ?_, ?_⟩
      · simp only [writeUpdates, hu, ho]
      · simp; omega

/-- C09, wire form: a well-formed delta written with an object-size table that agrees with its
items is read back unchanged, without any warning, from the integers (`f = false`) and from the
packed bytes (`f = true`). -/
theorem readDelta_writeInts (f : Bool) (objSize : Nat → Option Nat) {d : Delta} (hd : d.WF)
    (hok : SizesOk objSize d.updated) :
    ∃ xs, d.writeInts objSize = some xs ∧ readDelta objSize (enc f xs) = .ok (d, []) := by
  obtain ⟨hdS, hdI, huS, huI, hn1, hn2, hn3⟩ := hd
  obtain ⟨u, hu, hlen⟩ := writeUpdates_of_sizesOk objSize d.updated hok
  refine ⟨(d.deleted.length : Int) :: (d.updated.length : Int) :: 0 :: (d.deleted ++ u),
    by simp only [Delta.writeInts, hu], ?_⟩
  have h1 : I32 (d.deleted.length : Int) := natCast_I32 hn1
  have h2 : I32 (d.updated.length : Int) := natCast_I32 hn2
  have h3 : I32 (0 : Int) := by decide
  have hk := readKeys_enc f d.deleted [] u [] hdI (by simpa using hdS)
  have hfuel : d.updated.length ≤ (enc f u).size := Nat.le_trans hlen (enc_size_ge f u)
  have hru := readUpdates_enc f objSize d.deleted d.updated u (enc f u).size [] 0 0 [] hu hfuel
    (by simpa using huS) huI (by omega)
  have hnn1 : ¬ ((d.deleted.length : Int) < 0) := by omega
  have hnn2 : ¬ ((d.updated.length : Int) < 0) := by omega
  unfold readDelta
  simp only [enc_readInt f h1, enc_readInt f h2, enc_readInt f h3, hnn1, hnn2, if_false, Int.toNat_natCast]
  simp only [List.nil_append] at hk
  rw [hk]
  simp only [hru]
  simp

/-! ### the delta computed by `createDelta` is well-formed -/

theorem maxItems_eq : maxItems = 1024 := rfl
theorem maxSize_eq : maxSize = 65536 := rfl

theorem zipWith_wrapSub_I32 (d f : List Int) : ∀ x ∈ List.zipWith wrapSub d f, I32 x := by
  induction d generalizing f with
  | nil => simp
  | cons a d ih =>
    cases f with
    | nil => simp
    | cons b f =>
      intro x hx
      simp at hx
      rcases hx with rfl | hx
      · exact wrap_I32 _
      · exact ih f x hx

theorem createItemDelta_length {fo : Option (List Int)} {v x : List Int} (h : createItemDelta fo v = some x) :
    x.length = v.length := by
  cases fo with
  | none => simp [createItemDelta] at h; simp [h]
  | some f =>
    simp only [createItemDelta] at h
    split at h
    · simp at h
    · rename_i hl
      simp at hl h
      subst h
      simp [hl]

theorem createUpdates_lens (A : Items) : ∀ (r u : Items), createUpdates A r = some u →
    u.map (fun p => (p.1, p.2.length)) = r.map (fun p => (p.1, p.2.length)) := by
  intro r
  induction r with
  | nil => intro u h; simp [createUpdates] at h; simp [h]
  | cons q r ih =>
    obtain ⟨k, d⟩ := q
    intro u h
    simp only [createUpdates] at h
    cases hc : createItemDelta (mfind k A) d with
    | none => simp [hc] at h
    | some x =>
      cases hr : createUpdates A r with
      | none => simp [hc, hr] at h
      | some xs =>
        simp [hc, hr] at h
        subst h
        simp [ih xs hr, createItemDelta_length hc]

theorem dataLen_eq_of_lens {m1 m2 : Items}
    (h : m1.map (fun p => (p.1, p.2.length)) = m2.map (fun p => (p.1, p.2.length))) :
    dataLen m1 = dataLen m2 ∧ m1.length = m2.length ∧ m1.map Prod.fst = m2.map Prod.fst := by
  have h2 := congrArg (List.map Prod.snd) h
  have h1 := congrArg (List.map Prod.fst) h
  have h3 := congrArg List.length h
  simp only [List.map_map, List.length_map] at h1 h2 h3
  refine ⟨?_, h3, ?_⟩
  · unfold dataLen
    have e : ∀ m : Items, List.map (fun p => p.2.length) m = List.map (Prod.snd ∘ fun p => (p.1, p.2.length)) m := by
      intro m; rfl
    rw [e m1, e m2, h2]
  · have e : ∀ m : Items, List.map Prod.fst m = List.map (Prod.fst ∘ fun p => (p.1, p.2.length)) m := by
      intro m; rfl
    rw [e m1, e m2, h1]

theorem sizesOk_of_lens (objSize : Nat → Option Nat) {m1 m2 : Items}
    (h : m1.map (fun p => (p.1, p.2.length)) = m2.map (fun p => (p.1, p.2.length)))
    (hok : SizesOk objSize m2) : SizesOk objSize m1 := by
  intro p hp
  have : (p.1, p.2.length) ∈ m2.map (fun p => (p.1, p.2.length)) := by
    rw [← h]; exact List.mem_map.mpr ⟨p, hp, rfl⟩
  obtain ⟨q, hq, he⟩ := List.mem_map.mp this
  have := hok q hq
  simp at he
  rw [← he.1, ← he.2]
  exact this

theorem createDelta_WF {a b : RawSnap} {d : Delta} (ha : a.WF) (hb : b.WF) (h : createDelta a b = some d) :
    d.WF ∧ d.updated.map (fun p => (p.1, p.2.length)) = b.items.map (fun p => (p.1, p.2.length)) := by
  obtain ⟨haS, haI, haN, haZ⟩ := ha
  obtain ⟨hbS, hbI, hbN, hbZ⟩ := hb
  unfold createDelta at h
  cases hu : createUpdates a.items b.items with
  | none => simp [hu] at h
  | some u =>
    simp [hu] at h
    subst h
    have hl := createUpdates_lens a.items b.items u hu
    obtain ⟨hdl, hlen, hkeys⟩ := dataLen_eq_of_lens hl
    have hag : ∀ p ∈ b.items, lenAgree (mfind p.1 a.items) p.2.length = true := by
      apply Classical.byContradiction
      intro hn
      rw [createUpdates_none_of_not_agree a.items b.items hn] at hu
      simp at hu
    obtain ⟨u', hu', _, hs⟩ := createUpdates_spec a.items b.items hag
    rw [hu] at hu'
    simp at hu'
    subst hu'
    refine ⟨⟨?_, ?_, ?_, ?_, ?_, ?_, ?_⟩, hl⟩
    · -- deleted keys: a sublist of the sorted keys of `a`
      show SortedSet (List.map Prod.fst (List.filter _ a.items))
      unfold SortedSet
      exact List.Pairwise.sublist (List.Sublist.map _ List.filter_sublist) haS
    · intro k hk
      obtain ⟨p, hp, rfl⟩ := List.mem_map.mp hk
      exact (haI p (List.mem_filter.mp hp).1).1
    · show Sorted u
      unfold Sorted; rw [hkeys]; exact hbS
    · intro p hp
      obtain ⟨dd, hd, hc⟩ := hs p hp
      refine ⟨(hbI _ hd).1, ?_, ?_⟩
      · cases hf : mfind p.1 a.items with
        | none =>
          rw [hf] at hc
          simp [createItemDelta] at hc
          rw [← hc]
          exact (hbI _ hd).2
        | some f =>
          rw [hf] at hc
          simp only [createItemDelta] at hc
          split at hc
          · simp at hc
          · simp at hc
            rw [← hc]
            exact zipWith_wrapSub_I32 dd f
      · intro hmem
        obtain ⟨q, hq, he⟩ := List.mem_map.mp hmem
        have hq2 := (List.mem_filter.mp hq).2
        simp at hq2
        rw [he, mfind_of_mem hbS hd] at hq2
        simp at hq2
    · show (List.map Prod.fst (List.filter _ a.items)).length < 2147483648
      have := List.length_filter_le (fun p => (mfind p.1 b.items).isNone) a.items
      rw [List.length_map]
      rw [maxItems_eq] at haN
      omega
    · show u.length < 2147483648
      rw [hlen]; rw [maxItems_eq] at hbN; omega
    · show dataLen u < 2147483648
      rw [hdl]
      unfold RawSnap.size serializedSize at hbZ
      rw [maxSize_eq] at hbZ
      omega

/-- C09: the complete journey.  For well-formed snapshots with agreeing item sizes and an
object-size table consistent with the target, the delta `Delta::create` computes can be written,
is read back unchanged and without warning from the integer form and from the byte form, and
applied to the old snapshot reproduces the target exactly, again without warning. -/
theorem delta_roundtrip (f : Bool) (objSize : Nat → Option Nat) {a b : RawSnap} (ha : a.WF) (hb : b.WF)
    (hag : SizesAgree a b) (hok : SizesOk objSize b.items) :
    ∃ d xs, createDelta a b = some d ∧ d.writeInts objSize = some xs ∧
      readDelta objSize (enc f xs) = .ok (d, []) ∧ applyDelta a d = .ok (b, []) := by
  obtain ⟨d, hd, hap⟩ := applyDelta_createDelta ha hb hag
  obtain ⟨hwf, hl⟩ := createDelta_WF ha hb hd
  obtain ⟨xs, hw, hr⟩ := readDelta_writeInts f objSize hwf (sizesOk_of_lens objSize hl hok)
  exact ⟨d, xs, hd, hw, hr, hap⟩

end Tw.Snap
