import Tw.Proofs.PacketTwoStep
import Tw.Proofs.Packet7Rewrite

/-! The two-step path `decompress_if_needed` → `read_panic_on_decompression` returns what `Packet::read` returns
(0.7), except for the token-request length rule, which looks at the length of the datagram it is given. -/
namespace Tw.Packet7
open Tw.Packet Tw.PacketBits

/-- the value of a read: the packet or the error, without warnings, slice location and scratch contents;
`none` for `panic` / `diverge` -/
def ReadResult.value : ReadResult → Option (Except ReadError Packet)
  | .ok r => some (.ok r.pkt)
  | .err e _ => some (.error e)
  | .panic _ => none
  | .diverge => none

def bodyValue : Except (ReadError × List Warning) ReadOk → Except ReadError Packet
  | .ok r => .ok r.pkt
  | .error (e, _) => .error e

theorem lift_value (x : Except (ReadError × List Warning) ReadOk) :
    (ReadResult.lift x).value = some (bodyValue x) := by
  cases x with
  | ok r => rfl
  | error e => cases e; rfl

/-- the only place where the reader looks at the length of the datagram: a `Token` control message with
header token `TOKEN_NONE` (a token request) must come in a datagram of at least 519 bytes -/
def tooShortRequest (tok : Token) (total : Nat) : Prop :=
  tok = tokenNone ∧ total < Tw.Gen.Packet7.TOKEN_REQUEST_PACKET_SIZE

instance (tok : Token) (total : Nat) : Decidable (tooShortRequest tok total) := by
  unfold tooShortRequest; infer_instance

theorem controlValue_congr (h h' : PacketHeader) (p : List UInt8) (src src' : Src) (off total total' : Nat)
    (htok : h.token = h'.token) (hT : tooShortRequest h.token total ↔ tooShortRequest h.token total') :
    (controlValue h p src off total).map (·.1) = (controlValue h' p src' off total').map (·.1) := by
  unfold controlValue
  split
  · rfl
  · dsimp only
    rw [← htok]
    have hT' : (h.token = tokenNone ∧ total < Tw.Gen.Packet7.TOKEN_REQUEST_PACKET_SIZE) ↔
        (h.token = tokenNone ∧ total' < Tw.Gen.Packet7.TOKEN_REQUEST_PACKET_SIZE) := hT
    split
    · rfl
    · split
      · split <;> rfl
      · split
        · rfl
        · split
          · rfl
          · split
            · by_cases hx : h.token = tokenNone ∧ total < Tw.Gen.Packet7.TOKEN_REQUEST_PACKET_SIZE
              · rw [if_pos hx, if_pos (hT'.mp hx)]
              · rw [if_neg hx, if_neg (fun y => hx (hT'.mpr y))]
            · rfl

theorem readBody_value_congr (h h' : PacketHeader) (wh wh' : List Warning) (p : List UInt8) (src src' : Src)
    (sc sc' : List UInt8) (total total' : Nat)
    (hc : (h.flags &&& Tw.Gen.Packet7.PACKETFLAG_CONTROL ≠ 0) ↔ (h'.flags &&& Tw.Gen.Packet7.PACKETFLAG_CONTROL ≠ 0))
    (hr : (h.flags &&& Tw.Gen.Packet7.PACKETFLAG_REQUEST_RESEND ≠ 0) ↔
      (h'.flags &&& Tw.Gen.Packet7.PACKETFLAG_REQUEST_RESEND ≠ 0))
    (ha : h.ack = h'.ack) (hn : h.numChunks = h'.numChunks) (htok : h.token = h'.token)
    (hT : tooShortRequest h.token total ↔ tooShortRequest h.token total') :
    bodyValue (readBody h wh p src sc total) = bodyValue (readBody h' wh' p src' sc' total') := by
  have hrd : decide (h.flags &&& Tw.Gen.Packet7.PACKETFLAG_REQUEST_RESEND ≠ 0) =
      decide (h'.flags &&& Tw.Gen.Packet7.PACKETFLAG_REQUEST_RESEND ≠ 0) := by simp only [hr]
  unfold readBody readControl
  by_cases hl : p.length > Tw.Gen.Packet7.READ_PAYLOAD_LIMIT
  · rw [if_pos hl, if_pos hl]; rfl
  · rw [if_neg hl, if_neg hl]
    by_cases hcc : h.flags &&& Tw.Gen.Packet7.PACKETFLAG_CONTROL ≠ 0
    · rw [if_pos hcc, if_pos (hc.mp hcc)]
      have hs := controlValue_congr h h' p src src' Tw.Gen.Packet7.HEADER_SIZE total total' htok hT
      cases h1 : controlValue h p src Tw.Gen.Packet7.HEADER_SIZE total with
      | error e =>
        rw [h1] at hs
        cases h2 : controlValue h' p src' Tw.Gen.Packet7.HEADER_SIZE total' with
        | error e' => rw [h2] at hs; simp only [Except.map] at hs; injection hs with hs; subst hs; rfl
        | ok x => rw [h2] at hs; simp [Except.map] at hs
      | ok x =>
        rw [h1] at hs
        cases h2 : controlValue h' p src' Tw.Gen.Packet7.HEADER_SIZE total' with
        | error e' => rw [h2] at hs; simp [Except.map] at hs
        | ok x' =>
          rw [h2] at hs
          simp only [Except.map, Except.ok.injEq] at hs
          obtain ⟨c, l⟩ := x
          obtain ⟨c', l'⟩ := x'
          simp only at hs
          subst hs
          simp only [bodyValue, ha, htok]
    · rw [if_neg hcc, if_neg (fun x => hcc (hc.mpr x))]
      simp only [bodyValue, ha, hn, hrd, htok]

theorem needsDecompression_facts (bytes : List UInt8) (h : needsDecompression bytes = true) :
    bytes.length ≤ Tw.Gen.Packet7.MAX_PACKETSIZE ∧ Tw.Gen.Packet7.HEADER_SIZE ≤ bytes.length ∧
    (headerOf bytes).1.flags &&& Tw.Gen.Packet7.PACKETFLAG_CONNLESS = 0 ∧
    (headerOf bytes).1.flags &&& Tw.Gen.Packet7.PACKETFLAG_COMPRESSION ≠ 0 := by
  unfold needsDecompression at h
  split at h
  · simp at h
  · split at h
    · simp at h
    · simp only [decide_eq_true_eq] at h
      exact ⟨by omega, by omega, h.1, h.2⟩

/-- `read_panic_on_decompression` on a datagram of at least seven bytes that is not too long -/
theorem read_long_none (t : Huffman.Table) (bytes : List UInt8)
    (hlen : bytes.length ≤ Tw.Gen.Packet7.MAX_PACKETSIZE) (h7 : Tw.Gen.Packet7.HEADER_SIZE ≤ bytes.length) :
    read t bytes none =
      if (headerOf bytes).1.flags &&& Tw.Gen.Packet7.PACKETFLAG_CONNLESS ≠ 0 then
        .lift (readConnless bytes (headerOf bytes).2)
      else if (headerOf bytes).1.flags &&& Tw.Gen.Packet7.PACKETFLAG_COMPRESSION ≠ 0 then
        .panic "read_panic_on_decompression called on compressed packet"
      else .lift (readBody (headerOf bytes).1 (headerOf bytes).2 (bytes.drop Tw.Gen.Packet7.HEADER_SIZE) .input []
              bytes.length) := by
  unfold read
  have h2 : ¬ bytes.length > Tw.Gen.Packet7.MAX_PACKETSIZE := by omega
  have h3 : ¬ bytes.length < Tw.Gen.Packet7.HEADER_SIZE := by omega
  simp only [Bool.false_eq_true, if_false, h2, h3]
  rfl

/-- the header of what `decompress` produced: the original header without the compression flag -/
theorem headerOf_decompressed (bytes out : List UInt8) :
    headerOf (fakeHeader bytes ++ out) =
      (⟨(headerOf bytes).1.flags &&& (255 - Tw.Gen.Packet7.PACKETFLAG_COMPRESSION), (headerOf bytes).1.ack,
        (headerOf bytes).1.numChunks, tok4 (bytes.drop 3)⟩, []) := by
  have hb := unpack_flags_lt (bytes.getD 0 0).toNat (bytes.getD 1 0).toNat (bytes.getD 2 0).toNat
    (tok4 (bytes.drop 3)) (UInt8.toNat_lt _)
  have hf : (headerOf bytes).1.flags &&& (255 - Tw.Gen.Packet7.PACKETFLAG_COMPRESSION) < 16 :=
    Nat.lt_of_le_of_lt Nat.and_le_left hb.1
  have hnc : (headerOf bytes).1.numChunks < 256 := by
    unfold headerOf
    rw [ph_unpack_eq _ _ _ _ (UInt8.toNat_lt _)]; exact UInt8.toNat_lt _
  exact headerOf_written
    ⟨(headerOf bytes).1.flags &&& (255 - Tw.Gen.Packet7.PACKETFLAG_COMPRESSION), (headerOf bytes).1.ack,
      (headerOf bytes).1.numChunks, tok4 (bytes.drop 3)⟩ hf hb.2 hnc out

theorem and_clear_other (x m k : Nat) (hk : (255 - m) &&& k = k) : (x &&& (255 - m)) &&& k = x &&& k := by
  rw [Nat.and_assoc, hk]

/-- **two-step path (0.7)**: if `decompress_if_needed` decompressed the datagram into `s` (not longer than a
packet), and the token-request length rule gives the same verdict for the length of the datagram and
for the length of `s` (hypothesis `hT`; it can only differ for a header token `TOKEN_NONE` with
`bytes.length < 519 ≤ s.length`), then `read_panic_on_decompression` on `s` returns the same packet, or
the same error, as `Packet::read` on the datagram. -/
theorem two_step_value (t : Huffman.Table) (bytes : List UInt8) (cap : Nat) (s : List UInt8)
    (h : decompressIfNeeded t bytes cap = .ok true s) (hs : s.length ≤ Tw.Gen.Packet7.MAX_PACKETSIZE)
    (hT : tooShortRequest (headerOf bytes).1.token bytes.length ↔ tooShortRequest (headerOf bytes).1.token s.length) :
    (read t s none).value = (read t bytes (some cap)).value := by
  have hH : Tw.Gen.Packet7.HEADER_SIZE = 7 := by decide
  obtain ⟨hcap, hn, hd⟩ := din_cases t bytes cap s h
  obtain ⟨hlen, h7, hconn, hcomp⟩ := needsDecompression_facts bytes hn
  have hd' := hd
  rw [decompress_eq t bytes cap hcap hn] at hd'
  cases hdec : Huffman.decompress t (bytes.drop 7) (cap - 7) with
  | capacity => rw [hdec] at hd'; simp at hd'
  | diverge => rw [hdec] at hd'; simp at hd'
  | ok out =>
    rw [hdec] at hd'
    simp only [DecompressResult.ok.injEq] at hd'
    subst hd'
    -- the direct read
    rw [read_long t bytes cap hcap hlen h7, if_neg (by simp [hconn]), if_pos hcomp, hd]
    simp only
    have hsl : (fakeHeader bytes ++ out).length = out.length + 7 := by
      simp only [List.length_append, fakeHeader_length]; omega
    rw [if_neg (by rw [hsl, hH]; omega), hH, List.drop_left' (fakeHeader_length bytes), lift_value]
    -- the two-step read
    have c8 : (255 - Tw.Gen.Packet7.PACKETFLAG_COMPRESSION) &&& Tw.Gen.Packet7.PACKETFLAG_CONNLESS =
        Tw.Gen.Packet7.PACKETFLAG_CONNLESS := by decide
    have c1 : (255 - Tw.Gen.Packet7.PACKETFLAG_COMPRESSION) &&& Tw.Gen.Packet7.PACKETFLAG_CONTROL =
        Tw.Gen.Packet7.PACKETFLAG_CONTROL := by decide
    have c2 : (255 - Tw.Gen.Packet7.PACKETFLAG_COMPRESSION) &&& Tw.Gen.Packet7.PACKETFLAG_REQUEST_RESEND =
        Tw.Gen.Packet7.PACKETFLAG_REQUEST_RESEND := by decide
    have c4 : (255 - Tw.Gen.Packet7.PACKETFLAG_COMPRESSION) &&& Tw.Gen.Packet7.PACKETFLAG_COMPRESSION = 0 := by decide
    rw [read_long_none t _ hs (by rw [hsl, hH]; omega), headerOf_decompressed bytes out]
    simp only
    rw [if_neg (by rw [and_clear_other _ _ _ c8]; simp [hconn]),
      if_neg (by rw [Nat.and_assoc, c4, Nat.and_zero]; simp), hH, List.drop_left' (fakeHeader_length bytes),
      lift_value]
    congr 1
    have htk : (headerOf bytes).1.token = tok4 (bytes.drop 3) := rfl
    apply readBody_value_congr
    · simp only; rw [and_clear_other _ _ _ c1]
    · simp only; rw [and_clear_other _ _ _ c2]
    · rfl
    · rfl
    · rfl
    · simp only; rw [← htk]; exact hT.symm

end Tw.Packet7

namespace Tw.Packet7
open Tw.Packet Tw.PacketBits

/-- a token request as a peer may send it compressed: header `Control | Compression`, token `TOKEN_NONE`,
then the Huffman-compressed 512-byte body `05 <response token> 00 … 00` -/
def compressedTokenRequest (t : Huffman.Table) (rt : Token) : List UInt8 :=
  hdrBytes ((Tw.Gen.Packet7.PACKETFLAG_CONTROL ||| Tw.Gen.Packet7.PACKETFLAG_COMPRESSION) * 4 + 0 / 256, 0 % 256, 0)
    tokenNone ++ Huffman.compress t false (ctrlBody (.token rt) tokenNone)

/-- **witness for the exemption**: a compressed token request whose datagram is shorter than 519 bytes is
refused by `Packet::read` (`ControlTokenRequestTooShort`: the rule looks at the wire length), while the
two-step path `decompress_if_needed` → `read_panic_on_decompression` accepts it as `Token(rt)` (it sees the
519 decompressed bytes). -/
theorem two_step_token_request_witness (t : Huffman.Table) (hrt : HuffmanRoundTrip t) (rt : Token)
    (hne : rt ≠ tokenNone)
    (hshort : (Huffman.compress t false (ctrlBody (.token rt) tokenNone)).length + 7 <
      Tw.Gen.Packet7.TOKEN_REQUEST_PACKET_SIZE) :
    ∃ s, decompressIfNeeded t (compressedTokenRequest t rt) Tw.Gen.Packet7.MAX_PACKETSIZE = .ok true s ∧
      s.length = Tw.Gen.Packet7.TOKEN_REQUEST_PACKET_SIZE ∧
      (read t (compressedTokenRequest t rt) (some Tw.Gen.Packet7.MAX_PACKETSIZE)).value =
        some (.error .controlTokenRequestTooShort) ∧
      (read t s none).value = some (.ok (.connected 0 tokenNone (.control (.token rt)))) := by
  have hM : Tw.Gen.Packet7.MAX_PACKETSIZE = 1400 := by decide
  have hH : Tw.Gen.Packet7.HEADER_SIZE = 7 := by decide
  have hT : Tw.Gen.Packet7.TOKEN_REQUEST_PACKET_SIZE = 519 := by decide
  have hL : Tw.Gen.Packet7.READ_PAYLOAD_LIMIT = 1393 := by decide
  have hP : TOKEN_REQUEST_PADDING = 507 := by decide
  have hbl : (ctrlBody (.token rt) tokenNone).length = 512 := by
    simp only [ctrlBody, if_true, List.length_cons, List.length_append, Token.toList, List.length_nil,
      List.length_replicate, hP]
  -- the header that was "written"
  let h0 : PacketHeader := ⟨Tw.Gen.Packet7.PACKETFLAG_CONTROL ||| Tw.Gen.Packet7.PACKETFLAG_COMPRESSION, 0, 0, tokenNone⟩
  have hf : h0.flags < 16 := by decide
  have h8 : h0.flags &&& Tw.Gen.Packet7.PACKETFLAG_CONNLESS = 0 := by decide
  have h4 : h0.flags &&& Tw.Gen.Packet7.PACKETFLAG_COMPRESSION ≠ 0 := by decide
  have hbytes : compressedTokenRequest t rt =
      hdrBytes (h0.flags * 4 + h0.ack / 256, h0.ack % 256, h0.numChunks) h0.token ++
        Huffman.compress t false (ctrlBody (.token rt) tokenNone) := rfl
  have hlen : (compressedTokenRequest t rt).length < 519 := by
    rw [hbytes, hdrBytes_append_length]; omega
  have hge : 7 ≤ (compressedTokenRequest t rt).length := by
    rw [hbytes, hdrBytes_append_length]; omega
  have hu := headerOf_written h0 hf (by decide) (by decide) (Huffman.compress t false (ctrlBody (.token rt) tokenNone))
  rw [← hbytes] at hu
  have hnd : needsDecompression (compressedTokenRequest t rt) = true :=
    needsDecompression_of _ (by omega) (by omega) (by rw [hu]; simp [h8]) (by rw [hu]; exact h4)
  have hde := decompress_eq t (compressedTokenRequest t rt) Tw.Gen.Packet7.MAX_PACKETSIZE (Nat.le_refl _) hnd
  have hdrop : (compressedTokenRequest t rt).drop 7 = Huffman.compress t false (ctrlBody (.token rt) tokenNone) := rfl
  rw [hdrop, hrt _ _ (by omega)] at hde
  simp only at hde
  refine ⟨fakeHeader (compressedTokenRequest t rt) ++ ctrlBody (.token rt) tokenNone, ?_, ?_, ?_, ?_⟩
  · unfold decompressIfNeeded
    rw [if_neg (by omega)]
    simp only [hnd, not_true_eq_false, if_false, hde]
  · simp only [List.length_append, fakeHeader_length, hbl, hT]
  · -- the direct read refuses: the datagram is shorter than 519 bytes
    rw [read_long t _ _ (Nat.le_refl _) (by omega) (by omega), hu]
    rw [if_neg (by simp [h8]), if_pos h4, hde]
    simp only
    rw [if_neg (by simp only [List.length_append, fakeHeader_length, hbl, hH]; omega), hH,
      List.drop_left' (fakeHeader_length _), lift_value]
    unfold readBody readControl
    rw [if_neg (by omega), if_pos (by decide)]
    have hcv : controlValue h0 (ctrlBody (.token rt) tokenNone) .scratch Tw.Gen.Packet7.HEADER_SIZE
        (compressedTokenRequest t rt).length = .error .controlTokenRequestTooShort := by
      unfold controlValue ctrlBody
      simp only [Control.magic]
      rw [toNat_ofNat_lt _ (by decide : Tw.Gen.Packet7.CTRLMSG_TOKEN < 256)]
      simp only [Tw.Gen.Packet7.CTRLMSG_TOKEN, Tw.Gen.Packet7.CTRLMSG_KEEPALIVE, Tw.Gen.Packet7.CTRLMSG_CONNECT,
        Tw.Gen.Packet7.CTRLMSG_ACCEPT, Tw.Gen.Packet7.CTRLMSG_CLOSE, hT]
      simp [h0, hlen]
    rw [hcv]
    rfl
  · -- the two-step read accepts
    have hsl : (fakeHeader (compressedTokenRequest t rt) ++ ctrlBody (.token rt) tokenNone).length = 519 := by
      simp only [List.length_append, fakeHeader_length, hbl]
    rw [read_long_none t _ (by omega) (by omega), headerOf_decompressed]
    simp only
    rw [hu]
    have e1 : h0.flags &&& (255 - Tw.Gen.Packet7.PACKETFLAG_COMPRESSION) = Tw.Gen.Packet7.PACKETFLAG_CONTROL := by decide
    rw [e1, if_neg (by decide), if_neg (by decide), hH, List.drop_left' (fakeHeader_length _), lift_value, hsl]
    unfold readBody
    rw [if_neg (by omega), if_pos (by simp only; decide)]
    have htk : tok4 ((compressedTokenRequest t rt).drop 3) = tokenNone := rfl
    rw [htk]
    have hrc := readControl_ctrlBody 0 (.token rt) tokenNone .input Tw.Gen.Packet7.HEADER_SIZE hne
    rw [hbl] at hrc
    rw [hrc]
    rfl

end Tw.Packet7
