import Tw.Proofs.ConnFairH
import Tw.Proofs.ConnTimed6

/-!
# C02 (c), 0.6: the generalised interface (acceptor online or pending) and the handshake round
-/
namespace Tw.NetSim.P6
open Tw.Conn Tw.Conn6 Tw.Time Tw.NetSim

def kindOf (k : Nat) : Control :=
  if k = 1 then .accept else if k = 2 then .connectAccept else .keepAlive

def pktH (t : Option Nat) : DgH → Packet
  | .chunk f => ofFlushed t f
  | .ctl k a => .control a t (kindOf k)

/-- online with core `o`, or pending (then the core is the fresh one) -/
def Sh (t : Option Nat) (o : Online) (c : Conn) : Prop :=
  (∃ s, c = ⟨.online t o, s⟩) ∨ (o = .new ∧ ∃ s, c = ⟨.pending t, s⟩)

def conv : Dg → DgH
  | .chunk f => .chunk f
  | .ka a => .ctl 0 a

theorem conv_pkt (tl : Bool) (t : Option Nat) (d : Dg) : (iface6 tl).pkt t d = pktH t (conv d) := by
  cases d <;> rfl

theorem conv_fl (d : Dg) : (conv d).fl = d.fl := by cases d <;> rfl

theorem kindOf_ne_close (k : Nat) (r : Bytes) : kindOf k ≠ .close r := by
  unfold kindOf; split
  · simp
  · split <;> simp

theorem emit_ctl (a : Nat) (t : Option Nat) (k : Nat) :
    emit [.control a t (kindOf k)] = .ok [.control a t (kindOf k)] :=
  Tw.Conn6.emit_ok (by
    intro p hp; simp at hp; subst hp
    exact Tw.Conn6.control_valid a t _ (by intro r hr; exact absurd hr (kindOf_ne_close k r)))

theorem pktH_ca (t : Option Nat) : pktH t (.ctl 2 0) = .control 0 t .connectAccept := rfl

theorem feedBody_ctl_online (env : Env) (t : Option Nat) (o : Online) (s : Timeout) (tok t' : Option Nat) (a k : Nat) :
    feedBody env ⟨.online t o, s⟩ tok (.control a t' (kindOf k)) = .ok (⟨.online t o, s⟩, {}) := by
  unfold kindOf; split
  · simp [feedBody]
  · split <;> simp [feedBody]

theorem feedBody_ctl_pending (env : Env) (t : Option Nat) (s : Timeout) (tok t' : Option Nat) (a k : Nat) :
    feedBody env ⟨.pending t, s⟩ tok (.control a t' (kindOf k)) = .ok (⟨.pending t, s⟩, {}) := by
  unfold kindOf; split
  · simp [feedBody]
  · split <;> simp [feedBody]

theorem tick_pending (now : Nat) (t : Option Nat) (s : Timeout) (h : s.triggered now = true) :
    P6.call now [] ⟨.pending t, s⟩ .tick =
      .ok { conn := ⟨.pending t, Timeout.after now sendUs⟩, sent := [.control 0 t .connectAccept] } := by
  have hem : emit [.control 0 t .connectAccept] = .ok [.control 0 t .connectAccept] := emit_ctl 0 t 2
  simp [P6.call, Conn6.tick, h, tickAction, sendControl, controlPacket, hem]

theorem new_feedAck {a : Nat} (h : a < seqMod) : Online.new.feedAck a = .ok .new := by
  simp [Online.feedAck, Nat.not_le.mpr h, Online.ackChunks, Online.new]

/-- `feed` on a pending connection, for a non-close connected datagram whose token matches -/
theorem recv_pending6 (tl : Bool) (now : Nat) (draws : List Nat) (ty : Option Nat) (s : Timeout)
    (q : Packet) (alt : Alt) (token : Option Nat) (ack : Nat) (hq : ∀ r a t, q ≠ .control a t (.close r))
    (hta : (if tl = true then strip q else q).tokenAck? = some (token, ack))
    (htok : token = ty) (hh : hasToken (if tl = true then strip q else q) = ty.isSome) :
    feed ⟨now, draws⟩ ⟨.pending ty, s⟩ (wireRead tl q alt) =
      feedBody ⟨now, draws⟩ ⟨.pending ty, s⟩ token (if tl = true then strip q else q) := by
  have hw : wireRead tl q alt (some ty.isSome) = some (if tl = true then strip q else q) := by
    unfold wireRead
    simp only
    generalize hq' : (if tl = true then strip q else q) = q' at hh hta
    have hnc : ∀ r a t, q' ≠ .control a t (.close r) := by
      intro r a t h
      cases tl
      · simp at hq'; rw [hq'] at hq; exact hq r a t h
      · simp at hq'
        cases q with
        | connless d => simp [strip] at hq'; rw [← hq'] at h; cases h
        | chunks a' t' rr n cs => simp [strip] at hq'; rw [← hq'] at h; cases h
        | control a' t' c =>
          simp [strip] at hq'; rw [← hq'] at h
          injection h with _ _ h; subst h; exact hq r a' t' rfl
    cases q' with
    | connless d => simp [Packet.tokenAck?] at hta
    | chunks a t rr n cs => simp [hh]
    | control a t c =>
      cases c with
      | close r => exact absurd rfl (hnc r a t)
      | _ => simp [hh]
  unfold feed
  simp only [Conn.hint, State.token?, Option.map_some]
  rw [hw]
  simp only [hta, htok]
  simp

set_option maxRecDepth 4000 in
def gface6 (tl : Bool) : GIface (proto6 tl) core Conn6.cfg Timed where
  Tok := Option Nat
  Sh := Sh
  pkt := pktH
  peer := fun tx ty => tx = ty ∧ (tl = true → ty = none)
  core_sh := by
    intro t o c h
    rcases h with ⟨s, rfl⟩ | ⟨rfl, s, rfl⟩ <;> rfl
  view_pkt := by intro t d; cases d <;> rfl
  online_sh := by
    intro t o c h
    rcases h with ⟨s, rfl⟩ | ⟨rfl, s, rfl⟩
    · exact Or.inl rfl
    · exact Or.inr ⟨rfl, rfl⟩
  tickPhase := by
    intro now0 t o c h hinv hack hS
    rcases h with ⟨s, rfl⟩ | ⟨rfl, s, rfl⟩
    · obtain ⟨c1, o2, s2, d1, d2, e1, e2, hps, hne⟩ :=
        (iface6 tl).tickPhase Conn6.cfg_ok (now0 := now0) (t := t) (s := s) hinv hack hS.1 hS.2
      have hmap : ∀ ds : List Dg, (ds.map conv).map (pktH t) = ds.map ((iface6 tl).pkt t) := by
        intro ds; rw [List.map_map]; exact List.map_congr_left (fun d _ => (conv_pkt tl t d).symm)
      refine ⟨c1, _, o2, d1.map conv, d2.map conv, ?_, ?_, Or.inl ⟨s2, rfl⟩, ?_, by simpa using hne⟩
      · exact e1.trans (congrArg (fun l => Except.ok ({ conn := c1, sent := l } : Ret Conn Packet)) (hmap d1).symm)
      · exact e2.trans (congrArg (fun l => Except.ok ({ conn := ⟨.online t o2, s2⟩, sent := l } : Ret Conn Packet))
          (hmap d2).symm)
      · simpa [List.map_map, Function.comp_def, conv_fl] using hps
    · have hs : SendDue now0 s := hS
      have t1 : s.triggered (now0 + resendUs) = true := by
        apply hs.triggered; rw [sendUs_val, resendUs_val]; omega
      generalize now0 + resendUs = T1 at t1 ⊢
      have t2 : (Timeout.after T1 sendUs).triggered (T1 + sendUs) = true := by
        simp [Timeout.after, Timeout.triggered]
      generalize T1 + sendUs = T2 at t2 ⊢
      refine ⟨⟨.pending t, Timeout.after T1 sendUs⟩,
        ⟨.pending t, Timeout.after T2 sendUs⟩, .new, [.ctl 2 0], [.ctl 2 0], ?_, ?_,
        Or.inr ⟨rfl, _, rfl⟩, ?_, by simp⟩
      · exact tick_pending T1 t s t1
      · exact tick_pending T2 t (Timeout.after T1 sendUs) t2
      · have := PhaseSpec.of_flush_kas (Online.new_inv Conn6.cfg) (o := .new) rfl
          [⟨0, false, 0, []⟩, ⟨0, false, 0, []⟩] (by simp [Online.new]) (by simp)
        have hf : (Online.new).flush = (Online.new, []) := by
          simp [Online.flush, Online.canSend, Online.new, PacketContents.empty]
        rw [hf] at this
        simpa [DgH.fl] using this
  recv_dg := by
    intro now draws tx ty o c d alt h hp hinv hack hseq
    obtain ⟨rfl, hty⟩ := hp
    rcases h with ⟨s, rfl⟩ | ⟨rfl, s, rfl⟩
    · -- online receiver
      cases d with
      | chunk f =>
        obtain ⟨o2, s2, r, fl, h1, h2, h3, h4, h5⟩ :=
          (iface6 tl).recv_dg' Conn6.cfg_ok (now := now) (draws := draws) (tx := tx) (ty := tx) (s := s)
            (.chunk f) alt ⟨rfl, hty⟩ hinv hack hseq
        exact ⟨o2, r, fl, h1, Or.inl ⟨s2, h2⟩, h3, h4, h5⟩
      | ctl k a =>
        obtain ⟨hfa, _⟩ := Online.feedAck_spec hinv hack
        refine ⟨_, ⟨⟨.online tx (o.ackChunks a), s⟩, [], [], false⟩, [], ?_, Or.inl ⟨s, rfl⟩,
          ⟨now, s, s, _, [], [], hfa, receive_nil now _ s⟩, rfl, fun _ => rfl⟩
        show P6.recv tl now draws ⟨.online tx o, s⟩ (.control a tx (kindOf k)) alt = _
        unfold P6.recv
        rw [recv_online6 tl now draws tx o s (.control a tx (kindOf k)) alt tx a
          (by intro r a' t h; injection h with _ _ h; exact kindOf_ne_close k r h)
          (by intro d h; cases h)
          (by cases tl <;> simp_all [strip, Packet.tokenAck?])
          rfl (by cases tl <;> simp_all [strip, hasToken]) _ hfa]
        cases tl <;> simp [strip, feedBody_ctl_online] <;> rfl
    · -- pending receiver: the core is the fresh one
      have hfa := new_feedAck hack
      cases d with
      | chunk f =>
        obtain ⟨o2, s2, fl, evs, hrc, _, hval, _⟩ :=
          Online.receive_spec Conn6.cfg_ok (Online.new_inv Conn6.cfg) now s f.requestResend f.chunks hseq
        refine ⟨o2, ⟨⟨.online tx o2, s2⟩, fl.map (ofFlushed tx), evs, false⟩, fl, ?_, Or.inl ⟨s2, rfl⟩,
          ⟨now, s, s2, _, fl, evs, hfa, hrc⟩, rfl, fun _ => receive_fl_nil rfl hrc⟩
        show P6.recv tl now draws ⟨.pending tx, s⟩ (ofFlushed tx f) alt = _
        unfold P6.recv
        rw [recv_pending6 tl now draws tx s (ofFlushed tx f) alt tx f.ack (by intro r a t h; cases h)
          (by cases tl <;> simp_all [ofFlushed, strip, Packet.tokenAck?])
          rfl (by cases tl <;> simp_all [ofFlushed, strip, hasToken])]
        cases tl <;> simp [ofFlushed, strip, feedBody, hrc, (Tw.Conn6.emit_flushed tx hval).1] <;> rfl
      | ctl k a =>
        refine ⟨.new, ⟨⟨.pending tx, s⟩, [], [], false⟩, [], ?_, Or.inr ⟨rfl, s, rfl⟩,
          ⟨now, s, s, _, [], [], hfa, receive_nil now _ s⟩, rfl, fun _ => rfl⟩
        show P6.recv tl now draws ⟨.pending tx, s⟩ (.control a tx (kindOf k)) alt = _
        unfold P6.recv
        rw [recv_pending6 tl now draws tx s (.control a tx (kindOf k)) alt tx a
          (by intro r a' t h; injection h with _ _ h; exact kindOf_ne_close k r h)
          (by cases tl <;> simp_all [strip, Packet.tokenAck?])
          rfl (by cases tl <;> simp_all [strip, hasToken])]
        cases tl <;> simp [strip, feedBody_ctl_pending] <;> rfl

/-! ## the handshake steps, as equations -/

/-- the token the acceptor ends up with: none towards a peer without tokens, the drawn one otherwise -/
def tokB (tl : Bool) (nt : Nat) : Option Nat := if tl then none else some nt

theorem emit_connect : emit [.control 0 (some TOKEN_NONE) .connect] = .ok [.control 0 (some TOKEN_NONE) .connect] :=
  Tw.Conn6.emit_ok (by
    intro p hp; simp at hp; subst hp
    exact Tw.Conn6.control_valid 0 _ .connect (by intro r hr; cases hr))

theorem tick_connecting (now : Nat) (s : Timeout) (h : s.triggered now = true) :
    P6.call now [] ⟨.connecting, s⟩ .tick =
      .ok { conn := ⟨.connecting, Timeout.after now sendUs⟩, sent := [.control 0 (some TOKEN_NONE) .connect] } := by
  simp [P6.call, Conn6.tick, h, tickAction, sendControl, controlPacket, emit_connect]

theorem tick_unconnected (now : Nat) (s : Timeout) :
    ∃ s', P6.call now [] ⟨.unconnected, s⟩ .tick = .ok { conn := ⟨.unconnected, s'⟩, sent := [] } := by
  by_cases h : s.triggered now = true
  · exact ⟨.inactive, by simp [P6.call, Conn6.tick, h, tickAction]⟩
  · exact ⟨s, by simp [P6.call, Conn6.tick, h]⟩

theorem recv_unc_connect (tl : Bool) (now : Nat) (draws : List Nat) (s : Timeout) (alt : Alt) (nt : Nat)
    (hnt : tokenRandom draws = some nt) :
    P6.recv tl now draws ⟨.unconnected, s⟩ (.control 0 (some TOKEN_NONE) .connect) alt =
      .ok { conn := ⟨.pending (tokB tl nt), Timeout.after now sendUs⟩,
            sent := [.control 0 (tokB tl nt) .connectAccept] } := by
  have hem : ∀ t, emit [.control 0 t .connectAccept] = .ok [.control 0 t .connectAccept] := fun t => emit_ctl 0 t 2
  cases tl <;>
    simp [P6.recv, feed, Conn.hint, State.token?, wireRead, strip, hasToken, Packet.tokenAck?, feedBody, hnt,
      tickAction, sendControl, controlPacket, hem, tokB]

theorem tokenRandom_ne {draws : List Nat} {nt : Nat} (h : tokenRandom draws = some nt) : nt ≠ TOKEN_NONE := by
  induction draws with
  | nil => simp [tokenRandom] at h
  | cons d ds ih =>
    simp only [tokenRandom] at h
    split at h
    · rename_i hd; injection h with h; subst h; exact hd.1
    · exact ih h

theorem recv_pend_connect (tl : Bool) (now : Nat) (draws : List Nat) (s : Timeout) (alt : Alt) (nt : Nat)
    (hne : nt ≠ TOKEN_NONE) :
    P6.recv tl now draws ⟨.pending (tokB tl nt), s⟩ (.control 0 (some TOKEN_NONE) .connect) alt =
      .ok { conn := ⟨.pending (tokB tl nt), s⟩ } := by
  cases tl <;>
    simp [P6.recv, feed, Conn.hint, State.token?, wireRead, strip, hasToken, Packet.tokenAck?, feedBody, tokB, hne]

theorem recv_conn_ca (tl : Bool) (now : Nat) (draws : List Nat) (s : Timeout) (alt : Alt) (tb : Option Nat)
    (htb : tl = true → tb = none) :
    P6.recv tl now draws ⟨.connecting, s⟩ (.control 0 tb .connectAccept) alt =
      .ok { conn := ⟨.online tb .new, s⟩, sent := [.control 0 tb .accept], events := [.ready] } := by
  have hem : emit [.control 0 tb .accept] = .ok [.control 0 tb .accept] := emit_ctl 0 tb 1
  cases tl
  · simp [P6.recv, feed, Conn.hint, State.token?, wireRead, Packet.tokenAck?, feedBody, sendControl, controlPacket,
      hem, Online.new]
  · have := htb rfl; subst this
    simp [P6.recv, feed, Conn.hint, State.token?, wireRead, strip, Packet.tokenAck?, feedBody, sendControl,
      controlPacket, hem, Online.new]

end Tw.NetSim.P6
