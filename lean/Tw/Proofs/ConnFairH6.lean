import Tw.Proofs.ConnFairH
import Tw.Proofs.ConnTimed6

/-!
# C02 (c), 0.6: the generalised interface (acceptor online or pending) and the handshake round
-/
namespace Tw.NetSim.P6
open Tw.Conn Tw.Conn6 Tw.Time Tw.NetSim

def kindOf (k : Nat) : Control :=
  if k = 1 then .accept else if k = 2 then .connectAccept else .keepAlive

def pktH (t : Option Nat) : DgH → Packet
  | .chunk f => ofFlushed t f
  | .ctl k a => .control a t (kindOf k)

/-- online with core `o`, or pending (then the core is the fresh one) -/
def Sh (t : Option Nat) (o : Online) (c : Conn) : Prop :=
  (∃ s, c = ⟨.online t o, s⟩) ∨ (o = .new ∧ ∃ s, c = ⟨.pending t, s⟩)

def conv : Dg → DgH
  | .chunk f => .chunk f
  | .ka a => .ctl 0 a

theorem conv_pkt (tl : Bool) (t : Option Nat) (d : Dg) : (iface6 tl).pkt t d = pktH t (conv d) := by
  cases d <;> rfl

theorem conv_fl (d : Dg) : (conv d).fl = d.fl := by cases d <;> rfl

theorem kindOf_ne_close (k : Nat) (r : Bytes) : kindOf k ≠ .close r := by
  unfold kindOf; split
  · simp
  · split <;> simp

theorem emit_ctl (a : Nat) (t : Option Nat) (k : Nat) :
    emit [.control a t (kindOf k)] = .ok [.control a t (kindOf k)] :=
  Tw.Conn6.emit_ok (by
    intro p hp; simp at hp; subst hp
    exact Tw.Conn6.control_valid a t _ (by intro r hr; exact absurd hr (kindOf_ne_close k r)))

theorem pktH_ca (t : Option Nat) : pktH t (.ctl 2 0) = .control 0 t .connectAccept := rfl

theorem feedBody_ctl_online (env : Env) (t : Option Nat) (o : Online) (s : Timeout) (tok t' : Option Nat) (a k : Nat) :
    feedBody env ⟨.online t o, s⟩ tok (.control a t' (kindOf k)) = .ok (⟨.online t o, s⟩, {}) := by
  unfold kindOf; split
  · simp [feedBody]
  · split <;> simp [feedBody]

theorem feedBody_ctl_pending (env : Env) (t : Option Nat) (s : Timeout) (tok t' : Option Nat) (a k : Nat) :
    feedBody env ⟨.pending t, s⟩ tok (.control a t' (kindOf k)) = .ok (⟨.pending t, s⟩, {}) := by
  unfold kindOf; split
  · simp [feedBody]
  · split <;> simp [feedBody]

theorem tick_pending (now : Nat) (t : Option Nat) (s : Timeout) (h : s.triggered now = true) :
    P6.call now [] ⟨.pending t, s⟩ .tick =
      .ok { conn := ⟨.pending t, Timeout.after now sendUs⟩, sent := [.control 0 t .connectAccept] } := by
  have hem : emit [.control 0 t .connectAccept] = .ok [.control 0 t .connectAccept] := emit_ctl 0 t 2
  simp [P6.call, Conn6.tick, h, tickAction, sendControl, controlPacket, hem]

theorem new_feedAck {a : Nat} (h : a < seqMod) : Online.new.feedAck a = .ok .new := by
  simp [Online.feedAck, Nat.not_le.mpr h, Online.ackChunks, Online.new]

/-- `feed` on a pending connection, for a non-close connected datagram whose token matches -/
theorem recv_pending6 (tl : Bool) (now : Nat) (draws : List Nat) (ty : Option Nat) (s : Timeout)
    (q : Packet) (alt : Alt) (token : Option Nat) (ack : Nat) (hq : ∀ r a t, q ≠ .control a t (.close r))
    (hta : (if tl = true then strip q else q).tokenAck? = some (token, ack))
    (htok : token = ty) (hh : hasToken (if tl = true then strip q else q) = ty.isSome) :
    feed ⟨now, draws⟩ ⟨.pending ty, s⟩ (wireRead tl q alt) =
      feedBody ⟨now, draws⟩ ⟨.pending ty, s⟩ token (if tl = true then strip q else q) := by
  have hw : wireRead tl q alt (some ty.isSome) = some (if tl = true then strip q else q) := by
    unfold wireRead
    simp only
    generalize hq' : (if tl = true then strip q else q) = q' at hh hta
    have hnc : ∀ r a t, q' ≠ .control a t (.close r) := by
      intro r a t h
      cases tl
      · simp at hq'; rw [hq'] at hq; exact hq r a t h
      · simp at hq'
        cases q with
        | connless d => simp [strip] at hq'; rw [← hq'] at h; cases h
        | chunks a' t' rr n cs => simp [strip] at hq'; rw [← hq'] at h; cases h
        | control a' t' c =>
          simp [strip] at hq'; rw [← hq'] at h
          injection h with _ _ h; subst h; exact hq r a' t' rfl
    cases q' with
    | connless d => simp [Packet.tokenAck?] at hta
    | chunks a t rr n cs => simp [hh]
    | control a t c =>
      cases c with
      | close r => exact absurd rfl (hnc r a t)
      | _ => simp [hh]
  unfold feed
  simp only [Conn.hint, State.token?, Option.map_some]
  rw [hw]
  simp only [hta, htok]
  simp

/-- the shape with a flag: `(t, true)` means "online" (this is how the composed theorem knows that the
connector is still online at the end) -/
def ShF (t : Option Nat × Bool) (o : Online) (c : Conn) : Prop :=
  Sh t.1 o c ∧ (t.2 = true → ∃ s, c = ⟨.online t.1 o, s⟩)

set_option maxRecDepth 4000 in
def gface6 (tl : Bool) : GIface (proto6 tl) core Conn6.cfg Timed where
  Tok := Option Nat × Bool
  Sh := ShF
  pkt := fun t => pktH t.1
  peer := fun tx ty => tx.1 = ty.1 ∧ (tl = true → ty.1 = none)
  core_sh := by
    intro t o c h
    rcases h.1 with ⟨s, rfl⟩ | ⟨rfl, s, rfl⟩ <;> rfl
  view_pkt := by intro t d; cases d <;> rfl
  online_sh := by
    intro t o c h
    rcases h.1 with ⟨s, rfl⟩ | ⟨rfl, s, rfl⟩
    · exact Or.inl rfl
    · exact Or.inr ⟨rfl, rfl⟩
  tickPhase := by
    intro now0 t o c h hinv hack hS
    obtain ⟨t, flg⟩ := t
    obtain ⟨h, hflg⟩ := h
    dsimp only at h hflg
    rcases h with ⟨s, rfl⟩ | ⟨rfl, s, rfl⟩
    · obtain ⟨c1, o2, s2, d1, d2, e1, e2, hps, hne⟩ :=
        (iface6 tl).tickPhase Conn6.cfg_ok (now0 := now0) (t := t) (s := s) hinv hack hS.1 hS.2
      have hmap : ∀ ds : List Dg, (ds.map conv).map (pktH t) = ds.map ((iface6 tl).pkt t) := by
        intro ds; rw [List.map_map]; exact List.map_congr_left (fun d _ => (conv_pkt tl t d).symm)
      refine ⟨c1, _, o2, d1.map conv, d2.map conv, ?_, ?_, ⟨Or.inl ⟨s2, rfl⟩, fun _ => ⟨s2, rfl⟩⟩, ?_, by simpa using hne⟩
      · exact e1.trans (congrArg (fun l => Except.ok ({ conn := c1, sent := l } : Ret Conn Packet)) (hmap d1).symm)
      · exact e2.trans (congrArg (fun l => Except.ok ({ conn := ⟨.online t o2, s2⟩, sent := l } : Ret Conn Packet))
          (hmap d2).symm)
      · simpa [List.map_map, Function.comp_def, conv_fl] using hps
    · have hs : SendDue now0 s := hS
      have t1 : s.triggered (now0 + resendUs) = true := by
        apply hs.triggered; rw [sendUs_val, resendUs_val]; omega
      generalize now0 + resendUs = T1 at t1 ⊢
      have t2 : (Timeout.after T1 sendUs).triggered (T1 + sendUs) = true := by
        simp [Timeout.after, Timeout.triggered]
      generalize T1 + sendUs = T2 at t2 ⊢
      refine ⟨⟨.pending t, Timeout.after T1 sendUs⟩,
        ⟨.pending t, Timeout.after T2 sendUs⟩, .new, [.ctl 2 0], [.ctl 2 0], ?_, ?_,
        ⟨Or.inr ⟨rfl, _, rfl⟩, fun hf => by obtain ⟨_, h'⟩ := hflg hf; cases h'⟩, ?_, by simp⟩
      · exact tick_pending T1 t s t1
      · exact tick_pending T2 t (Timeout.after T1 sendUs) t2
      · have := PhaseSpec.of_flush_kas (Online.new_inv Conn6.cfg) (o := .new) rfl
          [⟨0, false, 0, []⟩, ⟨0, false, 0, []⟩] (by simp [Online.new]) (by simp)
        have hf : (Online.new).flush = (Online.new, []) := by
          simp [Online.flush, Online.canSend, Online.new, PacketContents.empty]
        rw [hf] at this
        simpa [DgH.fl] using this
  recv_dg := by
    intro now draws tx ty o c d alt h hp hinv hack hseq
    obtain ⟨tx, fx⟩ := tx
    obtain ⟨ty, fy⟩ := ty
    obtain ⟨h, hflg⟩ := h
    dsimp only at h hflg hp
    obtain ⟨rfl, hty⟩ := hp
    rcases h with ⟨s, rfl⟩ | ⟨rfl, s, rfl⟩
    · -- online receiver
      cases d with
      | chunk f =>
        obtain ⟨o2, s2, r, fl, h1, h2, h3, h4, h5⟩ :=
          (iface6 tl).recv_dg' Conn6.cfg_ok (now := now) (draws := draws) (tx := tx) (ty := tx) (s := s)
            (.chunk f) alt ⟨rfl, hty⟩ hinv hack hseq
        exact ⟨o2, r, fl, h1, ⟨Or.inl ⟨s2, h2⟩, fun _ => ⟨s2, h2⟩⟩, h3, h4, h5⟩
      | ctl k a =>
        obtain ⟨hfa, _⟩ := Online.feedAck_spec hinv hack
        refine ⟨_, ⟨⟨.online tx (o.ackChunks a), s⟩, [], [], false⟩, [], ?_, ⟨Or.inl ⟨s, rfl⟩, fun _ => ⟨s, rfl⟩⟩,
          ⟨now, s, s, _, [], [], hfa, receive_nil now _ s⟩, rfl, fun _ => rfl⟩
        show P6.recv tl now draws ⟨.online tx o, s⟩ (.control a tx (kindOf k)) alt = _
        unfold P6.recv
        rw [recv_online6 tl now draws tx o s (.control a tx (kindOf k)) alt tx a
          (by intro r a' t h; injection h with _ _ h; exact kindOf_ne_close k r h)
          (by intro d h; cases h)
          (by cases tl <;> simp_all [strip, Packet.tokenAck?])
          rfl (by cases tl <;> simp_all [strip, hasToken]) _ hfa]
        cases tl <;> simp [strip, feedBody_ctl_online] <;> rfl
    · -- pending receiver: the core is the fresh one
      have hfa := new_feedAck hack
      cases d with
      | chunk f =>
        obtain ⟨o2, s2, fl, evs, hrc, _, hval, _⟩ :=
          Online.receive_spec Conn6.cfg_ok (Online.new_inv Conn6.cfg) now s f.requestResend f.chunks hseq
        refine ⟨o2, ⟨⟨.online tx o2, s2⟩, fl.map (ofFlushed tx), evs, false⟩, fl, ?_, ⟨Or.inl ⟨s2, rfl⟩, fun _ => ⟨s2, rfl⟩⟩,
          ⟨now, s, s2, _, fl, evs, hfa, hrc⟩, rfl, fun _ => receive_fl_nil rfl hrc⟩
        show P6.recv tl now draws ⟨.pending tx, s⟩ (ofFlushed tx f) alt = _
        unfold P6.recv
        rw [recv_pending6 tl now draws tx s (ofFlushed tx f) alt tx f.ack (by intro r a t h; cases h)
          (by cases tl <;> simp_all [ofFlushed, strip, Packet.tokenAck?])
          rfl (by cases tl <;> simp_all [ofFlushed, strip, hasToken])]
        cases tl <;> simp [ofFlushed, strip, feedBody, hrc, (Tw.Conn6.emit_flushed tx hval).1] <;> rfl
      | ctl k a =>
        refine ⟨.new, ⟨⟨.pending tx, s⟩, [], [], false⟩, [], ?_, ⟨Or.inr ⟨rfl, s, rfl⟩, fun hf => by obtain ⟨_, h'⟩ := hflg hf; cases h'⟩,
          ⟨now, s, s, _, [], [], hfa, receive_nil now _ s⟩, rfl, fun _ => rfl⟩
        show P6.recv tl now draws ⟨.pending tx, s⟩ (.control a tx (kindOf k)) alt = _
        unfold P6.recv
        rw [recv_pending6 tl now draws tx s (.control a tx (kindOf k)) alt tx a
          (by intro r a' t h; injection h with _ _ h; exact kindOf_ne_close k r h)
          (by cases tl <;> simp_all [strip, Packet.tokenAck?])
          rfl (by cases tl <;> simp_all [strip, hasToken])]
        cases tl <;> simp [strip, feedBody_ctl_pending] <;> rfl

/-! ## the handshake steps, as equations -/

/-- the token the acceptor ends up with: none towards a peer without tokens, the drawn one otherwise -/
def tokB (tl : Bool) (nt : Nat) : Option Nat := if tl then none else some nt

theorem emit_connect : emit [.control 0 (some TOKEN_NONE) .connect] = .ok [.control 0 (some TOKEN_NONE) .connect] :=
  Tw.Conn6.emit_ok (by
    intro p hp; simp at hp; subst hp
    exact Tw.Conn6.control_valid 0 _ .connect (by intro r hr; cases hr))

theorem tick_connecting (now : Nat) (s : Timeout) (h : s.triggered now = true) :
    P6.call now [] ⟨.connecting, s⟩ .tick =
      .ok { conn := ⟨.connecting, Timeout.after now sendUs⟩, sent := [.control 0 (some TOKEN_NONE) .connect] } := by
  simp [P6.call, Conn6.tick, h, tickAction, sendControl, controlPacket, emit_connect]

theorem tick_unconnected (now : Nat) (s : Timeout) :
    ∃ s', P6.call now [] ⟨.unconnected, s⟩ .tick = .ok { conn := ⟨.unconnected, s'⟩, sent := [] } := by
  by_cases h : s.triggered now = true
  · exact ⟨.inactive, by simp [P6.call, Conn6.tick, h, tickAction]⟩
  · exact ⟨s, by simp [P6.call, Conn6.tick, h]⟩

theorem recv_unc_connect (tl : Bool) (now : Nat) (draws : List Nat) (s : Timeout) (alt : Alt) (nt : Nat)
    (hnt : tokenRandom draws = some nt) :
    P6.recv tl now draws ⟨.unconnected, s⟩ (.control 0 (some TOKEN_NONE) .connect) alt =
      .ok { conn := ⟨.pending (tokB tl nt), Timeout.after now sendUs⟩,
            sent := [.control 0 (tokB tl nt) .connectAccept] } := by
  have hem : ∀ t, emit [.control 0 t .connectAccept] = .ok [.control 0 t .connectAccept] := fun t => emit_ctl 0 t 2
  cases tl <;>
    simp [P6.recv, feed, Conn.hint, State.token?, wireRead, strip, hasToken, Packet.tokenAck?, feedBody, hnt,
      tickAction, sendControl, controlPacket, hem, tokB]

theorem tokenRandom_ne {draws : List Nat} {nt : Nat} (h : tokenRandom draws = some nt) : nt ≠ TOKEN_NONE := by
  induction draws with
  | nil => simp [tokenRandom] at h
  | cons d ds ih =>
    simp only [tokenRandom] at h
    split at h
    · rename_i hd; injection h with h; subst h; exact hd.1
    · exact ih h

theorem recv_pend_connect (tl : Bool) (now : Nat) (draws : List Nat) (s : Timeout) (alt : Alt) (nt : Nat)
    (hne : nt ≠ TOKEN_NONE) :
    P6.recv tl now draws ⟨.pending (tokB tl nt), s⟩ (.control 0 (some TOKEN_NONE) .connect) alt =
      .ok { conn := ⟨.pending (tokB tl nt), s⟩ } := by
  cases tl <;>
    simp [P6.recv, feed, Conn.hint, State.token?, wireRead, strip, hasToken, Packet.tokenAck?, feedBody, tokB, hne]

theorem recv_conn_ca (tl : Bool) (now : Nat) (draws : List Nat) (s : Timeout) (alt : Alt) (tb : Option Nat)
    (htb : tl = true → tb = none) :
    P6.recv tl now draws ⟨.connecting, s⟩ (.control 0 tb .connectAccept) alt =
      .ok { conn := ⟨.online tb .new, s⟩, sent := [.control 0 tb .accept], events := [.ready] } := by
  have hem : emit [.control 0 tb .accept] = .ok [.control 0 tb .accept] := emit_ctl 0 tb 1
  cases tl
  · simp [P6.recv, feed, Conn.hint, State.token?, wireRead, Packet.tokenAck?, feedBody, sendControl, controlPacket,
      hem, Online.new]
  · have := htb rfl; subst this
    simp [P6.recv, feed, Conn.hint, State.token?, wireRead, strip, Packet.tokenAck?, feedBody, sendControl,
      controlPacket, hem, Online.new]

theorem recv_pend_connect' (tl : Bool) (now : Nat) (draws : List Nat) (s : Timeout) (alt : Alt) (tb : Option Nat)
    (htb : tb.isSome = !tl) :
    P6.recv tl now draws ⟨.pending tb, s⟩ (.control 0 (some TOKEN_NONE) .connect) alt =
      .ok { conn := ⟨.pending tb, s⟩ } := by
  cases tl <;> cases tb <;> simp at htb
  · rename_i v
    by_cases hv : v = TOKEN_NONE <;>
      simp [P6.recv, feed, Conn.hint, State.token?, wireRead, hasToken, Packet.tokenAck?, feedBody, hv]
  · simp [P6.recv, feed, Conn.hint, State.token?, wireRead, strip, hasToken, Packet.tokenAck?, feedBody]

/-! ## the round that takes the connector online -/

theorem recv_onl_ca (tl : Bool) (now : Nat) (draws : List Nat) (s : Timeout) (alt : Alt) (tb : Option Nat)
    (htb : tl = true → tb = none) :
    P6.recv tl now draws ⟨.online tb .new, s⟩ (.control 0 tb .connectAccept) alt =
      .ok { conn := ⟨.online tb .new, s⟩ } := by
  have hfa : Online.new.feedAck 0 = .ok .new := new_feedAck (by rw [seqMod_eq]; omega)
  unfold P6.recv
  rw [recv_online6 tl now draws tb .new s (.control 0 tb .connectAccept) alt tb 0
    (by intro r a t h; cases h) (by intro d h; cases h)
    (by cases tl <;> simp_all [strip, Packet.tokenAck?])
    rfl (by cases tl <;> simp_all [strip, hasToken]) .new hfa]
  cases tl <;> simp [strip, feedBody]

/-- a connecting side `a`, an acceptor `b` that is unconnected or pending: one round of the fair suffix
takes `a` online (it is told `Ready`), `b` is pending with the same token, `a`'s `Accept` is still to be
delivered -/
theorem ready_round6 (tl : Bool) (draws : List Nat) (alt : (proto6 tl).Alt) (nt : Nat) (hnt : tokenRandom draws = some nt)
    (w : World (proto6 tl)) (hW : WInv (proto6 tl) core Conn6.cfg w) (hT : TInv Timed w)
    (sa : Timeout) (ha : w.a.conn = ⟨.connecting, sa⟩)
    (hb : (∃ sb, w.b.conn = ⟨.unconnected, sb⟩) ∨
      (∃ tb sb, w.b.conn = ⟨.pending tb, sb⟩ ∧ tb.isSome = !tl)) :
    ∃ (s' : FairState (proto6 tl)) (tb : Option Nat) (La : List (DgH × Nat)),
      fairRoundT draws alt (FairState.start w) = some s' ∧ OnlineFH (gface6 tl) (tb, true) (tb, false) s' La ∧
      Event.ready ∈ s'.w.a.events ∧ ∃ o s, s'.w.a.conn = ⟨.online tb o, s⟩ := by
  obtain ⟨T1, hT1⟩ : ∃ T1, T1 = w.now + resendUs := ⟨_, rfl⟩
  obtain ⟨T2, hT2⟩ : ∃ T2, T2 = T1 + sendUs := ⟨_, rfl⟩
  have hsa : SendDue w.now sa := by have := hT.1; rw [ha] at this; exact this
  have t1 : sa.triggered T1 = true := by
    apply hsa.triggered; rw [hT1, sendUs_val, resendUs_val]; omega
  have t2 : (Timeout.after T1 sendUs).triggered T2 = true := by
    simp [Timeout.after, Timeout.triggered, hT2]
  have ea1 : (proto6 tl).call T1 [] w.a.conn .tick =
      .ok (tickRet (⟨.connecting, Timeout.after T1 sendUs⟩ : Conn) [.control 0 (some TOKEN_NONE) .connect]) := by
    rw [ha]; exact tick_connecting T1 sa t1
  have ea2 : (proto6 tl).call T2 [] (⟨.connecting, Timeout.after T1 sendUs⟩ : Conn) .tick =
      .ok (tickRet (⟨.connecting, Timeout.after T2 sendUs⟩ : Conn) [.control 0 (some TOKEN_NONE) .connect]) :=
    tick_connecting T2 _ t2
  have hwinv : AInv Conn6.cfg (absEnd (proto6 tl) core w.a) (absEnd (proto6 tl) core w.b) := hW
  have hwin_ba : w.b.nAbs ≤ w.a.dAbs + 512 := hwinv.2.win
  have hwin_ab : w.a.nAbs ≤ w.b.dAbs + 512 := hwinv.1.win
  have hne := tokenRandom_ne hnt
  rcases hb with ⟨sb, hbU⟩ | ⟨tb, sb, hbP, htb⟩
  · -- the acceptor has not heard of the connector yet
    obtain ⟨sb1, eb1'⟩ := tick_unconnected T1 sb
    obtain ⟨sb2, eb2'⟩ := tick_unconnected T2 sb1
    have eb1 : (proto6 tl).call T1 [] w.b.conn .tick = .ok (tickRet (⟨.unconnected, sb1⟩ : Conn) []) := by
      rw [hbU]; exact eb1'
    have eb2 : (proto6 tl).call T2 [] (⟨.unconnected, sb1⟩ : Conn) .tick = .ok (tickRet (⟨.unconnected, sb2⟩ : Conn) []) := eb2'
    have hrun := run_tickMoves' w T1 T2 hT1 hT2 _ _ _ _ _ _ _ _ ea1 eb1 ea2 eb2
    generalize hw1 : ({ a := (w.a.book (tickRet (⟨.connecting, Timeout.after T1 sendUs⟩ : Conn) [.control 0 (some TOKEN_NONE) .connect]) []).book
                            (tickRet (⟨.connecting, Timeout.after T2 sendUs⟩ : Conn) [.control 0 (some TOKEN_NONE) .connect]) []
                        b := (w.b.book (tickRet (⟨.unconnected, sb1⟩ : Conn) []) []).book (tickRet (⟨.unconnected, sb2⟩ : Conn) []) []
                        now := T2 } : World (proto6 tl)) = w1 at hrun
    have hW1 : WInv (proto6 tl) core Conn6.cfg w1 := run_inv (sim6 tl) tickMoves w w1 hW (admissible_ticks hrun) hrun
    have hT1' : TInv Timed w1 := run_loct (loct6 tl) tickMoves w w1 hT hrun
    have w1now : w1.now = T2 := by rw [← hw1]
    have a1conn : w1.a.conn = ⟨.connecting, Timeout.after T2 sendUs⟩ := by rw [← hw1]; rfl
    have b1conn : w1.b.conn = ⟨.unconnected, sb2⟩ := by rw [← hw1]; rfl
    have a1out : w1.a.out = w.a.out ++ [⟨.control 0 (some TOKEN_NONE) .connect, w.a.nAbs, w.a.dAbs⟩,
        ⟨.control 0 (some TOKEN_NONE) .connect, w.a.nAbs, w.a.dAbs⟩] := by
      rw [← hw1]; simp [End.book, tickRet, End.nAbs, End.dAbs, End.submittedVital, End.deliveredVital]; rfl
    have b1out : w1.b.out = w.b.out := by rw [← hw1]; simp [End.book, tickRet]
    have a1sub : w1.a.submitted = w.a.submitted := by rw [← hw1]; simp [End.book, tickRet]
    have b1sub : w1.b.submitted = w.b.submitted := by rw [← hw1]; simp [End.book, tickRet]
    have a1ev : w1.a.events = w.a.events := by rw [← hw1]; simp [End.book, tickRet]
    have b1ev : w1.b.events = w.b.events := by rw [← hw1]; simp [End.book, tickRet]
    have nAa := nAbs_of_submitted a1sub
    have nAb := nAbs_of_submitted b1sub
    have dAa := dAbs_of_events a1ev
    have dAb := dAbs_of_events b1ev
    -- block 1: the two Connects reach b
    have hr1 := recv_unc_connect tl w1.now draws sb2 alt nt hnt
    have hr2 := recv_pend_connect tl w1.now draws (Timeout.after w1.now sendUs) alt nt hne
    generalize hb2 : ((w1.b.book { conn := (⟨.pending (tokB tl nt), Timeout.after w1.now sendUs⟩ : Conn),
                                   sent := [.control 0 (tokB tl nt) .connectAccept] } []).book
                        { conn := (⟨.pending (tokB tl nt), Timeout.after w1.now sendUs⟩ : Conn) } [] : End (proto6 tl)) = b2
    have hrecvB : recvEndsD w1.now draws alt w1.b
        ([(⟨.control 0 (some TOKEN_NONE) .connect, w.a.nAbs, w.a.dAbs⟩ : Sent (proto6 tl).Packet),
          ⟨.control 0 (some TOKEN_NONE) .connect, w.a.nAbs, w.a.dAbs⟩].map (·.pkt)) = some b2 := by
      simp only [List.map_cons, List.map_nil, recvEndsD, recvEndD, b1conn]
      have : (proto6 tl).recv w1.now draws (⟨.unconnected, sb2⟩ : Conn) (.control 0 (some TOKEN_NONE) .connect) alt = _ := hr1
      rw [this]
      simp only [End.book]
      have h2' : (proto6 tl).recv w1.now draws (⟨.pending (tokB tl nt), Timeout.after w1.now sendUs⟩ : Conn)
          (.control 0 (some TOKEN_NONE) .connect) alt = _ := hr2
      rw [h2', ← hb2]
      rfl
    have hblk1 := blockAny (sim6 tl) (loct6 tl) (now := w1.now) (draws := draws) alt w1.a
      [(⟨.control 0 (some TOKEN_NONE) .connect, w.a.nAbs, w.a.dAbs⟩ : Sent (proto6 tl).Packet),
        ⟨.control 0 (some TOKEN_NONE) .connect, w.a.nAbs, w.a.dAbs⟩] w1.b b2
      (by
        intro sn hsn
        simp only [List.mem_cons, List.not_mem_nil, or_false, or_self] at hsn
        subst hsn
        exact ⟨by rw [a1out]; simp, nAa.symm, by rw [nAb]; exact hwin_ba⟩)
      hW1.symm hT1'.2 hrecvB
    obtain ⟨hA2, hS2, b2sub, b2d⟩ := hblk1
    have hrun1 : run w1 (deliverRangeD .b (FairState.start w).ca w1.a.out.length draws alt) = some (w1.set .b b2) := by
      have := run_deliverRangeG (P := proto6 tl) .b draws alt
        [(⟨.control 0 (some TOKEN_NONE) .connect, w.a.nAbs, w.a.dAbs⟩ : Sent (proto6 tl).Packet),
          ⟨.control 0 (some TOKEN_NONE) .connect, w.a.nAbs, w.a.dAbs⟩] w.a.out [] w1
        (by simp only [Side.other, World.get]; rw [a1out]; simp)
      simp only [deliverRangeD, FairState.start]
      have hlen : w1.a.out.length - w.a.out.length = 2 := by rw [a1out]; simp
      rw [hlen]
      simp only [List.length_cons, List.length_nil] at this
      rw [this]
      simp only [World.get]
      rw [hrecvB]; rfl
    have b2out : b2.out = w.b.out ++ [⟨.control 0 (tokB tl nt) .connectAccept, w.b.nAbs, w.b.dAbs⟩] := by
      rw [← hb2]
      simp [End.book, b1out, End.nAbs, End.dAbs, End.submittedVital, End.deliveredVital, b1sub, b1ev]
      exact ⟨_, rfl, rfl⟩
    have b2conn : b2.conn = ⟨.pending (tokB tl nt), Timeout.after w1.now sendUs⟩ := by rw [← hb2]; rfl
    have b2ev : b2.events = w.b.events := by rw [← hb2]; simp [End.book, b1ev]
    -- block 2: b's ConnectAccept reaches a
    have hr3 := recv_conn_ca tl w1.now draws (Timeout.after T2 sendUs) alt (tokB tl nt)
      (by intro h; simp [tokB, h])
    generalize ha2 : (w1.a.book { conn := (⟨.online (tokB tl nt) .new, Timeout.after T2 sendUs⟩ : Conn),
                                  sent := [.control 0 (tokB tl nt) .accept], events := [.ready] } [] : End (proto6 tl)) = a2
    have hrecvA : recvEndsD w1.now draws alt w1.a
        ([(⟨.control 0 (tokB tl nt) .connectAccept, w.b.nAbs, w.b.dAbs⟩ : Sent (proto6 tl).Packet)].map (·.pkt)) = some a2 := by
      simp only [List.map_cons, List.map_nil, recvEndsD, recvEndD, a1conn]
      have : (proto6 tl).recv w1.now draws (⟨.connecting, Timeout.after T2 sendUs⟩ : Conn)
          (.control 0 (tokB tl nt) .connectAccept) alt = _ := hr3
      rw [this]; exact congrArg some ha2
    have hblk2 := blockAny (sim6 tl) (loct6 tl) (now := w1.now) (draws := draws) alt b2
      [(⟨.control 0 (tokB tl nt) .connectAccept, w.b.nAbs, w.b.dAbs⟩ : Sent (proto6 tl).Packet)] w1.a a2
      (by
        intro sn hsn
        simp only [List.mem_cons, List.not_mem_nil, or_false] at hsn
        subst hsn
        refine ⟨by rw [b2out]; simp, ?_, by rw [nAa]; exact hwin_ab⟩
        simp [End.nAbs, End.submittedVital, b2sub, b1sub])
      hA2.symm hT1'.1 hrecvA
    obtain ⟨hA3, hS3, a2sub, a2d⟩ := hblk2
    have hrun2 : run (w1.set .b b2) (deliverRangeD .a (FairState.start w).cb (w1.set .b b2).b.out.length draws alt) =
        some ((w1.set .b b2).set .a a2) := by
      have := run_deliverRangeG (P := proto6 tl) .a draws alt
        [(⟨.control 0 (tokB tl nt) .connectAccept, w.b.nAbs, w.b.dAbs⟩ : Sent (proto6 tl).Packet)] w.b.out [] (w1.set .b b2)
        (by simp only [Side.other, World.get, World.set]; rw [b2out]; simp)
      simp only [deliverRangeD, FairState.start]
      have hlen : (w1.set .b b2).b.out.length - w.b.out.length = 1 := by
        simp only [World.set]; rw [b2out]; simp
      rw [hlen]
      simp only [List.length_cons, List.length_nil] at this
      rw [this]
      simp only [World.get, World.set]
      rw [hrecvA]; rfl
    have a2conn : a2.conn = ⟨.online (tokB tl nt) .new, Timeout.after T2 sendUs⟩ := by rw [← ha2]; rfl
    have a2out : a2.out = w1.a.out ++ [⟨.control 0 (tokB tl nt) .accept, w.a.nAbs, w.a.dAbs⟩] := by
      rw [← ha2]; simp [End.book, nAa, dAa]
      exact ⟨_, rfl, rfl⟩
    have a2ev : a2.events = w.a.events ++ [.ready] := by rw [← ha2]; simp [End.book, a1ev]
    refine ⟨⟨(w1.set .b b2).set .a a2, w1.a.out.length, b2.out.length⟩, tokB tl nt,
      [(.ctl 1 0, w.a.dAbs)], ?_, ?_, ?_, ⟨.new, _, a2conn⟩⟩
    · simp only [fairRoundT, FairState.start] at hrun1 hrun2 ⊢
      simp only [hrun, hrun1, hrun2]
      rfl
    · refine ⟨⟨hA3, ⟨hS3, hS2⟩, ⟨.new, Or.inl ⟨_, a2conn⟩, fun _ => ⟨_, a2conn⟩⟩, ⟨.new, Or.inr ⟨rfl, _, b2conn⟩, fun h => by cases h⟩,
        ⟨rfl, by intro h; simp [tokB, h]⟩, ⟨rfl, by intro h; simp [tokB, h]⟩⟩, rfl, ⟨w1.a.out, ?_, rfl⟩, ?_⟩
      · show a2.out = _
        have : a2.nAbs = w.a.nAbs := by simp [End.nAbs, End.submittedVital, a2sub, a1sub]
        rw [a2out]
        simp [World.set, this, gface6, pktH, kindOf]
      · intro x hx
        simp only [List.mem_cons, List.not_mem_nil, or_false] at hx
        subst hx
        show b2.nAbs ≤ w.a.dAbs + 512
        have : b2.nAbs = w.b.nAbs := by simp [End.nAbs, End.submittedVital, b2sub, b1sub]
        rw [this]; exact hwin_ba
    · show Event.ready ∈ a2.events
      rw [a2ev]; simp
  · -- the acceptor is pending: it repeats its ConnectAccept
    have htb' : tl = true → tb = none := by
      intro h; subst h; cases tb <;> simp at htb ⊢
    have hsb : SendDue w.now sb := by have := hT.2; rw [hbP] at this; exact this
    have u1 : sb.triggered T1 = true := by
      apply hsb.triggered; rw [hT1, sendUs_val, resendUs_val]; omega
    have eb1 : (proto6 tl).call T1 [] w.b.conn .tick =
        .ok (tickRet (⟨.pending tb, Timeout.after T1 sendUs⟩ : Conn) [.control 0 tb .connectAccept]) := by
      rw [hbP]; exact tick_pending T1 tb sb u1
    have eb2 : (proto6 tl).call T2 [] (⟨.pending tb, Timeout.after T1 sendUs⟩ : Conn) .tick =
        .ok (tickRet (⟨.pending tb, Timeout.after T2 sendUs⟩ : Conn) [.control 0 tb .connectAccept]) :=
      tick_pending T2 tb _ t2
    have hrun := run_tickMoves' w T1 T2 hT1 hT2 _ _ _ _ _ _ _ _ ea1 eb1 ea2 eb2
    generalize hw1 : ({ a := (w.a.book (tickRet (⟨.connecting, Timeout.after T1 sendUs⟩ : Conn) [.control 0 (some TOKEN_NONE) .connect]) []).book
                            (tickRet (⟨.connecting, Timeout.after T2 sendUs⟩ : Conn) [.control 0 (some TOKEN_NONE) .connect]) []
                        b := (w.b.book (tickRet (⟨.pending tb, Timeout.after T1 sendUs⟩ : Conn) [.control 0 tb .connectAccept]) []).book
                            (tickRet (⟨.pending tb, Timeout.after T2 sendUs⟩ : Conn) [.control 0 tb .connectAccept]) []
                        now := T2 } : World (proto6 tl)) = w1 at hrun
    have hW1 : WInv (proto6 tl) core Conn6.cfg w1 := run_inv (sim6 tl) tickMoves w w1 hW (admissible_ticks hrun) hrun
    have hT1' : TInv Timed w1 := run_loct (loct6 tl) tickMoves w w1 hT hrun
    have w1now : w1.now = T2 := by rw [← hw1]
    have a1conn : w1.a.conn = ⟨.connecting, Timeout.after T2 sendUs⟩ := by rw [← hw1]; rfl
    have b1conn : w1.b.conn = ⟨.pending tb, Timeout.after T2 sendUs⟩ := by rw [← hw1]; rfl
    have a1out : w1.a.out = w.a.out ++ [⟨.control 0 (some TOKEN_NONE) .connect, w.a.nAbs, w.a.dAbs⟩,
        ⟨.control 0 (some TOKEN_NONE) .connect, w.a.nAbs, w.a.dAbs⟩] := by
      rw [← hw1]; simp [End.book, tickRet, End.nAbs, End.dAbs, End.submittedVital, End.deliveredVital]; rfl
    have b1out : w1.b.out = w.b.out ++ [⟨.control 0 tb .connectAccept, w.b.nAbs, w.b.dAbs⟩,
        ⟨.control 0 tb .connectAccept, w.b.nAbs, w.b.dAbs⟩] := by
      rw [← hw1]; simp [End.book, tickRet, End.nAbs, End.dAbs, End.submittedVital, End.deliveredVital]; rfl
    have a1sub : w1.a.submitted = w.a.submitted := by rw [← hw1]; simp [End.book, tickRet]
    have b1sub : w1.b.submitted = w.b.submitted := by rw [← hw1]; simp [End.book, tickRet]
    have a1ev : w1.a.events = w.a.events := by rw [← hw1]; simp [End.book, tickRet]
    have b1ev : w1.b.events = w.b.events := by rw [← hw1]; simp [End.book, tickRet]
    have nAa := nAbs_of_submitted a1sub
    have nAb := nAbs_of_submitted b1sub
    have dAa := dAbs_of_events a1ev
    have dAb := dAbs_of_events b1ev
    -- block 1: the two Connects reach b and are ignored
    have hr1 := recv_pend_connect' tl w1.now draws (Timeout.after T2 sendUs) alt tb htb
    generalize hb2 : ((w1.b.book { conn := (⟨.pending tb, Timeout.after T2 sendUs⟩ : Conn) } []).book
                        { conn := (⟨.pending tb, Timeout.after T2 sendUs⟩ : Conn) } [] : End (proto6 tl)) = b2
    have hrecvB : recvEndsD w1.now draws alt w1.b
        ([(⟨.control 0 (some TOKEN_NONE) .connect, w.a.nAbs, w.a.dAbs⟩ : Sent (proto6 tl).Packet),
          ⟨.control 0 (some TOKEN_NONE) .connect, w.a.nAbs, w.a.dAbs⟩].map (·.pkt)) = some b2 := by
      simp only [List.map_cons, List.map_nil, recvEndsD, recvEndD, b1conn]
      have : (proto6 tl).recv w1.now draws (⟨.pending tb, Timeout.after T2 sendUs⟩ : Conn) (.control 0 (some TOKEN_NONE) .connect) alt = _ := hr1
      rw [this]
      simp only [End.book]
      rw [this, ← hb2]
      rfl
    have hblk1 := blockAny (sim6 tl) (loct6 tl) (now := w1.now) (draws := draws) alt w1.a
      [(⟨.control 0 (some TOKEN_NONE) .connect, w.a.nAbs, w.a.dAbs⟩ : Sent (proto6 tl).Packet),
        ⟨.control 0 (some TOKEN_NONE) .connect, w.a.nAbs, w.a.dAbs⟩] w1.b b2
      (by
        intro sn hsn
        simp only [List.mem_cons, List.not_mem_nil, or_false, or_self] at hsn
        subst hsn
        exact ⟨by rw [a1out]; simp, nAa.symm, by rw [nAb]; exact hwin_ba⟩)
      hW1.symm hT1'.2 hrecvB
    obtain ⟨hA2, hS2, b2sub, b2d⟩ := hblk1
    have hrun1 : run w1 (deliverRangeD .b (FairState.start w).ca w1.a.out.length draws alt) = some (w1.set .b b2) := by
      have := run_deliverRangeG (P := proto6 tl) .b draws alt
        [(⟨.control 0 (some TOKEN_NONE) .connect, w.a.nAbs, w.a.dAbs⟩ : Sent (proto6 tl).Packet),
          ⟨.control 0 (some TOKEN_NONE) .connect, w.a.nAbs, w.a.dAbs⟩] w.a.out [] w1
        (by simp only [Side.other, World.get]; rw [a1out]; simp)
      simp only [deliverRangeD, FairState.start]
      have hlen : w1.a.out.length - w.a.out.length = 2 := by rw [a1out]; simp
      rw [hlen]
      simp only [List.length_cons, List.length_nil] at this
      rw [this]
      simp only [World.get]
      rw [hrecvB]; rfl
    have b2out : b2.out = w1.b.out := by rw [← hb2]; simp [End.book]
    have b2conn : b2.conn = ⟨.pending tb, Timeout.after T2 sendUs⟩ := by rw [← hb2]; rfl
    -- block 2: b's two ConnectAccepts reach a
    have hr3 := recv_conn_ca tl w1.now draws (Timeout.after T2 sendUs) alt tb htb'
    have hr4 := recv_onl_ca tl w1.now draws (Timeout.after T2 sendUs) alt tb htb'
    generalize ha2 : (End.book (End.book w1.a
        ({ conn := (⟨.online tb .new, Timeout.after T2 sendUs⟩ : Conn), sent := [.control 0 tb .accept], events := [.ready] } :
          Ret (proto6 tl).Conn (proto6 tl).Packet) [])
        ({ conn := (⟨.online tb .new, Timeout.after T2 sendUs⟩ : Conn) } : Ret (proto6 tl).Conn (proto6 tl).Packet) [] :
          End (proto6 tl)) = a2
    have hrecvA : recvEndsD w1.now draws alt w1.a
        ([(⟨.control 0 tb .connectAccept, w.b.nAbs, w.b.dAbs⟩ : Sent (proto6 tl).Packet),
          ⟨.control 0 tb .connectAccept, w.b.nAbs, w.b.dAbs⟩].map (·.pkt)) = some a2 := by
      simp only [List.map_cons, List.map_nil, recvEndsD, recvEndD, a1conn]
      have : (proto6 tl).recv w1.now draws (⟨.connecting, Timeout.after T2 sendUs⟩ : Conn)
          (.control 0 tb .connectAccept) alt = _ := hr3
      rw [this]
      simp only [End.book]
      have h4 : (proto6 tl).recv w1.now draws (⟨.online tb .new, Timeout.after T2 sendUs⟩ : Conn)
          (.control 0 tb .connectAccept) alt = _ := hr4
      rw [h4, ← ha2]
      rfl
    have hblk2 := blockAny (sim6 tl) (loct6 tl) (now := w1.now) (draws := draws) alt b2
      [(⟨.control 0 tb .connectAccept, w.b.nAbs, w.b.dAbs⟩ : Sent (proto6 tl).Packet),
        ⟨.control 0 tb .connectAccept, w.b.nAbs, w.b.dAbs⟩] w1.a a2
      (by
        intro sn hsn
        simp only [List.mem_cons, List.not_mem_nil, or_false, or_self] at hsn
        subst hsn
        refine ⟨by rw [b2out, b1out]; simp, ?_, by rw [nAa]; exact hwin_ab⟩
        simp [End.nAbs, End.submittedVital, b2sub, b1sub])
      hA2.symm hT1'.1 hrecvA
    obtain ⟨hA3, hS3, a2sub, a2d⟩ := hblk2
    have hrun2 : run (w1.set .b b2) (deliverRangeD .a (FairState.start w).cb (w1.set .b b2).b.out.length draws alt) =
        some ((w1.set .b b2).set .a a2) := by
      have := run_deliverRangeG (P := proto6 tl) .a draws alt
        [(⟨.control 0 tb .connectAccept, w.b.nAbs, w.b.dAbs⟩ : Sent (proto6 tl).Packet),
          ⟨.control 0 tb .connectAccept, w.b.nAbs, w.b.dAbs⟩] w.b.out [] (w1.set .b b2)
        (by simp only [Side.other, World.get, World.set]; rw [b2out, b1out]; simp)
      simp only [deliverRangeD, FairState.start]
      have hlen : (w1.set .b b2).b.out.length - w.b.out.length = 2 := by
        simp only [World.set]; rw [b2out, b1out]; simp
      rw [hlen]
      simp only [List.length_cons, List.length_nil] at this
      rw [this]
      simp only [World.get, World.set]
      rw [hrecvA]; rfl
    have a2conn : a2.conn = ⟨.online tb .new, Timeout.after T2 sendUs⟩ := by rw [← ha2]; rfl
    have a2out : a2.out = w1.a.out ++ [⟨.control 0 tb .accept, w.a.nAbs, w.a.dAbs⟩] := by
      rw [← ha2]; simp [End.book, nAa, dAa]
      exact ⟨_, rfl, rfl⟩
    have a2ev : a2.events = w.a.events ++ [.ready] := by rw [← ha2]; simp [End.book, a1ev]
    refine ⟨⟨(w1.set .b b2).set .a a2, w1.a.out.length, b2.out.length⟩, tb,
      [(.ctl 1 0, w.a.dAbs)], ?_, ?_, ?_, ⟨.new, _, a2conn⟩⟩
    · simp only [fairRoundT, FairState.start] at hrun1 hrun2 ⊢
      simp only [hrun, hrun1, hrun2]
      rfl
    · refine ⟨⟨hA3, ⟨hS3, hS2⟩, ⟨.new, Or.inl ⟨_, a2conn⟩, fun _ => ⟨_, a2conn⟩⟩, ⟨.new, Or.inr ⟨rfl, _, b2conn⟩, fun h => by cases h⟩,
        ⟨rfl, htb'⟩, ⟨rfl, htb'⟩⟩, rfl, ⟨w1.a.out, ?_, rfl⟩, ?_⟩
      · show a2.out = _
        have : a2.nAbs = w.a.nAbs := by simp [End.nAbs, End.submittedVital, a2sub, a1sub]
        rw [a2out]
        simp [World.set, this, gface6, pktH, kindOf]
      · intro x hx
        simp only [List.mem_cons, List.not_mem_nil, or_false] at hx
        subst hx
        show b2.nAbs ≤ w.a.dAbs + 512
        have : b2.nAbs = w.b.nAbs := by simp [End.nAbs, End.submittedVital, b2sub, b1sub]
        rw [this]; exact hwin_ba
    · show Event.ready ∈ a2.events
      rw [a2ev]; simp

end Tw.NetSim.P6
