import Tw.Proofs.ConnTokens7

/-!
# 0.7: which handshake shapes occur

`T7` summarises what one call / delivery does to the handshake state (by its tag), which kinds of
datagrams it sends, and what it must have received; `Role7` is the resulting world invariant.
-/
namespace Tw.NetSim.P7
open Tw.Conn Tw.Conn7 Tw.Time Tw.NetSim

/-- 0 unconnected, 1 token, 2 connecting, 3 pendingConnect, 4 pending, 5 online, 6 disconnected -/
def tag : State → Nat
  | .unconnected => 0
  | .token _ => 1
  | .connecting _ _ => 2
  | .pendingConnect _ => 3
  | .pending _ _ => 4
  | .online _ _ _ => 5
  | .disconnected => 6

/-- `Connect` 2, `Accept` 4, chunk packet 5: the tag of the state that sends it -/
def kind : Packet → Option Nat
  | .control _ _ (.connect _) => some 2
  | .control _ _ .accept => some 4
  | .chunks _ _ _ _ _ => some 5
  | _ => none

def succOk (a b : Nat) : Bool :=
  a == b || b == 6 || (a == 0 && (b == 1 || b == 3)) || (a == 1 && b == 2) || (a == 2 && b == 5) ||
    (a == 3 && b == 4) || (a == 4 && b == 5)

/-- what a change of tag needs -/
def RC (a b : Nat) (rx : Option Packet) (evs : List Event) (ic : Bool) : Prop :=
  (a = 0 → b = 1 → ic = true) ∧ (a = 3 → b = 4 → ∃ q, rx = some q ∧ kind q = some 2) ∧
  (a = 4 → b = 5 → ∃ q, rx = some q ∧ kind q = some 5) ∧
  (a = 2 → b = 5 → (∃ q, rx = some q ∧ kind q = some 4) ∧ Event.ready ∈ evs) ∧
  (a = 1 → b = 2 → rx ≠ none)

theorem RC.refl (a : Nat) (rx : Option Packet) (evs : List Event) (ic : Bool) : RC a a rx evs ic :=
  ⟨by omega, by omega, by omega, by omega, by omega⟩

theorem RC.disc (a : Nat) (rx : Option Packet) (evs : List Event) (ic : Bool) : RC a 6 rx evs ic :=
  ⟨by omega, by omega, by omega, by omega, by omega⟩

structure T7 (st st' : State) (sent : List Packet) (rx : Option Packet) (evs : List Event) (ic : Bool) : Prop where
  g : succOk (tag st) (tag st') = true
  m : ∀ p ∈ sent, ∀ k, kind p = some k → tag st' = k
  m0 : sent ≠ [] → tag st' ≠ 0
  r : RC (tag st) (tag st') rx evs ic

theorem succOk_refl (a : Nat) : succOk a a = true := by simp [succOk]
theorem succOk_disc (a : Nat) : succOk a 6 = true := by simp [succOk]

/-- same tag -/
theorem T7.stay {st st' : State} (h : tag st' = tag st) {sent : List Packet} {rx : Option Packet} {evs : List Event}
    {ic : Bool} (hk : ∀ p ∈ sent, ∀ k, kind p = some k → tag st = k) (h0 : sent ≠ [] → tag st ≠ 0) :
    T7 st st' sent rx evs ic :=
  ⟨by rw [h]; exact succOk_refl _, by rw [h]; exact hk, by rw [h]; exact h0, by rw [h]; exact RC.refl _ _ _ _⟩

theorem T7.disc {st : State} {sent : List Packet} {rx : Option Packet} {evs : List Event} {ic : Bool}
    (hk : ∀ p ∈ sent, kind p = none) : T7 st .disconnected sent rx evs ic :=
  ⟨succOk_disc _, (fun p hp k h => by rw [hk p hp] at h; cases h), (fun _ => by simp [tag]), RC.disc _ _ _ _⟩

theorem T7.onl {own their own' their' : Nat} {o o' : Online} {sent : List Packet} {rx : Option Packet}
    {evs : List Event} {ic : Bool} (hk : ∀ p ∈ sent, ∀ k, kind p = some k → k = 5) :
    T7 (.online own their o) (.online own' their' o') sent rx evs ic :=
  T7.stay (st := .online own their o) (st' := .online own' their' o') rfl (fun p hp k h => (hk p hp k h).symm)
    (fun _ => by simp [tag])

theorem T7.same (st : State) {sent : List Packet} {rx : Option Packet} {evs : List Event} {ic : Bool}
    (hk : ∀ p ∈ sent, kind p = none) (h0 : sent ≠ [] → tag st ≠ 0) : T7 st st sent rx evs ic :=
  T7.stay (st := st) (st' := st) rfl (fun p hp k h => by rw [hk p hp] at h; cases h) h0

theorem flushed_kind (their : Nat) {fl : List Flushed} {ps : List Packet}
    (hem : emit (fl.map (ofFlushed their)) = .ok ps) : ∀ p ∈ ps, kind p = some 5 := by
  have := emit_ok hem; subst this
  intro p hp
  simp only [List.mem_map] at hp
  obtain ⟨f, _, rfl⟩ := hp
  rfl

theorem flushed_kind' (their : Nat) {fl : List Flushed} {ps : List Packet}
    (hem : emit (fl.map (ofFlushed their)) = .ok ps) : ∀ p ∈ ps, ∀ k, kind p = some k → k = 5 := by
  intro p hp k hk
  rw [flushed_kind their hem p hp] at hk; injection hk with hk; exact hk.symm

theorem tickAction_t7 {env : Env} {c c' : Conn} {out : Out} (ht : tickAction env c = .ok (c', out)) :
    tag c'.state = tag c.state ∧ (∀ p ∈ out.sent, ∀ k, kind p = some k → tag c.state = k) ∧
      (out.sent ≠ [] → tag c.state ≠ 0) := by
  obtain ⟨st, snd⟩ := c
  have hctl : ∀ {ctl : Control} {ps : List Packet}, sendControl st ctl = .ok ps →
      (∀ k, kind (.control 0 0 ctl) = some k → tag st = k) →
      ∀ p ∈ ps, ∀ k, kind p = some k → tag st = k := by
    intro ctl ps hsc hown p hp k hr
    obtain ⟨tok, rfl⟩ := sendControl_ok hsc
    simp at hp; subst hp
    apply hown
    cases ctl <;> exact hr
  cases st <;> simp only [tickAction] at ht
  case unconnected => injection ht with ht; injection ht with h1 h2; subst h1 h2; exact ⟨rfl, by simp, by simp⟩
  case disconnected => injection ht with ht; injection ht with h1 h2; subst h1 h2; exact ⟨rfl, by simp, by simp⟩
  case pendingConnect own => injection ht with ht; injection ht with h1 h2; subst h1 h2; exact ⟨rfl, by simp, by simp⟩
  case token own =>
    split at ht
    · cases ht
    · rename_i ps hsc
      injection ht with ht; injection ht with h1 h2; subst h1 h2
      exact ⟨rfl, hctl hsc (by intro k h; cases h), by simp [tag]⟩
  case connecting own their =>
    split at ht
    · cases ht
    · rename_i ps hsc
      injection ht with ht; injection ht with h1 h2; subst h1 h2
      exact ⟨rfl, hctl hsc (by intro k h; cases h <;> rfl), by simp [tag]⟩
  case pending own their =>
    split at ht
    · cases ht
    · rename_i ps hsc
      injection ht with ht; injection ht with h1 h2; subst h1 h2
      exact ⟨rfl, hctl hsc (by intro k h; cases h <;> rfl), by simp [tag]⟩
  case online own their o =>
    split at ht
    · split at ht
      · cases ht
      · rename_i ps hem
        injection ht with ht; injection ht with h1 h2; subst h1 h2
        refine ⟨rfl, ?_, by simp [tag]⟩
        intro p hp k hr; rw [flushed_kind their hem p hp] at hr; cases hr <;> rfl
    · split at ht
      · cases ht
      · rename_i ps hsc
        injection ht with ht; injection ht with h1 h2; subst h1 h2
        exact ⟨rfl, hctl hsc (by intro k h; cases h), by simp [tag]⟩

/-- `tick_action` on a state `c.state` reached from `st0` -/
theorem T7.ofTick {env : Env} {c c' : Conn} {out : Out} {st0 : State} {rx : Option Packet} {evs : List Event}
    {ic : Bool} (ht : tickAction env c = .ok (c', out)) (g : succOk (tag st0) (tag c.state) = true)
    (r : RC (tag st0) (tag c.state) rx evs ic) : T7 st0 c'.state out.sent rx evs ic := by
  obtain ⟨a, b, c0⟩ := tickAction_t7 ht
  exact ⟨by rw [a]; exact g, by rw [a]; exact b, by rw [a]; exact c0, by rw [a]; exact r⟩

def isConn : Call → Bool
  | .connect => true
  | _ => false

theorem t7_call (now : Nat) (draws : List Nat) (c : Conn) (cl : Call) (r : Ret Conn Packet)
    (hr : P7.call now draws c cl = .ok r) :
    T7 c.state r.conn.state r.sent none r.events (isConn cl) := by
  obtain ⟨st, snd⟩ := c
  cases cl with
  | connect =>
    simp only [P7.call] at hr
    split at hr
    · cases hr
    · rename_i c1 out hcon
      injection hr with hr; subst hr
      unfold connect at hcon
      cases st with
      | unconnected =>
        simp only at hcon
        split at hcon
        · cases hcon
        · exact T7.ofTick hcon (by simp [succOk, tag]) ⟨fun _ _ => rfl, by simp [tag], by simp [tag], by simp [tag], by simp [tag]⟩
      | _ => simp at hcon
  | send d v =>
    simp only [P7.call] at hr
    split at hr
    · cases hr
    · rename_i c1 res out hsend
      injection hr with hr; subst hr
      unfold Conn7.send at hsend
      cases st with
      | online own their o =>
        simp only at hsend
        split at hsend
        · cases hsend
        · split at hsend
          · cases hsend
          · rename_i ps hem
            injection hsend with hsend; injection hsend with e1 e2; injection e2 with e2 e3
            subst e1 e3
            exact T7.onl (flushed_kind' their hem)
      | _ => simp at hsend
  | sendConnless d =>
    simp only [P7.call] at hr
    split at hr
    · cases hr
    · rename_i c1 res out hsend
      injection hr with hr; subst hr
      unfold Conn7.sendConnless at hsend
      cases st with
      | online own their o =>
        simp only at hsend
        split at hsend
        · injection hsend with hsend; injection hsend with e1 e2; injection e2 with e2 e3
          subst e1 e3
          exact T7.onl (by simp)
        · split at hsend
          · cases hsend
          · rename_i ps hem
            injection hsend with hsend; injection hsend with e1 e2; injection e2 with e2 e3
            subst e1 e3
            have := emit_ok hem; subst this
            exact T7.onl (by intro p hp k hk; simp at hp; subst hp; cases hk)
      | _ => simp at hsend
  | flush =>
    simp only [P7.call] at hr
    split at hr
    · cases hr
    · rename_i c1 out hfl
      injection hr with hr; subst hr
      unfold Conn7.flush at hfl
      cases st with
      | online own their o =>
        simp only at hfl
        split at hfl
        · cases hfl
        · rename_i ps hem
          injection hfl with hfl; injection hfl with e1 e2; subst e1 e2
          exact T7.onl (flushed_kind' their hem)
      | _ => simp at hfl
  | tick =>
    simp only [P7.call] at hr
    split at hr
    · cases hr
    · rename_i c1 out htick
      injection hr with hr; subst hr
      unfold Conn7.tick at htick
      cases st with
      | online own their o =>
        simp only at htick
        split at htick
        · unfold resendConn at htick
          split at htick
          · cases htick
          · split at htick
            · cases htick
            · rename_i ps hem
              injection htick with htick; injection htick with e1 e2; subst e1 e2
              exact T7.onl (flushed_kind' their hem)
        · split at htick
          · exact T7.ofTick htick (succOk_refl _) (RC.refl _ _ _ _)
          · injection htick with htick; injection htick with e1 e2; subst e1 e2
            exact T7.onl (by simp)
      | _ =>
        simp only [Bool.false_eq_true, if_false] at htick
        split at htick
        · exact T7.ofTick htick (succOk_refl _) (RC.refl _ _ _ _)
        · injection htick with htick; injection htick with e1 e2; subst e1 e2
          exact T7.same _ (by simp) (by simp)
  | disconnect reason =>
    simp only [P7.call] at hr
    split at hr
    · cases hr
    · rename_i c1 out hdis
      injection hr with hr; subst hr
      unfold Conn7.disconnect at hdis
      split at hdis
      · cases hdis
      · split at hdis
        · cases hdis
        · split at hdis
          · cases hdis
          · rename_i ps hsc
            injection hdis with hdis; injection hdis with e1 e2; subst e1 e2
            obtain ⟨tok, rfl⟩ := sendControl_ok hsc
            exact T7.disc (by intro p hp; simp at hp; subst hp; rfl)

/-! ## deliveries -/

theorem T7.of_tag {st0 st st' : State} {sent : List Packet} {rx : Option Packet} {evs : List Event} {ic : Bool}
    (h : tag st0 = tag st) (t : T7 st st' sent rx evs ic) : T7 st0 st' sent rx evs ic :=
  ⟨by rw [h]; exact t.g, t.m, t.m0, by rw [h]; exact t.r⟩

theorem feedBody_t7 {env : Env} {c c1 : Conn} {q : Packet} {out : Out}
    (hf : feedBody env c q = .ok (c1, out)) : T7 c.state c1.state out.sent (some q) out.events false := by
  obtain ⟨st, snd⟩ := c
  have hnoop : feedBody env ⟨st, snd⟩ q = .ok (⟨st, snd⟩, {}) →
      T7 st c1.state out.sent (some q) out.events false := by
    intro hk
    rw [hk] at hf
    injection hf with hf; injection hf with e1 e2; subst e1 e2
    exact T7.same _ (by simp) (by simp)
  cases q with
  | connless a b d => exact hnoop (by simp [feedBody])
  | chunks ack tk rr n cs =>
    have hrecv : ∀ (own their : Nat) (o : Online), (tag st = 5 ∨ tag st = 4) →
        (match o.receive Conn7.cfg env.now snd rr cs with
          | .error e => .error e
          | .ok (o1, send1, fl, evs) =>
            match emit (fl.map (ofFlushed their)) with
            | .error e => .error e
            | .ok ps => .ok (⟨.online own their o1, send1⟩, { sent := ps, events := evs })) = Except.ok (c1, out) →
        T7 st c1.state out.sent (some (.chunks ack tk rr n cs)) out.events false := by
      intro own their o hst hk
      split at hk
      · cases hk
      · split at hk
        · cases hk
        · rename_i ps hem
          injection hk with hk; injection hk with e1 e2; subst e1 e2
          refine ⟨?_, ?_, by simp [tag], ?_⟩
          · rcases hst with h | h <;> rw [h] <;> rfl
          · intro p hp k hk; rw [flushed_kind their hem p hp] at hk; cases hk <;> rfl
          · refine ⟨by simp [tag], by simp [tag], fun _ _ => ⟨_, rfl, rfl⟩, ?_, by simp [tag]⟩
            intro h2; rcases hst with h | h <;> omega
    cases st with
    | online own their o => simp only [feedBody] at hf; exact hrecv own their o (Or.inl rfl) hf
    | pending own their => simp only [feedBody] at hf; exact hrecv own their .new (Or.inr rfl) hf
    | unconnected => exact hnoop (by simp [feedBody])
    | token own => exact hnoop (by simp [feedBody])
    | pendingConnect own => exact hnoop (by simp [feedBody])
    | connecting own their => exact hnoop (by simp [feedBody])
    | disconnected => exact hnoop (by simp [feedBody])
  | control ack tk ctl =>
    cases ctl with
    | keepAlive => exact hnoop (by simp [feedBody])
    | close reason =>
      simp only [feedBody] at hf
      injection hf with hf; injection hf with e1 e2; subst e1 e2
      exact T7.disc (by simp)
    | accept =>
      cases st with
      | connecting own their =>
        simp only [feedBody] at hf
        injection hf with hf; injection hf with e1 e2; subst e1 e2
        exact ⟨by simp [tag, succOk], by simp, by simp,
          ⟨by simp [tag], by simp [tag], by simp [tag], fun _ _ => ⟨⟨_, rfl, rfl⟩, by simp⟩, by simp [tag]⟩⟩
      | online own their o => exact hnoop (by simp [feedBody])
      | pending own their => exact hnoop (by simp [feedBody])
      | unconnected => exact hnoop (by simp [feedBody])
      | token own => exact hnoop (by simp [feedBody])
      | pendingConnect own => exact hnoop (by simp [feedBody])
      | disconnected => exact hnoop (by simp [feedBody])
    | connect their =>
      cases st with
      | pendingConnect own =>
        simp only [feedBody] at hf
        have := T7.ofTick (st0 := .pendingConnect own) (rx := some (.control ack tk (.connect their))) (evs := out.events)
          (ic := false) hf (by simp [tag, succOk])
          ⟨by simp [tag], fun _ _ => ⟨_, rfl, rfl⟩, by simp [tag], by simp [tag], by simp [tag]⟩
        exact this
      | online own their o => exact hnoop (by simp [feedBody])
      | pending own their => exact hnoop (by simp [feedBody])
      | unconnected => exact hnoop (by simp [feedBody])
      | token own => exact hnoop (by simp [feedBody])
      | connecting own their => exact hnoop (by simp [feedBody])
      | disconnected => exact hnoop (by simp [feedBody])
    | token their =>
      cases st with
      | unconnected =>
        cases htk : tokenRandom env.draws with
        | none => simp [feedBody, htk] at hf
        | some t0 =>
          simp only [feedBody, htk] at hf
          split at hf
          · cases hf
          · rename_i ps hsc
            injection hf with hf; injection hf with e1 e2; subst e1 e2
            have := sendControlWith_ok hsc; subst this
            exact ⟨by simp [tag, succOk], (by intro p hp k hk; simp at hp; subst hp; cases hk), by simp [tag],
              ⟨by simp [tag], by simp [tag], by simp [tag], by simp [tag], by simp [tag]⟩⟩
      | pendingConnect own =>
        simp only [feedBody] at hf
        split at hf
        · cases hf
        · rename_i ps hsc
          injection hf with hf; injection hf with e1 e2; subst e1 e2
          have := sendControlWith_ok hsc; subst this
          exact T7.same _ (by intro p hp; simp at hp; subst hp; rfl) (by simp [tag])
      | token own =>
        simp only [feedBody] at hf
        have := T7.ofTick (st0 := .token own) (rx := some (.control ack tk (.token their))) (evs := out.events)
          (ic := false) hf (by simp [tag, succOk])
          ⟨by simp [tag], by simp [tag], by simp [tag], by simp [tag], fun _ _ => by simp⟩
        exact this
      | online own their o => exact hnoop (by simp [feedBody])
      | pending own their => exact hnoop (by simp [feedBody])
      | connecting own their => exact hnoop (by simp [feedBody])
      | disconnected => exact hnoop (by simp [feedBody])

theorem t7_recv (now : Nat) (draws : List Nat) (c : Conn) (p : Packet) (alt : Unit) (r : Ret Conn Packet)
    (hr : P7.recv now draws c p alt = .ok r) : T7 c.state r.conn.state r.sent (some p) r.events false := by
  unfold P7.recv at hr
  split at hr
  · cases hr
  · rename_i c1 out hf
    injection hr with hr; subst hr
    simp only
    have hquiet : ∀ (o : Out), o.sent = [] → (Except.ok (c, o) : Res) = Except.ok (c1, out) →
        T7 c.state c1.state out.sent (some p) out.events false := by
      intro o ho hk
      injection hk with hk; injection hk with e1 e2; subst e1 e2
      exact T7.same _ (by simp [ho]) (by simp [ho])
    have hbody : ∀ (ack : Nat),
        (match c.state with
          | .online own their o =>
            match o.feedAck ack with
            | .error e => .error e
            | .ok o1 => feedBody ⟨now, draws⟩ { c with state := .online own their o1 } p
          | _ => feedBody ⟨now, draws⟩ c p) = Except.ok (c1, out) →
        T7 c.state c1.state out.sent (some p) out.events false := by
      intro ack hk
      cases hst : c.state with
      | online own their o =>
        simp only [hst] at hk
        split at hk
        · cases hk
        · rename_i o1 _
          exact T7.of_tag (st0 := .online own their o) (st := .online own their o1) rfl (feedBody_t7 hk)
      | unconnected => simp only [hst] at hk; rw [← hst]; exact feedBody_t7 hk
      | token own => simp only [hst] at hk; rw [← hst]; exact feedBody_t7 hk
      | pendingConnect own => simp only [hst] at hk; rw [← hst]; exact feedBody_t7 hk
      | connecting own their => simp only [hst] at hk; rw [← hst]; exact feedBody_t7 hk
      | pending own their => simp only [hst] at hk; rw [← hst]; exact feedBody_t7 hk
      | disconnected => simp only [hst] at hk; rw [← hst]; exact feedBody_t7 hk
    unfold feed at hf
    cases p with
    | connless a b d =>
      simp only at hf
      split at hf
      · exact hquiet _ rfl hf
      · split at hf
        · exact hquiet _ rfl hf
        · exact hquiet _ rfl hf
    | control ack tk ctl =>
      simp only at hf
      split at hf
      · exact hquiet _ rfl hf
      · exact hbody ack hf
    | chunks ack tk rr n cs =>
      simp only at hf
      split at hf
      · exact hquiet _ rfl hf
      · exact hbody ack hf

/-! ## own tokens are never `TOKEN_NONE` -/

def OwnOk (c : Conn) : Prop := ∀ o, c.state.ownToken? = some o → o ≠ TOKEN_NONE

theorem tokenRandom_ne' {draws : List Nat} {nt : Nat} (h : tokenRandom draws = some nt) : nt ≠ TOKEN_NONE := by
  induction draws with
  | nil => simp [tokenRandom] at h
  | cons d ds ih =>
    simp only [tokenRandom] at h
    split at h
    · injection h with h; subst h; assumption
    · exact ih h

theorem tickAction_own {env : Env} {c c' : Conn} {out : Out} (ht : tickAction env c = .ok (c', out)) :
    c'.state.ownToken? = c.state.ownToken? := (tickAction_trans none ht).1

theorem own_call_unc {now : Nat} {draws : List Nat} {s : Timeout} {cl : Call} {r : Ret Conn Packet}
    (hr : P7.call now draws ⟨.unconnected, s⟩ cl = .ok r) : OwnOk r.conn := by
  cases cl with
  | connect =>
    simp only [P7.call, connect] at hr
    cases htk : tokenRandom draws with
    | none => simp [htk] at hr
    | some t =>
      simp only [htk] at hr
      split at hr
      · cases hr
      · rename_i c1 out hta
        injection hr with hr; subst hr
        intro o ho
        have := tickAction_own hta
        simp only at ho
        rw [this] at ho
        simp [State.ownToken?] at ho
        subst ho
        exact tokenRandom_ne' htk
  | send d v => simp [P7.call, Conn7.send] at hr
  | sendConnless d => simp [P7.call, Conn7.sendConnless] at hr
  | flush => simp [P7.call, Conn7.flush] at hr
  | tick =>
    simp only [P7.call, Conn7.tick] at hr
    split at hr
    · cases hr
    · rename_i c1 out hta
      injection hr with hr; subst hr
      simp only [Bool.false_eq_true, if_false] at hta
      split at hta
      · simp [tickAction] at hta
        obtain ⟨rfl, _⟩ := hta
        intro o ho; simp [State.ownToken?] at ho
      · injection hta with hta; injection hta with h1 h2; subst h1
        intro o ho; simp [State.ownToken?] at ho
  | disconnect reason =>
    simp only [P7.call, Conn7.disconnect] at hr
    split at hr
    · cases hr
    · rename_i c1 out hd
      injection hr with hr; subst hr
      split at hd
      · cases hd
      · split at hd
        · cases hd
        · injection hd with hd; injection hd with h1 h2; subst h1
          intro o ho; simp [State.ownToken?] at ho

theorem ownok_call {now : Nat} {draws : List Nat} {c : Conn} {cl : Call} {r : Ret Conn Packet}
    (h : OwnOk c) (hr : P7.call now draws c cl = .ok r) : OwnOk r.conn := by
  have tr := trans_call7 now draws c cl r hr
  cases ho : c.state.ownToken? with
  | some o0 =>
    intro o ho'
    rcases tr.r2 o0 ho with h1 | h1
    · rw [h1] at ho'; injection ho' with ho'; subst ho'; exact h o0 ho
    · rw [h1] at ho'; simp [State.ownToken?] at ho'
  | none =>
    obtain ⟨st, snd⟩ := c
    cases st with
    | unconnected => exact own_call_unc hr
    | disconnected =>
      have := tr.r4 rfl
      intro o ho'; rw [this] at ho'; simp [State.ownToken?] at ho'
    | _ => simp [State.ownToken?] at ho

theorem feedBody_own_unc {env : Env} {s : Timeout} {q : Packet} {c1 : Conn} {out : Out}
    (hf : feedBody env ⟨.unconnected, s⟩ q = .ok (c1, out)) : OwnOk c1 := by
  have hnoop : feedBody env ⟨.unconnected, s⟩ q = .ok (⟨.unconnected, s⟩, {}) → OwnOk c1 := by
    intro hk
    rw [hk] at hf
    injection hf with hf; injection hf with e1 e2; subst e1
    intro o ho; simp [State.ownToken?] at ho
  cases q with
  | connless a b d => exact hnoop (by simp [feedBody])
  | chunks ack tk rr n cs => exact hnoop (by simp [feedBody])
  | control ack tk ctl =>
    cases ctl with
    | keepAlive => exact hnoop (by simp [feedBody])
    | accept => exact hnoop (by simp [feedBody])
    | connect t => exact hnoop (by simp [feedBody])
    | close reason =>
      simp only [feedBody] at hf
      injection hf with hf; injection hf with e1 e2; subst e1
      intro o ho; simp [State.ownToken?] at ho
    | token their =>
      cases htk : tokenRandom env.draws with
      | none => simp [feedBody, htk] at hf
      | some t0 =>
        simp only [feedBody, htk] at hf
        split at hf
        · cases hf
        · injection hf with hf; injection hf with e1 e2; subst e1
          intro o ho; simp [State.ownToken?] at ho; subst ho
          exact tokenRandom_ne' htk

theorem ownok_recv {now : Nat} {draws : List Nat} {c : Conn} {p : Packet} {r : Ret Conn Packet}
    (h : OwnOk c) (hr : P7.recv now draws c p () = .ok r) : OwnOk r.conn := by
  obtain ⟨rx, tr, _⟩ := trans_recv7 now draws c p () r hr
  cases ho : c.state.ownToken? with
  | some o0 =>
    intro o ho'
    rcases tr.r2 o0 ho with h1 | h1
    · rw [h1] at ho'; injection ho' with ho'; subst ho'; exact h o0 ho
    · rw [h1] at ho'; simp [State.ownToken?] at ho'
  | none =>
    obtain ⟨st, snd⟩ := c
    cases st with
    | disconnected =>
      have := tr.r4 rfl
      intro o ho'; rw [this] at ho'; simp [State.ownToken?] at ho'
    | unconnected =>
      unfold P7.recv at hr
      split at hr
      · cases hr
      · rename_i c1 out hf
        injection hr with hr; subst hr
        simp only
        have hq : ∀ (o : Out), (Except.ok ((⟨.unconnected, snd⟩ : Conn), o) : Res) = Except.ok (c1, out) → OwnOk c1 := by
          intro o hk
          injection hk with hk; injection hk with e1 e2; subst e1
          intro o ho; simp [State.ownToken?] at ho
        unfold feed at hf
        cases p with
        | connless a b d =>
          simp only at hf
          split at hf
          · exact hq _ hf
          · split at hf
            · exact hq _ hf
            · exact hq _ hf
        | control ack tk ctl =>
          simp only at hf
          split at hf
          · exact hq _ hf
          · exact feedBody_own_unc hf
        | chunks ack tk rr n cs =>
          simp only at hf
          split at hf
          · exact hq _ hf
          · exact feedBody_own_unc hf
    | _ => simp [State.ownToken?] at ho

/-! ## the world invariant -/

def sentK (e : End proto7) (k : Nat) : Prop := ∃ dg ∈ e.out, kind dg.pkt = some k

theorem sentK_book (e : End proto7) (r : Ret Conn Packet) (sub : List (Bytes × Bool)) (k : Nat) :
    sentK (e.book r sub) k ↔ sentK e k ∨ ∃ p ∈ r.sent, kind p = some k := by
  simp only [sentK, End.book, List.mem_append, List.mem_map]
  constructor
  · rintro ⟨dg, hdg | ⟨p, hp, rfl⟩, h⟩
    · exact Or.inl ⟨dg, hdg, h⟩
    · exact Or.inr ⟨p, hp, h⟩
  · rintro (⟨dg, hdg, h⟩ | ⟨p, hp, h⟩)
    · exact ⟨dg, Or.inl hdg, h⟩
    · exact ⟨_, Or.inr ⟨p, hp, rfl⟩, h⟩

theorem succOk_cases {a b : Nat} (h : succOk a b = true) :
    a = b ∨ b = 6 ∨ (a = 0 ∧ (b = 1 ∨ b = 3)) ∨ (a = 1 ∧ b = 2) ∨ (a = 2 ∧ b = 5) ∨ (a = 3 ∧ b = 4) ∨
      (a = 4 ∧ b = 5) := by
  simp [succOk] at h
  omega

/-- what an endpoint has sent so far bounds its state from below -/
structure H (e : End proto7) : Prop where
  h0 : tag e.conn.state = 0 → e.out = []
  h2 : sentK e 2 → tag e.conn.state = 2 ∨ tag e.conn.state = 5 ∨ tag e.conn.state = 6
  h4 : sentK e 4 → tag e.conn.state = 4 ∨ tag e.conn.state = 5 ∨ tag e.conn.state = 6
  h5 : sentK e 5 → tag e.conn.state = 5 ∨ tag e.conn.state = 6

theorem H.act {e : End proto7} (h : H e) {r : Ret Conn Packet} {rx : Option Packet} {ic : Bool}
    (t : T7 e.conn.state r.conn.state r.sent rx r.events ic) (sub : List (Bytes × Bool)) : H (e.book r sub) := by
  have hg := succOk_cases t.g
  refine ⟨?_, ?_, ?_, ?_⟩
  · intro hb
    have hb' : tag r.conn.state = 0 := hb
    have ha : tag e.conn.state = 0 := by omega
    have hs : r.sent = [] := by
      cases hs : r.sent with
      | nil => rfl
      | cons x xs => exact absurd hb' (t.m0 (by rw [hs]; simp))
    simp [End.book, h.h0 ha, hs]; rfl
  · intro hs
    show tag r.conn.state = 2 ∨ tag r.conn.state = 5 ∨ tag r.conn.state = 6
    rcases (sentK_book e r sub 2).1 hs with h1 | ⟨p, hp, hk⟩
    · have := h.h2 h1; omega
    · have := t.m p hp 2 hk; omega
  · intro hs
    show tag r.conn.state = 4 ∨ tag r.conn.state = 5 ∨ tag r.conn.state = 6
    rcases (sentK_book e r sub 4).1 hs with h1 | ⟨p, hp, hk⟩
    · have := h.h4 h1; omega
    · have := t.m p hp 4 hk; omega
  · intro hs
    show tag r.conn.state = 5 ∨ tag r.conn.state = 6
    rcases (sentK_book e r sub 5).1 hs with h1 | ⟨p, hp, hk⟩
    · have := h.h5 h1; omega
    · have := t.m p hp 5 hk; omega

/-- `fa`: `a` has called `connect`; `fb`: `b` has -/
structure J (fa fb : Bool) (w : World proto7) : Prop where
  ha : H w.a
  hb : H w.b
  oa : OwnOk w.a.conn
  ob : OwnOk w.b.conn
  ra : fa = true → (tag w.a.conn.state = 1 ∨ tag w.a.conn.state = 2 ∨ tag w.a.conn.state = 5 ∨ tag w.a.conn.state = 6) ∧
    (tag w.a.conn.state = 5 → Event.ready ∈ w.a.events) ∧
    (tag w.a.conn.state = 5 → tag w.b.conn.state = 4 ∨ tag w.b.conn.state = 5 ∨ tag w.b.conn.state = 6)
  rb : fb = false → (tag w.b.conn.state = 0 ∨ tag w.b.conn.state = 3 ∨ tag w.b.conn.state = 4 ∨
      tag w.b.conn.state = 5 ∨ tag w.b.conn.state = 6) ∧
    (tag w.b.conn.state = 5 → tag w.a.conn.state = 5 ∨ tag w.a.conn.state = 6)
  x1 : tag w.b.conn.state = 4 → tag w.a.conn.state = 2 ∨ tag w.a.conn.state = 5 ∨ tag w.a.conn.state = 6
  x3 : tag w.a.conn.state = 2 → tag w.b.conn.state ≠ 0

theorem J.actA {fa fb : Bool} {w : World proto7} (h : J fa fb w) {r : Ret Conn Packet} {rx : Option Packet} {ic : Bool}
    (t : T7 w.a.conn.state r.conn.state r.sent rx r.events ic)
    (hrx : ∀ q, rx = some q → ∃ dg ∈ w.b.out, dg.pkt = q) (ho : OwnOk r.conn)
    (hic : ic = true → tag w.a.conn.state = 0 ∧ tag r.conn.state = 1) (sub : List (Bytes × Bool))
    (w' : World proto7) (hwa : w'.a = w.a.book r sub) (hwb : w'.b = w.b) :
    J (fa || ic) fb w' := by
  have e1 : w'.a.conn.state = r.conn.state := by rw [hwa]; rfl
  have e2 : w'.a.events = w.a.events ++ r.events := by rw [hwa]; rfl
  have hg := succOk_cases t.g
  obtain ⟨rc1, rc2, rc3, rc4, rc5⟩ := t.r
  have hkb : ∀ k, (∃ q, rx = some q ∧ kind q = some k) → sentK w.b k := by
    rintro k ⟨q, hq, hk⟩
    obtain ⟨dg, hdg, hp⟩ := hrx q hq
    exact ⟨dg, hdg, by rw [hp]; exact hk⟩
  refine ⟨by rw [hwa]; exact h.ha.act t sub, by rw [hwb]; exact h.hb, by rw [hwa]; exact ho,
    by rw [hwb]; exact h.ob, ?_, ?_, ?_, ?_⟩
  · intro hf
    rw [e1, e2, hwb]
    cases ic with
    | true =>
      obtain ⟨h0, h1⟩ := hic rfl
      exact ⟨by clear rc1 rc2 rc3 rc4 rc5; omega, by clear rc1 rc2 rc3 rc4 rc5; omega, by clear rc1 rc2 rc3 rc4 rc5; omega⟩
    | false =>
      have hfa : fa = true := by simpa using hf
      obtain ⟨r1, r2, r3⟩ := h.ra hfa
      refine ⟨by clear rc1 rc2 rc3 rc4 rc5; omega, ?_, ?_⟩
      · intro h5
        by_cases ha5 : tag w.a.conn.state = 5
        · exact List.mem_append_left _ (r2 ha5)
        · have ha2 : tag w.a.conn.state = 2 := by clear rc1 rc2 rc3 rc4 rc5; omega
          exact List.mem_append_right _ (rc4 ha2 h5).2
      · intro h5
        by_cases ha5 : tag w.a.conn.state = 5
        · exact r3 ha5
        · have ha2 : tag w.a.conn.state = 2 := by clear rc1 rc2 rc3 rc4 rc5; omega
          exact h.hb.h4 (hkb 4 (rc4 ha2 h5).1)
  · intro hf
    obtain ⟨s1, s2⟩ := h.rb hf
    rw [e1, hwb]
    refine ⟨s1, fun hb5 => ?_⟩
    have := s2 hb5
    clear rc1 rc2 rc3 rc4 rc5; omega
  · rw [e1, hwb]
    intro hb4
    have := h.x1 hb4
    clear rc1 rc2 rc3 rc4 rc5; omega
  · rw [e1, hwb]
    intro ha2'
    by_cases ha : tag w.a.conn.state = 2
    · exact h.x3 ha
    · have ha1 : tag w.a.conn.state = 1 := by clear rc1 rc2 rc3 rc4 rc5; omega
      have hne := rc5 ha1 ha2'
      cases hrxv : rx with
      | none => exact absurd hrxv hne
      | some q =>
        obtain ⟨dg, hdg, _⟩ := hrx q hrxv
        intro hb0
        rw [h.hb.h0 hb0] at hdg
        simp at hdg

theorem J.actB {fa fb : Bool} {w : World proto7} (h : J fa fb w) {r : Ret Conn Packet} {rx : Option Packet} {ic : Bool}
    (t : T7 w.b.conn.state r.conn.state r.sent rx r.events ic)
    (hrx : ∀ q, rx = some q → ∃ dg ∈ w.a.out, dg.pkt = q) (ho : OwnOk r.conn) (sub : List (Bytes × Bool))
    (w' : World proto7) (hwa : w'.a = w.a) (hwb : w'.b = w.b.book r sub) :
    J fa (fb || ic) w' := by
  have e1 : w'.b.conn.state = r.conn.state := by rw [hwb]; rfl
  have hg := succOk_cases t.g
  obtain ⟨rc1, rc2, rc3, rc4, rc5⟩ := t.r
  have hka : ∀ k, (∃ q, rx = some q ∧ kind q = some k) → sentK w.a k := by
    rintro k ⟨q, hq, hk⟩
    obtain ⟨dg, hdg, hp⟩ := hrx q hq
    exact ⟨dg, hdg, by rw [hp]; exact hk⟩
  refine ⟨by rw [hwa]; exact h.ha, by rw [hwb]; exact h.hb.act t sub, by rw [hwa]; exact h.oa,
    by rw [hwb]; exact ho, ?_, ?_, ?_, ?_⟩
  · intro hf
    obtain ⟨r1, r2, r3⟩ := h.ra hf
    rw [e1, hwa]
    refine ⟨r1, r2, fun ha5 => ?_⟩
    have := r3 ha5
    clear rc1 rc2 rc3 rc4 rc5; omega
  · intro hf
    have hfb : fb = false := by cases fb <;> simp_all
    have hicf : ic = false := by cases ic <;> simp_all
    obtain ⟨s1, s2⟩ := h.rb hfb
    have hn : ¬ (tag w.b.conn.state = 0 ∧ tag r.conn.state = 1) := by
      rintro ⟨h0, h1⟩
      have := rc1 h0 h1
      rw [hicf] at this; cases this
    rw [e1, hwa]
    refine ⟨by clear rc1 rc2 rc3 rc4 rc5; omega, fun hb5 => ?_⟩
    by_cases hb : tag w.b.conn.state = 5
    · exact s2 hb
    · have hb4 : tag w.b.conn.state = 4 := by clear rc1 rc2 rc3 rc4 rc5; omega
      exact h.ha.h5 (hka 5 (rc3 hb4 hb5))
  · rw [e1, hwa]
    intro hb4'
    by_cases hb : tag w.b.conn.state = 4
    · exact h.x1 hb
    · have hb3 : tag w.b.conn.state = 3 := by clear rc1 rc2 rc3 rc4 rc5; omega
      exact h.ha.h2 (hka 2 (rc2 hb3 hb4'))
  · rw [e1, hwa]
    intro ha2
    have := h.x3 ha2
    clear rc1 rc2 rc3 rc4 rc5; omega

def isConnectBy (x : Side) : Move proto7 → Bool
  | .call s _ c => decide (s = x) && isConn c
  | _ => false

def connects (x : Side) (ms : List (Move proto7)) : Bool := ms.any (isConnectBy x)

theorem call_connect_tags {now : Nat} {draws : List Nat} {c : Conn} {r : Ret Conn Packet}
    (hr : P7.call now draws c .connect = .ok r) : tag c.state = 0 ∧ tag r.conn.state = 1 := by
  obtain ⟨st, snd⟩ := c
  simp only [P7.call] at hr
  split at hr
  · cases hr
  · rename_i c1 out hcon
    injection hr with hr; subst hr
    unfold connect at hcon
    cases st with
    | unconnected =>
      simp only at hcon
      split at hcon
      · cases hcon
      · exact ⟨rfl, (tickAction_t7 hcon).1⟩
    | _ => simp at hcon

theorem j_init : J false false (World.init proto7) := by
  have hH : H ({ conn := Conn.new } : End proto7) :=
    ⟨fun _ => rfl, (by rintro ⟨dg, hdg, _⟩; simp at hdg), (by rintro ⟨dg, hdg, _⟩; simp at hdg),
      (by rintro ⟨dg, hdg, _⟩; simp at hdg)⟩
  have hO : OwnOk Conn.new := by intro o ho; simp [Conn.new, State.ownToken?] at ho
  exact ⟨hH, hH, hO, hO, (by intro h; cases h), (fun _ => ⟨Or.inl rfl, (by intro h; cases h)⟩),
    (by intro h; cases h), (by intro h; cases h)⟩

theorem j_step {fa fb : Bool} {w w' : World proto7} (h : J fa fb w) (m : Move proto7) (he : step w m = some w') :
    J (fa || isConnectBy .a m) (fb || isConnectBy .b m) w' := by
  cases m with
  | advance dt =>
    simp only [step] at he
    injection he with he; subst he
    simp only [isConnectBy, Bool.or_false]
    exact ⟨h.ha, h.hb, h.oa, h.ob, h.ra, h.rb, h.x1, h.x3⟩
  | call s draws c =>
    simp only [step] at he
    cases hr : proto7.call w.now draws (w.get s).conn c with
    | error e => rw [hr] at he; cases he
    | ok r =>
      rw [hr] at he
      injection he with he
      subst he
      have t := t7_call w.now draws (w.get s).conn c r hr
      have ho : OwnOk (w.get s).conn → OwnOk r.conn := fun h0 => ownok_call h0 hr
      have hic : isConn c = true → tag (w.get s).conn.state = 0 ∧ tag r.conn.state = 1 := by
        intro hc
        cases c <;> simp [isConn] at hc
        exact call_connect_tags hr
      cases s with
      | a =>
        have e1 : isConnectBy .a (.call .a draws c) = isConn c := by simp [isConnectBy]
        have e2 : isConnectBy .b (.call .a draws c) = false := by simp [isConnectBy]
        rw [e1, e2, Bool.or_false]
        exact h.actA t (by intro q hq; cases hq) (ho h.oa) hic _ _ rfl rfl
      | b =>
        have e1 : isConnectBy .b (.call .b draws c) = isConn c := by simp [isConnectBy]
        have e2 : isConnectBy .a (.call .b draws c) = false := by simp [isConnectBy]
        rw [e1, e2, Bool.or_false]
        exact h.actB t (by intro q hq; cases hq) (ho h.ob) _ _ rfl rfl
  | deliver to i draws alt =>
    simp only [step] at he
    cases hdg : (w.get to.other).out[i]? with
    | none => rw [hdg] at he; cases he
    | some dg =>
      rw [hdg] at he
      simp only at he
      cases hr : proto7.recv w.now draws (w.get to).conn dg.pkt alt with
      | error e => rw [hr] at he; cases he
      | ok r =>
        rw [hr] at he
        injection he with he
        subst he
        have hm := List.mem_of_getElem? hdg
        have t := t7_recv w.now draws (w.get to).conn dg.pkt alt r hr
        have hrx : ∀ q, some dg.pkt = some q → ∃ dg' ∈ (w.get to.other).out, dg'.pkt = q := by
          intro q hq; injection hq with hq; exact ⟨dg, hm, hq⟩
        have ho : OwnOk (w.get to).conn → OwnOk r.conn := fun h0 => ownok_recv h0 hr
        cases to with
        | a =>
          simp only [isConnectBy, Bool.or_false]
          have := h.actA (ic := false) t hrx (ho h.oa) (by intro hc; cases hc) []
            (w.set .a ((w.get .a).book r [])) rfl rfl
          simpa using this
        | b =>
          simp only [isConnectBy, Bool.or_false]
          have := h.actB (ic := false) t hrx (ho h.ob) []
            (w.set .b ((w.get .b).book r [])) rfl rfl
          simpa using this

theorem j_run : ∀ (ms : List (Move proto7)) (fa fb : Bool) (w w' : World proto7), J fa fb w →
    NetSim.run w ms = some w' → J (fa || connects .a ms) (fb || connects .b ms) w' := by
  intro ms
  induction ms with
  | nil => intro fa fb w w' h he; simp [NetSim.run] at he; subst he; simpa [connects] using h
  | cons m ms ih =>
    intro fa fb w w' h he
    simp only [NetSim.run] at he
    cases hst : step w m with
    | none => rw [hst] at he; cases he
    | some w1 =>
      rw [hst] at he
      have := ih _ _ w1 w' (j_step h m hst) he
      simpa [connects, Bool.or_assoc] using this

end Tw.NetSim.P7
