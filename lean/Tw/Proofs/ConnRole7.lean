import Tw.Proofs.ConnTokens7

/-!
# 0.7: which handshake shapes occur

`T7` summarises what one call / delivery does to the handshake state (by its tag), which kinds of
datagrams it sends, and what it must have received; `Role7` is the resulting world invariant.
-/
namespace Tw.NetSim.P7
open Tw.Conn Tw.Conn7 Tw.Time Tw.NetSim

/-- 0 unconnected, 1 token, 2 connecting, 3 pendingConnect, 4 pending, 5 online, 6 disconnected -/
def tag : State → Nat
  | .unconnected => 0
  | .token _ => 1
  | .connecting _ _ => 2
  | .pendingConnect _ => 3
  | .pending _ _ => 4
  | .online _ _ _ => 5
  | .disconnected => 6

/-- `Connect` 2, `Accept` 4, chunk packet 5: the tag of the state that sends it -/
def kind : Packet → Option Nat
  | .control _ _ (.connect _) => some 2
  | .control _ _ .accept => some 4
  | .chunks _ _ _ _ _ => some 5
  | _ => none

def succOk (a b : Nat) : Bool :=
  a == b || b == 6 || (a == 0 && (b == 1 || b == 3)) || (a == 1 && b == 2) || (a == 2 && b == 5) ||
    (a == 3 && b == 4) || (a == 4 && b == 5)

/-- what a change of tag needs -/
def RC (a b : Nat) (rx : Option Packet) (evs : List Event) (ic : Bool) : Prop :=
  (a = 0 → b = 1 → ic = true) ∧ (a = 3 → b = 4 → ∃ q, rx = some q ∧ kind q = some 2) ∧
  (a = 4 → b = 5 → ∃ q, rx = some q ∧ kind q = some 5) ∧
  (a = 2 → b = 5 → (∃ q, rx = some q ∧ kind q = some 4) ∧ Event.ready ∈ evs) ∧
  (a = 1 → b = 2 → rx ≠ none)

theorem RC.refl (a : Nat) (rx : Option Packet) (evs : List Event) (ic : Bool) : RC a a rx evs ic :=
  ⟨by omega, by omega, by omega, by omega, by omega⟩

theorem RC.disc (a : Nat) (rx : Option Packet) (evs : List Event) (ic : Bool) : RC a 6 rx evs ic :=
  ⟨by omega, by omega, by omega, by omega, by omega⟩

structure T7 (st st' : State) (sent : List Packet) (rx : Option Packet) (evs : List Event) (ic : Bool) : Prop where
  g : succOk (tag st) (tag st') = true
  m : ∀ p ∈ sent, ∀ k, kind p = some k → tag st' = k
  m0 : sent ≠ [] → tag st' ≠ 0
  r : RC (tag st) (tag st') rx evs ic

theorem succOk_refl (a : Nat) : succOk a a = true := by simp [succOk]
theorem succOk_disc (a : Nat) : succOk a 6 = true := by simp [succOk]

/-- same tag -/
theorem T7.stay {st st' : State} (h : tag st' = tag st) {sent : List Packet} {rx : Option Packet} {evs : List Event}
    {ic : Bool} (hk : ∀ p ∈ sent, ∀ k, kind p = some k → tag st = k) (h0 : sent ≠ [] → tag st ≠ 0) :
    T7 st st' sent rx evs ic :=
  ⟨by rw [h]; exact succOk_refl _, by rw [h]; exact hk, by rw [h]; exact h0, by rw [h]; exact RC.refl _ _ _ _⟩

theorem T7.disc {st : State} {sent : List Packet} {rx : Option Packet} {evs : List Event} {ic : Bool}
    (hk : ∀ p ∈ sent, kind p = none) : T7 st .disconnected sent rx evs ic :=
  ⟨succOk_disc _, (fun p hp k h => by rw [hk p hp] at h; cases h), (fun _ => by simp [tag]), RC.disc _ _ _ _⟩

theorem T7.onl {own their own' their' : Nat} {o o' : Online} {sent : List Packet} {rx : Option Packet}
    {evs : List Event} {ic : Bool} (hk : ∀ p ∈ sent, ∀ k, kind p = some k → k = 5) :
    T7 (.online own their o) (.online own' their' o') sent rx evs ic :=
  T7.stay (st := .online own their o) (st' := .online own' their' o') rfl (fun p hp k h => (hk p hp k h).symm)
    (fun _ => by simp [tag])

theorem T7.same (st : State) {sent : List Packet} {rx : Option Packet} {evs : List Event} {ic : Bool}
    (hk : ∀ p ∈ sent, kind p = none) (h0 : sent ≠ [] → tag st ≠ 0) : T7 st st sent rx evs ic :=
  T7.stay (st := st) (st' := st) rfl (fun p hp k h => by rw [hk p hp] at h; cases h) h0

theorem flushed_kind (their : Nat) {fl : List Flushed} {ps : List Packet}
    (hem : emit (fl.map (ofFlushed their)) = .ok ps) : ∀ p ∈ ps, kind p = some 5 := by
  have := emit_ok hem; subst this
  intro p hp
  simp only [List.mem_map] at hp
  obtain ⟨f, _, rfl⟩ := hp
  rfl

theorem flushed_kind' (their : Nat) {fl : List Flushed} {ps : List Packet}
    (hem : emit (fl.map (ofFlushed their)) = .ok ps) : ∀ p ∈ ps, ∀ k, kind p = some k → k = 5 := by
  intro p hp k hk
  rw [flushed_kind their hem p hp] at hk; injection hk with hk; exact hk.symm

theorem tickAction_t7 {env : Env} {c c' : Conn} {out : Out} (ht : tickAction env c = .ok (c', out)) :
    tag c'.state = tag c.state ∧ (∀ p ∈ out.sent, ∀ k, kind p = some k → tag c.state = k) ∧
      (out.sent ≠ [] → tag c.state ≠ 0) := by
  obtain ⟨st, snd⟩ := c
  have hctl : ∀ {ctl : Control} {ps : List Packet}, sendControl st ctl = .ok ps →
      (∀ k, kind (.control 0 0 ctl) = some k → tag st = k) →
      ∀ p ∈ ps, ∀ k, kind p = some k → tag st = k := by
    intro ctl ps hsc hown p hp k hr
    obtain ⟨tok, rfl⟩ := sendControl_ok hsc
    simp at hp; subst hp
    apply hown
    cases ctl <;> exact hr
  cases st <;> simp only [tickAction] at ht
  case unconnected => injection ht with ht; injection ht with h1 h2; subst h1 h2; exact ⟨rfl, by simp, by simp⟩
  case disconnected => injection ht with ht; injection ht with h1 h2; subst h1 h2; exact ⟨rfl, by simp, by simp⟩
  case pendingConnect own => injection ht with ht; injection ht with h1 h2; subst h1 h2; exact ⟨rfl, by simp, by simp⟩
  case token own =>
    split at ht
    · cases ht
    · rename_i ps hsc
      injection ht with ht; injection ht with h1 h2; subst h1 h2
      exact ⟨rfl, hctl hsc (by intro k h; cases h), by simp [tag]⟩
  case connecting own their =>
    split at ht
    · cases ht
    · rename_i ps hsc
      injection ht with ht; injection ht with h1 h2; subst h1 h2
      exact ⟨rfl, hctl hsc (by intro k h; cases h <;> rfl), by simp [tag]⟩
  case pending own their =>
    split at ht
    · cases ht
    · rename_i ps hsc
      injection ht with ht; injection ht with h1 h2; subst h1 h2
      exact ⟨rfl, hctl hsc (by intro k h; cases h <;> rfl), by simp [tag]⟩
  case online own their o =>
    split at ht
    · split at ht
      · cases ht
      · rename_i ps hem
        injection ht with ht; injection ht with h1 h2; subst h1 h2
        refine ⟨rfl, ?_, by simp [tag]⟩
        intro p hp k hr; rw [flushed_kind their hem p hp] at hr; cases hr <;> rfl
    · split at ht
      · cases ht
      · rename_i ps hsc
        injection ht with ht; injection ht with h1 h2; subst h1 h2
        exact ⟨rfl, hctl hsc (by intro k h; cases h), by simp [tag]⟩

/-- `tick_action` on a state `c.state` reached from `st0` -/
theorem T7.ofTick {env : Env} {c c' : Conn} {out : Out} {st0 : State} {rx : Option Packet} {evs : List Event}
    {ic : Bool} (ht : tickAction env c = .ok (c', out)) (g : succOk (tag st0) (tag c.state) = true)
    (r : RC (tag st0) (tag c.state) rx evs ic) : T7 st0 c'.state out.sent rx evs ic := by
  obtain ⟨a, b, c0⟩ := tickAction_t7 ht
  exact ⟨by rw [a]; exact g, by rw [a]; exact b, by rw [a]; exact c0, by rw [a]; exact r⟩

theorem t7_call (now : Nat) (draws : List Nat) (c : Conn) (cl : Call) (r : Ret Conn Packet)
    (hr : P7.call now draws c cl = .ok r) :
    T7 c.state r.conn.state r.sent none r.events (match cl with | .connect => true | _ => false) := by
  obtain ⟨st, snd⟩ := c
  cases cl with
  | connect =>
    simp only [P7.call] at hr
    split at hr
    · cases hr
    · rename_i c1 out hcon
      injection hr with hr; subst hr
      unfold connect at hcon
      cases st with
      | unconnected =>
        simp only at hcon
        split at hcon
        · cases hcon
        · exact T7.ofTick hcon (by simp [succOk, tag]) ⟨fun _ _ => rfl, by simp [tag], by simp [tag], by simp [tag], by simp [tag]⟩
      | _ => simp at hcon
  | send d v =>
    simp only [P7.call] at hr
    split at hr
    · cases hr
    · rename_i c1 res out hsend
      injection hr with hr; subst hr
      unfold Conn7.send at hsend
      cases st with
      | online own their o =>
        simp only at hsend
        split at hsend
        · cases hsend
        · split at hsend
          · cases hsend
          · rename_i ps hem
            injection hsend with hsend; injection hsend with e1 e2; injection e2 with e2 e3
            subst e1 e3
            exact T7.onl (flushed_kind' their hem)
      | _ => simp at hsend
  | sendConnless d =>
    simp only [P7.call] at hr
    split at hr
    · cases hr
    · rename_i c1 res out hsend
      injection hr with hr; subst hr
      unfold Conn7.sendConnless at hsend
      cases st with
      | online own their o =>
        simp only at hsend
        split at hsend
        · injection hsend with hsend; injection hsend with e1 e2; injection e2 with e2 e3
          subst e1 e3
          exact T7.onl (by simp)
        · split at hsend
          · cases hsend
          · rename_i ps hem
            injection hsend with hsend; injection hsend with e1 e2; injection e2 with e2 e3
            subst e1 e3
            have := emit_ok hem; subst this
            exact T7.onl (by intro p hp k hk; simp at hp; subst hp; cases hk)
      | _ => simp at hsend
  | flush =>
    simp only [P7.call] at hr
    split at hr
    · cases hr
    · rename_i c1 out hfl
      injection hr with hr; subst hr
      unfold Conn7.flush at hfl
      cases st with
      | online own their o =>
        simp only at hfl
        split at hfl
        · cases hfl
        · rename_i ps hem
          injection hfl with hfl; injection hfl with e1 e2; subst e1 e2
          exact T7.onl (flushed_kind' their hem)
      | _ => simp at hfl
  | tick =>
    simp only [P7.call] at hr
    split at hr
    · cases hr
    · rename_i c1 out htick
      injection hr with hr; subst hr
      unfold Conn7.tick at htick
      cases st with
      | online own their o =>
        simp only at htick
        split at htick
        · unfold resendConn at htick
          split at htick
          · cases htick
          · split at htick
            · cases htick
            · rename_i ps hem
              injection htick with htick; injection htick with e1 e2; subst e1 e2
              exact T7.onl (flushed_kind' their hem)
        · split at htick
          · exact T7.ofTick htick (succOk_refl _) (RC.refl _ _ _ _)
          · injection htick with htick; injection htick with e1 e2; subst e1 e2
            exact T7.onl (by simp)
      | _ =>
        simp only [Bool.false_eq_true, if_false] at htick
        split at htick
        · exact T7.ofTick htick (succOk_refl _) (RC.refl _ _ _ _)
        · injection htick with htick; injection htick with e1 e2; subst e1 e2
          exact T7.same _ (by simp) (by simp)
  | disconnect reason =>
    simp only [P7.call] at hr
    split at hr
    · cases hr
    · rename_i c1 out hdis
      injection hr with hr; subst hr
      unfold Conn7.disconnect at hdis
      split at hdis
      · cases hdis
      · split at hdis
        · cases hdis
        · split at hdis
          · cases hdis
          · rename_i ps hsc
            injection hdis with hdis; injection hdis with e1 e2; subst e1 e2
            obtain ⟨tok, rfl⟩ := sendControl_ok hsc
            exact T7.disc (by intro p hp; simp at hp; subst hp; rfl)

/-! ## deliveries -/

theorem T7.of_tag {st0 st st' : State} {sent : List Packet} {rx : Option Packet} {evs : List Event} {ic : Bool}
    (h : tag st0 = tag st) (t : T7 st st' sent rx evs ic) : T7 st0 st' sent rx evs ic :=
  ⟨by rw [h]; exact t.g, t.m, t.m0, by rw [h]; exact t.r⟩

theorem feedBody_t7 {env : Env} {c c1 : Conn} {q : Packet} {out : Out}
    (hf : feedBody env c q = .ok (c1, out)) : T7 c.state c1.state out.sent (some q) out.events false := by
  obtain ⟨st, snd⟩ := c
  have hnoop : feedBody env ⟨st, snd⟩ q = .ok (⟨st, snd⟩, {}) →
      T7 st c1.state out.sent (some q) out.events false := by
    intro hk
    rw [hk] at hf
    injection hf with hf; injection hf with e1 e2; subst e1 e2
    exact T7.same _ (by simp) (by simp)
  cases q with
  | connless a b d => exact hnoop (by simp [feedBody])
  | chunks ack tk rr n cs =>
    have hrecv : ∀ (own their : Nat) (o : Online), (tag st = 5 ∨ tag st = 4) →
        (match o.receive Conn7.cfg env.now snd rr cs with
          | .error e => .error e
          | .ok (o1, send1, fl, evs) =>
            match emit (fl.map (ofFlushed their)) with
            | .error e => .error e
            | .ok ps => .ok (⟨.online own their o1, send1⟩, { sent := ps, events := evs })) = Except.ok (c1, out) →
        T7 st c1.state out.sent (some (.chunks ack tk rr n cs)) out.events false := by
      intro own their o hst hk
      split at hk
      · cases hk
      · split at hk
        · cases hk
        · rename_i ps hem
          injection hk with hk; injection hk with e1 e2; subst e1 e2
          refine ⟨?_, ?_, by simp [tag], ?_⟩
          · rcases hst with h | h <;> rw [h] <;> rfl
          · intro p hp k hk; rw [flushed_kind their hem p hp] at hk; cases hk <;> rfl
          · refine ⟨by simp [tag], by simp [tag], fun _ _ => ⟨_, rfl, rfl⟩, ?_, by simp [tag]⟩
            intro h2; rcases hst with h | h <;> omega
    cases st with
    | online own their o => simp only [feedBody] at hf; exact hrecv own their o (Or.inl rfl) hf
    | pending own their => simp only [feedBody] at hf; exact hrecv own their .new (Or.inr rfl) hf
    | unconnected => exact hnoop (by simp [feedBody])
    | token own => exact hnoop (by simp [feedBody])
    | pendingConnect own => exact hnoop (by simp [feedBody])
    | connecting own their => exact hnoop (by simp [feedBody])
    | disconnected => exact hnoop (by simp [feedBody])
  | control ack tk ctl =>
    cases ctl with
    | keepAlive => exact hnoop (by simp [feedBody])
    | close reason =>
      simp only [feedBody] at hf
      injection hf with hf; injection hf with e1 e2; subst e1 e2
      exact T7.disc (by simp)
    | accept =>
      cases st with
      | connecting own their =>
        simp only [feedBody] at hf
        injection hf with hf; injection hf with e1 e2; subst e1 e2
        exact ⟨by simp [tag, succOk], by simp, by simp,
          ⟨by simp [tag], by simp [tag], by simp [tag], fun _ _ => ⟨⟨_, rfl, rfl⟩, by simp⟩, by simp [tag]⟩⟩
      | online own their o => exact hnoop (by simp [feedBody])
      | pending own their => exact hnoop (by simp [feedBody])
      | unconnected => exact hnoop (by simp [feedBody])
      | token own => exact hnoop (by simp [feedBody])
      | pendingConnect own => exact hnoop (by simp [feedBody])
      | disconnected => exact hnoop (by simp [feedBody])
    | connect their =>
      cases st with
      | pendingConnect own =>
        simp only [feedBody] at hf
        have := T7.ofTick (st0 := .pendingConnect own) (rx := some (.control ack tk (.connect their))) (evs := out.events)
          (ic := false) hf (by simp [tag, succOk])
          ⟨by simp [tag], fun _ _ => ⟨_, rfl, rfl⟩, by simp [tag], by simp [tag], by simp [tag]⟩
        exact this
      | online own their o => exact hnoop (by simp [feedBody])
      | pending own their => exact hnoop (by simp [feedBody])
      | unconnected => exact hnoop (by simp [feedBody])
      | token own => exact hnoop (by simp [feedBody])
      | connecting own their => exact hnoop (by simp [feedBody])
      | disconnected => exact hnoop (by simp [feedBody])
    | token their =>
      cases st with
      | unconnected =>
        cases htk : tokenRandom env.draws with
        | none => simp [feedBody, htk] at hf
        | some t0 =>
          simp only [feedBody, htk] at hf
          split at hf
          · cases hf
          · rename_i ps hsc
            injection hf with hf; injection hf with e1 e2; subst e1 e2
            have := sendControlWith_ok hsc; subst this
            exact ⟨by simp [tag, succOk], (by intro p hp k hk; simp at hp; subst hp; cases hk), by simp [tag],
              ⟨by simp [tag], by simp [tag], by simp [tag], by simp [tag], by simp [tag]⟩⟩
      | pendingConnect own =>
        simp only [feedBody] at hf
        split at hf
        · cases hf
        · rename_i ps hsc
          injection hf with hf; injection hf with e1 e2; subst e1 e2
          have := sendControlWith_ok hsc; subst this
          exact T7.same _ (by intro p hp; simp at hp; subst hp; rfl) (by simp [tag])
      | token own =>
        simp only [feedBody] at hf
        have := T7.ofTick (st0 := .token own) (rx := some (.control ack tk (.token their))) (evs := out.events)
          (ic := false) hf (by simp [tag, succOk])
          ⟨by simp [tag], by simp [tag], by simp [tag], by simp [tag], fun _ _ => by simp⟩
        exact this
      | online own their o => exact hnoop (by simp [feedBody])
      | pending own their => exact hnoop (by simp [feedBody])
      | connecting own their => exact hnoop (by simp [feedBody])
      | disconnected => exact hnoop (by simp [feedBody])

theorem t7_recv (now : Nat) (draws : List Nat) (c : Conn) (p : Packet) (alt : Unit) (r : Ret Conn Packet)
    (hr : P7.recv now draws c p alt = .ok r) : T7 c.state r.conn.state r.sent (some p) r.events false := by
  unfold P7.recv at hr
  split at hr
  · cases hr
  · rename_i c1 out hf
    injection hr with hr; subst hr
    simp only
    have hquiet : ∀ (o : Out), o.sent = [] → (Except.ok (c, o) : Res) = Except.ok (c1, out) →
        T7 c.state c1.state out.sent (some p) out.events false := by
      intro o ho hk
      injection hk with hk; injection hk with e1 e2; subst e1 e2
      exact T7.same _ (by simp [ho]) (by simp [ho])
    have hbody : ∀ (ack : Nat),
        (match c.state with
          | .online own their o =>
            match o.feedAck ack with
            | .error e => .error e
            | .ok o1 => feedBody ⟨now, draws⟩ { c with state := .online own their o1 } p
          | _ => feedBody ⟨now, draws⟩ c p) = Except.ok (c1, out) →
        T7 c.state c1.state out.sent (some p) out.events false := by
      intro ack hk
      cases hst : c.state with
      | online own their o =>
        simp only [hst] at hk
        split at hk
        · cases hk
        · rename_i o1 _
          exact T7.of_tag (st0 := .online own their o) (st := .online own their o1) rfl (feedBody_t7 hk)
      | unconnected => simp only [hst] at hk; rw [← hst]; exact feedBody_t7 hk
      | token own => simp only [hst] at hk; rw [← hst]; exact feedBody_t7 hk
      | pendingConnect own => simp only [hst] at hk; rw [← hst]; exact feedBody_t7 hk
      | connecting own their => simp only [hst] at hk; rw [← hst]; exact feedBody_t7 hk
      | pending own their => simp only [hst] at hk; rw [← hst]; exact feedBody_t7 hk
      | disconnected => simp only [hst] at hk; rw [← hst]; exact feedBody_t7 hk
    unfold feed at hf
    cases p with
    | connless a b d =>
      simp only at hf
      split at hf
      · exact hquiet _ rfl hf
      · split at hf
        · exact hquiet _ rfl hf
        · exact hquiet _ rfl hf
    | control ack tk ctl =>
      simp only at hf
      split at hf
      · exact hquiet _ rfl hf
      · exact hbody ack hf
    | chunks ack tk rr n cs =>
      simp only at hf
      split at hf
      · exact hquiet _ rfl hf
      · exact hbody ack hf

end Tw.NetSim.P7
