import Tw.Proofs.NetFail

/-! Between `Connect(pid)` and the application's decision nothing is sent to the client. -/
namespace Tw.Net
open Tw.Conn Tw.Time
open Tw.Conn6 (Env Packet)

theorem refStateless_pending {acc : Bool} {a : Nat} {s s' : Slot} {rd : Option Bool → Option Packet}
    {fresh : Option Nat} {r : Ret} {o : Out} (h : refStateless acc a s true rd fresh = .ok (s', r, o)) :
    s' = s ∧ o.sent = [] := by
  unfold refStateless at h
  split at h
  · simp only [Except.ok.injEq, Prod.mk.injEq] at h; exact ⟨h.1.symm, by rw [← h.2.2]⟩
  · simp only [Except.ok.injEq, Prod.mk.injEq] at h; exact ⟨h.1.symm, by rw [← h.2.2]⟩
  · simp only [if_true, Except.ok.injEq, Prod.mk.injEq] at h; exact ⟨h.1.symm, by rw [← h.2.2]⟩
  · simp only [Except.ok.injEq, Prod.mk.injEq] at h; exact ⟨h.1.symm, by rw [← h.2.2]⟩

theorem pid_of_addrOf {net : Net} {a pid pid' : Nat} {p : Peer} (hi : PInv net.peers)
    (hs : slot net.peers a = some (pid, p)) (h : addrOf net pid' = some a) : pid' = pid := by
  unfold addrOf at h
  cases hl : lookup net.peers pid' with
  | none => simp [hl] at h
  | some q =>
    simp [hl] at h
    have := lookup_slot hi hl
    rw [h, hs] at this
    simp at this
    exact this.1.symm

/-- one call that does not address the pending peer leaves it pending and sends it nothing -/
theorem pending_step {env : Env} {net net' : Net} {op : Op} {r : Ret} {o : Out} {a pid : Nat} {tok : Bool}
    (hi : PInv net.peers) (hok : opOk net op = true)
    (hs : slot net.peers a = some (pid, Peer.new a tok)) (hq : quietFor a pid op = true)
    (h : step env net op = .ok (net', r, o)) :
    slot net'.peers a = some (pid, Peer.new a tok) ∧ (o.for a).sent = [] := by
  have hst := (step_sim hi hok h).2.2 a
  unfold StepFor at hst
  have hapi : ∀ pid', addrOf net pid' = some a → pid' = pid := fun _ h' => pid_of_addrOf hi hs h'
  cases op with
  | feed addr rd =>
    by_cases hadr : addr = a
    · subst hadr
      simp only [projOp, if_true] at hst
      simp only [refStep, hs, Peer.new, Conn6.Conn.new, if_true] at hst
      have := refStateless_pending hst
      exact ⟨this.1, this.2⟩
    · simp only [projOp, hadr, if_false] at hst
      rw [hst.1, hst.2]; exact ⟨hs, rfl⟩
  | connect addr =>
    by_cases hadr : addr = a
    · subst hadr
      simp [opOk, hs] at hok
    · simp only [projOp, hadr, if_false] at hst
      rw [hst.1, hst.2]; exact ⟨hs, rfl⟩
  | accept p =>
    by_cases hp : addrOf net p = some a
    · simp [quietFor, hapi p hp] at hq
    · simp only [projOp, hp, if_false] at hst
      rw [hst.1, hst.2]; exact ⟨hs, rfl⟩
  | reject p reason =>
    by_cases hp : addrOf net p = some a
    · simp [quietFor, hapi p hp] at hq
    · simp only [projOp, hp, if_false] at hst
      rw [hst.1, hst.2]; exact ⟨hs, rfl⟩
  | disconnect p reason =>
    by_cases hp : addrOf net p = some a
    · simp [quietFor, hapi p hp] at hq
    · simp only [projOp, hp, if_false] at hst
      rw [hst.1, hst.2]; exact ⟨hs, rfl⟩
  | ignore p =>
    by_cases hp : addrOf net p = some a
    · simp [quietFor, hapi p hp] at hq
    · simp only [projOp, hp, if_false] at hst
      rw [hst.1, hst.2]; exact ⟨hs, rfl⟩
  | send p d v =>
    by_cases hp : addrOf net p = some a
    · simp [quietFor, hapi p hp] at hq
    · simp only [projOp, hp, if_false] at hst
      rw [hst.1, hst.2]; exact ⟨hs, rfl⟩
  | flush p =>
    by_cases hp : addrOf net p = some a
    · simp [quietFor, hapi p hp] at hq
    · simp only [projOp, hp, if_false] at hst
      rw [hst.1, hst.2]; exact ⟨hs, rfl⟩
  | sendConnless addr d =>
    by_cases hadr : addr = a
    · simp [quietFor, hadr] at hq
    · simp only [projOp, hadr, if_false] at hst
      rw [hst.1, hst.2]; exact ⟨hs, rfl⟩
  | tick =>
    have := pending_silent_on_tick hi hs h
    exact ⟨this.1, by rw [this.2]⟩

/-- … and so does every history of such calls -/
theorem pending_run (a pid : Nat) (tok : Bool) (h : History) : ∀ (net net' : Net) (outs : List (Ret × Out)),
    PInv net.peers → histOk net h = true → slot net.peers a = some (pid, Peer.new a tok) →
    (∀ x ∈ h, quietFor a pid x.2 = true) → run net h = .ok (net', outs) →
    slot net'.peers a = some (pid, Peer.new a tok) ∧ ∀ ro ∈ outs, (ro.2.for a).sent = [] := by
  induction h with
  | nil =>
    intro net net' outs _ _ hs _ hr
    simp [run] at hr
    obtain ⟨h1, h2⟩ := hr
    subst h1 h2
    exact ⟨hs, by simp⟩
  | cons x xs ih =>
    obtain ⟨env, op⟩ := x
    intro net net' outs hi hok hs hq hr
    simp only [run] at hr
    simp only [histOk, Bool.and_eq_true] at hok
    cases hst : step env net op with
    | error f => simp [hst] at hr
    | ok v =>
      obtain ⟨net1, r, o⟩ := v
      simp only [hst] at hr hok
      cases hrest : run net1 xs with
      | error f => simp [hrest] at hr
      | ok w =>
        obtain ⟨net2, outs2⟩ := w
        simp only [hrest, Except.ok.injEq, Prod.mk.injEq] at hr
        obtain ⟨h1, h2⟩ := hr
        subst h1 h2
        have hstep := pending_step hi hok.1 hs (hq (env, op) (by simp)) hst
        have hi1 := (step_sim hi hok.1 hst).1
        have := ih net1 net2 outs2 hi1 hok.2 hstep.1 (fun y hy => hq y (List.mem_cons_of_mem _ hy)) hrest
        refine ⟨this.1, ?_⟩
        intro ro hro
        rcases List.mem_cons.1 hro with rfl | hro
        · exact hstep.2
        · exact this.2 ro hro

end Tw.Net
