import Tw.Proofs.ConnFairH6
import Tw.Proofs.ConnChunks6

/-!
# 0.6: from a reachable world with one connecting side to a quiescent one

The remaining reachable-world invariant (`Rdy6`: a connector that is online has been told `Ready`),
then the composed statement: from every world reachable by an admissible schedule in which `a` has
called `connect`, `b` has not, and nobody is disconnected, at most five rounds of the fair suffix end
with `a` online and told `Ready`, everything handed over and acknowledged, all queues empty.
-/
namespace Tw.NetSim.P6
open Tw.Conn Tw.Conn6 Tw.Time Tw.NetSim

variable {tl : Bool}

/-- what `feed` does on a connecting connection: nothing, or it is closed, or it goes online and
reports `Ready` -/
theorem feedBody_connecting {env : Env} {snd : Timeout} {token : Option Nat} {q : Packet} {c1 : Conn} {out : Out}
    (h : feedBody env ⟨.connecting, snd⟩ token q = .ok (c1, out)) :
    c1.state = .connecting ∨ c1.state = .disconnected ∨ (∃ t, c1.state = .online t .new) ∧ out.events = [.ready] := by
  cases q with
  | connless d => simp [feedBody] at h; obtain ⟨rfl, _⟩ := h; exact Or.inl rfl
  | chunks a t rr n cs => simp [feedBody] at h; obtain ⟨rfl, _⟩ := h; exact Or.inl rfl
  | control a t ctl =>
    cases ctl with
    | keepAlive => simp [feedBody] at h; obtain ⟨rfl, _⟩ := h; exact Or.inl rfl
    | connect => simp [feedBody] at h; obtain ⟨rfl, _⟩ := h; exact Or.inl rfl
    | accept => simp [feedBody] at h; obtain ⟨rfl, _⟩ := h; exact Or.inl rfl
    | close r => simp [feedBody] at h; obtain ⟨rfl, _⟩ := h; exact Or.inr (Or.inl rfl)
    | connectAccept =>
      simp only [feedBody] at h
      split at h
      · cases h
      · injection h with h; injection h with h1 h2; subst h1 h2
        exact Or.inr (Or.inr ⟨⟨token, rfl⟩, rfl⟩)

theorem recv_connecting6 {now : Nat} {draws : List Nat} {snd : Timeout} {p : Packet} {alt : Alt} {r : Ret Conn Packet}
    (hr : P6.recv tl now draws ⟨.connecting, snd⟩ p alt = .ok r) :
    r.conn.state = .connecting ∨ r.conn.state = .disconnected ∨
      (∃ t, r.conn.state = .online t .new) ∧ r.events = [.ready] := by
  unfold P6.recv at hr
  split at hr
  · cases hr
  · rename_i c1 out hf
    injection hr with hr; subst hr
    simp only
    unfold feed at hf
    cases hq : wireRead tl p alt (Conn.hint ⟨.connecting, snd⟩) with
    | none => simp only [hq] at hf; injection hf with hf; injection hf with h1 h2; subst h1; exact Or.inl rfl
    | some q =>
      simp only [hq] at hf
      cases hta : q.tokenAck? with
      | none => simp only [hta] at hf; exact feedBody_connecting hf
      | some ta =>
        obtain ⟨token, ack⟩ := ta
        simp only [hta, State.token?, Option.any_none] at hf
        exact feedBody_connecting (by simpa using hf)

/-! ## a connector that is online has been told `Ready` -/

def Rdy (e : End (Pr tl)) : Prop :=
  ∀ t o, e.conn.state = .online t o → hasConnect e → Event.ready ∈ e.events

theorem Rdy.act {e peer : End (Pr tl)} (hg : G tl e peer) (h : Rdy e) {r : Ret Conn Packet} {rx : Option Packet}
    (tr : Trans e.conn.state r.conn.state r.sent rx)
    (hopen : e.conn.state = .connecting → ∀ t o, r.conn.state = .online t o → Event.ready ∈ r.events)
    (sub : List (Bytes × Bool)) : Rdy (e.book r sub) := by
  intro t o hst hc
  have hst' : r.conn.state = .online t o := hst
  have hcs : hasConnect e ∨ ∃ p ∈ r.sent, isConnect p = true := (hasConnect_book e r sub).1 hc
  have hno : ¬ ∃ p ∈ r.sent, isConnect p = true := by
    rintro ⟨p, hp, hpc⟩
    have := tr.t1 p hp hpc
    rw [hst'] at this; cases this
  have hev : (e.book r sub).events = e.events ++ r.events := rfl
  rw [hev, List.mem_append]
  rcases tr.t5 t o hst' with ⟨o0, h0⟩ | hp | ⟨hc0, _⟩
  · rcases hcs with hce | hn
    · exact Or.inl (h t o0 h0 hce)
    · exact absurd hn hno
  · rcases hcs with hce | hn
    · exact absurd hce (hg.pnd t hp).1
    · exact absurd hn hno
  · exact Or.inr (hopen hc0 t o hst')

def Rdy6 (tl : Bool) (w : World (Pr tl)) : Prop := Agree6 tl w ∧ Rdy w.a ∧ Rdy w.b

theorem Rdy.get {w : World (Pr tl)} (h : Rdy6 tl w) (s : Side) : Rdy (w.get s) := by
  cases s
  · exact h.2.1
  · exact h.2.2

theorem Agree6.get {w : World (Pr tl)} (h : Agree6 tl w) (s : Side) : G tl (w.get s) (w.get s.other) := by
  cases s
  · exact h.1
  · exact h.2

theorem rdy6_init (tl : Bool) : Rdy6 tl (World.init (Pr tl)) :=
  ⟨agree6_init tl, (fun t o h => by cases h), (fun t o h => by cases h)⟩

theorem rdy6_step {w w' : World (Pr tl)} (h : Rdy6 tl w) (m : Move (Pr tl)) (he : step w m = some w') :
    Rdy6 tl w' := by
  refine ⟨agree6_step h.1 m he, ?_⟩
  cases m with
  | advance dt =>
    simp only [step] at he
    injection he with he; subst he; exact h.2
  | call s draws c =>
    simp only [step] at he
    cases hr : (Pr tl).call w.now draws (w.get s).conn c with
    | error e => rw [hr] at he; cases he
    | ok r =>
      rw [hr] at he
      injection he with he
      subst he
      have tr := trans_call6 w.now draws (w.get s).conn c r hr
      have hact : Rdy ((w.get s).book r (match c with
          | .send d v => if r.accepted then [(d, v)] else []
          | _ => [])) := by
        refine (Rdy.get h s).act (h.1.get s) tr ?_ _
        intro hc0 t o hst
        rcases tr.t5 t o hst with ⟨o0, h0⟩ | hp | ⟨_, q, hq, _⟩
        · rw [hc0] at h0; cases h0
        · rw [hc0] at hp; cases hp
        · cases hq
      cases s with
      | a => exact ⟨hact, h.2.2⟩
      | b => exact ⟨h.2.1, hact⟩
  | deliver to i draws alt =>
    simp only [step] at he
    cases hdg : (w.get to.other).out[i]? with
    | none => rw [hdg] at he; cases he
    | some dg =>
      rw [hdg] at he
      simp only at he
      cases hr : (Pr tl).recv w.now draws (w.get to).conn dg.pkt alt with
      | error e => rw [hr] at he; cases he
      | ok r =>
        rw [hr] at he
        injection he with he
        subst he
        obtain ⟨rx, tr, _⟩ := trans_recv6 w.now draws (w.get to).conn dg.pkt alt r hr
        have hact : Rdy ((w.get to).book r []) := by
          refine (Rdy.get h to).act (h.1.get to) tr ?_ _
          intro hc0 t o hst
          have hc' : (w.get to).conn = ⟨.connecting, (w.get to).conn.send⟩ := by rw [← hc0]; rfl
          rw [hc'] at hr
          rcases recv_connecting6 hr with h1 | h1 | ⟨_, h1⟩
          · rw [hst] at h1; cases h1
          · rw [hst] at h1; cases h1
          · rw [h1]; simp
        cases to with
        | a => exact ⟨hact, h.2.2⟩
        | b => exact ⟨h.2.1, hact⟩

theorem rdy6_run : ∀ (ms : List (Move (Pr tl))) (w w' : World (Pr tl)), Rdy6 tl w → NetSim.run w ms = some w' →
    Rdy6 tl w' := by
  intro ms
  induction ms with
  | nil => intro w w' h he; simp [NetSim.run] at he; subst he; exact h
  | cons m ms ih =>
    intro w w' h he
    simp only [NetSim.run] at he
    cases hst : step w m with
    | none => rw [hst] at he; cases he
    | some w1 => rw [hst] at he; exact ih w1 w' (rdy6_step h m hst) he

/-- **the connector is told `Ready` (0.6)**: in every reachable world, a side that sent a `Connect`
and is online has `Ready` among its events (and by C01 at most once) -/
theorem ready_of_connector6 (tl : Bool) (sched : List (Move (proto6 tl))) (w : World (proto6 tl))
    (hrun : NetSim.run (World.init (proto6 tl)) sched = some w) (s : Side) {t : Option Nat} {o : Online}
    (h1 : (w.get s).conn.state = .online t o) (h2 : hasConnect (w.get s)) : Event.ready ∈ (w.get s).events :=
  Rdy.get (rdy6_run sched _ w (rdy6_init tl) hrun) s t o h1 h2

/-! ## the composed statement -/

theorem tokS_none {c : Conn} (h : tokS tl c) {t : Option Nat} (ht : c.state.token? = some t) :
    tl = true → t = none := by
  intro htl
  have := h t ht
  rw [htl] at this
  cases t <;> simp at this ⊢

/-- the conclusion: at most five rounds of the fair suffix end with `a` online and told `Ready`,
everything handed over and acknowledged, all queues empty -/
def Opened (draws : List Nat) (alt : (proto6 tl).Alt) (w : World (proto6 tl)) : Prop :=
  ∃ k, k ≤ 5 ∧ ∃ s', fairRoundsT draws alt k (FairState.start w) = some s' ∧ s'.w.quiescentH ∧
    (∃ t o s, s'.w.a.conn = ⟨.online t o, s⟩) ∧ Event.ready ∈ s'.w.a.events

theorem opened_of_round (draws : List Nat) (alt : (proto6 tl).Alt) {w : World (proto6 tl)}
    {s1 : FairState (proto6 tl)} {tb : Option Nat} {La : List (DgH × Nat)}
    (e1 : fairRoundT draws alt (FairState.start w) = some s1)
    (hF : OnlineFH (gface6 tl) (tb, true) (tb, false) s1 La) (hr : Event.ready ∈ s1.w.a.events) :
    Opened draws alt w := by
  obtain ⟨s', La', e4, hq, hF'⟩ := fair_progressH (gface6 tl) Conn6.cfg_ok (sim6 tl) (loct6 tl) draws alt hF
  refine ⟨5, Nat.le_refl _, s', ?_, hq, ?_, ?_⟩
  · rw [show (5 : Nat) = 4 + 1 from rfl, fairRoundsT_succ, e1]; exact e4
  · obtain ⟨o, _, h2⟩ := hF'.on.ca
    obtain ⟨s, hs⟩ := h2 rfl
    exact ⟨tb, o, s, hs⟩
  · obtain ⟨ev, hev⟩ := fairRoundsT_events 4 e4 .a
    have : s'.w.a.events = s1.w.a.events ++ ev := hev
    rw [this]; exact List.mem_append_left _ hr

theorem opened_of_online (draws : List Nat) (alt : (proto6 tl).Alt) {w : World (proto6 tl)}
    {ta tb : Option Nat} (hW : OnlineWH (gface6 tl) (ta, true) (tb, false) w) (hr : Event.ready ∈ w.a.events) :
    Opened draws alt w := by
  obtain ⟨s', La', e4, hq, hF'⟩ :=
    fair_progressH (gface6 tl) Conn6.cfg_ok (sim6 tl) (loct6 tl) draws alt (OnlineFH.start hW)
  refine ⟨4, by omega, s', e4, hq, ?_, ?_⟩
  · obtain ⟨o, _, h2⟩ := hF'.on.ca
    obtain ⟨s, hs⟩ := h2 rfl
    exact ⟨ta, o, s, hs⟩
  · obtain ⟨ev, hev⟩ := fairRoundsT_events 4 e4 .a
    have : s'.w.a.events = w.a.events ++ ev := hev
    rw [this]; exact List.mem_append_left _ hr

/-- **C02 (c), 0.6, from any reachable world with one connecting side**: `a` has called `connect`
(it has sent a `Connect`), `b` has not, nobody is disconnected (and `b` is not online while `a` is
still connecting — `hx`, which no reachable world violates).  Then at most five rounds of the fair
suffix (`b` can draw a token from `draws`) end with `a` online and told `Ready`, everything handed over
and acknowledged on both sides, all queues empty. -/
theorem open_progress6_x (tl : Bool) (draws : List Nat) (alt : (proto6 tl).Alt) (nt : Nat)
    (hnt : tokenRandom draws = some nt) (sched : List (Move (proto6 tl))) (w : World (proto6 tl))
    (hadm : admissible (World.init (proto6 tl)) sched = true)
    (hrun : NetSim.run (World.init (proto6 tl)) sched = some w)
    (ha : hasConnect w.a) (hb : ¬ hasConnect w.b)
    (hda : w.a.conn.state ≠ .disconnected) (hdb : w.b.conn.state ≠ .disconnected)
    (hx : w.a.conn.state = .connecting → ∀ t o, w.b.conn.state ≠ .online t o) :
    Opened draws alt w := by
  have hw := run_inv (sim6 tl) sched _ w (init_inv (sim6 tl)) hadm hrun
  have ht := run_loct (loct6 tl) sched _ w (init_loct (loct6 tl)) hrun
  have hl := run_loc (loc6 tl) sched _ w (init_loc (loc6 tl)) hrun
  have hr := rdy6_run sched _ w (rdy6_init tl) hrun
  have hg := hr.1
  cases hsa : w.a.conn.state with
  | unconnected => exact absurd ha (hg.1.unc hsa).1
  | pending t => exact absurd ha (hg.1.pnd t hsa).1
  | disconnected => exact absurd hsa hda
  | connecting =>
    have hca : w.a.conn = ⟨.connecting, w.a.conn.send⟩ := by rw [← hsa]; rfl
    cases hsb : w.b.conn.state with
    | unconnected =>
      have hcb : w.b.conn = ⟨.unconnected, w.b.conn.send⟩ := by rw [← hsb]; rfl
      obtain ⟨s1, tb, La, e1, hF, hrd, _⟩ :=
        ready_round6 tl draws alt nt hnt w hw ht _ hca (Or.inl ⟨_, hcb⟩)
      exact opened_of_round draws alt e1 hF hrd
    | pending t =>
      have hcb : w.b.conn = ⟨.pending t, w.b.conn.send⟩ := by rw [← hsb]; rfl
      have hts : t.isSome = !tl := hl.2.1 t (by simp [State.token?, hsb])
      obtain ⟨s1, tb, La, e1, hF, hrd, _⟩ :=
        ready_round6 tl draws alt nt hnt w hw ht _ hca (Or.inr ⟨t, _, hcb, hts⟩)
      exact opened_of_round draws alt e1 hF hrd
    | connecting => exact absurd (hg.2.cng hsb).1 hb
    | online t o => exact absurd hsb (hx hsa t o)
    | disconnected => exact absurd hsb hdb
  | online ta oa =>
    have hca : w.a.conn = ⟨.online ta oa, w.a.conn.send⟩ := by rw [← hsa]; rfl
    have hrd : Event.ready ∈ w.a.events := hr.2.1 ta oa hsa ha
    have key : ∀ (tb : Option Nat) (ob : Online), stTok w.b.conn.state = some tb →
        w.b.conn.state.token? = some tb → Sh tb ob w.b.conn → Opened draws alt w := by
      intro tb ob hst htk hsh
      have hab : ta = tb := hg.1.agree hg.2 hl.1.1 hl.2.1 hsa hst
      have htb : tl = true → tb = none := tokS_none hl.2.1 htk
      refine opened_of_online draws alt (ta := ta) (tb := tb)
        ⟨hw, ht, ⟨oa, Or.inl ⟨_, hca⟩, fun _ => ⟨_, hca⟩⟩, ⟨ob, hsh, fun h => by cases h⟩,
          ⟨hab, htb⟩, ⟨hab.symm, by rw [hab]; exact htb⟩⟩ hrd
    cases hsb : w.b.conn.state with
    | unconnected =>
      rcases hg.1.onl ta oa hsa with ⟨h1, _⟩ | ⟨_, _, tp, h3, _⟩
      · exact absurd ha h1
      · exact absurd h3 ((hg.2.unc hsb).2 tp)
    | pending t =>
      have hcb : w.b.conn = ⟨.pending t, w.b.conn.send⟩ := by rw [← hsb]; rfl
      exact key t .new (by rw [hsb]; rfl) (by rw [hsb]; rfl) (Or.inr ⟨rfl, _, hcb⟩)
    | connecting => exact absurd (hg.2.cng hsb).1 hb
    | online t o =>
      have hcb : w.b.conn = ⟨.online t o, w.b.conn.send⟩ := by rw [← hsb]; rfl
      exact key t o (by rw [hsb]; rfl) (by rw [hsb]; rfl) (Or.inl ⟨_, hcb⟩)
    | disconnected => exact absurd hsb hdb

/-- **C02 (c), 0.6, handshake included, from every reachable world with one connecting side**: in
every world reachable by an admissible schedule from `World.init` in which `a` has called `connect`
(it has sent a `Connect`), `b` has not, and neither is disconnected, at most five rounds of the fair
suffix (ticks at the reported deadlines, every datagram delivered; `b` can draw a token from `draws`)
end with `a` online and told `Ready`, everything handed over and acknowledged on both sides, and all
queues empty. -/
theorem open_progress6 (tl : Bool) (draws : List Nat) (alt : (proto6 tl).Alt) (nt : Nat)
    (hnt : tokenRandom draws = some nt) (sched : List (Move (proto6 tl))) (w : World (proto6 tl))
    (hadm : admissible (World.init (proto6 tl)) sched = true)
    (hrun : NetSim.run (World.init (proto6 tl)) sched = some w)
    (ha : hasConnect w.a) (hb : ¬ hasConnect w.b)
    (hda : w.a.conn.state ≠ .disconnected) (hdb : w.b.conn.state ≠ .disconnected) :
    ∃ k, k ≤ 5 ∧ ∃ s', fairRoundsT draws alt k (FairState.start w) = some s' ∧ s'.w.quiescentH ∧
      (∃ t o s, s'.w.a.conn = ⟨.online t o, s⟩) ∧ Event.ready ∈ s'.w.a.events :=
  open_progress6_x tl draws alt nt hnt sched w hadm hrun ha hb hda hdb
    (fun hc t o => no_online_acceptor_while_connecting6 tl sched w hrun .a hc hb t o)

/-- **`Ready` exactly once (0.6)**: in every reachable world, a side that sent a `Connect` and is
online has been told `Ready` exactly once -/
theorem ready_exactly_once6 (tl : Bool) (sched : List (Move (proto6 tl))) (w : World (proto6 tl))
    (hrun : NetSim.run (World.init (proto6 tl)) sched = some w) (s : Side) {t : Option Nat} {o : Online}
    (h1 : (w.get s).conn.state = .online t o) (h2 : hasConnect (w.get s)) : readyCount (w.get s).events = 1 := by
  have hm := ready_of_connector6 tl sched w hrun s h1 h2
  have hne := readyCount_pos_of_mem hm
  have hh := run_hs (hs6 tl) sched _ w init_hs hrun
  cases s with
  | a => rcases hh.1.1 with h0 | ⟨h, _⟩
         · exact absurd h0 hne
         · exact h
  | b => rcases hh.2.1 with h0 | ⟨h, _⟩
         · exact absurd h0 hne
         · exact h

/-! non-vacuity: (1) `a` has just called `connect`, `b` is untouched: five rounds, `a` online and told
`Ready` once, `b` pending (0.6 acceptors go online with the first chunk packet); (2) `a` is online
with an unflushed vital chunk, `b` still pending: four rounds, both online, the chunk delivered. -/
def exA : List (Move (proto6 false)) := [.call .a [] .connect]
def exB : List (Move (proto6 false)) :=
  [.call .a [] .connect, .deliver .b 0 [7] .exact, .deliver .a 0 [] .exact, .call .a [] (.send [5] true)]

example : admissible (World.init (proto6 false)) exA = true ∧ admissible (World.init (proto6 false)) exB = true := by
  decide +kernel
example : ((NetSim.run (World.init (proto6 false)) exA).map fun w =>
    (w.a.out.any (fun dg => isConnect dg.pkt), w.b.out.any (fun dg => isConnect dg.pkt),
      w.a.conn.state matches .connecting, w.b.conn.state matches .unconnected)) = some (true, false, true, true) := by
  decide +kernel
example : (((NetSim.run (World.init (proto6 false)) exA).bind fun w =>
    fairRoundsT (P := proto6 false) [7] Alt.exact 5 (FairState.start w)).map fun s =>
    ((P6.online s.w.a.conn).isSome, readyCount s.w.a.events, s.w.b.conn.state matches .pending _)) =
    some (true, 1, true) := by decide +kernel
example : ((NetSim.run (World.init (proto6 false)) exB).map fun w =>
    (w.a.out.any (fun dg => isConnect dg.pkt), w.b.out.any (fun dg => isConnect dg.pkt),
      w.a.conn.state matches .online _ _, w.b.conn.state matches .pending _, w.settled)) =
    some (true, false, true, true, false) := by decide +kernel
example : (((NetSim.run (World.init (proto6 false)) exB).bind fun w =>
    fairRoundsT (P := proto6 false) [7] Alt.exact 4 (FairState.start w)).map fun s =>
    (s.w.settled, readyCount s.w.a.events, s.w.b.deliveredVital)) = some (true, 1, [[5]]) := by decide +kernel

end Tw.NetSim.P6
