import Tw.Proofs.ConnTimed
import Tw.Proofs.ConnFair
import Tw.Proofs.ConnTimers6
import Tw.Proofs.ConnTokens6

/-!
# C02 (c) timed, 0.6: the online interface and the theorem for reachable worlds
-/
namespace Tw.NetSim.P6
open Tw.Conn Tw.Conn6 Tw.Time Tw.NetSim

theorem emit_ka (a : Nat) (t : Option Nat) :
    emit [.control a t .keepAlive] = .ok [.control a t .keepAlive] :=
  Tw.Conn6.emit_ok (by
    intro p hp; simp at hp; subst hp
    exact Tw.Conn6.control_valid a t .keepAlive (by intro r hr; cases hr))

theorem recv_online6 (tl : Bool) (now : Nat) (draws : List Nat) (ty : Option Nat) (o : Online) (s : Timeout)
    (q : Packet) (alt : Alt) (token : Option Nat) (ack : Nat) (hq : ∀ r a t, q ≠ .control a t (.close r))
    (hcon : ∀ d, q ≠ .connless d) (hta : (if tl = true then strip q else q).tokenAck? = some (token, ack))
    (htok : token = ty) (hh : hasToken (if tl = true then strip q else q) = ty.isSome) (o1 : Online)
    (hfa : o.feedAck ack = .ok o1) :
    feed ⟨now, draws⟩ ⟨.online ty o, s⟩ (wireRead tl q alt) =
      feedBody ⟨now, draws⟩ ⟨.online ty o1, s⟩ token (if tl = true then strip q else q) := by
  have hw : wireRead tl q alt (some ty.isSome) = some (if tl = true then strip q else q) := by
    unfold wireRead
    simp only
    generalize hq' : (if tl = true then strip q else q) = q' at hh
    have hnc : ∀ r a t, q' ≠ .control a t (.close r) := by
      intro r a t h
      cases tl
      · simp at hq'; rw [hq'] at hq; exact hq r a t h
      · simp at hq'
        cases q with
        | connless d => simp [strip] at hq'; rw [← hq'] at h; cases h
        | chunks a' t' rr n cs => simp [strip] at hq'; rw [← hq'] at h; cases h
        | control a' t' c =>
          simp [strip] at hq'; rw [← hq'] at h
          injection h with _ _ h; subst h; exact hq r a' t' rfl
    cases q' with
    | connless d => rfl
    | chunks a t rr n cs => simp [hh]
    | control a t c =>
      cases c with
      | close r => exact absurd rfl (hnc r a t)
      | _ => simp [hh]
  unfold feed
  simp only [Conn.hint, State.token?, Option.map_some]
  rw [hw]
  simp only [hta, htok]
  simp [hfa]

def iface6 (tl : Bool) : OnlineIface (proto6 tl) core Conn6.cfg Timed where
  Tok := Option Nat
  mkc := fun t o s => ⟨.online t o, s⟩
  chunkPkt := fun t f => ofFlushed t f
  kaPkt := fun t a => .control a t .keepAlive
  peer := fun tx ty => tx = ty ∧ (tl = true → ty = none)
  core_mk := fun _ _ _ => rfl
  online_mk := fun _ _ _ => rfl
  timed_mk := fun _ _ _ _ h => h
  view_chunk := fun _ _ => rfl
  view_ka := fun _ _ => rfl
  tick_resend := by
    intro now t o s o1 s1 fl hd he hval
    show P6.call now [] ⟨.online t o, s⟩ .tick = _
    simp [P6.call, Conn6.tick, hd, resendConn, he, (Tw.Conn6.emit_flushed t hval).1]
    rfl
  tick_flush := by
    intro now t o s hd hs hcs hval
    show P6.call now [] ⟨.online t o, s⟩ .tick = _
    simp [P6.call, Conn6.tick, hd, hs, tickAction, hcs, (Tw.Conn6.emit_flushed t hval).1]
    rfl
  tick_ka := by
    intro now t o s hd hs hcs _
    show P6.call now [] ⟨.online t o, s⟩ .tick = _
    simp [P6.call, Conn6.tick, hd, hs, tickAction, hcs, sendControl, controlPacket, emit_ka]
    rfl
  recv_chunk := by
    intro now draws tx ty o s f alt o1 o2 s2 fl evs hp hfa hrc hval
    obtain ⟨rfl, hty⟩ := hp
    show P6.recv tl now draws ⟨.online tx o, s⟩ (ofFlushed tx f) alt = _
    unfold P6.recv
    rw [recv_online6 tl now draws tx o s (ofFlushed tx f) alt tx f.ack (by intro r a t h; cases h)
      (by intro d h; cases h)
      (by cases tl <;> simp_all [ofFlushed, strip, Packet.tokenAck?])
      rfl (by cases tl <;> simp_all [ofFlushed, strip, hasToken]) o1 hfa]
    cases tl <;> simp [ofFlushed, strip, feedBody, hrc, (Tw.Conn6.emit_flushed tx hval).1] <;> rfl
  recv_ka := by
    intro now draws tx ty o s a alt o1 hp hfa
    obtain ⟨rfl, hty⟩ := hp
    show P6.recv tl now draws ⟨.online tx o, s⟩ (.control a tx .keepAlive) alt = _
    unfold P6.recv
    rw [recv_online6 tl now draws tx o s (.control a tx .keepAlive) alt tx a (by intro r a' t h; cases h)
      (by intro d h; cases h)
      (by cases tl <;> simp_all [strip, Packet.tokenAck?])
      rfl (by cases tl <;> simp_all [strip, hasToken]) o1 hfa]
    cases tl <;> simp [strip, feedBody] <;> rfl

/-- **C02 (c), timed, 0.6, online phase**: in every world reachable by an admissible schedule in which
both connections are online, four timed rounds return and end quiescent -/
theorem timed_progress6 (tl : Bool) (alt : Alt) (sched : List (Move (proto6 tl))) (w : World (proto6 tl))
    (hadm : admissible (World.init (proto6 tl)) sched = true) (hrun : run (World.init (proto6 tl)) sched = some w)
    {ta tb : Option Nat} {oa ob : Online} (ha : w.a.conn.state = .online ta oa) (hb : w.b.conn.state = .online tb ob) :
    ∃ w', timedRounds alt 4 w = some w' ∧ w'.quiescent := by
  have hw := run_inv (sim6 tl) sched _ w (init_inv (sim6 tl)) hadm hrun
  have ht := run_loct (loct6 tl) sched _ w (init_loct (loct6 tl)) hrun
  have hl := run_loc (loc6 tl) sched _ w (init_loc (loc6 tl)) hrun
  have hg := agree6_run sched _ w (agree6_init tl) hrun
  have hab : ta = tb := hg.1.agree hg.2 hl.1.1 hl.2.1 ha (by rw [hb]; rfl)
  have htb : tl = true → tb = none := by
    intro htl
    have := hl.2.1 tb (by simp [State.token?, hb])
    rw [htl] at this
    cases tb <;> simp at this ⊢
  have hO : OnlineW (iface6 tl) ta tb w := by
    refine ⟨hw, ht, ⟨oa, w.a.conn.send, ?_⟩, ⟨ob, w.b.conn.send, ?_⟩, ⟨hab, htb⟩, ⟨hab.symm, by rw [hab]; exact htb⟩⟩
    · show w.a.conn = ⟨.online ta oa, w.a.conn.send⟩
      rw [← ha]; rfl
    · show w.b.conn = ⟨.online tb ob, w.b.conn.send⟩
      rw [← hb]; rfl
  obtain ⟨w', h1, h2, h3⟩ := timed_progress (iface6 tl) Conn6.cfg_ok (sim6 tl) (loct6 tl) alt hO
  exact ⟨w', h1, h3.quiescent h2⟩

/-- **token agreement (0.6)**: in every reachable world an online endpoint and its pending-or-online
peer hold the same token (so neither drops the other's datagrams) -/
theorem tokens_agree6 (tl : Bool) (sched : List (Move (proto6 tl))) (w : World (proto6 tl))
    (hrun : run (World.init (proto6 tl)) sched = some w) (s : Side) {t1 : Option Nat} {o1 : Online}
    (h1 : (w.get s).conn.state = .online t1 o1) {t2 : Option Nat}
    (h2 : stTok (w.get s.other).conn.state = some t2) : t1 = t2 := by
  have hl := run_loc (loc6 tl) sched _ w (init_loc (loc6 tl)) hrun
  have hg := agree6_run sched _ w (agree6_init tl) hrun
  cases s with
  | a => exact hg.1.agree hg.2 hl.1.1 hl.2.1 h1 h2
  | b => exact hg.2.agree hg.1 hl.2.1 hl.1.1 h1 h2

/-- **timer bounds (0.6)**: in every reachable world, while a deadline is reported the send timer is
due within 500 ms, and every retransmission timer of an online connection within 1 s -/
theorem timers_due6 (tl : Bool) (sched : List (Move (proto6 tl))) (w : World (proto6 tl))
    (hrun : run (World.init (proto6 tl)) sched = some w) : Timed w.now w.a.conn ∧ Timed w.now w.b.conn :=
  run_loct (loct6 tl) sched _ w (init_loct (loct6 tl)) hrun

example : admissible (World.init (proto6 false)) (busy6 false) = true := by decide +kernel
example : ((run (World.init (proto6 false)) (busy6 false)).map fun w =>
    ((online w.a.conn).isSome && (online w.b.conn).isSome, w.settled)) = some (true, false) := by decide +kernel
example : (((run (World.init (proto6 false)) (busy6 false)).bind (timedRounds .exact 4)).map World.settled) = some true := by
  decide +kernel

/-- both connections online in a reachable world: all that the generic argument needs -/
theorem onlineW6 (tl : Bool) (sched : List (Move (proto6 tl))) (w : World (proto6 tl))
    (hadm : admissible (World.init (proto6 tl)) sched = true) (hrun : run (World.init (proto6 tl)) sched = some w)
    {ta tb : Option Nat} {oa ob : Online} (ha : w.a.conn.state = .online ta oa) (hb : w.b.conn.state = .online tb ob) :
    OnlineW (iface6 tl) ta tb w := by
  have hw := run_inv (sim6 tl) sched _ w (init_inv (sim6 tl)) hadm hrun
  have ht := run_loct (loct6 tl) sched _ w (init_loct (loct6 tl)) hrun
  have hl := run_loc (loc6 tl) sched _ w (init_loc (loc6 tl)) hrun
  have hg := agree6_run sched _ w (agree6_init tl) hrun
  have hab : ta = tb := hg.1.agree hg.2 hl.1.1 hl.2.1 ha (by rw [hb]; rfl)
  have htb : tl = true → tb = none := by
    intro htl
    have := hl.2.1 tb (by simp [State.token?, hb])
    rw [htl] at this
    cases tb <;> simp at this ⊢
  refine ⟨hw, ht, ⟨oa, w.a.conn.send, ?_⟩, ⟨ob, w.b.conn.send, ?_⟩, ⟨hab, htb⟩, ⟨hab.symm, by rw [hab]; exact htb⟩⟩
  · show w.a.conn = ⟨.online ta oa, w.a.conn.send⟩
    rw [← ha]; rfl
  · show w.b.conn = ⟨.online tb ob, w.b.conn.send⟩
    rw [← hb]; rfl

/-- **C02 (c), timed, 0.6, online phase, every datagram of the suffix delivered**: in every world
reachable by an admissible schedule in which both connections are online, four rounds of the fair
suffix return and end quiescent -/
theorem fair_progress6 (tl : Bool) (draws : List Nat) (alt : Alt) (sched : List (Move (proto6 tl)))
    (w : World (proto6 tl)) (hadm : admissible (World.init (proto6 tl)) sched = true)
    (hrun : run (World.init (proto6 tl)) sched = some w) {ta tb : Option Nat} {oa ob : Online}
    (ha : w.a.conn.state = .online ta oa) (hb : w.b.conn.state = .online tb ob) :
    ∃ s', fairRoundsT draws alt 4 (FairState.start w) = some s' ∧ s'.w.quiescent :=
  fair_progress (iface6 tl) Conn6.cfg_ok (sim6 tl) (loct6 tl) draws alt (onlineW6 tl sched w hadm hrun ha hb)

example : (((run (World.init (proto6 false)) (busy6 false)).bind fun w =>
    fairRoundsT (P := proto6 false) [] Alt.exact 4 (FairState.start w)).map fun s => s.w.settled) = some true := by
  decide +kernel

/-- **simultaneous open never completes (0.6)**: in every reachable world in which both sides have
sent a `Connect`, neither side is pending or online, and neither has been told `Ready` — each ignores
the other's `Connect`.  So "the connecting side becomes ready" needs the hypothesis that exactly one
side connects; it cannot hold from every reachable state. -/
theorem simultaneous_open6 (tl : Bool) (sched : List (Move (proto6 tl))) (w : World (proto6 tl))
    (hadm : admissible (World.init (proto6 tl)) sched = true) (hrun : run (World.init (proto6 tl)) sched = some w)
    (ha : hasConnect w.a) (hb : hasConnect w.b) :
    (∀ s : Side, stTok (w.get s).conn.state = none) ∧
      Event.ready ∉ w.a.events ∧ Event.ready ∉ w.b.events := by
  have hg := agree6_run sched _ w (agree6_init tl) hrun
  have hsafe : Safe w := safe_of (run_inv (sim6 tl) sched _ w (init_inv (sim6 tl)) hadm hrun)
    (run_hs (hs6 tl) sched _ w init_hs hrun)
  have key : ∀ (e peer : End (proto6 tl)), G tl e peer → G tl peer e → hasConnect e → hasConnect peer →
      stTok e.conn.state = none := by
    intro e peer g1 g2 he hp
    cases hst : e.conn.state with
    | pending t => exact absurd he (g1.pnd t hst).1
    | online t o =>
      rcases g1.onl t o hst with ⟨h1, _, _⟩ | ⟨_, _, tp, h3, _⟩
      · exact absurd he h1
      · exact absurd h3 (g2.excl hp tp)
    | unconnected => rfl
    | connecting => rfl
    | disconnected => rfl
  refine ⟨fun s => ?_, ?_, ?_⟩
  · cases s with
    | a => exact key w.a w.b hg.1 hg.2 ha hb
    | b => exact key w.b w.a hg.2 hg.1 hb ha
  · intro hr
    obtain ⟨dg, hdg, hacc⟩ := hsafe.ready_after_a hr
    cases hpk : dg.pkt with
    | control ack t c =>
      cases c <;> simp [proto6, isAccept, hpk] at hacc
      exact hg.2.excl hb t ⟨dg, hdg, by rw [hpk]; rfl⟩
    | connless d => simp [proto6, isAccept, hpk] at hacc
    | chunks ack t rr n cs => simp [proto6, isAccept, hpk] at hacc
  · intro hr
    obtain ⟨dg, hdg, hacc⟩ := hsafe.ready_after_b hr
    cases hpk : dg.pkt with
    | control ack t c =>
      cases c <;> simp [proto6, isAccept, hpk] at hacc
      exact hg.1.excl ha t ⟨dg, hdg, by rw [hpk]; rfl⟩
    | connless d => simp [proto6, isAccept, hpk] at hacc
    | chunks ack t rr n cs => simp [proto6, isAccept, hpk] at hacc

/-- … and such worlds are reachable: both applications call `connect` -/
example : ((run (World.init (proto6 false)) [.call .a [] .connect, .call .b [] .connect]).map fun w =>
    (decide (w.a.conn.state = .connecting), decide (w.b.conn.state = .connecting))) = some (true, true) := by
  decide +kernel

end Tw.NetSim.P6
