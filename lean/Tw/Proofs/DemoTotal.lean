import Tw.Proofs.DemoHistory
import Tw.Proofs.SnapTotal

/-! Reader totality: the fuel of the model's loops always suffices (`diverge` is impossible) and the
high-level reader never panics, on arbitrary file bytes. -/
namespace Tw.DemoHl
open Tw.Demo Tw.Snap

/-! ### low level -/

theorem unpackMsg_no_diverge : ∀ (fuel slots : Nat) (inp : Bytes), inp.length ≤ fuel →
    (unpackMsg fuel slots inp).1 ≠ .error .diverge := by
  intro fuel
  induction fuel with
  | zero =>
    intro slots inp h
    cases inp with
    | nil => simp [unpackMsg]
    | cons b bs => simp at h
  | succ fuel ih =>
    intro slots inp h
    cases inp with
    | nil => simp [unpackMsg]
    | cons b bs =>
      simp only [unpackMsg]
      cases hr : Tw.Packer.readInt (b :: bs) with
      | none => simp
      | some t =>
        obtain ⟨n, rest, ws⟩ := t
        have hlt := (readInt_rest_lt hr).1
        simp only
        cases slots with
        | zero => simp
        | succ slots' =>
          simp only
          have := ih slots' rest (by simp at h hlt; omega)
          cases hu : unpackMsg fuel slots' rest with
          | mk res ws2 =>
            rw [hu] at this
            cases res with
            | ok out => simp
            | error e =>
              simp only at this ⊢
              intro he; injection he with he; exact this (by rw [he])

theorem takeN_length {n : Nat} {bs a b : Bytes} (h : takeN n bs = some (a, b)) : b.length + n = bs.length := by
  unfold takeN at h
  split at h
  · cases h
  · simp only [Option.some.injEq, Prod.mk.injEq] at h
    obtain ⟨_, h2⟩ := h
    subst h2
    simp; omega

/-- a chunk header uses at least one byte -/
theorem readChunkHeader_consumes (v : Version) (bs : Bytes) (h : ChunkHeader) (rest : Bytes) (ws : List Tw.Demo.Warning)
    (hr : readChunkHeader v bs = .ok h rest ws) : rest.length < bs.length := by
  cases bs with
  | nil => simp [readChunkHeader] at hr
  | cons f tl =>
    have habs : ∀ (kf : Bool) (ws0 : List Tw.Demo.Warning), readAbsolute kf tl ws0 = .ok h rest ws → rest.length < (f :: tl).length := by
      intro kf ws0 ha
      unfold readAbsolute at ha
      cases ht : takeN 4 tl with
      | none => simp [ht] at ha
      | some p =>
        obtain ⟨b4, r4⟩ := p
        simp only [ht, tickResult] at ha
        injection ha with _ h2 _
        subst h2
        have := takeN_length ht
        simp; omega
    have htick : ∀ (m : TickMarker) (kf : Bool) (ws0 : List Tw.Demo.Warning), tickResult m kf tl ws0 = .ok h rest ws →
        rest.length < (f :: tl).length := by
      intro m kf ws0 ha
      simp only [tickResult] at ha
      injection ha with _ h2 _
      subst h2; simp
    simp only [readChunkHeader] at hr
    split at hr
    · split at hr
      · split at hr
        · exact htick _ _ _ hr
        · exact habs _ _ hr
      · split at hr
        · exact habs _ _ hr
        · exact htick _ _ _ hr
    · split at hr
      · cases tl with
        | nil => simp at hr
        | cons b tl' =>
          simp only at hr
          injection hr with _ h2 _
          subst h2; simp; omega
      · split at hr
        · cases tl with
          | nil => simp at hr
          | cons lo tl1 =>
            cases tl1 with
            | nil => simp at hr
            | cons hi tl2 =>
              simp only at hr
              injection hr with _ h2 _
              subst h2; simp; omega
        · injection hr with _ h2 _
          subst h2; simp

theorem decompressC_no_diverge (raw : Bytes) (cap : Nat) : decompressC table raw cap ≠ .diverge := by
  rw [decompressC_eq]
  exact Tw.Huffman.decompress_terminates _ Tw.Huffman.wellFormed_table raw cap

/-- `read_chunk` in the model never runs out of fuel, and a chunk it returns used at least one byte -/
theorem readChunk_total (r : Reader) :
    (∀ r' ws, r.readChunk ≠ (r', .error .diverge, ws)) ∧
    (∀ r' c ws, r.readChunk = (r', .chunk c, ws) → r'.data.length < r.data.length) := by
  unfold Reader.readChunk
  cases hh : readChunkHeader r.version r.data with
  | eof => simp
  | truncated ws => simp
  | ok h rest ws =>
    have hlt := readChunkHeader_consumes _ _ _ _ _ hh
    cases h with
    | tick m kf =>
      cases m with
      | absolute t =>
        simp only
        cases r.currentTick with
        | none => simp; omega
        | some prev =>
          simp only
          split
          · simp
          · simp; omega
      | delta d =>
        simp only
        cases r.currentTick with
        | none => simp
        | some t =>
          simp only
          split
          · simp
          · simp; omega
    | data kind size =>
      cases kind with
      | unknown => simp; omega
      | snapshot =>
        simp only
        cases ht : takeN size rest with
        | none => simp
        | some p =>
          obtain ⟨raw, rest'⟩ := p
          have := takeN_length ht
          simp only
          cases hd : decompressC table raw Tw.Gen.Demo.MAX_SNAPSHOT_SIZE with
          | capacity => simp
          | diverge => exact absurd hd (decompressC_no_diverge _ _)
          | ok out => simp; omega
      | delta =>
        simp only
        cases ht : takeN size rest with
        | none => simp
        | some p =>
          obtain ⟨raw, rest'⟩ := p
          have := takeN_length ht
          simp only
          cases hd : decompressC table raw Tw.Gen.Demo.MAX_SNAPSHOT_SIZE with
          | capacity => simp
          | diverge => exact absurd hd (decompressC_no_diverge _ _)
          | ok out => simp; omega
      | message =>
        simp only
        cases ht : takeN size rest with
        | none => simp
        | some p =>
          obtain ⟨raw, rest'⟩ := p
          have := takeN_length ht
          simp only
          cases hd : decompressC table raw Tw.Gen.Demo.MAX_SNAPSHOT_SIZE with
          | capacity => simp
          | diverge => exact absurd hd (decompressC_no_diverge _ _)
          | ok out =>
            simp only
            have hnd := unpackMsg_no_diverge out.length (Tw.Gen.Demo.MAX_SNAPSHOT_SIZE / 4) out (Nat.le_refl _)
            cases hu : unpackMsg out.length (Tw.Gen.Demo.MAX_SNAPSHOT_SIZE / 4) out with
            | mk res ws2 =>
              rw [hu] at hnd
              cases res with
              | ok m => simp; omega
              | error e =>
                simp only at hnd ⊢
                constructor
                · intro r' ws' he
                  injection he with _ he
                  injection he with he _
                  injection he with he
                  exact hnd (by rw [he])
                · intro r' c ws' he
                  injection he with _ he
                  injection he with he _
                  cases he

theorem readAllGo_no_diverge : ∀ (fuel : Nat) (r : Reader), r.data.length + 1 ≤ fuel →
    (Reader.readAllGo fuel r).2.2 ≠ some .diverge := by
  intro fuel
  induction fuel with
  | zero => intro r h; omega
  | succ fuel ih =>
    intro r h
    simp only [Reader.readAllGo]
    obtain ⟨hnd, hlt⟩ := readChunk_total r
    cases hrc : r.readChunk with
    | mk r' p =>
      obtain ⟨res, ws⟩ := p
      cases res with
      | eof => simp
      | error e =>
        simp only
        intro he
        injection he with he
        subst he
        exact hnd r' ws hrc
      | chunk c =>
        simp only
        have := hlt r' c ws hrc
        exact ih r' (by omega)

/-- **The low-level reader is total**: on arbitrary file bytes the model's `readFile` either refuses
the header or returns chunks, warnings and at most one of the reader's own errors — never the
out-of-fuel outcome. -/
theorem readFile_no_diverge (file : Bytes) :
    ∀ h cs ws, readFile file ≠ some (h, cs, ws, some .diverge) := by
  intro h cs ws he
  unfold readFile at he
  cases hn : Reader.new file with
  | none => simp [hn] at he
  | some t =>
    obtain ⟨r, hi, ws0⟩ := t
    simp only [hn, Reader.readAll] at he
    have := readAllGo_no_diverge (r.data.length + 1) r (Nat.le_refl _)
    cases hg : Reader.readAllGo (r.data.length + 1) r with
    | mk cs' p =>
      obtain ⟨ws', e'⟩ := p
      rw [hg] at this he
      simp only [Option.some.injEq, Prod.mk.injEq] at he
      exact this he.2.2.2


/-! ### high level -/

theorem accepted_empty : Accepted Snap.empty := by
  refine ⟨empty_WF, sorted_nil, ?_, ?_, ?_, rfl⟩
  · intro u t h; simp [Snap.empty, mfind] at h
  · intro k d h; simp [Snap.empty, RawSnap.empty] at h
  · intro p h; simp [Snap.empty, RawSnap.empty] at h

theorem snapItems_ne_none_of_accepted {s : Snap} (hs : Accepted s) : snapItems s ≠ none := by
  have := items_ne_none hs
  unfold snapItems
  cases h : s.items with
  | none => exact absurd h this
  | some l => simp

/-- `DemoReader::next_chunk` never panics and never runs out of fuel; the snapshot it keeps stays
accepted; a chunk it returns used at least one byte of the file. -/
theorem nextChunk_total (objSize : Nat → Option Nat) (r : DemoReader) (hs : Accepted r.snap) :
    (∀ r' ws, r.nextChunk objSize ≠ (r', .error .panic, ws)) ∧
    (∀ r' ws, r.nextChunk objSize ≠ (r', .error (.inner .diverge), ws)) ∧
    (∀ r' c ws, r.nextChunk objSize = (r', .chunk c, ws) →
      Accepted r'.snap ∧ r'.raw.data.length < r.raw.data.length) := by
  obtain ⟨hnd, hlt⟩ := readChunk_total r.raw
  unfold DemoReader.nextChunk
  cases hrc : r.raw.readChunk with
  | mk raw' p =>
    obtain ⟨res, ws⟩ := p
    cases res with
    | eof => simp
    | error e =>
      simp only
      refine ⟨by simp, ?_, by simp⟩
      intro r' ws' he
      injection he with _ he
      injection he with he _
      injection he with he
      injection he with he
      subst he
      exact hnd raw' ws hrc
    | chunk c =>
      have hl := hlt raw' c ws hrc
      cases c with
      | unknown => simp only; exact ⟨by simp, by simp, by intro r' c ws' he; cases he; exact ⟨hs, hl⟩⟩
      | tick t kf => simp only; exact ⟨by simp, by simp, by intro r' c ws' he; cases he; exact ⟨hs, hl⟩⟩
      | message m => simp only; exact ⟨by simp, by simp, by intro r' c ws' he; cases he; exact ⟨hs, hl⟩⟩
      | snapshot bs =>
        simp only
        cases hrb : Snap.readBytes bs with
        | err e => simp
        | panic q => exact absurd hrb ((snap_readBytes_total bs).1 q)
        | ok t =>
          obtain ⟨s, ws2⟩ := t
          have hacc := (accepted_of_readBytes hrb).1
          simp only
          cases hi : snapItems s with
          | none => exact absurd hi (snapItems_ne_none_of_accepted hacc)
          | some items =>
            simp only
            exact ⟨by simp, by simp, by intro r' c ws' he; cases he; exact ⟨hacc, hl⟩⟩
      | delta bs =>
        simp only
        cases hrd : readDelta objSize (.bytes bs) with
        | err e => simp
        | panic q => exact absurd hrd (readDelta_not_panic objSize _ q)
        | ok t =>
          obtain ⟨d, ws2⟩ := t
          have hupd := readDelta_I32 objSize (src := .bytes bs) trivial hrd
          simp only
          cases hrw : r.snap.readWithDelta d with
          | err e => simp
          | panic q => exact absurd hrw (snap_readWithDelta_not_panic hs.raw_wf.1 d q)
          | ok t2 =>
            obtain ⟨s, ws3⟩ := t2
            have hacc := accepted_of_readWithDelta hs.raw_wf hupd.2 hrw
            simp only
            cases hi : snapItems s with
            | none => exact absurd hi (snapItems_ne_none_of_accepted hacc)
            | some items =>
              simp only
              exact ⟨by simp, by simp, by intro r' c ws' he; cases he; exact ⟨hacc, hl⟩⟩

theorem hl_readAllGo_total (objSize : Nat → Option Nat) : ∀ (fuel : Nat) (r : DemoReader), Accepted r.snap →
    r.raw.data.length + 1 ≤ fuel →
    (DemoReader.readAllGo objSize fuel r).2.2 ≠ some .panic ∧
    (DemoReader.readAllGo objSize fuel r).2.2 ≠ some (.inner .diverge) := by
  intro fuel
  induction fuel with
  | zero => intro r _ h; omega
  | succ fuel ih =>
    intro r hs h
    simp only [DemoReader.readAllGo]
    obtain ⟨hnp, hnd, hch⟩ := nextChunk_total objSize r hs
    cases hrc : r.nextChunk objSize with
    | mk r' p =>
      obtain ⟨res, ws⟩ := p
      cases res with
      | eof => simp
      | error e =>
        simp only
        constructor
        · intro he; injection he with he; subst he; exact hnp r' ws hrc
        · intro he; injection he with he; subst he; exact hnd r' ws hrc
      | chunk c =>
        simp only
        obtain ⟨hacc, hl⟩ := hch r' c ws hrc
        exact ih r' hacc (by omega)

/-- **The high-level reader is total**: on arbitrary file bytes `DemoReader` never panics and the
model's loops never run out of fuel — it refuses the header, or returns chunks, warnings and at most
one of its own errors. -/
theorem readFileHl_total (objSize : Nat → Option Nat) (file : Bytes) :
    ∀ h cs ws, readFileHl objSize file ≠ some (h, cs, ws, some .panic) ∧
      readFileHl objSize file ≠ some (h, cs, ws, some (.inner .diverge)) := by
  intro h cs ws
  unfold readFileHl
  cases hn : Reader.new file with
  | none => simp
  | some t =>
    obtain ⟨r, hi, ws0⟩ := t
    simp only
    have := hl_readAllGo_total objSize (r.data.length + 1) { raw := r, snap := Snap.empty } accepted_empty (Nat.le_refl _)
    cases hg : DemoReader.readAllGo objSize (r.data.length + 1) { raw := r, snap := Snap.empty } with
    | mk cs' p =>
      obtain ⟨ws', e'⟩ := p
      rw [hg] at this
      simp only [Option.some.injEq, Prod.mk.injEq, ne_eq, not_and]
      exact ⟨fun _ _ _ => this.1, fun _ _ _ => this.2⟩

end Tw.DemoHl
