import Tw.Proofs.HuffmanTable
import Tw.Proofs.Packet6Write
import Tw.Proofs.Packet7Write
import Tw.Props.C05
import Tw.Props.C06

/-! C07 discharges the Huffman hypotheses of its users (C05/C06 packet codecs) for the built-in table
`Tw.Gen.Huffman.table`, so the packet theorems can be instantiated without hypotheses. -/
namespace Tw.Huffman

/-- `Tw.Packet6.HuffmanRoundTrip` for the built-in table (C07 `roundtrip`) -/
theorem packet6_roundTrip_table : Tw.Packet6.HuffmanRoundTrip Tw.Gen.Huffman.table :=
  fun xs cap h => decompress_compress _ wellFormed_table false xs cap h

/-- `Tw.Packet7.HuffmanRoundTrip` for the built-in table -/
theorem packet7_roundTrip_table : Tw.Packet7.HuffmanRoundTrip Tw.Gen.Huffman.table :=
  fun xs cap h => decompress_compress _ wellFormed_table false xs cap h

/-- … and for any well-formed table (e.g. one `from_frequencies` returned) -/
theorem packet6_roundTrip (t : Table) (h : WellFormed t) : Tw.Packet6.HuffmanRoundTrip t :=
  fun xs cap hc => decompress_compress t h false xs cap hc

theorem packet7_roundTrip (t : Table) (h : WellFormed t) : Tw.Packet7.HuffmanRoundTrip t :=
  fun xs cap hc => decompress_compress t h false xs cap hc

/-- `Tw.Props.C06.HuffmanTerminates` for the built-in table (C07 `decompress_total`) -/
theorem c06_terminates_table : Tw.Props.C06.HuffmanTerminates Tw.Gen.Huffman.table :=
  fun input cap => decompress_terminates _ wellFormed_table input cap

theorem c06_terminates (t : Table) (h : WellFormed t) : Tw.Props.C06.HuffmanTerminates t :=
  fun input cap => decompress_terminates t h input cap

/-! The packet round trips, instantiated: no hypothesis about the codec is left. -/

theorem v6_write_read_roundtrip_table (p : Tw.Packet6.Packet) (hv : Tw.Packet6.Valid p)
    (cap scap : Nat) (hcap : Tw.Gen.Packet6.MAX_PACKETSIZE ≤ cap)
    (hs : Tw.Gen.Packet6.MAX_PACKETSIZE ≤ scap) :
    ∃ bs, Tw.Packet6.write Tw.Gen.Huffman.table p cap = .ok bs
      ∧ bs.length ≤ Tw.Gen.Packet6.MAX_PACKETSIZE
      ∧ ∃ r, Tw.Packet6.read Tw.Gen.Huffman.table bs (some p.hasToken) (some scap) = .ok r
          ∧ r.pkt = p ∧ r.warns = Tw.Packet6.expectedWarnings p :=
  Tw.Props.C05.v6_write_read_roundtrip _ packet6_roundTrip_table p hv cap scap hcap hs

theorem v7_write_read_roundtrip_table (p : Tw.Packet7.Packet) (hv : Tw.Packet7.Valid p)
    (cap scap : Nat) (hcap : Tw.Gen.Packet7.MAX_PACKETSIZE ≤ cap)
    (hs : Tw.Gen.Packet7.MAX_PACKETSIZE ≤ scap) :
    ∃ bs, Tw.Packet7.write Tw.Gen.Huffman.table p cap = .ok bs
      ∧ bs.length ≤ Tw.Gen.Packet7.MAX_PACKETSIZE
      ∧ ∃ r, Tw.Packet7.read Tw.Gen.Huffman.table bs (some scap) = .ok r ∧ r.pkt = p
          ∧ r.warns = Tw.Packet7.expectedWarnings p :=
  Tw.Props.C05.v7_write_read_roundtrip _ packet7_roundTrip_table p hv cap scap hcap hs

theorem v6_read_terminates_table (bytes : List UInt8) (hint : Option Bool) (buffer : Option Nat) :
    Tw.Packet6.read Tw.Gen.Huffman.table bytes hint buffer ≠ .diverge :=
  Tw.Props.C06.v6_read_terminates _ c06_terminates_table bytes hint buffer

theorem v7_read_terminates_table (bytes : List UInt8) (buffer : Option Nat) :
    Tw.Packet7.read Tw.Gen.Huffman.table bytes buffer ≠ .diverge :=
  Tw.Props.C06.v7_read_terminates _ c06_terminates_table bytes buffer

end Tw.Huffman
