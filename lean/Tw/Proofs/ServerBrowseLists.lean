import Tw.Model.ServerBrowse
import Tw.Proofs.ServerBrowse

/-! The master-server responses (address lists, counts, the 0.7 token) and the recognition of the
thirteen response kinds by `parse_response`. -/
namespace Tw.ServerBrowse
open Tw.Gen.Browse

/-! ### address lists -/

/-- one 6-byte record of a 0.5 list: IPv4 address, port little endian -/
theorem parseList5_record (fuel : Nat) (a b c d p0 p1 : UInt8) (rest : List UInt8) :
    parseList5 (fuel + 1) (a :: b :: c :: d :: p0 :: p1 :: rest)
      = { v4 := true, ip := [a, b, c, d], port := p0.toNat + 256 * p1.toNat } :: parseList5 fuel rest := rfl

theorem parseList5_short (fuel : Nat) (bs : List UInt8) (h : bs.length < 6) : parseList5 fuel bs = [] := by
  cases fuel with
  | zero => simp [parseList5]
  | succ f =>
    match bs, h with
    | [], _ => simp [parseList5]
    | [_], _ => simp [parseList5]
    | [_, _], _ => simp [parseList5]
    | [_, _, _], _ => simp [parseList5]
    | [_, _, _, _], _ => simp [parseList5]
    | [_, _, _, _, _], _ => simp [parseList5]
    | _ :: _ :: _ :: _ :: _ :: _ :: _, h => simp at h; omega

/-- number of addresses = number of complete 6-byte records (a trailing partial record is dropped);
any fuel ≥ that number gives the same list, so the fuel `payload.length` of the model suffices -/
theorem parseList5_length : ∀ (fuel : Nat) (bs : List UInt8), bs.length / 6 ≤ fuel →
    (parseList5 fuel bs).length = bs.length / 6
  | fuel, bs, hf => by
    by_cases hs : bs.length < 6
    · rw [parseList5_short fuel bs hs]; simp; omega
    · match bs, hs with
      | a :: b :: c :: d :: p0 :: p1 :: rest, _ =>
        cases fuel with
        | zero => simp at hf; omega
        | succ f =>
          rw [parseList5_record]
          have : rest.length / 6 ≤ f := by simp at hf; omega
          have ih := parseList5_length f rest this
          simp only [List.length_cons, ih]; omega
      | [], hs => simp at hs
      | [_], hs => simp at hs
      | [_, _], hs => simp at hs
      | [_, _, _], hs => simp at hs
      | [_, _, _, _], hs => simp at hs
      | [_, _, _, _, _], hs => simp at hs
termination_by _ bs => bs.length

theorem parseList6_short (fuel : Nat) (bs : List UInt8) (h : bs.length < 18) : parseList6 fuel bs = [] := by
  cases fuel with
  | zero => rfl
  | succ f => unfold parseList6; simp [h]

/-- one 18-byte record of a 0.6/0.7 list: 16 address bytes, port big endian -/
theorem parseList6_record (fuel : Nat) (ip : List UInt8) (hip : ip.length = 16) (p0 p1 : UInt8) (rest : List UInt8) :
    parseList6 (fuel + 1) (ip ++ p0 :: p1 :: rest) = unpackAddr6 ip p0 p1 :: parseList6 fuel rest := by
  conv => lhs; unfold parseList6
  have hl : ¬ (ip ++ p0 :: p1 :: rest).length < 18 := by
    simp only [List.length_append, List.length_cons, hip]; omega
  simp only [hl, if_false]
  have hd : (ip ++ p0 :: p1 :: rest).drop 16 = p0 :: p1 :: rest := by
    rw [← hip]; simp
  have ht : (ip ++ p0 :: p1 :: rest).take 16 = ip := by
    rw [← hip]; simp
  rw [hd, ht]

theorem parseList6_length : ∀ (fuel : Nat) (bs : List UInt8), bs.length / 18 ≤ fuel →
    (parseList6 fuel bs).length = bs.length / 18
  | fuel, bs, hf => by
    by_cases hs : bs.length < 18
    · rw [parseList6_short fuel bs hs]; simp; omega
    · cases fuel with
      | zero => omega
      | succ f =>
        have hsplit : bs = bs.take 16 ++ (bs.drop 16) := (List.take_append_drop 16 bs).symm
        have hdl : (bs.drop 16).length = bs.length - 16 := by simp
        match hd : bs.drop 16 with
        | [] => rw [hd] at hdl; simp at hdl; omega
        | [_] => rw [hd] at hdl; simp at hdl; omega
        | p0 :: p1 :: rest =>
          rw [hd] at hsplit hdl
          have hip : (bs.take 16).length = 16 := by simp; omega
          rw [hsplit, parseList6_record f _ hip]
          have hrl : rest.length = bs.length - 18 := by simp at hdl; omega
          have ih := parseList6_length f rest (by omega)
          simp only [List.length_cons, ih, List.length_append, hip]
          omega
termination_by _ bs => bs.length
decreasing_by all_goals simp_wf; omega

/-- `Addr6Packed::unpack`: the port is big endian; an address whose first twelve bytes are the
IPv4-mapping prefix becomes the IPv4 address of its last four bytes, any other stays IPv6 -/
theorem unpackAddr6_spec (ip : List UInt8) (p0 p1 : UInt8) :
    (unpackAddr6 ip p0 p1).port = 256 * p0.toNat + p1.toNat ∧
    ((unpackAddr6 ip p0 p1).v4 = true ↔ ip.take 12 = bytesOf IPV4_MAPPING) ∧
    (ip.take 12 = bytesOf IPV4_MAPPING → (unpackAddr6 ip p0 p1).ip = ip.drop 12) ∧
    (ip.take 12 ≠ bytesOf IPV4_MAPPING → (unpackAddr6 ip p0 p1).ip = ip) := by
  unfold unpackAddr6
  by_cases h : ip.take 12 = bytesOf IPV4_MAPPING
  · simp [h]
  · simp [h]

/-! ### counts and the 0.7 token -/

theorem parseCount_spec (bs : List UInt8) :
    (bs.length < 2 → parseCount bs = none) ∧
    (∀ a b rest, bs = a :: b :: rest → parseCount bs = some (256 * a.toNat + b.toNat)) := by
  constructor
  · intro h
    match bs, h with
    | [], _ => rfl
    | [_], _ => rfl
    | _ :: _ :: _, h => simp at h; omega
  · rintro a b rest rfl; rfl

theorem parseToken7_spec (bs : List UInt8) :
    (bs.length < 4 → parseToken7 bs = none) ∧
    (∀ a b c d rest, bs = a :: b :: c :: d :: rest → parseToken7 bs = some [a, b, c, d]) := by
  constructor
  · intro h
    match bs, h with
    | [], _ => rfl
    | [_], _ => rfl
    | [_, _], _ => rfl
    | [_, _, _], _ => rfl
    | _ :: _ :: _ :: _ :: _, h => simp at h; omega
  · rintro a b c d rest rfl; rfl

/-! ### recognition of the thirteen response kinds -/

/-- a datagram with a 14-byte connless header that is neither a 0.7 token nor a 0.7 connless packet
is classified by its masked header -/
theorem parseResponse_header6 (first : UInt8) (rest payload : List UInt8) (hl : (first :: rest).length = HEADER_LEN)
    (h04 : first.toNat ≠ 0x04) (h21 : first.toNat ≠ 0x21) (hc : first.toNat &&& PACKETFLAG_CONNLESS ≠ 0) :
    parseResponse (first :: rest ++ payload) = .ok (classify6 (maskHeader6 (first :: rest)) payload) := by
  have h14 : HEADER_LEN = 14 := rfl
  show parseResponse (first :: (rest ++ payload)) = _
  unfold parseResponse
  simp only [h04, h21, if_false]
  have hlen : ¬ (first :: (rest ++ payload)).length < HEADER_LEN := by
    simp only [List.length_cons, List.length_append] at hl ⊢; omega
  rw [if_neg hlen, if_neg hc]
  rw [splitAtChecked_ok (by simp only [List.length_cons, List.length_append] at hl ⊢; omega)]
  have e : first :: (rest ++ payload) = (first :: rest) ++ payload := rfl
  simp only [e, ← hl, List.take_left', List.drop_left']

/-- **0.5 / 0.6 kinds**: each of the nine 14-byte headers is recognised as its kind, with any
payload. -/
theorem recognise_header6 (payload : List UInt8) :
    parseResponse (bytesOf LIST_5 ++ payload) = .ok (some (.list5 (parseList5 payload.length payload))) ∧
    parseResponse (bytesOf LIST_6 ++ payload) = .ok (some (.list6 (parseList6 payload.length payload))) ∧
    parseResponse (bytesOf INFO_5 ++ payload) = .ok (some (.info .info5 payload)) ∧
    parseResponse (bytesOf INFO_6 ++ payload) = .ok (some (.info .info6 payload)) ∧
    parseResponse (bytesOf INFO_6_DDPER ++ payload) = .ok (some (.info .info6Ddper payload)) ∧
    parseResponse (bytesOf INFO_6_64 ++ payload) = .ok (some (.info .info664 payload)) ∧
    parseResponse (bytesOf INFO_6_EX ++ payload) = .ok (some (.info .info6Ex payload)) ∧
    parseResponse (bytesOf INFO_6_EX_MORE ++ payload) = .ok (some (.info .info6ExMore payload)) ∧
    parseResponse (bytesOf COUNT ++ payload) = .ok ((parseCount payload).map .count) := by
  have key : ∀ (h : List UInt8) (first : UInt8) (rest : List UInt8), h = first :: rest → h.length = HEADER_LEN →
      first.toNat ≠ 0x04 → first.toNat ≠ 0x21 → first.toNat &&& PACKETFLAG_CONNLESS ≠ 0 →
      parseResponse (h ++ payload) = .ok (classify6 (maskHeader6 h) payload) := by
    intro h first rest e hl a b c
    subst e
    exact parseResponse_header6 first rest payload hl a b c
  refine ⟨?_, ?_, ?_, ?_, ?_, ?_, ?_, ?_, ?_⟩
  · rw [key (bytesOf LIST_5) 255 (bytesOf LIST_5).tail (by decide) (by decide) (by decide) (by decide) (by decide)]
    have : maskHeader6 (bytesOf LIST_5) = bytesOf LIST_5 := by decide
    rw [this]; simp (config := { decide := true }) [classify6]
  · rw [key (bytesOf LIST_6) 255 (bytesOf LIST_6).tail (by decide) (by decide) (by decide) (by decide) (by decide)]
    have : maskHeader6 (bytesOf LIST_6) = bytesOf LIST_6 := by decide
    rw [this]; simp (config := { decide := true }) [classify6]
  · rw [key (bytesOf INFO_5) 255 (bytesOf INFO_5).tail (by decide) (by decide) (by decide) (by decide) (by decide)]
    have : maskHeader6 (bytesOf INFO_5) = bytesOf INFO_5 := by decide
    rw [this]; simp (config := { decide := true }) [classify6]
  · rw [key (bytesOf INFO_6) 255 (bytesOf INFO_6).tail (by decide) (by decide) (by decide) (by decide) (by decide)]
    have : maskHeader6 (bytesOf INFO_6) = bytesOf INFO_6 := by decide
    rw [this]; simp (config := { decide := true }) [classify6]
  · rw [key (bytesOf INFO_6_DDPER) 100 (bytesOf INFO_6_DDPER).tail (by decide) (by decide) (by decide) (by decide) (by decide)]
    have : maskHeader6 (bytesOf INFO_6_DDPER) = bytesOf INFO_6_DDPER := by decide
    rw [this]; simp (config := { decide := true }) [classify6]
  · rw [key (bytesOf INFO_6_64) 255 (bytesOf INFO_6_64).tail (by decide) (by decide) (by decide) (by decide) (by decide)]
    have : maskHeader6 (bytesOf INFO_6_64) = bytesOf INFO_6_64 := by decide
    rw [this]; simp (config := { decide := true }) [classify6]
  · rw [key (bytesOf INFO_6_EX) 255 (bytesOf INFO_6_EX).tail (by decide) (by decide) (by decide) (by decide) (by decide)]
    have : maskHeader6 (bytesOf INFO_6_EX) = bytesOf INFO_6_EX := by decide
    rw [this]; simp (config := { decide := true }) [classify6]
  · rw [key (bytesOf INFO_6_EX_MORE) 255 (bytesOf INFO_6_EX_MORE).tail (by decide) (by decide) (by decide) (by decide) (by decide)]
    have : maskHeader6 (bytesOf INFO_6_EX_MORE) = bytesOf INFO_6_EX_MORE := by decide
    rw [this]; simp (config := { decide := true }) [classify6]
  · rw [key (bytesOf COUNT) 255 (bytesOf COUNT).tail (by decide) (by decide) (by decide) (by decide) (by decide)]
    have : maskHeader6 (bytesOf COUNT) = bytesOf COUNT := by decide
    rw [this]; simp (config := { decide := true }) [classify6]
    cases parseCount payload <;> rfl

/-- **0.7 kinds**: `0x21`, the two four-byte tokens (any values), four `ff` and the tag -/
theorem recognise_header7 (a b c d e f g h : UInt8) (payload : List UInt8) :
    parseResponse (0x21 :: a :: b :: c :: d :: e :: f :: g :: h :: (bytesOf (LIST_7.drop 9) ++ payload))
      = .ok (some (.list7 [a, b, c, d] [e, f, g, h] (parseList6 payload.length payload))) ∧
    parseResponse (0x21 :: a :: b :: c :: d :: e :: f :: g :: h :: (bytesOf (INFO_7.drop 9) ++ payload))
      = .ok (some (.info7 [a, b, c, d] [e, f, g, h] payload)) ∧
    parseResponse (0x21 :: a :: b :: c :: d :: e :: f :: g :: h :: (bytesOf (COUNT_7.drop 9) ++ payload))
      = .ok ((parseCount payload).map (.count7 [a, b, c, d] [e, f, g, h])) := by
  have h21 : (0x21 : UInt8).toNat = 0x21 := by decide
  have h04 : ¬ (0x21 : UInt8).toNat = 0x04 := by decide
  refine ⟨?_, ?_, ?_⟩
  · unfold parseResponse
    simp only [h21, h04, if_true, if_false]
    rw [if_neg (by simp [bytesOf]), splitAtChecked_ok (by simp [bytesOf, LIST_7, INFO_7, COUNT_7])]
    simp (config := { decide := true }) [bytesOf, LIST_7, INFO_7, COUNT_7, fillRange, classify7]
  · unfold parseResponse
    simp only [h21, h04, if_true, if_false]
    rw [if_neg (by simp [bytesOf]), splitAtChecked_ok (by simp [bytesOf, LIST_7, INFO_7, COUNT_7])]
    simp (config := { decide := true }) [bytesOf, LIST_7, INFO_7, COUNT_7, fillRange, classify7]
  · unfold parseResponse
    simp only [h21, h04, if_true, if_false]
    rw [if_neg (by simp [bytesOf]), splitAtChecked_ok (by simp [bytesOf, LIST_7, INFO_7, COUNT_7])]
    simp (config := { decide := true }) [bytesOf, LIST_7, INFO_7, COUNT_7, fillRange, classify7]
    cases parseCount payload <;> rfl

/-- **0.7 token response**: `04 00 00`, our four-byte token, `05`, then their token -/
theorem recognise_token7 (a b c d : UInt8) (payload : List UInt8) :
    parseResponse (0x04 :: 0 :: 0 :: a :: b :: c :: d :: 0x05 :: payload)
      = .ok ((parseToken7 payload).map (.token7 [a, b, c, d])) := by
  have h04 : (0x04 : UInt8).toNat = 0x04 := by decide
  unfold parseResponse
  simp only [h04, if_true]
  rw [if_neg (by simp [TOKEN_7]), splitAtChecked_ok (by simp)]
  simp (config := { decide := true }) [bytesOf, TOKEN_7, fillRange, classifyToken7]
  cases parseToken7 payload <;> rfl

end Tw.ServerBrowse
