import Tw.Proofs.SnapRaw

/-! C11: the readers and `read_with_delta` never panic, their loops are bounded by the input
length, and what they accept is well-formed (sorted, unique keys, inside the limits). -/
namespace Tw.Snap
open Tw.Packer (readInt writeInt inI32 toI32 readTail)

/-! ### `Packer.readInt` consumes at least one byte and yields an `i32` -/

theorem toI32_I32 (r : Nat) : I32 (toI32 r) := by
  unfold toI32 I32
  split <;> omega

theorem readTail_rest_le : ∀ (n acc : Nat) (src : UInt8) (len : Nat) (rest : List UInt8) (ws : List Tw.Packer.Warning)
    (acc' : Nat) (src' : UInt8) (len' : Nat) (rest' : List UInt8) (ws' : List Tw.Packer.Warning),
    readTail n acc src len rest ws = some (acc', src', len', rest', ws') → rest'.length ≤ rest.length := by
  intro n
  induction n with
  | zero =>
    intro acc src len rest ws acc' src' len' rest' ws' h
    simp [readTail] at h
    simp [h.2.2.2.1]
  | succ n ih =>
    intro acc src len rest ws acc' src' len' rest' ws' h
    simp only [readTail] at h
    split at h
    · simp at h; simp [h.2.2.2.1]
    · cases rest with
      | nil => simp at h
      | cons b rest2 =>
        simp only at h
        have := ih _ _ _ _ _ _ _ _ _ _ h
        simp; omega

theorem readInt_rest_lt {bs : List UInt8} {v : Int} {rest : List UInt8} {ws : List Tw.Packer.Warning}
    (h : readInt bs = some (v, rest, ws)) : rest.length < bs.length ∧ I32 v := by
  cases bs with
  | nil => simp [readInt] at h
  | cons b0 r =>
    simp only [readInt] at h
    split at h
    · simp at h
    · rename_i acc src len rest' ws' heq
      simp at h
      have := readTail_rest_le _ _ _ _ _ _ _ _ _ _ _ heq
      obtain ⟨h1, h2, _⟩ := h
      subst h2
      refine ⟨by simp; omega, ?_⟩
      rw [← h1]; exact toI32_I32 _

/-! ### `add_item` keeps a snapshot well-formed -/

theorem addItem_WF {s s' : RawSnap} {k : Int} {d : List Int} (hs : s.WF) (hk : I32 k)
    (hd : ∀ x ∈ d, I32 x) (h : s.addItem k d = .ok s') : s'.WF := by
  obtain ⟨hS, hI, hN, hZ⟩ := hs
  unfold RawSnap.addItem at h
  cases hf : mfind k s.items with
  | some v => simp [hf] at h
  | none =>
    simp only [hf] at h
    cases hv : vacantCheck s.items d.length with
    | some e => simp [hv] at h
    | none =>
      simp only [hv] at h
      injection h with h
      subst h
      unfold vacantCheck at hv
      split at hv
      · simp at hv
      · split at hv
        · simp at hv
        · rename_i h1 h2
          refine ⟨sorted_minsert hS, ?_, ?_, ?_⟩
          · intro p hp
            rcases mem_minsert hp with rfl | hp
            · exact ⟨hk, hd⟩
            · exact hI p hp
          · show (minsert k d s.items).length ≤ maxItems
            rw [length_minsert_of_none hf]; omega
          · show serializedSize (minsert k d s.items).length (dataLen (minsert k d s.items)) ≤ maxSize
            rw [length_minsert_of_none hf, dataLen_minsert_of_none hf]; omega

theorem empty_WF : RawSnap.empty.WF := by decide

/-! ### `read_from_ints` -/

theorem addAt_cases (itemData : List Int) (prev off : Nat) (s : RawSnap) (h1 : prev < off)
    (h2 : off ≤ itemData.length) :
    ∃ k, itemData[prev]? = some k ∧
      addAt itemData prev off s =
        match s.addItem k ((itemData.drop (prev + 1)).take (off - (prev + 1))) with
        | .error e => .err e.toError
        | .ok s' => .ok s' := by
  have hlt : prev < itemData.length := by omega
  refine ⟨itemData[prev], by simp [hlt], ?_⟩
  unfold addAt
  have : itemData[prev]? = some itemData[prev] := by simp [hlt]
  rw [this]
  have h3 : ¬ (off > itemData.length ∨ off < prev + 1) := by omega
  simp only [h3, if_false]
  cases s.addItem itemData[prev] _ <;> rfl

theorem mem_of_getElem? {l : List Int} {i : Nat} {k : Int} (h : l[i]? = some k) : k ∈ l :=
  List.mem_of_getElem? h

theorem readItemsLoop_total (itemData : List Int) (hI : ∀ x ∈ itemData, I32 x) :
    ∀ (offs : List Int) (prev : Nat) (s : RawSnap), s.WF →
      (∀ p, readItemsLoop itemData itemData.length offs prev s ≠ .panic p) ∧
      (∀ s', readItemsLoop itemData itemData.length offs prev s = .ok s' → s'.WF) := by
  intro offs
  induction offs with
  | nil =>
    intro prev s hs
    simp only [readItemsLoop]
    split
    · exact ⟨(by intro p h; cases h), (by intro s' h; cases h)⟩
    · rename_i hlt
      obtain ⟨k, hk, he⟩ := addAt_cases itemData prev itemData.length s (by omega) (Nat.le_refl _)
      rw [he]
      cases ha : s.addItem k _ with
      | error e => exact ⟨(by intro p h; cases h), (by intro s' h; cases h)⟩
      | ok s1 =>
        refine ⟨(by intro p h; cases h), ?_⟩
        intro s' h
        injection h with h
        subst h
        exact addItem_WF hs (hI k (mem_of_getElem? hk))
          (fun x hx => hI x (List.mem_of_mem_drop (List.mem_of_mem_take hx))) ha
  | cons o os ih =>
    intro prev s hs
    simp only [readItemsLoop]
    split
    · exact ⟨(by intro p h; cases h), (by intro s' h; cases h)⟩
    · split
      · exact ⟨(by intro p h; cases h), (by intro s' h; cases h)⟩
      · split
        · exact ⟨(by intro p h; cases h), (by intro s' h; cases h)⟩
        · split
          · exact ⟨(by intro p h; cases h), (by intro s' h; cases h)⟩
          · rename_i h1 h2 h3 h4
            obtain ⟨k, hk, he⟩ := addAt_cases itemData prev (o.toNat / 4) s (by omega) (by omega)
            rw [he]
            cases ha : s.addItem k _ with
            | error e => exact ⟨(by intro p h; cases h), (by intro s' h; cases h)⟩
            | ok s1 =>
              have hs1 := addItem_WF hs (hI k (mem_of_getElem? hk))
                (fun x hx => hI x (List.mem_of_mem_drop (List.mem_of_mem_take hx))) ha
              exact ih (o.toNat / 4) s1 hs1

/-- `RawSnap::read_from_ints` never panics, and what it accepts is well-formed: sorted unique keys,
at most `MAX_SNAPSHOT_ITEMS` items, at most `MAX_SNAPSHOT_SIZE` bytes. -/
theorem readFromInts_total (data : List Int) (hI : ∀ x ∈ data, I32 x) :
    (∀ p, RawSnap.readFromInts data ≠ .panic p) ∧
    (∀ s ws, RawSnap.readFromInts data = .ok (s, ws) → s.WF) := by
  cases data with
  | nil => exact ⟨(by intro p h; cases h), (by intro s ws h; cases h)⟩
  | cons ds rest =>
    cases rest with
    | nil =>
      rw [RawSnap.readFromInts]
      split
      · exact ⟨(by intro p h; cases h), (by intro s ws h; cases h)⟩
      · exact ⟨(by intro p h; cases h), (by intro s ws h; cases h)⟩
    | cons n body =>
      rw [RawSnap.readFromInts]
      split
      · exact ⟨(by intro p h; cases h), (by intro s ws h; cases h)⟩
      · split
        · exact ⟨(by intro p h; cases h), (by intro s ws h; cases h)⟩
        · split
          · exact ⟨(by intro p h; cases h), (by intro s ws h; cases h)⟩
          · split
            · exact ⟨(by intro p h; cases h), (by intro s ws h; cases h)⟩
            · dsimp only
              split
              · exact ⟨(by intro p h; cases h), (by intro s ws h; cases h)⟩
              · rename_i hlen
                have hbI : ∀ x ∈ body, I32 x := fun x hx => hI x (by simp [hx])
                have hidI : ∀ x ∈ (body.drop n.toNat).take (ds.toNat / 4), I32 x :=
                  fun x hx => hbI x (List.mem_of_mem_drop (List.mem_of_mem_take hx))
                have hidL : ((body.drop n.toNat).take (ds.toNat / 4)).length = ds.toNat / 4 := by
                  rw [List.length_take, List.length_drop]; omega
                cases hoffs : body.take n.toNat with
                | nil =>
                  dsimp only
                  split
                  · exact ⟨(by intro p h; cases h), (by intro s ws h; cases h)⟩
                  · refine ⟨(by intro p h; cases h), ?_⟩
                    intro s ws h
                    injection h with h
                    injection h with h1 h2
                    subst h1
                    exact empty_WF
                | cons o os =>
                  dsimp only
                  split
                  · exact ⟨(by intro p h; cases h), (by intro s ws h; cases h)⟩
                  · split
                    · exact ⟨(by intro p h; cases h), (by intro s ws h; cases h)⟩
                    · split
                      · exact ⟨(by intro p h; cases h), (by intro s ws h; cases h)⟩
                      · have hloop := readItemsLoop_total _ hidI os 0 RawSnap.empty empty_WF
                        rw [hidL] at hloop
                        cases hr : readItemsLoop ((body.drop n.toNat).take (ds.toNat / 4)) (ds.toNat / 4) os 0
                            RawSnap.empty with
                        | ok s1 =>
                          refine ⟨(by intro p h; cases h), ?_⟩
                          intro s ws h
                          injection h with h
                          injection h with h1 h2
                          subst h1
                          exact hloop.2 s1 hr
                        | err e => exact ⟨(by intro p h; cases h), (by intro s ws h; cases h)⟩
                        | panic p => exact absurd hr (hloop.1 p)

/-! ### bytes: the decoding loop is bounded by the input length -/

theorem decodeInts_I32 : ∀ (fuel : Nat) (bs : List UInt8), ∀ x ∈ (decodeInts fuel bs).1, I32 x := by
  intro fuel
  induction fuel with
  | zero => intro bs x hx; simp [decodeInts] at hx
  | succ f ih =>
    intro bs x hx
    cases bs with
    | nil => simp [decodeInts] at hx
    | cons b r =>
      simp only [decodeInts] at hx
      cases hr : readInt (b :: r) with
      | none => simp [hr] at hx
      | some t =>
        obtain ⟨v, rest, w⟩ := t
        simp only [hr, List.mem_cons] at hx
        rcases hx with rfl | hx
        · exact (readInt_rest_lt hr).2
        · exact ih rest x hx

/-- The fuel `bs.length` given to the decoding loop is never what stops it: with any larger fuel
the result is the same (every iteration consumes at least one byte). -/
theorem decodeInts_fuel : ∀ (fuel : Nat) (bs : List UInt8), bs.length ≤ fuel →
    decodeInts fuel bs = decodeInts bs.length bs := by
  intro fuel
  induction fuel using Nat.strongRecOn with
  | _ fuel ih =>
    intro bs hf
    cases bs with
    | nil => cases fuel <;> simp [decodeInts]
    | cons b r =>
      cases fuel with
      | zero => simp at hf
      | succ f =>
        simp only [decodeInts, List.length_cons]
        cases hr : readInt (b :: r) with
        | none => rfl
        | some t =>
          obtain ⟨v, rest, w⟩ := t
          have hlt := (readInt_rest_lt hr).1
          simp only [List.length_cons] at hlt
          have e1 := ih f (by omega) rest (by simp at hf; omega)
          have e2 := ih r.length (by simp at hf; omega) rest (by omega)
          simp only [e1, e2]

theorem readBytes_total (bs : List UInt8) :
    (∀ p, RawSnap.readBytes bs ≠ .panic p) ∧ (∀ s ws, RawSnap.readBytes bs = .ok (s, ws) → s.WF) := by
  have h := readFromInts_total (decodeInts bs.length bs).1 (decodeInts_I32 _ _)
  unfold RawSnap.readBytes
  simp only
  cases hr : RawSnap.readFromInts (decodeInts bs.length bs).1 with
  | ok r =>
    obtain ⟨s, ws⟩ := r
    refine ⟨(by intro p h; cases h), ?_⟩
    intro s' ws' h'
    injection h' with h'
    injection h' with h1 h2
    subst h1
    exact h.2 s ws hr
  | err e => exact ⟨(by intro p h; cases h), (by intro s ws h; cases h)⟩
  | panic p => exact absurd hr (h.1 p)

/-! ### `read_with_delta` -/

theorem copyUndeleted_not_panic (deleted : List Int) : ∀ (r out : Items) (n : Nat), Sorted r →
    (∀ p ∈ r, mfind p.1 out = none) → ∀ p, copyUndeleted deleted r out n ≠ .panic p := by
  intro r
  induction r with
  | nil => intro out n _ _ p h; cases h
  | cons q r ih =>
    obtain ⟨k, d⟩ := q
    intro out n hs hnew p
    rw [sorted_cons] at hs
    simp only [copyUndeleted]
    split
    · exact ih out (n + 1) hs.2 (fun q hq => hnew q (by simp [hq])) p
    · have hk : mfind k out = none := hnew (k, d) (by simp)
      simp only [hk]
      split
      · intro h; cases h
      · apply ih _ n hs.2 _ p
        intro q hq
        have := hs.1 q hq
        have hne : q.1 ≠ k := by omega
        rw [mfind_minsert, if_neg hne]
        exact hnew q (by simp [hq])

theorem applyUpdates_not_panic (from_ : Items) : ∀ (upd out : Items) p, applyUpdates from_ upd out ≠ .panic p := by
  intro upd
  induction upd with
  | nil => intro out p h; cases h
  | cons q r ih =>
    obtain ⟨k, diff⟩ := q
    intro out p
    simp only [applyUpdates]
    split
    · split
      · intro h; cases h
      · split
        · intro h; cases h
        · exact ih _ p
    · split
      · intro h; cases h
      · split
        · intro h; cases h
        · exact ih _ p

/-- `RawSnap::read_with_delta` never panics: for any snapshot with distinct keys and any delta
whatsoever (since the fix of D19). -/
theorem applyDelta_not_panic {a : RawSnap} (ha : Sorted a.items) (d : Delta) : ∀ p, applyDelta a d ≠ .panic p := by
  intro p
  unfold applyDelta
  cases hc : copyUndeleted d.deleted a.items [] 0 with
  | panic q => exact absurd hc (copyUndeleted_not_panic d.deleted a.items [] 0 ha (by intro q _; simp [mfind]) q)
  | err e => intro h; cases h
  | ok r =>
    obtain ⟨out, n⟩ := r
    simp only
    cases hu : applyUpdates a.items d.updated out with
    | panic q => exact absurd hu (applyUpdates_not_panic a.items d.updated out q)
    | err e => intro h; cases h
    | ok out' => intro h; cases h

/-! ### `Delta::read_impl` -/

theorem Src.size_zero_isEmpty {src : Src} (h : src.size = 0) : src.isEmpty = true := by
  cases src with
  | ints l => cases l <;> simp_all [Src.size, Src.isEmpty]
  | bytes l => cases l <;> simp_all [Src.size, Src.isEmpty]

theorem Src.readInt_size {src src' : Src} {v : Int} {w : List Warning}
    (h : src.readInt = some (v, src', w)) : src'.size < src.size := by
  cases src with
  | ints l =>
    cases l with
    | nil => simp [Src.readInt] at h
    | cons x r =>
      simp [Src.readInt] at h
      rw [← h.2.1]; simp [Src.size]
  | bytes b =>
    simp only [Src.readInt] at h
    cases hr : Tw.Packer.readInt b with
    | none => simp [hr] at h
    | some t =>
      obtain ⟨v', rest, ws⟩ := t
      simp [hr] at h
      rw [← h.2.1]
      simp only [Src.size]
      exact (readInt_rest_lt hr).1

theorem readData_size : ∀ (n : Nat) (src : Src) (vs : List Int) (src' : Src) (w : List Warning),
    readData n src = some (vs, src', w) → src'.size ≤ src.size := by
  intro n
  induction n with
  | zero => intro src vs src' w h; simp [readData] at h; rw [← h.2.1]; exact Nat.le_refl _
  | succ n ih =>
    intro src vs src' w h
    simp only [readData] at h
    cases h1 : src.readInt with
    | none => simp [h1] at h
    | some t =>
      obtain ⟨v, s1, w1⟩ := t
      simp only [h1] at h
      cases h2 : readData n s1 with
      | none => simp [h2] at h
      | some t2 =>
        obtain ⟨vs2, s2, w2⟩ := t2
        simp [h2] at h
        have := ih s1 vs2 s2 w2 h2
        have := Src.readInt_size h1
        rw [← h.2.1]; omega

/-- The fuel handed to the update loop of `Delta::read_impl` (the size of the remaining input)
always suffices: the loop never runs out of it, and nothing else in it can panic. -/
theorem readUpdates_not_panic (objSize : Nat → Option Nat) (deleted : List Int) :
    ∀ (fuel : Nat) (src : Src) (upd : Items) (bl num : Nat) (ws : List Warning), src.size ≤ fuel →
      ∀ p, readUpdates objSize deleted fuel src upd bl num ws ≠ .panic p := by
  intro fuel
  induction fuel with
  | zero =>
    intro src upd bl num ws hf p
    have := Src.size_zero_isEmpty (by omega : src.size = 0)
    simp [readUpdates, this]
  | succ f ih =>
    intro src upd bl num ws hf p
    rw [readUpdates]
    split
    · intro h; cases h
    · cases h1 : src.readInt with
      | none => intro h; cases h
      | some t1 =>
        obtain ⟨t, s1, w1⟩ := t1
        dsimp only
        cases h2 : s1.readInt with
        | none => intro h; cases h
        | some t2 =>
          obtain ⟨id, s2, w2⟩ := t2
          dsimp only
          have hs1 := Src.readInt_size h1
          have hs2 := Src.readInt_size h2
          split
          · intro h; cases h
          · split
            · intro h; cases h
            · cases ho : objSize t.toNat with
              | some sz =>
                dsimp only
                split
                · intro h; cases h
                · split
                  · intro h; cases h
                  · cases h4 : readData sz s2 with
                    | none => intro h; cases h
                    | some t4 =>
                      obtain ⟨data, s4, w4⟩ := t4
                      dsimp only
                      have := readData_size _ _ _ _ _ h4
                      exact ih s4 _ _ _ _ (by omega) p
              | none =>
                dsimp only
                cases h3 : s2.readInt with
                | none => intro h; cases h
                | some t3 =>
                  obtain ⟨sz, s3, w3⟩ := t3
                  dsimp only
                  have hs3 := Src.readInt_size h3
                  by_cases hneg : sz < 0
                  · simp only [hneg, if_true]; intro h; cases h
                  · simp only [hneg, if_false]
                    split
                    · intro h; cases h
                    · split
                      · intro h; cases h
                      · cases h4 : readData sz.toNat s3 with
                        | none => intro h; cases h
                        | some t4 =>
                          obtain ⟨data, s4, w4⟩ := t4
                          dsimp only
                          have := readData_size _ _ _ _ _ h4
                          exact ih s4 _ _ _ _ (by omega) p

/-- `Delta::read` / `Delta::read_from_ints` never panic, on any input. -/
theorem readDelta_not_panic (objSize : Nat → Option Nat) (src : Src) : ∀ p, readDelta objSize src ≠ .panic p := by
  intro p
  unfold readDelta
  cases h1 : src.readInt with
  | none => intro h; cases h
  | some t1 =>
    obtain ⟨nd, s1, w1⟩ := t1
    dsimp only
    split
    · intro h; cases h
    · cases h2 : s1.readInt with
      | none => intro h; cases h
      | some t2 =>
        obtain ⟨nu, s2, w2⟩ := t2
        dsimp only
        split
        · intro h; cases h
        · cases h3 : s2.readInt with
          | none => intro h; cases h
          | some t3 =>
            obtain ⟨z, s3, w3⟩ := t3
            dsimp only
            cases h4 : readKeys nd.toNat s3 [] [] with
            | none => intro h; cases h
            | some t4 =>
              obtain ⟨deleted, s4, w4⟩ := t4
              dsimp only
              cases h5 : readUpdates objSize deleted s4.size s4 [] 0 0 [] with
              | panic q => exact absurd h5 (readUpdates_not_panic objSize deleted s4.size s4 [] 0 0 [] (Nat.le_refl _) q)
              | err e => intro h; cases h
              | ok r => intro h; cases h

/-! ### `Snap`: the readers above followed by `build_from_raw` -/

theorem buildExt_not_panic (all : Items) : ∀ (m : Items) (ext : List (Int × Nat)) (ws : List Warning) p,
    buildExt all m ext ws ≠ .panic p := by
  intro m
  induction m with
  | nil => intro ext ws p h; cases h
  | cons q r ih =>
    obtain ⟨k, d⟩ := q
    intro ext ws p
    simp only [buildExt]
    split
    · cases dataToUuid d with
      | none => intro h; cases h
      | some t =>
        obtain ⟨u, ex⟩ := t
        dsimp only
        split
        · intro h; cases h
        · exact ih _ _ p
    · split
      · split
        · intro h; cases h
        · exact ih _ _ p
      · exact ih _ _ p

theorem buildFromRaw_not_panic (raw : RawSnap) : ∀ p, buildFromRaw raw ≠ .panic p := by
  intro p
  unfold buildFromRaw
  cases h : buildExt raw.items raw.items [] [] with
  | panic q => exact absurd h (buildExt_not_panic _ _ _ _ q)
  | err e => intro h; cases h
  | ok r => intro h; cases h

theorem buildFromRaw_raw {raw : RawSnap} {s : Snap} {ws : List Warning} (h : buildFromRaw raw = .ok (s, ws)) :
    s.raw = raw := by
  unfold buildFromRaw at h
  cases hb : buildExt raw.items raw.items [] [] with
  | panic q => simp [hb] at h
  | err e => simp [hb] at h
  | ok r =>
    obtain ⟨ext, ws'⟩ := r
    simp [hb] at h
    rw [← h.1]

/-- `Snap::read_from_ints`: never panics; an accepted snapshot is inside the limits. -/
theorem snap_readFromInts_total (data : List Int) (hI : ∀ x ∈ data, I32 x) :
    (∀ p, Snap.readFromInts data ≠ .panic p) ∧
    (∀ s ws, Snap.readFromInts data = .ok (s, ws) → s.raw.WF) := by
  have h := readFromInts_total data hI
  unfold Snap.readFromInts
  cases hr : RawSnap.readFromInts data with
  | panic q => exact absurd hr (h.1 q)
  | err e => exact ⟨(by intro p h; cases h), (by intro s ws h; cases h)⟩
  | ok r =>
    obtain ⟨raw, ws⟩ := r
    dsimp only
    cases hb : buildFromRaw raw with
    | panic q => exact absurd hb (buildFromRaw_not_panic raw q)
    | err e => exact ⟨(by intro p h; cases h), (by intro s ws h; cases h)⟩
    | ok r2 =>
      obtain ⟨s, ws2⟩ := r2
      refine ⟨(by intro p h; cases h), ?_⟩
      intro s' ws' h'
      injection h' with h'
      injection h' with e1 e2
      subst e1
      rw [buildFromRaw_raw hb]
      exact h.2 raw ws hr

/-- `Snap::read` (bytes): the same. -/
theorem snap_readBytes_total (bs : List UInt8) :
    (∀ p, Snap.readBytes bs ≠ .panic p) ∧ (∀ s ws, Snap.readBytes bs = .ok (s, ws) → s.raw.WF) := by
  have h := readBytes_total bs
  unfold Snap.readBytes
  cases hr : RawSnap.readBytes bs with
  | panic q => exact absurd hr (h.1 q)
  | err e => exact ⟨(by intro p h; cases h), (by intro s ws h; cases h)⟩
  | ok r =>
    obtain ⟨raw, ws⟩ := r
    dsimp only
    cases hb : buildFromRaw raw with
    | panic q => exact absurd hb (buildFromRaw_not_panic raw q)
    | err e => exact ⟨(by intro p h; cases h), (by intro s ws h; cases h)⟩
    | ok r2 =>
      obtain ⟨s, ws2⟩ := r2
      refine ⟨(by intro p h; cases h), ?_⟩
      intro s' ws' h'
      injection h' with h'
      injection h' with e1 e2
      subst e1
      rw [buildFromRaw_raw hb]
      exact h.2 raw ws hr

/-- `Snap::read_with_delta` never panics for a snapshot with distinct keys and any delta. -/
theorem snap_readWithDelta_not_panic {a : Snap} (ha : Sorted a.raw.items) (d : Delta) :
    ∀ p, a.readWithDelta d ≠ .panic p := by
  intro p
  unfold Snap.readWithDelta
  cases hr : applyDelta a.raw d with
  | panic q => exact absurd hr (applyDelta_not_panic ha d q)
  | err e => intro h; cases h
  | ok r =>
    obtain ⟨raw, ws⟩ := r
    dsimp only
    cases hb : buildFromRaw raw with
    | panic q => exact absurd hb (buildFromRaw_not_panic raw q)
    | err e => intro h; cases h
    | ok r2 => intro h; cases h

/-- sorted unique `i32` keys, `i32` data, inside the item and size limits -/
def ItemsWF (m : Items) : Prop :=
  Sorted m ∧ (∀ p ∈ m, I32 p.1 ∧ ∀ v ∈ p.2, I32 v) ∧ Limits m

theorem minsert_replace_measure {k : Int} {v old : List Int} {m : Items} (hs : Sorted m)
    (h : mfind k m = some old) (hl : v.length = old.length) :
    (minsert k v m).length = m.length ∧ dataLen (minsert k v m) = dataLen m := by
  induction m with
  | nil => simp [mfind] at h
  | cons q r ih =>
    obtain ⟨k2, v2⟩ := q
    rw [sorted_cons] at hs
    by_cases hk : k = k2
    · subst hk
      simp only [mfind, if_true] at h
      injection h with h
      subst h
      have : ¬ k < k := by omega
      simp [minsert, dataLen_cons, hl]
    · simp only [mfind, hk, if_false] at h
      have hlt := hs.1 _ (mem_of_mfind h)
      have h1 : ¬ k < k2 := by simp at hlt; omega
      simp only [minsert, h1, hk, if_false]
      have := ih hs.2 h
      simp [dataLen_cons, this.1, this.2]

theorem itemsWF_insert_vacant {m : Items} {k : Int} {v : List Int} (hm : ItemsWF m) (hk : I32 k)
    (hv : ∀ x ∈ v, I32 x) (hf : mfind k m = none) (hc : vacantCheck m v.length = none) :
    ItemsWF (minsert k v m) := by
  obtain ⟨hS, hI, hN, hZ⟩ := hm
  unfold vacantCheck at hc
  split at hc
  · simp at hc
  · split at hc
    · simp at hc
    · refine ⟨sorted_minsert hS, ?_, ?_, ?_⟩
      · intro p hp
        rcases mem_minsert hp with rfl | hp
        · exact ⟨hk, hv⟩
        · exact hI p hp
      · rw [length_minsert_of_none hf]; omega
      · rw [length_minsert_of_none hf, dataLen_minsert_of_none hf]; omega

theorem itemsWF_replace {m : Items} {k : Int} {v old : List Int} (hm : ItemsWF m) (hk : I32 k)
    (hv : ∀ x ∈ v, I32 x) (hf : mfind k m = some old) (hl : v.length = old.length) :
    ItemsWF (minsert k v m) := by
  obtain ⟨hS, hI, hN, hZ⟩ := hm
  obtain ⟨e1, e2⟩ := minsert_replace_measure hS hf hl
  refine ⟨sorted_minsert hS, ?_, ?_, ?_⟩
  · intro p hp
    rcases mem_minsert hp with rfl | hp
    · exact ⟨hk, hv⟩
    · exact hI p hp
  · rw [e1]; exact hN
  · rw [e1, e2]; exact hZ

theorem copyUndeleted_WF (deleted : List Int) : ∀ (r out : Items) (n : Nat) (out' : Items) (n' : Nat),
    (∀ p ∈ r, I32 p.1 ∧ ∀ v ∈ p.2, I32 v) → ItemsWF out →
    copyUndeleted deleted r out n = .ok (out', n') → ItemsWF out' := by
  intro r
  induction r with
  | nil => intro out n out' n' _ ho h; simp [copyUndeleted] at h; rw [← h.1]; exact ho
  | cons q r ih =>
    obtain ⟨k, d⟩ := q
    intro out n out' n' hI ho h
    have hIk := hI (k, d) (by simp)
    have hIr : ∀ p ∈ r, I32 p.1 ∧ ∀ v ∈ p.2, I32 v := fun p hp => hI p (by simp [hp])
    simp only [copyUndeleted] at h
    split at h
    · exact ih out (n + 1) out' n' hIr ho h
    · cases hf : mfind k out with
      | some old =>
        simp only [hf] at h
        split at h
        · cases h
        · rename_i hl
          simp at hl
          exact ih _ n out' n' hIr (itemsWF_replace ho hIk.1 hIk.2 hf hl.symm) h
      | none =>
        simp only [hf] at h
        cases hc : vacantCheck out d.length with
        | some e => simp [hc] at h
        | none =>
          simp only [hc] at h
          exact ih _ n out' n' hIr (itemsWF_insert_vacant ho hIk.1 hIk.2 hf hc) h

theorem applyItemDelta_I32 {in_ : Option (List Int)} {diff v : List Int} (h : applyItemDelta in_ diff = some v)
    (hd : ∀ x ∈ diff, I32 x) : (∀ x ∈ v, I32 x) ∧ v.length = diff.length := by
  cases in_ with
  | none => simp [applyItemDelta] at h; subst h; exact ⟨hd, rfl⟩
  | some i =>
    simp only [applyItemDelta] at h
    split at h
    · cases h
    · rename_i hl
      simp at hl h
      subst h
      refine ⟨?_, by simp [hl]⟩
      intro x hx
      clear hl hd
      induction i generalizing diff with
      | nil => simp at hx
      | cons a i ih =>
        cases diff with
        | nil => simp at hx
        | cons b diff =>
          simp at hx
          rcases hx with rfl | hx
          · exact wrap_I32 _
          · exact ih hx

theorem applyUpdates_WF (from_ : Items) : ∀ (upd out out' : Items),
    (∀ p ∈ upd, I32 p.1 ∧ ∀ v ∈ p.2, I32 v) → ItemsWF out →
    applyUpdates from_ upd out = .ok out' → ItemsWF out' := by
  intro upd
  induction upd with
  | nil => intro out out' _ ho h; simp [applyUpdates] at h; rw [← h]; exact ho
  | cons q r ih =>
    obtain ⟨k, diff⟩ := q
    intro out out' hI ho h
    have hIk := hI (k, diff) (by simp)
    have hIr : ∀ p ∈ r, I32 p.1 ∧ ∀ v ∈ p.2, I32 v := fun p hp => hI p (by simp [hp])
    simp only [applyUpdates] at h
    cases hf : mfind k out with
    | some old =>
      simp only [hf] at h
      split at h
      · cases h
      · rename_i hl
        simp at hl
        cases ha : applyItemDelta (mfind k from_) diff with
        | none => simp [ha] at h
        | some v =>
          simp only [ha] at h
          obtain ⟨hv, hvl⟩ := applyItemDelta_I32 ha hIk.2
          exact ih _ out' hIr (itemsWF_replace ho hIk.1 hv hf (by omega)) h
    | none =>
      simp only [hf] at h
      cases hc : vacantCheck out diff.length with
      | some e => simp [hc] at h
      | none =>
        simp only [hc] at h
        cases ha : applyItemDelta (mfind k from_) diff with
        | none => simp [ha] at h
        | some v =>
          simp only [ha] at h
          obtain ⟨hv, hvl⟩ := applyItemDelta_I32 ha hIk.2
          rw [← hvl] at hc
          exact ih _ out' hIr (itemsWF_insert_vacant ho hIk.1 hv hf hc) h

/-- whatever `read_with_delta` accepts is again a well-formed snapshot inside the limits -/
theorem applyDelta_WF {a s : RawSnap} {d : Delta} {ws : List Warning} (ha : a.WF)
    (hd : ∀ p ∈ d.updated, I32 p.1 ∧ ∀ v ∈ p.2, I32 v) (h : applyDelta a d = .ok (s, ws)) : s.WF := by
  unfold applyDelta at h
  cases hc : copyUndeleted d.deleted a.items [] 0 with
  | panic q => simp [hc] at h
  | err e => simp [hc] at h
  | ok r =>
    obtain ⟨out, n⟩ := r
    simp only [hc] at h
    cases hu : applyUpdates a.items d.updated out with
    | panic q => simp [hu] at h
    | err e => simp [hu] at h
    | ok out' =>
      simp [hu] at h
      have h0 : ItemsWF [] := by
        refine ⟨sorted_nil, by simp, ?_⟩
        unfold Limits; decide
      have h1 := copyUndeleted_WF d.deleted a.items [] 0 out n ha.2.1 h0 hc
      have h2 := applyUpdates_WF a.items d.updated out out' hd h1 hu
      rw [← h.1]
      exact ⟨h2.1, h2.2.1, h2.2.2.1, h2.2.2.2⟩

/-- every integer the source can still yield is an `i32` (automatic for bytes) -/
def Src.AllI32 : Src → Prop
  | .ints l => ∀ x ∈ l, I32 x
  | .bytes _ => True

theorem Src.readInt_I32 {src src' : Src} {v : Int} {w : List Warning} (hs : src.AllI32)
    (h : src.readInt = some (v, src', w)) : I32 v ∧ src'.AllI32 := by
  cases src with
  | ints l =>
    cases l with
    | nil => simp [Src.readInt] at h
    | cons x r =>
      simp [Src.readInt] at h
      rw [← h.1, ← h.2.1]
      exact ⟨hs x (by simp), fun y hy => hs y (by simp [hy])⟩
  | bytes b =>
    simp only [Src.readInt] at h
    cases hr : Tw.Packer.readInt b with
    | none => simp [hr] at h
    | some t =>
      obtain ⟨v', rest, ws⟩ := t
      simp [hr] at h
      rw [← h.1, ← h.2.1]
      exact ⟨(readInt_rest_lt hr).2, trivial⟩

theorem readData_I32 : ∀ (n : Nat) (src : Src) (vs : List Int) (src' : Src) (w : List Warning), src.AllI32 →
    readData n src = some (vs, src', w) → (∀ x ∈ vs, I32 x) ∧ src'.AllI32 := by
  intro n
  induction n with
  | zero =>
    intro src vs src' w hs h
    simp [readData] at h
    obtain ⟨e1, e2, _⟩ := h
    subst e1 e2
    exact ⟨by simp, hs⟩
  | succ n ih =>
    intro src vs src' w hs h
    simp only [readData] at h
    cases h1 : src.readInt with
    | none => simp [h1] at h
    | some t =>
      obtain ⟨v, s1, w1⟩ := t
      simp only [h1] at h
      obtain ⟨hv, hs1⟩ := Src.readInt_I32 hs h1
      cases h2 : readData n s1 with
      | none => simp [h2] at h
      | some t2 =>
        obtain ⟨vs2, s2, w2⟩ := t2
        simp [h2] at h
        obtain ⟨hvs, hs2⟩ := ih s1 vs2 s2 w2 hs1 h2
        rw [← h.1, ← h.2.1]
        refine ⟨?_, hs2⟩
        intro x hx
        simp at hx
        rcases hx with rfl | hx
        · exact hv
        · exact hvs x hx

theorem readKeys_AllI32 : ∀ (n : Nat) (src : Src) (acc : List Int) (ws : List Warning) (ks : List Int)
    (src' : Src) (ws' : List Warning), src.AllI32 → readKeys n src acc ws = some (ks, src', ws') → src'.AllI32 := by
  intro n
  induction n with
  | zero => intro src acc ws ks src' ws' hs h; simp [readKeys] at h; rw [← h.2.1]; exact hs
  | succ n ih =>
    intro src acc ws ks src' ws' hs h
    simp only [readKeys] at h
    cases h1 : src.readInt with
    | none => simp [h1] at h
    | some t =>
      obtain ⟨v, s1, w1⟩ := t
      simp only [h1] at h
      exact ih s1 _ _ ks src' ws' (Src.readInt_I32 hs h1).2 h

def UpdI32 (m : Items) : Prop := Sorted m ∧ ∀ p ∈ m, I32 p.1 ∧ ∀ v ∈ p.2, I32 v

theorem updI32_minsert {m : Items} {k : Int} {v : List Int} (hm : UpdI32 m) (hk : I32 k) (hv : ∀ x ∈ v, I32 x) :
    UpdI32 (minsert k v m) := by
  refine ⟨sorted_minsert hm.1, ?_⟩
  intro p hp
  rcases mem_minsert hp with rfl | hp
  · exact ⟨hk, hv⟩
  · exact hm.2 p hp

theorem readUpdates_I32 (objSize : Nat → Option Nat) (deleted : List Int) :
    ∀ (fuel : Nat) (src : Src) (upd : Items) (bl num : Nat) (ws : List Warning) (upd' : Items) (num' : Nat)
      (ws' : List Warning), src.AllI32 → UpdI32 upd →
      readUpdates objSize deleted fuel src upd bl num ws = .ok (upd', num', ws') → UpdI32 upd' := by
  intro fuel
  induction fuel with
  | zero =>
    intro src upd bl num ws upd' num' ws' _ hu h
    simp only [readUpdates] at h
    split at h
    · simp at h; rw [← h.1]; exact hu
    · cases h
  | succ f ih =>
    intro src upd bl num ws upd' num' ws' hs hu h
    rw [readUpdates] at h
    split at h
    · simp at h; rw [← h.1]; exact hu
    · cases h1 : src.readInt with
      | none => simp [h1] at h
      | some t1 =>
        obtain ⟨t, s1, w1⟩ := t1
        simp only [h1] at h
        obtain ⟨_, hs1⟩ := Src.readInt_I32 hs h1
        cases h2 : s1.readInt with
        | none => simp [h2] at h
        | some t2 =>
          obtain ⟨id, s2, w2⟩ := t2
          simp only [h2] at h
          obtain ⟨_, hs2⟩ := Src.readInt_I32 hs1 h2
          split at h
          · cases h
          · split at h
            · cases h
            · cases ho : objSize t.toNat with
              | some sz =>
                simp only [ho] at h
                split at h
                · cases h
                · split at h
                  · cases h
                  · cases h4 : readData sz s2 with
                    | none => simp [h4] at h
                    | some t4 =>
                      obtain ⟨data, s4, w4⟩ := t4
                      simp only [h4] at h
                      obtain ⟨hd, hs4⟩ := readData_I32 _ _ _ _ _ hs2 h4
                      exact ih s4 _ _ _ _ upd' num' ws' hs4 (updI32_minsert hu (keyOf_I32 _ _) hd) h
              | none =>
                simp only [ho] at h
                cases h3 : s2.readInt with
                | none => simp [h3] at h
                | some t3 =>
                  obtain ⟨sz, s3, w3⟩ := t3
                  simp only [h3] at h
                  obtain ⟨_, hs3⟩ := Src.readInt_I32 hs2 h3
                  by_cases hneg : sz < 0
                  · simp only [hneg, if_true] at h; cases h
                  · simp only [hneg, if_false] at h
                    split at h
                    · cases h
                    · split at h
                      · cases h
                      · cases h4 : readData sz.toNat s3 with
                        | none => simp [h4] at h
                        | some t4 =>
                          obtain ⟨data, s4, w4⟩ := t4
                          simp only [h4] at h
                          obtain ⟨hd, hs4⟩ := readData_I32 _ _ _ _ _ hs3 h4
                          exact ih s4 _ _ _ _ upd' num' ws' hs4 (updI32_minsert hu (keyOf_I32 _ _) hd) h

/-- an accepted delta has a sorted update map of `i32` keys and data -/
theorem readDelta_I32 (objSize : Nat → Option Nat) {src : Src} {d : Delta} {ws : List Warning}
    (hs : src.AllI32) (h : readDelta objSize src = .ok (d, ws)) : UpdI32 d.updated := by
  unfold readDelta at h
  cases h1 : src.readInt with
  | none => simp [h1] at h
  | some t1 =>
    obtain ⟨nd, s1, w1⟩ := t1
    simp only [h1] at h
    obtain ⟨_, hs1⟩ := Src.readInt_I32 hs h1
    split at h
    · cases h
    · cases h2 : s1.readInt with
      | none => simp [h2] at h
      | some t2 =>
        obtain ⟨nu, s2, w2⟩ := t2
        simp only [h2] at h
        obtain ⟨_, hs2⟩ := Src.readInt_I32 hs1 h2
        split at h
        · cases h
        · cases h3 : s2.readInt with
          | none => simp [h3] at h
          | some t3 =>
            obtain ⟨z, s3, w3⟩ := t3
            simp only [h3] at h
            obtain ⟨_, hs3⟩ := Src.readInt_I32 hs2 h3
            cases h4 : readKeys nd.toNat s3 [] [] with
            | none => simp [h4] at h
            | some t4 =>
              obtain ⟨deleted, s4, w4⟩ := t4
              simp only [h4] at h
              have hs4 := readKeys_AllI32 _ _ _ _ _ _ _ hs3 h4
              cases h5 : readUpdates objSize deleted s4.size s4 [] 0 0 [] with
              | panic q => simp [h5] at h
              | err e => simp [h5] at h
              | ok r =>
                obtain ⟨upd, num, w5⟩ := r
                simp [h5] at h
                rw [← h.1]
                exact readUpdates_I32 objSize deleted _ _ _ _ _ _ upd num w5 hs4 ⟨sorted_nil, by simp⟩ h5

end Tw.Snap
