import Tw.Model.NetC01
import Tw.Proofs.NetC01Canon
import Tw.Proofs.NetLazy

/-! The coupling between the endpoint and the ghost world of `Model/NetC01.lean`. -/
namespace Tw.NetC01
open Tw.Conn Tw.Net Tw.NetSim Tw.Time
open Tw.Conn6 (Env Packet)

/-! ### small facts -/

theorem vitalOfNet_cons (a pid : Nat) (e : Event) (r : List (Nat × NEvent)) :
    vitalOfNet ((a, mapEvent a pid e) :: r) = NetSim.vitalPayloads [e] ++ vitalOfNet r := by
  cases e with
  | chunk d v => cases v <;> rfl
  | connless d => rfl
  | ready => rfl
  | disconnect x => rfl

theorem vp_cons (e : Event) (es : List Event) :
    NetSim.vitalPayloads (e :: es) = NetSim.vitalPayloads [e] ++ NetSim.vitalPayloads es := by
  cases e with
  | chunk d v => cases v <;> rfl
  | connless d => rfl
  | ready => rfl
  | disconnect x => rfl

theorem vp_append (a b : List Event) :
    NetSim.vitalPayloads (a ++ b) = NetSim.vitalPayloads a ++ NetSim.vitalPayloads b := by
  induction a with
  | nil => rfl
  | cons e es ih => rw [List.cons_append, vp_cons, ih, vp_cons e es, List.append_assoc]

theorem vitalOfNet_lift (a pid : Nat) (evs : List Event) :
    vitalOfNet (evs.map fun e => (a, mapEvent a pid e)) = NetSim.vitalPayloads evs := by
  induction evs with
  | nil => rfl
  | cons e es ih => rw [List.map_cons, vitalOfNet_cons, ih, ← vp_cons]

theorem lift_vital (a pid : Nat) (o : Conn6.Out) : vitalOfNet (liftOut a pid o).events = NetSim.vitalPayloads o.events :=
  vitalOfNet_lift a pid o.events

theorem lift_sent (a pid : Nat) (o : Conn6.Out) : (liftOut a pid o).sent.map (·.2) = o.sent := by
  simp only [liftOut, List.map_map]
  induction o.sent with
  | nil => rfl
  | cons x xs ih => simp [ih]

/-- the invariant: ghost and reality agree -/
structure Coup {tl : Bool} (addr : Nat) (w : NW tl) : Prop where
  pinv : PInv w.net.peers
  conn : ∀ pid p, slot w.net.peers addr = some (pid, p) → p.conn = w.g.b.conn ∧ w.born = true
  fresh : w.born = false → slot w.net.peers addr = none ∧ w.g.b.conn = Conn6.Conn.new
  pend : ∀ pid p, slot w.net.peers addr = some (pid, p) → p.conn.state = .unconnected →
    ∃ i alt dg, w.req = some (i, alt) ∧ w.g.a.out[i]? = some dg ∧
      P6.wireRead tl dg.pkt alt none = some (connectPacket p.token)
  canon : ∀ dg ∈ w.g.a.out, Canon dg.pkt
  out : w.netOut = w.g.b.out.map (·.pkt)
  vital : w.netVital = w.g.b.deliveredVital
  sub : w.netSub = w.g.b.submitted

theorem coup_init (tl acc : Bool) (addr : Nat) : Coup addr (NW.init tl acc) where
  pinv := ⟨by simp [NW.init, Net.new, pids], by simp [NW.init, Net.new, addrs]⟩
  conn := by intro pid p h; simp [NW.init, Net.new, slot] at h
  fresh := by intro _; exact ⟨by simp [NW.init, Net.new, slot], rfl⟩
  pend := by intro pid p h; simp [NW.init, Net.new, slot] at h
  canon := by intro dg h; simp [NW.init, World.init] at h
  out := rfl
  vital := rfl
  sub := rfl

/-! ### the remote's own moves -/

theorem canon_call {now : Nat} {d : List Nat} {c : Conn6.Conn} {cl : Call} {r : Ret Conn6.Conn Packet}
    (h : P6.call now d c cl = .ok r) : ∀ p ∈ r.sent, Canon p := by
  cases cl with
  | connect =>
    simp only [P6.call] at h
    cases hc : Conn6.connect ⟨now, d⟩ c with
    | error e => simp [hc] at h
    | ok v => obtain ⟨c1, o⟩ := v; simp [hc] at h; rw [← h]; exact canon_connect hc
  | send x v =>
    simp only [P6.call] at h
    cases hc : Conn6.send ⟨now, d⟩ c x v with
    | error e => simp [hc] at h
    | ok w => obtain ⟨c1, r1, o⟩ := w; simp [hc] at h; rw [← h]; exact canon_send hc
  | sendConnless x =>
    simp only [P6.call] at h
    cases hc : Conn6.sendConnless ⟨now, d⟩ c x with
    | error e => simp [hc] at h
    | ok w => obtain ⟨c1, r1, o⟩ := w; simp [hc] at h; rw [← h]; exact canon_sendConnless hc
  | flush =>
    simp only [P6.call] at h
    cases hc : Conn6.flush ⟨now, d⟩ c with
    | error e => simp [hc] at h
    | ok v => obtain ⟨c1, o⟩ := v; simp [hc] at h; rw [← h]; exact canon_flush hc
  | tick =>
    simp only [P6.call] at h
    cases hc : Conn6.tick ⟨now, d⟩ c with
    | error e => simp [hc] at h
    | ok v => obtain ⟨c1, o⟩ := v; simp [hc] at h; rw [← h]; exact canon_tick hc
  | disconnect x =>
    simp only [P6.call] at h
    cases hc : Conn6.disconnect ⟨now, d⟩ c x with
    | error e => simp [hc] at h
    | ok v => obtain ⟨c1, o⟩ := v; simp [hc] at h; rw [← h]; exact canon_disconnect hc

theorem canon_recv {tl : Bool} {now : Nat} {d : List Nat} {c : Conn6.Conn} {p : Packet} {alt : P6.Alt}
    {r : Ret Conn6.Conn Packet} (h : P6.recv tl now d c p alt = .ok r) : ∀ q ∈ r.sent, Canon q := by
  simp only [P6.recv] at h
  cases hc : Conn6.feed ⟨now, d⟩ c (P6.wireRead tl p alt) with
  | error e => simp [hc] at h
  | ok v => obtain ⟨c1, o⟩ := v; simp [hc] at h; rw [← h]; exact canon_feed hc

end Tw.NetC01
