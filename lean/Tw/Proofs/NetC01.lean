import Tw.Model.NetC01
import Tw.Proofs.NetC01Canon
import Tw.Proofs.NetLazy

/-! The coupling between the endpoint and the ghost world of `Model/NetC01.lean`. -/
namespace Tw.NetC01
open Tw.Conn Tw.Net Tw.NetSim Tw.Time
open Tw.Conn6 (Env Packet)

/-! ### small facts -/

theorem cannedToken_eq' : cannedToken = Conn6.TOKEN_NONE := by decide


theorem vitalOfNet_cons (a pid : Nat) (e : Event) (r : List (Nat × NEvent)) :
    vitalOfNet ((a, mapEvent a pid e) :: r) = NetSim.vitalPayloads [e] ++ vitalOfNet r := by
  cases e with
  | chunk d v => cases v <;> rfl
  | connless d => rfl
  | ready => rfl
  | disconnect x => rfl

theorem vp_cons (e : Event) (es : List Event) :
    NetSim.vitalPayloads (e :: es) = NetSim.vitalPayloads [e] ++ NetSim.vitalPayloads es := by
  cases e with
  | chunk d v => cases v <;> rfl
  | connless d => rfl
  | ready => rfl
  | disconnect x => rfl

theorem vp_append (a b : List Event) :
    NetSim.vitalPayloads (a ++ b) = NetSim.vitalPayloads a ++ NetSim.vitalPayloads b := by
  induction a with
  | nil => rfl
  | cons e es ih => rw [List.cons_append, vp_cons, ih, vp_cons e es, List.append_assoc]

theorem vitalOfNet_lift (a pid : Nat) (evs : List Event) :
    vitalOfNet (evs.map fun e => (a, mapEvent a pid e)) = NetSim.vitalPayloads evs := by
  induction evs with
  | nil => rfl
  | cons e es ih => rw [List.map_cons, vitalOfNet_cons, ih, ← vp_cons]

theorem lift_vital (a pid : Nat) (o : Conn6.Out) : vitalOfNet (liftOut a pid o).events = NetSim.vitalPayloads o.events :=
  vitalOfNet_lift a pid o.events

theorem map_pkt_stamp {P : Type} (n dd : Nat) (l : List P) :
    List.map (fun x : Sent P => x.pkt) (List.map (fun p => ({ pkt := p, nStamp := n, dStamp := dd } : Sent P)) l) = l := by
  induction l with
  | nil => rfl
  | cons x xs ih => simp [ih]

theorem lift_sent (a pid : Nat) (o : Conn6.Out) : (liftOut a pid o).sent.map (·.2) = o.sent := by
  simp only [liftOut, List.map_map]
  induction o.sent with
  | nil => rfl
  | cons x xs ih => simp [ih]

/-- the invariant: ghost and reality agree -/
structure Coup {tl : Bool} (addr : Nat) (w : NW tl) : Prop where
  pinv : PInv w.net.peers
  conn : ∀ pid p, slot w.net.peers addr = some (pid, p) → p.conn = w.g.b.conn ∧ w.born = true
  fresh : w.born = false → slot w.net.peers addr = none ∧ w.g.b.conn = Conn6.Conn.new
  pend : ∀ pid p, slot w.net.peers addr = some (pid, p) → p.conn.state = .unconnected →
    ∃ i alt dg, w.req = some (i, alt) ∧ w.g.a.out[i]? = some dg ∧
      P6.wireRead tl dg.pkt alt none = some (connectPacket p.token)
  canon : ∀ dg ∈ w.g.a.out, Canon dg.pkt
  out : w.netOut = w.g.b.out.map (·.pkt)
  vital : w.netVital = w.g.b.deliveredVital
  sub : w.netSub = w.g.b.submitted

theorem coup_init (tl acc : Bool) (addr : Nat) : Coup addr (NW.init tl acc) where
  pinv := ⟨by simp [NW.init, Net.new, pids], by simp [NW.init, Net.new, addrs]⟩
  conn := by intro pid p h; simp [NW.init, Net.new, slot] at h
  fresh := by intro _; exact ⟨by simp [NW.init, Net.new, slot], rfl⟩
  pend := by intro pid p h; simp [NW.init, Net.new, slot] at h
  canon := by intro dg h; simp [NW.init, World.init] at h
  out := rfl
  vital := rfl
  sub := rfl

/-! ### the remote's own moves -/

theorem canon_call {now : Nat} {d : List Nat} {c : Conn6.Conn} {cl : Call} {r : Ret Conn6.Conn Packet}
    (h : P6.call now d c cl = .ok r) : ∀ p ∈ r.sent, Canon p := by
  cases cl with
  | connect =>
    simp only [P6.call] at h
    cases hc : Conn6.connect ⟨now, d⟩ c with
    | error e => simp [hc] at h
    | ok v => obtain ⟨c1, o⟩ := v; simp [hc] at h; rw [← h]; exact canon_connect hc
  | send x v =>
    simp only [P6.call] at h
    cases hc : Conn6.send ⟨now, d⟩ c x v with
    | error e => simp [hc] at h
    | ok w => obtain ⟨c1, r1, o⟩ := w; simp [hc] at h; rw [← h]; exact canon_send hc
  | sendConnless x =>
    simp only [P6.call] at h
    cases hc : Conn6.sendConnless ⟨now, d⟩ c x with
    | error e => simp [hc] at h
    | ok w => obtain ⟨c1, r1, o⟩ := w; simp [hc] at h; rw [← h]; exact canon_sendConnless hc
  | flush =>
    simp only [P6.call] at h
    cases hc : Conn6.flush ⟨now, d⟩ c with
    | error e => simp [hc] at h
    | ok v => obtain ⟨c1, o⟩ := v; simp [hc] at h; rw [← h]; exact canon_flush hc
  | tick =>
    simp only [P6.call] at h
    cases hc : Conn6.tick ⟨now, d⟩ c with
    | error e => simp [hc] at h
    | ok v => obtain ⟨c1, o⟩ := v; simp [hc] at h; rw [← h]; exact canon_tick hc
  | disconnect x =>
    simp only [P6.call] at h
    cases hc : Conn6.disconnect ⟨now, d⟩ c x with
    | error e => simp [hc] at h
    | ok v => obtain ⟨c1, o⟩ := v; simp [hc] at h; rw [← h]; exact canon_disconnect hc

theorem canon_recv {tl : Bool} {now : Nat} {d : List Nat} {c : Conn6.Conn} {p : Packet} {alt : P6.Alt}
    {r : Ret Conn6.Conn Packet} (h : P6.recv tl now d c p alt = .ok r) : ∀ q ∈ r.sent, Canon q := by
  simp only [P6.recv] at h
  cases hc : Conn6.feed ⟨now, d⟩ c (P6.wireRead tl p alt) with
  | error e => simp [hc] at h
  | ok v => obtain ⟨c1, o⟩ := v; simp [hc] at h; rw [← h]; exact canon_feed hc

/-! ### anatomy of a step -/

theorem nwStep_some {tl : Bool} {addr : Nat} {w w' : NW tl} {m : NMove} (h : nwStep addr w m = some w') :
    ∃ net1 r o g1, realStep tl addr w m = some (net1, r, o) ∧
      (created addr w net1 && w.born) = false ∧ ghostStep tl addr w m = some g1 ∧
      w' = { net := net1, g := g1, born := w.born || created addr w net1
             req := if created addr w net1 then reqOf m else w.req
             netOut := w.netOut ++ (o.for addr).sent.map (·.2)
             netVital := w.netVital ++ vitalOfNet (o.for addr).events
             netSub := w.netSub ++ subOf addr w.net r m } := by
  unfold nwStep at h
  cases hr : realStep tl addr w m with
  | none => simp [hr] at h
  | some v =>
    obtain ⟨net1, r, o⟩ := v
    simp only [hr] at h
    cases hc : (created addr w net1 && w.born) with
    | true => simp [hc] at h
    | false =>
      simp only [hc, Bool.false_eq_true, if_false] at h
      cases hg : ghostStep tl addr w m with
      | none => simp [hg] at h
      | some g1 =>
        simp only [hg, Option.some.injEq] at h
        exact ⟨net1, r, o, g1, rfl, hc, rfl, h.symm⟩

/-- a ghost move of the remote's side leaves `b` and the clock's reading of `b` alone, keeps the
remote's history as a prefix and keeps it canonical -/
theorem ghost_a_step {tl : Bool} {g g1 : World (proto6 tl)} {gm : Move (proto6 tl)}
    (hgm : (∃ d c, gm = .call .a d c) ∨ (∃ i d alt, gm = .deliver .a i d alt) ∨ ∃ dt, gm = .advance dt)
    (hc : ∀ dg ∈ g.a.out, Canon dg.pkt) (h : NetSim.step g gm = some g1) :
    g1.b = g.b ∧ (∀ (i : Nat) dg, g.a.out[i]? = some dg → g1.a.out[i]? = some dg) ∧ ∀ dg ∈ g1.a.out, Canon dg.pkt := by
  rcases hgm with ⟨d, c, rfl⟩ | ⟨i, d, alt, rfl⟩ | ⟨dt, rfl⟩
  · simp only [NetSim.step, World.get] at h
    cases hcall : (proto6 tl).call g.now d g.a.conn c with
    | error e => simp [hcall] at h
    | ok r =>
      simp only [hcall, Option.some.injEq] at h
      subst h
      refine ⟨rfl, ?_, ?_⟩
      · intro i dg hi
        simp only [World.set, End.book]
        rw [List.getElem?_append_left (by
          have := List.getElem?_eq_some_iff.1 hi; exact this.1)]
        exact hi
      · intro dg hdg
        simp only [World.set, End.book, List.mem_append, List.mem_map] at hdg
        rcases hdg with hdg | ⟨p, hp, rfl⟩
        · exact hc dg hdg
        · exact canon_call hcall p hp
  · simp only [NetSim.step, World.get, Side.other] at h
    cases hdg : g.b.out[i]? with
    | none => simp [hdg] at h
    | some dg0 =>
      simp only [hdg] at h
      cases hrecv : (proto6 tl).recv g.now d g.a.conn dg0.pkt alt with
      | error e => simp [hrecv] at h
      | ok r =>
        simp only [hrecv, Option.some.injEq] at h
        subst h
        refine ⟨rfl, ?_, ?_⟩
        · intro j dg hj
          simp only [World.set, End.book]
          rw [List.getElem?_append_left (by
            have := List.getElem?_eq_some_iff.1 hj; exact this.1)]
          exact hj
        · intro dg hdg'
          simp only [World.set, End.book, List.mem_append, List.mem_map] at hdg'
          rcases hdg' with hdg' | ⟨p, hp, rfl⟩
          · exact hc dg hdg'
          · exact canon_recv hrecv p hp
  · simp only [NetSim.step, Option.some.injEq] at h
    subst h
    exact ⟨rfl, fun _ _ h => h, hc⟩

theorem created_same {tl : Bool} (addr : Nat) (w : NW tl) : created addr w w.net = false := by
  unfold created; cases slot w.net.peers addr <;> rfl

theorem empty_for' (a : Nat) : (({} : Out).for a) = {} := by simp [Out.for]

/-- the state after a move that only concerns the remote -/
theorem coup_remote_core {tl : Bool} {addr : Nat} {w : NW tl} {g1 : World (proto6 tl)} (hc : Coup addr w)
    (hb : g1.b = w.g.b) (hidx : ∀ (i : Nat) dg, w.g.a.out[i]? = some dg → g1.a.out[i]? = some dg)
    (hcan : ∀ dg ∈ g1.a.out, Canon dg.pkt) :
    Coup addr { w with g := g1 } where
  pinv := hc.pinv
  conn := by intro pid p h; rw [hb]; exact hc.conn pid p h
  fresh := by intro h; rw [hb]; exact hc.fresh h
  pend := by
    intro pid p h hu
    obtain ⟨i, alt, dg, h1, h2, h3⟩ := hc.pend pid p h hu
    exact ⟨i, alt, dg, h1, hidx i dg h2, h3⟩
  canon := hcan
  out := by rw [hb]; exact hc.out
  vital := by rw [hb]; exact hc.vital
  sub := by rw [hb]; exact hc.sub

theorem coup_remote {tl : Bool} {addr : Nat} {w w' : NW tl} {m : NMove}
    (hm : (∃ d c, m = .remCall d c) ∨ (∃ i d alt, m = .toRemote i d alt) ∨ ∃ dt, m = .advance dt)
    (hc : Coup addr w) (h : nwStep addr w m = some w') : Coup addr w' := by
  obtain ⟨net1, r, o, g1, hr, _, hg, hw⟩ := nwStep_some h
  have hreal : net1 = w.net ∧ r = .unit ∧ o = {} := by
    rcases hm with ⟨d, c, rfl⟩ | ⟨i, d, alt, rfl⟩ | ⟨dt, rfl⟩ <;> simp [realStep] at hr <;>
      exact ⟨hr.1.symm, hr.2.1.symm, hr.2.2.symm⟩
  obtain ⟨h1, h2, h3⟩ := hreal
  subst h1 h2 h3
  have hsub : subOf addr w.net .unit m = [] := by
    rcases hm with ⟨d, c, rfl⟩ | ⟨i, d, alt, rfl⟩ | ⟨dt, rfl⟩ <;> rfl
  have hgm : ∃ gm, ghostMove tl addr w m = some gm ∧
      ((∃ d c, gm = .call .a d c) ∨ (∃ i d alt, gm = .deliver .a i d alt) ∨ ∃ dt, gm = .advance dt) := by
    rcases hm with ⟨d, c, rfl⟩ | ⟨i, d, alt, rfl⟩ | ⟨dt, rfl⟩
    · exact ⟨_, rfl, Or.inl ⟨d, c, rfl⟩⟩
    · exact ⟨_, rfl, Or.inr (Or.inl ⟨i, d, alt, rfl⟩)⟩
    · exact ⟨_, rfl, Or.inr (Or.inr ⟨dt, rfl⟩)⟩
  obtain ⟨gm, hgm1, hgm2⟩ := hgm
  simp only [ghostStep, hgm1] at hg
  obtain ⟨hb, hidx, hcan⟩ := ghost_a_step hgm2 hc.canon hg
  have := coup_remote_core hc hb hidx hcan
  rw [hw]
  simp only [created_same, Bool.or_false, Bool.false_eq_true, if_false, empty_for', hsub, List.append_nil]
  simpa [vitalOfNet] using this

/-! ### datagrams from the remote -/

theorem refStateless_shape {acc : Bool} {a : Nat} {s s' : Slot} {pending : Bool}
    {rd : Option Bool → Option Packet} {fresh : Option Nat} {r : Ret} {o : Out}
    (h : refStateless acc a s pending rd fresh = .ok (s', r, o)) :
    o.sent = [] ∧ vitalOfNet o.events = [] ∧
      (s' = s ∨ (pending = false ∧ ∃ ack tok pid, rd none = some (.control ack tok .connect) ∧
        s' = some (pid, Peer.new a tok.isSome))) := by
  unfold refStateless at h
  split at h
  · simp only [Except.ok.injEq, Prod.mk.injEq] at h
    rw [← h.2.2, ← h.1]; exact ⟨rfl, rfl, Or.inl rfl⟩
  · simp only [Except.ok.injEq, Prod.mk.injEq] at h
    rw [← h.2.2, ← h.1]; exact ⟨rfl, rfl, Or.inl rfl⟩
  · rename_i ack tok hrd
    split at h
    · simp only [Except.ok.injEq, Prod.mk.injEq] at h
      rw [← h.2.2, ← h.1]; exact ⟨rfl, rfl, Or.inl rfl⟩
    · rename_i hp
      split at h
      · split at h
        · simp at h
        · rename_i pid
          simp only [Except.ok.injEq, Prod.mk.injEq] at h
          rw [← h.2.2, ← h.1]
          exact ⟨rfl, rfl, Or.inr ⟨by simpa using hp, ack, tok, pid, hrd, rfl⟩⟩
      · simp only [Except.ok.injEq, Prod.mk.injEq] at h
        rw [← h.2.2, ← h.1]; exact ⟨rfl, rfl, Or.inl rfl⟩
  · simp only [Except.ok.injEq, Prod.mk.injEq] at h
    rw [← h.2.2, ← h.1]; exact ⟨rfl, rfl, Or.inl rfl⟩

theorem slotOnDisconnect_cases {x : Nat × Peer} {evs : List Event} {s1 : Slot}
    (h : slotOnDisconnect (some x) evs = .ok s1) : s1 = none ∨ s1 = some x := by
  induction evs with
  | nil => simp [slotOnDisconnect] at h; exact Or.inr h.symm
  | cons e es ih =>
    cases e with
    | disconnect r => simp only [slotOnDisconnect] at h; exact Or.inl (slotOnDisconnect_none_stays h)
    | connless d => simp only [slotOnDisconnect] at h; exact ih h
    | chunk d v => simp only [slotOnDisconnect] at h; exact ih h
    | ready => simp only [slotOnDisconnect] at h; exact ih h

/-- a datagram the reader takes for a connect request, written by a genuine connection, is the
canned packet `Net::accept` feeds -/
theorem wireRead_connect {tl : Bool} {p : Packet} {alt : P6.Alt} {ack : Nat} {tok : Option Nat}
    (h : P6.wireRead tl p alt none = some (.control ack tok .connect)) (hc : Canon p) :
    Packet.control ack tok .connect = connectPacket tok.isSome := by
  cases p with
  | connless d => cases tl <;> simp [P6.wireRead, P6.strip] at h
  | chunks a t rr n cs => cases tl <;> simp [P6.wireRead, P6.strip] at h
  | control a t c =>
    cases c with
    | close r =>
      cases tl <;> simp only [P6.wireRead, P6.strip, Bool.false_eq_true, if_false, if_true] at h <;>
        (split at h
         · simp at h
         · cases alt <;> simp at h)
    | connect =>
      have := hc a t rfl
      obtain ⟨ha, ht⟩ := this
      subst ha ht
      cases tl
      · simp [P6.wireRead] at h
        obtain ⟨h1, h2⟩ := h
        subst h1 h2
        simp [connectPacket, cannedToken_eq']
      · simp [P6.wireRead, P6.strip] at h
        obtain ⟨h1, h2⟩ := h
        subst h1 h2
        simp [connectPacket]
    | keepAlive => cases tl <;> simp [P6.wireRead, P6.strip] at h
    | connectAccept => cases tl <;> simp [P6.wireRead, P6.strip] at h
    | accept => cases tl <;> simp [P6.wireRead, P6.strip] at h

theorem created_none {tl : Bool} {addr : Nat} {w : NW tl} {net1 : Net}
    (h : slot net1.peers addr = none) : created addr w net1 = false := by
  simp [created, h]

theorem created_of_some {tl : Bool} {addr : Nat} {w : NW tl} {net1 : Net} {x : Nat × Peer}
    (h : slot w.net.peers addr = some x) : created addr w net1 = false := by
  simp [created, h]

theorem coup_toNet {tl : Bool} {addr : Nat} {w w' : NW tl} {i : Nat} {d : List Nat} {alt : P6.Alt}
    (hc : Coup addr w) (h : nwStep addr w (.toNet i d alt) = some w') : Coup addr w' := by
  obtain ⟨net1, r, o, g1, hr, hcb, hg, hw⟩ := nwStep_some h
  simp only [realStep] at hr
  cases hdg : w.g.a.out[i]? with
  | none => simp [hdg] at hr
  | some dg =>
    simp only [hdg] at hr
    cases hfeed : Net.feed ⟨w.g.now, d⟩ w.net addr (P6.wireRead tl dg.pkt alt) with
    | error e => simp [hfeed] at hr
    | ok v =>
      simp only [hfeed, Option.some.injEq] at hr
      subst hr
      obtain ⟨hi1, _, _, href⟩ := feed_sim hc.pinv hfeed
      have hsub : subOf addr w.net r (.toNet i d alt) = [] := rfl
      cases hs : slot w.net.peers addr with
      | none =>
        -- stateless: nothing for the ghost to do
        simp only [ghostStep, ghostMove, hs, Option.some.injEq] at hg
        subst hg
        simp only [refStep, hs] at href
        obtain ⟨hsent, hvit, hslot⟩ := refStateless_shape href
        rw [hw]
        rcases hslot with hsame | ⟨_, ack, tok, pid, hrd, hnew⟩
        · have hcr : created addr w net1 = false := created_none hsame
          simp only [hcr, Bool.or_false, Bool.false_eq_true, if_false, hsent, hvit, hsub, List.map_nil,
            List.append_nil]
          exact { pinv := hi1
                  conn := by intro pid p h'; rw [hsame] at h'; cases h'
                  fresh := fun hb => ⟨hsame, (hc.fresh hb).2⟩
                  pend := by intro pid p h'; rw [hsame] at h'; cases h'
                  canon := hc.canon, out := hc.out, vital := hc.vital, sub := hc.sub }
        · have hcr : created addr w net1 = true := by simp [created, hs, hnew]
          have hborn : w.born = false := by simpa [hcr] using hcb
          simp only [hcr, Bool.or_true, if_true, hsent, hvit, hsub, List.map_nil, List.append_nil, reqOf]
          exact { pinv := hi1
                  conn := by
                    intro pid' p h'
                    rw [hnew] at h'
                    simp only [Option.some.injEq, Prod.mk.injEq] at h'
                    rw [← h'.2]
                    exact ⟨(hc.fresh hborn).2.symm, rfl⟩
                  fresh := by intro hb; cases hb
                  pend := by
                    intro pid' p h' _
                    rw [hnew] at h'
                    simp only [Option.some.injEq, Prod.mk.injEq] at h'
                    rw [← h'.2]
                    refine ⟨i, alt, dg, rfl, hdg, ?_⟩
                    rw [hrd, wireRead_connect hrd (hc.canon dg (List.mem_of_getElem? hdg))]
                    rfl
                  canon := hc.canon, out := hc.out, vital := hc.vital, sub := hc.sub }
      | some x =>
        obtain ⟨pid, p⟩ := x
        have hcr : created addr w net1 = false := created_of_some hs
        obtain ⟨hpc, hborn⟩ := hc.conn pid p hs
        by_cases hu : p.conn.state = .unconnected
        · -- pending acceptance: the endpoint ignores it, so does the ghost
          simp only [ghostStep, ghostMove, hs, hu, if_true, Option.some.injEq] at hg
          subst hg
          simp only [refStep, hs, hu, if_true] at href
          obtain ⟨hsent, hvit, hslot⟩ := refStateless_shape href
          have hsame : slot net1.peers addr = some (pid, p) := by
            rcases hslot with hsame | ⟨hf, _⟩
            · exact hsame
            · cases hf
          rw [hw]
          simp only [hcr, Bool.or_false, Bool.false_eq_true, if_false, hsent, hvit, hsub, List.map_nil,
            List.append_nil]
          exact { pinv := hi1
                  conn := by intro pid' p' h'; rw [hsame] at h'; cases h'; exact ⟨hpc, hborn⟩
                  fresh := by intro hb; rw [hborn] at hb; cases hb
                  pend := by intro pid' p' h' hu'; rw [hsame] at h'; cases h'; exact hc.pend pid p hs hu
                  canon := hc.canon, out := hc.out, vital := hc.vital, sub := hc.sub }
        · -- a live connection: the ghost's `b` receives the same datagram
          simp only [refStep, hs, hu, if_false] at href
          cases hcf : Conn6.feed ⟨w.g.now, d⟩ p.conn (P6.wireRead tl dg.pkt alt) with
          | error e => simp [hcf] at href
          | ok cv =>
            obtain ⟨c, o'⟩ := cv
            simp only [hcf] at href
            cases hsd : slotOnDisconnect (some (pid, { p with conn := c })) o'.events with
            | error e => simp [hsd] at href
            | ok s1 =>
              simp only [hsd, Except.ok.injEq, Prod.mk.injEq] at href
              obtain ⟨hslot1, _, hofor⟩ := href
              simp only [ghostStep, ghostMove, hs, hu, if_false, NetSim.step, World.get, Side.other, hdg] at hg
              have hrecv : (proto6 tl).recv w.g.now d w.g.b.conn dg.pkt alt =
                  .ok { conn := c, sent := o'.sent, events := o'.events } := by
                show P6.recv tl w.g.now d w.g.b.conn dg.pkt alt = _
                simp only [P6.recv, ← hpc, hcf]
                rfl
              simp only [hrecv, Option.some.injEq] at hg
              subst hg
              rw [hw, ← hofor]
              simp only [hcr, Bool.or_false, Bool.false_eq_true, if_false, hsub, List.append_nil, lift_sent,
                lift_vital]
              have hnu := nu_feed hcf hu
              exact { pinv := hi1
                      conn := by
                        intro pid' p' h'
                        rw [← hslot1] at h'
                        rcases slotOnDisconnect_cases hsd with h0 | h0
                        · rw [h0] at h'; cases h'
                        · rw [h0] at h'; cases h'; exact ⟨rfl, hborn⟩
                      fresh := by intro hb; rw [hborn] at hb; cases hb
                      pend := by
                        intro pid' p' h' hu'
                        rw [← hslot1] at h'
                        rcases slotOnDisconnect_cases hsd with h0 | h0
                        · rw [h0] at h'; cases h'
                        · rw [h0] at h'; cases h'; exact absurd hu' hnu
                      canon := hc.canon
                      out := by
                        simp only [World.set, End.book, hc.out, List.map_append]
                        exact congrArg (List.map (fun x => x.pkt) w.g.b.out ++ ·)
                          (map_pkt_stamp (P := (proto6 tl).Packet) _ _ _).symm
                      vital := by
                        simp [World.set, End.book, End.deliveredVital, vp_append, hc.vital]
                      sub := by simp [World.set, End.book, hc.sub] }

/-! ### calls of the endpoint -/

/-- the state after a move in which the ghost's `b` did what the endpoint's peer did -/
theorem coup_b {tl : Bool} {addr : Nat} {w : NW tl} (hc : Coup addr w) {net1 : Net} (hi1 : PInv net1.peers)
    {r : NetSim.Ret Conn6.Conn Packet} {sub : List (Bytes × Bool)} {req' : Option (Nat × P6.Alt)}
    (hslot : ∀ pid p1, slot net1.peers addr = some (pid, p1) → p1.conn = r.conn ∧
      (p1.conn.state = .unconnected → req' = w.req ∧ ∃ p, slot w.net.peers addr = some (pid, p) ∧
        p.conn.state = .unconnected ∧ p1.token = p.token)) :
    Coup addr { net := net1, g := w.g.set .b (w.g.b.book (P := proto6 tl) r sub), born := true, req := req'
                netOut := w.netOut ++ r.sent
                netVital := w.netVital ++ NetSim.vitalPayloads r.events
                netSub := w.netSub ++ sub } where
  pinv := hi1
  conn := by intro pid p1 h; exact ⟨(hslot pid p1 h).1, rfl⟩
  fresh := by intro hb; cases hb
  pend := by
    intro pid p1 h hu
    obtain ⟨hreq, p, hp, hpu, htok⟩ := (hslot pid p1 h).2 hu
    obtain ⟨i, alt, dg, h1, h2, h3⟩ := hc.pend pid p hp hpu
    exact ⟨i, alt, dg, by rw [hreq]; exact h1, h2, by rw [htok]; exact h3⟩
  canon := hc.canon
  out := by
    simp only [World.set, End.book, hc.out, List.map_append]
    exact congrArg (List.map (fun x => x.pkt) w.g.b.out ++ ·)
      (map_pkt_stamp (P := (proto6 tl).Packet) _ _ _).symm
  vital := by simp [World.set, End.book, End.deliveredVital, vp_append, hc.vital]
  sub := by simp [World.set, End.book, hc.sub]

/-- the state after a move that does not touch `addr`'s slot and emits nothing for it -/
theorem coup_same {tl : Bool} {addr : Nat} {w : NW tl} (hc : Coup addr w) {net1 : Net} (hi1 : PInv net1.peers)
    (hslot : slot net1.peers addr = slot w.net.peers addr) : Coup addr { w with net := net1 } where
  pinv := hi1
  conn := by intro pid p h; rw [hslot] at h; exact hc.conn pid p h
  fresh := by intro hb; rw [hslot]; exact hc.fresh hb
  pend := by intro pid p h hu; rw [hslot] at h; exact hc.pend pid p h hu
  canon := hc.canon
  out := hc.out
  vital := hc.vital
  sub := hc.sub

theorem subOf_none {addr : Nat} {net : Net} {r : Net.Ret} {d : List Nat} {op : Op}
    (hp : projOp net addr op = none) : subOf addr net r (.net d op) = [] := by
  cases op <;> try rfl
  rename_i pid x v
  simp only [projOp] at hp
  by_cases ha : addrOf net pid = some addr
  · simp [ha] at hp
  · simp [subOf, ha]

theorem ghostMove_none {tl : Bool} {addr : Nat} {w : NW tl} {d : List Nat} {op : Op}
    (hp : projOp w.net addr op = none) : ghostMove tl addr w (.net d op) = none := by
  simp [ghostMove, hp]

/-- what a call submits -/
def callSub (accepted : Bool) : Call → List (Bytes × Bool)
  | .send x v => if accepted then [(x, v)] else []
  | _ => []

/-- the ghost's step for a call on `b` -/
theorem ghost_call_b {tl : Bool} (g : World (proto6 tl)) (d : List Nat) (c : Call)
    {r0 : NetSim.Ret Conn6.Conn Packet} (h : P6.call g.now d g.b.conn c = .ok r0) :
    NetSim.step g (.call .b d c) = some (g.set .b (g.b.book (P := proto6 tl) r0 (callSub r0.accepted c))) := by
  have h' : (proto6 tl).call g.now d g.b.conn c = .ok r0 := h
  cases c <;> simp only [NetSim.step, World.get, h', callSub]

/-- the peer the slot of `addr` holds is the peer a call on its id means -/
theorem slot_of_addrOf {net : Net} {addr pid : Nat} (hi : PInv net.peers) (h : addrOf net pid = some addr) :
    ∃ p, slot net.peers addr = some (pid, p) ∧ lookup net.peers pid = some p := by
  unfold addrOf at h
  cases hl : lookup net.peers pid with
  | none => simp [hl] at h
  | some p =>
    simp [hl] at h
    exact ⟨p, by rw [← h]; exact lookup_slot hi hl, rfl⟩

/-- the state after a call for which the ghost has nothing to do: nothing was emitted for `addr`, its
slot is as before or (its peer having existed) empty -/
theorem coup_quiet {tl : Bool} {addr : Nat} {w w' : NW tl} {m : NMove} {net1 : Net}
    {r : Net.Ret} {o : Out} {g1 : World (proto6 tl)} (hc : Coup addr w) (hi1 : PInv net1.peers)
    (hgm : ghostMove tl addr w m = none) (hsub : subOf addr w.net r m = [])
    (hslot : slot net1.peers addr = slot w.net.peers addr ∨ (slot net1.peers addr = none ∧ w.born = true))
    (hs : (o.for addr).sent = []) (hv : vitalOfNet (o.for addr).events = [])
    (hg : ghostStep tl addr w m = some g1)
    (hw : w' = { net := net1, g := g1, born := w.born || created addr w net1
                 req := if created addr w net1 then reqOf m else w.req
                 netOut := w.netOut ++ (o.for addr).sent.map (·.2)
                 netVital := w.netVital ++ vitalOfNet (o.for addr).events
                 netSub := w.netSub ++ subOf addr w.net r m }) : Coup addr w' := by
  simp only [ghostStep, hgm, Option.some.injEq] at hg
  subst hg
  have hcr : created addr w net1 = false := by
    unfold created
    rcases hslot with h1 | h1
    · rw [h1]; cases slot w.net.peers addr <;> rfl
    · rw [h1.1]; simp
  rw [hw]
  simp only [hcr, Bool.or_false, Bool.false_eq_true, if_false, hs, hv, hsub, List.map_nil, List.append_nil]
  rcases hslot with h1 | h1
  · exact coup_same hc hi1 h1
  · exact { pinv := hi1
            conn := by intro pid p h; rw [h1.1] at h; cases h
            fresh := by intro hb; rw [h1.2] at hb; cases hb
            pend := by intro pid p h; rw [h1.1] at h; cases h
            canon := hc.canon, out := hc.out, vital := hc.vital, sub := hc.sub }

theorem coup_finish {tl : Bool} {addr : Nat} {w w' : NW tl} {m : NMove} {net1 : Net} {r : Net.Ret} {o : Out}
    {g1 : World (proto6 tl)} {r0 : NetSim.Ret Conn6.Conn Packet} {sub : List (Bytes × Bool)}
    (hc : Coup addr w) (hi1 : PInv net1.peers)
    (hw : w' = { net := net1, g := g1, born := w.born || created addr w net1
                 req := if created addr w net1 then reqOf m else w.req
                 netOut := w.netOut ++ (o.for addr).sent.map (·.2)
                 netVital := w.netVital ++ vitalOfNet (o.for addr).events
                 netSub := w.netSub ++ subOf addr w.net r m })
    (hg1 : g1 = w.g.set .b (w.g.b.book (P := proto6 tl) r0 sub))
    (hs : (o.for addr).sent.map (·.2) = r0.sent)
    (hv : vitalOfNet (o.for addr).events = NetSim.vitalPayloads r0.events)
    (hsub : subOf addr w.net r m = sub)
    (hb : (w.born || created addr w net1) = true)
    (hslot : ∀ pid p1, slot net1.peers addr = some (pid, p1) → p1.conn = r0.conn ∧
      (p1.conn.state = .unconnected →
        (if created addr w net1 then reqOf m else w.req) = w.req ∧
          ∃ p, slot w.net.peers addr = some (pid, p) ∧ p.conn.state = .unconnected ∧ p1.token = p.token)) :
    Coup addr w' := by
  rw [hw, hg1, hs, hv, hsub, hb]
  exact coup_b hc hi1 hslot

theorem peerClose_ok {want : Bool} {env : Env} {reason : Bytes} {p : Peer} {o0 : Conn6.Out}
    (h : peerClose want env reason p = .ok o0) : ∃ c, Conn6.disconnect env p.conn reason = .ok (c, o0) := by
  unfold peerClose at h
  split at h
  · simp at h
  · cases hcd : Conn6.disconnect env p.conn reason with
    | error e => simp [hcd] at h
    | ok cv => obtain ⟨c, o'⟩ := cv; simp [hcd] at h; exact ⟨c, by rw [h]⟩

theorem hint_unconnected {c : Conn6.Conn} (h : c.state = .unconnected) : c.hint = none := by
  simp [Conn6.Conn.hint, Conn6.State.token?, h]

theorem map_snd_tag (addr : Nat) (l : List Packet) : (l.map (addr, ·)).map (·.2) = l := by
  induction l with
  | nil => rfl
  | cons x xs ih => simp [ih]

theorem coup_net {tl : Bool} {addr : Nat} {w w' : NW tl} {d : List Nat} {op : Op}
    (hc : Coup addr w) (hok : opOk w.net op = true) (h : nwStep addr w (.net d op) = some w') :
    Coup addr w' := by
  obtain ⟨net1, r, o, g1, hr, hcb, hg, hw⟩ := nwStep_some h
  simp only [realStep] at hr
  cases hal : allowed addr op with
  | false => simp [hal] at hr
  | true =>
    simp only [hal, if_true] at hr
    cases hstep : Net.step ⟨w.g.now, d⟩ w.net op with
    | error e => simp [hstep] at hr
    | ok v =>
      simp only [hstep, Option.some.injEq] at hr
      subst hr
      obtain ⟨hi1, _, hfor⟩ := step_sim hc.pinv hok hstep
      have hst := hfor addr
      unfold StepFor at hst
      cases hp : projOp w.net addr op with
      | none =>
        simp only [hp] at hst
        exact coup_quiet hc hi1 (ghostMove_none hp) (subOf_none hp) (Or.inl hst.1)
          (by rw [hst.2]) (by rw [hst.2]; rfl) hg hw
      | some lop =>
        simp only [hp] at hst
        cases op with
        | feed a rd =>
          simp only [projOp] at hp
          have : a ≠ addr := by simpa [allowed] using hal
          simp [this] at hp
        | sendConnless a x =>
          simp only [projOp] at hp
          have : a ≠ addr := by simpa [allowed] using hal
          simp [this] at hp
        | connect a =>
          simp only [projOp] at hp
          by_cases ha : a = addr
          · subst ha
            simp only [if_true, Option.some.injEq] at hp
            subst hp
            have hs : slot w.net.peers a = none := by simpa [opOk] using hok
            simp only [refStep, hs] at hst
            cases hf : freshPid w.net with
            | none => simp [hf] at hst
            | some pid =>
              simp only [hf] at hst
              cases hcn : Conn6.connect ⟨w.g.now, d⟩ Conn6.Conn.new with
              | error e => simp [hcn] at hst
              | ok cv =>
                obtain ⟨c, o'⟩ := cv
                simp only [hcn, Except.ok.injEq, Prod.mk.injEq] at hst
                obtain ⟨hslot1, _, hofor⟩ := hst
                have hcr : created a w net1 = true := by simp [created, hs, ← hslot1]
                have hborn : w.born = false := by simpa [hcr] using hcb
                have hgc : w.g.b.conn = Conn6.Conn.new := (hc.fresh hborn).2
                have hgm : ghostMove tl a w (.net d (.connect a)) = some (.call .b d .connect) := by
                  simp [ghostMove, projOp, hf]
                have hcall : P6.call w.g.now d w.g.b.conn .connect =
                    .ok { conn := c, sent := o'.sent, events := o'.events } := by
                  simp only [P6.call, hgc, hcn]
                simp only [ghostStep, hgm, ghost_call_b _ _ _ hcall, Option.some.injEq] at hg
                refine coup_finish hc hi1 hw hg.symm (by rw [← hofor]; exact lift_sent _ _ _)
                  (by rw [← hofor]; exact lift_vital _ _ _) rfl (by simp [hcr]) ?_
                intro pid' p1 h'
                rw [← hslot1] at h'
                cases h'
                exact ⟨rfl, fun hu => absurd hu (nu_connect hcn)⟩
          · simp [ha] at hp
        | accept pid =>
          simp only [projOp] at hp
          by_cases ha : addrOf w.net pid = some addr
          · simp only [ha, if_true, Option.some.injEq] at hp
            subst hp
            obtain ⟨p, hs, _⟩ := slot_of_addrOf hc.pinv ha
            obtain ⟨hpc, hborn⟩ := hc.conn pid p hs
            simp only [refStep, hs, slotModify, peerAccept] at hst
            by_cases hu : p.conn.state = .unconnected
            · simp only [hu, ne_eq, not_true_eq_false, if_false] at hst
              cases hcf : Conn6.feed ⟨w.g.now, d⟩ p.conn (fun _ => some (connectPacket p.token)) with
              | error e => simp [hcf] at hst
              | ok cv =>
                obtain ⟨c, o'⟩ := cv
                simp only [hcf] at hst
                by_cases hwn : o'.warns.isEmpty = true
                · by_cases hen : o'.events.isEmpty = true
                  · simp only [hwn, hen, Bool.not_true, Bool.false_eq_true, if_false, Except.ok.injEq,
                      Prod.mk.injEq] at hst
                    obtain ⟨hslot1, _, hofor⟩ := hst
                    obtain ⟨i, alt, dg, hreq, hdg, hwr⟩ := hc.pend pid p hs hu
                    have hgm : ghostMove tl addr w (.net d (.accept pid)) = some (.deliver .b i d alt) := by
                      simp [ghostMove, projOp, ha, hreq]
                    have hrecv : (proto6 tl).recv w.g.now d w.g.b.conn dg.pkt alt =
                        .ok { conn := c, sent := o'.sent, events := o'.events } := by
                      show P6.recv tl w.g.now d w.g.b.conn dg.pkt alt = _
                      have hcg : Conn6.feed ⟨w.g.now, d⟩ p.conn (P6.wireRead tl dg.pkt alt) =
                          Conn6.feed ⟨w.g.now, d⟩ p.conn (fun _ => some (connectPacket p.token)) :=
                        feed_congr _ _ (by rw [hint_unconnected hu, hwr])
                      simp only [P6.recv, ← hpc, hcg, hcf]
                      rfl
                    simp only [ghostStep, hgm, NetSim.step, World.get, Side.other, hdg, hrecv,
                      Option.some.injEq] at hg
                    have hcr : created addr w net1 = false := created_of_some hs
                    refine coup_finish hc hi1 hw hg.symm (by rw [← hofor]; exact lift_sent _ _ _)
                      (by rw [← hofor]; exact lift_vital _ _ _) rfl (by simp [hborn]) ?_
                    intro pid' p1 h'
                    rw [← hslot1] at h'
                    cases h'
                    exact ⟨rfl, fun _ => ⟨by simp [hcr], p, hs, hu, rfl⟩⟩
                  · simp [hwn, hen] at hst
                · simp [hwn] at hst
            · simp [hu] at hst
          · simp [ha] at hp
        | reject pid reason =>
          simp only [projOp] at hp
          by_cases ha : addrOf w.net pid = some addr
          · simp only [ha, if_true, Option.some.injEq] at hp
            subst hp
            obtain ⟨p, hs, _⟩ := slot_of_addrOf hc.pinv ha
            obtain ⟨hpc, hborn⟩ := hc.conn pid p hs
            simp only [refStep, hs, slotRemove] at hst
            cases hpcl : peerClose true ⟨w.g.now, d⟩ reason p with
            | error e => simp [hpcl] at hst
            | ok o' =>
              obtain ⟨c, hcd⟩ := peerClose_ok hpcl
              simp only [hpcl, Except.ok.injEq, Prod.mk.injEq] at hst
              · obtain ⟨hslot1, _, hofor⟩ := hst
                have hgm : ghostMove tl addr w (.net d (.reject pid reason)) =
                    some (.call .b d (.disconnect reason)) := by simp [ghostMove, projOp, ha]
                have hcall : P6.call w.g.now d w.g.b.conn (.disconnect reason) =
                    .ok { conn := c, sent := o'.sent, events := o'.events } := by
                  simp only [P6.call, ← hpc, hcd]
                simp only [ghostStep, hgm, ghost_call_b _ _ _ hcall, Option.some.injEq] at hg
                refine coup_finish hc hi1 hw hg.symm (by rw [← hofor]; exact lift_sent _ _ _)
                  (by rw [← hofor]; exact lift_vital _ _ _) rfl (by simp [hborn]) ?_
                intro pid' p1 h'
                rw [← hslot1] at h'
                cases h'
          · simp [ha] at hp
        | disconnect pid reason =>
          simp only [projOp] at hp
          by_cases ha : addrOf w.net pid = some addr
          · simp only [ha, if_true, Option.some.injEq] at hp
            subst hp
            obtain ⟨p, hs, _⟩ := slot_of_addrOf hc.pinv ha
            obtain ⟨hpc, hborn⟩ := hc.conn pid p hs
            simp only [refStep, hs, slotRemove] at hst
            cases hpcl : peerClose false ⟨w.g.now, d⟩ reason p with
            | error e => simp [hpcl] at hst
            | ok o' =>
              obtain ⟨c, hcd⟩ := peerClose_ok hpcl
              simp only [hpcl, Except.ok.injEq, Prod.mk.injEq] at hst
              · obtain ⟨hslot1, _, hofor⟩ := hst
                have hgm : ghostMove tl addr w (.net d (.disconnect pid reason)) =
                    some (.call .b d (.disconnect reason)) := by simp [ghostMove, projOp, ha]
                have hcall : P6.call w.g.now d w.g.b.conn (.disconnect reason) =
                    .ok { conn := c, sent := o'.sent, events := o'.events } := by
                  simp only [P6.call, ← hpc, hcd]
                simp only [ghostStep, hgm, ghost_call_b _ _ _ hcall, Option.some.injEq] at hg
                refine coup_finish hc hi1 hw hg.symm (by rw [← hofor]; exact lift_sent _ _ _)
                  (by rw [← hofor]; exact lift_vital _ _ _) rfl (by simp [hborn]) ?_
                intro pid' p1 h'
                rw [← hslot1] at h'
                cases h'
          · simp [ha] at hp
        | ignore pid =>
          simp only [projOp] at hp
          by_cases ha : addrOf w.net pid = some addr
          · simp only [ha, if_true, Option.some.injEq] at hp
            subst hp
            obtain ⟨p, hs, _⟩ := slot_of_addrOf hc.pinv ha
            obtain ⟨_, hborn⟩ := hc.conn pid p hs
            simp only [refStep, hs, slotRemove, Except.ok.injEq, Prod.mk.injEq] at hst
            obtain ⟨hslot1, _, hofor⟩ := hst
            exact coup_quiet hc hi1 (by simp [ghostMove, projOp, ha]) rfl (Or.inr ⟨hslot1.symm, hborn⟩)
              (by rw [← hofor]; simp [liftOut]) (by rw [← hofor]; simp [liftOut, vitalOfNet]) hg hw
          · simp [ha] at hp
        | send pid x v =>
          simp only [projOp] at hp
          by_cases ha : addrOf w.net pid = some addr
          · simp only [ha, if_true, Option.some.injEq] at hp
            subst hp
            obtain ⟨p, hs, _⟩ := slot_of_addrOf hc.pinv ha
            obtain ⟨hpc, hborn⟩ := hc.conn pid p hs
            simp only [refStep, hs, slotModify, peerSend] at hst
            cases hcs : Conn6.send ⟨w.g.now, d⟩ p.conn x v with
            | error e => simp [hcs] at hst
            | ok cv =>
              obtain ⟨c, res, o'⟩ := cv
              simp only [hcs, Except.ok.injEq, Prod.mk.injEq] at hst
              obtain ⟨hslot1, hret, hofor⟩ := hst
              have hgm : ghostMove tl addr w (.net d (.send pid x v)) = some (.call .b d (.send x v)) := by
                simp [ghostMove, projOp, ha]
              have hcall : P6.call w.g.now d w.g.b.conn (.send x v) =
                  .ok { conn := c, sent := o'.sent, events := o'.events, accepted := res == .ok } := by
                simp only [P6.call, ← hpc, hcs]
              simp only [ghostStep, hgm, ghost_call_b _ _ _ hcall, Option.some.injEq] at hg
              refine coup_finish hc hi1 hw hg.symm (by rw [← hofor]; exact lift_sent _ _ _)
                (by rw [← hofor]; exact lift_vital _ _ _) ?_ (by simp [hborn]) ?_
              · rw [← hret]
                cases res <;> simp [subOf, callSub, ha]
              · intro pid' p1 h'
                rw [← hslot1] at h'
                cases h'
                exact ⟨rfl, fun hu => absurd hu (nu_send hcs)⟩
          · simp [ha] at hp
        | flush pid =>
          simp only [projOp] at hp
          by_cases ha : addrOf w.net pid = some addr
          · simp only [ha, if_true, Option.some.injEq] at hp
            subst hp
            obtain ⟨p, hs, _⟩ := slot_of_addrOf hc.pinv ha
            obtain ⟨hpc, hborn⟩ := hc.conn pid p hs
            simp only [refStep, hs, slotModify, peerFlush] at hst
            cases hcs : Conn6.flush ⟨w.g.now, d⟩ p.conn with
            | error e => simp [hcs] at hst
            | ok cv =>
              obtain ⟨c, o'⟩ := cv
              simp only [hcs, Except.ok.injEq, Prod.mk.injEq] at hst
              obtain ⟨hslot1, _, hofor⟩ := hst
              have hgm : ghostMove tl addr w (.net d (.flush pid)) = some (.call .b d .flush) := by
                simp [ghostMove, projOp, ha]
              have hcall : P6.call w.g.now d w.g.b.conn .flush =
                  .ok { conn := c, sent := o'.sent, events := o'.events } := by
                simp only [P6.call, ← hpc, hcs]
              simp only [ghostStep, hgm, ghost_call_b _ _ _ hcall, Option.some.injEq] at hg
              refine coup_finish hc hi1 hw hg.symm (by rw [← hofor]; exact lift_sent _ _ _)
                (by rw [← hofor]; exact lift_vital _ _ _) rfl (by simp [hborn]) ?_
              intro pid' p1 h'
              rw [← hslot1] at h'
              cases h'
              exact ⟨rfl, fun hu => absurd hu (nu_flush hcs)⟩
          · simp [ha] at hp
        | tick =>
          simp only [projOp, Option.some.injEq] at hp
          subst hp
          cases hs : slot w.net.peers addr with
          | none =>
            simp only [refStep, hs, Except.ok.injEq, Prod.mk.injEq] at hst
            obtain ⟨hslot1, _, hofor⟩ := hst
            exact coup_quiet hc hi1 (by simp [ghostMove, projOp, hs]) rfl
              (Or.inl (by rw [← hslot1, hs])) (by rw [← hofor]) (by rw [← hofor]; rfl) hg hw
          | some x =>
            obtain ⟨pid, p⟩ := x
            obtain ⟨hpc, hborn⟩ := hc.conn pid p hs
            simp only [refStep, hs] at hst
            cases hct : Conn6.tick ⟨w.g.now, d⟩ p.conn with
            | error e => simp [hct] at hst
            | ok cv =>
              obtain ⟨c, o'⟩ := cv
              simp only [hct, Except.ok.injEq, Prod.mk.injEq] at hst
              obtain ⟨hslot1, _, hofor⟩ := hst
              obtain ⟨hev, hnu⟩ := tick_shape hct
              have hgm : ghostMove tl addr w (.net d .tick) = some (.call .b d .tick) := by
                simp [ghostMove, projOp, hs]
              have hcall : P6.call w.g.now d w.g.b.conn .tick =
                  .ok { conn := c, sent := o'.sent, events := o'.events } := by
                simp only [P6.call, ← hpc, hct]
              simp only [ghostStep, hgm, ghost_call_b _ _ _ hcall, Option.some.injEq] at hg
              have hcr : created addr w net1 = false := created_of_some hs
              refine coup_finish hc hi1 hw hg.symm ?_ ?_ rfl (by simp [hborn]) ?_
              · rw [← hofor]; exact map_snd_tag addr o'.sent
              · rw [← hofor, hev]; rfl
              · intro pid' p1 h'
                rw [← hslot1] at h'
                cases h'
                refine ⟨rfl, fun hu => ⟨by simp [hcr], p, hs, ?_, rfl⟩⟩
                exact Classical.byContradiction fun hpu => hnu hpu hu

/-! ### runs -/

theorem coup_step {tl : Bool} {addr : Nat} {w w' : NW tl} {m : NMove} (hc : Coup addr w)
    (hok : ∀ d op, m = .net d op → opOk w.net op = true) (h : nwStep addr w m = some w') : Coup addr w' := by
  cases m with
  | remCall d c => exact coup_remote (Or.inl ⟨d, c, rfl⟩) hc h
  | toRemote i d alt => exact coup_remote (Or.inr (Or.inl ⟨i, d, alt, rfl⟩)) hc h
  | advance dt => exact coup_remote (Or.inr (Or.inr ⟨dt, rfl⟩)) hc h
  | toNet i d alt => exact coup_toNet hc h
  | net d op => exact coup_net hc (hok d op rfl) h

theorem coup_run {tl : Bool} {addr : Nat} (sched : List NMove) : ∀ (w w' : NW tl), Coup addr w →
    nwOk addr w sched = true → nwRun addr w sched = some w' → Coup addr w' := by
  induction sched with
  | nil => intro w w' hc _ h; simp [nwRun] at h; rw [← h]; exact hc
  | cons m ms ih =>
    intro w w' hc hok h
    simp only [nwRun] at h
    simp only [nwOk, Bool.and_eq_true] at hok
    cases hs : nwStep addr w m with
    | none => simp [hs] at h
    | some w1 =>
      simp only [hs] at h hok
      refine ih w1 w' (coup_step hc ?_ hs) hok.2 h
      intro d op hm
      subst hm
      exact hok.1

/-- the ghost world runs the image of the schedule -/
theorem ghost_run {tl : Bool} {addr : Nat} (sched : List NMove) : ∀ (w w' : NW tl),
    nwRun addr w sched = some w' → NetSim.run w.g (ghostSched addr w sched) = some w'.g := by
  induction sched with
  | nil => intro w w' h; simp [nwRun] at h; rw [← h]; rfl
  | cons m ms ih =>
    intro w w' h
    simp only [nwRun] at h
    cases hs : nwStep addr w m with
    | none => simp [hs] at h
    | some w1 =>
      simp only [hs] at h
      obtain ⟨net1, r, o, g1, _, _, hg, hw⟩ := nwStep_some hs
      have hg1 : w1.g = g1 := by rw [hw]
      simp only [ghostSched, hs]
      unfold ghostStep at hg
      cases hgm : ghostMove tl addr w m with
      | none =>
        simp only [hgm, Option.some.injEq] at hg
        simp only [List.nil_append]
        rw [hg, ← hg1]
        exact ih w1 w' h
      | some gm =>
        simp only [hgm] at hg
        simp only [List.cons_append, List.nil_append, NetSim.run, hg]
        rw [← hg1]
        exact ih w1 w' h

end Tw.NetC01
