import Tw.Proofs.Gamenet

/-! C14, snapshot objects: value → words → value (for objects without `bool` fields). -/
namespace Tw.Gamenet
open Tw.Packer (inI32)

/-- what the member lemma states: the value is written as the cells of some words, and those
words decode to the value -/
def ObjRoundTrips (f : List Int → ORes Val) (g : Val → OEnc) (v : Val) : Prop :=
  ∃ ints, g v = .ok (cellsOf ints) ∧ (∀ x ∈ ints, inI32 x) ∧ ∀ rest, f (ints ++ rest) = .ok v rest

theorem cellsList_orep (f : List Int → ORes Val) (g : Val → OEnc) (p : Val → Bool)
    (h : ∀ v, p v = true → ObjRoundTrips f g v) :
    ∀ (vs : VL), VL.all p vs = true →
      ∃ ints, cellsList g vs = .ok (cellsOf ints) ∧ (∀ x ∈ ints, inI32 x) ∧
        ∀ rest, orep f vs.length (ints ++ rest) = .ok vs rest
  | .nil, _ => ⟨[], by simp [cellsList, cellsOf], by simp, by simp [orep, VL.length]⟩
  | .cons v vs, hp => by
    simp only [VL.all, Bool.and_eq_true] at hp
    obtain ⟨i1, hg1, hi1, hd1⟩ := h v hp.1
    obtain ⟨i2, hg2, hi2, hd2⟩ := cellsList_orep f g p h vs hp.2
    refine ⟨i1 ++ i2, by simp [cellsList, hg1, hg2, OEnc.ok_seq_ok, cellsOf_append], ?_, ?_⟩
    · intro x hx
      rcases List.mem_append.mp hx with hx | hx
      · exact hi1 x hx
      · exact hi2 x hx
    · intro rest
      simp [orep, VL.length, List.append_assoc, hd1 (i2 ++ rest), hd2 rest]

theorem intAny_roundtrips (v : Val) (h : isI32 v = true) :
    ObjRoundTrips (fun i => readIntO i fun x => some (.int x)) (fun | .int x => cellInt x | _ => .badValue) v := by
  cases v with
  | int x =>
    simp only [isI32, decide_eq_true_eq] at h
    exact ⟨[x], by simp [cellInt, h, cellsOf], by simpa using h, by simp [readIntO]⟩
  | _ => simp [isI32] at h

theorem cellsM_decO : ∀ (t : MT) (v : Val), wfO t = true → noBoolM t = true → wtM t v = true →
    ObjRoundTrips (decO t) (cellsM t) v
  | .int32 min max, v, _, _, hwt => by
    cases v with
    | int x =>
      simp only [wtM, Bool.and_eq_true, decide_eq_true_eq] at hwt
      exact ⟨[x], by simp [cellsM, hwt.1, hwt.2, cellsOf], by simpa using hwt.1, by simp [decO, readIntO, hwt.2]⟩
    | _ => simp [wtM] at hwt
  | .enum _ lo n, v, _, _, hwt => by
    cases v with
    | int x =>
      simp only [wtM, Bool.and_eq_true, decide_eq_true_eq] at hwt
      exact ⟨[x], by simp [cellsM, hwt.1, hwt.2, cellsOf], by simpa using hwt.1, by simp [decO, readIntO, hwt.2]⟩
    | _ => simp [wtM] at hwt
  | .flags _ _, v, _, _, hwt => by
    cases v with
    | int x =>
      simp only [wtM, decide_eq_true_eq] at hwt
      exact ⟨[x], by simp [cellsM, cellInt, hwt, cellsOf], by simpa using hwt, by simp [decO, readIntO]⟩
    | _ => simp [wtM] at hwt
  | .tick, v, _, _, hwt => by
    cases v with
    | int x =>
      simp only [wtM, decide_eq_true_eq] at hwt
      exact ⟨[x], by simp [cellsM, cellInt, hwt, cellsOf], by simpa using hwt, by simp [decO, readIntO]⟩
    | _ => simp [wtM] at hwt
  | .twString n, v, _, _, hwt => by
    cases v with
    | list vs =>
      simp only [wtM, Bool.and_eq_true, decide_eq_true_eq] at hwt
      obtain ⟨ints, hg, hi, hd⟩ := cellsList_orep _ _ isI32 intAny_roundtrips vs hwt.2
      refine ⟨ints, ?_, hi, fun rest => ?_⟩
      · simp only [cellsM, hwt.1, if_true]; exact hg
      · have := hd rest
        rw [hwt.1] at this
        simp only [decO]
        rw [this]
    | _ => simp [wtM] at hwt
  | .array n t, v, hw, hn, hwt => by
    cases v with
    | list vs =>
      simp only [wfO] at hw
      simp only [noBoolM] at hn
      simp only [wtM, Bool.and_eq_true, decide_eq_true_eq] at hwt
      obtain ⟨ints, hg, hi, hd⟩ := cellsList_orep (decO t) (cellsM t) (wtM t)
        (fun v hv => cellsM_decO t v hw hn hv) vs hwt.2
      refine ⟨ints, ?_, hi, fun rest => ?_⟩
      · simp only [cellsM, hwt.1, if_true]; exact hg
      · have := hd rest
        rw [hwt.1] at this
        simp only [decO]
        rw [this]
    | _ => simp [wtM] at hwt
  | .boolean, _, _, hn, _ => by simp [noBoolM] at hn
  | .object _, _, hw, _, _ => by simp [wfO] at hw
  | .tuneParam, _, hw, _, _ => by simp [wfO] at hw
  | .string _, _, hw, _, _ => by simp [wfO] at hw
  | .int32String, _, hw, _, _ => by simp [wfO] at hw
  | .data, _, hw, _, _ => by simp [wfO] at hw
  | .rest, _, hw, _, _ => by simp [wfO] at hw
  | .raw _, _, hw, _, _ => by simp [wfO] at hw
  | .beUint16, _, hw, _, _ => by simp [wfO] at hw
  | .uint8, _, hw, _, _ => by simp [wfO] at hw
  | .packedAddresses, _, hw, _, _ => by simp [wfO] at hw
  | .serverinfoClient, _, hw, _, _ => by simp [wfO] at hw
  | .optional _, _, hw, _, _ => by simp [wfO] at hw

theorem cellsMs_decOs : ∀ (ms : ML) (vs : VL) (off : Nat), wfOs ms = true → noBool ms = true →
    wtMs ms vs = true → off % 4 = 0 →
    ∃ ints, cellsMs ms vs off = .ok (cellsOf ints) ∧ (∀ x ∈ ints, inI32 x) ∧
      ∀ rest, decOs ms (ints ++ rest) = .ok vs rest
  | .nil, vs, off, _, _, hwt, _ => by
    cases vs with
    | nil => exact ⟨[], by simp [cellsMs, cellsOf], by simp, by simp [decOs]⟩
    | cons _ _ => simp [wtMs] at hwt
  | .cons t ms, vs, off, hw, hn, hwt, ho => by
    cases vs with
    | nil => simp [wtMs] at hwt
    | cons v vs =>
      simp only [wfOs, Bool.and_eq_true] at hw
      simp only [noBool, Bool.and_eq_true] at hn
      simp only [wtMs, Bool.and_eq_true] at hwt
      obtain ⟨i1, hg1, hi1, hd1⟩ := cellsM_decO t v hw.1 hn.1 hwt.1
      have ha := alignM_noBool t hn.1 hw.1
      have hpad : (4 - off % 4) % 4 = 0 := by omega
      have ho' : (off + (cellsOf i1).length) % 4 = 0 := by rw [cellsOf_length]; omega
      obtain ⟨i2, hg2, hi2, hd2⟩ := cellsMs_decOs ms vs (off + (cellsOf i1).length) hw.2 hn.2 hwt.2 ho'
      refine ⟨i1 ++ i2, by simp [cellsMs, ha, hpad, hg1, hg2, OEnc.ok_seq_ok, cellsOf_append], ?_, ?_⟩
      · intro x hx
        rcases List.mem_append.mp hx with hx | hx
        · exact hi1 x hx
        · exact hi2 x hx
      · intro rest
        simp [decOs, List.append_assoc, hd1 (i2 ++ rest), hd2 rest]

/-- A value the description admits is exposed as words that decode to exactly that value. -/
theorem encodeObj_decodeObj (ms : ML) (v : VL) (hwf : wfOs ms = true) (hnb : noBool ms = true)
    (hne : ms ≠ .nil) (hwt : wtMs ms v = true) :
    ∃ ints, encodeObj ms v = .ok (ints.map some) ∧ (∀ x ∈ ints, inI32 x) ∧
      decodeObjMembers ms ints = .ok v false := by
  obtain ⟨ints, hc, hi, hd⟩ := cellsMs_decOs ms v 0 hwf hnb hwt (by rfl)
  refine ⟨ints, ?_, hi, ?_⟩
  · have hsa := structAlign_noBool ms hne hwf hnb
    have hlen := cellsOf_length ints
    simp only [encodeObj, hc, hsa]
    have h1 : ((cellsOf ints).length + (4 - (cellsOf ints).length % 4) % 4) = 4 * ints.length := by omega
    simp only [h1]
    have h2 : (4 * ints.length) % 4 = 0 := by omega
    have h3 : 4 * ints.length / 4 = ints.length := by omega
    have h4 : 4 * ints.length - (cellsOf ints).length = 0 := by omega
    simp [h2, h3, h4, words_cellsOf ints hi]
  · have := hd []
    simp at this
    simp [decodeObjMembers, this]

end Tw.Gamenet
